/-
Operands with prefix operators, model side, part 2: the complete effect of a binary-operator token on a state that
satisfies `FragInv` (`op_effect`: it succeeds, the state is "open", and ANY operand subtree hung below the new node
yields the tree `insertS .. sub T`), and of a whole item `trivia* binop trivia* prefix* value` (`operand_step`).
-/
import Garnish.Lemmas.ParserPrefix

namespace Garnish.Spec
open Garnish Garnish.Gen Garnish.Model.Parser

theorem step_binop_nextParent (st st1 : PState) (o : PToken) (ho : isBinopTok o = true) (hnl : st.nextLastLeft = none)
    (hcg : st.currentGroup = none) (hadj : adjustLastLeft st none = .ok st) (h : step st o false = .ok st1) :
    st1.nextParent = some st.nodes.size := by
  unfold step at h
  have hu : underGroupOf st = .ok none := by simp [underGroupOf, hcg]
  simp only [hu, hadj, Outcome.bind] at h
  unfold isBinopTok at ho
  obtain ⟨f1, f2, _, _⟩ := binop_def_facts o.type ho
  generalize getDefinition o.type = ds at h ho f1 f2 ⊢
  obtain ⟨d, so⟩ := ds
  simp only at h ho f1 f2 ⊢
  split at h
  · cases h
  · have hso : so = .binaryLeftToRight ∨ so = .binaryRightToLeft := by
      simpa [Bool.or_eq_true, beq_iff_eq] using ho
    have hdisp : ∀ (stx : PState) (ar : Option Nat),
        dispatch stx st.nodes.size o d so ar none =
          parseTokenSt { stx with nextParent := some st.nodes.size } st.nodes.size d stx.lastLeft ar none
            (so == .binaryRightToLeft) := by
      intro stx ar
      rcases hso with hso | hso <;> subst hso <;> rfl
    rw [hdisp] at h
    simp only [parseTokenSt] at h
    obtain ⟨⟨stp, info⟩, hd, h⟩ := bind_ok h
    obtain ⟨⟨nodes', info'⟩, hpt, hd⟩ := bind_ok hd
    injection hd with hd; injection hd with e1 e2; subst e1; subst e2
    obtain ⟨hsz, hdef⟩ := parseToken_size_def hpt
    simp only [pushNode, hdef, f1, if_true, hnl] at h
    injection h with h; subst h
    rfl

/-- any run of trivia between an operator-like node and a prefix-operator token -/
theorem loop_trivia_then_prefix (p : PToken) (post : List PToken) (hp : isPrefixTok p = true) (hpost : post ≠ []) :
    ∀ (ws : List PToken) (st : PState), (∀ w ∈ ws, isTriviaTok w = true) → TrivOK st → st.checkForList = false →
      st.nextLastLeft = none → st.currentGroup = none →
      checkComposition st.previousSecondDef .unaryPrefix false = true →
      loop st (ws ++ p :: post) = loop st (p :: post) := by
  intro ws
  induction ws with
  | nil => intro st _ _ _ _ _ _; rfl
  | cons w ws ih =>
    intro st hws ht hc hnl hcg hcomp
    have hw : isTriviaTok w = true := hws w (List.mem_cons_self ..)
    have hcw : checkComposition (getDefinition w.type).2 SecDef.unaryPrefix false = true := by
      rcases trivia_secdef hw with h | h <;> rw [h] <;> rfl
    have hug : underGroupOf st = .ok none := by simp [underGroupOf, hcg]
    simp only [List.cons_append, loop]
    have he : (ws ++ p :: post).isEmpty = false := by cases ws <;> rfl
    rw [he, step_trivia st w false hw ht hnl, hug]
    simp only [Outcome.bind]
    rw [ih { st with previousSecondDef := (getDefinition w.type).2, lastToken := w }
      (fun x hx => hws x (List.mem_cons_of_mem _ hx)) ht hc hnl hcg hcw]
    simp only [loop]
    have hpe : post.isEmpty = false := by cases post <;> simp_all
    rw [hpe]
    have ht2 : TrivOK { st with previousSecondDef := (getDefinition w.type).2, lastToken := w } := ht
    have e1 := step_prefix_eq { st with previousSecondDef := (getDefinition w.type).2, lastToken := w } p hp hc hnl hcg
      (adjustLastLeft_trivOK ht2 none) hcw
    rw [e1, step_prefix_eq st p hp hc hnl hcg (adjustLastLeft_trivOK ht none) hcomp]
    rfl

/-- **the effect of a binary-operator token** on a state that represents the tree `T` -/
theorem op_effect {st : PState} {T : Tree} {rt : Nat} {o : PToken} (hinv : FragInv st T rt) (ho : isBinopTok o = true) :
    ∃ (q : Nat) (nodes' : Array ParseNode) (info : Info) (st1 : PState),
      priority (getDefinition o.type).1 = some q ∧ 10 < q ∧ step st o false = .ok st1 ∧
      st1.nodes = nodes'.push ⟨(getDefinition o.type).1, (getDefinition o.type).2, info.parent, info.left,
        some (st.nodes.size + 1), o⟩ ∧
      nodes'.size = st.nodes.size ∧ OpenInv st1 ∧ st1.lastLeft = some st.nodes.size ∧
      (∀ j, j < st.nodes.size → (nodes'[j]?).map (·.definition) = (st.nodes[j]?).map (·.definition)) ∧
      (∀ (arr : Array ParseNode) (sub : Tree) (ko : Nat), (∀ j, j < st.nodes.size → arr[j]? = nodes'[j]?) →
        (∃ on, arr[st.nodes.size]? = some on ∧ on.parent = info.parent ∧ on.left = info.left ∧
          on.right = some (st.nodes.size + 1) ∧ tokPos on = ko) →
        IsTreeAt arr (some st.nodes.size) (some (st.nodes.size + 1)) sub →
        ∃ rt', IsTreeAt arr none (some rt')
          (insertS (prioAt st.nodes) q ((getDefinition o.type).2 == .binaryRightToLeft) st.nodes.size ko sub T)) := by
  have hinv' := hinv
  obtain ⟨htree, hin, hpos, hll, hcfl, hnnl, hgs, hcg, hprios, ⟨bnd, hb1, hb2⟩, hprev⟩ := hinv
  have ho' := ho
  unfold isBinopTok at ho'
  obtain ⟨q, hq, hq10⟩ := binop_prio o.type ho'
  obtain ⟨f1, f2, f3, f4⟩ := binop_def_facts o.type ho'
  have hso := binop_secdef ho
  obtain ⟨hadj, _, _⟩ := fragInv_adjust hinv'
  have hchain : Chain st.nodes (rspineUp T) := by
    have := chain_of_tree hprios htree [] trivial rfl
    simpa using this
  have hhead : (rspineUp T).head? = some (st.nodes.size - 1) := by
    rw [rspineUp_head, hin, List.getLast?_range]; simp [Nat.ne_of_gt hpos]
  have hlen : (rspineUp T).length ≤ st.nodes.size := by
    have := rspineUp_length T; rw [hin] at this; simpa using this
  have hwalk := walkLoop_chain st.nodes q ((getDefinition o.type).2 == .binaryRightToLeft) (rspineUp T)
    (st.nodes.size + 1) 0 (some (st.nodes.size - 1)) hchain (by omega) (by omega)
  rw [hhead] at hwalk
  have hbot : bottomOK (prioAt st.nodes) q ((getDefinition o.type).2 == .binaryRightToLeft) T := by
    apply bottomOK_of_last
    intro b hb
    rw [hin, List.getLast?_range] at hb
    simp only [Nat.ne_of_gt hpos, if_false, Option.some.injEq] at hb
    subst hb
    have : prioAt st.nodes (st.nodes.size - 1) = 10 := by simp [prioAt, hb1, hb2]
    rw [this]; exact stops_ten _ hq10
  have hnd : T.inorder.Nodup := by rw [hin]; exact List.nodup_range
  have hmem : ∀ j, j ∈ T.inorder ↔ j < st.nodes.size := by intro j; rw [hin]; exact List.mem_range
  -- case analysis on the walk: `parse_token` succeeds; its result
  rcases hw : walkSpec st.nodes q ((getDefinition o.type).2 == .binaryRightToLeft) (some (st.nodes.size - 1))
    (rspineUp T) with ⟨tl, par⟩
  rw [hw] at hwalk
  have key : ∃ (nodes' : Array ParseNode) (info : Info), parseToken st.nodes.size (getDefinition o.type).1 (some (st.nodes.size - 1))
      (some (st.nodes.size + 1)) st.nodes none ((getDefinition o.type).2 == .binaryRightToLeft) = .ok (nodes', info) ∧
      info.right = some (st.nodes.size + 1) ∧
      (∀ j, j < st.nodes.size → (nodes'[j]?).map (·.definition) = (st.nodes[j]?).map (·.definition)) ∧
      (∀ (arr : Array ParseNode) (sub : Tree) (ko : Nat), (∀ j, j < st.nodes.size → arr[j]? = nodes'[j]?) →
        (∃ on, arr[st.nodes.size]? = some on ∧ on.parent = info.parent ∧ on.left = info.left ∧
          on.right = some (st.nodes.size + 1) ∧ tokPos on = ko) →
        IsTreeAt arr (some st.nodes.size) (some (st.nodes.size + 1)) sub →
        ∃ rt', IsTreeAt arr none (some rt')
          (insertS (prioAt st.nodes) q ((getDefinition o.type).2 == .binaryRightToLeft) st.nodes.size ko sub T)) := by
    cases par with
    | some x =>
      obtain ⟨hS0, _⟩ := walk_insertS st.nodes q ((getDefinition o.type).2 == .binaryRightToLeft) st.nodes.size 0 .nil none
        htree rt rfl hnd hbot (some (st.nodes.size - 1))
      obtain ⟨tlv, _, nx, e1, m1, m2, ne, hx, hxr, _, _⟩ := hS0 tl x hw
      subst e1
      obtain ⟨nodes', info, h⟩ := parseToken_stop_ok (id := st.nodes.size) (right := some (st.nodes.size + 1)) hq hwalk ne
        hx hxr ((hmem tlv).mp m1)
      obtain ⟨hinfo, hg⟩ := parseToken_stop hq hwalk ne hx hxr h
      refine ⟨nodes', info, h, by rw [hinfo], ?_, ?_⟩
      · intro j _
        rw [hg j]
        split
        · exact map_def_setParent _ _
        · split
          · exact map_def_setRight _ _
          · rfl
      · intro arr sub ko hlt hon hsub
        obtain ⟨hS, _⟩ := walk_insertS st.nodes q ((getDefinition o.type).2 == .binaryRightToLeft) st.nodes.size ko sub (some (st.nodes.size + 1))
          htree rt rfl hnd hbot (some (st.nodes.size - 1))
        obtain ⟨tlv', t', nx', e1', _, _, _, _, _, habs, harr⟩ := hS (some tlv) x hw
        injection e1' with e1'; subst e1'
        refine ⟨rt, ?_⟩
        unfold insertS; rw [habs]
        apply harr arr
        · intro j hj h1 h2
          rw [hlt j ((hmem j).mp hj), hg j, if_neg h1, if_neg h2]
        · rw [hlt tlv ((hmem tlv).mp m1), hg tlv, if_pos rfl]
        · rw [hlt x ((hmem x).mp m2), hg x, if_neg (fun e => ne e.symm), if_pos rfl]
        · obtain ⟨on, o1, o2, o3, o4, o5⟩ := hon
          exact ⟨⟨on, o1, by rw [o2, hinfo], by rw [o3, hinfo], o4, o5⟩, hsub⟩
    | none =>
      obtain ⟨_, hN0⟩ := walk_insertS st.nodes q ((getDefinition o.type).2 == .binaryRightToLeft) st.nodes.size 0 .nil none
        htree rt rfl hnd hbot (some (st.nodes.size - 1))
      obtain ⟨e1, _, _⟩ := hN0 tl hw
      subst e1
      have hrt : rt < st.nodes.size := (hmem rt).mp htree.root_mem
      obtain ⟨nodes', info, h⟩ := parseToken_root_ok (id := st.nodes.size) (right := some (st.nodes.size + 1)) hq hwalk hrt
      obtain ⟨hinfo, hg⟩ := parseToken_root hq hwalk h
      refine ⟨nodes', info, h, by rw [hinfo], ?_, ?_⟩
      · intro j _
        rw [hg j]
        split
        · exact map_def_setParent _ _
        · rfl
      · intro arr sub ko hlt hon hsub
        obtain ⟨_, hN⟩ := walk_insertS st.nodes q ((getDefinition o.type).2 == .binaryRightToLeft) st.nodes.size ko sub (some (st.nodes.size + 1))
          htree rt rfl hnd hbot (some (st.nodes.size - 1))
        obtain ⟨_, habs, harr⟩ := hN (some rt) hw
        refine ⟨st.nodes.size, ?_⟩
        unfold insertS; rw [habs]
        obtain ⟨on, o1, o2, o3, o4, o5⟩ := hon
        apply newOpS_isTreeAt (llink := some rt) (rlink := some (st.nodes.size + 1))
        · exact ⟨⟨on, o1, by rw [o2, hinfo], by rw [o3, hinfo], o4, o5⟩, hsub⟩
        · apply harr arr
          · intro j hj h1
            rw [hlt j ((hmem j).mp hj), hg j, if_neg h1]
          · rw [hlt rt hrt, hg rt, if_pos rfl]
  obtain ⟨nodes', info, hpt, hir, hdefs, htreeK⟩ := key
  obtain ⟨st1, h1⟩ := step_binop_ok st o ho hcg hadj (by rw [hcfl]; exact composition_atom_binop _ _ hprev hso)
    ⟨nodes', info, by rw [hll]; exact hpt⟩
  obtain ⟨nodes1, info1, hpt1, hn1, hl1, hc1, hnl1, hgs1, hcg1, hp1⟩ := step_binop_spec st st1 o ho hnnl hcg hadj h1
  have hnp1 := step_binop_nextParent st st1 o ho hnnl hcg hadj h1
  rw [hll, hpt] at hpt1
  injection hpt1 with hpt1; injection hpt1 with e1 e2; subst e1; subst e2
  have hsz' : nodes'.size = st.nodes.size := (parseToken_size_def hpt).1
  rw [hir] at hn1
  refine ⟨q, nodes', info, st1, hq, hq10, h1, hn1, hsz', ?_, hl1, hdefs, htreeK⟩
  have hs1 : st1.nodes.size = st.nodes.size + 1 := by rw [hn1]; simp [hsz']
  refine ⟨hc1, hnl1, by rw [hgs1, hgs], hcg1, by rw [hnp1, hl1], Or.inr ?_, ?_⟩
  · refine ⟨⟨(getDefinition o.type).1, (getDefinition o.type).2, info.parent, info.left, some (st.nodes.size + 1), o⟩,
      q, by omega, by rw [hl1, hs1]; rfl, ?_, hq, hq10, by rw [hs1], f3, f4⟩
    rw [hs1, hn1, Nat.add_sub_cancel, Array.getElem?_push, if_pos hsz'.symm]
  · rw [hp1]
    rcases hso with h | h <;> rw [h] <;> simp

end Garnish.Spec
