/-
`optimize` re-points every root to a cell of the RIGHT KIND: the register head and every `previous` link of a register
cell lead to register cells, the frame head and every `previous` link of a frame cell lead to frame cells, the registers
a frame saved are register cells — in the compacted block as before it.  (The compaction copies cells with their
labels — `Prov`, Lemmas/MutProv.lean — and the heads are looked up in the map of the copies.)
Together with `optimize_wfq`: the chain typing of `BInv` (Lemmas/BasicLaws.lean) is kept by `optimize`.
-/
import Garnish.Lemmas.MutStale
import Garnish.Lemmas.BasicLaws
set_option linter.unusedSimpArgs false
set_option linter.unusedVariables false
set_option maxHeartbeats 4000000
namespace Garnish.BasicOpt
open Garnish Garnish.Lemmas.Runtime.Basic

/-- a register cell, by its label -/
def regLabel : Cell → Bool
  | .register _ _ | .registerRoot _ => true
  | _ => false

/-- the kind of the cell at an address -/
def kindAt (K : Cell → Bool) (cells : Array Cell) (a : Nat) : Bool :=
  match cells[a]? with
  | some c => K c
  | none => false

theorem isRegCell_kind (cells : Array Cell) (a : Nat) : isRegCell cells a = kindAt regLabel cells a := by
  unfold isRegCell kindAt
  cases cells[a]? with
  | none => rfl
  | some c => cases c <;> rfl

theorem isFrameCell_kind (cells : Array Cell) (a : Nat) : isFrameCell cells a = kindAt frameKind cells a := by
  unfold isFrameCell kindAt
  cases cells[a]? with
  | none => rfl
  | some c => cases c <;> rfl

/-- the label of a shape has the kind of the cell -/
theorem label_reg {cells : Array Cell} {a : Nat} {sh : Shape} (h : shape cells a = some sh) :
    regLabel sh.label = kindAt regLabel cells a := by
  unfold shape at h
  unfold kindAt
  cases hc : cells[a]? with
  | none => simp [hc] at h
  | some c =>
    rw [hc] at h
    cases c <;> simp only [] at h <;> try (simp at h; done)
    all_goals first
      | (simp only [Option.some.injEq] at h; subst h; rfl)
      | (simp only [Option.map_eq_some_iff] at h; obtain ⟨t, _, rfl⟩ := h; rfl)
      | (split at h
         · simp only [Option.some.injEq] at h; subst h; rfl
         · simp at h)

theorem label_frm {cells : Array Cell} {a : Nat} {sh : Shape} (h : shape cells a = some sh) :
    frameKind sh.label = kindAt frameKind cells a := by
  unfold shape at h
  unfold kindAt
  cases hc : cells[a]? with
  | none => simp [hc] at h
  | some c =>
    rw [hc] at h
    cases c <;> simp only [] at h <;> try (simp at h; done)
    all_goals first
      | (simp only [Option.some.injEq] at h; subst h; rfl)
      | (simp only [Option.map_eq_some_iff] at h; obtain ⟨t, _, rfl⟩ := h; rfl)
      | (split at h
         · simp only [Option.some.injEq] at h; subst h; rfl
         · simp at h)

/-- a cell determines the label and the links of its shape (the cells of the two chains) -/
theorem shape_chain_cell {cells : Array Cell} {a : Nat} {sh : Shape} (h : shape cells a = some sh) {c : Cell}
    (hc : cells[a]? = some c) :
    (∀ p v, c = Cell.register p v → sh.label = Cell.register 0 0 ∧ sh.kids = [p, v]) ∧
    (∀ p r, c = Cell.frame p r → sh.label = Cell.frame 0 0 ∧ sh.kids = [p, r]) ∧
    (∀ p, c = Cell.frameIndex p → sh.label = Cell.frameIndex 0 ∧ sh.kids = [p]) ∧
    (∀ r, c = Cell.frameRegister r → sh.label = Cell.frameRegister 0 ∧ sh.kids = [r]) := by
  unfold shape at h
  rw [hc] at h
  refine ⟨?_, ?_, ?_, ?_⟩
  · intro p v e; subst e
    simp only [Option.some.injEq] at h; subst h; exact ⟨rfl, rfl⟩
  · intro p r e; subst e
    simp only [Option.map_eq_some_iff] at h; obtain ⟨t, _, rfl⟩ := h; exact ⟨rfl, rfl⟩
  · intro p e; subst e
    simp only [Option.map_eq_some_iff] at h; obtain ⟨t, _, rfl⟩ := h; exact ⟨rfl, rfl⟩
  · intro r e; subst e
    simp only [Option.map_eq_some_iff] at h; obtain ⟨t, _, rfl⟩ := h; exact ⟨rfl, rfl⟩

/-- a label of one of the chain kinds determines the cell -/
theorem chain_label_cell {cells : Array Cell} {a : Nat} {sh : Shape} (h : shape cells a = some sh) :
    (sh.label = Cell.register 0 0 → ∃ p v, cells[a]? = some (Cell.register p v)) ∧
    (sh.label = Cell.frame 0 0 → ∃ p r, cells[a]? = some (Cell.frame p r)) ∧
    (sh.label = Cell.frameIndex 0 → ∃ p, cells[a]? = some (Cell.frameIndex p)) ∧
    (sh.label = Cell.frameRegister 0 → ∃ r, cells[a]? = some (Cell.frameRegister r)) := by
  unfold shape at h
  cases hc : cells[a]? with
  | none => simp [hc] at h
  | some c =>
    rw [hc] at h
    cases c <;> simp only [] at h <;> try (simp at h; done)
    all_goals first
      | (simp only [Option.some.injEq] at h; subst h
         refine ⟨?_, ?_, ?_, ?_⟩ <;> intro hl <;> simp only [] at hl <;> first | (cases hl; done) | exact ⟨_, _, rfl⟩ | exact ⟨_, rfl⟩)
      | (simp only [Option.map_eq_some_iff] at h; obtain ⟨t, _, rfl⟩ := h
         refine ⟨?_, ?_, ?_, ?_⟩ <;> intro hl <;> simp only [] at hl <;> first | (cases hl; done) | exact ⟨_, _, rfl⟩ | exact ⟨_, rfl⟩)
      | (split at h
         · simp only [Option.some.injEq] at h; subst h
           refine ⟨?_, ?_, ?_, ?_⟩ <;> intro hl <;> simp only [] at hl <;> cases hl
         · simp at h)

theorem AllRel.get {α β} {R : α → β → Prop} : ∀ {l : List α} {l' : List β}, AllRel R l l' →
    ∀ (n : Nat) (a : α) (b : β), l[n]? = some a → l'[n]? = some b → R a b
  | _, _, .nil, n, a, b, h, _ => by simp at h
  | _, _, .cons hab t, 0, a, b, h1, h2 => by
    simp at h1 h2; subst h1; subst h2; exact hab
  | _, _, .cons hab t, n + 1, a, b, h1, h2 => by
    simp at h1 h2; exact AllRel.get t n a b h1 h2

/-- the chain typing of a store: heads and `previous` links of the register and frame chains lead to cells of their
kind, the registers a frame saved are register cells (frame cells: the readable ones, i.e. with their return point) -/
structure ChainTyped (s : Store) : Prop where
  regHead : ∀ a, s.currentRegister = some a → isRegCell s.cells a = true
  regPrev : ∀ (i p v : Nat), s.cells[i]? = some (Cell.register p v) → isRegCell s.cells p = true
  frmHead : ∀ a, s.currentFrame = some a → isFrameCell s.cells a = true
  frmPrev : ∀ (i p : Nat), isNode s.cells i = true →
    ((∃ r, s.cells[i]? = some (Cell.frame p r)) ∨ s.cells[i]? = some (Cell.frameIndex p)) → isFrameCell s.cells p = true
  frmReg : ∀ (i r : Nat), isNode s.cells i = true →
    ((∃ p, s.cells[i]? = some (Cell.frame p r)) ∨ s.cells[i]? = some (Cell.frameRegister r)) → isRegCell s.cells r = true

theorem chainTyped_of_binv {st : Garnish.Model.Runtime.Basic.BState} (h : BInv st) : ChainTyped st.store :=
  ⟨h.regHead, h.regPrev, h.ftyped.head, fun i p _ hc => h.ftyped.prev i p hc, fun i r _ hc => h.ftyped.reg i r hc⟩

/-- **optimize keeps the chain typing** -/
theorem optimize_chainTyped {s s' : Store} {roots m : List Nat} (hwf : WFq s) (hroots : rootsOK s roots = true)
    (hstale : NoStale s) (hty : ChainTyped s) (h : Store.optimize s roots = .ok (s', m)) : ChainTyped s' := by
  obtain ⟨hr, hbody⟩ := optimize_ok h
  obtain ⟨s5, s6, sR, hinv, hc0A, hret6, hstart6, hval6, hR, tf, hidx, hnoidx, hloopX, hret5⟩ :=
    optimizeBody_coreX hbody hr hwf.listsWF
  have hpre := indexPhase_preq hwf hroots hidx
  have hfresh := hinv.fresh hpre
  -- provenance of the copies
  have hprov : Prov (s5.cells.size - s.retention) s.cells s6 s5.cells.size := by
    rcases hloopX with hloop | ⟨e1, e2⟩
    · have hinv0 : CInv (s5.cells.size - s.retention) s.cells s5 s.cells.size s5.cells.size
          (s5.cells.size - s.cells.size) s5 :=
        ⟨indexPhase_agree hidx, rfl, rfl, Nat.le_refl _, by omega, fun _ _ _ => rfl, fun j hj1 hj2 => by omega,
          fun _ j h1 h2 => by omega⟩
      exact cloneLoop_prov (Nat.le_refl _) hwf.listsWF (Or.inr (by rw [hret5]; omega)) (by rw [hret5]; omega) hpre
        _ _ _ hinv0 (fun j h1 h2 => by omega) hloop
    · intro j h1 h2
      rw [e1] at h2; omega
  -- the re-pointing loop
  obtain ⟨eR, hszR, hkeep, hrep⟩ := repoint_facts hwf hinv.agree0 hret6 hr hR
  have hhigh : ∀ j, s.cells.size ≤ j → sR.cells[j]? = s6.cells[j]? :=
    fun j hj => hkeep j (fun ⟨h1, _⟩ => by have := onHead_lt h1; omega)
  have hlinkR : ∀ x x', Link sR s.cells.size s5.cells.size x x' → Link s6 s.cells.size s5.cells.size x x' :=
    fun x x' hl => Link.mono (Nat.le_refl _) eR.frame.1.symm (fun j hj1 _ => (hhigh j hj1).symm) hl
  have hu6 : SVUpd s6.cells sR.cells := by
    refine ⟨hszR, fun j => ?_⟩
    by_cases hj : OnHead s.cells s.currentValue j ∧ j < s.retention
    · right
      rcases hrep j hj.1 hj.2 with ⟨p, v, v', h1, h2, _⟩ | ⟨v, v', h1, h2, _⟩
      · exact ⟨by simp [svAt, hinv.agree0 _ _ h1, isSV], by simp [svAt, h2, isSV]⟩
      · exact ⟨by simp [svAt, hinv.agree0 _ _ h1, isSV], by simp [svAt, h2, isSV]⟩
    · exact Or.inl (hkeep j hj)
  have hs6cell : ∀ i, i < s.cells.size → s6.cells[i]? = s.cells[i]? := by
    intro i hi
    obtain ⟨c, hc⟩ : ∃ c, s.cells[i]? = some c := ⟨s.cells[i], by simp [hi]⟩
    rw [hc]; exact hinv.agree0 i c hc
  -- the retained prefix of the result, cell by cell
  have hA : ∀ i, i < s.retention →
      (s'.cells[i]? = s.cells[i]? ∧ (∀ v, ((∃ p, s.cells[i]? = some (.value p v)) ∨ s.cells[i]? = some (.valueRoot v)) →
        v < s.retention)) ∨
      (∃ p v v', s.cells[i]? = some (.value p v) ∧ s'.cells[i]? = some (.value p v') ∧
        Link s6 s.cells.size s5.cells.size v v') ∨
      (∃ v v', s.cells[i]? = some (.valueRoot v) ∧ s'.cells[i]? = some (.valueRoot v') ∧
        Link s6 s.cells.size s5.cells.size v v') := by
    intro i hi
    by_cases hon : OnHead s.cells s.currentValue i
    · rcases hrep i hon hi with ⟨p, v, v', h1, h2, h3⟩ | ⟨v, v', h1, h2, h3⟩
      · exact Or.inr (Or.inl ⟨p, v, v', h1, by rw [tf.pre i hi]; exact h2, h3⟩)
      · exact Or.inr (Or.inr ⟨v, v', h1, by rw [tf.pre i hi]; exact h2, h3⟩)
    · refine Or.inl ⟨by rw [tf.pre i hi, hkeep i (fun ⟨h1, _⟩ => hon h1), hs6cell i (by omega)], ?_⟩
      intro v hv
      rcases hstale i v hi hv with h | h
      · exact h
      · exact absurd h hon
  -- sizes
  have hszV : s.retention ≤ s'.cells.size := by
    rcases Nat.lt_or_ge s'.cells.size s.retention with hlt | hge
    · exfalso
      have h1 := tf.pre s'.cells.size hlt
      rw [Array.getElem?_eq_none (Nat.le_refl _)] at h1
      have hlt2 : s'.cells.size < sR.cells.size := by rw [hszR]; have := hinv.hiLe; omega
      rw [Array.getElem?_eq_getElem hlt2] at h1; cases h1
    · exact hge
  -- `W`: the original block with the re-pointed chain cells; `P`: its retained prefix
  let W := sR.cells.extract 0 s.cells.size
  have hWsz : W.size = s.cells.size := by
    simp only [W, Array.size_extract]; rw [hszR]; have := hinv.hiLe; omega
  have hWcell : ∀ i, i < s.cells.size → W[i]? = sR.cells[i]? := by
    intro i hi
    simp only [W]; rw [Array.getElem?_extract]; simp; rw [hszR]; have := hinv.hiLe; omega
  have hW : SVUpd s.cells W := by
    refine ⟨hWsz, fun j => ?_⟩
    by_cases hj : j < s.cells.size
    · rcases hu6.2 j with e | ⟨e1, e2⟩
      · left; rw [hWcell j hj, e, hs6cell j hj]
      · right
        simp only [svAt, hs6cell j hj] at e1
        exact ⟨by simpa [svAt] using e1, by simpa [svAt, hWcell j hj] using e2⟩
    · left
      rw [Array.getElem?_eq_none (by omega), Array.getElem?_eq_none (by omega)]
  let P := W.extract 0 s.retention
  have hPsz : P.size = s.retention := by simp only [P, Array.size_extract]; omega
  have hPcell : ∀ i, i < s.retention → P[i]? = s'.cells[i]? := by
    intro i hi
    simp only [P]; rw [Array.getElem?_extract, tf.pre i hi, ← hWcell i (by omega)]; simp; omega
  have hPW : SVUpd (s.cells.extract 0 s.retention) P := hW.extract s.retention
  have hcellsV : s'.cells = P ++ s'.cells.extract P.size s'.cells.size :=
    prefix_append (by rw [hPsz]; exact hszV) (fun i hi => by rw [hPsz] at hi; exact (hPcell i hi).symm)
  have hexcell : ∀ i, i < s.retention → (s.cells.extract 0 s.retention)[i]? = s.cells[i]? := by
    intro i hi
    rw [Array.getElem?_extract]; simp; omega
  -- shapes in the retained prefix
  have hshapeP : ∀ i, i < s.retention → s'.cells[i]? = s.cells[i]? → shape P i = shape s.cells i := by
    intro i hi hsame
    have hext := hwf.extent i hi
    simp only [extentOK, decide_eq_true_eq] at hext
    rw [← hext]
    exact hPW.shape_same (by rw [hPcell i hi, hexcell i hi, hsame])
  have hhP : ∀ i, i < P.size → headerOK P i = true := by
    intro i hi
    rw [hPsz] at hi
    have hlt : i < s.cells.size := by omega
    have hold := hwf.headers i hlt
    rcases hA i hi with ⟨e, _⟩ | ⟨p, v, v', h1, h2, _⟩ | ⟨v, v', h1, h2, _⟩
    · simp only [headerOK, hPcell i hi, e, isNode, hshapeP i hi e] at hold ⊢
      exact hold
    · simp [headerOK, hPcell i hi, h2]
    · simp [headerOK, hPcell i hi, h2]
  have hshapeVP : ∀ i, i < s.retention → shape s'.cells i = shape P i := by
    intro i hi
    rw [hcellsV]; exact shape_append_eq P _ hhP (by rw [hPsz]; exact hi)
  have hshapeOld : ∀ i, i < s.retention → s'.cells[i]? = s.cells[i]? → shape s'.cells i = shape s.cells i :=
    fun i hi hsame => (hshapeVP i hi).trans (hshapeP i hi hsame)
  have hnodeOld : ∀ k, k < s.retention → isNode s.cells k = true → isNode s'.cells k = true := by
    intro k hk hn
    rcases hA k hk with ⟨e, _⟩ | ⟨p, v, v', h1, h2, _⟩ | ⟨v, v', h1, h2, _⟩
    · simp only [isNode, hshapeOld k hk e]; exact hn
    · exact sv_isNode (by simp [svAt, h2, isSV])
    · exact sv_isNode (by simp [svAt, h2, isSV])
  have hsvOld : ∀ k, k < s.retention → svAt s'.cells k = svAt s.cells k := by
    intro k hk
    rcases hA k hk with ⟨e, _⟩ | ⟨p, v, v', h1, h2, _⟩ | ⟨v, v', h1, h2, _⟩
    · simp only [svAt, e]
    · simp [svAt, h1, h2, isSV]
    · simp [svAt, h1, h2, isSV]
  -- shapes behind the index list
  have hshape6 : ∀ k, k < s.cells.size → shape s6.cells k = shape s.cells k := by
    intro k hk
    have hcells6 : s6.cells = s.cells ++ s6.cells.extract s.cells.size s6.cells.size :=
      prefix_append (Nat.le_trans hc0A hinv.hiLe) (fun i hi => hs6cell i hi)
    rw [hcells6]; exact shape_append_eq _ _ hwf.headers hk
  have hno : s.cells.size < s5.cells.size → framePoint sR.cells s5.cells.size = none := by
    intro hpos
    obtain ⟨o2, n2, hc2, _, _⟩ := hinv.done (s5.cells.size - 1) (by omega) (by omega)
    have e : s5.cells.size = (s5.cells.size - 1) + 1 := by omega
    rw [e]
    simp [framePoint, hhigh (s5.cells.size - 1) (by omega), hc2]
  have hposOf : ∀ u, s5.cells.size + u < s6.cells.size → s.cells.size < s5.cells.size := by
    intro u hu
    rcases Nat.lt_or_ge s.cells.size s5.cells.size with h | h
    · exact h
    · have := hnoidx (by omega); omega
  have hshapeNew : ∀ u sh, s5.cells.size + u < s6.cells.size → shape s6.cells (s5.cells.size + u) = some sh →
      shape s'.cells (s.retention + u) = some sh := by
    intro u sh hu hsh
    have h1 : shape sR.cells (s5.cells.size + u) = some sh := by
      rw [hu6.shape_same (hhigh _ (by omega))]; exact hsh
    exact shape_shift tf.shift (hno (hposOf u hu)) h1
  have hcellNew : ∀ u, s'.cells[s.retention + u]? = s6.cells[s5.cells.size + u]? := by
    intro u; rw [tf.shift u, hhigh _ (by omega)]
  -- where links lead
  have hlinkNode : ∀ x x', Link s6 s.cells.size s5.cells.size x x' → isNode s.cells x = true →
      isNode s'.cells x' = true := by
    intro x x' hl hx
    obtain ⟨shx, hshx⟩ := node_shape hx
    rcases hl with ⟨rfl, hxr⟩ | ⟨j, hj1, hj2, hjc⟩
    · exact hnodeOld _ (by rw [hret6] at hxr; exact hxr) hx
    · obtain ⟨o', n', hcell', _, hg⟩ := hinv.done j (by omega) hj2
      rw [hjc] at hcell'
      simp only [Option.some.injEq, Cell.cloneIndexMap.injEq] at hcell'
      obtain ⟨ho, hn⟩ := hcell'
      subst ho; subst hn
      rcases hg with ⟨rfl, hxr⟩ | ⟨ni, hni1, hni2, hg⟩
      · exact hnodeOld _ (by rw [hret6] at hxr; exact hxr) hx
      · obtain ⟨sh', g1, _⟩ := hg shx hshx
        have hb := shape_bound g1
        have e1 : ni = s5.cells.size + (ni - s5.cells.size) := by omega
        have e2 : x' = s.retention + (ni - s5.cells.size) := by omega
        rw [e1] at g1 hb
        have := hshapeNew _ _ hb g1
        rw [← e2] at this
        simp [isNode, this]
  have hlinkSV : ∀ x x', Link s6 s.cells.size s5.cells.size x x' → svAt s.cells x = true →
      svAt s'.cells x' = true := by
    intro x x' hl hx
    obtain ⟨shx, hshx⟩ := node_shape (sv_isNode hx)
    rcases hl with ⟨rfl, hxr⟩ | ⟨j, hj1, hj2, hjc⟩
    · rw [hsvOld _ (by rw [hret6] at hxr; exact hxr)]; exact hx
    · obtain ⟨o', n', hcell', _, hg⟩ := hinv.done j (by omega) hj2
      rw [hjc] at hcell'
      simp only [Option.some.injEq, Cell.cloneIndexMap.injEq] at hcell'
      obtain ⟨ho, hn⟩ := hcell'
      subst ho; subst hn
      rcases hg with ⟨rfl, hxr⟩ | ⟨ni, hni1, hni2, hg⟩
      · rw [hsvOld _ (by rw [hret6] at hxr; exact hxr)]; exact hx
      · obtain ⟨sh', g1, g2, _⟩ := hg shx hshx
        have hb := shape_bound g1
        have hsv6 : svAt s6.cells ni = true := by rw [← label_sv g1, g2, label_sv hshx]; exact hx
        have e2 : x' = s.retention + (ni - s5.cells.size) := by omega
        have e1 : ni = s5.cells.size + (ni - s5.cells.size) := by omega
        rw [e2]
        simp only [svAt, hcellNew, ← e1]
        exact hsv6
  -- a link target of a fresh cell at `s5.size + u` is a node below `retention + u`
  have htarget : ∀ u k', Target (s5.cells.size - s.retention) s6 s5.cells.size k' (s5.cells.size + u) →
      k' < s.retention + u ∧ isNode s'.cells k' = true := by
    intro u k' ht
    rcases ht with ⟨h1, sh2, h2⟩ | ⟨h1, h2, sh2, h3⟩
    · rw [hret6] at h1
      rw [hshape6 k' (by omega)] at h2
      exact ⟨by omega, hnodeOld k' h1 (by simp [isNode, h2])⟩
    · have e1 : k' + (s5.cells.size - s.retention) = s5.cells.size + (k' + (s5.cells.size - s.retention) - s5.cells.size) := by omega
      have hb := shape_bound h3
      rw [e1] at h3 hb
      have := hshapeNew _ _ hb h3
      have e2 : s.retention + (k' + (s5.cells.size - s.retention) - s5.cells.size) = k' := by omega
      rw [e2] at this
      exact ⟨by omega, by simp [isNode, this]⟩
  have hsizeV : ∀ j, j < s'.cells.size → s.retention ≤ j → s5.cells.size + (j - s.retention) < s6.cells.size := by
    intro j hj hjr
    have hc := hcellNew (j - s.retention)
    have e : s.retention + (j - s.retention) = j := by omega
    rw [e] at hc
    rcases Nat.lt_or_ge (s5.cells.size + (j - s.retention)) s6.cells.size with h | h
    · exact h
    · rw [Array.getElem?_eq_none h, Array.getElem?_eq_getElem hj] at hc; cases hc
  -- kinds of cells survive the compaction
  have regSV : ∀ c, isSV c = true → regLabel c = false := by intro c hc; cases c <;> simp [isSV] at hc <;> rfl
  have frmSV : ∀ c, isSV c = true → frameKind c = false := by intro c hc; cases c <;> simp [isSV] at hc <;> rfl
  have kindOld : ∀ (K : Cell → Bool), (∀ c, isSV c = true → K c = false) → ∀ k, k < s.retention →
      kindAt K s.cells k = true → kindAt K s'.cells k = true := by
    intro K hK k hk hkind
    rcases hA k hk with ⟨e, _⟩ | ⟨p, v, v', h1, _, _⟩ | ⟨v, v', h1, _, _⟩
    · simp only [kindAt, e]; exact hkind
    · simp [kindAt, h1, hK _ (show isSV (Cell.value p v) = true from rfl)] at hkind
    · simp [kindAt, h1, hK _ (show isSV (Cell.valueRoot v) = true from rfl)] at hkind
  have cellOld : ∀ (i : Nat) (c : Cell), i < s.retention → s'.cells[i]? = some c → isSV c = false →
      s.cells[i]? = some c ∧ s'.cells[i]? = s.cells[i]? := by
    intro i c hi hc hns
    rcases hA i hi with ⟨e, _⟩ | ⟨p, v, v', _, h2, _⟩ | ⟨v, v', _, h2, _⟩
    · exact ⟨by rw [← e]; exact hc, e⟩
    · rw [h2] at hc; cases hc; cases hns
    · rw [h2] at hc; cases hc; cases hns
  have kind6 : ∀ (K : Cell → Bool), (∀ (cells : Array Cell) (a : Nat) (sh : Shape), shape cells a = some sh →
        K sh.label = kindAt K cells a) → ∀ (x n : Nat) (shx shn : Shape), shape s.cells x = some shx →
      shape s6.cells n = some shn → shn.label = shx.label → s5.cells.size ≤ n → kindAt K s.cells x = true →
      kindAt K s'.cells (s.retention + (n - s5.cells.size)) = true := by
    intro K hlab x n shx shn hx hn hl hle hk
    have h6 : kindAt K s6.cells n = true := by rw [← hlab _ _ _ hn, hl, hlab _ _ _ hx]; exact hk
    have e : n = s5.cells.size + (n - s5.cells.size) := by omega
    simp only [kindAt, hcellNew, ← e]
    exact h6
  have kindLinkF : ∀ (K : Cell → Bool), (∀ c, isSV c = true → K c = false) →
      (∀ (cells : Array Cell) (a : Nat) (sh : Shape), shape cells a = some sh → K sh.label = kindAt K cells a) →
      ∀ j x x', LinkF (s5.cells.size - s.retention) s.cells s6 s5.cells.size j x x' → kindAt K s.cells x = true →
      kindAt K s'.cells x' = true := by
    intro K hK hlab j x x' hl hk
    rcases hl with ⟨rfl, hxr⟩ | ⟨h1, h2, shx, shx', e3, e4, e5⟩
    · exact kindOld K hK _ (by rw [hret6] at hxr; exact hxr) hk
    · have := kind6 K hlab x _ shx shx' e3 e4 e5 h1 hk
      have e : s.retention + (x' + (s5.cells.size - s.retention) - s5.cells.size) = x' := by omega
      rw [e] at this; exact this
  have kindLink : ∀ (K : Cell → Bool), (∀ c, isSV c = true → K c = false) →
      (∀ (cells : Array Cell) (a : Nat) (sh : Shape), shape cells a = some sh → K sh.label = kindAt K cells a) →
      ∀ x x', Link s6 s.cells.size s5.cells.size x x' → isNode s.cells x = true → kindAt K s.cells x = true →
      kindAt K s'.cells x' = true := by
    intro K hK hlab x x' hl hx hk
    obtain ⟨shx, hshx⟩ := node_shape hx
    rcases hl with ⟨rfl, hxr⟩ | ⟨j, hj1, hj2, hjc⟩
    · exact kindOld K hK _ (by rw [hret6] at hxr; exact hxr) hk
    · obtain ⟨o', n', hcell', _, hg⟩ := hinv.done j (by omega) hj2
      rw [hjc] at hcell'
      simp only [Option.some.injEq, Cell.cloneIndexMap.injEq] at hcell'
      obtain ⟨ho, hn⟩ := hcell'
      subst ho; subst hn
      rcases hg with ⟨rfl, hxr⟩ | ⟨ni, hni1, hni2, hg⟩
      · exact kindOld K hK _ (by rw [hret6] at hxr; exact hxr) hk
      · obtain ⟨sh', g1, g2, _⟩ := hg shx hshx
        have := kind6 K hlab x ni shx sh' hshx g1 g2 hni1 hk
        have e : s.retention + (ni - s5.cells.size) = x' := by omega
        rw [e] at this; exact this
  -- a fresh cell with links is the copy of a cell of the same label
  have freshOrigin : ∀ u, s5.cells.size + u < s6.cells.size → ∀ sh6, shape s6.cells (s5.cells.size + u) = some sh6 →
      sh6.kids ≠ [] → ∃ o sh, shape s.cells o = some sh ∧ sh6.label = sh.label ∧
        ∀ (n : Nat) (a b : Nat), sh.kids[n]? = some a → sh6.kids[n]? = some b →
          LinkF (s5.cells.size - s.retention) s.cells s6 s5.cells.size (s5.cells.size + u) a b := by
    intro u hu sh6 hsh hk
    obtain ⟨o, sh, h1, h2, h3⟩ := hprov _ (by omega) hu sh6 hsh hk
    exact ⟨o, sh, h1, h2, fun n a b ha hb => AllRel.get h3 n a b ha hb⟩
  have freshShape : ∀ (i : Nat) (c : Cell), s.retention ≤ i → s'.cells[i]? = some c → neverNode c = false →
      ∃ sh6, s5.cells.size + (i - s.retention) < s6.cells.size ∧
        s6.cells[s5.cells.size + (i - s.retention)]? = some c ∧
        shape s6.cells (s5.cells.size + (i - s.retention)) = some sh6 := by
    intro i c hi hc hnn
    have hJ := hsizeV i (cell_lt hc) hi
    have hc6 : s6.cells[s5.cells.size + (i - s.retention)]? = some c := by
      have := hcellNew (i - s.retention)
      have e : s.retention + (i - s.retention) = i := by omega
      rw [e] at this; rw [← this]; exact hc
    obtain ⟨c', hc', _, hk⟩ := hfresh _ (by omega) hJ
    rw [hc6] at hc'
    cases hc'
    rcases hk with hn | ⟨sh, hsh, _⟩
    · rw [hn] at hnn; cases hnn
    · exact ⟨sh, hJ, hc6, hsh⟩
  refine ⟨?_, ?_, ?_, ?_, ?_⟩
  · -- the register head
    intro a' ha'
    rcases tf.register with ⟨_, e⟩ | ⟨i, m', e1, e2, hl⟩
    · rw [e] at ha'; cases ha'
    · rw [e2] at ha'; cases ha'
      rw [isRegCell_kind]
      refine kindLink regLabel regSV (fun _ _ _ h => label_reg h) i _ (hlinkR _ _ hl) ?_ ?_
      · have := hwf.reg; rw [e1] at this; exact this
      · rw [← isRegCell_kind]; exact hty.regHead i e1
  · -- `previous` of a register cell
    intro i p v hc
    rw [isRegCell_kind]
    by_cases hir : i < s.retention
    · obtain ⟨hcs, _⟩ := cellOld i _ hir hc rfl
      have hsh : shape s.cells i = some ⟨.register 0 0, [], [p, v]⟩ := shape_of_solo hcs rfl
      have hp : p < i := hwf.kid_lt hsh (by simp [svAt, hcs, isSV]) (by simp)
      exact kindOld regLabel regSV p (by omega) (by rw [← isRegCell_kind]; exact hty.regPrev i p v hcs)
    · obtain ⟨sh6, hJ, hc6, hsh6⟩ := freshShape i _ (by omega) hc rfl
      obtain ⟨hl6, hk6⟩ := (shape_chain_cell hsh6 hc6).1 p v rfl
      obtain ⟨o, sh, ho, hlab, hlinks⟩ := freshOrigin _ hJ sh6 hsh6 (by rw [hk6]; simp)
      obtain ⟨p0, v0, hco⟩ := (chain_label_cell ho).1 (by rw [← hlab, hl6])
      obtain ⟨_, hk0⟩ := (shape_chain_cell ho hco).1 p0 v0 rfl
      have hlf := hlinks 0 p0 p (by rw [hk0]; rfl) (by rw [hk6]; rfl)
      exact kindLinkF regLabel regSV (fun _ _ _ h => label_reg h) _ _ _ hlf
        (by rw [← isRegCell_kind]; exact hty.regPrev o p0 v0 hco)
  · -- the frame head
    intro a' ha'
    rcases tf.frame with ⟨_, e⟩ | ⟨i, m', e1, e2, hl⟩
    · rw [e] at ha'; cases ha'
    · rw [e2] at ha'; cases ha'
      rw [isFrameCell_kind]
      refine kindLink frameKind frmSV (fun _ _ _ h => label_frm h) i _ (hlinkR _ _ hl) ?_ ?_
      · have := hwf.frm; rw [e1] at this; exact this
      · rw [← isFrameCell_kind]; exact hty.frmHead i e1
  · -- `previous` of a frame cell
    intro i p hn hc
    rw [isFrameCell_kind]
    have hcell : ∃ c, s'.cells[i]? = some c ∧ isSV c = false ∧ neverNode c = false ∧
        ((∃ r, c = Cell.frame p r) ∨ c = Cell.frameIndex p) := by
      rcases hc with ⟨r, hc⟩ | hc
      · exact ⟨_, hc, rfl, rfl, Or.inl ⟨r, rfl⟩⟩
      · exact ⟨_, hc, rfl, rfl, Or.inr rfl⟩
    obtain ⟨c, hcc, hns, hnn, hkind⟩ := hcell
    by_cases hir : i < s.retention
    · obtain ⟨hcs, hsame⟩ := cellOld i c hir hcc hns
      have hns' : isNode s.cells i = true := by
        simp only [isNode, ← hshapeOld i hir hsame]; exact hn
      obtain ⟨sh, hsh⟩ := node_shape hns'
      have hp : p < i := by
        rcases hkind with ⟨r, rfl⟩ | rfl
        · obtain ⟨_, hk⟩ := (shape_chain_cell hsh hcs).2.1 p r rfl
          exact hwf.kid_lt hsh (by simp [svAt, hcs, isSV]) (by rw [hk]; simp)
        · obtain ⟨_, hk⟩ := (shape_chain_cell hsh hcs).2.2.1 p rfl
          exact hwf.kid_lt hsh (by simp [svAt, hcs, isSV]) (by rw [hk]; simp)
      refine kindOld frameKind frmSV p (by omega) ?_
      rw [← isFrameCell_kind]
      rcases hkind with ⟨r, rfl⟩ | rfl
      · exact hty.frmPrev i p hns' (Or.inl ⟨r, hcs⟩)
      · exact hty.frmPrev i p hns' (Or.inr hcs)
    · obtain ⟨sh6, hJ, hc6, hsh6⟩ := freshShape i c (by omega) hcc hnn
      rcases hkind with ⟨r, rfl⟩ | rfl
      · obtain ⟨hl6, hk6⟩ := (shape_chain_cell hsh6 hc6).2.1 p r rfl
        obtain ⟨o, sh, ho, hlab, hlinks⟩ := freshOrigin _ hJ sh6 hsh6 (by rw [hk6]; simp)
        obtain ⟨p0, r0, hco⟩ := (chain_label_cell ho).2.1 (by rw [← hlab, hl6])
        obtain ⟨_, hk0⟩ := (shape_chain_cell ho hco).2.1 p0 r0 rfl
        have hlf := hlinks 0 p0 p (by rw [hk0]; rfl) (by rw [hk6]; rfl)
        exact kindLinkF frameKind frmSV (fun _ _ _ h => label_frm h) _ _ _ hlf
          (by rw [← isFrameCell_kind]; exact hty.frmPrev o p0 (by simp [isNode, ho]) (Or.inl ⟨r0, hco⟩))
      · obtain ⟨hl6, hk6⟩ := (shape_chain_cell hsh6 hc6).2.2.1 p rfl
        obtain ⟨o, sh, ho, hlab, hlinks⟩ := freshOrigin _ hJ sh6 hsh6 (by rw [hk6]; simp)
        obtain ⟨p0, hco⟩ := (chain_label_cell ho).2.2.1 (by rw [← hlab, hl6])
        obtain ⟨_, hk0⟩ := (shape_chain_cell ho hco).2.2.1 p0 rfl
        have hlf := hlinks 0 p0 p (by rw [hk0]; rfl) (by rw [hk6]; rfl)
        exact kindLinkF frameKind frmSV (fun _ _ _ h => label_frm h) _ _ _ hlf
          (by rw [← isFrameCell_kind]; exact hty.frmPrev o p0 (by simp [isNode, ho]) (Or.inr hco))
  · -- the registers a frame saved
    intro i r hn hc
    rw [isRegCell_kind]
    have hcell : ∃ c, s'.cells[i]? = some c ∧ isSV c = false ∧ neverNode c = false ∧
        ((∃ p, c = Cell.frame p r) ∨ c = Cell.frameRegister r) := by
      rcases hc with ⟨p, hc⟩ | hc
      · exact ⟨_, hc, rfl, rfl, Or.inl ⟨p, rfl⟩⟩
      · exact ⟨_, hc, rfl, rfl, Or.inr rfl⟩
    obtain ⟨c, hcc, hns, hnn, hkind⟩ := hcell
    by_cases hir : i < s.retention
    · obtain ⟨hcs, hsame⟩ := cellOld i c hir hcc hns
      have hns' : isNode s.cells i = true := by
        simp only [isNode, ← hshapeOld i hir hsame]; exact hn
      obtain ⟨sh, hsh⟩ := node_shape hns'
      have hp : r < i := by
        rcases hkind with ⟨p, rfl⟩ | rfl
        · obtain ⟨_, hk⟩ := (shape_chain_cell hsh hcs).2.1 p r rfl
          exact hwf.kid_lt hsh (by simp [svAt, hcs, isSV]) (by rw [hk]; simp)
        · obtain ⟨_, hk⟩ := (shape_chain_cell hsh hcs).2.2.2 r rfl
          exact hwf.kid_lt hsh (by simp [svAt, hcs, isSV]) (by rw [hk]; simp)
      refine kindOld regLabel regSV r (by omega) ?_
      rw [← isRegCell_kind]
      rcases hkind with ⟨p, rfl⟩ | rfl
      · exact hty.frmReg i r hns' (Or.inl ⟨p, hcs⟩)
      · exact hty.frmReg i r hns' (Or.inr hcs)
    · obtain ⟨sh6, hJ, hc6, hsh6⟩ := freshShape i c (by omega) hcc hnn
      rcases hkind with ⟨p, rfl⟩ | rfl
      · obtain ⟨hl6, hk6⟩ := (shape_chain_cell hsh6 hc6).2.1 p r rfl
        obtain ⟨o, sh, ho, hlab, hlinks⟩ := freshOrigin _ hJ sh6 hsh6 (by rw [hk6]; simp)
        obtain ⟨p0, r0, hco⟩ := (chain_label_cell ho).2.1 (by rw [← hlab, hl6])
        obtain ⟨_, hk0⟩ := (shape_chain_cell ho hco).2.1 p0 r0 rfl
        have hlf := hlinks 1 r0 r (by rw [hk0]; rfl) (by rw [hk6]; rfl)
        exact kindLinkF regLabel regSV (fun _ _ _ h => label_reg h) _ _ _ hlf
          (by rw [← isRegCell_kind]; exact hty.frmReg o r0 (by simp [isNode, ho]) (Or.inl ⟨p0, hco⟩))
      · obtain ⟨hl6, hk6⟩ := (shape_chain_cell hsh6 hc6).2.2.2 r rfl
        obtain ⟨o, sh, ho, hlab, hlinks⟩ := freshOrigin _ hJ sh6 hsh6 (by rw [hk6]; simp)
        obtain ⟨r0, hco⟩ := (chain_label_cell ho).2.2.2 (by rw [← hlab, hl6])
        obtain ⟨_, hk0⟩ := (shape_chain_cell ho hco).2.2.2 r0 rfl
        have hlf := hlinks 0 r0 r (by rw [hk0]; rfl) (by rw [hk6]; rfl)
        exact kindLinkF regLabel regSV (fun _ _ _ h => label_reg h) _ _ _ hlf
          (by rw [← isRegCell_kind]; exact hty.frmReg o r0 (by simp [isNode, ho]) (Or.inr hco))

end Garnish.BasicOpt
