/-
Totality of the emitting traversal of `build` — part 2: what one handler call does to the invariant.
`step_inv` covers every handler branch that moves the visited node to `vni` (p2 or p3), pushes children `cs` on `stack`
and children `rs` on `root_stack`, and assigns build nodes `asg`.
-/
import Garnish.Lemmas.BuildTotalBase
namespace Garnish.Lemmas.BuildTotal
open Garnish Garnish.Gen Garnish.Model.Parser Garnish.Model.Literals Garnish.Model.Build Garnish.Lemmas.Build

variable {F : Type} {root : Nat} {tree : Array ParseNode} {G : Nat → Prop}

/-- a child that its parent is about to schedule is still unscheduled -/
theorem child_fresh (V : Validated root tree G) {ph : Nat → Phase} {ctx : Ctx F} (h : Inv root tree G ph ctx) {ni c : Nat}
    (hG : G ni) (hc : IsChild tree ni c) (hnot : ¬ SchedDone tree ph ni c) : ph c = .p0 ∧ G c := by
  have hcG := (child_facts V hG hc).1
  refine ⟨?_, hcG⟩
  rcases Classical.em (ph c = .p0) with h0 | h0
  · exact h0
  · rcases h.fresh c hcG h0 with h1 | ⟨p, hp, hpc, hs⟩
    · exact absurd h1 (child_ne_root V hG hc)
    · have := parent_unique V hp hG hpc hc
      subst this
      exact absurd hs hnot

/-- the phase assignment after a step -/
def stepPhase (ph : Nat → Phase) (ni : Nat) (vni : Phase) (cs rs : List Nat) : Nat → Phase :=
  fun x => if x = ni then vni else if x ∈ cs then .p1 else if x ∈ rs then .pr else ph x

theorem step_inv_exp (V : Validated root tree G) {ph : Nat → Phase} {ctx ctx' : Ctx F} (h : Inv root tree G ph ctx)
    {ni : Nat} (hG : G ni) (hph : ph ni = .p1 ∨ ph ni = .p2) (hns : ni ∉ ctx.stack.toList)
    {pn : ParseNode} (hpn : tree[ni]? = some pn)
    (vni : Phase) (hv : vni = .p2 ∨ vni = .p3)
    (hv2 : vni = .p2 → ph ni = .p1 ∧ pn.definition ≠ .group ∧ pn.definition ≠ .nestedExpression)
    (cs rs suf rsuf : List Nat) (asg : List (Nat × BuildNode))
    (hS : ctx'.stack.toList = ctx.stack.toList ++ suf)
    (hR : ctx'.rootStack.toList = ctx.rootStack.toList ++ rsuf)
    (hN : ctx'.nodes = assign ctx.nodes asg)
    (hsuf : ∀ x, x ∈ suf → (x = ni ∧ vni = .p2) ∨ x ∈ cs)
    (hsufN : ni ∉ cs → cs.Nodup → suf.Nodup)
    (hrsuf : ∀ x, x ∈ rsuf → x ∈ rs) (hrsufN : rs.Nodup → rsuf.Nodup)
    (hcr : (cs ++ rs).Nodup)
    (hchild : ∀ c, c ∈ cs ++ rs → IsChild tree ni c ∧ (LateRight tree ni c → vni = .p3) ∧ (ph ni = .p2 → LateRight tree ni c))
    (hasgp : ∀ p, p ∈ asg → p.2.parseNodeIndex = p.1)
    (hasg : ∀ p, p ∈ asg →
      (p.1 = ni ∧ (vni = .p2 → p.2.state = .initialized) ∧
        ∃ bn, ctx.nodes[ni]? = some (some bn) ∧ p.2.conditionalItems = bn.conditionalItems) ∨
      (p.1 ∈ cs ++ rs ∧ p.2.conditionalItems = #[]))
    (hasgni : vni = .p2 → ∃ b, (ni, b) ∈ asg) :
    Inv root tree G (stepPhase ph ni vni cs rs) ctx' ∧ total (stepPhase ph ni vni cs rs) tree.size < total ph tree.size := by
  -- the children are fresh
  have hfreshc : ∀ c, c ∈ cs ++ rs → ph c = .p0 ∧ G c ∧ c ≠ ni := by
    intro c hc
    obtain ⟨hchild1, _, hchild3⟩ := hchild c hc
    have hnot : ¬ SchedDone tree ph ni c := by
      intro ⟨hs1, hs2⟩
      rcases hph with h1 | h2
      · rw [h1] at hs1; rcases hs1 with h | h <;> cases h
      · have := hs2 (hchild3 h2); rw [h2] at this; cases this
    obtain ⟨h0, hcG⟩ := child_fresh V h hG hchild1 hnot
    refine ⟨h0, hcG, fun hcn => ?_⟩
    subst hcn
    rcases hph with h1 | h1 <;> rw [h1] at h0 <;> cases h0
  have hdisj : ∀ c, c ∈ cs → c ∉ rs := fun c hc hr => (List.nodup_append.1 hcr).2.2 c hc c hr rfl
  have hcsN : cs.Nodup := (List.nodup_append.1 hcr).1
  have hrsN : rs.Nodup := (List.nodup_append.1 hcr).2.1
  have hnics : ni ∉ cs := fun hm => (hfreshc ni (List.mem_append_left _ hm)).2.2 rfl
  -- values of the new phase assignment
  let ph' := stepPhase ph ni vni cs rs
  have hni' : ph' ni = vni := by simp [ph', stepPhase]
  have hcs' : ∀ c, c ∈ cs → ph' c = .p1 := by
    intro c hc
    have := (hfreshc c (List.mem_append_left _ hc)).2.2
    simp [ph', stepPhase, this, hc]
  have hrs' : ∀ c, c ∈ rs → ph' c = .pr := by
    intro c hc
    have h1 := (hfreshc c (List.mem_append_right _ hc)).2.2
    have h2 : c ∉ cs := fun hcc => hdisj c hcc hc
    simp [ph', stepPhase, h1, h2, hc]
  have hsame : ∀ x, ph x ≠ .p0 → x ≠ ni → ph' x = ph x := by
    intro x hx hxn
    have h1 : x ∉ cs := fun hm => hx (hfreshc x (List.mem_append_left _ hm)).1
    have h2 : x ∉ rs := fun hm => hx (hfreshc x (List.mem_append_right _ hm)).1
    simp [ph', stepPhase, hxn, h1, h2]
  have hother : ∀ x, x ≠ ni → x ∉ cs ++ rs → ph' x = ph x := by
    intro x hxn hx
    have h1 : x ∉ cs := fun hm => hx (List.mem_append_left _ hm)
    have h2 : x ∉ rs := fun hm => hx (List.mem_append_right _ hm)
    simp [ph', stepPhase, hxn, h1, h2]
  have hni0 : ph ni ≠ .p0 := by rcases hph with h1 | h1 <;> rw [h1] <;> intro h <;> cases h
  -- nodes
  have hget : ∀ (x : Nat) (bn' : BuildNode), ctx'.nodes[x]? = some (some bn') →
      (x = ni ∧ (vni = .p2 → bn'.state = .initialized) ∧
        ∃ bn, ctx.nodes[ni]? = some (some bn) ∧ bn'.conditionalItems = bn.conditionalItems) ∨
      (x ∈ cs ++ rs ∧ bn'.conditionalItems = #[]) ∨
      (ctx.nodes[x]? = some (some bn') ∧ (vni = .p2 → x ≠ ni)) := by
    intro x bn' hx
    rw [hN] at hx
    rcases assign_get asg ctx.nodes x _ hx with ⟨b, hb, hv'⟩ | ⟨hold, hno⟩
    · cases hv'
      rcases hasg _ hb with ⟨h1, h2, h3⟩ | ⟨h1, h2⟩
      · exact Or.inl ⟨h1, h2, h3⟩
      · exact Or.inr (Or.inl ⟨h1, h2⟩)
    · refine Or.inr (Or.inr ⟨hold, fun hv' hxn => ?_⟩)
      subst hxn
      obtain ⟨b, hb⟩ := hasgni hv'
      exact hno b hb
  change Inv root tree G ph' ctx' ∧ total ph' tree.size < total ph tree.size
  refine ⟨⟨?_, ?_, ?_, ?_, ?_, ?_, ?_, ?_, ?_, ?_, ?_⟩, ?_⟩
  · -- stackNodup
    rw [hS]
    refine List.nodup_append.2 ⟨h.stackNodup, hsufN hnics hcsN, fun a ha b hb hab => ?_⟩
    subst hab
    rcases hsuf a hb with ⟨h1, _⟩ | h1
    · exact hns (h1 ▸ ha)
    · have h0 := (hfreshc a (List.mem_append_left _ h1)).1
      rcases (h.stackOk a ha).2 with h2 | h2 <;> rw [h2] at h0 <;> cases h0
  · -- stackOk
    intro x hx
    rw [hS] at hx
    rcases List.mem_append.1 hx with h1 | h1
    · have hso := h.stackOk x h1
      have hxn : x ≠ ni := fun hxn => hns (hxn ▸ h1)
      have hx0 : ph x ≠ .p0 := by rcases hso.2 with h2 | h2 <;> rw [h2] <;> intro h <;> cases h
      rw [hsame x hx0 hxn]; exact hso
    · rcases hsuf x h1 with ⟨h2, h3⟩ | h2
      · subst h2; exact ⟨hG, Or.inr (by rw [hni', h3])⟩
      · exact ⟨(hfreshc x (List.mem_append_left _ h2)).2.1, Or.inl (hcs' x h2)⟩
  · -- rootNodup
    rw [hR]
    refine List.nodup_append.2 ⟨h.rootNodup, hrsufN hrsN, fun a ha b hb hab => ?_⟩
    subst hab
    have h0 := (hfreshc a (List.mem_append_right _ (hrsuf a hb))).1
    have := (h.rootOk a ha).2
    rw [this] at h0; cases h0
  · -- rootOk
    intro x hx
    rw [hR] at hx
    rcases List.mem_append.1 hx with h1 | h1
    · have hro := h.rootOk x h1
      have hxn : x ≠ ni := by
        intro hxn; subst hxn
        rcases hph with h2 | h2 <;> rw [h2] at hro <;> cases hro.2
      have hx0 : ph x ≠ .p0 := by rw [hro.2]; intro h; cases h
      rw [hsame x hx0 hxn]; exact hro
    · have := hrsuf x h1
      exact ⟨(hfreshc x (List.mem_append_right _ this)).2.1, hrs' x this⟩
  · -- size
    rw [hN, assign_size]; exact h.size
  · -- init
    intro x bn' hx hp2
    rcases hget x bn' hx with ⟨h1, h2, _⟩ | ⟨h1, _⟩ | ⟨h1, h2⟩
    · subst h1; rw [hni'] at hp2; exact h2 hp2
    · rcases List.mem_append.1 h1 with h3 | h3
      · rw [hcs' x h3] at hp2; cases hp2
      · rw [hrs' x h3] at hp2; cases hp2
    · rcases Classical.em (x = ni) with hxn | hxn
      · subst hxn
        rw [hni'] at hp2
        exact absurd rfl (h2 hp2)
      · rcases Classical.em (x ∈ cs ++ rs) with hm | hm
        · rcases List.mem_append.1 hm with h3 | h3
          · rw [hcs' x h3] at hp2; cases hp2
          · rw [hrs' x h3] at hp2; cases hp2
        · rw [hother x hxn hm] at hp2
          exact h.init x bn' h1 hp2
  · -- items
    intro x bn' hx hp3 it hit
    -- an item of a node that is not finished keeps its phase
    have keep : ∀ (y : Nat) (bn : BuildNode), ctx.nodes[y]? = some (some bn) → ph y ≠ .p3 →
        ∀ it, it ∈ bn.conditionalItems.toList → G it.nodeIndex ∧ ph' it.nodeIndex = .pc y := by
      intro y bn hy hy3 it hit
      obtain ⟨g, hp⟩ := h.items y bn hy hy3 it hit
      have h0 : ph it.nodeIndex ≠ .p0 := by rw [hp]; intro h; cases h
      have hn : it.nodeIndex ≠ ni := by
        intro hn; rw [hn] at hp
        rcases hph with h2 | h2 <;> rw [h2] at hp <;> cases hp
      exact ⟨g, by rw [hsame _ h0 hn]; exact hp⟩
    rcases hget x bn' hx with ⟨h1, _, bn, hbn, heq⟩ | ⟨_, h2⟩ | ⟨h1, _⟩
    · subst h1
      have hx3 : ph x ≠ .p3 := by rcases hph with h2 | h2 <;> rw [h2] <;> intro h <;> cases h
      rw [heq] at hit
      exact keep x bn hbn hx3 it hit
    · rw [h2] at hit; simp at hit
    · rcases Classical.em (x = ni) with hxn | hxn
      · subst hxn
        have hx3 : ph x ≠ .p3 := by rcases hph with h2 | h2 <;> rw [h2] <;> intro h <;> cases h
        exact keep x bn' h1 hx3 it hit
      · rcases Classical.em (x ∈ cs ++ rs) with hm | hm
        · -- a fresh child whose slot was not assigned: its old slot is constrained by its old phase p0 ≠ p3
          have hx3 : ph x ≠ .p3 := by rw [(hfreshc x hm).1]; intro h; cases h
          obtain ⟨g, hp⟩ := keep x bn' h1 hx3 it hit
          refine ⟨g, hp⟩
        · have hx3 : ph x ≠ .p3 := by rw [← hother x hxn hm]; exact hp3
          exact keep x bn' h1 hx3 it hit
  · -- itemsNodup
    intro x bn' hx hp3
    rcases hget x bn' hx with ⟨h1, _, bn, hbn, heq⟩ | ⟨_, h2⟩ | ⟨h1, _⟩
    · subst h1
      have hx3 : ph x ≠ .p3 := by rcases hph with h2 | h2 <;> rw [h2] <;> intro h <;> cases h
      rw [heq]; exact h.itemsNodup x bn hbn hx3
    · rw [h2]; simp
    · rcases Classical.em (x = ni) with hxn | hxn
      · subst hxn
        have hx3 : ph x ≠ .p3 := by rcases hph with h2 | h2 <;> rw [h2] <;> intro h <;> cases h
        exact h.itemsNodup x bn' h1 hx3
      · rcases Classical.em (x ∈ cs ++ rs) with hm | hm
        · have hx3 : ph x ≠ .p3 := by rw [(hfreshc x hm).1]; intro h; cases h
          exact h.itemsNodup x bn' h1 hx3
        · have hx3 : ph x ≠ .p3 := by rw [← hother x hxn hm]; exact hp3
          exact h.itemsNodup x bn' h1 hx3
  · -- fresh
    have hsd : ∀ p c, SchedDone tree ph p c → SchedDone tree ph' p c := by
      intro p c ⟨hs1, hs2⟩
      have hp0 : ph p ≠ .p0 := by rcases hs1 with h1 | h1 <;> rw [h1] <;> intro h <;> cases h
      rcases Classical.em (p = ni) with hpn | hpn
      · subst hpn
        -- ph p = p2 (p1 is excluded by SchedDone), so vni = p3
        have hp2 : ph p = .p2 := by
          rcases hph with h1 | h1
          · rw [h1] at hs1; rcases hs1 with h | h <;> cases h
          · exact h1
        have hv3 : vni = .p3 := by
          rcases hv with h1 | h1
          · have := (hv2 h1).1; rw [hp2] at this; cases this
          · exact h1
        exact ⟨Or.inr (by rw [hni', hv3]), fun _ => by rw [hni', hv3]⟩
      · rw [SchedDone, hsame p hp0 hpn]; exact ⟨hs1, hs2⟩
    intro c hcG hc0
    rcases Classical.em (c ∈ cs ++ rs) with hm | hm
    · refine Or.inr ⟨ni, hG, (hchild c hm).1, ?_, fun hl => ?_⟩
      · rw [hni']; exact hv
      · rw [hni']; exact (hchild c hm).2.1 hl
    · have hc0' : ph c ≠ .p0 := by
        rcases Classical.em (c = ni) with hcn | hcn
        · subst hcn; exact hni0
        · rw [← hother c hcn hm]; exact hc0
      rcases h.fresh c hcG hc0' with h1 | ⟨p, hp, hpc, hs⟩
      · exact Or.inl h1
      · exact Or.inr ⟨p, hp, hpc, hsd p c hs⟩
  · -- p2two
    intro x pn' hx hp2
    rcases Classical.em (x = ni) with hxn | hxn
    · subst hxn
      rw [hni'] at hp2
      rw [hpn] at hx; cases hx
      exact (hv2 hp2).2
    · rcases Classical.em (x ∈ cs ++ rs) with hm | hm
      · rcases List.mem_append.1 hm with h3 | h3
        · rw [hcs' x h3] at hp2; cases hp2
        · rw [hrs' x h3] at hp2; cases hp2
      · rw [hother x hxn hm] at hp2
        exact h.p2two x pn' hx hp2
  · -- pni
    intro x bn' hx
    rw [hN] at hx
    rcases assign_get asg ctx.nodes x _ hx with ⟨b, hb, hv'⟩ | ⟨hold, _⟩
    · cases hv'; exact hasgp _ hb
    · exact h.pni x bn' hold
  · -- the potential drops
    apply total_lt
    · intro x _
      rcases Classical.em (x = ni) with hxn | hxn
      · subst hxn
        rw [hni']
        rcases hv with h1 | h1
        · rw [h1, (hv2 h1).1]; decide
        · rw [h1]; simp [Phase.rank]
      · rcases Classical.em (x ∈ cs ++ rs) with hm | hm
        · rw [(hfreshc x hm).1]
          rcases List.mem_append.1 hm with h3 | h3
          · rw [hcs' x h3]; decide
          · rw [hrs' x h3]; decide
        · rw [hother x hxn hm]; exact Nat.le_refl _
    · refine ⟨ni, G_lt V hG, ?_⟩
      rw [hni']
      rcases hv with h1 | h1
      · rw [h1, (hv2 h1).1]; decide
      · rw [h1]
        rcases hph with h2 | h2 <;> rw [h2] <;> decide


theorem step_inv (V : Validated root tree G) {ph : Nat → Phase} {ctx ctx' : Ctx F} (h : Inv root tree G ph ctx)
    {ni : Nat} (hG : G ni) (hph : ph ni = .p1 ∨ ph ni = .p2) (hns : ni ∉ ctx.stack.toList)
    {pn : ParseNode} (hpn : tree[ni]? = some pn)
    (vni : Phase) (hv : vni = .p2 ∨ vni = .p3)
    (hv2 : vni = .p2 → ph ni = .p1 ∧ pn.definition ≠ .group ∧ pn.definition ≠ .nestedExpression)
    (cs rs suf rsuf : List Nat) (asg : List (Nat × BuildNode))
    (hS : ctx'.stack.toList = ctx.stack.toList ++ suf)
    (hR : ctx'.rootStack.toList = ctx.rootStack.toList ++ rsuf)
    (hN : ctx'.nodes = assign ctx.nodes asg)
    (hsuf : ∀ x, x ∈ suf → (x = ni ∧ vni = .p2) ∨ x ∈ cs)
    (hsufN : ni ∉ cs → cs.Nodup → suf.Nodup)
    (hrsuf : ∀ x, x ∈ rsuf → x ∈ rs) (hrsufN : rs.Nodup → rsuf.Nodup)
    (hcr : (cs ++ rs).Nodup)
    (hchild : ∀ c, c ∈ cs ++ rs → IsChild tree ni c ∧ (LateRight tree ni c → vni = .p3) ∧ (ph ni = .p2 → LateRight tree ni c))
    (hasgp : ∀ p, p ∈ asg → p.2.parseNodeIndex = p.1)
    (hasg : ∀ p, p ∈ asg →
      (p.1 = ni ∧ (vni = .p2 → p.2.state = .initialized) ∧
        ∃ bn, ctx.nodes[ni]? = some (some bn) ∧ p.2.conditionalItems = bn.conditionalItems) ∨
      (p.1 ∈ cs ++ rs ∧ p.2.conditionalItems = #[]))
    (hasgni : vni = .p2 → ∃ b, (ni, b) ∈ asg) :
    ∃ ph', Inv root tree G ph' ctx' ∧ total ph' tree.size < total ph tree.size :=
  ⟨_, step_inv_exp V h hG hph hns hpn vni hv hv2 cs rs suf rsuf asg hS hR hN hsuf hsufN hrsuf hrsufN hcr hchild hasgp hasg hasgni⟩

/-- the phases after `cond_inv` -/
def condPhase (ph : Nat → Phase) (ni r cp : Nat) : Nat → Phase :=
  fun x => if x = ni then .p3 else if x = r then .pc cp else ph x

/-! ### an arm of an else-chain is recorded at the chain head (`handle_jump_if`, second visit, conditional parent) -/

theorem cond_inv_exp (V : Validated root tree G) {ph : Nat → Phase} {ctx ctx' : Ctx F} (h : Inv root tree G ph ctx)
    {ni : Nat} (hG : G ni) (hph : ph ni = .p1 ∨ ph ni = .p2) (hns : ni ∉ ctx.stack.toList)
    {pn : ParseNode} (hpn : tree[ni]? = some pn) {r : Nat} (hr : pn.right = some r) (hlate : isLate pn.definition = true)
    {cp : Nat} {parent : BuildNode} (hcp : ctx.nodes[cp]? = some (some parent)) (item : ConditionItem) (hitem : item.nodeIndex = r)
    (hS : ctx'.stack = ctx.stack) (hR : ctx'.rootStack = ctx.rootStack)
    (hN : ctx'.nodes = putNode ctx.nodes cp { parent with conditionalItems := parent.conditionalItems.push item }) :
    Inv root tree G (condPhase ph ni r cp) ctx' ∧ total (condPhase ph ni r cp) tree.size < total ph tree.size := by
  have hchild : IsChild tree ni r := ⟨pn, hpn, Or.inr hr⟩
  have hlr : LateRight tree ni r := ⟨pn, hpn, hr, hlate⟩
  have hnot : ¬ SchedDone tree ph ni r := by
    intro ⟨_, hs2⟩
    have := hs2 hlr
    rcases hph with h1 | h1 <;> rw [h1] at this <;> cases this
  obtain ⟨hr0, hrG⟩ := child_fresh V h hG hchild hnot
  have hni0 : ph ni ≠ .p0 := by rcases hph with h1 | h1 <;> rw [h1] <;> intro h <;> cases h
  have hni3 : ph ni ≠ .p3 := by rcases hph with h1 | h1 <;> rw [h1] <;> intro h <;> cases h
  have hrn : r ≠ ni := fun hrn => hni0 (hrn ▸ hr0)
  let ph' : Nat → Phase := condPhase ph ni r cp
  have hni' : ph' ni = .p3 := by simp [ph', condPhase]
  have hr' : ph' r = .pc cp := by simp [ph', condPhase, hrn]
  have hsame : ∀ x, ph x ≠ .p0 → x ≠ ni → ph' x = ph x := by
    intro x hx hxn
    have : x ≠ r := fun hxr => hx (hxr ▸ hr0)
    simp [ph', condPhase, hxn, this]
  have hcpsz : cp < ctx.nodes.size := by
    rcases Nat.lt_or_ge cp ctx.nodes.size with h1 | h1
    · exact h1
    · rw [Array.getElem?_eq_none h1] at hcp; cases hcp
  have hget : ∀ (x : Nat) (bn' : BuildNode), ctx'.nodes[x]? = some (some bn') →
      (x = cp ∧ bn' = { parent with conditionalItems := parent.conditionalItems.push item }) ∨
      (x ≠ cp ∧ ctx.nodes[x]? = some (some bn')) := by
    intro x bn' hx
    rw [hN, getElem?_putNode] at hx
    rcases Classical.em (cp = x) with hcx | hcx
    · rw [if_pos hcx, if_pos hcpsz] at hx
      cases hx
      exact Or.inl ⟨hcx.symm, rfl⟩
    · rw [if_neg hcx] at hx
      exact Or.inr ⟨fun h => hcx h.symm, hx⟩
  have keep : ∀ (y : Nat) (bn : BuildNode), ctx.nodes[y]? = some (some bn) → ph y ≠ .p3 →
      ∀ it, it ∈ bn.conditionalItems.toList → G it.nodeIndex ∧ ph' it.nodeIndex = .pc y := by
    intro y bn hy hy3 it hit
    obtain ⟨g, hp⟩ := h.items y bn hy hy3 it hit
    have h0 : ph it.nodeIndex ≠ .p0 := by rw [hp]; intro h; cases h
    have hn : it.nodeIndex ≠ ni := by
      intro hn; rw [hn] at hp
      rcases hph with h2 | h2 <;> rw [h2] at hp <;> cases hp
    exact ⟨g, by rw [hsame _ h0 hn]; exact hp⟩
  -- old phase of a node whose new phase is not p3
  have hold3 : ∀ x, ph' x ≠ .p3 → ph x ≠ .p3 := by
    intro x hx
    rcases Classical.em (x = ni) with hxn | hxn
    · subst hxn; exact absurd hni' hx
    · rcases Classical.em (x = r) with hxr | hxr
      · subst hxr; rw [hr0]; intro h; cases h
      · have : ph' x = ph x := by simp [ph', condPhase, hxn, hxr]
        rw [← this]; exact hx
  change Inv root tree G ph' ctx' ∧ total ph' tree.size < total ph tree.size
  refine ⟨⟨?_, ?_, ?_, ?_, ?_, ?_, ?_, ?_, ?_, ?_, ?_⟩, ?_⟩
  · rw [hS]; exact h.stackNodup
  · intro x hx
    rw [hS] at hx
    have hso := h.stackOk x hx
    have hxn : x ≠ ni := fun hxn => hns (hxn ▸ hx)
    have hx0 : ph x ≠ .p0 := by rcases hso.2 with h2 | h2 <;> rw [h2] <;> intro h <;> cases h
    rw [hsame x hx0 hxn]; exact hso
  · rw [hR]; exact h.rootNodup
  · intro x hx
    rw [hR] at hx
    have hro := h.rootOk x hx
    have hxn : x ≠ ni := by
      intro hxn; subst hxn
      rcases hph with h2 | h2 <;> rw [h2] at hro <;> cases hro.2
    have hx0 : ph x ≠ .p0 := by rw [hro.2]; intro h; cases h
    rw [hsame x hx0 hxn]; exact hro
  · rw [hN, size_putNode]; exact h.size
  · intro x bn' hx hp2
    have hx2 : ph x = .p2 := by
      rcases Classical.em (x = ni) with hxn | hxn
      · subst hxn; rw [hni'] at hp2; cases hp2
      · rcases Classical.em (x = r) with hxr | hxr
        · subst hxr; rw [hr'] at hp2; cases hp2
        · have : ph' x = ph x := by simp [ph', condPhase, hxn, hxr]
          rw [← this]; exact hp2
    rcases hget x bn' hx with ⟨h1, h2⟩ | ⟨_, h2⟩
    · subst h1; subst h2
      exact h.init x parent hcp hx2
    · exact h.init x bn' h2 hx2
  · intro x bn' hx hp3 it hit
    have hx3 := hold3 x hp3
    rcases hget x bn' hx with ⟨h1, h2⟩ | ⟨_, h2⟩
    · subst h1; subst h2
      simp only [Array.toList_push, List.mem_append, List.mem_singleton] at hit
      rcases hit with hit | hit
      · exact keep x parent hcp hx3 it hit
      · subst hit; rw [hitem]; exact ⟨hrG, hr'⟩
    · exact keep x bn' h2 hx3 it hit
  · intro x bn' hx hp3
    have hx3 := hold3 x hp3
    rcases hget x bn' hx with ⟨h1, h2⟩ | ⟨_, h2⟩
    · subst h1; subst h2
      simp only [Array.toList_push, List.map_append, List.map_cons, List.map_nil]
      refine List.nodup_append.2 ⟨h.itemsNodup x parent hcp hx3, by simp, fun a ha b hb hab => ?_⟩
      simp only [List.mem_singleton] at hb
      subst hab; subst hb
      obtain ⟨it, hit, hidx⟩ := List.mem_map.1 ha
      have := (h.items x parent hcp hx3 it hit).2
      rw [hidx, hitem, hr0] at this; cases this
    · exact h.itemsNodup x bn' h2 hx3
  · have hsd : ∀ p c, SchedDone tree ph p c → SchedDone tree ph' p c := by
      intro p c ⟨hs1, hs2⟩
      have hp0 : ph p ≠ .p0 := by rcases hs1 with h1 | h1 <;> rw [h1] <;> intro h <;> cases h
      rcases Classical.em (p = ni) with hpn' | hpn'
      · subst hpn'
        exact ⟨Or.inr hni', fun _ => hni'⟩
      · rw [SchedDone, hsame p hp0 hpn']; exact ⟨hs1, hs2⟩
    intro c hcG hc0
    rcases Classical.em (c = r) with hcr | hcr
    · subst hcr
      exact Or.inr ⟨ni, hG, hchild, Or.inr hni', fun _ => hni'⟩
    · have hc0' : ph c ≠ .p0 := by
        rcases Classical.em (c = ni) with hcn | hcn
        · subst hcn; exact hni0
        · have : ph' c = ph c := by simp [ph', condPhase, hcn, hcr]
          rw [← this]; exact hc0
      rcases h.fresh c hcG hc0' with h1 | ⟨p, hp, hpc, hs⟩
      · exact Or.inl h1
      · exact Or.inr ⟨p, hp, hpc, hsd p c hs⟩
  · intro x pn' hx hp2
    have hx2 : ph x = .p2 := by
      rcases Classical.em (x = ni) with hxn | hxn
      · subst hxn; rw [hni'] at hp2; cases hp2
      · rcases Classical.em (x = r) with hxr | hxr
        · subst hxr; rw [hr'] at hp2; cases hp2
        · have : ph' x = ph x := by simp [ph', condPhase, hxn, hxr]
          rw [← this]; exact hp2
    exact h.p2two x pn' hx hx2
  · intro x bn' hx
    rcases hget x bn' hx with ⟨h1, h2⟩ | ⟨_, h2⟩
    · subst h1; subst h2; exact h.pni x parent hcp
    · exact h.pni x bn' h2
  · apply total_lt
    · intro x _
      rcases Classical.em (x = ni) with hxn | hxn
      · subst hxn; rw [hni']; simp [Phase.rank]
      · rcases Classical.em (x = r) with hxr | hxr
        · subst hxr; rw [hr', hr0]; simp [Phase.rank]
        · have : ph' x = ph x := by simp [ph', condPhase, hxn, hxr]
          rw [this]; exact Nat.le_refl _
    · refine ⟨ni, G_lt V hG, ?_⟩
      rw [hni']
      rcases hph with h2 | h2 <;> rw [h2] <;> decide


theorem cond_inv (V : Validated root tree G) {ph : Nat → Phase} {ctx ctx' : Ctx F} (h : Inv root tree G ph ctx)
    {ni : Nat} (hG : G ni) (hph : ph ni = .p1 ∨ ph ni = .p2) (hns : ni ∉ ctx.stack.toList)
    {pn : ParseNode} (hpn : tree[ni]? = some pn) {r : Nat} (hr : pn.right = some r) (hlate : isLate pn.definition = true)
    {cp : Nat} {parent : BuildNode} (hcp : ctx.nodes[cp]? = some (some parent)) (item : ConditionItem) (hitem : item.nodeIndex = r)
    (hS : ctx'.stack = ctx.stack) (hR : ctx'.rootStack = ctx.rootStack)
    (hN : ctx'.nodes = putNode ctx.nodes cp { parent with conditionalItems := parent.conditionalItems.push item }) :
    ∃ ph', Inv root tree G ph' ctx' ∧ total ph' tree.size < total ph tree.size :=
  ⟨_, cond_inv_exp V h hG hph hns hpn hr hlate hcp item hitem hS hR hN⟩

end Garnish.Lemmas.BuildTotal
