/-
Lemmas/RuntimeAccessHandler.lean over `StoreLawsOn`: the `access` handler (merge arm: no number operand; get arm: found value not `custom`).
-/
import Garnish.Lemmas.RuntimeOnAccess2
set_option linter.unusedSimpArgs false
set_option linter.unusedVariables false
namespace Garnish.Lemmas.Runtime.On
open Garnish Gen Garnish.Abs Garnish.Model.Equality Garnish.Model.Runtime Garnish.Lemmas.Runtime

variable {F σ : Type} {S : RStore F σ} {Inv : σ → Prop} {Rd : σ → Nat → Prop} (fo : FloatOps F)

/-- the handler's `match` by arm -/
theorem accessMatch_arm (fuel : Nat) (l r : Nat) (tl tr : Ty) :
    accessMatch fo S fuel l r tl tr = match accessArm tl tr with
      | .merge => (do let i ← S.mergeToSymbolList l r; S.pushRegister i)
      | .get => accessGet fo S fuel l r
      | .defer => deferOrUnit S .access (tl, l) (tr, r) := by
  cases tl <;> cases tr <;> rfl

/-- Abs/Ops `access` by arm -/
theorem access_arm (vl vr : Val F) :
    Abs.access fo vl vr = match accessArm vl.typeOf vr.typeOf with
      | .merge => (match mergeSymList vl vr with
        | some v => OpOut.val v
        | none => .err .data)
      | .get => (match getAccess fo vr vl with
        | .some v => OpOut.val v
        | .none => .val .unit
        | .unsupported => .defer .access vl vr
        | .err e => .err e)
      | .defer => .defer .access vl vr := by
  unfold Abs.access
  generalize vl.typeOf = tl
  generalize vr.typeOf = tr
  cases tl <;> cases tr <;> rfl

/-- inside `AccessDomain` the value-level look-up never answers with Abs/Ops' "slices are not modelled" marker -/
theorem getAccess_ne_unsupportedErr {key v : Val F} (hd : AccessDomain v) :
    getAccess fo key v ≠ .err .unsupported := by
  cases key <;> try (simp [getAccess])
  · rename_i n
    unfold accessInt
    split
    case h_10 => exact absurd hd id
    all_goals (repeat' split) <;> (intro h; cases h)
  · rename_i y
    unfold accessSym
    split
    case h_5 => exact absurd hd id
    all_goals (repeat' split) <;> (intro h; cases h)

/-- if a merge arm is selected the operands are symbols, numbers or symbol lists: `mergeSymList` answers -/
theorem merge_arm_some {vl vr : Val F} (h : accessArm vl.typeOf vr.typeOf = .merge) :
    ∃ v, mergeSymList vl vr = some v := by
  cases vl <;> cases vr <;> first | (cases h; done) | exact ⟨_, rfl⟩

/-- if a get arm is selected the key is a number or a symbol -/
theorem get_arm_key {vl vr : Val F} (h : accessArm vl.typeOf vr.typeOf = .get) :
    vr.typeOf = .number ∨ vr.typeOf = .symbol := by
  cases vl <;> cases vr <;> first | (cases h; done) | exact Or.inl rfl | exact Or.inr rfl

/-- `access` refines Abs/Ops `access` -/
theorem access_spec (L : StoreLawsOn S Inv Rd) (fuel : Nat) {s : σ} {r l : Nat} {vr vl : Val F} {rest : List Nat}
    (hregs : S.regs s = r :: l :: rest) (hl : Decodes (S.view s) l vl) (hr : Decodes (S.view s) r vr)
    (hd : accessArm vl.typeOf vr.typeOf = .get → AccessDomain vl ∧ accessFuel vl ≤ fuel ∧
      ∀ n, vr = .num n → (∃ i, n = .int i) ∧ RangeOrdered fo n vl)
    (hx : accessArm vl.typeOf vr.typeOf = .get → ncConcat vl ∧
      ((∀ y, vr = .sym y → ∀ vs, vl ≠ .list vs) ∨ ListSymOn S Inv) ∧ ∀ v, getAccess fo vr vl = .some v → v ≠ .custom)
    (hmg : accessArm vl.typeOf vr.typeOf = .merge → (∀ n, vl ≠ .num n) ∧ (∀ n, vr ≠ .num n))
    (hinv : Inv s := by inv_tac) (hdp : Deep S s rest := by deep_tac) :
    RefinesOutI S Inv s (Model.Runtime.access fo S fuel s) none rest l r (Abs.access fo vl vr) := by
  obtain ⟨s1, h1, e1⟩ := nextRef_cons L hregs
  obtain ⟨s0, h2, e2⟩ := nextRef_cons L e1.regs
  rw [e1.vals] at e2
  have e0 := e1.trans e2
  have hl0 := e0.dec hl
  have hr0 := e0.dec hr
  rw [Model.Runtime.access, bind_ok h1, bind_ok h2, bind_ok (getDataType_of hl0), bind_ok (getDataType_of hr0),
    accessMatch_arm, access_arm]
  cases harm : accessArm vl.typeOf vr.typeOf with
  | defer =>
    simp only []
    exact ⟨s0, e0, deferOrUnit_spec L s0 .access _ _ none⟩
  | merge =>
    simp only []
    obtain ⟨v, hv⟩ := merge_arm_some harm
    rw [hv]
    obtain ⟨x, s2, h3, d3, e3⟩ := adds_i (L.mergeSome l r vl vr v s0 e0.inv hl0 hr0 hv (hmg harm).1 (hmg harm).2)
    have hvc : v ≠ .custom := by
      intro hc; subst hc
      cases vl <;> cases vr <;> simp [mergeSymList] at hv
    obtain ⟨s3, h4, e4⟩ := pushReg L d3 hvc
    rw [e3.regs, e3.vals, e0.regs, e0.vals] at e4
    exact ⟨x, s3, by rw [bind_apply, bind_ok h3, h4]; rfl, e4.dec d3, (e0.trans e3).trans e4⟩
  | get =>
    simp only []
    obtain ⟨hdom, hfu, hkey⟩ := hd harm
    obtain ⟨hnc, hls, hres⟩ := hx harm
    have ha := getAccessAddr_spec fo L fuel hr0 hl0 hdom hkey hfu hnc hls
    have hne := getAccess_ne_unsupportedErr fo (key := vr) hdom
    rw [bind_apply, accessGet]
    cases hga : getAccess fo vr vl with
    | some v =>
      rw [hga] at ha
      obtain ⟨x, s2, h3, d3, e3⟩ := ha
      obtain ⟨s3, h4, e4⟩ := pushReg L d3 (hres v hga)
      rw [e3.regs, e3.vals, e0.regs, e0.vals] at e4
      simp only [h3, h4]
      exact ⟨x, s3, rfl, e4.dec d3, (e0.trans e3).trans e4⟩
    | none =>
      rw [hga] at ha
      obtain ⟨s2, h3, e3⟩ := ha
      obtain ⟨x, s3, h4, d4, e4⟩ := pushUnit_spec L s2
      rw [e3.regs, e3.vals, e0.regs, e0.vals] at e4
      simp only [h3, h4]
      exact ⟨x, s3, rfl, d4, (e0.trans e3).trans e4⟩
    | unsupported =>
      rw [hga] at ha
      simp only [AccOutI] at ha
      simp only [ha, beq_self_eq_true, if_true]
      refine ⟨s0, e0, ?_⟩
      rw [bind_ok (getDataType_of hl0), bind_ok (getDataType_of hr0)]
      exact deferOrUnit_spec L s0 .access _ _ none
    | err e =>
      rw [hga] at ha hne
      simp only [AccOutI] at ha
      have : (e == ErrClass.unsupported) = false := by
        cases e <;> first | rfl | exact absurd rfl hne
      simp only [ha, this, Bool.false_eq_true, if_false]
      rfl

end Garnish.Lemmas.Runtime.On
