/-
The tie between the two builder models (1): which parse trees represent an expression.

`Rep tree bodies lo hi i e` — node `i` of the parse-node array `tree` is the root of a subtree that occupies exactly the
indices `[lo, hi)` (in-order numbering: left subtree below `i`, right subtree above — the numbering of the real parser,
whose nodes are numbered by token position) and represents the expression `e` of Spec/Eval.lean: a literal node whose
text parses to the literal, an operator node with the operands as `left` / `right`, a `List` / `CommaList` spine for a
list, `JumpIf…` / `ElseJump` / `And` / `Or` nodes for conditionals, else-chains and logic, `NestedExpression` with the body
as `right`, `Reapply`, the identifier-application nodes, `Group` nodes anywhere.  It is a RELATION: every array that
satisfies it is covered (the real parser's output for the printed program, or `treeOf` of Props/C01Build.lean).
A side-effect block after a value (`v [b]`: the `SideEffect` node hangs off the `right` of the value node, the body off the
`right` of the `SideEffect` node) is `Rep.side`.
Not representable (so outside the tie): a side-effect block anywhere else (`[b] v`, `(e) [b]`, `v [b] [c]`: the builder
drops the content of the group / the first block — it never looks at the `left` of a `SideEffect` node), literal values other than unit / true / false / number / text / byte list / symbol, lists with fewer than two
items, and — without a `Group` node around them, as in the language — a conditional or else-chain as the direct left operand
of `&&` / `||` or as an arm / the final arm of an else-chain, a list as a direct item of a list of the same kind.
-/
import Garnish.Model.Build
import Garnish.Abs.Compile
namespace Garnish.Abs.Tree
open Garnish Garnish.Gen Garnish.Spec Garnish.Abs Garnish.Model.Parser Garnish.Model.Literals Garnish.Model.Build

variable {F : Type}

/-! ### the operator tables of `handle_parse_node` -/

def prefixOp : Definition → Option Instruction
  | .absoluteValue => some .absoluteValue | .opposite => some .opposite | .bitwiseNot => some .bitwiseNot
  | .not => some .not | .tis => some .tis | .typeOf => some .typeOf | .accessLeftInternal => some .accessLeftInternal
  | _ => none

def suffixOp : Definition → Option Instruction
  | .emptyApply => some .emptyApply | .accessRightInternal => some .accessRightInternal
  | .accessLengthInternal => some .accessLengthInternal
  | _ => none

def binOp : Definition → Option Instruction
  | .addition => some .add | .subtraction => some .subtract | .multiplicationSign => some .multiply
  | .division => some .divide | .access => some .access | .range => some .makeRange
  | .startExclusiveRange => some .makeStartExclusiveRange | .endExclusiveRange => some .makeEndExclusiveRange
  | .exclusiveRange => some .makeExclusiveRange | .exponentialSign => some .power | .remainder => some .remainder
  | .integerDivision => some .integerDivide | .bitwiseAnd => some .bitwiseAnd | .bitwiseOr => some .bitwiseOr
  | .bitwiseXor => some .bitwiseXor | .bitwiseRightShift => some .bitwiseShiftRight
  | .bitwiseLeftShift => some .bitwiseShiftLeft | .xor => some .xor | .typeEqual => some .typeEqual
  | .typeCast => some .applyType | .equality => some .equal | .inequality => some .notEqual
  | .lessThan => some .lessThan | .lessThanOrEqual => some .lessThanOrEqual | .greaterThan => some .greaterThan
  | .greaterThanOrEqual => some .greaterThanOrEqual | .apply => some .apply | .partialApply => some .partialApply
  | .concatenation => some .concat
  | _ => none

/-- nodes whose build node looks at `conditional_parent` -/
def condDef (d : Definition) : Bool := d == .jumpIfTrue || d == .jumpIfFalse || d == .elseJump

def jumpIfDef : Bool → Definition
  | true => .jumpIfTrue
  | false => .jumpIfFalse

variable (pf : List Char → Option F)

/-- the literal a value node stands for -/
inductive LitRep (pn : ParseNode) : Val F → Prop where
  | unit : pn.definition = .unit → LitRep pn .unit
  | tru : pn.definition = .true → LitRep pn .tru
  | fls : pn.definition = .false → LitRep pn .fls
  | num {n : Number F} : pn.definition = .number → parseSimpleNumber pf pn.lexToken.text = .ok n → LitRep pn (.num n)
  | chars {cs : List Char} : pn.definition = .charList → parseCharList pf pn.lexToken.text = .ok cs →
      LitRep pn (.chars (cs.map Char.toNat))
  | bytes {bs : List Nat} : pn.definition = .byteList → parseByteList pf pn.lexToken.text = .ok bs → LitRep pn (.bytes bs)
  | sym {rest : List Char} : pn.definition = .symbol → dropFirstByte pn.lexToken.text = some rest →
      LitRep pn (.sym (parseSymbol rest))
  | prop : pn.definition = .property → LitRep pn (.sym (parseSymbol pn.lexToken.text))

/-- the expression a value node stands for: a literal, `$`, an identifier -/
inductive LeafRep (pn : ParseNode) : Expr F → Prop where
  | lit {v : Val F} : LitRep pf pn v → LeafRep pn (.lit v)
  | input : pn.definition = .value → LeafRep pn .input
  | ident : pn.definition = .identifier → LeafRep pn (.ident (parseSymbol pn.lexToken.text))

variable (tree : Array ParseNode) (bodies : List (Nat × Expr F))

/-- the definition of node `i` is not `d` (an item of a `d`-list is not itself a `d`-list node) -/
def NotDef (i : Nat) (d : Definition) : Prop := ∀ pn, tree[i]? = some pn → pn.definition ≠ d

/-- node `i` does not look at `conditional_parent` -/
def NotCond (i : Nat) : Prop := ∀ pn, tree[i]? = some pn → condDef pn.definition = false

mutual
inductive Rep : Nat → Nat → Nat → Expr F → Prop where
  | group {hi i r : Nat} {e : Expr F} {pn : ParseNode} : tree[i]? = some pn → pn.definition = .group → pn.right = some r →
      Rep (i + 1) hi r e → Rep i hi i e
  | lit {i : Nat} {v : Val F} {pn : ParseNode} : tree[i]? = some pn → pn.left = none → pn.right = none → LitRep pf pn v →
      Rep i (i + 1) i (.lit v)
  | input {i : Nat} {pn : ParseNode} : tree[i]? = some pn → pn.definition = .value → pn.left = none → pn.right = none →
      Rep i (i + 1) i .input
  | ident {i : Nat} {pn : ParseNode} : tree[i]? = some pn → pn.definition = .identifier → pn.left = none → pn.right = none →
      Rep i (i + 1) i (.ident (parseSymbol pn.lexToken.text))
  | unaryPre {hi i r : Nat} {op : Instruction} {x : Expr F} {pn : ParseNode} : tree[i]? = some pn →
      prefixOp pn.definition = some op → pn.right = some r → Rep (i + 1) hi r x → Rep i hi i (.unary op x)
  | unarySuf {lo i l : Nat} {op : Instruction} {x : Expr F} {pn : ParseNode} : tree[i]? = some pn →
      suffixOp pn.definition = some op → pn.left = some l → Rep lo i l x → Rep lo (i + 1) i (.unary op x)
  | binary {lo hi i l r : Nat} {op : Instruction} {a b : Expr F} {pn : ParseNode} : tree[i]? = some pn →
      binOp pn.definition = some op → pn.left = some l → pn.right = some r → Rep lo i l a → Rep (i + 1) hi r b →
      Rep lo hi i (.binary op a b)
  | pair {lo hi i l r : Nat} {a b : Expr F} {pn : ParseNode} : tree[i]? = some pn → pn.definition = .pair →
      pn.left = some l → pn.right = some r → Rep lo i l a → Rep (i + 1) hi r b → Rep lo hi i (.pair a b)
  | applyTo {lo hi i l r : Nat} {x f : Expr F} {pn : ParseNode} : tree[i]? = some pn → pn.definition = .applyTo →
      pn.left = some l → pn.right = some r → Rep lo i l x → Rep (i + 1) hi r f → Rep lo hi i (.applyTo x f)
  | list {lo hi i : Nat} {d : Definition} {items : List (Expr F)} : (d = .list ∨ d = .commaList) →
      RepItems d lo hi i items → Rep lo hi i (.list items)
  | seq {lo hi i l r : Nat} {a b : Expr F} {pn : ParseNode} : tree[i]? = some pn →
      (pn.definition = .subexpression ∨ pn.definition = .expressionSeparator) →
      pn.left = some l → pn.right = some r → Rep lo i l a → Rep (i + 1) hi r b → Rep lo hi i (.seq a b)
  | reapply {hi i r : Nat} {x : Expr F} {pn : ParseNode} : tree[i]? = some pn → pn.definition = .reapply →
      pn.right = some r → Rep (i + 1) hi r x → Rep i hi i (.reapply x)
  | prefixApply {hi i r : Nat} {x : Expr F} {pn : ParseNode} : tree[i]? = some pn → pn.definition = .prefixApply →
      pn.right = some r → Rep (i + 1) hi r x →
      Rep i hi i (.prefixApply (parseSymbol (trimMatches '`' pn.lexToken.text)) x)
  | suffixApply {lo i l : Nat} {x : Expr F} {pn : ParseNode} : tree[i]? = some pn → pn.definition = .suffixApply →
      pn.left = some l → Rep lo i l x →
      Rep lo (i + 1) i (.suffixApply x (parseSymbol (trimMatches '`' pn.lexToken.text)))
  | infixApply {lo hi i l r : Nat} {a b : Expr F} {pn : ParseNode} : tree[i]? = some pn → pn.definition = .infixApply →
      pn.left = some l → pn.right = some r → Rep lo i l a → Rep (i + 1) hi r b →
      Rep lo hi i (.infixApply a (parseSymbol (trimMatches '`' pn.lexToken.text)) b)
  | side {hi i b : Nat} {x body : Expr F} {pn ps : ParseNode} : tree[i]? = some pn → pn.left = none →
      pn.right = some (i + 1) → LeafRep pf pn x → tree[i + 1]? = some ps → ps.definition = .sideEffect → ps.right = some b →
      Rep (i + 2) hi b body → Rep i hi i (.sideAfter x body)
  | nested {hi i r id : Nat} {b : Expr F} {pn : ParseNode} : tree[i]? = some pn → pn.definition = .nestedExpression →
      pn.right = some r → lookupBody bodies id = some b → Rep (i + 1) hi r b → Rep i hi i (.nested id)
  | emptyNested {i : Nat} {pn : ParseNode} : tree[i]? = some pn → pn.definition = .nestedExpression → pn.right = none →
      Rep i (i + 1) i .emptyNested
  | cond {lo hi i l r : Nat} {onTrue : Bool} {c t : Expr F} {pn : ParseNode} : tree[i]? = some pn →
      pn.definition = jumpIfDef onTrue → pn.left = some l → pn.right = some r → Rep lo i l c → Rep (i + 1) hi r t →
      Rep lo hi i (.cond onTrue c t)
  | and {lo hi i l r : Nat} {a b : Expr F} {pn : ParseNode} : tree[i]? = some pn → pn.definition = .and →
      pn.left = some l → pn.right = some r → NotCond tree l → Rep lo i l a → Rep (i + 1) hi r b → Rep lo hi i (.and a b)
  | or {lo hi i l r : Nat} {a b : Expr F} {pn : ParseNode} : tree[i]? = some pn → pn.definition = .or →
      pn.left = some l → pn.right = some r → NotCond tree l → Rep lo i l a → Rep (i + 1) hi r b → Rep lo hi i (.or a b)
  | chain {lo hi i l r : Nat} {arms : List (Bool × Expr F × Expr F)} {fe : Expr F} {pn : ParseNode} : tree[i]? = some pn →
      pn.definition = .elseJump → pn.left = some l → pn.right = some r → RepArms lo i l arms → NotCond tree r →
      Rep (i + 1) hi r fe → Rep lo hi i (.chain arms (some fe))
  | chainNoFinal {lo hi i l r : Nat} {arms : List (Bool × Expr F × Expr F)} {onTrue : Bool} {c t : Expr F}
      {pn : ParseNode} : tree[i]? = some pn →
      pn.definition = .elseJump → pn.left = some l → pn.right = some r → RepArms lo i l arms →
      RepArm (i + 1) hi r onTrue c t → Rep lo hi i (.chain (arms ++ [(onTrue, c, t)]) none)
/-- the spine of a list of definition `d`: the items in order, at least two -/
inductive RepItems : Definition → Nat → Nat → Nat → List (Expr F) → Prop where
  | two {d : Definition} {lo hi i l r : Nat} {a b : Expr F} {pn : ParseNode} : tree[i]? = some pn → pn.definition = d →
      pn.left = some l → pn.right = some r → NotDef tree l d → NotDef tree r d → Rep lo i l a → Rep (i + 1) hi r b →
      RepItems d lo hi i [a, b]
  | snoc {d : Definition} {lo hi i l r : Nat} {items : List (Expr F)} {b : Expr F} {pn : ParseNode} : tree[i]? = some pn →
      pn.definition = d → pn.left = some l → pn.right = some r → NotDef tree r d → RepItems d lo i l items →
      Rep (i + 1) hi r b → RepItems d lo hi i (items ++ [b])
/-- the left part of an else-chain: one conditional arm, or an `ElseJump` node over more arms -/
inductive RepArms : Nat → Nat → Nat → List (Bool × Expr F × Expr F) → Prop where
  | one {lo hi i : Nat} {onTrue : Bool} {c t : Expr F} : RepArm lo hi i onTrue c t → RepArms lo hi i [(onTrue, c, t)]
  | more {lo hi i l r : Nat} {arms : List (Bool × Expr F × Expr F)} {onTrue : Bool} {c t : Expr F} {pn : ParseNode} :
      tree[i]? = some pn → pn.definition = .elseJump → pn.left = some l → pn.right = some r → RepArms lo i l arms →
      RepArm (i + 1) hi r onTrue c t → RepArms lo hi i (arms ++ [(onTrue, c, t)])
/-- a conditional arm: a `JumpIf` node directly below an `ElseJump` -/
inductive RepArm : Nat → Nat → Nat → Bool → Expr F → Expr F → Prop where
  | mk {lo hi i l r : Nat} {onTrue : Bool} {c t : Expr F} {pn : ParseNode} : tree[i]? = some pn →
      pn.definition = jumpIfDef onTrue → pn.left = some l → pn.right = some r → Rep lo i l c → Rep (i + 1) hi r t →
      RepArm lo hi i onTrue c t
end

end Garnish.Abs.Tree
