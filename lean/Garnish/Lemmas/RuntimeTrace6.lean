/-
Trace half of the step simulation, part 6 (mirrors Lemmas/RuntimeStep6.lean): `Resolve` — the host's `resolve` is
recorded by the store exactly when the machine records it (a symbol key not found in the input value).
-/
import Garnish.Lemmas.RuntimeTrace5
set_option linter.unusedSimpArgs false
set_option linter.unusedVariables false
namespace Garnish.Lemmas.Runtime
open Garnish Gen Garnish.Abs Garnish.Model.Equality Garnish.Model.Runtime Garnish.Props.RuntimeRefine

variable {F σ : Type} {S : RStore F σ} {P : Prog F} {host : Host F} (fo : FloatOps F)

/-- the machine's trace after the context half of `resolveStep` -/
def contextTrace (key : Val F) (mt : List (Abs.HostCall F)) : List (Abs.HostCall F) :=
  match key with
  | .sym sy => Abs.HostCall.resolve sy :: mt
  | _ => mt

theorem resolveStep_context_trace (m : MState F) (key : Val F)
    (hin : (match m.vals with
      | [] => True
      | cur :: _ => getAccess fo key cur = .none ∨ getAccess fo key cur = .unsupported)) :
    ∃ md, resolveStep fo host m key = .ok md ∧ md.trace = contextTrace key m.trace := by
  obtain ⟨pc, regs, vals, frames, trace⟩ := m
  have fin : ∀ (X : Except ErrClass (MState F)),
      X = (match key with
        | .sym sy =>
          match host.resolve sy with
          | some v => .ok ⟨pc, v :: regs, vals, frames, Abs.HostCall.resolve sy :: trace⟩
          | none => .ok ⟨pc, .unit :: regs, vals, frames, Abs.HostCall.resolve sy :: trace⟩
        | _ => .ok ⟨pc, .unit :: regs, vals, frames, trace⟩) →
      ∃ md, X = .ok md ∧ md.trace = contextTrace key trace := by
    intro X hX
    subst hX
    cases key
    case sym sy =>
      simp only [contextTrace]
      cases hh : host.resolve sy <;> exact ⟨_, rfl, rfl⟩
    all_goals exact ⟨_, rfl, rfl⟩
  apply fin
  unfold resolveStep
  cases vals with
  | nil => cases key <;> rfl
  | cons cur vs =>
    simp only [] at hin
    rcases hin with h | h <;> simp only [h] <;> cases key <;> rfl

theorem resolveStep_found_trace (m : MState F) (key cur v : Val F) (vs : List (Val F)) (hv : m.vals = cur :: vs)
    (hin : getAccess fo key cur = .some v) : ∃ md, resolveStep fo host m key = .ok md ∧ md.trace = m.trace := by
  unfold resolveStep
  simp only [hv, hin]
  exact ⟨_, rfl, rfl⟩

/-- the context half of `resolve`: the store records `resolve sy` exactly for a symbol key -/
theorem resolveContext_trace (L : StoreLaws S) (HR : HostRefines S host) {s : σ} {mt : List (Abs.HostCall F)}
    {res : Outcome (Option Nat × σ)} {key : Val F} (h : ResolveContext S s res none key)
    (htr : TraceRel (S.view s) (S.trace s) mt) :
    ∀ next s1, res = .ok (next, s1) → TraceRel (S.view s1) (S.trace s1) (contextTrace key mt) := by
  obtain ⟨s0, e0, hk⟩ := h
  intro next s1 hres
  have unitCase : Pushed S s0 res none (S.regs s0) .unit → TraceRel (S.view s1) (S.trace s1) mt := by
    intro hp
    obtain ⟨u, s2, h2, _, e2⟩ := hp
    obtain ⟨e, dk⟩ := quiet_of_eff (S := S) (s := s0) ⟨none, s2, h2, e2⟩ next s1 hres
    rw [e, e0.trace]
    exact traceRel_mapDec (fun a v x => dk a v (e0.dec x)) htr
  cases key
  case sym sy =>
    simp only [] at hk
    unfold ResolveProtocol at hk
    simp only [contextTrace]
    have ha := HR.resolve sy s0
    unfold HostAnswer at ha
    have core : ∃ bb sh, S.resolve sy s0 = .ok (bb, sh) ∧ Keeps S s0 sh ∧ S.trace s1 = S.trace sh ∧ DecKept S sh s1 := by
      cases hh : host.resolve sy with
      | some v =>
        rw [hh] at ha
        obtain ⟨x, sh, h1, _, he⟩ := ha
        rw [h1] at hk
        simp only [] at hk
        rw [hk] at hres; cases hres
        exact ⟨true, _, h1, he.keeps, rfl, fun _ _ x => x⟩
      | none =>
        rw [hh] at ha
        obtain ⟨sh, h1, he⟩ := ha
        rw [h1] at hk
        simp only [] at hk
        obtain ⟨u, s2, h2, _, e2⟩ := hk
        rw [h2] at hres; cases hres
        exact ⟨false, sh, h1, he.keeps, e2.trace, e2.keeps.dec⟩
    obtain ⟨bb, sh, h1, kh, et, dk⟩ := core
    have hrec := L.resolve sy s0 bb sh h1
    have dall : DecKept S s s1 := fun x v hx => dk x v (kh.dec x v (e0.dec hx))
    rw [et, hrec, e0.trace]
    exact .cons rfl (traceRel_mapDec dall htr)
  all_goals exact unitCase hk

/-- `Resolve k` -/
theorem stepTrace_resolve (L : StoreLaws S) (HR : HostRefines S host) (fuel : Nat) (H : OtherHandlers σ)
    {s : σ} {m : MState F} (hsim : Sim S P s m) {k : Nat} {key : Val F}
    (hfetch : P.instrs[m.pc]? = some (.resolve, some k)) (hc : P.consts[k]? = some key)
    (hdk : Decodes (S.view s) k key)
    (hdom : ∀ cur vs, m.vals = cur :: vs → AccessDomain cur ∧ accessFuel cur ≤ fuel ∧
      ∀ n, key = .num n → (∃ i, n = .int i) ∧ RangeOrdered fo n cur) :
    StepTrace fo host S P fuel H s m := by
  have hstep : Abs.step fo host P m = finish P (seqR m (resolveStep fo host m key)) := by
    unfold Abs.step; rw [hfetch]; simp only [hc, seqNext_eq]
  refine stepTrace_of fo L fuel H hsim hfetch hstep ?_
  show HandlerTrace S s (Model.Runtime.resolve fo S fuel k s) m.trace _
  have close : ∀ (tr : List (Abs.HostCall F)), (∃ md, resolveStep fo host m key = .ok md ∧ md.trace = tr) →
      (TraceRel (S.view s) (S.trace s) m.trace → ∀ next s1, Model.Runtime.resolve fo S fuel k s = .ok (next, s1) →
        TraceRel (S.view s1) (S.trace s1) tr) →
      HandlerTrace S s (Model.Runtime.resolve fo S fuel k s) m.trace (seqR m (resolveStep fo host m key)) := by
    intro tr ⟨md, hmd, ht⟩ hh
    rw [hmd]
    intro next s1 h1 htr
    rw [ht]
    exact hh htr next s1 h1
  have hvals := hsim.2.vals
  cases hmv : m.vals with
  | nil =>
    rw [hmv] at hvals
    have hsv : S.vals s = [] := by
      generalize S.vals s = sv at hvals
      cases hvals; rfl
    exact close _ (resolveStep_context_trace fo m key (by rw [hmv]; trivial))
      (fun htr => resolveContext_trace L HR (C17_refine_resolve_no_input fo L fuel hsv hdk) htr)
  | cons cur vs =>
    rw [hmv] at hvals
    obtain ⟨c, cs, hsv, dc, _⟩ := decodesList_cons_inv hvals
    obtain ⟨hd1, hfu, hkey⟩ := hdom cur vs hmv
    have h := C17_refine_resolve fo L fuel hsv hdk dc hd1 hkey hfu
    cases hga : getAccess fo key cur with
    | some v =>
      rw [hga] at h
      obtain ⟨a, s2, h2, _, e2⟩ := h
      refine close _ (resolveStep_found_trace fo m key cur v vs hmv hga) (fun htr next s1 h1 => ?_)
      obtain ⟨e, dk⟩ := quiet_of_eff (S := S) (s := s) ⟨none, s2, h2, e2⟩ next s1 h1
      rw [e]; exact traceRel_mapDec dk htr
    | none =>
      rw [hga] at h
      exact close _ (resolveStep_context_trace fo m key (by rw [hmv]; exact Or.inl hga))
        (fun htr => resolveContext_trace L HR h htr)
    | unsupported =>
      rw [hga] at h
      exact close _ (resolveStep_context_trace fo m key (by rw [hmv]; exact Or.inr hga))
        (fun htr => resolveContext_trace L HR h htr)
    | err e =>
      have hne := getAccess_ne_unsupportedErr fo (key := key) hd1
      rw [hga] at hne
      have : resolveStep fo host m key = .error e := by
        unfold resolveStep
        simp only [hmv, hga]
        cases e <;> first | rfl | exact absurd rfl hne
      rw [this]; trivial

end Garnish.Lemmas.Runtime
