/-
Refinement lemmas for `make_list` (list.rs): the add loop, the pop loop, and the handler against the contract of
`start_list` / `add_to_list` / `end_list` (the ghost list under construction of `StoreLaws`).
-/
import Garnish.Lemmas.RuntimeConcat
import Garnish.Model.Runtime.MakeList
set_option linter.unusedSimpArgs false
set_option linter.unusedVariables false
namespace Garnish.Lemmas.Runtime
open Garnish Gen Garnish.Abs Garnish.Model.Equality Garnish.Model.Runtime

variable {F σ : Type} {S : RStore F σ}

theorem decodesList_reverse {view : StoreView F} : ∀ {as : List Nat} {vs : List (Val F)},
    DecodesList view as vs → DecodesList view as.reverse vs.reverse
  | [], [], .nil => .nil
  | a :: as, v :: vs, .cons h t => by
    simp only [List.reverse_cons]
    exact EqualityRefine.decodesList_append (decodesList_reverse t) (.cons h .nil)

/-- the add loop: the `k`-th round adds the `k`-th of the top registers counted from the bottom -/
theorem makeListAdd_spec (L : StoreLaws S) (top rest : List Nat) : ∀ (rem k t : Nat) (s : σ),
    rem + k = top.length → S.regs s = top ++ rest → S.building s = some (t, top.reverse.take k) →
    ∃ t' s', makeListAdd S rem (rest.length + k) t s = .ok (t', s') ∧ Eff S s s' (top ++ rest) (S.vals s) ∧
      S.building s' = some (t', top.reverse) := by
  intro rem
  induction rem with
  | zero =>
    intro k t s hk hregs hb
    have : top.reverse.take k = top.reverse := List.take_of_length_le (by simp; omega)
    rw [this] at hb
    exact ⟨t, s, rfl, ⟨Keeps.refl S s, hregs, rfl, rfl, rfl⟩, hb⟩
  | succ rem ih =>
    intro k t s hk hregs hb
    have hlt : k < top.reverse.length := by simp; omega
    have hget : getRegister S (rest.length + k) s = .ok (some top.reverse[k], s) := by
      show Outcome.ok ((S.regs s).reverse[rest.length + k]?, s) = _
      rw [hregs, List.reverse_append, List.getElem?_append_right (by simp), List.length_reverse,
        Nat.add_sub_cancel_left, List.getElem?_eq_getElem hlt]
    obtain ⟨t1, s1, h1, e1, b1⟩ := L.addToList t _ top.reverse[k] s hb
    rw [hregs] at e1
    have hb1 : S.building s1 = some (t1, top.reverse.take (k + 1)) := by
      rw [b1, List.take_add_one, List.getElem?_eq_getElem hlt]; rfl
    obtain ⟨t2, s2, h2, e2, b2⟩ := ih (k + 1) t1 s1 (by omega) e1.regs hb1
    rw [e1.vals] at e2
    refine ⟨t2, s2, ?_, e1.trans e2, b2⟩
    rw [makeListAdd, bind_ok hget]
    simp only []
    rw [bind_ok (pure_apply _ s), bind_ok h1]
    exact h2

/-- popping `n` registers -/
theorem popRegisters_spec (L : StoreLaws S) : ∀ (top rest : List Nat) (s : σ), S.regs s = top ++ rest →
    ∃ s', popRegisters S top.length s = .ok ((), s') ∧ Eff S s s' rest (S.vals s) ∧
      S.building s' = S.building s
  | [], rest, s, hregs => ⟨s, rfl, ⟨Keeps.refl S s, by simpa using hregs, rfl, rfl, rfl⟩, rfl⟩
  | x :: top, rest, s, hregs => by
    obtain ⟨s1, h1, e1⟩ := L.popRegisterCons s x (top ++ rest) hregs
    have hb1 := L.popRegisterBuilding s _ s1 h1
    obtain ⟨s2, h2, e2, hb2⟩ := popRegisters_spec L top rest s1 e1.regs
    rw [e1.vals] at e2
    refine ⟨s2, ?_, e1.trans e2, hb2.trans hb1⟩
    show popRegisters S (top.length + 1) s = _
    rw [popRegisters, bind_ok h1]; exact h2

/-- `make_list len` with at least `len` registers: the top `len` registers, bottom-most first, become one list -/
theorem makeList_spec (L : StoreLaws S) {s : σ} (top rest : List Nat) (tvs : List (Val F))
    (hregs : S.regs s = top ++ rest) (hd : DecodesList (S.view s) top tvs) :
    Pushed S s (makeList S top.length s) none rest (.list tvs.reverse) := by
  have hlen : getRegisterLen S s = .ok ((top ++ rest).length, s) := by
    show Outcome.ok ((S.regs s).length, s) = _
    rw [hregs]
  have hnot : ¬ top.length > (top ++ rest).length := by simp
  obtain ⟨t0, s1, h1, e1, b1⟩ := L.startList top.length s
  rw [hregs] at e1
  have hlen1 : getRegisterLen S s1 = .ok ((top ++ rest).length, s1) := by
    show Outcome.ok ((S.regs s1).length, s1) = _
    rw [e1.regs]
  obtain ⟨t1, s2, h2, e2, b2⟩ := makeListAdd_spec L top rest top.length 0 t0 s1 (by omega) e1.regs
    (by rw [b1]; rfl)
  rw [e1.vals] at e2
  obtain ⟨s3, h3, e3, b3⟩ := popRegisters_spec L top rest s2 e2.regs
  rw [e2.vals] at e3
  have e03 := (e1.trans e2).trans e3
  obtain ⟨a, s4, h4, d4, e4⟩ := L.endList t1 top.reverse tvs.reverse s3 (by rw [b3, b2])
    (decodesList_reverse (decodesList_keeps e03.keeps hd))
  rw [e3.regs, e3.vals] at e4
  obtain ⟨s5, h5, e5⟩ := L.pushRegister a s4
  rw [e4.regs, e4.vals] at e5
  refine ⟨a, s5, ?_, e5.dec d4, (e03.trans e4).trans e5⟩
  have hcount : (top ++ rest).length - ((top ++ rest).length - top.length) = top.length := by simp
  have hstart : (top ++ rest).length - top.length = rest.length + 0 := by simp
  rw [makeList, bind_ok hlen]
  simp only [hnot, if_false]
  rw [bind_ok h1, bind_ok hlen1, bind_ok hlen1, hcount, hstart, bind_ok h2, bind_ok h3,
    bind_ok h4, bind_ok h5]; rfl

/-- with fewer registers than `len`: the state error, before anything is touched -/
theorem makeList_short {s : σ} {len : Nat} (h : len > (S.regs s).length) : makeList S len s = .err .state := by
  have hlen : getRegisterLen S s = .ok ((S.regs s).length, s) := rfl
  rw [makeList, bind_ok hlen]
  simp only [h, if_true]; rfl

end Garnish.Lemmas.Runtime
