/-
`StoreLawsOn` for `BasicGarnishData`, continued: `pop_frame`.
-/
import Garnish.Lemmas.BasicLaws5
set_option linter.unusedSimpArgs false
set_option linter.unusedVariables false
set_option maxHeartbeats 2000000
namespace Garnish.Lemmas.Runtime.Basic
open Garnish Gen Garnish.Model.Equality Garnish.Model.Runtime Garnish.Model.Runtime.Basic Garnish.BasicOpt
open Garnish.Lemmas.Runtime Garnish.Lemmas.EqualityRefine

variable {F : Type}

theorem node_shape' {cells : Array Cell} {a : Nat} (h : isNode cells a = true) : ∃ sh, shape cells a = some sh := by
  simpa [isNode, Option.isSome_iff_exists] using h

/-- a readable frame cell has its return point right before it -/
theorem frame_point {cells : Array Cell} {i : Nat} (hf : isFrameCell cells i = true) (hn : isNode cells i = true) :
    ∃ k pt, i = k + 1 ∧ cells[k]? = some (Cell.jumpPoint pt) := by
  obtain ⟨sh, hsh⟩ := node_shape' hn
  unfold isFrameCell at hf
  cases hc : cells[i]? with
  | none => simp [hc] at hf
  | some c =>
    rw [hc] at hf
    unfold shape at hsh
    rw [hc] at hsh
    cases c <;> simp at hf <;> (
      simp only [Option.map_eq_some_iff] at hsh
      obtain ⟨jp, hjp, _⟩ := hsh
      cases i with
      | zero => simp [framePoint] at hjp
      | succ k =>
        simp only [framePoint] at hjp
        cases hk : cells[k]? with
        | none => simp [hk] at hjp
        | some d =>
          rw [hk] at hjp
          cases d <;> simp at hjp
          exact ⟨k, _, rfl, hk⟩)

/-- **`pop_frame`** -/
theorem popFrame_law (nc : NumCode F) {st : BState} (hinv : BInv st) :
    (∀ (hnil : (basicRStore nc).frames st = []), ∃ st', (basicRStore nc).popFrame st = .ok (none, st') ∧
      Eff (basicRStore nc) st st' ((basicRStore nc).regs st) ((basicRStore nc).vals st) ∧ BInv st') ∧
    (∀ ret saved fs, (basicRStore nc).frames st = (ret, saved) :: fs →
      ∃ st', (basicRStore nc).popFrame st = .ok (some ret, st') ∧
        FEff (basicRStore nc) st st' saved ((basicRStore nc).vals st) fs ∧ BInv st') := by
  -- moving the two heads, cells untouched
  have same : ∀ (fo ro : Option Nat), (∀ x, fo = some x → isFrameCell st.store.cells x = true ∧ isNode st.store.cells x = true) →
      (∀ x, ro = some x → isRegCell st.store.cells x = true) →
      FEff (basicRStore nc) st { st with store := { st.store with currentFrame := fo, currentRegister := ro } }
        (regsOf st.store.cells ro) ((basicRStore nc).vals st) (framesOf st.store.cells fo) ∧
      BInv { st with store := { st.store with currentFrame := fo, currentRegister := ro } } := by
    intro fo ro hfo hro
    refine ⟨⟨⟨fun _ _ h => h, rfl, rfl, rfl, rfl⟩, rfl, rfl, rfl, rfl⟩, ?_, hinv.fits, hro, hinv.regPrev,
      hinv.frameSaved, ⟨fun a ha => (hfo a ha).1, hinv.ftyped.prev, hinv.ftyped.reg⟩⟩
    refine hinv.wfq.withHeads ro _ fo ?_ hinv.wfq.val ?_
    · cases ro with
      | none => rfl
      | some x =>
        have := hro x rfl
        unfold isRegCell at this
        cases hc : st.store.cells[x]? with
        | none => simp [hc] at this
        | some c =>
          rw [hc] at this
          cases c <;> simp at this
          · exact (by simp [headOK, isNode, shape_of_solo hc (sh := ⟨.register 0 0, [], [_, _]⟩) rfl])
          · exact (by simp [headOK, isNode, shape_of_solo hc (sh := ⟨.registerRoot 0, [], [_]⟩) rfl])
    · cases fo with
      | none => rfl
      | some x => exact (hfo x rfl).2
  cases hcf : st.store.currentFrame with
  | none =>
    have hfr : (basicRStore nc).frames st = [] := by show framesOf _ st.store.currentFrame = []; rw [hcf]; rfl
    have hop : st.store.popFrame = .ok (st.store, none) := by simp [Store.popFrame, hcf]
    constructor
    · intro _
      exact ⟨_, liftPop_ok (f := fun s => s.popFrame) hop, Eff.refl (basicRStore nc) st, hinv⟩
    · intro ret saved fs h; rw [hfr] at h; cases h
  | some i =>
    have hfc := hinv.ftyped.head i hcf
    have hnode : isNode st.store.cells i = true := by have := hinv.wfq.frm; rw [hcf] at this; exact this
    obtain ⟨k, pt, rfl, hk⟩ := frame_point hfc hnode
    have hret : retOf st.store.cells (k + 1) = pt := by simp only [retOf, hk]
    have hjb : Store.jumpBefore st.store (k + 1) = .ok pt := by
      simp [Store.jumpBefore, Store.get, hk, bind, Outcome.bind, pure]
    obtain ⟨sh, hsh⟩ := node_shape' hnode
    have hkid : ∀ x ∈ sh.kids, isNode st.store.cells x = true := fun x hx => hinv.wfq.kid_node hsh hx
    unfold isFrameCell at hfc
    cases hc : st.store.cells[k + 1]? with
    | none => simp [hc] at hfc
    | some c =>
      rw [hc] at hfc
      have hget : st.store.get (k + 1) = .ok c := by simp [Store.get, hc]
      have hnsv : svAt st.store.cells (k + 1) = false := by
        cases c <;> simp at hfc <;> simp [svAt, hc, isSV]
      have hklt : ∀ x ∈ sh.kids, x < k + 1 := fun x hx => hinv.wfq.kid_lt hsh hnsv hx
      have hshc := hsh
      unfold shape at hshc
      rw [hc] at hshc
      have fin : ∀ (fo ro : Option Nat) (frs : List (Nat × List Nat)),
          st.store.popFrame = .ok ({ st.store with currentFrame := fo, currentRegister := ro }, some pt) →
          (basicRStore nc).frames st = (pt, regsOf st.store.cells ro) :: framesOf st.store.cells fo →
          (∀ x, fo = some x → isFrameCell st.store.cells x = true ∧ isNode st.store.cells x = true) →
          (∀ x, ro = some x → isRegCell st.store.cells x = true) →
          (∀ (hnil : (basicRStore nc).frames st = []), ∃ st', (basicRStore nc).popFrame st = .ok (none, st') ∧
            Eff (basicRStore nc) st st' ((basicRStore nc).regs st) ((basicRStore nc).vals st) ∧ BInv st') ∧
          (∀ ret saved fs, (basicRStore nc).frames st = (ret, saved) :: fs →
            ∃ st', (basicRStore nc).popFrame st = .ok (some ret, st') ∧
              FEff (basicRStore nc) st st' saved ((basicRStore nc).vals st) fs ∧ BInv st') := by
        intro fo ro frs hop hfr hfo hro
        obtain ⟨he, hi⟩ := same fo ro hfo hro
        constructor
        · intro hnil; rw [hfr] at hnil; cases hnil
        · intro ret saved fs h
          rw [hfr] at h
          simp only [List.cons.injEq, Prod.mk.injEq] at h
          obtain ⟨⟨rfl, rfl⟩, rfl⟩ := h
          exact ⟨_, liftPop_ok (f := fun s => s.popFrame) hop, he, hi⟩
      have hfrs : (basicRStore nc).frames st = framesOf st.store.cells (some (k + 1)) := by
        show framesOf _ st.store.currentFrame = _; rw [hcf]
      cases c <;> simp at hfc
      · rename_i p r
        simp only [Option.map_eq_some_iff] at hshc
        obtain ⟨jp, _, rfl⟩ := hshc
        have hp := hklt p (by simp)
        refine fin (some p) (some r) [] (by simp [Store.popFrame, hcf, hjb, hget, bind, Outcome.bind, pure])
          (by rw [hfrs, framesOf_frame hc hp, hret]) ?_ ?_
        · intro x hx; cases hx
          exact ⟨hinv.ftyped.prev (k + 1) p (Or.inl ⟨r, hc⟩), hkid p (by simp)⟩
        · intro x hx; cases hx; exact hinv.ftyped.reg (k + 1) r (Or.inl ⟨p, hc⟩)
      · rename_i p
        simp only [Option.map_eq_some_iff] at hshc
        obtain ⟨jp, _, rfl⟩ := hshc
        have hp := hklt p (by simp)
        refine fin (some p) none [] (by simp [Store.popFrame, hcf, hjb, hget, bind, Outcome.bind, pure])
          (by rw [hfrs, framesOf_index hc hp, hret]; rfl) ?_ ?_
        · intro x hx; cases hx
          exact ⟨hinv.ftyped.prev (k + 1) p (Or.inr hc), hkid p (by simp)⟩
        · intro x hx; cases hx
      · rename_i r
        refine fin none (some r) [] (by simp [Store.popFrame, hcf, hjb, hget, bind, Outcome.bind, pure])
          (by rw [hfrs, framesOf_freg hc, hret]; rfl) ?_ ?_
        · intro x hx; cases hx
        · intro x hx; cases hx; exact hinv.ftyped.reg (k + 1) r (Or.inr hc)
      · refine fin none none [] (by simp [Store.popFrame, hcf, hjb, hget, bind, Outcome.bind, pure])
          (by rw [hfrs, framesOf_root hc, hret]; rfl) ?_ ?_
        · intro x hx; cases hx
        · intro x hx; cases hx

end Garnish.Lemmas.Runtime.Basic
