/-
The tie between the two builder models (11): infix identifier application, `;`.
-/
import Garnish.Lemmas.CompileTree10
namespace Garnish.Abs.Tree
open Garnish Garnish.Gen Garnish.Spec Garnish.Abs Garnish.Model.Parser Garnish.Model.Literals Garnish.Model.Build

variable {F : Type} {pf : List Char → Option F} {tree : Array ParseNode} {bodies : List (Nat × Expr F)}

theorem sim_infixApply {lo hi i l r : Nat} {a b : Expr F} {pn : ParseNode} (hpn : tree[i]? = some pn)
    (hd : pn.definition = .infixApply) (hl : pn.left = some l) (hr : pn.right = some r)
    (hli : lo ≤ l ∧ l < i) (hri : i + 1 ≤ r ∧ r < hi) (hlt : l < tree.size) (hrt : r < tree.size)
    (iha : SimT pf tree bodies lo i l a) (ihb : SimT pf tree bodies (i + 1) hi r b) :
    SimT pf tree bodies lo hi i (.infixApply a (parseSymbol (trimMatches '`' pn.lexToken.text)) b) := by
  refine sim_two_children (pre_ := fun s => s.pushConst .resolve (.sym (parseSymbol (trimMatches '`' pn.lexToken.text))))
    (post := fun _ s => (s.push .makeList (some 2)).push .apply none) (c1 := l) (c2 := r) (e1 := a) (e2 := b)
    hpn ⟨by omega, by omega⟩ hli hri hlt hrt (ival_split lo hi i ⟨by omega, by omega⟩)
    (by simp only [Ival]; omega) (by simp only [Ival]; omega) (fun y h1 h2 => by simp only [Ival] at h1 h2; omega)
    (by omega) ?_ ?_ (fun _ => rfl) (fun _ => by simp [LState.pushConst]) (fun _ _ => rfl)
    (fun root cur s => by simp only [emit]) iha ihb
  · intro crj data nodes RS S b s hb hs hpi h1 h2 hdat
    obtain ⟨e1, e2, e3, e4, e5⟩ := three_puts (visited b) (BuildNode.new l b.containingExpressionJump)
      (BuildNode.new r b.containingExpressionJump) (lt_of_get hb) h1 h2 (by omega) (by omega) (by omega)
    refine ⟨_, _, ?_, hdat.pushConst .resolve _ none, e1, e2, e3, e4, fun y a1 a2 a3 => e5 y a1 a2 a3⟩
    simp only [handleParseNode, hd, handleInfixApply, getNode, hb, Outcome.bind, hs, hl, hr, parseAddSymbol]
    rw [setNodeIdx_ok (by simpa using h2)]
    simp only []
    rw [setNodeIdx_ok (by simpa using h1)]
    rfl
  · intro crj cur data nodes RS S b s hb hs _ _ hdat
    refine ⟨_, ?_, (hdat.push .makeList (some 2) none).push .apply none (some i)⟩
    simp only [handleParseNode, hd, handleInfixApply, getNode, hb, Outcome.bind, hs]

/-- `a ; b` (and the blank line): the left operand, then the node's second visit (`UpdateValue`), then the right operand -/
theorem sim_seq {lo hi i l r : Nat} {a b : Expr F} {pn : ParseNode} (hpn : tree[i]? = some pn)
    (hd : pn.definition = .subexpression ∨ pn.definition = .expressionSeparator) (hl : pn.left = some l) (hr : pn.right = some r)
    (hli : lo ≤ l ∧ l < i) (hri : i + 1 ≤ r ∧ r < hi) (hlt : l < tree.size) (hrt : r < tree.size)
    (iha : SimT pf tree bodies lo i l a) (ihb : SimT pf tree bodies (i + 1) hi r b) :
    SimT pf tree bodies lo hi i (.seq a b) := by
  have hh : ∀ crj (ctx : Ctx F), handleParseNode pf ctx crj i pn = handleSubexpression ctx i pn := by
    intro crj ctx; rcases hd with hd | hd <;> simp only [handleParseNode, hd]
  intro crj root cur data nodes RS S s lp cp pbn pre hdat hcur
  have hlti : i < nodes.size := lt_of_get pre.node
  have hllt : l < nodes.size := by rw [pre.size]; exact hlt
  have hrlt : r < nodes.size := by rw [pre.size]; exact hrt
  have hne : ∀ par d, lp = some (par, d) → par ≠ i ∧ par ≠ l ∧ par ≠ r := fun par d h => by
    have := (pre.par par d h).1; exact ⟨by omega, by omega, by omega⟩
  -- first visit
  obtain ⟨e1, e2, e3, e4, e5⟩ := three_puts (visited (mkNode i cur lp cp)) (BuildNode.new l cur) (BuildNode.new r cur)
    hlti hllt hrlt (by omega) (by omega) (by omega : l ≠ r)
  generalize hH : putNode (putNode (putNode nodes i (visited (mkNode i cur lp cp))) r (BuildNode.new r cur)) l
    (BuildNode.new l cur) = nodesH at e1 e2 e3 e4 e5
  have hhF : handleParseNode pf ⟨data, nodes, RS, S⟩ crj i pn = .ok ⟨data, nodesH, RS, ((S.push r).push i).push l⟩ := by
    rw [hh]
    simp only [handleSubexpression, getNode, pre.node, Outcome.bind, hl, hr]
    rw [show (mkNode i cur lp cp).state = .uninitialized from rfl]
    simp only []
    rw [setNodeIdx_ok (by simpa using hrlt)]
    simp only []
    rw [setNodeIdx_ok (by simpa using hllt), ← hH]
    rfl
  have st1 := first_visit (pf := pf) (crj := crj) (data := data) (RS := RS) (S := S) pre ⟨by omega, by omega⟩ hpn hhF e2
    (fun par d h => e5 par (hne par d h).1 (hne par d h).2.1 (hne par d h).2.2)
  generalize hA : counted nodesH i (visited (mkNode i cur lp cp)) lp pbn = A at st1
  have hAi : A[i]? = some (some (node1 i cur lp cp)) := by rw [← hA]; exact counted_node e2 (fun p d h => (hne p d h).1)
  have hAo : ∀ y, y ≠ i → (∀ par d, lp = some (par, d) → y ≠ par) → A[y]? = nodesH[y]? := fun y h1 h2 => by
    rw [← hA]; exact counted_other h1 h2
  have hAsz : A.size = nodes.size := by rw [← hA, counted_size, e1]
  -- left operand
  have preL : Pre tree A lo i l cur none Ex.none pbn :=
    Pre.child none pbn (by rw [hAsz, pre.size])
      (by rw [hAo l (by omega) (fun p d h => Ne.symm (hne p d h).2.1), e3]; rfl) (fun ⟨_, h⟩ => by cases h)
  obtain ⟨k1, data1, B, RS1, R1, stB, hk1, hd1, hrs1, hp1, done1, _⟩ :=
    iha crj root cur data A RS ((S.push r).push i) s none Ex.none pbn preL hdat hcur
  have hj1 : cur < ((emit root cur a s).push .updateValue none).jumps.size := by
    have := (emit_pre root cur a s hcur).1.jsize
    simp; omega
  -- second visit of the node
  have hBi : B[i]? = some (some (node1 i cur lp cp)) := by
    rw [done1.frame i (by simp only [Ival]; omega) (fun _ _ h => by cases h)]; exact hAi
  have hhZ : handleParseNode pf ⟨data1, B, RS1, S.push r⟩ crj i pn =
      .ok ⟨pushInstr data1 .updateValue none (some i), B, RS1, S.push r⟩ := by
    rw [hh]; simp only [handleSubexpression, getNode, hBi, Outcome.bind]; rfl
  have st2 := second_visit (lp := lp) (crj := crj) hpn hhZ hBi rfl rfl
  -- right operand
  have preR : Pre tree B (i + 1) hi r cur none Ex.none pbn :=
    Pre.child none pbn (by rw [done1.size, hAsz, pre.size])
      (by
        rw [done1.frame r (by simp only [Ival]; omega) (fun _ _ h => by cases h),
          hAo r (by omega) (fun p d h => Ne.symm (hne p d h).2.2), e4]; rfl)
      (fun ⟨_, h⟩ => by cases h)
  obtain ⟨k2, data2, C, RS2, R2, stC, hk2, hd2, hrs2, hp2, done2, _⟩ :=
    ihb crj root cur _ B RS1 S _ none Ex.none pbn preR (hd1.push .updateValue none (some i)) hj1
  have done12 := done1.trans (n3 := 0) done2 (fun y h1 h2 => by simp only [Ival] at h1 h2; omega)
  refine ⟨1 + k1 + 1 + k2, data2, C, RS2, R2 ++ R1, ((st1.trans stB).trans st2).trans stC, (by simp only [wsum_nil, wsum_append, wsum_cons] at *; omega), ?_, ?_, ?_, ?_,
    ⟨_, by rw [done2.frame i (by simp only [Ival]; omega) (fun _ _ h => by cases h)]; exact hBi, rfl⟩⟩
  · simp only [emit]; exact hd2
  · rw [hrs2, hrs1]; simp
  · simp only [emit]; rw [hp2]; simp only [LState.push]; rw [hp1]; simp
  · refine (Done.wrap (i := i) (lp := lp) (pbn := pbn) (N := nodes) done12 hAsz (fun y h1 h2 h3 => ?_) ⟨_, hAi⟩
      (fun h => by simp only [Ival] at h; omega) (fun par d h => ⟨?_, ?_⟩)).cong (ival_split lo hi i ⟨by omega, by omega⟩)
    · have a1 : y ≠ l := fun e => h2 (.inl (by subst e; exact hli))
      have a2 : y ≠ r := fun e => h2 (.inr (by subst e; exact hri))
      rw [hAo y h1 h3, e5 y h1 a1 a2]
    · have := (pre.par par d h).1; simp only [Ival]; omega
    · subst h
      rw [← hA]
      refine counted_parent ?_
      rw [e5 par (hne par d rfl).1 (hne par d rfl).2.1 (hne par d rfl).2.2]
      exact (pre.par par d rfl).2.1

end Garnish.Abs.Tree
