/-
Helper lemmas for property C13 (Garnish/Props/C13.lean), about the lexer model Garnish.Model.Lexer — part 5: operator tokens and the character after them, `Inv2`, `lex_final2`, longest match.
(The C13 lemmas are split over LexerC13Core, LexerC13Loop, LexerC13Blank, LexerC13Tree and LexerC13, each importing
the previous one; importing Garnish.Lemmas.LexerC13 gives all of them.)
-/
import Garnish.Lemmas.LexerC13Tree
set_option linter.unusedSimpArgs false
set_option linter.unusedVariables false
namespace Garnish.Model.Lexer

/-! ### operator tokens and the character after them -/

/-- every operator token among `ts` (starting at offset `o` of `consumed`) is followed in `consumed` by a character
that continues no path of the operator tree -/
def OpWitFrom (consumed : List Char) : Nat → List LexerToken → Prop
  | _, [] => True
  | o, t :: ts =>
    (isOpType t.tokenType = true →
      ∃ d, consumed[o + t.text.length]? = some d ∧ walkOperator theTree (t.text ++ [d]) = none) ∧
    OpWitFrom consumed (o + t.text.length) ts

/-- same, but an operator token may also end exactly at the end of the input -/
def OpEndFrom (s : List Char) : Nat → List LexerToken → Prop
  | _, [] => True
  | o, t :: ts =>
    (isOpType t.tokenType = true →
      (∃ d, s[o + t.text.length]? = some d ∧ walkOperator theTree (t.text ++ [d]) = none) ∨
      o + t.text.length = s.length) ∧
    OpEndFrom s (o + t.text.length) ts

theorem OpWitFrom_mono (consumed x : List Char) : ∀ (o : Nat) (ts : List LexerToken),
    OpWitFrom consumed o ts → OpWitFrom (consumed ++ x) o ts
  | _, [], _ => trivial
  | o, t :: ts, h => by
    refine ⟨fun hop => ?_, OpWitFrom_mono consumed x _ ts h.2⟩
    obtain ⟨d, hd, hw⟩ := h.1 hop
    refine ⟨d, ?_, hw⟩
    have hlt : o + t.text.length < consumed.length := by
      rcases Nat.lt_or_ge (o + t.text.length) consumed.length with hlt | hge
      · exact hlt
      · rw [List.getElem?_eq_none hge] at hd
        cases hd
    rw [List.getElem?_append_left hlt]; exact hd

theorem OpWitFrom_snoc (consumed : List Char) : ∀ (o : Nat) (ts : List LexerToken) (t : LexerToken),
    OpWitFrom consumed o ts →
    (isOpType t.tokenType = true →
      ∃ d, consumed[o + (textsOf ts).length + t.text.length]? = some d ∧
        walkOperator theTree (t.text ++ [d]) = none) →
    OpWitFrom consumed o (ts ++ [t])
  | o, [], t, _, h => by simpa [OpWitFrom] using h
  | o, t0 :: ts, t, h0, h => by
    refine ⟨h0.1, OpWitFrom_snoc consumed _ ts t h0.2 ?_⟩
    intro hop
    obtain ⟨d, hd, hw⟩ := h hop
    refine ⟨d, ?_, hw⟩
    have : o + (textsOf (t0 :: ts)).length = o + t0.text.length + (textsOf ts).length := by
      simp [textsOf]; omega
    rw [← this]; exact hd

theorem OpEnd_of_wit (s : List Char) : ∀ (o : Nat) (ts : List LexerToken), OpWitFrom s o ts → OpEndFrom s o ts
  | _, [], _ => trivial
  | o, t :: ts, h => ⟨fun hop => Or.inl (h.1 hop), OpEnd_of_wit s _ ts h.2⟩

theorem OpEndFrom_snoc_end (s : List Char) : ∀ (o : Nat) (ts : List LexerToken) (t : LexerToken),
    OpEndFrom s o ts → o + (textsOf ts).length + t.text.length = s.length → OpEndFrom s o (ts ++ [t])
  | o, [], t, _, h => by
    refine ⟨fun _ => Or.inr ?_, trivial⟩
    simpa using h
  | o, t0 :: ts, t, h0, h => by
    refine ⟨h0.1, OpEndFrom_snoc_end s _ ts t h0.2 ?_⟩
    have : o + (textsOf (t0 :: ts)).length = o + t0.text.length + (textsOf ts).length := by
      simp [textsOf]; omega
    rw [← this]; exact h

/-- the second invariant -/
structure Inv2 (cc : CharClass) (σ : Lexer) (consumed : List Char) (toks : List LexerToken) : Prop where
  tree : σ.operatorTree = theTree
  typed : Typed cc σ
  toksOk : ∀ t ∈ toks, TokOk cc t.text t.tokenType
  opWit : OpWitFrom consumed 0 toks

theorem Typed_congr {cc : CharClass} {σ σ' : Lexer} (h1 : σ'.state = σ.state)
    (h2 : σ'.currentTokenType = σ.currentTokenType) (h3 : σ'.currentCharacters = σ.currentCharacters)
    (h : Typed cc σ) : Typed cc σ' := by
  obtain ⟨a, b, c, d⟩ := h
  constructor
  · rw [h1, h2, h3]; exact a
  · rw [h1, h2]; exact b
  · rw [h1, h2]; exact c
  · rw [h1, h3]; exact d

@[simp] theorem bumpColumn_type (σ : Lexer) (c : Char) : (bumpColumn σ c).currentTokenType = σ.currentTokenType := by
  unfold bumpColumn; split <;> rfl
@[simp] theorem bumpColumn_tree (σ : Lexer) (c : Char) : (bumpColumn σ c).operatorTree = σ.operatorTree := by
  unfold bumpColumn; split <;> rfl

theorem Typed_bump {cc : CharClass} {σ : Lexer} (c : Char) (h : Typed cc σ) : Typed cc (bumpColumn σ c) :=
  Typed_congr (by simp) (by simp) (by simp) h

/-- the lexer right after a token has been pushed (the `set default for new` block) -/
def afterEmit (σ1 : Lexer) : Lexer :=
  { σ1 with canFloat := !blocksFloat σ1.currentTokenType, result := .ok, state := .noToken,
            currentCharacters := [], currentTokenType := none, startQuoteCount := 0, endQuoteCount := 0,
            couldBeSubExpression := false }

/-- what `finishChar` does when the arm ended the token -/
theorem finishChar_true (cc : CharClass) (σ1 : Lexer) (c : Char) (hnt : σ1.state ≠ .noToken) :
    (finishChar cc σ1 c none true).1.result = .err ∨
    ∃ ty, σ1.currentTokenType = some ty ∧
      finishChar cc σ1 c none true =
        (bumpColumn (if σ1.shouldCreate then startToken cc (afterEmit σ1) c
                     else { afterEmit σ1 with shouldCreate := true }) c,
         some ⟨σ1.currentCharacters, ty, σ1.tokenStartRow, σ1.tokenStartColumn⟩) := by
  simp only [finishChar, ↓reduceIte, pushNewToken]
  have hne : (σ1.state != LexingState.noToken) = true := by simpa using hnt
  simp only [hne, ↓reduceIte]
  cases hcv : canCreateValidToken { σ1 with canFloat := !blocksFloat σ1.currentTokenType } with
  | err =>
    left
    simp only [LexResult.isOk, Bool.false_eq_true, ↓reduceIte]
    split
    · simp only [bumpColumn_result]; exact startToken_result_err cc _ c rfl
    · simp
  | ok =>
    simp only [LexResult.isOk, ↓reduceIte]
    cases hty : σ1.currentTokenType with
    | none => left; rfl
    | some ty =>
      right
      refine ⟨ty, rfl, ?_⟩
      simp only [afterEmit, hty]

theorem Inv2_lexed {cc : CharClass} {σ : Lexer} {consumed : List Char} {toks : List LexerToken} (n : Nat)
    (h : Inv2 cc σ consumed toks) : Inv2 cc { σ with charactersLexed := n } consumed toks :=
  ⟨h.tree, Typed_congr (σ := σ) rfl rfl rfl h.typed, h.toksOk, h.opWit⟩

theorem Inv2_atEnd {cc : CharClass} {σ : Lexer} {consumed : List Char} {toks : List LexerToken} (b : Bool)
    (h : Inv2 cc σ consumed toks) : Inv2 cc { σ with atEnd := b } consumed toks :=
  ⟨h.tree, Typed_congr (σ := σ) rfl rfl rfl h.typed, h.toksOk, h.opWit⟩

theorem toksOk_snoc {cc : CharClass} {toks : List LexerToken} {t : LexerToken}
    (h : ∀ t ∈ toks, TokOk cc t.text t.tokenType) (ht : TokOk cc t.text t.tokenType) :
    ∀ x ∈ toks ++ [t], TokOk cc x.text x.tokenType := by
  intro x hx
  simp only [List.mem_append, List.mem_singleton] at hx
  rcases hx with hx | rfl
  · exact h x hx
  · exact ht

/-- the part of `process_char` after the arm keeps the second invariant (regular character) -/
theorem finishChar_typed (cc : CharClass) (σ : Lexer) (c : Char) (consumed : List Char) (toks : List LexerToken)
    (hcore : Core σ consumed toks) (hinv2 : Inv2 cc σ consumed toks) (hst : σ.state ≠ .noToken)
    (σ1 : Lexer) (sn : Bool) (heff : ArmEff σ c (σ1, sn)) (hty : ArmTyped cc c (σ1, sn)) :
    (finishChar cc σ1 c none sn).1.result = .err ∨
    Inv2 cc (finishChar cc σ1 c none sn).1 (consumed ++ [c]) (toks ++ (finishChar cc σ1 c none sn).2.toList) := by
  obtain ⟨hfr, hk⟩ := heff
  simp only [] at hfr hk
  have htree1 : σ1.operatorTree = theTree := by rw [hfr.operatorTree]; exact hinv2.tree
  rcases hk with ⟨rfl, hcr, hch, hnt, hsh⟩ | ⟨rfl, hcr, hch, hnt⟩ | ⟨rfl, hcr, hch, hnt⟩
  · right
    simp only [finishChar, Bool.false_eq_true, ↓reduceIte, Option.toList_none, List.append_nil]
    exact ⟨by simpa using htree1, Typed_bump c (hty.1 rfl), hinv2.toksOk, OpWitFrom_mono _ _ _ _ hinv2.opWit⟩
  · rcases finishChar_true cc σ1 c hnt with herr | ⟨ty, htyeq, heq⟩
    · exact Or.inl herr
    · rw [heq]
      simp only [hcr, ↓reduceIte, Option.toList_some]
      have hemit := (hty.2 rfl) ty htyeq
      rcases startToken_typed cc (afterEmit σ1) c (by simpa [afterEmit] using htree1) rfl with herr | htyped
      · exact Or.inl (by simpa using herr)
      · right
        refine ⟨?_, Typed_bump c htyped, toksOk_snoc hinv2.toksOk hemit.1, ?_⟩
        · rw [bumpColumn_tree, (startToken_startFrame cc (afterEmit σ1) c).operatorTree]
          simpa [afterEmit] using htree1
        · apply OpWitFrom_snoc _ _ _ _ (OpWitFrom_mono _ _ _ _ hinv2.opWit)
          intro hop
          refine ⟨c, ?_, (hemit.2 hop).1⟩
          have hlen : 0 + (textsOf toks).length + σ1.currentCharacters.length = consumed.length := by
            rw [hch, ← hcore.lossless]; simp
          simp only [] at hlen ⊢
          rw [hlen]
          simp
  · rcases finishChar_true cc σ1 c hnt with herr | ⟨ty, htyeq, heq⟩
    · exact Or.inl herr
    · rw [heq]
      simp only [hcr, Bool.false_eq_true, ↓reduceIte, Option.toList_some]
      have hemit := (hty.2 rfl) ty htyeq
      right
      refine ⟨by simpa [afterEmit] using htree1, Typed_bump c (Typed.noToken rfl rfl),
        toksOk_snoc hinv2.toksOk hemit.1, ?_⟩
      apply OpWitFrom_snoc _ _ _ _ (OpWitFrom_mono _ _ _ _ hinv2.opWit)
      intro hop
      have := (hemit.2 hop).2
      rw [hcr] at this; cases this

/-- `process_char` on a regular character keeps the second invariant or records an error -/
theorem processChar_typed (cc : CharClass) (hcc : cc.Sane2) (σ : Lexer) (c : Char) (consumed : List Char)
    (toks : List LexerToken) (hcore : Core σ consumed toks) (hinv2 : Inv2 cc σ consumed toks) (hinv : Inv σ)
    (hns : ¬Sentinel σ c) (σ' : Lexer) (ot : Option LexerToken) (h : processChar cc σ c = .ok (σ', ot)) :
    σ'.result = .err ∨ Inv2 cc σ' (consumed ++ [c]) (toks ++ ot.toList) := by
  unfold processChar at h
  simp only [] at h
  have hcore0 := Core_lexed (σ.charactersLexed + 1) hcore
  have hinv20 := Inv2_lexed (σ.charactersLexed + 1) hinv2
  generalize hσ0 : { σ with charactersLexed := σ.charactersLexed + 1 } = σ0 at h hcore0 hinv20
  have hns0 : ¬Sentinel σ0 c := by subst hσ0; exact hns
  have hinv0 : Inv σ0 := by subst hσ0; exact hinv
  clear hσ0 hcore hns hinv hinv2
  have key : ∀ p : Lexer × Bool, σ0.state ≠ .noToken → ArmEff σ0 c p → ArmTyped cc c p →
      stateStep cc σ0 c = Step.ofPair p → σ'.result = .err ∨ Inv2 cc σ' (consumed ++ [c]) (toks ++ ot.toList) := by
    intro p hst heff hty hss
    rw [hss] at h
    simp only [Step.ofPair, Outcome.ok.injEq] at h
    have := finishChar_typed cc σ0 c consumed toks hcore0 hinv20 hst p.1 p.2 heff hty
    rw [h] at this
    exact this
  have ht := hinv20.typed
  have htr := hinv20.tree
  unfold stateStep at h key
  cases hs : σ0.state <;> rw [hs] at h key <;> simp only [] at h key
  case noToken =>
    simp only [Step.ofPair, armNoToken, finishChar, Bool.false_eq_true, ↓reduceIte, Outcome.ok.injEq,
      Prod.mk.injEq] at h
    obtain ⟨rfl, rfl⟩ := h
    simp only [Option.toList_none, List.append_nil]
    rcases startToken_typed cc σ0 c htr hs with herr | htyped
    · exact Or.inl (by simpa using herr)
    · right
      refine ⟨?_, Typed_bump c htyped, hinv20.toksOk, OpWitFrom_mono _ _ _ _ hinv20.opWit⟩
      rw [bumpColumn_tree, (startToken_startFrame cc σ0 c).operatorTree]; exact htr
  case float =>
    have hpos : 1 ≤ σ0.textColumn := hinv0 hs
    have hnt : σ0.state ≠ .noToken := by rw [hs]; decide
    obtain ⟨st, hst, hout⟩ := armFloat_eff cc hcc σ0 c hs hcore0.create hcore0.shape hpos hcore0.ok
    have htyped := armFloat_typed cc σ0 c hs ht htr st hst
    rw [hst] at h
    rcases hout with ⟨σ1, sn, rfl, heff⟩ | herr | ⟨rfl, a, σ1, rfl, hsp⟩
    · simp only [Outcome.ok.injEq] at h
      have := finishChar_typed cc σ0 c consumed toks hcore0 hinv20 hnt σ1 sn heff htyped.1
      rw [h] at this
      exact this
    · left
      rcases herr with ⟨s1, nt, rfl, herr⟩ | ⟨s1, rfl, herr⟩
      · simp only [finishChar, Bool.false_eq_true, ↓reduceIte, Outcome.ok.injEq, Prod.mk.injEq] at h
        obtain ⟨rfl, _⟩ := h
        simpa using herr
      · simp only [Outcome.ok.injEq, Prod.mk.injEq] at h
        obtain ⟨rfl, _⟩ := h
        exact herr
    · simp only [finishChar, Bool.false_eq_true, ↓reduceIte, Outcome.ok.injEq, Prod.mk.injEq] at h
      obtain ⟨rfl, rfl⟩ := h
      right
      obtain ⟨harm, htok⟩ := htyped
      obtain ⟨_, hnop, htokok⟩ := htok _ rfl
      simp only [Option.toList_some]
      refine ⟨by simpa [hsp.operatorTree] using htr, Typed_bump '.' (harm.1 rfl),
        toksOk_snoc hinv20.toksOk htokok, ?_⟩
      apply OpWitFrom_snoc _ _ _ _ (OpWitFrom_mono _ _ _ _ hinv20.opWit)
      intro hop
      simp only [] at hop hnop
      rw [hnop] at hop; cases hop
  all_goals (have hnt : σ0.state ≠ .noToken := by rw [hs]; decide)
  · exact key _ (by decide) (armOperator_eff cc hcc σ0 c hs hcore0.create (hcore0.tok hnt))
      (armOperator_typed cc σ0 c hs ht htr hcore0.create) rfl
  · exact key _ (by decide) (armSpaces_eff σ0 c hs hcore0.create) (armSpaces_typed cc σ0 c hs ht) rfl
  · exact key _ (by decide) (armSubexpression_eff σ0 c hs hcore0.create) (armSubexpression_typed cc σ0 c hs ht) rfl
  · exact key _ (by decide) (armNumber_eff cc hcc σ0 c hs hcore0.create (hcore0.tok hnt) hcore0.shape)
      (armNumber_typed cc σ0 c hs ht) rfl
  · exact key _ (by decide) (armIdentifier_eff cc σ0 c hs hcore0.create) (armIdentifier_typed cc σ0 c hs ht) rfl
  · exact key _ (by decide) (armAnnotation_eff cc σ0 c hs hcore0.create) (armAnnotation_typed cc σ0 c hs ht) rfl
  · exact key _ (by decide) (armLineAnnotation_eff σ0 c hs hcore0.create hns0)
      (armLineAnnotation_typed cc σ0 c hs ht) rfl
  · exact key _ (by decide) (armCharList_eff σ0 c hs hcore0.create) (armCharList_typed cc σ0 c hs ht) rfl
  · exact key _ (by decide) (armStartCharList_eff σ0 c hs hcore0.create hns0)
      (armStartCharList_typed cc σ0 c hs ht) rfl
  · exact key _ (by decide) (armByteList_eff σ0 c hs hcore0.create) (armByteList_typed cc σ0 c hs ht) rfl
  · exact key _ (by decide) (armStartByteList_eff σ0 c hs hcore0.create hns0)
      (armStartByteList_typed cc σ0 c hs ht) rfl

theorem finishChar_tok (cc : CharClass) (σ1 : Lexer) (c : Char) (sn : Bool) (hnt : σ1.state ≠ .noToken)
    (hty : ArmTyped cc c (σ1, sn)) (t : LexerToken) (ht : (finishChar cc σ1 c none sn).2 = some t) :
    (finishChar cc σ1 c none sn).1.result = .err ∨ TokOk cc t.text t.tokenType := by
  cases sn with
  | false => simp [finishChar] at ht
  | true =>
    rcases finishChar_true cc σ1 c hnt with herr | ⟨ty, htyeq, heq⟩
    · exact Or.inl herr
    · rw [heq] at ht
      simp only [Option.some.injEq] at ht
      subst ht
      exact Or.inr ((hty.2 rfl) ty htyeq).1

/-- the token emitted while the end-of-input sentinel is pushed through is fine -/
theorem processChar_end_tok (cc : CharClass) (hcc : cc.Sane) (σ : Lexer) (consumed : List Char)
    (toks : List LexerToken) (hcore : Core σ consumed toks) (hinv2 : Inv2 cc σ consumed toks)
    (hat : σ.atEnd = true) (σ' : Lexer) (t : LexerToken) (h : processChar cc σ '\x00' = .ok (σ', some t)) :
    σ'.result = .err ∨ TokOk cc t.text t.tokenType := by
  unfold processChar at h
  simp only [] at h
  have hcore0 := Core_lexed (σ.charactersLexed + 1) hcore
  have hinv20 := Inv2_lexed (σ.charactersLexed + 1) hinv2
  generalize hσ0 : { σ with charactersLexed := σ.charactersLexed + 1 } = σ0 at h hcore0 hinv20
  have hat0 : σ0.atEnd = true := by subst hσ0; exact hat
  clear hσ0 hcore hinv2 hat
  have key : ∀ p : Lexer × Bool, p.1.state ≠ .noToken → ArmTyped cc '\x00' p →
      stateStep cc σ0 '\x00' = Step.ofPair p → σ'.result = .err ∨ TokOk cc t.text t.tokenType := by
    intro p hst hty hss
    rw [hss] at h
    simp only [Step.ofPair, Outcome.ok.injEq] at h
    have := finishChar_tok cc p.1 '\x00' p.2 hst hty t (by rw [h])
    rw [h] at this
    exact this
  have ht := hinv20.typed
  have htr := hinv20.tree
  unfold stateStep at h key
  cases hs : σ0.state <;> rw [hs] at h key <;> simp only [] at h key
  case noToken =>
    simp only [Step.ofPair, armNoToken, finishChar, Bool.false_eq_true, ↓reduceIte, Outcome.ok.injEq,
      Prod.mk.injEq] at h
    obtain ⟨_, h2⟩ := h
    cases h2
  case float =>
    obtain ⟨σ1, sn, hst, heff⟩ := armFloat_end cc hcc σ0 hs hcore0.create
    have htyped := armFloat_typed cc σ0 '\x00' hs ht htr _ hst
    rw [hst] at h
    simp only [Outcome.ok.injEq] at h
    have := finishChar_tok cc σ1 '\x00' sn heff.2.1 htyped.1 t (by rw [h])
    rw [h] at this
    exact this
  all_goals (have hnt : σ0.state ≠ .noToken := by rw [hs]; decide)
  · exact key _ (armOperator_end cc hcc σ0 hs hcore0.create (hcore0.tok hnt)).2.1
      (armOperator_typed cc σ0 _ hs ht htr hcore0.create) rfl
  · exact key _ (armSpaces_end σ0 hs hcore0.create (hcore0.tok hnt)).2.1 (armSpaces_typed cc σ0 _ hs ht) rfl
  · exact key _ (armSubexpression_end σ0 hs hcore0.create (hcore0.tok hnt)).2.1
      (armSubexpression_typed cc σ0 _ hs ht) rfl
  · exact key _ (armNumber_end cc hcc σ0 hs hcore0.create (hcore0.tok hnt)).2.1 (armNumber_typed cc σ0 _ hs ht) rfl
  · exact key _ (armIdentifier_end cc hcc σ0 hs hcore0.create (hcore0.tok hnt)).2.1
      (armIdentifier_typed cc σ0 _ hs ht) rfl
  · exact key _ (armAnnotation_end cc hcc σ0 hs hcore0.create (hcore0.tok hnt)).2.1
      (armAnnotation_typed cc σ0 _ hs ht) rfl
  · exact key _ (armLineAnnotation_end σ0 hs hcore0.create (hcore0.tok hnt) hat0).2.1
      (armLineAnnotation_typed cc σ0 _ hs ht) rfl
  · exact key _ (armCharList_end σ0 hs hcore0.create (hcore0.tok hnt)).2.1 (armCharList_typed cc σ0 _ hs ht) rfl
  · exact key _ (armStartCharList_end σ0 hs hcore0.create (hcore0.tok hnt) hat0).2.1
      (armStartCharList_typed cc σ0 _ hs ht) rfl
  · exact key _ (armByteList_end σ0 hs hcore0.create (hcore0.tok hnt)).2.1 (armByteList_typed cc σ0 _ hs ht) rfl
  · exact key _ (armStartByteList_end σ0 hs hcore0.create (hcore0.tok hnt) hat0).2.1
      (armStartByteList_typed cc σ0 _ hs ht) rfl

theorem operatorTree_TreeOk : TreeOk theTree :=
  walk_none_of_isNone (by decide)

/-- result of a successful `lex`, second part: every token is fine and every operator token is followed by a
character that continues no path of the operator tree, or ends at the end of the input -/
structure Final2 (cc : CharClass) (toks : List LexerToken) (s : List Char) : Prop where
  toksOk : ∀ t ∈ toks, TokOk cc t.text t.tokenType
  opEnd : OpEndFrom s 0 toks

theorem lexEnd_final2 (cc : CharClass) (hcc : cc.Sane) (fuel : Nat) (σ σ' : Lexer) (consumed : List Char)
    (toks toks' : List LexerToken) (hcore : Core σ consumed toks) (hinv2 : Inv2 cc σ consumed toks)
    (h : lexEnd cc (fuel + 2) σ toks = .ok (toks', σ')) : Final2 cc toks' consumed := by
  have hfin := lexEnd_final cc hcc fuel σ σ' consumed toks toks' hcore (by rw [hinv2.tree]; exact operatorTree_TreeOk) h
  rw [show fuel + 2 = (fuel + 1) + 1 from rfl, lexEnd] at h
  simp only [isErr_of_ok hcore.ok, Bool.false_eq_true, ↓reduceIte] at h
  cases hp : processChar cc { σ with atEnd := true } '\x00' with
  | ok r =>
    obtain ⟨σ1, ot⟩ := r
    rw [hp] at h
    cases ot with
    | none =>
      simp only [] at h
      obtain ⟨htoks, _⟩ := lexFinish_ok h
      subst htoks
      exact ⟨hinv2.toksOk, OpEnd_of_wit _ _ _ hinv2.opWit⟩
    | some t =>
      simp only [] at h
      cases hr1 : σ1.result with
      | err => rw [hr1] at h; cases h
      | ok =>
        rw [hr1] at h
        simp only [] at h
        have htok := processChar_end_tok cc hcc _ consumed toks (Core_atEnd true hcore) (Inv2_atEnd true hinv2) rfl σ1 t hp
        rcases htok with herr | htok
        · rw [hr1] at herr; cases herr
        · have hend := processChar_end cc hcc _ consumed toks (Core_atEnd true hcore) rfl
            (by rw [show ({ σ with atEnd := true } : Lexer).operatorTree = σ.operatorTree from rfl, hinv2.tree]
                exact operatorTree_TreeOk) σ1 (some t) hp
          rcases hend with herr | ⟨hnone, _⟩ | ⟨t', ht', hs1, hfin1⟩
          · rw [hr1] at herr; cases herr
          · cases hnone
          · cases ht'
            have := lexEnd_second cc fuel σ1 σ' (toks ++ [t]) toks' hs1 h
            subst this
            refine ⟨toksOk_snoc hinv2.toksOk htok, ?_⟩
            apply OpEndFrom_snoc_end _ _ _ _ (OpEnd_of_wit _ _ _ hinv2.opWit)
            have := hfin1.lossless
            rw [textsOf_snoc] at this
            rw [← this]; simp
  | err e => rw [hp] at h; cases h
  | panic m => rw [hp] at h; cases h
  | fuelOut => rw [hp] at h; cases h

theorem lexLoop_final2 (cc : CharClass) (hcc : cc.Sane2) :
    ∀ (input : List Char) (σ σ' : Lexer) (consumed : List Char) (toks toks' : List LexerToken),
      Core σ consumed toks → Inv2 cc σ consumed toks → Inv σ → σ.atEnd = false →
      lexLoop cc input σ toks = .ok (toks', σ') → Final2 cc toks' (consumed ++ input)
  | [], σ, σ', consumed, toks, toks', hcore, hinv2, _, _, h => by
    simp only [lexLoop, endFuel] at h
    rw [List.append_nil]
    exact lexEnd_final2 cc hcc.toSane 2 σ σ' consumed toks toks' hcore hinv2 h
  | c :: rest, σ, σ', consumed, toks, toks', hcore, hinv2, hinv, hat, h => by
    simp only [lexLoop, isErr_of_ok hcore.ok, Bool.false_eq_true, ↓reduceIte] at h
    obtain ⟨σ1, ot, hp, hinv1⟩ := processChar_ok cc hcc.toSane σ c hinv
    have hf := processChar_frame cc _ _ _ _ hp
    have hns : ¬Sentinel σ c := fun hs => by have := hs.2; rw [hat] at this; cases this
    have hstep := processChar_core cc hcc σ c consumed toks hcore hinv hns σ1 ot hp
    have hstep2 := processChar_typed cc hcc σ c consumed toks hcore hinv2 hinv hns σ1 ot hp
    rw [hp] at h
    have hcons : consumed ++ c :: rest = (consumed ++ [c]) ++ rest := by simp
    rw [hcons]
    have hres : σ1.result = .ok := by
      cases hr : σ1.result with
      | ok => rfl
      | err =>
        exfalso
        cases ot with
        | none => simp only [] at h; rw [lexLoop_err cc rest σ1 toks hr] at h; cases h
        | some t => simp only [] at h; rw [hr] at h; cases h
    have hcore1 : Core σ1 (consumed ++ [c]) (toks ++ ot.toList) := by
      rcases hstep with herr | hc
      · rw [hres] at herr; cases herr
      · exact hc
    have hinv21 : Inv2 cc σ1 (consumed ++ [c]) (toks ++ ot.toList) := by
      rcases hstep2 with herr | hc
      · rw [hres] at herr; cases herr
      · exact hc
    cases ot with
    | none =>
      simp only [] at h
      exact lexLoop_final2 cc hcc rest σ1 σ' _ toks toks' (by simpa using hcore1) (by simpa using hinv21) hinv1
        (by rw [hf.2.1]; exact hat) h
    | some t =>
      simp only [] at h
      rw [hres] at h
      simp only [] at h
      exact lexLoop_final2 cc hcc rest σ1 σ' _ (toks ++ [t]) toks' (by simpa using hcore1) (by simpa using hinv21)
        hinv1 (by rw [hf.2.1]; exact hat) h

theorem Inv2_init (cc : CharClass) : Inv2 cc (Lexer.init theTree) [] [] :=
  ⟨rfl, Typed.noToken rfl rfl, by simp, trivial⟩

theorem lex_final2 (cc : CharClass) (hcc : cc.Sane2) (s : List Char) (toks : List LexerToken)
    (h : lex cc s = .ok toks) : Final2 cc toks s := by
  unfold lex lexFull at h
  rw [new_eq] at h
  simp only [] at h
  cases hl : lexLoop cc s (Lexer.init theTree) [] with
  | ok r =>
    obtain ⟨toks', σ'⟩ := r
    rw [hl] at h
    simp only [Outcome.ok.injEq] at h
    subst h
    have := lexLoop_final2 cc hcc s (Lexer.init theTree) σ' [] [] toks' (Core_init theTree) (Inv2_init cc)
      (fun h => by simp [Lexer.init] at h) rfl hl
    simpa using this
  | err e => rw [hl] at h; cases h
  | panic m => rw [hl] at h; cases h
  | fuelOut => rw [hl] at h; cases h

theorem OpEndFrom_get (s : List Char) : ∀ (o : Nat) (toks : List LexerToken), OpEndFrom s o toks →
    ∀ (i : Nat) (hi : i < toks.length), isOpType toks[i].tokenType = true →
      (∃ d, s[o + (textsOf (toks.take i)).length + toks[i].text.length]? = some d ∧
        walkOperator theTree (toks[i].text ++ [d]) = none) ∨
      o + (textsOf (toks.take i)).length + toks[i].text.length = s.length
  | o, [], _, i, hi, _ => by simp at hi
  | o, t :: ts, h, 0, _, hop => by simpa [textsOf] using h.1 hop
  | o, t :: ts, h, i + 1, hi, hop => by
    have := OpEndFrom_get s (o + t.text.length) ts h.2 i (by simpa using hi) (by simpa using hop)
    have e : (textsOf (t :: List.take i ts)).length = t.text.length + (textsOf (List.take i ts)).length := by
      simp [textsOf]
    simp only [List.take_succ_cons, List.getElem_cons_succ]
    rw [e, ← Nat.add_assoc]
    exact this

/-- longest match: an operator token is a spelling of the table and no longer spelling is a prefix of the rest of
the input from the token's start -/
theorem lex_longest_match (cc : CharClass) (hcc : cc.Sane2) (s : List Char) (toks : List LexerToken)
    (h : lex cc s = .ok toks) (i : Nat) (hi : i < toks.length) (hop : isOpType toks[i].tokenType = true) :
    (toks[i].text, toks[i].tokenType) ∈ Garnish.Gen.LexTables.operatorChars ∧
    ∀ sp ty, (sp, ty) ∈ Garnish.Gen.LexTables.operatorChars → toks[i].text.length < sp.length →
      ¬ sp <+: s.drop (textsOf (toks.take i)).length := by
  have hf := lex_final cc hcc s toks h
  have hf2 := lex_final2 cc hcc s toks h
  obtain ⟨node, hw, hnty⟩ := (hf2.toksOk toks[i] (List.getElem_mem hi)).op hop
  refine ⟨tree_sound _ node _ hw hnty, ?_⟩
  intro sp ty hsp hlen hpre
  -- the input from the token's start is the token's text followed by the rest
  have ht : toks = toks.take i ++ toks[i] :: toks.drop (i + 1) := by
    rw [← List.drop_eq_getElem_cons hi, List.take_append_drop]
  have hs : s = textsOf (toks.take i) ++ (toks[i].text ++ textsOf (toks.drop (i + 1))) :=
    calc s = textsOf toks := hf.lossless.symm
      _ = textsOf (toks.take i ++ toks[i] :: toks.drop (i + 1)) := congrArg textsOf ht
      _ = _ := by simp only [textsOf, List.map_append, List.map_cons, List.flatten_append, List.flatten_cons]
  have hdrop : s.drop (textsOf (toks.take i)).length = toks[i].text ++ textsOf (toks.drop (i + 1)) := by
    conv => lhs; rw [hs]
    simp
  rw [hdrop] at hpre
  obtain ⟨r, hr⟩ := hpre
  -- `sp` is longer than the text, so it extends it by at least one character
  rcases List.append_eq_append_iff.mp hr with ⟨k, hk1, hk2⟩ | ⟨k, hk1, hk2⟩
  · -- text = sp ++ k : impossible, sp is longer
    have : toks[i].text.length = sp.length + k.length := by rw [hk1]; simp
    omega
  · cases k with
    | nil => simp at hk1; rw [hk1] at hlen; omega
    | cons d k' =>
      -- the next character of the input is `d`
      have hnext : s[0 + (textsOf (toks.take i)).length + toks[i].text.length]? = some d := by
        have hs' : s = (textsOf (toks.take i) ++ toks[i].text) ++ (d :: (k' ++ r)) := by
          rw [hs, hk2]; simp
        rw [hs', List.getElem?_append_right (by simp)]
        simp
      rcases OpEndFrom_get s 0 toks hf2.opEnd i hi hop with ⟨d', hd', hnone⟩ | hend
      · rw [hnext] at hd'
        simp only [Option.some.injEq] at hd'
        subst hd'
        obtain ⟨m, hm⟩ := table_prefix_path sp ty (toks[i].text ++ [d]) k' hsp (by rw [hk1]; simp)
        rw [hm] at hnone; cases hnone
      · have hl := congrArg List.length hs
        simp only [List.length_append] at hl
        have hl2 := congrArg List.length hk2
        simp only [List.length_append, List.length_cons] at hl2
        omega

/-- greedy without backtracking, exactly: in the Operator state, when the characters read so far are a path of the
tree without a token type (a proper prefix of spellings only, e.g. `>.` or `?`), and the next character neither
continues a path nor triggers one of the two documented switches (`_`-prefixed identifier, `.digit` float), then
`process_char` records the error "No token" — the lexer does not fall back to a shorter spelling -/
theorem processChar_no_backtracking (cc : CharClass) (σ : Lexer) (c : Char) (hs : σ.state = .operator)
    (hty : σ.currentTokenType = none)
    (hpath : walkOperator σ.operatorTree (σ.currentCharacters ++ [c]) = none)
    (hident : ¬(startsWith (σ.currentCharacters ++ [c]) '_' = true ∧ isIdentifier cc (σ.currentCharacters ++ [c]) = true))
    (hfloat : ¬(startsWith (σ.currentCharacters ++ [c]) '.' = true ∧ utf8Len (σ.currentCharacters ++ [c]) = 2 ∧
                cc.isNumeric c = true ∧ σ.canFloat = true)) :
    ∃ σ1, processChar cc σ c = .ok (σ1, none) ∧ σ1.result = .err := by
  have h1 : (startsWith (push σ.currentCharacters c) '_' && isIdentifier cc (push σ.currentCharacters c)) = false := by
    simpa [push] using hident
  have h2 : (startsWith (push σ.currentCharacters c) '.' && utf8Len (push σ.currentCharacters c) == 2
      && cc.isNumeric c && σ.canFloat) = false := by
    simp only [push, Bool.and_eq_false_iff, beq_eq_false_iff_ne, ne_eq]
    simp only [not_and, Bool.not_eq_true] at hfloat
    by_cases a : startsWith (σ.currentCharacters ++ [c]) '.' = true
    · by_cases b : utf8Len (σ.currentCharacters ++ [c]) = 2
      · by_cases d : cc.isNumeric c = true
        · exact Or.inr (hfloat a b d)
        · exact Or.inl (Or.inr (by simpa using d))
      · exact Or.inl (Or.inl (Or.inr b))
    · exact Or.inl (Or.inl (Or.inl (by simpa using a)))
  simp only [processChar, stateStep, hs, Step.ofPair, armOperator, currentOperator, push, hpath]
  simp only [push] at h1 h2
  simp only [h1, h2, Bool.false_eq_true, ↓reduceIte, finishChar, pushNewToken, canCreateValidToken, hty, pop_append_singleton]
  simp [hs, LexResult.isOk]

end Garnish.Model.Lexer
