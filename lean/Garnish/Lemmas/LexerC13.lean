/-
Helper lemmas for property C13 (Garnish/Props/C13.lean), about the lexer model Garnish.Model.Lexer
(= lexer.rs with the repair patches lexfix-1..5).

The central object is the invariant `Core σ consumed toks` ("after reading `consumed` the lexer `σ` has emitted
`toks`, holds the rest in `current_characters`, knows where the pending token started and where it is, and has no
error recorded"). `processChar_core` shows that `process_char` on a regular character keeps it or records an error,
`processChar_end` treats the end-of-input sentinel, `lexLoop_final`/`lex_final` lift this to `lex`.
-/
import Garnish.Lemmas.Lexer
set_option linter.unusedSimpArgs false
set_option linter.unusedVariables false
namespace Garnish.Model.Lexer

/-- position after reading `p`: (number of `'\n'`, number of characters after the last `'\n'`) -/
def posOf (p : List Char) : Nat × Nat :=
  (p.count '\n', (p.reverse.takeWhile (· != '\n')).length)

theorem posOf_nil : posOf [] = (0, 0) := rfl

theorem posOf_snoc (p : List Char) (c : Char) :
    posOf (p ++ [c]) = if c = '\n' then ((posOf p).1 + 1, 0) else ((posOf p).1, (posOf p).2 + 1) := by
  unfold posOf
  by_cases h : c = '\n'
  · subst h; simp
  · simp [h, List.count_append]

/-- concatenated token texts -/
def textsOf (toks : List LexerToken) : List Char := (toks.map (·.text)).flatten

@[simp] theorem textsOf_nil : textsOf [] = [] := rfl
theorem textsOf_snoc (toks : List LexerToken) (t : LexerToken) : textsOf (toks ++ [t]) = textsOf toks ++ t.text := by
  simp [textsOf]

/-- every token's row/column is the position of its first character, `p` being the text before the tokens -/
def TokPosFrom : List Char → List LexerToken → Prop
  | _, [] => True
  | p, t :: ts => (t.row, t.column) = posOf p ∧ TokPosFrom (p ++ t.text) ts

theorem TokPosFrom_snoc : ∀ (p : List Char) (ts : List LexerToken) (t : LexerToken),
    TokPosFrom p ts → (t.row, t.column) = posOf (p ++ textsOf ts) → TokPosFrom p (ts ++ [t])
  | p, [], t, _, h => by simpa [TokPosFrom] using h
  | p, t0 :: ts, t, h0, h => by
    simp only [List.cons_append, TokPosFrom] at h0 ⊢
    refine ⟨h0.1, TokPosFrom_snoc _ ts t h0.2 ?_⟩
    simpa [textsOf, List.append_assoc] using h

/-- `c` is the end-of-input sentinel -/
def Sentinel (σ : Lexer) (c : Char) : Prop := c = '\x00' ∧ σ.atEnd = true

/-- extra sanity of the Unicode tables: `'.'` is neither numeric nor alphanumeric -/
structure CharClass.Sane2 (cc : CharClass) : Prop extends cc.Sane where
  dotNumeric : cc.isNumeric '.' = false
  dotAlphanumeric : cc.isAlphanumeric '.' = false

/-- everything `start_token` leaves alone -/
structure StartFrame (σ σ2 : Lexer) : Prop where
  textRow : σ2.textRow = σ.textRow
  textColumn : σ2.textColumn = σ.textColumn
  tokenStartRow : σ2.tokenStartRow = σ.textRow
  tokenStartColumn : σ2.tokenStartColumn = σ.textColumn
  shouldCreate : σ2.shouldCreate = σ.shouldCreate
  atEnd : σ2.atEnd = σ.atEnd
  operatorTree : σ2.operatorTree = σ.operatorTree

theorem startToken_startFrame (cc : CharClass) (σ : Lexer) (c : Char) : StartFrame σ (startToken cc σ c) := by
  generalize hr : startToken cc σ c = r
  unfold startToken at hr
  simp only [] at hr
  repeat' split at hr
  all_goals (subst hr; constructor <;> rfl)

/-- what `start_token` does to state / characters / result -/
theorem startToken_effect (cc : CharClass) (σ : Lexer) (c : Char) (hok : σ.result = .ok) :
    (startToken cc σ c).result = .err ∨
    ((startToken cc σ c).result = .ok ∧ (startToken cc σ c).state = .noToken ∧
        (startToken cc σ c).currentCharacters = [] ∧ Sentinel σ c) ∨
    ((startToken cc σ c).result = .ok ∧ (startToken cc σ c).state ≠ .noToken ∧ (startToken cc σ c).state ≠ .float ∧
        (startToken cc σ c).currentCharacters = [c] ∧
        ((startToken cc σ c).state = .number → cc.isNumeric c = true)) := by
  generalize hr : startToken cc σ c = r
  unfold startToken at hr
  simp only [] at hr
  repeat' split at hr
  all_goals (subst hr; simp_all [push, Sentinel])

/-- shape of the characters of a float under construction: `a.b`, no other period; `.b` needs a digit -/
def FloatShape (cs : List Char) : Prop :=
  ∃ a b, cs = a ++ '.' :: b ∧ '.' ∉ a ∧ '.' ∉ b ∧ (a = [] → b ≠ [])

def Shape (σ : Lexer) : Prop :=
  (σ.state = .number → '.' ∉ σ.currentCharacters) ∧ (σ.state = .float → FloatShape σ.currentCharacters)

/-- fields the arms of `process_char` (other than NoToken and the float split) leave alone -/
structure ArmFrame (σ σ1 : Lexer) : Prop where
  textRow : σ1.textRow = σ.textRow
  textColumn : σ1.textColumn = σ.textColumn
  tokenStartRow : σ1.tokenStartRow = σ.tokenStartRow
  tokenStartColumn : σ1.tokenStartColumn = σ.tokenStartColumn
  result : σ1.result = σ.result
  atEnd : σ1.atEnd = σ.atEnd
  operatorTree : σ1.operatorTree = σ.operatorTree

theorem armFrame_iff (σ σ1 : Lexer) : ArmFrame σ σ1 ↔
    (σ1.textRow = σ.textRow ∧ σ1.textColumn = σ.textColumn ∧ σ1.tokenStartRow = σ.tokenStartRow ∧
     σ1.tokenStartColumn = σ.tokenStartColumn ∧ σ1.result = σ.result ∧ σ1.atEnd = σ.atEnd ∧
     σ1.operatorTree = σ.operatorTree) :=
  ⟨fun h => ⟨h.1, h.2, h.3, h.4, h.5, h.6, h.7⟩, fun h => ⟨h.1, h.2.1, h.2.2.1, h.2.2.2.1, h.2.2.2.2.1, h.2.2.2.2.2.1, h.2.2.2.2.2.2⟩⟩

/-- the three ways an arm treats a regular character: continue the token with it, end the token before it,
end the token with it -/
def ArmKind (σ : Lexer) (c : Char) (σ1 : Lexer) (sn : Bool) : Prop :=
  (sn = false ∧ σ1.shouldCreate = true ∧ σ1.currentCharacters = σ.currentCharacters ++ [c] ∧
      σ1.state ≠ .noToken ∧ Shape σ1) ∨
  (sn = true ∧ σ1.shouldCreate = true ∧ σ1.currentCharacters = σ.currentCharacters ∧ σ1.state ≠ .noToken) ∨
  (sn = true ∧ σ1.shouldCreate = false ∧ σ1.currentCharacters = σ.currentCharacters ++ [c] ∧ σ1.state ≠ .noToken)

def ArmEff (σ : Lexer) (c : Char) (p : Lexer × Bool) : Prop := ArmFrame σ p.1 ∧ ArmKind σ c p.1 p.2

/-- `hr : arm … = r`: unfold, split, substitute, simplify -/
macro "arm_tac" f:ident hr:ident : tactic =>
  `(tactic| (unfold $f at $hr:ident; (try simp only [] at $hr:ident); (repeat' split at $hr:ident);
             all_goals (subst $hr:ident; simp_all [ArmEff, ArmKind, Shape, push, Sentinel, armFrame_iff])))

theorem armIdentifier_eff (cc : CharClass) (σ : Lexer) (c : Char) (hs : σ.state = .identifier)
    (hc : σ.shouldCreate = true) : ArmEff σ c (armIdentifier cc σ c) := by
  generalize hr : armIdentifier cc σ c = r
  arm_tac armIdentifier hr

theorem armStartCharList_eff (σ : Lexer) (c : Char) (hs : σ.state = .startCharList)
    (hc : σ.shouldCreate = true) (hns : ¬Sentinel σ c) : ArmEff σ c (armStartCharList σ c) := by
  generalize hr : armStartCharList σ c = r
  arm_tac armStartCharList hr

theorem armCharList_eff (σ : Lexer) (c : Char) (hs : σ.state = .charList)
    (hc : σ.shouldCreate = true) : ArmEff σ c (armCharList σ c) := by
  generalize hr : armCharList σ c = r
  arm_tac armCharList hr

theorem armStartByteList_eff (σ : Lexer) (c : Char) (hs : σ.state = .startByteList)
    (hc : σ.shouldCreate = true) (hns : ¬Sentinel σ c) : ArmEff σ c (armStartByteList σ c) := by
  generalize hr : armStartByteList σ c = r
  arm_tac armStartByteList hr

theorem armByteList_eff (σ : Lexer) (c : Char) (hs : σ.state = .byteList)
    (hc : σ.shouldCreate = true) : ArmEff σ c (armByteList σ c) := by
  generalize hr : armByteList σ c = r
  arm_tac armByteList hr

theorem armSpaces_eff (σ : Lexer) (c : Char) (hs : σ.state = .spaces)
    (hc : σ.shouldCreate = true) : ArmEff σ c (armSpaces σ c) := by
  generalize hr : armSpaces σ c = r
  arm_tac armSpaces hr

theorem armSubexpression_eff (σ : Lexer) (c : Char) (hs : σ.state = .subexpression)
    (hc : σ.shouldCreate = true) : ArmEff σ c (armSubexpression σ c) := by
  generalize hr : armSubexpression σ c = r
  arm_tac armSubexpression hr

theorem armAnnotation_eff (cc : CharClass) (σ : Lexer) (c : Char) (hs : σ.state = .annotation)
    (hc : σ.shouldCreate = true) : ArmEff σ c (armAnnotation cc σ c) := by
  generalize hr : armAnnotation cc σ c = r
  arm_tac armAnnotation hr

theorem armLineAnnotation_eff (σ : Lexer) (c : Char) (hs : σ.state = .lineAnnotation)
    (hc : σ.shouldCreate = true) (hns : ¬Sentinel σ c) : ArmEff σ c (armLineAnnotation σ c) := by
  generalize hr : armLineAnnotation σ c = r
  arm_tac armLineAnnotation hr

@[simp] theorem pop_push (s : List Char) (c : Char) : pop (push s c) = s := by
  simp [pop, push]

theorem utf8Len_append (a b : List Char) : utf8Len (a ++ b) = utf8Len a + utf8Len b := by
  induction a with
  | nil => simp [utf8Len]
  | cons x r ih => simp [utf8Len, ih]; omega

theorem utf8Len_eq_zero {a : List Char} (h : utf8Len a = 0) : a = [] := by
  cases a with
  | nil => rfl
  | cons x r =>
    have := Char.utf8Size_pos x
    simp [utf8Len] at h; omega

theorem sane2_ne_dot {cc : CharClass} (hcc : cc.Sane2) {c : Char}
    (h : (cc.isNumeric c || c == '_' || cc.isAlphanumeric c) = true) : c ≠ '.' := by
  intro hc; subst hc
  simp [hcc.dotNumeric, hcc.dotAlphanumeric] at h

theorem FloatShape_push {cs : List Char} {c : Char} (h : FloatShape cs) (hc : c ≠ '.') : FloatShape (cs ++ [c]) := by
  obtain ⟨a, b, rfl, ha, hb, hab⟩ := h
  refine ⟨a, b ++ [c], by simp, ha, ?_, fun _ => by simp⟩
  simp only [List.mem_append, List.mem_singleton, not_or]
  exact ⟨hb, fun h => hc h.symm⟩

theorem FloatShape_of_number {cs : List Char} (h : '.' ∉ cs) (hne : cs ≠ []) : FloatShape (cs ++ ['.']) :=
  ⟨cs, [], rfl, h, by simp, fun h0 => absurd h0 hne⟩

theorem FloatShape_dot_digit {cs : List Char} {c : Char} (hne : cs ≠ []) (hs : startsWith (cs ++ [c]) '.' = true)
    (hl : utf8Len (cs ++ [c]) = 2) (hc : c ≠ '.') : FloatShape (cs ++ [c]) := by
  cases cs with
  | nil => exact absurd rfl hne
  | cons x r =>
    have hx : x = '.' := by simpa [startsWith] using hs
    subst hx
    have h1 := Char.utf8Size_pos c
    have h2 : ('.' : Char).utf8Size = 1 := by decide
    rw [utf8Len_append] at hl
    simp only [utf8Len, h2] at hl
    have hr : r = [] := utf8Len_eq_zero (by omega)
    subst hr
    exact ⟨[], [c], rfl, by simp, by simpa using fun h => hc h.symm, fun _ => by simp⟩

theorem armOperator_eff (cc : CharClass) (hcc : cc.Sane2) (σ : Lexer) (c : Char) (hs : σ.state = .operator)
    (hc : σ.shouldCreate = true) (hne : σ.currentCharacters ≠ []) : ArmEff σ c (armOperator cc σ c) := by
  generalize hr : armOperator cc σ c = r
  unfold armOperator at hr
  simp only [] at hr
  repeat' split at hr
  all_goals (subst hr; simp_all [ArmEff, ArmKind, Shape, Sentinel, armFrame_iff])
  all_goals (try simp [push])
  rename_i h
  refine FloatShape_dot_digit hne (by simpa [push] using h.1.1.1) (by simpa [push] using h.1.1.2) ?_
  intro hdot; subst hdot
  simp [hcc.dotNumeric] at h

theorem armNumber_eff (cc : CharClass) (hcc : cc.Sane2) (σ : Lexer) (c : Char) (hs : σ.state = .number)
    (hc : σ.shouldCreate = true) (hne : σ.currentCharacters ≠ []) (hsh : Shape σ) :
    ArmEff σ c (armNumber cc σ c) := by
  have hnd := hsh.1 hs
  generalize hr : armNumber cc σ c = r
  unfold armNumber at hr
  repeat' split at hr
  all_goals (subst hr; simp_all [ArmEff, ArmKind, Shape, Sentinel, armFrame_iff, push])
  · rename_i h
    intro hdot; subst hdot
    simp [hcc.dotNumeric, hcc.dotAlphanumeric] at h
  · exact FloatShape_of_number hnd hne

theorem dropWhile_dot_ne {x : Char} {r : List Char} (h : x ≠ '.') :
    (x :: r).dropWhile (fun y => y == '.') = x :: r := by
  have : (x == '.') = false := by simpa using h
  simp [List.dropWhile, this]

theorem dropWhile_dot_eq (r : List Char) :
    ('.' :: r).dropWhile (fun y => y == '.') = r.dropWhile (fun y => y == '.') := by
  simp [List.dropWhile]

theorem trimMatches_number {a : List Char} (hne : a ≠ []) (hnd : '.' ∉ a) : trimMatches (a ++ ['.']) '.' = a := by
  unfold trimMatches
  cases a with
  | nil => exact absurd rfl hne
  | cons x r =>
    have hx : x ≠ '.' := by intro h; subst h; simp at hnd
    rw [List.cons_append, dropWhile_dot_ne hx]
    rw [← List.cons_append, List.reverse_append]
    simp only [List.reverse_cons, List.reverse_nil, List.nil_append, List.singleton_append]
    rw [dropWhile_dot_eq]
    -- the reversed number starts with its last character, which is not a period
    cases hrev : (r.reverse ++ [x]) with
    | nil => simp at hrev
    | cons y ys =>
      have hy : y ∈ x :: r := by
        have : y ∈ r.reverse ++ [x] := by rw [hrev]; simp
        simpa [or_comm] using this
      have hyd : y ≠ '.' := by intro h; subst h; exact hnd hy
      rw [dropWhile_dot_ne hyd, ← hrev]
      simp

theorem FloatShape_endsWith {cs : List Char} (h : FloatShape cs) (he : endsWith cs '.' = true) :
    ∃ a, cs = a ++ ['.'] ∧ a ≠ [] ∧ '.' ∉ a := by
  obtain ⟨a, b, rfl, ha, hb, hab⟩ := h
  have hb0 : b = [] := by
    cases hbl : b.getLast? with
    | none => simpa using hbl
    | some y =>
      have hy : y ∈ b := List.mem_of_getLast? hbl
      have : (a ++ '.' :: b).getLast? = some y := by
        cases b with
        | nil => simp at hbl
        | cons z zs => simp [List.getLast?_append, List.getLast?_cons_cons] at hbl ⊢; simp [hbl]
      simp [endsWith, this] at he
      subst he
      exact absurd hy hb
  subst hb0
  refine ⟨a, rfl, ?_, ha⟩
  intro h0; exact hab h0 rfl

/-- the float split: `1.` followed by `.` emits the number and continues as the range operator `..` -/
structure FloatSplit (σ : Lexer) (a : List Char) (σ1 : Lexer) : Prop where
  chars0 : σ.currentCharacters = a ++ ['.']
  ane : a ≠ []
  anodot : '.' ∉ a
  chars : σ1.currentCharacters = ['.', '.']
  tokenStartRow : σ1.tokenStartRow = σ.textRow
  tokenStartColumn : σ1.tokenStartColumn = σ.textColumn - 1
  textRow : σ1.textRow = σ.textRow
  textColumn : σ1.textColumn = σ.textColumn
  shouldCreate : σ1.shouldCreate = σ.shouldCreate
  result : σ1.result = .ok
  notNoToken : σ1.state ≠ .noToken
  notFloat : σ1.state ≠ .float
  notNumber : σ1.state ≠ .number
  atEnd : σ1.atEnd = σ.atEnd
  operatorTree : σ1.operatorTree = σ.operatorTree

def FloatOut (σ : Lexer) (c : Char) (st : Step) : Prop :=
  (∃ σ1 sn, st = .cont σ1 none sn ∧ ArmEff σ c (σ1, sn)) ∨
  ((∃ σ1 nt, st = .cont σ1 nt false ∧ σ1.result = .err) ∨ (∃ σ1, st = .returnNone σ1 ∧ σ1.result = .err)) ∨
  (c = '.' ∧ ∃ a σ1, st = .cont σ1 (some ⟨a, .number, σ.tokenStartRow, σ.tokenStartColumn⟩) false ∧
    FloatSplit σ a σ1)

theorem armFloat_eff (cc : CharClass) (hcc : cc.Sane2) (σ : Lexer) (c : Char) (hs : σ.state = .float)
    (hc : σ.shouldCreate = true) (hsh : Shape σ) (hpos : 1 ≤ σ.textColumn) (hok : σ.result = .ok) :
    ∃ st, armFloat cc σ c = .ok st ∧ FloatOut σ c st := by
  have hfs := hsh.2 hs
  unfold armFloat
  split
  · rename_i hcond
    refine ⟨_, rfl, Or.inl ⟨_, _, rfl, ?_⟩⟩
    have := FloatShape_push hfs (sane2_ne_dot hcc hcond)
    simp [ArmEff, ArmKind, Shape, armFrame_iff, push, hs, hc, this]
  · split
    · rename_i hcond
      have hc' : c = '.' := by simp at hcond; exact hcond.1
      subst hc'
      have hends : endsWith σ.currentCharacters '.' = true := by simp at hcond; exact hcond
      obtain ⟨a, ha, hane, hand⟩ := FloatShape_endsWith hfs hends
      have hne : ¬ (σ.textColumn = 0) := by omega
      simp only [hne, ↓reduceIte]
      have hfr := startToken_startFrame cc { σ with tokenStartRow := σ.textRow } '.'
      have heff := startToken_effect cc { σ with tokenStartRow := σ.textRow } '.' (by simpa using hok)
      generalize hst : startToken cc { σ with tokenStartRow := σ.textRow } '.' = st at hfr heff
      rcases heff with herr | ⟨_, _, _, hsent⟩ | ⟨hrok, hnt, hnf, hchars, hnum⟩
      · -- start_token failed: the error stays
        split
        · exact ⟨_, rfl, Or.inr (Or.inl (Or.inl ⟨_, _, rfl, by simpa using herr⟩))⟩
        · exact ⟨_, rfl, Or.inr (Or.inl (Or.inr ⟨_, rfl, rfl⟩))⟩
      · exact absurd hsent.1 (by decide)
      · split
        · refine ⟨_, rfl, Or.inr (Or.inr ⟨rfl, a, ?_⟩)⟩
          rw [ha, trimMatches_number hane hand]
          refine ⟨_, rfl, ?_⟩
          · have hnn : st.state ≠ .number := fun h => by
              have := hnum h; rw [hcc.dotNumeric] at this; cases this
            have h1 : st.textRow = σ.textRow := hfr.textRow
            have h2 : st.textColumn = σ.textColumn := hfr.textColumn
            have h3 : st.tokenStartRow = σ.textRow := hfr.tokenStartRow
            have h4 : st.shouldCreate = σ.shouldCreate := hfr.shouldCreate
            have h5 : st.atEnd = σ.atEnd := hfr.atEnd
            have h6 : st.operatorTree = σ.operatorTree := hfr.operatorTree
            constructor <;> simp_all [push]
        · exact ⟨_, rfl, Or.inr (Or.inl (Or.inr ⟨_, rfl, rfl⟩))⟩
    · refine ⟨_, rfl, Or.inl ⟨_, _, rfl, ?_⟩⟩
      simp [ArmEff, ArmKind, armFrame_iff, hs, hc]

/-! ## the C13 invariant -/

/-- state of the lexer after `consumed` has been read and `toks` have been emitted (and no error recorded) -/
structure Core (σ : Lexer) (consumed : List Char) (toks : List LexerToken) : Prop where
  lossless : textsOf toks ++ σ.currentCharacters = consumed
  nonempty : ∀ t ∈ toks, t.text ≠ []
  noTok : σ.state = .noToken → σ.currentCharacters = []
  tok : σ.state ≠ .noToken → σ.currentCharacters ≠ []
  tokPos : TokPosFrom [] toks
  startPos : σ.state ≠ .noToken → (σ.tokenStartRow, σ.tokenStartColumn) = posOf (textsOf toks)
  textPos : (σ.textRow, σ.textColumn) = posOf consumed
  shape : Shape σ
  create : σ.shouldCreate = true
  ok : σ.result = .ok

theorem startToken_result_err (cc : CharClass) (σ : Lexer) (c : Char) (h : σ.result = .err) :
    (startToken cc σ c).result = .err := by
  generalize hr : startToken cc σ c = r
  unfold startToken at hr
  simp only [] at hr
  repeat' split at hr
  all_goals (subst hr; simp_all)

theorem bumpColumn_textPos (σ : Lexer) (c : Char) (consumed : List Char)
    (h : (σ.textRow, σ.textColumn) = posOf consumed) :
    ((bumpColumn σ c).textRow, (bumpColumn σ c).textColumn) = posOf (consumed ++ [c]) := by
  rw [posOf_snoc, ← h]
  unfold bumpColumn
  by_cases hc : c = '\n' <;> simp [hc]

@[simp] theorem bumpColumn_tokenStartRow (σ : Lexer) (c : Char) : (bumpColumn σ c).tokenStartRow = σ.tokenStartRow := by
  unfold bumpColumn; split <;> rfl
@[simp] theorem bumpColumn_tokenStartColumn (σ : Lexer) (c : Char) :
    (bumpColumn σ c).tokenStartColumn = σ.tokenStartColumn := by
  unfold bumpColumn; split <;> rfl
@[simp] theorem bumpColumn_shouldCreate (σ : Lexer) (c : Char) : (bumpColumn σ c).shouldCreate = σ.shouldCreate := by
  unfold bumpColumn; split <;> rfl
@[simp] theorem bumpColumn_result (σ : Lexer) (c : Char) : (bumpColumn σ c).result = σ.result := by
  unfold bumpColumn; split <;> rfl
@[simp] theorem bumpColumn_atEnd (σ : Lexer) (c : Char) : (bumpColumn σ c).atEnd = σ.atEnd := by
  unfold bumpColumn; split <;> rfl

theorem Shape_bump {σ : Lexer} {c : Char} (h : Shape σ) : Shape (bumpColumn σ c) := by
  unfold Shape at *; simpa using h

/-- a freshly started token (regular character) re-establishes the invariant -/
theorem Core_start (cc : CharClass) (hcc : cc.Sane2) (σ2 : Lexer) (c : Char) (consumed : List Char)
    (toks : List LexerToken)
    (hlos : textsOf toks = consumed) (hne : ∀ t ∈ toks, t.text ≠ []) (hpos : TokPosFrom [] toks)
    (htext : (σ2.textRow, σ2.textColumn) = posOf consumed) (hcr : σ2.shouldCreate = true) (hok : σ2.result = .ok)
    (hns : ¬Sentinel σ2 c) :
    (bumpColumn (startToken cc σ2 c) c).result = .err ∨
    Core (bumpColumn (startToken cc σ2 c) c) (consumed ++ [c]) toks := by
  have hfr := startToken_startFrame cc σ2 c
  rcases startToken_effect cc σ2 c hok with herr | ⟨_, _, _, hsent⟩ | ⟨hrok, hnt, hnf, hchars, hnum⟩
  · exact Or.inl (by simpa using herr)
  · exact absurd hsent hns
  · refine Or.inr ⟨?_, hne, ?_, ?_, hpos, ?_, ?_, ?_, ?_, ?_⟩
    · simp [hchars, hlos]
    · intro h; simp at h; exact absurd h hnt
    · intro _; simp [hchars]
    · intro _
      simp only [bumpColumn_tokenStartRow, bumpColumn_tokenStartColumn, hfr.tokenStartRow, hfr.tokenStartColumn]
      rw [hlos]; exact htext
    · apply bumpColumn_textPos
      rw [hfr.textRow, hfr.textColumn]; exact htext
    · apply Shape_bump
      refine ⟨fun h => ?_, fun h => absurd h hnf⟩
      rw [hchars]
      have hn := hnum h
      intro hmem
      simp at hmem
      subst hmem
      rw [hcc.dotNumeric] at hn; cases hn
    · simp [hfr.shouldCreate, hcr]
    · simpa using hrok

theorem TokPosFrom_emit {σ : Lexer} {consumed : List Char} {toks : List LexerToken} (hcore : Core σ consumed toks)
    (hst : σ.state ≠ .noToken) (text : List Char) (ty : Gen.TokenType) :
    TokPosFrom [] (toks ++ [⟨text, ty, σ.tokenStartRow, σ.tokenStartColumn⟩]) := by
  apply TokPosFrom_snoc _ _ _ hcore.tokPos
  simpa using hcore.startPos hst

/-- the part of `process_char` after the arm, for an arm that treated a regular character in one of the three ways -/
theorem finishChar_core (cc : CharClass) (hcc : cc.Sane2) (σ : Lexer) (c : Char) (consumed : List Char)
    (toks : List LexerToken) (hcore : Core σ consumed toks) (hst : σ.state ≠ .noToken)
    (σ1 : Lexer) (sn : Bool) (heff : ArmEff σ c (σ1, sn)) (hns : ¬Sentinel σ c) :
    (finishChar cc σ1 c none sn).1.result = .err ∨
    Core (finishChar cc σ1 c none sn).1 (consumed ++ [c]) (toks ++ (finishChar cc σ1 c none sn).2.toList) := by
  obtain ⟨hfr, hk⟩ := heff
  simp only [] at hfr hk
  have hok1 : σ1.result = .ok := by rw [hfr.result]; exact hcore.ok
  rcases hk with ⟨rfl, hcr, hch, hnt, hsh⟩ | ⟨rfl, hcr, hch, hnt⟩ | ⟨rfl, hcr, hch, hnt⟩
  · -- the character continues the token
    right
    simp only [finishChar, Bool.false_eq_true, ↓reduceIte, Option.toList_none, List.append_nil]
    refine ⟨?_, hcore.nonempty, ?_, ?_, hcore.tokPos, ?_, ?_, Shape_bump hsh, by simpa using hcr, by simpa using hok1⟩
    · simp [hch, ← hcore.lossless]
    · intro h; simp at h; exact absurd h hnt
    · intro _; simp [hch]
    · intro _
      simp only [bumpColumn_tokenStartRow, bumpColumn_tokenStartColumn, hfr.tokenStartRow, hfr.tokenStartColumn]
      exact hcore.startPos hst
    · apply bumpColumn_textPos
      rw [hfr.textRow, hfr.textColumn]; exact hcore.textPos
  · -- the token ends before the character, which starts the next token
    simp only [finishChar, ↓reduceIte, pushNewToken]
    have hne : (σ1.state != LexingState.noToken) = true := by simpa using hnt
    simp only [hne, ↓reduceIte]
    cases hcv : canCreateValidToken { σ1 with canFloat := !blocksFloat σ1.currentTokenType } with
    | err =>
      left
      simp only [LexResult.isOk, Bool.false_eq_true, ↓reduceIte, hcr]
      simp only [bumpColumn_result]
      exact startToken_result_err cc _ c rfl
    | ok =>
      simp only [LexResult.isOk, ↓reduceIte]
      cases hty : σ1.currentTokenType with
      | none => left; rfl
      | some ty =>
        simp only [hcr, ↓reduceIte, Option.toList_some]
        have hchne : σ.currentCharacters ≠ [] := hcore.tok hst
        rw [hfr.tokenStartRow, hfr.tokenStartColumn, hch]
        apply Core_start cc hcc
        · rw [textsOf_snoc]; exact hcore.lossless
        · intro t ht
          simp only [List.mem_append, List.mem_singleton] at ht
          rcases ht with ht | rfl
          · exact hcore.nonempty t ht
          · exact hchne
        · exact TokPosFrom_emit hcore hst _ _
        · simp only [hfr.textRow, hfr.textColumn]; exact hcore.textPos
        · rfl
        · rfl
        · intro hs; exact hns ⟨hs.1, by simpa [hfr.atEnd] using hs.2⟩
  · -- the token ends with the character
    simp only [finishChar, ↓reduceIte, pushNewToken]
    have hne : (σ1.state != LexingState.noToken) = true := by simpa using hnt
    simp only [hne, ↓reduceIte]
    cases hcv : canCreateValidToken { σ1 with canFloat := !blocksFloat σ1.currentTokenType } with
    | err =>
      left
      simp [LexResult.isOk, hcr]
    | ok =>
      simp only [LexResult.isOk, ↓reduceIte]
      cases hty : σ1.currentTokenType with
      | none => left; rfl
      | some ty =>
        right
        simp only [hcr, Bool.false_eq_true, ↓reduceIte, Option.toList_some]
        rw [hfr.tokenStartRow, hfr.tokenStartColumn, hch]
        refine ⟨?_, ?_, ?_, ?_, TokPosFrom_emit hcore hst _ _, ?_, ?_, ?_, by simp, by simp⟩
        · simp [textsOf_snoc, ← hcore.lossless]
        · intro t ht
          simp only [List.mem_append, List.mem_singleton] at ht
          rcases ht with ht | rfl
          · exact hcore.nonempty t ht
          · simp
        · intro _; simp
        · intro h; simp at h
        · intro h; simp at h
        · apply bumpColumn_textPos
          simp only [hfr.textRow, hfr.textColumn]; exact hcore.textPos
        · apply Shape_bump
          exact ⟨fun h => by simp at h, fun h => by simp at h⟩

theorem Core_lexed {σ : Lexer} {consumed : List Char} {toks : List LexerToken} (n : Nat)
    (h : Core σ consumed toks) : Core { σ with charactersLexed := n } consumed toks :=
  ⟨h.1, h.2, h.3, h.4, h.5, h.6, h.7, h.8, h.9, h.10⟩

/-- the float split keeps the invariant -/
theorem floatSplit_core (σ : Lexer) (consumed : List Char) (toks : List LexerToken) (hcore : Core σ consumed toks)
    (hst : σ.state ≠ .noToken) (a : List Char) (σ1 : Lexer) (hsp : FloatSplit σ a σ1) :
    Core (bumpColumn σ1 '.') (consumed ++ ['.'])
      (toks ++ [⟨a, .number, σ.tokenStartRow, σ.tokenStartColumn⟩]) := by
  have hcons : consumed = (textsOf toks ++ a) ++ ['.'] := by
    rw [← hcore.lossless, hsp.chars0, List.append_assoc]
  refine ⟨?_, ?_, ?_, ?_, TokPosFrom_emit hcore hst _ _, ?_, ?_, ?_, ?_, ?_⟩
  · simp [textsOf_snoc, hsp.chars, hcons]
  · intro t ht
    simp only [List.mem_append, List.mem_singleton] at ht
    rcases ht with ht | rfl
    · exact hcore.nonempty t ht
    · exact hsp.ane
  · intro h; simp at h; exact absurd h hsp.notNoToken
  · intro _; simp [hsp.chars]
  · intro _
    simp only [bumpColumn_tokenStartRow, bumpColumn_tokenStartColumn, hsp.tokenStartRow, hsp.tokenStartColumn,
      textsOf_snoc]
    have htp := hcore.textPos
    rw [hcons, posOf_snoc] at htp
    simp only [show ¬ (('.' : Char) = '\n') by decide, ↓reduceIte] at htp
    have h1 : σ.textRow = (posOf (textsOf toks ++ a)).1 := congrArg Prod.fst htp
    have h2 : σ.textColumn = (posOf (textsOf toks ++ a)).2 + 1 := congrArg Prod.snd htp
    rw [h1, h2]; simp
  · apply bumpColumn_textPos
    rw [hsp.textRow, hsp.textColumn]; exact hcore.textPos
  · apply Shape_bump
    exact ⟨fun h => absurd h hsp.notNumber, fun h => absurd h hsp.notFloat⟩
  · simp [hsp.shouldCreate, hcore.create]
  · simpa using hsp.result

/-- `process_char` on a regular character keeps the invariant or records an error -/
theorem processChar_core (cc : CharClass) (hcc : cc.Sane2) (σ : Lexer) (c : Char) (consumed : List Char)
    (toks : List LexerToken) (hcore : Core σ consumed toks) (hinv : Inv σ) (hns : ¬Sentinel σ c)
    (σ' : Lexer) (ot : Option LexerToken) (h : processChar cc σ c = .ok (σ', ot)) :
    σ'.result = .err ∨ Core σ' (consumed ++ [c]) (toks ++ ot.toList) := by
  unfold processChar at h
  simp only [] at h
  have hcore0 := Core_lexed (σ.charactersLexed + 1) hcore
  generalize hσ0 : { σ with charactersLexed := σ.charactersLexed + 1 } = σ0 at h hcore0
  have hs0 : σ0.state = σ.state := by subst hσ0; rfl
  have hns0 : ¬Sentinel σ0 c := by subst hσ0; exact hns
  have hinv0 : Inv σ0 := by subst hσ0; exact hinv
  clear hσ0 hcore hns hinv
  have key : ∀ p : Lexer × Bool, σ0.state ≠ .noToken → ArmEff σ0 c p →
      stateStep cc σ0 c = Step.ofPair p → σ'.result = .err ∨ Core σ' (consumed ++ [c]) (toks ++ ot.toList) := by
    intro p hst heff hss
    rw [hss] at h
    simp only [Step.ofPair, Outcome.ok.injEq] at h
    have := finishChar_core cc hcc σ0 c consumed toks hcore0 hst p.1 p.2 heff hns0
    rw [h] at this
    exact this
  unfold stateStep at h key
  cases hs : σ0.state <;> rw [hs] at h key <;> simp only [] at h key
  case noToken =>
    simp only [Step.ofPair, armNoToken, finishChar, Bool.false_eq_true, ↓reduceIte, Outcome.ok.injEq,
      Prod.mk.injEq] at h
    obtain ⟨rfl, rfl⟩ := h
    simp only [Option.toList_none, List.append_nil]
    have hch := hcore0.noTok hs
    apply Core_start cc hcc σ0 c consumed toks ?_ hcore0.nonempty hcore0.tokPos hcore0.textPos hcore0.create
      hcore0.ok hns0
    have := hcore0.lossless
    rw [hch, List.append_nil] at this
    exact this
  case float =>
    have hpos : 1 ≤ σ0.textColumn := hinv0 hs
    obtain ⟨st, hst, hout⟩ := armFloat_eff cc hcc σ0 c hs hcore0.create hcore0.shape hpos hcore0.ok
    rw [hst] at h
    have hnt : σ0.state ≠ .noToken := by rw [hs]; decide
    rcases hout with ⟨σ1, sn, rfl, heff⟩ | herr | ⟨rfl, a, σ1, rfl, hsp⟩
    · simp only [Outcome.ok.injEq] at h
      have := finishChar_core cc hcc σ0 c consumed toks hcore0 hnt σ1 sn heff hns0
      rw [h] at this
      exact this
    · left
      rcases herr with ⟨s1, nt, rfl, herr⟩ | ⟨s1, rfl, herr⟩
      · simp only [finishChar, Bool.false_eq_true, ↓reduceIte, Outcome.ok.injEq, Prod.mk.injEq] at h
        obtain ⟨rfl, _⟩ := h
        simpa using herr
      · simp only [Outcome.ok.injEq, Prod.mk.injEq] at h
        obtain ⟨rfl, _⟩ := h
        exact herr
    · simp only [finishChar, Bool.false_eq_true, ↓reduceIte, Outcome.ok.injEq, Prod.mk.injEq] at h
      obtain ⟨rfl, rfl⟩ := h
      right
      simpa using floatSplit_core σ0 consumed toks hcore0 hnt a σ1 hsp
  all_goals (have hnt : σ0.state ≠ .noToken := by rw [hs]; decide)
  · exact key _ (by decide) (armOperator_eff cc hcc σ0 c hs hcore0.create (hcore0.tok hnt)) rfl
  · exact key _ (by decide) (armSpaces_eff σ0 c hs hcore0.create) rfl
  · exact key _ (by decide) (armSubexpression_eff σ0 c hs hcore0.create) rfl
  · exact key _ (by decide) (armNumber_eff cc hcc σ0 c hs hcore0.create (hcore0.tok hnt) hcore0.shape) rfl
  · exact key _ (by decide) (armIdentifier_eff cc σ0 c hs hcore0.create) rfl
  · exact key _ (by decide) (armAnnotation_eff cc σ0 c hs hcore0.create) rfl
  · exact key _ (by decide) (armLineAnnotation_eff σ0 c hs hcore0.create hns0) rfl
  · exact key _ (by decide) (armCharList_eff σ0 c hs hcore0.create) rfl
  · exact key _ (by decide) (armStartCharList_eff σ0 c hs hcore0.create hns0) rfl
  · exact key _ (by decide) (armByteList_eff σ0 c hs hcore0.create) rfl
  · exact key _ (by decide) (armStartByteList_eff σ0 c hs hcore0.create hns0) rfl

/-! ## the end-of-input sentinel -/

theorem startToken_nul_full (cc : CharClass) (hcc : cc.Sane) (σ : Lexer) (ht : TreeOk σ.operatorTree)
    (hat : σ.atEnd = true) :
    (startToken cc σ '\x00').state = .noToken ∧ (startToken cc σ '\x00').currentCharacters = [] ∧
    (startToken cc σ '\x00').result = σ.result := by
  unfold TreeOk at ht
  generalize hr : startToken cc σ '\x00' = r
  unfold startToken at hr
  simp [currentOperator, push, ht, isAsciiWhitespace, isIdentifierChar, hcc.nulNumeric, hcc.nulAlphanumeric, hat] at hr
  subst hr; exact ⟨rfl, rfl, rfl⟩

/-- how an arm treats the sentinel: it either keeps a non-empty unfinished token or ends the token before it -/
def ArmEnd (σ : Lexer) (p : Lexer × Bool) : Prop :=
  ArmFrame σ p.1 ∧ p.1.state ≠ .noToken ∧
  ((p.2 = false ∧ p.1.currentCharacters ≠ []) ∨
   (p.2 = true ∧ p.1.shouldCreate = true ∧ p.1.currentCharacters = σ.currentCharacters))

theorem nul_not_ws : isAsciiWhitespace '\x00' = false := by decide

macro "end_tac" f:ident hr:ident hcc:ident : tactic =>
  `(tactic| (unfold $f at $hr:ident; (try simp only [] at $hr:ident); (repeat' split at $hr:ident);
             all_goals (subst $hr:ident; simp_all [ArmEnd, push, armFrame_iff, nul_not_ws, isIdentifierChar, isIdentifier,
                          CharClass.Sane.nulNumeric $hcc, CharClass.Sane.nulAlphanumeric $hcc])))

macro "end_tac0" f:ident hr:ident : tactic =>
  `(tactic| (unfold $f at $hr:ident; (try simp only [] at $hr:ident); (repeat' split at $hr:ident);
             all_goals (subst $hr:ident; simp_all [ArmEnd, push, armFrame_iff, nul_not_ws])))

@[simp] theorem pop_append_singleton (s : List Char) (c : Char) : pop (s ++ [c]) = s := by
  simp [pop]

theorem armOperator_end (cc : CharClass) (hcc : cc.Sane) (σ : Lexer) (hs : σ.state = .operator)
    (hc : σ.shouldCreate = true) (hne : σ.currentCharacters ≠ []) : ArmEnd σ (armOperator cc σ '\x00') := by
  generalize hr : armOperator cc σ '\x00' = r
  end_tac armOperator hr hcc
theorem armNumber_end (cc : CharClass) (hcc : cc.Sane) (σ : Lexer) (hs : σ.state = .number)
    (hc : σ.shouldCreate = true) (hne : σ.currentCharacters ≠ []) : ArmEnd σ (armNumber cc σ '\x00') := by
  generalize hr : armNumber cc σ '\x00' = r
  end_tac armNumber hr hcc
theorem armIdentifier_end (cc : CharClass) (hcc : cc.Sane) (σ : Lexer) (hs : σ.state = .identifier)
    (hc : σ.shouldCreate = true) (hne : σ.currentCharacters ≠ []) : ArmEnd σ (armIdentifier cc σ '\x00') := by
  generalize hr : armIdentifier cc σ '\x00' = r
  end_tac armIdentifier hr hcc
theorem armStartCharList_end (σ : Lexer) (hs : σ.state = .startCharList)
    (hc : σ.shouldCreate = true) (hne : σ.currentCharacters ≠ []) (hat : σ.atEnd = true) :
    ArmEnd σ (armStartCharList σ '\x00') := by
  generalize hr : armStartCharList σ '\x00' = r
  end_tac0 armStartCharList hr
theorem armCharList_end (σ : Lexer) (hs : σ.state = .charList)
    (hc : σ.shouldCreate = true) (hne : σ.currentCharacters ≠ []) : ArmEnd σ (armCharList σ '\x00') := by
  generalize hr : armCharList σ '\x00' = r
  end_tac0 armCharList hr
theorem armStartByteList_end (σ : Lexer) (hs : σ.state = .startByteList)
    (hc : σ.shouldCreate = true) (hne : σ.currentCharacters ≠ []) (hat : σ.atEnd = true) :
    ArmEnd σ (armStartByteList σ '\x00') := by
  generalize hr : armStartByteList σ '\x00' = r
  end_tac0 armStartByteList hr
theorem armByteList_end (σ : Lexer) (hs : σ.state = .byteList)
    (hc : σ.shouldCreate = true) (hne : σ.currentCharacters ≠ []) : ArmEnd σ (armByteList σ '\x00') := by
  generalize hr : armByteList σ '\x00' = r
  end_tac0 armByteList hr
theorem armSpaces_end (σ : Lexer) (hs : σ.state = .spaces)
    (hc : σ.shouldCreate = true) (hne : σ.currentCharacters ≠ []) : ArmEnd σ (armSpaces σ '\x00') := by
  generalize hr : armSpaces σ '\x00' = r
  end_tac0 armSpaces hr
theorem armSubexpression_end (σ : Lexer) (hs : σ.state = .subexpression)
    (hc : σ.shouldCreate = true) (hne : σ.currentCharacters ≠ []) : ArmEnd σ (armSubexpression σ '\x00') := by
  generalize hr : armSubexpression σ '\x00' = r
  end_tac0 armSubexpression hr
theorem armAnnotation_end (cc : CharClass) (hcc : cc.Sane) (σ : Lexer) (hs : σ.state = .annotation)
    (hc : σ.shouldCreate = true) (hne : σ.currentCharacters ≠ []) : ArmEnd σ (armAnnotation cc σ '\x00') := by
  generalize hr : armAnnotation cc σ '\x00' = r
  end_tac armAnnotation hr hcc
theorem armLineAnnotation_end (σ : Lexer) (hs : σ.state = .lineAnnotation)
    (hc : σ.shouldCreate = true) (hne : σ.currentCharacters ≠ []) (hat : σ.atEnd = true) :
    ArmEnd σ (armLineAnnotation σ '\x00') := by
  generalize hr : armLineAnnotation σ '\x00' = r
  end_tac0 armLineAnnotation hr

theorem armFloat_end (cc : CharClass) (hcc : cc.Sane) (σ : Lexer) (hs : σ.state = .float)
    (hc : σ.shouldCreate = true) :
    ∃ σ1 sn, armFloat cc σ '\x00' = .ok (.cont σ1 none sn) ∧ ArmEnd σ (σ1, sn) := by
  unfold armFloat
  have h1 : (cc.isNumeric '\x00' || '\x00' == '_' || cc.isAlphanumeric '\x00') = false := by
    simp [hcc.nulNumeric, hcc.nulAlphanumeric]
  have h2 : (('\x00' : Char) == '.') = false := by decide
  simp only [h1, Bool.false_eq_true, ↓reduceIte, h2, Bool.false_and]
  exact ⟨_, _, rfl, by simp [ArmEnd, armFrame_iff, hs, hc]⟩

/-- result of the lexer: what `lex` returns once the input is exhausted -/
structure Final (toks : List LexerToken) (consumed : List Char) : Prop where
  lossless : textsOf toks = consumed
  nonempty : ∀ t ∈ toks, t.text ≠ []
  tokPos : TokPosFrom [] toks

/-- the rest of `process_char` on the sentinel -/
theorem finishChar_end (cc : CharClass) (hcc : cc.Sane) (σ : Lexer) (consumed : List Char)
    (toks : List LexerToken) (hcore : Core σ consumed toks) (hst : σ.state ≠ .noToken)
    (hat : σ.atEnd = true) (htree : TreeOk σ.operatorTree)
    (σ1 : Lexer) (sn : Bool) (heff : ArmEnd σ (σ1, sn)) :
    (finishChar cc σ1 '\x00' none sn).1.result = .err ∨
    ((finishChar cc σ1 '\x00' none sn).2 = none ∧ (finishChar cc σ1 '\x00' none sn).1.currentCharacters ≠ []) ∨
    (∃ t, (finishChar cc σ1 '\x00' none sn).2 = some t ∧ (finishChar cc σ1 '\x00' none sn).1.state = .noToken ∧
        Final (toks ++ [t]) consumed) := by
  obtain ⟨hfr, hnt, hk⟩ := heff
  simp only [] at hfr hk hnt
  rcases hk with ⟨rfl, hch⟩ | ⟨rfl, hcr, hch⟩
  · right; left
    simp only [finishChar, Bool.false_eq_true, ↓reduceIte, bumpColumn_chars]
    exact ⟨trivial, hch⟩
  · simp only [finishChar, ↓reduceIte, pushNewToken]
    have hne : (σ1.state != LexingState.noToken) = true := by simpa using hnt
    simp only [hne, ↓reduceIte]
    cases hcv : canCreateValidToken { σ1 with canFloat := !blocksFloat σ1.currentTokenType } with
    | err =>
      left
      simp only [LexResult.isOk, Bool.false_eq_true, ↓reduceIte, hcr]
      simp only [bumpColumn_result]
      exact startToken_result_err cc _ _ rfl
    | ok =>
      simp only [LexResult.isOk, ↓reduceIte]
      cases hty : σ1.currentTokenType with
      | none => left; rfl
      | some ty =>
        right; right
        simp only [hcr, ↓reduceIte]
        refine ⟨_, rfl, ?_, ?_⟩
        · rw [bumpColumn_state]
          exact (startToken_nul_full cc hcc _ (by simpa [hfr.operatorTree] using htree)
            (by simpa [hfr.atEnd] using hat)).1
        · rw [hfr.tokenStartRow, hfr.tokenStartColumn, hch]
          refine ⟨?_, ?_, TokPosFrom_emit hcore hst _ _⟩
          · rw [textsOf_snoc]; exact hcore.lossless
          · intro t ht
            simp only [List.mem_append, List.mem_singleton] at ht
            rcases ht with ht | rfl
            · exact hcore.nonempty t ht
            · exact hcore.tok hst

/-- `process_char` on the end-of-input sentinel -/
theorem processChar_end (cc : CharClass) (hcc : cc.Sane) (σ : Lexer) (consumed : List Char)
    (toks : List LexerToken) (hcore : Core σ consumed toks) (hat : σ.atEnd = true) (htree : TreeOk σ.operatorTree)
    (σ' : Lexer) (ot : Option LexerToken) (h : processChar cc σ '\x00' = .ok (σ', ot)) :
    σ'.result = .err ∨
    (ot = none ∧ (σ'.currentCharacters ≠ [] ∨ Final toks consumed)) ∨
    (∃ t, ot = some t ∧ σ'.state = .noToken ∧ Final (toks ++ [t]) consumed) := by
  unfold processChar at h
  simp only [] at h
  have hcore0 := Core_lexed (σ.charactersLexed + 1) hcore
  generalize hσ0 : { σ with charactersLexed := σ.charactersLexed + 1 } = σ0 at h hcore0
  have hat0 : σ0.atEnd = true := by subst hσ0; exact hat
  have htree0 : TreeOk σ0.operatorTree := by subst hσ0; exact htree
  clear hσ0 hcore hat htree
  have key : ∀ p : Lexer × Bool, σ0.state ≠ .noToken → ArmEnd σ0 p →
      stateStep cc σ0 '\x00' = Step.ofPair p →
      σ'.result = .err ∨ (ot = none ∧ (σ'.currentCharacters ≠ [] ∨ Final toks consumed)) ∨
      (∃ t, ot = some t ∧ σ'.state = .noToken ∧ Final (toks ++ [t]) consumed) := by
    intro p hst heff hss
    rw [hss] at h
    simp only [Step.ofPair, Outcome.ok.injEq] at h
    have := finishChar_end cc hcc σ0 consumed toks hcore0 hst hat0 htree0 p.1 p.2 heff
    rw [h] at this
    rcases this with h1 | ⟨h1, h2⟩ | h3
    · exact Or.inl h1
    · exact Or.inr (Or.inl ⟨h1, Or.inl h2⟩)
    · exact Or.inr (Or.inr h3)
  unfold stateStep at h key
  cases hs : σ0.state <;> rw [hs] at h key <;> simp only [] at h key
  case noToken =>
    simp only [Step.ofPair, armNoToken, finishChar, Bool.false_eq_true, ↓reduceIte, Outcome.ok.injEq,
      Prod.mk.injEq] at h
    obtain ⟨rfl, rfl⟩ := h
    right; left
    refine ⟨rfl, Or.inr ⟨?_, hcore0.nonempty, hcore0.tokPos⟩⟩
    have := hcore0.lossless
    rw [hcore0.noTok hs, List.append_nil] at this
    exact this
  case float =>
    have hnt : σ0.state ≠ .noToken := by rw [hs]; decide
    obtain ⟨σ1, sn, hst, heff⟩ := armFloat_end cc hcc σ0 hs hcore0.create
    rw [hst] at h
    simp only [Outcome.ok.injEq] at h
    have := finishChar_end cc hcc σ0 consumed toks hcore0 hnt hat0 htree0 σ1 sn heff
    rw [h] at this
    rcases this with h1 | ⟨h1, h2⟩ | h3
    · exact Or.inl h1
    · exact Or.inr (Or.inl ⟨h1, Or.inl h2⟩)
    · exact Or.inr (Or.inr h3)
  all_goals (have hnt : σ0.state ≠ .noToken := by rw [hs]; decide)
  · exact key _ (by decide) (armOperator_end cc hcc σ0 hs hcore0.create (hcore0.tok hnt)) rfl
  · exact key _ (by decide) (armSpaces_end σ0 hs hcore0.create (hcore0.tok hnt)) rfl
  · exact key _ (by decide) (armSubexpression_end σ0 hs hcore0.create (hcore0.tok hnt)) rfl
  · exact key _ (by decide) (armNumber_end cc hcc σ0 hs hcore0.create (hcore0.tok hnt)) rfl
  · exact key _ (by decide) (armIdentifier_end cc hcc σ0 hs hcore0.create (hcore0.tok hnt)) rfl
  · exact key _ (by decide) (armAnnotation_end cc hcc σ0 hs hcore0.create (hcore0.tok hnt)) rfl
  · exact key _ (by decide) (armLineAnnotation_end σ0 hs hcore0.create (hcore0.tok hnt) hat0) rfl
  · exact key _ (by decide) (armCharList_end σ0 hs hcore0.create (hcore0.tok hnt)) rfl
  · exact key _ (by decide) (armStartCharList_end σ0 hs hcore0.create (hcore0.tok hnt) hat0) rfl
  · exact key _ (by decide) (armByteList_end σ0 hs hcore0.create (hcore0.tok hnt)) rfl
  · exact key _ (by decide) (armStartByteList_end σ0 hs hcore0.create (hcore0.tok hnt) hat0) rfl

/-! ## the loop -/

theorem lexFinish_ok {σ σ' : Lexer} {toks toks' : List LexerToken} (h : lexFinish σ toks = .ok (toks', σ')) :
    toks' = toks ∧ σ.result = .ok := by
  unfold lexFinish at h
  cases hr : σ.result <;> rw [hr] at h <;> simp at h
  exact ⟨h.1.symm, rfl⟩

theorem isErr_of_ok {σ : Lexer} (h : σ.result = .ok) : σ.result.isErr = false := by rw [h]; rfl

theorem Core_atEnd {σ : Lexer} {consumed : List Char} {toks : List LexerToken} (b : Bool)
    (h : Core σ consumed toks) : Core { σ with atEnd := b } consumed toks :=
  ⟨h.1, h.2, h.3, h.4, h.5, h.6, h.7, h.8, h.9, h.10⟩

/-- second sentinel: in `NoToken` nothing more is emitted -/
theorem lexEnd_second (cc : CharClass) (fuel : Nat) (σ σ' : Lexer) (toks toks' : List LexerToken)
    (hs : σ.state = .noToken) (h : lexEnd cc (fuel + 1) σ toks = .ok (toks', σ')) : toks' = toks := by
  simp only [lexEnd] at h
  split at h
  · exact (lexFinish_ok h).1
  · cases hp : processChar cc { σ with atEnd := true } '\x00' with
    | ok r =>
      obtain ⟨σ1, ot⟩ := r
      have hnone := processChar_noToken_none cc _ _ _ _ (by simpa using hs) hp
      subst hnone
      rw [hp] at h
      simp only [] at h
      exact (lexFinish_ok h).1
    | err e => rw [hp] at h; cases h
    | panic m => rw [hp] at h; cases h
    | fuelOut => rw [hp] at h; cases h

theorem lexEnd_final (cc : CharClass) (hcc : cc.Sane) (fuel : Nat) (σ σ' : Lexer) (consumed : List Char)
    (toks toks' : List LexerToken) (hcore : Core σ consumed toks) (htree : TreeOk σ.operatorTree)
    (h : lexEnd cc (fuel + 2) σ toks = .ok (toks', σ')) : Final toks' consumed := by
  rw [show fuel + 2 = (fuel + 1) + 1 from rfl, lexEnd] at h
  simp only [isErr_of_ok hcore.ok, Bool.false_eq_true, ↓reduceIte] at h
  cases hp : processChar cc { σ with atEnd := true } '\x00' with
  | ok r =>
    obtain ⟨σ1, ot⟩ := r
    rw [hp] at h
    have hend := processChar_end cc hcc _ consumed toks (Core_atEnd true hcore) rfl (by simpa using htree) σ1 ot hp
    cases ot with
    | none =>
      simp only [] at h
      obtain ⟨htoks, hres⟩ := lexFinish_ok h
      subst htoks
      rcases hend with herr | ⟨_, hne | hfin⟩ | ⟨t, ht, _⟩
      · -- an error was recorded: lexFinish cannot succeed
        exfalso
        split at hres
        · simp at hres
        · rw [herr] at hres; cases hres
      · exfalso
        have hlen : utf8Len σ1.currentCharacters > 0 := by
          cases hc : σ1.currentCharacters with
          | nil => exact absurd hc hne
          | cons x r => have := Char.utf8Size_pos x; simp [utf8Len]; omega
        split at hres
        · simp at hres
        · rename_i hcond
          cases hr1 : σ1.result with
          | ok => simp [hlen, hr1, LexResult.isOk] at hcond
          | err => rw [hr1] at hres; cases hres
      · exact hfin
      · cases ht
    | some t =>
      simp only [] at h
      rcases hend with herr | ⟨hnone, _⟩ | ⟨t', ht, hs1, hfin⟩
      · rw [herr] at h; cases h
      · cases hnone
      · cases ht
        cases hr1 : σ1.result with
        | err => rw [hr1] at h; cases h
        | ok =>
          rw [hr1] at h
          simp only [] at h
          have := lexEnd_second cc fuel σ1 σ' (toks ++ [t]) toks' hs1 h
          subst this
          exact hfin
  | err e => rw [hp] at h; cases h
  | panic m => rw [hp] at h; cases h
  | fuelOut => rw [hp] at h; cases h

theorem lexEnd_err (cc : CharClass) (fuel : Nat) (σ : Lexer) (toks : List LexerToken) (h : σ.result = .err) :
    lexEnd cc (fuel + 1) σ toks = .err .syntax := by
  simp [lexEnd, h, LexResult.isErr, lexFinish]

theorem lexLoop_err (cc : CharClass) (input : List Char) (σ : Lexer) (toks : List LexerToken)
    (h : σ.result = .err) : lexLoop cc input σ toks = .err .syntax := by
  cases input with
  | nil => simp only [lexLoop, endFuel]; exact lexEnd_err cc 3 σ toks h
  | cons c rest => simp [lexLoop, h, LexResult.isErr, lexFinish]

/-- the main invariant theorem: if `lex` succeeds from a state satisfying the invariant, the result is `Final` -/
theorem lexLoop_final (cc : CharClass) (hcc : cc.Sane2) :
    ∀ (input : List Char) (σ σ' : Lexer) (consumed : List Char) (toks toks' : List LexerToken),
      Core σ consumed toks → Inv σ → TreeOk σ.operatorTree → σ.atEnd = false →
      lexLoop cc input σ toks = .ok (toks', σ') → Final toks' (consumed ++ input)
  | [], σ, σ', consumed, toks, toks', hcore, _, htree, _, h => by
    simp only [lexLoop, endFuel] at h
    rw [List.append_nil]
    exact lexEnd_final cc hcc.toSane 2 σ σ' consumed toks toks' hcore htree h
  | c :: rest, σ, σ', consumed, toks, toks', hcore, hinv, htree, hat, h => by
    simp only [lexLoop, isErr_of_ok hcore.ok, Bool.false_eq_true, ↓reduceIte] at h
    obtain ⟨σ1, ot, hp, hinv1⟩ := processChar_ok cc hcc.toSane σ c hinv
    have hf := processChar_frame cc _ _ _ _ hp
    have hns : ¬Sentinel σ c := fun hs => by have := hs.2; rw [hat] at this; cases this
    have hstep := processChar_core cc hcc σ c consumed toks hcore hinv hns σ1 ot hp
    rw [hp] at h
    have hcons : consumed ++ c :: rest = (consumed ++ [c]) ++ rest := by simp
    rw [hcons]
    cases ot with
    | none =>
      simp only [] at h
      rcases hstep with herr | hcore1
      · rw [lexLoop_err cc rest σ1 toks herr] at h; cases h
      · exact lexLoop_final cc hcc rest σ1 σ' _ toks toks' (by simpa using hcore1) hinv1
          (by rw [hf.1]; exact htree) (by rw [hf.2.1]; exact hat) h
    | some t =>
      simp only [] at h
      rcases hstep with herr | hcore1
      · rw [herr] at h; cases h
      · rw [hcore1.ok] at h
        simp only [] at h
        exact lexLoop_final cc hcc rest σ1 σ' _ (toks ++ [t]) toks' (by simpa using hcore1) hinv1
          (by rw [hf.1]; exact htree) (by rw [hf.2.1]; exact hat) h

theorem Core_init (t : LexerOperatorNode) : Core (Lexer.init t) [] [] :=
  ⟨rfl, by simp, fun _ => rfl, fun h => absurd rfl h, trivial, fun h => absurd rfl h, rfl,
   ⟨fun h => by simp [Lexer.init] at h, fun h => by simp [Lexer.init] at h⟩, rfl, rfl⟩

/-- `lex` succeeds only with a lossless, non-empty, correctly positioned token list -/
theorem lex_final (cc : CharClass) (hcc : cc.Sane2) (s : List Char) (toks : List LexerToken)
    (h : lex cc s = .ok toks) : Final toks s := by
  obtain ⟨t, hnew, ht⟩ := new_ok
  unfold lex lexFull at h
  rw [hnew] at h
  simp only [] at h
  cases hl : lexLoop cc s (Lexer.init t) [] with
  | ok r =>
    obtain ⟨toks', σ'⟩ := r
    rw [hl] at h
    simp only [Outcome.ok.injEq] at h
    subst h
    have := lexLoop_final cc hcc s (Lexer.init t) σ' [] [] toks' (Core_init t)
      (fun h => by simp [Lexer.init] at h) ht rfl hl
    simpa using this
  | err e => rw [hl] at h; cases h
  | panic m => rw [hl] at h; cases h
  | fuelOut => rw [hl] at h; cases h

/-! ## the Rust tables; indexed form of the position statement -/

/-- the Unicode predicates of the Rust std, from the generated range tables -/
def rustTables : CharClass := ⟨Garnish.Gen.CharRanges.isAlphanumeric, Garnish.Gen.CharRanges.isNumeric⟩

theorem rustTables_sane2 : rustTables.Sane2 where
  nulNumeric := by decide +kernel
  nulAlphanumeric := by decide +kernel
  nlNumeric := by decide +kernel
  nlAlphanumeric := by decide +kernel
  dotNumeric := by decide +kernel
  dotAlphanumeric := by decide +kernel

theorem TokPosFrom_get : ∀ (p : List Char) (toks : List LexerToken), TokPosFrom p toks →
    ∀ (i : Nat) (h : i < toks.length), (toks[i].row, toks[i].column) = posOf (p ++ textsOf (toks.take i))
  | p, [], _, i, h => by simp at h
  | p, t :: ts, hp, 0, _ => by simpa [TokPosFrom] using hp.1
  | p, t :: ts, hp, i + 1, h => by
    have := TokPosFrom_get (p ++ t.text) ts hp.2 i (by simpa using h)
    simpa [textsOf, List.append_assoc] using this

theorem textsOf_take_prefix (toks : List LexerToken) (s : List Char) (h : textsOf toks = s) (i : Nat) :
    textsOf (toks.take i) = s.take (textsOf (toks.take i)).length := by
  have : s = textsOf (toks.take i) ++ textsOf (toks.drop i) := by
    rw [← h]
    simp only [textsOf, ← List.flatten_append, ← List.map_append, List.take_append_drop]
  rw [this, List.take_left']
  rfl

/-! ## blank lines -/

/-- `lex`'s loop on a prefix of the input (the same steps as `lexLoop`, without the end-of-input phase) -/
def runChars (cc : CharClass) : List Char → Lexer → List LexerToken → Outcome (Lexer × List LexerToken)
  | [], σ, toks => .ok (σ, toks)
  | c :: rest, σ, toks =>
    if σ.result.isErr then .err .syntax else
    match processChar cc σ c with
    | .ok (σ1, some t) =>
      match σ1.result with
      | .err => .err .syntax
      | .ok => runChars cc rest σ1 (toks ++ [t])
    | .ok (σ1, none) => runChars cc rest σ1 toks
    | .err e => .err e
    | .panic s => .panic s
    | .fuelOut => .fuelOut

theorem lexLoop_append (cc : CharClass) : ∀ (x rest : List Char) (σ σ1 : Lexer) (toks toks1 : List LexerToken),
    runChars cc x σ toks = .ok (σ1, toks1) → lexLoop cc (x ++ rest) σ toks = lexLoop cc rest σ1 toks1
  | [], rest, σ, σ1, toks, toks1, h => by
    simp only [runChars, Outcome.ok.injEq, Prod.mk.injEq] at h
    obtain ⟨rfl, rfl⟩ := h; rfl
  | c :: x, rest, σ, σ1, toks, toks1, h => by
    simp only [runChars] at h
    simp only [List.cons_append, lexLoop]
    split at h
    · cases h
    · rename_i hE
      simp only [hE, Bool.false_eq_true, ↓reduceIte]
      cases hp : processChar cc σ c with
      | ok r =>
        obtain ⟨σ2, ot⟩ := r
        rw [hp] at h
        cases ot with
        | none => exact lexLoop_append cc x rest σ2 σ1 toks toks1 h
        | some t =>
          simp only [] at h ⊢
          cases hr : σ2.result with
          | err => rw [hr] at h; cases h
          | ok => rw [hr] at h; exact lexLoop_append cc x rest σ2 σ1 _ toks1 h
      | err e => rw [hp] at h; cases h
      | panic m => rw [hp] at h; cases h
      | fuelOut => rw [hp] at h; cases h

theorem runChars_append (cc : CharClass) : ∀ (x y : List Char) (σ σ1 : Lexer) (toks toks1 : List LexerToken),
    runChars cc x σ toks = .ok (σ1, toks1) → runChars cc (x ++ y) σ toks = runChars cc y σ1 toks1
  | [], y, σ, σ1, toks, toks1, h => by
    simp only [runChars, Outcome.ok.injEq, Prod.mk.injEq] at h
    obtain ⟨rfl, rfl⟩ := h; rfl
  | c :: x, y, σ, σ1, toks, toks1, h => by
    simp only [runChars] at h
    simp only [List.cons_append, runChars]
    split at h
    · cases h
    · rename_i hE
      simp only [hE, Bool.false_eq_true, ↓reduceIte]
      cases hp : processChar cc σ c with
      | ok r =>
        obtain ⟨σ2, ot⟩ := r
        rw [hp] at h
        cases ot with
        | none => exact runChars_append cc x y σ2 σ1 toks toks1 h
        | some t =>
          simp only [] at h ⊢
          cases hr : σ2.result with
          | err => rw [hr] at h; cases h
          | ok => rw [hr] at h; exact runChars_append cc x y σ2 σ1 _ toks1 h
      | err e => rw [hp] at h; cases h
      | panic m => rw [hp] at h; cases h
      | fuelOut => rw [hp] at h; cases h

/-- in a run of horizontal whitespace, no newline seen yet -/
structure WsA (σ : Lexer) (cs : List Char) : Prop where
  state : σ.state = .spaces
  chars : σ.currentCharacters = cs
  couldBe : σ.couldBeSubExpression = false
  create : σ.shouldCreate = true
  ok : σ.result = .ok

/-- directly after the first newline of a whitespace run -/
structure WsB (σ : Lexer) (cs : List Char) : Prop where
  state : σ.state = .subexpression
  chars : σ.currentCharacters = cs
  create : σ.shouldCreate = true
  ok : σ.result = .ok

/-- spaces/tabs after the first newline of a whitespace run -/
structure WsC (σ : Lexer) (cs : List Char) : Prop where
  state : σ.state = .spaces
  chars : σ.currentCharacters = cs
  couldBe : σ.couldBeSubExpression = true
  create : σ.shouldCreate = true
  ok : σ.result = .ok

def IsBlank (c : Char) : Prop := c = ' ' ∨ c = '\t'

theorem wsA_blank (cc : CharClass) (σ : Lexer) (cs : List Char) (c : Char) (h : WsA σ cs) (hc : IsBlank c) :
    ∃ σ1, processChar cc σ c = .ok (σ1, none) ∧ WsA σ1 (cs ++ [c]) := by
  obtain ⟨h1, h2, h3, h4, h5⟩ := h
  rcases hc with rfl | rfl
  all_goals
    simp only [processChar, stateStep, h1, Step.ofPair, armSpaces, finishChar]
    refine ⟨_, rfl, ?_⟩
    constructor <;> simp [bumpColumn, push, h1, h2, h3, h4, h5]

theorem wsA_newline (cc : CharClass) (σ : Lexer) (cs : List Char) (h : WsA σ cs) :
    ∃ σ1, processChar cc σ '\n' = .ok (σ1, none) ∧ WsB σ1 (cs ++ ['\n']) := by
  obtain ⟨h1, h2, h3, h4, h5⟩ := h
  simp only [processChar, stateStep, h1, Step.ofPair, armSpaces, finishChar, h3]
  refine ⟨_, rfl, ?_⟩
  constructor <;> simp [bumpColumn, push, h1, h2, h3, h4, h5]

theorem wsB_blank (cc : CharClass) (σ : Lexer) (cs : List Char) (c : Char) (h : WsB σ cs) (hc : IsBlank c) :
    ∃ σ1, processChar cc σ c = .ok (σ1, none) ∧ WsC σ1 (cs ++ [c]) := by
  obtain ⟨h1, h2, h4, h5⟩ := h
  rcases hc with rfl | rfl
  all_goals
    simp only [processChar, stateStep, h1, Step.ofPair, armSubexpression, finishChar]
    refine ⟨_, rfl, ?_⟩
    constructor <;> simp [bumpColumn, push, h1, h2, h4, h5]

theorem wsC_blank (cc : CharClass) (σ : Lexer) (cs : List Char) (c : Char) (h : WsC σ cs) (hc : IsBlank c) :
    ∃ σ1, processChar cc σ c = .ok (σ1, none) ∧ WsC σ1 (cs ++ [c]) := by
  obtain ⟨h1, h2, h3, h4, h5⟩ := h
  rcases hc with rfl | rfl
  all_goals
    simp only [processChar, stateStep, h1, Step.ofPair, armSpaces, finishChar]
    refine ⟨_, rfl, ?_⟩
    constructor <;> simp [bumpColumn, push, h1, h2, h3, h4, h5]

/-- the second newline directly after the first: one Subexpression token with everything (patch 2) -/
theorem wsB_newline (cc : CharClass) (σ : Lexer) (cs : List Char) (h : WsB σ cs) :
    ∃ σ1 t, processChar cc σ '\n' = .ok (σ1, some t) ∧ t.tokenType = .subexpression ∧ t.text = cs ++ ['\n'] ∧
      σ1.result = .ok := by
  obtain ⟨h1, h2, h4, h5⟩ := h
  have hnl : (isAsciiWhitespace '\n' && !('\n' == '\t' || '\n' == ' ')) = true := by decide
  simp only [processChar, stateStep, h1, Step.ofPair, armSubexpression, finishChar, pushNewToken,
    canCreateValidToken, hnl, ↓reduceIte]
  refine ⟨_, _, rfl, ?_⟩
  simp [bumpColumn, push, h1, h2, h4, h5]

/-- the second newline after trailing spaces/tabs: one Subexpression token with everything -/
theorem wsC_newline (cc : CharClass) (σ : Lexer) (cs : List Char) (h : WsC σ cs) :
    ∃ σ1 t, processChar cc σ '\n' = .ok (σ1, some t) ∧ t.tokenType = .subexpression ∧ t.text = cs ++ ['\n'] ∧
      σ1.result = .ok := by
  obtain ⟨h1, h2, h3, h4, h5⟩ := h
  simp only [processChar, stateStep, h1, Step.ofPair, armSpaces, finishChar, pushNewToken,
    canCreateValidToken, h3]
  refine ⟨_, _, rfl, ?_⟩
  simp [bumpColumn, push, h1, h2, h3, h4, h5]

theorem runChars_none (cc : CharClass) (c : Char) (rest : List Char) (σ σ1 : Lexer) (toks : List LexerToken)
    (hok : σ.result = .ok) (hp : processChar cc σ c = .ok (σ1, none)) :
    runChars cc (c :: rest) σ toks = runChars cc rest σ1 toks := by
  simp [runChars, isErr_of_ok hok, hp]

theorem runChars_some (cc : CharClass) (c : Char) (rest : List Char) (σ σ1 : Lexer) (toks : List LexerToken)
    (t : LexerToken) (hok : σ.result = .ok) (hp : processChar cc σ c = .ok (σ1, some t)) (hok1 : σ1.result = .ok) :
    runChars cc (c :: rest) σ toks = runChars cc rest σ1 (toks ++ [t]) := by
  simp [runChars, isErr_of_ok hok, hp, hok1]

theorem runA (cc : CharClass) : ∀ (ws : List Char) (σ : Lexer) (cs : List Char) (toks : List LexerToken),
    WsA σ cs → (∀ c ∈ ws, IsBlank c) → ∃ σ1, runChars cc ws σ toks = .ok (σ1, toks) ∧ WsA σ1 (cs ++ ws)
  | [], σ, cs, toks, h, _ => ⟨σ, rfl, by simpa using h⟩
  | c :: ws, σ, cs, toks, h, hb => by
    obtain ⟨σ1, hp, h1⟩ := wsA_blank cc σ cs c h (hb c (by simp))
    obtain ⟨σ2, hr, h2⟩ := runA cc ws σ1 (cs ++ [c]) toks h1 (fun x hx => hb x (by simp [hx]))
    exact ⟨σ2, by rw [runChars_none cc c ws σ σ1 toks h.ok hp]; exact hr, by simpa using h2⟩

theorem runC (cc : CharClass) : ∀ (ws : List Char) (σ : Lexer) (cs : List Char) (toks : List LexerToken),
    WsC σ cs → (∀ c ∈ ws, IsBlank c) → ∃ σ1, runChars cc ws σ toks = .ok (σ1, toks) ∧ WsC σ1 (cs ++ ws)
  | [], σ, cs, toks, h, _ => ⟨σ, rfl, by simpa using h⟩
  | c :: ws, σ, cs, toks, h, hb => by
    obtain ⟨σ1, hp, h1⟩ := wsC_blank cc σ cs c h (hb c (by simp))
    obtain ⟨σ2, hr, h2⟩ := runC cc ws σ1 (cs ++ [c]) toks h1 (fun x hx => hb x (by simp [hx]))
    exact ⟨σ2, by rw [runChars_none cc c ws σ σ1 toks h.ok hp]; exact hr, by simpa using h2⟩

/-- from directly after the first newline: `ws'` then the second newline give one Subexpression token -/
theorem runB_blank_line (cc : CharClass) (ws' : List Char) (σ : Lexer) (cs : List Char) (toks : List LexerToken)
    (h : WsB σ cs) (hb : ∀ c ∈ ws', IsBlank c) :
    ∃ σ1 t, runChars cc (ws' ++ ['\n']) σ toks = .ok (σ1, toks ++ [t]) ∧ t.tokenType = .subexpression ∧
      t.text = cs ++ ws' ++ ['\n'] := by
  cases ws' with
  | nil =>
    obtain ⟨σ1, t, hp, hty, htx, hok1⟩ := wsB_newline cc σ cs h
    refine ⟨σ1, t, ?_, hty, by simpa using htx⟩
    rw [List.nil_append, runChars_some cc '\n' [] σ σ1 toks t h.ok hp hok1]; rfl
  | cons c r =>
    obtain ⟨σ1, hp, h1⟩ := wsB_blank cc σ cs c h (hb c (by simp))
    obtain ⟨σ2, hr, h2⟩ := runC cc r σ1 (cs ++ [c]) toks h1 (fun x hx => hb x (by simp [hx]))
    obtain ⟨σ3, t, hp3, hty, htx, hok3⟩ := wsC_newline cc σ2 _ h2
    refine ⟨σ3, t, ?_, hty, by simpa using htx⟩
    rw [List.cons_append, runChars_none cc c _ σ σ1 toks h.ok hp, runChars_append cc r ['\n'] σ1 σ2 toks toks hr,
      runChars_some cc '\n' [] σ2 σ3 toks t h2.ok hp3 hok3]
    rfl

/-- a string after which whitespace starts a fresh whitespace token: running the lexer over `a` followed by a
space/tab (resp. a newline) emits tokens spelling `a` and leaves the lexer at the start of a whitespace run -/
structure Boundary (cc : CharClass) (σ0 : Lexer) (a : List Char) : Prop where
  blank : ∀ c, IsBlank c → ∃ σ toks, runChars cc (a ++ [c]) σ0 [] = .ok (σ, toks) ∧ WsA σ [c] ∧ textsOf toks = a
  newline : ∃ σ toks, runChars cc (a ++ ['\n']) σ0 [] = .ok (σ, toks) ∧ WsB σ ['\n'] ∧ textsOf toks = a

/-- the whole whitespace run with a blank line becomes one Subexpression token -/
theorem run_blank_line (cc : CharClass) (σ0 : Lexer) (a ws ws' : List Char) (hbd : Boundary cc σ0 a)
    (hws : ∀ c ∈ ws, IsBlank c) (hws' : ∀ c ∈ ws', IsBlank c) :
    ∃ σ1 toks t, runChars cc (a ++ ws ++ ['\n'] ++ ws' ++ ['\n']) σ0 [] = .ok (σ1, toks ++ [t]) ∧
      textsOf toks = a ∧ t.tokenType = .subexpression ∧ t.text = ws ++ ['\n'] ++ ws' ++ ['\n'] := by
  cases ws with
  | nil =>
    obtain ⟨σ, toks, hr, hB, htx⟩ := hbd.newline
    obtain ⟨σ1, t, hr1, hty, htxt⟩ := runB_blank_line cc ws' σ ['\n'] toks hB hws'
    refine ⟨σ1, toks, t, ?_, htx, hty, by simpa using htxt⟩
    have := runChars_append cc (a ++ ['\n']) (ws' ++ ['\n']) σ0 σ [] toks hr
    simpa [List.append_assoc] using this.trans hr1
  | cons c r =>
    obtain ⟨σ, toks, hr, hA, htx⟩ := hbd.blank c (hws c (by simp))
    obtain ⟨σ2, hr2, hA2⟩ := runA cc r σ [c] toks hA (fun x hx => hws x (by simp [hx]))
    obtain ⟨σ3, hp3, hB3⟩ := wsA_newline cc σ2 _ hA2
    obtain ⟨σ4, t, hr4, hty, htxt⟩ := runB_blank_line cc ws' σ3 _ toks hB3 hws'
    refine ⟨σ4, toks, t, ?_, htx, hty, by simpa using htxt⟩
    have e1 := runChars_append cc (a ++ [c]) (r ++ ['\n'] ++ ws' ++ ['\n']) σ0 σ [] toks hr
    have e2 := runChars_append cc r (['\n'] ++ ws' ++ ['\n']) σ σ2 toks toks hr2
    have e3 : runChars cc (['\n'] ++ ws' ++ ['\n']) σ2 toks = runChars cc (ws' ++ ['\n']) σ3 toks := by
      simpa using runChars_none cc '\n' (ws' ++ ['\n']) σ2 σ3 toks hA2.ok hp3
    have : a ++ c :: r ++ ['\n'] ++ ws' ++ ['\n'] = (a ++ [c]) ++ (r ++ ['\n'] ++ ws' ++ ['\n']) := by simp
    rw [this, e1]
    have : r ++ ['\n'] ++ ws' ++ ['\n'] = r ++ (['\n'] ++ ws' ++ ['\n']) := by simp
    rw [this, e2, e3, hr4]

/-- `lex`'s loop only appends tokens -/
theorem lexEnd_prefix (cc : CharClass) : ∀ (fuel : Nat) (σ σ' : Lexer) (toks toks' : List LexerToken),
    lexEnd cc fuel σ toks = .ok (toks', σ') → ∃ post, toks' = toks ++ post
  | 0, _, _, _, _, h => by simp [lexEnd] at h
  | fuel + 1, σ, σ', toks, toks', h => by
    simp only [lexEnd] at h
    split at h
    · exact ⟨[], by simpa using (lexFinish_ok h).1⟩
    · cases hp : processChar cc { σ with atEnd := true } '\x00' with
      | ok r =>
        obtain ⟨σ1, ot⟩ := r
        rw [hp] at h
        cases ot with
        | none => exact ⟨[], by simpa using (lexFinish_ok h).1⟩
        | some t =>
          simp only [] at h
          cases hr : σ1.result with
          | err => rw [hr] at h; cases h
          | ok =>
            rw [hr] at h
            obtain ⟨post, hpost⟩ := lexEnd_prefix cc fuel σ1 σ' _ toks' h
            exact ⟨t :: post, by simpa using hpost⟩
      | err e => rw [hp] at h; cases h
      | panic m => rw [hp] at h; cases h
      | fuelOut => rw [hp] at h; cases h

theorem lexLoop_prefix (cc : CharClass) : ∀ (input : List Char) (σ σ' : Lexer) (toks toks' : List LexerToken),
    lexLoop cc input σ toks = .ok (toks', σ') → ∃ post, toks' = toks ++ post
  | [], σ, σ', toks, toks', h => lexEnd_prefix cc endFuel σ σ' toks toks' (by simpa [lexLoop] using h)
  | c :: rest, σ, σ', toks, toks', h => by
    simp only [lexLoop] at h
    split at h
    · exact ⟨[], by simpa using (lexFinish_ok h).1⟩
    · cases hp : processChar cc σ c with
      | ok r =>
        obtain ⟨σ1, ot⟩ := r
        rw [hp] at h
        cases ot with
        | none => exact lexLoop_prefix cc rest σ1 σ' toks toks' h
        | some t =>
          simp only [] at h
          cases hr : σ1.result with
          | err => rw [hr] at h; cases h
          | ok =>
            rw [hr] at h
            obtain ⟨post, hpost⟩ := lexLoop_prefix cc rest σ1 σ' _ toks' h
            exact ⟨t :: post, by simpa using hpost⟩
      | err e => rw [hp] at h; cases h
      | panic m => rw [hp] at h; cases h
      | fuelOut => rw [hp] at h; cases h

/-- the operator tree of `Lexer::new` -/
def theTree : LexerOperatorNode :=
  match createOperatorTree Garnish.Gen.LexTables.operatorChars with
  | .ok t => t
  | _ => .mk '\x00' none []

theorem new_eq : Lexer.new = .ok (Lexer.init theTree) := by
  have h := operatorTree_nulFree
  unfold Lexer.new theTree
  cases hc : createOperatorTree Garnish.Gen.LexTables.operatorChars with
  | ok t => rfl
  | err e => rw [hc] at h; cases h
  | panic m => rw [hc] at h; cases h
  | fuelOut => rw [hc] at h; cases h

/-- blank-line theorem in terms of `lex` -/
theorem lex_blank_line (cc : CharClass) (a ws ws' b : List Char)
    (hbd : Boundary cc (Lexer.init theTree) a)
    (hws : ∀ c ∈ ws, IsBlank c) (hws' : ∀ c ∈ ws', IsBlank c) (toks : List LexerToken)
    (h : lex cc (a ++ ws ++ ['\n'] ++ ws' ++ ['\n'] ++ b) = .ok toks) :
    ∃ pre t post, toks = pre ++ [t] ++ post ∧ textsOf pre = a ∧ t.tokenType = .subexpression ∧
      t.text = ws ++ ['\n'] ++ ws' ++ ['\n'] := by
  unfold lex lexFull at h
  rw [new_eq] at h
  simp only [] at h
  obtain ⟨σ1, pre, t, hrun, hpre, hty, htx⟩ := run_blank_line cc (Lexer.init theTree) a ws ws' hbd hws hws'
  rw [lexLoop_append cc _ b (Lexer.init theTree) σ1 [] (pre ++ [t]) hrun] at h
  cases hl : lexLoop cc b σ1 (pre ++ [t]) with
  | ok r =>
    obtain ⟨toks', σ'⟩ := r
    rw [hl] at h
    simp only [Outcome.ok.injEq] at h
    subst h
    obtain ⟨post, hpost⟩ := lexLoop_prefix cc b σ1 σ' _ _ hl
    exact ⟨pre, t, post, hpost, hpre, hty, htx⟩
  | err e => rw [hl] at h; cases h
  | panic m => rw [hl] at h; cases h
  | fuelOut => rw [hl] at h; cases h

/-! ### the family of identifier-like strings satisfies `Boundary` -/

/-- a letter: alphanumeric, not numeric, not whitespace, not `_`/`:`, not the first character of an operator -/
structure Letter (cc : CharClass) (ch : Char) : Prop where
  alnum : cc.isAlphanumeric ch = true
  notNumeric : cc.isNumeric ch = false
  notWs : isAsciiWhitespace ch = false
  notUnderscore : ch ≠ '_'
  notColon : ch ≠ ':'
  notOperator : walkOperator theTree [ch] = none

/-- spaces, tabs and newlines are not alphanumeric -/
structure CharClass.SaneWs (cc : CharClass) : Prop where
  space : cc.isAlphanumeric ' ' = false
  tab : cc.isAlphanumeric '\t' = false
  newline : cc.isAlphanumeric '\n' = false

/-- an identifier under construction -/
structure InIdent (σ : Lexer) (cs : List Char) : Prop where
  state : σ.state = .identifier
  chars : σ.currentCharacters = cs
  type : σ.currentTokenType = some .identifier
  create : σ.shouldCreate = true
  ok : σ.result = .ok
  tree : σ.operatorTree = theTree

theorem treeWs : (walkOperator theTree [' ']).isNone = true ∧ (walkOperator theTree ['\t']).isNone = true ∧
    (walkOperator theTree ['\n']).isNone = true := by decide

theorem letter_not_blank {cc : CharClass} {ch : Char} (h : Letter cc ch) :
    ch ≠ ' ' ∧ ch ≠ '\t' ∧ ch ≠ '\r' := by
  have := h.notWs
  refine ⟨?_, ?_, ?_⟩ <;> (rintro rfl; simp [isAsciiWhitespace] at this)

theorem startToken_letter (cc : CharClass) (σ : Lexer) (c : Char) (hl : Letter cc c)
    (htr : σ.operatorTree = theTree) :
    startToken cc σ c = { σ with currentCharacters := [c], currentTokenType := some .identifier, tokenStartRow := σ.textRow, tokenStartColumn := σ.textColumn, state := .identifier } := by
  have hnb := letter_not_blank hl
  unfold startToken
  simp [currentOperator, push, htr, hl.notOperator, hnb.1, hnb.2.1, hnb.2.2, hl.notWs, hl.notNumeric,
    isIdentifierChar, hl.alnum]

theorem walk_none_of_isNone {t : LexerOperatorNode} {cs : List Char} (h : (walkOperator t cs).isNone = true) :
    walkOperator t cs = none := by
  cases hw : walkOperator t cs with
  | none => rfl
  | some n => rw [hw] at h; cases h

theorem startToken_blank (cc : CharClass) (σ : Lexer) (c : Char) (hb : IsBlank c)
    (htr : σ.operatorTree = theTree) :
    startToken cc σ c = { σ with currentCharacters := [c], currentTokenType := some .whitespace, tokenStartRow := σ.textRow, tokenStartColumn := σ.textColumn, state := .spaces } := by
  have h1 := walk_none_of_isNone treeWs.1
  have h2 := walk_none_of_isNone treeWs.2.1
  unfold startToken
  rcases hb with rfl | rfl <;> simp [currentOperator, push, htr, h1, h2]

theorem startToken_newline (cc : CharClass) (σ : Lexer) (htr : σ.operatorTree = theTree) :
    startToken cc σ '\n' = { σ with currentCharacters := ['\n'], currentTokenType := some .subexpression, tokenStartRow := σ.textRow, tokenStartColumn := σ.textColumn, state := .subexpression } := by
  have h3 := walk_none_of_isNone treeWs.2.2
  unfold startToken
  simp [currentOperator, push, htr, h3, isAsciiWhitespace]

theorem ident_start (cc : CharClass) (σ : Lexer) (c : Char) (hl : Letter cc c) (hs : σ.state = .noToken)
    (hcr : σ.shouldCreate = true) (hok : σ.result = .ok) (htr : σ.operatorTree = theTree) :
    ∃ σ1, processChar cc σ c = .ok (σ1, none) ∧ InIdent σ1 [c] := by
  simp only [processChar, stateStep, hs, Step.ofPair, armNoToken, finishChar]
  refine ⟨_, rfl, ?_⟩
  rw [startToken_letter cc _ c hl (by simpa using htr)]
  constructor <;> simp [bumpColumn, hcr, hok, htr] <;> (split <;> simp [hcr, hok, htr])

theorem ident_push (cc : CharClass) (σ : Lexer) (cs : List Char) (c : Char) (hl : Letter cc c)
    (h : InIdent σ cs) : ∃ σ1, processChar cc σ c = .ok (σ1, none) ∧ InIdent σ1 (cs ++ [c]) := by
  obtain ⟨h1, h2, h3, h4, h5, h6⟩ := h
  have hid : isIdentifierChar cc c = true := by simp [isIdentifierChar, hl.alnum]
  simp only [processChar, stateStep, h1, Step.ofPair, armIdentifier, hid, ↓reduceIte, finishChar]
  refine ⟨_, rfl, ?_⟩
  constructor <;> simp [bumpColumn, push, h1, h2, h3, h4, h5, h6] <;> (split <;> simp [h1, h2, h3, h4, h5, h6, push])

theorem ident_end_blank (cc : CharClass) (hws : cc.SaneWs) (σ : Lexer) (x : Char) (r : List Char) (c : Char)
    (hx : Letter cc x) (hb : IsBlank c) (h : InIdent σ (x :: r)) :
    ∃ σ1 t, processChar cc σ c = .ok (σ1, some t) ∧ t.text = x :: r ∧ WsA σ1 [c] := by
  obtain ⟨h1, h2, h3, h4, h5, h6⟩ := h
  have hid : isIdentifierChar cc c = false := by
    rcases hb with rfl | rfl <;> simp [isIdentifierChar, hws.space, hws.tab]
  have hbt : (c == '`') = false := by rcases hb with rfl | rfl <;> decide
  have hcol : startsWith (x :: r) ':' = false := by simp [startsWith, hx.notColon]
  have hv1 : (x :: r == ['_']) = false := by
    simp only [beq_eq_false_iff_ne, ne_eq, List.cons.injEq, not_and]
    intro hh; exact absurd hh hx.notUnderscore
  have hv2 : (x :: r == [':']) = false := by
    simp only [beq_eq_false_iff_ne, ne_eq, List.cons.injEq, not_and]
    intro hh; exact absurd hh hx.notColon
  simp only [processChar, stateStep, h1, Step.ofPair, armIdentifier, hid, hbt, Bool.false_eq_true, ↓reduceIte,
    h2, hcol, Bool.false_and, finishChar, pushNewToken, canCreateValidToken, h3, hv1, hv2, Bool.or_self, h4]
  simp only [h1, bne_iff_ne, ne_eq, reduceCtorEq, not_false_eq_true, ↓reduceIte, LexResult.isOk]
  rw [startToken_blank cc _ c hb (by simpa using h6)]
  refine ⟨_, _, rfl, rfl, ?_⟩
  constructor <;> simp [bumpColumn, h5] <;> (split <;> simp [h5])

theorem ident_end_newline (cc : CharClass) (hws : cc.SaneWs) (σ : Lexer) (x : Char) (r : List Char)
    (hx : Letter cc x) (h : InIdent σ (x :: r)) :
    ∃ σ1 t, processChar cc σ '\n' = .ok (σ1, some t) ∧ t.text = x :: r ∧ WsB σ1 ['\n'] := by
  obtain ⟨h1, h2, h3, h4, h5, h6⟩ := h
  have hid : isIdentifierChar cc '\n' = false := by simp [isIdentifierChar, hws.newline]
  have hbt : (('\n' : Char) == '`') = false := by decide
  have hcol : startsWith (x :: r) ':' = false := by simp [startsWith, hx.notColon]
  have hv1 : (x :: r == ['_']) = false := by
    simp only [beq_eq_false_iff_ne, ne_eq, List.cons.injEq, not_and]
    intro hh; exact absurd hh hx.notUnderscore
  have hv2 : (x :: r == [':']) = false := by
    simp only [beq_eq_false_iff_ne, ne_eq, List.cons.injEq, not_and]
    intro hh; exact absurd hh hx.notColon
  simp only [processChar, stateStep, h1, Step.ofPair, armIdentifier, hid, hbt, Bool.false_eq_true, ↓reduceIte,
    h2, hcol, Bool.false_and, finishChar, pushNewToken, canCreateValidToken, h3, hv1, hv2, Bool.or_self, h4]
  simp only [h1, bne_iff_ne, ne_eq, reduceCtorEq, not_false_eq_true, ↓reduceIte, LexResult.isOk]
  rw [startToken_newline cc _ (by simpa using h6)]
  refine ⟨_, _, rfl, rfl, ?_⟩
  constructor <;> simp [bumpColumn, h5]

theorem run_ident (cc : CharClass) : ∀ (r : List Char) (σ : Lexer) (cs : List Char) (toks : List LexerToken),
    InIdent σ cs → (∀ ch ∈ r, Letter cc ch) → ∃ σ1, runChars cc r σ toks = .ok (σ1, toks) ∧ InIdent σ1 (cs ++ r)
  | [], σ, cs, toks, h, _ => ⟨σ, rfl, by simpa using h⟩
  | c :: r, σ, cs, toks, h, hl => by
    obtain ⟨σ1, hp, h1⟩ := ident_push cc σ cs c (hl c (by simp)) h
    obtain ⟨σ2, hr, h2⟩ := run_ident cc r σ1 (cs ++ [c]) toks h1 (fun x hx => hl x (by simp [hx]))
    exact ⟨σ2, by rw [runChars_none cc c r σ σ1 toks h.ok hp]; exact hr, by simpa using h2⟩

/-- identifier-like strings (non-empty lists of letters) are token-boundary-safe -/
theorem boundary_letters (cc : CharClass) (hws : cc.SaneWs) (x : Char) (r : List Char)
    (hl : ∀ ch ∈ x :: r, Letter cc ch) : Boundary cc (Lexer.init theTree) (x :: r) := by
  have hx := hl x (by simp)
  obtain ⟨σ1, hp1, hi1⟩ := ident_start cc (Lexer.init theTree) x hx rfl rfl rfl rfl
  obtain ⟨σ2, hr2, hi2⟩ := run_ident cc r σ1 [x] [] hi1 (fun ch hch => hl ch (by simp [hch]))
  have hrun : runChars cc (x :: r) (Lexer.init theTree) [] = .ok (σ2, []) := by
    rw [runChars_none cc x r _ σ1 [] rfl hp1]; exact hr2
  constructor
  · intro c hb
    obtain ⟨σ3, t, hp3, htx, hA⟩ := ident_end_blank cc hws σ2 x r c hx hb (by simpa using hi2)
    refine ⟨σ3, [t], ?_, hA, by simp [textsOf, htx]⟩
    rw [runChars_append cc (x :: r) [c] _ σ2 [] [] hrun, runChars_some cc c [] σ2 σ3 [] t hi2.ok hp3 hA.ok]
    rfl
  · obtain ⟨σ3, t, hp3, htx, hB⟩ := ident_end_newline cc hws σ2 x r hx (by simpa using hi2)
    refine ⟨σ3, [t], ?_, hB, by simp [textsOf, htx]⟩
    rw [runChars_append cc (x :: r) ['\n'] _ σ2 [] [] hrun, runChars_some cc '\n' [] σ2 σ3 [] t hi2.ok hp3 hB.ok]
    rfl

/-! ## characters that cannot start a token -/

/-- `c` can start a token: the disjunction of the branches of `start_token` (other than the end-of-input one) -/
def CanStart (cc : CharClass) (tree : LexerOperatorNode) (c : Char) : Prop :=
  (walkOperator tree [c]).isSome = true ∨ c = ' ' ∨ c = '\t' ∨ c = '\r' ∨ isAsciiWhitespace c = true ∨
  cc.isNumeric c = true ∨ isIdentifierChar cc c = true ∨ c = '`' ∨ c = '@' ∨ c = '"' ∨ c = '\''

theorem startToken_rejects (cc : CharClass) (σ : Lexer) (c : Char) (h : ¬CanStart cc σ.operatorTree c)
    (hns : ¬Sentinel σ c) : (startToken cc σ c).result = .err := by
  unfold CanStart at h
  simp only [not_or] at h
  obtain ⟨h1, h2, h3, h4, h5, h6, h7, h8, h9, h10, h11⟩ := h
  have hw : walkOperator σ.operatorTree [c] = none := by
    cases hw : walkOperator σ.operatorTree [c] with
    | none => rfl
    | some n => rw [hw] at h1; simp at h1
  have hsent : ¬(c = '\x00' ∧ σ.atEnd = true) := hns
  generalize hr : startToken cc σ c = r
  unfold startToken at hr
  simp [currentOperator, push, hw, h2, h3, h4, h5, h6, h7, h8, h9, h10, h11] at hr
  split at hr
  · rename_i hc; exact absurd hc hsent
  · subst hr; rfl

theorem runChars_frame (cc : CharClass) : ∀ (x : List Char) (σ σ1 : Lexer) (toks toks1 : List LexerToken),
    runChars cc x σ toks = .ok (σ1, toks1) → σ1.operatorTree = σ.operatorTree ∧ σ1.atEnd = σ.atEnd
  | [], σ, σ1, toks, toks1, h => by
    simp only [runChars, Outcome.ok.injEq, Prod.mk.injEq] at h
    obtain ⟨rfl, _⟩ := h; exact ⟨rfl, rfl⟩
  | c :: x, σ, σ1, toks, toks1, h => by
    simp only [runChars] at h
    split at h
    · cases h
    · cases hp : processChar cc σ c with
      | ok r =>
        obtain ⟨σ2, ot⟩ := r
        have hf := processChar_frame cc _ _ _ _ hp
        rw [hp] at h
        cases ot with
        | none =>
          have := runChars_frame cc x σ2 σ1 toks toks1 h
          exact ⟨this.1.trans hf.1, this.2.trans hf.2.1⟩
        | some t =>
          simp only [] at h
          cases hr : σ2.result with
          | err => rw [hr] at h; cases h
          | ok =>
            rw [hr] at h
            have := runChars_frame cc x σ2 σ1 _ toks1 h
            exact ⟨this.1.trans hf.1, this.2.trans hf.2.1⟩
      | err e => rw [hp] at h; cases h
      | panic m => rw [hp] at h; cases h
      | fuelOut => rw [hp] at h; cases h

theorem processChar_noToken (cc : CharClass) (σ : Lexer) (c : Char) (hs : σ.state = .noToken) :
    processChar cc σ c =
      .ok (bumpColumn (startToken cc { σ with charactersLexed := σ.charactersLexed + 1 } c) c, none) := by
  unfold processChar
  simp only []
  have hss : stateStep cc { σ with charactersLexed := σ.charactersLexed + 1 } c =
      Step.ofPair (armNoToken cc { σ with charactersLexed := σ.charactersLexed + 1 } c) := by
    unfold stateStep
    have hs' : ({ σ with charactersLexed := σ.charactersLexed + 1 } : Lexer).state = .noToken := hs
    rw [hs']
  rw [hss]
  simp only [Step.ofPair, armNoToken, finishChar, Bool.false_eq_true, ↓reduceIte]

theorem lexLoop_rejects (cc : CharClass) (post : List Char) (c : Char) (σ : Lexer) (toks : List LexerToken)
    (hs : σ.state = .noToken) (hat : σ.atEnd = false) (hc : ¬CanStart cc σ.operatorTree c) :
    lexLoop cc (c :: post) σ toks = .err .syntax := by
  simp only [lexLoop]
  by_cases hE : σ.result.isErr = true
  · have : σ.result = .err := by cases hr : σ.result <;> simp [hr, LexResult.isErr] at hE ⊢
    rw [if_pos hE]
    simp [lexFinish, this]
  · have hns : ¬Sentinel { σ with charactersLexed := σ.charactersLexed + 1 } c := by
      intro hsn; have := hsn.2; simp [hat] at this
    have hrej := startToken_rejects cc { σ with charactersLexed := σ.charactersLexed + 1 } c hc hns
    rw [if_neg hE, processChar_noToken cc σ c hs]
    simp only []
    rw [lexLoop_err cc post _ toks (by simpa using hrej)]

/-- a character that cannot start a token, met between tokens, makes `lex` fail -/
theorem lex_rejects (cc : CharClass) (pre post : List Char) (c : Char) (σ : Lexer) (toks : List LexerToken)
    (hrun : runChars cc pre (Lexer.init theTree) [] = .ok (σ, toks)) (hs : σ.state = .noToken)
    (hc : ¬CanStart cc theTree c) : lex cc (pre ++ c :: post) = .err .syntax := by
  have hfr := runChars_frame cc pre _ σ [] toks hrun
  have h1 : σ.operatorTree = theTree := hfr.1
  have h2 : σ.atEnd = false := hfr.2
  unfold lex lexFull
  rw [new_eq]
  simp only []
  rw [lexLoop_append cc pre (c :: post) _ σ [] toks hrun,
    lexLoop_rejects cc post c σ toks hs h2 (by rw [h1]; exact hc)]

/-! ## operators: what is proved towards longest match -/

/-- every spelling of the regenerated table is recognised by the operator tree with its token type -/
def tableRecognised : Bool :=
  Garnish.Gen.LexTables.operatorChars.all fun p =>
    match walkOperator theTree p.1 with
    | some n => n.tokenType == some p.2
    | none => false

theorem tableRecognised_true : tableRecognised = true := by decide

/-- an operator token ends only when the next character continues no spelling (and no prefix of one):
the Operator arm returns `start_new = true` only if the operator tree has no path for the characters so far
followed by `c` -/
theorem armOperator_maximal (cc : CharClass) (σ : Lexer) (c : Char) (h : (armOperator cc σ c).2 = true) :
    walkOperator σ.operatorTree (σ.currentCharacters ++ [c]) = none := by
  unfold armOperator at h
  simp only [] at h
  split at h
  · simp at h
  · rename_i hnone
    simpa [currentOperator, push] using hnone

/-- while an operator is being extended its token type is the one stored in the tree for the characters so far -/
theorem armOperator_type (cc : CharClass) (σ : Lexer) (c : Char) (node : LexerOperatorNode)
    (h : walkOperator σ.operatorTree (σ.currentCharacters ++ [c]) = some node) :
    (armOperator cc σ c).1.currentTokenType = node.tokenType ∧ (armOperator cc σ c).2 = false ∧
    (armOperator cc σ c).1.currentCharacters = σ.currentCharacters ++ [c] := by
  unfold armOperator
  simp [currentOperator, push, h]

/-! ## the operator tree against the regenerated table -/

/-- all nodes of the tree down to depth `fuel`, with the path leading to them -/
def pathsFuel : Nat → LexerOperatorNode → List Char → List (List Char × LexerOperatorNode)
  | 0, n, p => [(p, n)]
  | f + 1, n, p => (p, n) :: n.children.flatMap (fun kc => pathsFuel f kc.2 (p ++ [kc.1]))

theorem mapGet_mem {β : Type} : ∀ (m : List (Char × β)) (k : Char) (v : β), mapGet m k = some v → (k, v) ∈ m
  | [], _, _, h => by simp [mapGet] at h
  | (k0, v0) :: r, k, v, h => by
    simp only [mapGet] at h
    split at h
    · rename_i hk
      have : k0 = k := by simpa using hk
      subst this
      simp only [Option.some.injEq] at h
      subst h; simp
    · exact List.mem_cons_of_mem _ (mapGet_mem r k v h)

theorem pathsFuel_self (f : Nat) (n : LexerOperatorNode) (p : List Char) : (p, n) ∈ pathsFuel f n p := by
  cases f <;> simp [pathsFuel]

theorem walk_mem_paths : ∀ (cs : List Char) (f : Nat) (t n : LexerOperatorNode) (p : List Char),
    walkOperator t cs = some n → cs.length ≤ f → (p ++ cs, n) ∈ pathsFuel f t p
  | [], f, t, n, p, h, _ => by
    simp only [walkOperator, Option.some.injEq] at h
    subst h; simpa using pathsFuel_self f t p
  | c :: r, 0, t, n, p, h, hl => by simp at hl
  | c :: r, f + 1, t, n, p, h, hl => by
    simp only [walkOperator] at h
    cases hg : t.getChild c with
    | none => rw [hg] at h; cases h
    | some ch =>
      rw [hg] at h
      have hmem := mapGet_mem _ _ _ hg
      have := walk_mem_paths r f ch n (p ++ [c]) h (by simpa using hl)
      simp only [pathsFuel, List.mem_cons, List.mem_flatMap]
      right
      exact ⟨(c, ch), hmem, by simpa [List.append_assoc] using this⟩

theorem walk_append : ∀ (a b : List Char) (t n : LexerOperatorNode), walkOperator t (a ++ b) = some n →
    ∃ m, walkOperator t a = some m ∧ walkOperator m b = some n
  | [], b, t, n, h => ⟨t, rfl, h⟩
  | c :: a, b, t, n, h => by
    simp only [List.cons_append, walkOperator] at h ⊢
    cases hg : t.getChild c with
    | none => rw [hg] at h; cases h
    | some ch => rw [hg] at h; exact walk_append a b ch n h

/-- the tree is at most 4 deep -/
def depthCheck : Bool :=
  (pathsFuel 4 theTree []).all fun pn => pn.1.length < 4 || pn.2.children.isEmpty

theorem depthCheck_true : depthCheck = true := by decide +kernel

theorem walk_length_le (cs : List Char) (n : LexerOperatorNode) (h : walkOperator theTree cs = some n) :
    cs.length ≤ 4 := by
  by_cases hl : cs.length ≤ 4
  · exact hl
  · exfalso
    have hsplit : cs = cs.take 4 ++ cs.drop 4 := (List.take_append_drop 4 cs).symm
    rw [hsplit] at h
    obtain ⟨m, hm, hn⟩ := walk_append _ _ _ _ h
    have hlen : (cs.take 4).length = 4 := by simp; omega
    have hmem := walk_mem_paths (cs.take 4) 4 theTree m [] hm (by omega)
    have hd := depthCheck_true
    unfold depthCheck at hd
    rw [List.all_eq_true] at hd
    have := hd _ hmem
    simp only [List.nil_append, hlen, Nat.lt_irrefl, decide_false, Bool.false_or] at this
    cases hdrop : cs.drop 4 with
    | nil => have : (cs.drop 4).length = 0 := by rw [hdrop]; rfl
             simp at this; omega
    | cons x r =>
      rw [hdrop] at hn
      simp only [walkOperator, LexerOperatorNode.getChild] at hn
      have hch : m.children = [] := by simpa [List.isEmpty_iff] using this
      rw [hch] at hn
      simp [mapGet] at hn

/-- every typed node of the tree is an entry of the regenerated table -/
def typedNodesInTable : Bool :=
  (pathsFuel 4 theTree []).all fun pn =>
    match pn.2.tokenType with
    | none => true
    | some ty => Garnish.Gen.LexTables.operatorChars.contains (pn.1, ty)

theorem typedNodesInTable_true : typedNodesInTable = true := by decide +kernel

/-- soundness of the tree: what it recognises with a type is a spelling of the table with that type -/
theorem tree_sound (cs : List Char) (n : LexerOperatorNode) (ty : Gen.TokenType)
    (h : walkOperator theTree cs = some n) (hty : n.tokenType = some ty) :
    (cs, ty) ∈ Garnish.Gen.LexTables.operatorChars := by
  have hmem := walk_mem_paths cs 4 theTree n [] h (walk_length_le cs n h)
  have hc := typedNodesInTable_true
  unfold typedNodesInTable at hc
  rw [List.all_eq_true] at hc
  have := hc _ hmem
  simp only [List.nil_append, hty] at this
  simpa using this

/-- every prefix of a spelling of the table is a path of the tree -/
theorem table_prefix_path (sp : List Char) (ty : Gen.TokenType) (a b : List Char)
    (h : (sp, ty) ∈ Garnish.Gen.LexTables.operatorChars) (hab : sp = a ++ b) :
    ∃ m, walkOperator theTree a = some m := by
  have hr := tableRecognised_true
  unfold tableRecognised at hr
  rw [List.all_eq_true] at hr
  have := hr _ h
  cases hw : walkOperator theTree sp with
  | none => rw [hw] at this; cases this
  | some n =>
    rw [hab] at hw
    obtain ⟨m, hm, _⟩ := walk_append a b theTree n hw
    exact ⟨m, hm⟩

/-! ## second invariant: state, pending token type and allowed characters -/

/-- token types of the operator table -/
def isOpType (ty : Gen.TokenType) : Bool := Garnish.Gen.LexTables.operatorChars.any (fun p => p.2 == ty)

@[simp] theorem isOpType_whitespace : isOpType .whitespace = false := by decide
@[simp] theorem isOpType_subexpression : isOpType .subexpression = false := by decide
@[simp] theorem isOpType_number : isOpType .number = false := by decide
@[simp] theorem isOpType_identifier : isOpType .identifier = false := by decide
@[simp] theorem isOpType_symbol : isOpType .symbol = false := by decide
@[simp] theorem isOpType_suffixIdentifier : isOpType .suffixIdentifier = false := by decide
@[simp] theorem isOpType_prefixIdentifier : isOpType .prefixIdentifier = false := by decide
@[simp] theorem isOpType_infixIdentifier : isOpType .infixIdentifier = false := by decide
@[simp] theorem isOpType_annotation : isOpType .annotation = false := by decide
@[simp] theorem isOpType_lineAnnotation : isOpType .lineAnnotation = false := by decide
@[simp] theorem isOpType_charList : isOpType .charList = false := by decide
@[simp] theorem isOpType_byteList : isOpType .byteList = false := by decide

/-- literal / comment token types: their text may contain anything -/
def isLitType (ty : Gen.TokenType) : Bool := ty == .charList || ty == .byteList || ty == .lineAnnotation

def isLitState (s : LexingState) : Bool :=
  s == .charList || s == .startCharList || s == .byteList || s == .startByteList || s == .lineAnnotation

/-- `c` occurs in some path of the operator tree (a spelling of the table or a prefix of one) -/
def InOperatorPath (c : Char) : Prop := ∃ cs, c ∈ cs ∧ (walkOperator theTree cs).isSome = true

/-- `c` can start or continue some token: alphanumeric, numeric, ASCII whitespace, one of ``_ : . ` @ " '``,
or a character of an operator spelling -/
def CanStartOrContinue (cc : CharClass) (c : Char) : Prop :=
  cc.isAlphanumeric c = true ∨ cc.isNumeric c = true ∨ isAsciiWhitespace c = true ∨
  c = '_' ∨ c = ':' ∨ c = '.' ∨ c = '`' ∨ c = '@' ∨ c = '"' ∨ c = '\'' ∨ InOperatorPath c

theorem ok_alnum {cc : CharClass} {c : Char} (h : cc.isAlphanumeric c = true) : CanStartOrContinue cc c := Or.inl h
theorem ok_num {cc : CharClass} {c : Char} (h : cc.isNumeric c = true) : CanStartOrContinue cc c := Or.inr (Or.inl h)
theorem ok_ws {cc : CharClass} {c : Char} (h : isAsciiWhitespace c = true) : CanStartOrContinue cc c :=
  Or.inr (Or.inr (Or.inl h))
theorem ok_under (cc : CharClass) : CanStartOrContinue cc '_' := by simp [CanStartOrContinue]
theorem ok_colon (cc : CharClass) : CanStartOrContinue cc ':' := by simp [CanStartOrContinue]
theorem ok_dot (cc : CharClass) : CanStartOrContinue cc '.' := by simp [CanStartOrContinue]
theorem ok_backtick (cc : CharClass) : CanStartOrContinue cc '`' := by simp [CanStartOrContinue]
theorem ok_at (cc : CharClass) : CanStartOrContinue cc '@' := by simp [CanStartOrContinue]
theorem ok_path {cc : CharClass} {c : Char} (h : InOperatorPath c) : CanStartOrContinue cc c := by
  simp [CanStartOrContinue, h]
theorem ok_nua {cc : CharClass} {c : Char} (h : (cc.isNumeric c || c == '_' || cc.isAlphanumeric c) = true) :
    CanStartOrContinue cc c := by
  simp only [Bool.or_eq_true, beq_iff_eq] at h
  rcases h with (h | h) | h
  · exact ok_num h
  · subst h; exact ok_under cc
  · exact ok_alnum h
theorem ok_identChar {cc : CharClass} {c : Char} (h : isIdentifierChar cc c = true) : CanStartOrContinue cc c := by
  simp only [isIdentifierChar, Bool.or_eq_true, beq_iff_eq] at h
  rcases h with (h | h) | h
  · exact ok_alnum h
  · subst h; exact ok_under cc
  · subst h; exact ok_colon cc
theorem ok_blank {cc : CharClass} {c : Char} (h : c = ' ' ∨ c = '\t') : CanStartOrContinue cc c := by
  rcases h with rfl | rfl <;> exact ok_ws (by decide)

theorem ok_snoc {cc : CharClass} {cs : List Char} {c : Char} (h : ∀ x ∈ cs, CanStartOrContinue cc x)
    (hc : CanStartOrContinue cc c) : ∀ x ∈ cs ++ [c], CanStartOrContinue cc x := by
  intro x hx
  simp only [List.mem_append, List.mem_singleton] at hx
  rcases hx with hx | rfl
  · exact h x hx
  · exact hc

theorem path_chars_ok {cc : CharClass} {cs : List Char} {n : LexerOperatorNode}
    (h : walkOperator theTree cs = some n) : ∀ x ∈ cs, CanStartOrContinue cc x :=
  fun x hx => ok_path ⟨cs, hx, by simp [h]⟩

/-- relation between the state, the pending token type and the pending characters -/
structure Typed (cc : CharClass) (σ : Lexer) : Prop where
  op : σ.state = .operator → ∃ node, walkOperator theTree σ.currentCharacters = some node ∧
        σ.currentTokenType = node.tokenType
  nonOp : σ.state ≠ .operator → σ.state ≠ .noToken → ∃ ty, σ.currentTokenType = some ty ∧ isOpType ty = false
  lit : isLitState σ.state = true → ∃ ty, σ.currentTokenType = some ty ∧ isLitType ty = true
  chars : isLitState σ.state = false → ∀ c ∈ σ.currentCharacters, CanStartOrContinue cc c

/-- what is known about an emitted token -/
structure TokOk (cc : CharClass) (text : List Char) (ty : Gen.TokenType) : Prop where
  op : isOpType ty = true → ∃ node, walkOperator theTree text = some node ∧ node.tokenType = some ty
  chars : isLitType ty = false → ∀ c ∈ text, CanStartOrContinue cc c

/-- an arm that ends the token (`start_new`): the token about to be emitted is fine, and an operator token is ended
by a character `c` that is not part of it and continues no path of the tree -/
def EmitOk (cc : CharClass) (σ1 : Lexer) (c : Char) : Prop :=
  ∀ ty, σ1.currentTokenType = some ty →
    TokOk cc σ1.currentCharacters ty ∧
    (isOpType ty = true → walkOperator theTree (σ1.currentCharacters ++ [c]) = none ∧ σ1.shouldCreate = true)

def ArmTyped (cc : CharClass) (c : Char) (p : Lexer × Bool) : Prop :=
  (p.2 = false → Typed cc p.1) ∧ (p.2 = true → EmitOk cc p.1 c)

theorem typed_nonOp_emit {cc : CharClass} {σ1 : Lexer} {c : Char} {ty0 : Gen.TokenType}
    (hty : σ1.currentTokenType = some ty0) (hno : isOpType ty0 = false)
    (hch : isLitType ty0 = false → ∀ x ∈ σ1.currentCharacters, CanStartOrContinue cc x) : EmitOk cc σ1 c := by
  intro ty h
  rw [hty] at h
  simp only [Option.some.injEq] at h
  subst h
  exact ⟨⟨fun h => (by rw [hno] at h; cases h), hch⟩, fun h => (by rw [hno] at h; cases h)⟩

theorem Typed.mkPlain {cc : CharClass} {σ1 : Lexer} (hs1 : σ1.state ≠ .operator) (hl : isLitState σ1.state = false)
    (ty : Gen.TokenType) (hty : σ1.currentTokenType = some ty) (hno : isOpType ty = false)
    (hch : ∀ x ∈ σ1.currentCharacters, CanStartOrContinue cc x) : Typed cc σ1 :=
  ⟨fun h => absurd h hs1, fun _ _ => ⟨ty, hty, hno⟩, fun h => (by rw [hl] at h; cases h), fun _ => hch⟩

theorem Typed.mkLit {cc : CharClass} {σ1 : Lexer} (hs1 : σ1.state ≠ .operator) (hl : isLitState σ1.state = true)
    (ty : Gen.TokenType) (hty : σ1.currentTokenType = some ty) (hno : isOpType ty = false)
    (hlt : isLitType ty = true) : Typed cc σ1 :=
  ⟨fun h => absurd h hs1, fun _ _ => ⟨ty, hty, hno⟩, fun _ => ⟨ty, hty, hlt⟩, fun h => (by rw [hl] at h; cases h)⟩

theorem Typed.mkOp {cc : CharClass} {σ1 : Lexer} (hs1 : σ1.state = .operator) (node : LexerOperatorNode)
    (hw : walkOperator theTree σ1.currentCharacters = some node) (hty : σ1.currentTokenType = node.tokenType) :
    Typed cc σ1 :=
  ⟨fun _ => ⟨node, hw, hty⟩, fun h => absurd hs1 h, fun h => (by rw [hs1] at h; simp [isLitState] at h),
   fun _ => path_chars_ok hw⟩

theorem Typed.noToken {cc : CharClass} {σ1 : Lexer} (hs1 : σ1.state = .noToken) (hch : σ1.currentCharacters = []) :
    Typed cc σ1 :=
  ⟨fun h => (by rw [hs1] at h; cases h), fun _ h => absurd hs1 h, fun h => (by rw [hs1] at h; simp [isLitState] at h),
   fun _ => (by rw [hch]; simp)⟩

theorem armNumber_typed (cc : CharClass) (σ : Lexer) (c : Char) (hs : σ.state = .number) (ht : Typed cc σ) :
    ArmTyped cc c (armNumber cc σ c) := by
  obtain ⟨ty, hty, hno⟩ := ht.nonOp (by rw [hs]; decide) (by rw [hs]; decide)
  have hch := ht.chars (by rw [hs]; rfl)
  unfold armNumber
  split
  · rename_i h
    exact ⟨fun _ => Typed.mkPlain (by simp [hs]) (by simp [hs, isLitState]) ty hty hno (ok_snoc hch (ok_nua h)),
      fun h => by simp at h⟩
  · split
    · rename_i h
      have : c = '.' := by simp at h; exact h.1
      subst this
      exact ⟨fun _ => Typed.mkPlain (by simp) (by simp [isLitState]) .number rfl (by simp) (ok_snoc hch (ok_dot cc)),
        fun h => by simp at h⟩
    · exact ⟨fun h => by simp at h, fun _ => typed_nonOp_emit hty hno (fun _ => hch)⟩

theorem armIdentifier_typed (cc : CharClass) (σ : Lexer) (c : Char) (hs : σ.state = .identifier) (ht : Typed cc σ) :
    ArmTyped cc c (armIdentifier cc σ c) := by
  obtain ⟨ty, hty, hno⟩ := ht.nonOp (by rw [hs]; decide) (by rw [hs]; decide)
  have hch := ht.chars (by rw [hs]; rfl)
  unfold armIdentifier
  split
  · rename_i h
    exact ⟨fun _ => Typed.mkPlain (by simp [hs]) (by simp [hs, isLitState]) ty hty hno (ok_snoc hch (ok_identChar h)),
      fun h => by simp at h⟩
  · split
    · rename_i h
      have : c = '`' := by simpa using h
      subst this
      refine ⟨fun h => by simp at h, fun _ => ?_⟩
      simp only []
      split
      · exact typed_nonOp_emit rfl (by simp) (fun _ => ok_snoc hch (ok_backtick cc))
      · exact typed_nonOp_emit rfl (by simp) (fun _ => ok_snoc hch (ok_backtick cc))
    · refine ⟨fun h => by simp at h, fun _ => ?_⟩
      simp only []
      split
      · exact typed_nonOp_emit rfl (by simp) (fun _ => hch)
      · exact typed_nonOp_emit hty hno (fun _ => hch)

theorem armAnnotation_typed (cc : CharClass) (σ : Lexer) (c : Char) (hs : σ.state = .annotation) (ht : Typed cc σ) :
    ArmTyped cc c (armAnnotation cc σ c) := by
  obtain ⟨ty, hty, hno⟩ := ht.nonOp (by rw [hs]; decide) (by rw [hs]; decide)
  have hch := ht.chars (by rw [hs]; rfl)
  unfold armAnnotation
  split
  · exact ⟨fun _ => Typed.mkLit (by simp) (by simp [isLitState]) .lineAnnotation rfl (by simp) (by simp [isLitType]),
      fun h => by simp at h⟩
  · split
    · rename_i h
      have hc : CanStartOrContinue cc c := by
        simp only [Bool.or_eq_true, beq_iff_eq] at h
        rcases h with h | h
        · exact ok_alnum h
        · subst h; exact ok_under cc
      exact ⟨fun _ => Typed.mkPlain (by simp [hs]) (by simp [hs, isLitState]) ty hty hno (ok_snoc hch hc),
        fun h => by simp at h⟩
    · exact ⟨fun h => by simp at h, fun _ => typed_nonOp_emit hty hno (fun _ => hch)⟩

theorem armSpaces_typed (cc : CharClass) (σ : Lexer) (c : Char) (hs : σ.state = .spaces) (ht : Typed cc σ) :
    ArmTyped cc c (armSpaces σ c) := by
  obtain ⟨ty, hty, hno⟩ := ht.nonOp (by rw [hs]; decide) (by rw [hs]; decide)
  have hch := ht.chars (by rw [hs]; rfl)
  unfold armSpaces
  split
  · rename_i h
    have : c = '\n' := by simpa using h
    subst this
    have hnl : CanStartOrContinue cc '\n' := ok_ws (by decide)
    split
    · exact ⟨fun h => by simp at h, fun _ => typed_nonOp_emit rfl (by simp) (fun _ => ok_snoc hch hnl)⟩
    · exact ⟨fun _ => Typed.mkPlain (by simp) (by simp [isLitState]) ty hty hno (ok_snoc hch hnl),
        fun h => by simp at h⟩
  · split
    · exact ⟨fun h => by simp at h, fun _ => typed_nonOp_emit hty hno (fun _ => hch)⟩
    · rename_i h
      have hb : c = ' ' ∨ c = '\t' := by
        simp only [bne_iff_ne, ne_eq, Bool.and_eq_true, decide_eq_true_eq, not_and, Decidable.not_not] at h
        by_cases h1 : c = ' '
        · exact Or.inl h1
        · exact Or.inr (h h1)
      exact ⟨fun _ => Typed.mkPlain (by simp [hs]) (by simp [hs, isLitState]) ty hty hno (ok_snoc hch (ok_blank hb)),
        fun h => by simp at h⟩

theorem armSubexpression_typed (cc : CharClass) (σ : Lexer) (c : Char) (hs : σ.state = .subexpression)
    (ht : Typed cc σ) : ArmTyped cc c (armSubexpression σ c) := by
  have hch := ht.chars (by rw [hs]; rfl)
  unfold armSubexpression
  split
  · rename_i h
    have hc : CanStartOrContinue cc c := ok_ws (by simp at h; exact h.1)
    exact ⟨fun h => by simp at h, fun _ => typed_nonOp_emit rfl (by simp) (fun _ => ok_snoc hch hc)⟩
  · simp only []
    split
    · rename_i h
      have hb : c = ' ' ∨ c = '\t' := by
        simp only [Bool.or_eq_true, beq_iff_eq] at h
        exact h.symm
      exact ⟨fun _ => Typed.mkPlain (by simp) (by simp [isLitState]) .whitespace rfl (by simp)
        (ok_snoc hch (ok_blank hb)), fun h => by simp at h⟩
    · exact ⟨fun h => by simp at h, fun _ => typed_nonOp_emit rfl (by simp) (fun _ => hch)⟩

theorem lit_emit {cc : CharClass} {σ1 : Lexer} {c : Char} {ty0 : Gen.TokenType}
    (hty : σ1.currentTokenType = some ty0) (hno : isOpType ty0 = false) (hl : isLitType ty0 = true) :
    EmitOk cc σ1 c :=
  typed_nonOp_emit hty hno (fun h => by rw [hl] at h; cases h)

theorem armStartCharList_typed (cc : CharClass) (σ : Lexer) (c : Char) (hs : σ.state = .startCharList)
    (ht : Typed cc σ) : ArmTyped cc c (armStartCharList σ c) := by
  obtain ⟨ty, hty, hno⟩ := ht.nonOp (by rw [hs]; decide) (by rw [hs]; decide)
  obtain ⟨ty', hty', hlt⟩ := ht.lit (by rw [hs]; rfl)
  rw [hty] at hty'; cases hty'
  generalize hr : armStartCharList σ c = r
  unfold armStartCharList at hr
  simp only [] at hr
  repeat' split at hr
  all_goals subst hr
  all_goals refine ⟨fun h => ?_, fun h => ?_⟩
  all_goals first
    | (exfalso; simp at h; done)
    | exact lit_emit hty hno hlt
    | exact Typed.mkLit (by simp [hs]) (by simp [hs, isLitState]) ty hty hno hlt

theorem armCharList_typed (cc : CharClass) (σ : Lexer) (c : Char) (hs : σ.state = .charList)
    (ht : Typed cc σ) : ArmTyped cc c (armCharList σ c) := by
  obtain ⟨ty, hty, hno⟩ := ht.nonOp (by rw [hs]; decide) (by rw [hs]; decide)
  obtain ⟨ty', hty', hlt⟩ := ht.lit (by rw [hs]; rfl)
  rw [hty] at hty'; cases hty'
  generalize hr : armCharList σ c = r
  unfold armCharList at hr
  simp only [] at hr
  repeat' split at hr
  all_goals subst hr
  all_goals refine ⟨fun h => ?_, fun h => ?_⟩
  all_goals first
    | (exfalso; simp at h; done)
    | exact lit_emit hty hno hlt
    | exact Typed.mkLit (by simp [hs]) (by simp [hs, isLitState]) ty hty hno hlt

theorem armStartByteList_typed (cc : CharClass) (σ : Lexer) (c : Char) (hs : σ.state = .startByteList)
    (ht : Typed cc σ) : ArmTyped cc c (armStartByteList σ c) := by
  obtain ⟨ty, hty, hno⟩ := ht.nonOp (by rw [hs]; decide) (by rw [hs]; decide)
  obtain ⟨ty', hty', hlt⟩ := ht.lit (by rw [hs]; rfl)
  rw [hty] at hty'; cases hty'
  generalize hr : armStartByteList σ c = r
  unfold armStartByteList at hr
  simp only [] at hr
  repeat' split at hr
  all_goals subst hr
  all_goals refine ⟨fun h => ?_, fun h => ?_⟩
  all_goals first
    | (exfalso; simp at h; done)
    | exact lit_emit hty hno hlt
    | exact Typed.mkLit (by simp [hs]) (by simp [hs, isLitState]) ty hty hno hlt

theorem armByteList_typed (cc : CharClass) (σ : Lexer) (c : Char) (hs : σ.state = .byteList)
    (ht : Typed cc σ) : ArmTyped cc c (armByteList σ c) := by
  obtain ⟨ty, hty, hno⟩ := ht.nonOp (by rw [hs]; decide) (by rw [hs]; decide)
  obtain ⟨ty', hty', hlt⟩ := ht.lit (by rw [hs]; rfl)
  rw [hty] at hty'; cases hty'
  generalize hr : armByteList σ c = r
  unfold armByteList at hr
  simp only [] at hr
  repeat' split at hr
  all_goals subst hr
  all_goals refine ⟨fun h => ?_, fun h => ?_⟩
  all_goals first
    | (exfalso; simp at h; done)
    | exact lit_emit hty hno hlt
    | exact Typed.mkLit (by simp [hs]) (by simp [hs, isLitState]) ty hty hno hlt

theorem armLineAnnotation_typed (cc : CharClass) (σ : Lexer) (c : Char) (hs : σ.state = .lineAnnotation)
    (ht : Typed cc σ) : ArmTyped cc c (armLineAnnotation σ c) := by
  obtain ⟨ty, hty, hno⟩ := ht.nonOp (by rw [hs]; decide) (by rw [hs]; decide)
  obtain ⟨ty', hty', hlt⟩ := ht.lit (by rw [hs]; rfl)
  rw [hty] at hty'; cases hty'
  generalize hr : armLineAnnotation σ c = r
  unfold armLineAnnotation at hr
  repeat' split at hr
  all_goals subst hr
  all_goals refine ⟨fun h => ?_, fun h => ?_⟩
  all_goals first
    | (exfalso; simp at h; done)
    | exact lit_emit hty hno hlt
    | exact Typed.mkLit (by simp [hs]) (by simp [hs, isLitState]) ty hty hno hlt

theorem armOperator_typed (cc : CharClass) (σ : Lexer) (c : Char) (hs : σ.state = .operator) (ht : Typed cc σ)
    (htr : σ.operatorTree = theTree) (hcr : σ.shouldCreate = true) : ArmTyped cc c (armOperator cc σ c) := by
  obtain ⟨node0, hw0, hty0⟩ := ht.op hs
  have hch : ∀ x ∈ σ.currentCharacters, CanStartOrContinue cc x := path_chars_ok hw0
  unfold armOperator
  simp only []
  split
  · rename_i node heq
    have hw : walkOperator theTree (σ.currentCharacters ++ [c]) = some node := by
      simpa [currentOperator, push, htr] using heq
    exact ⟨fun _ => Typed.mkOp (by simp [hs]) node (by simpa [push] using hw) rfl, fun h => by simp at h⟩
  · rename_i heq
    have hw : walkOperator theTree (σ.currentCharacters ++ [c]) = none := by
      simpa [currentOperator, push, htr] using heq
    split
    · rename_i h
      have hid : isIdentifierChar cc c = true := by
        simp only [Bool.and_eq_true, isIdentifier, push, List.all_append, List.all_cons, List.all_nil,
          Bool.and_true] at h
        exact h.2.2
      exact ⟨fun _ => Typed.mkPlain (by simp) (by simp [isLitState]) .identifier rfl (by simp)
        (by simpa [push] using ok_snoc hch (ok_identChar hid)), fun h => by simp at h⟩
    · split
      · rename_i h
        have hnum : cc.isNumeric c = true := by
          simp only [Bool.and_eq_true] at h
          exact h.1.2
        exact ⟨fun _ => Typed.mkPlain (by simp) (by simp [isLitState]) .number rfl (by simp)
          (by simpa [push] using ok_snoc hch (ok_num hnum)), fun h => by simp at h⟩
      · refine ⟨fun h => by simp at h, fun _ => ?_⟩
        intro ty hty
        simp only [pop_push] at hty ⊢
        rw [hty0] at hty
        exact ⟨⟨fun _ => ⟨node0, hw0, hty⟩, fun _ => hch⟩, fun _ => ⟨hw, hcr⟩⟩

theorem startToken_typed (cc : CharClass) (σ : Lexer) (c : Char) (htr : σ.operatorTree = theTree)
    (hs : σ.state = .noToken) : (startToken cc σ c).result = .err ∨ Typed cc (startToken cc σ c) := by
  unfold startToken
  simp only []
  split
  · rename_i node heq
    have hw : walkOperator theTree [c] = some node := by simpa [currentOperator, push, htr] using heq
    exact Or.inr (Typed.mkOp rfl node (by simpa [push] using hw) rfl)
  · split
    · rename_i h
      have hc : CanStartOrContinue cc c := by
        simp only [Bool.or_eq_true, beq_iff_eq] at h
        rcases h with (h | h) | h <;> subst h <;> exact ok_ws (by decide)
      exact Or.inr (Typed.mkPlain (by simp) (by simp [isLitState]) .whitespace rfl (by simp)
        (by simpa [push] using hc))
    · split
      · rename_i h
        exact Or.inr (Typed.mkPlain (by simp) (by simp [isLitState]) .subexpression rfl (by simp)
          (by simpa [push] using (ok_ws h : CanStartOrContinue cc c)))
      · split
        · rename_i h
          exact Or.inr (Typed.mkPlain (by simp) (by simp [isLitState]) .number rfl (by simp)
            (by simpa [push] using (ok_num h : CanStartOrContinue cc c)))
        · split
          · rename_i h
            exact Or.inr (Typed.mkPlain (by simp) (by simp [isLitState]) .identifier rfl (by simp)
              (by simpa [push] using (ok_identChar h : CanStartOrContinue cc c)))
          · split
            · rename_i h
              have : c = '`' := by simpa using h
              subst this
              exact Or.inr (Typed.mkPlain (by simp) (by simp [isLitState]) .suffixIdentifier rfl (by simp)
                (by simpa [push] using ok_backtick cc))
            · split
              · rename_i h
                have : c = '@' := by simpa using h
                subst this
                exact Or.inr (Typed.mkPlain (by simp) (by simp [isLitState]) .annotation rfl (by simp)
                  (by simpa [push] using ok_at cc))
              · split
                · exact Or.inr (Typed.mkLit (by simp) (by simp [isLitState]) .charList rfl (by simp)
                    (by simp [isLitType]))
                · split
                  · exact Or.inr (Typed.mkLit (by simp) (by simp [isLitState]) .byteList rfl (by simp)
                      (by simp [isLitType]))
                  · split
                    · exact Or.inr (Typed.noToken rfl rfl)
                    · exact Or.inl rfl

theorem startToken_dot (cc : CharClass) (σ : Lexer) (htr : σ.operatorTree = theTree) :
    (startToken cc σ '.').state = .operator ∧ (startToken cc σ '.').currentCharacters = ['.'] ∧
    (startToken cc σ '.').operatorTree = theTree := by
  have hdot : (walkOperator theTree ['.']).isSome = true := by decide
  cases hw : walkOperator theTree ['.'] with
  | none => rw [hw] at hdot; cases hdot
  | some node =>
    unfold startToken
    simp [currentOperator, push, htr, hw]

theorem trimMatches_mem (cs : List Char) (d x : Char) (h : x ∈ trimMatches cs d) : x ∈ cs := by
  unfold trimMatches at h
  have h1 : x ∈ ((cs.dropWhile (· == d)).reverse.dropWhile (· == d)) := by simpa using h
  have h2 := (List.dropWhile_sublist _).subset h1
  have h3 : x ∈ cs.dropWhile (· == d) := by simpa using h2
  exact (List.dropWhile_sublist _).subset h3

/-- the Float arm: typed result, and the number emitted by the float split is fine -/
theorem armFloat_typed (cc : CharClass) (σ : Lexer) (c : Char) (hs : σ.state = .float) (ht : Typed cc σ)
    (htr : σ.operatorTree = theTree) (st : Step) (h : armFloat cc σ c = .ok st) :
    match st with
    | .cont σ1 nt sn => ArmTyped cc c (σ1, sn) ∧
        (∀ t, nt = some t → sn = false ∧ isOpType t.tokenType = false ∧ TokOk cc t.text t.tokenType)
    | .returnNone _ => True := by
  obtain ⟨ty, hty, hno⟩ := ht.nonOp (by rw [hs]; decide) (by rw [hs]; decide)
  have hch := ht.chars (by rw [hs]; rfl)
  unfold armFloat at h
  split at h
  · rename_i hc
    cases h
    exact ⟨⟨fun _ => Typed.mkPlain (by simp [hs]) (by simp [hs, isLitState]) ty hty hno (ok_snoc hch (ok_nua hc)),
      fun h => by simp at h⟩, fun t ht => by cases ht⟩
  · split at h
    · simp only [] at h
      split at h
      · cases h
      · have hsd := startToken_dot cc { σ with tokenStartRow := σ.textRow } (by simpa using htr)
        generalize startToken cc { σ with tokenStartRow := σ.textRow } '.' = s1 at h hsd
        split at h
        · rename_i node heq
          cases h
          have hw : walkOperator theTree ['.', c] = some node := by
            simpa [currentOperator, push, hsd.2.1, hsd.2.2] using heq
          refine ⟨⟨fun _ => Typed.mkOp (by simpa using hsd.1) node (by simpa [push, hsd.2.1] using hw) rfl,
            fun h => by simp at h⟩, ?_⟩
          intro t ht
          simp only [Option.some.injEq] at ht
          subst ht
          refine ⟨rfl, by simp, ⟨fun h => by simp at h, fun _ x hx => hch x (trimMatches_mem _ _ _ hx)⟩⟩
        · cases h; trivial
    · cases h
      exact ⟨⟨fun h => by simp at h, fun _ => typed_nonOp_emit hty hno (fun _ => hch)⟩, fun t ht => by cases ht⟩

/-! ### operator tokens and the character after them -/

/-- every operator token among `ts` (starting at offset `o` of `consumed`) is followed in `consumed` by a character
that continues no path of the operator tree -/
def OpWitFrom (consumed : List Char) : Nat → List LexerToken → Prop
  | _, [] => True
  | o, t :: ts =>
    (isOpType t.tokenType = true →
      ∃ d, consumed[o + t.text.length]? = some d ∧ walkOperator theTree (t.text ++ [d]) = none) ∧
    OpWitFrom consumed (o + t.text.length) ts

/-- same, but an operator token may also end exactly at the end of the input -/
def OpEndFrom (s : List Char) : Nat → List LexerToken → Prop
  | _, [] => True
  | o, t :: ts =>
    (isOpType t.tokenType = true →
      (∃ d, s[o + t.text.length]? = some d ∧ walkOperator theTree (t.text ++ [d]) = none) ∨
      o + t.text.length = s.length) ∧
    OpEndFrom s (o + t.text.length) ts

theorem OpWitFrom_mono (consumed x : List Char) : ∀ (o : Nat) (ts : List LexerToken),
    OpWitFrom consumed o ts → OpWitFrom (consumed ++ x) o ts
  | _, [], _ => trivial
  | o, t :: ts, h => by
    refine ⟨fun hop => ?_, OpWitFrom_mono consumed x _ ts h.2⟩
    obtain ⟨d, hd, hw⟩ := h.1 hop
    refine ⟨d, ?_, hw⟩
    have hlt : o + t.text.length < consumed.length := by
      rcases Nat.lt_or_ge (o + t.text.length) consumed.length with hlt | hge
      · exact hlt
      · rw [List.getElem?_eq_none hge] at hd
        cases hd
    rw [List.getElem?_append_left hlt]; exact hd

theorem OpWitFrom_snoc (consumed : List Char) : ∀ (o : Nat) (ts : List LexerToken) (t : LexerToken),
    OpWitFrom consumed o ts →
    (isOpType t.tokenType = true →
      ∃ d, consumed[o + (textsOf ts).length + t.text.length]? = some d ∧
        walkOperator theTree (t.text ++ [d]) = none) →
    OpWitFrom consumed o (ts ++ [t])
  | o, [], t, _, h => by simpa [OpWitFrom] using h
  | o, t0 :: ts, t, h0, h => by
    refine ⟨h0.1, OpWitFrom_snoc consumed _ ts t h0.2 ?_⟩
    intro hop
    obtain ⟨d, hd, hw⟩ := h hop
    refine ⟨d, ?_, hw⟩
    have : o + (textsOf (t0 :: ts)).length = o + t0.text.length + (textsOf ts).length := by
      simp [textsOf]; omega
    rw [← this]; exact hd

theorem OpEnd_of_wit (s : List Char) : ∀ (o : Nat) (ts : List LexerToken), OpWitFrom s o ts → OpEndFrom s o ts
  | _, [], _ => trivial
  | o, t :: ts, h => ⟨fun hop => Or.inl (h.1 hop), OpEnd_of_wit s _ ts h.2⟩

theorem OpEndFrom_snoc_end (s : List Char) : ∀ (o : Nat) (ts : List LexerToken) (t : LexerToken),
    OpEndFrom s o ts → o + (textsOf ts).length + t.text.length = s.length → OpEndFrom s o (ts ++ [t])
  | o, [], t, _, h => by
    refine ⟨fun _ => Or.inr ?_, trivial⟩
    simpa using h
  | o, t0 :: ts, t, h0, h => by
    refine ⟨h0.1, OpEndFrom_snoc_end s _ ts t h0.2 ?_⟩
    have : o + (textsOf (t0 :: ts)).length = o + t0.text.length + (textsOf ts).length := by
      simp [textsOf]; omega
    rw [← this]; exact h

/-- the second invariant -/
structure Inv2 (cc : CharClass) (σ : Lexer) (consumed : List Char) (toks : List LexerToken) : Prop where
  tree : σ.operatorTree = theTree
  typed : Typed cc σ
  toksOk : ∀ t ∈ toks, TokOk cc t.text t.tokenType
  opWit : OpWitFrom consumed 0 toks

theorem Typed_congr {cc : CharClass} {σ σ' : Lexer} (h1 : σ'.state = σ.state)
    (h2 : σ'.currentTokenType = σ.currentTokenType) (h3 : σ'.currentCharacters = σ.currentCharacters)
    (h : Typed cc σ) : Typed cc σ' := by
  obtain ⟨a, b, c, d⟩ := h
  constructor
  · rw [h1, h2, h3]; exact a
  · rw [h1, h2]; exact b
  · rw [h1, h2]; exact c
  · rw [h1, h3]; exact d

@[simp] theorem bumpColumn_type (σ : Lexer) (c : Char) : (bumpColumn σ c).currentTokenType = σ.currentTokenType := by
  unfold bumpColumn; split <;> rfl
@[simp] theorem bumpColumn_tree (σ : Lexer) (c : Char) : (bumpColumn σ c).operatorTree = σ.operatorTree := by
  unfold bumpColumn; split <;> rfl

theorem Typed_bump {cc : CharClass} {σ : Lexer} (c : Char) (h : Typed cc σ) : Typed cc (bumpColumn σ c) :=
  Typed_congr (by simp) (by simp) (by simp) h

/-- the lexer right after a token has been pushed (the `set default for new` block) -/
def afterEmit (σ1 : Lexer) : Lexer :=
  { σ1 with canFloat := !blocksFloat σ1.currentTokenType, result := .ok, state := .noToken,
            currentCharacters := [], currentTokenType := none, startQuoteCount := 0, endQuoteCount := 0,
            couldBeSubExpression := false }

/-- what `finishChar` does when the arm ended the token -/
theorem finishChar_true (cc : CharClass) (σ1 : Lexer) (c : Char) (hnt : σ1.state ≠ .noToken) :
    (finishChar cc σ1 c none true).1.result = .err ∨
    ∃ ty, σ1.currentTokenType = some ty ∧
      finishChar cc σ1 c none true =
        (bumpColumn (if σ1.shouldCreate then startToken cc (afterEmit σ1) c
                     else { afterEmit σ1 with shouldCreate := true }) c,
         some ⟨σ1.currentCharacters, ty, σ1.tokenStartRow, σ1.tokenStartColumn⟩) := by
  simp only [finishChar, ↓reduceIte, pushNewToken]
  have hne : (σ1.state != LexingState.noToken) = true := by simpa using hnt
  simp only [hne, ↓reduceIte]
  cases hcv : canCreateValidToken { σ1 with canFloat := !blocksFloat σ1.currentTokenType } with
  | err =>
    left
    simp only [LexResult.isOk, Bool.false_eq_true, ↓reduceIte]
    split
    · simp only [bumpColumn_result]; exact startToken_result_err cc _ c rfl
    · simp
  | ok =>
    simp only [LexResult.isOk, ↓reduceIte]
    cases hty : σ1.currentTokenType with
    | none => left; rfl
    | some ty =>
      right
      refine ⟨ty, rfl, ?_⟩
      simp only [afterEmit, hty]

theorem Inv2_lexed {cc : CharClass} {σ : Lexer} {consumed : List Char} {toks : List LexerToken} (n : Nat)
    (h : Inv2 cc σ consumed toks) : Inv2 cc { σ with charactersLexed := n } consumed toks :=
  ⟨h.tree, Typed_congr (σ := σ) rfl rfl rfl h.typed, h.toksOk, h.opWit⟩

theorem Inv2_atEnd {cc : CharClass} {σ : Lexer} {consumed : List Char} {toks : List LexerToken} (b : Bool)
    (h : Inv2 cc σ consumed toks) : Inv2 cc { σ with atEnd := b } consumed toks :=
  ⟨h.tree, Typed_congr (σ := σ) rfl rfl rfl h.typed, h.toksOk, h.opWit⟩

theorem toksOk_snoc {cc : CharClass} {toks : List LexerToken} {t : LexerToken}
    (h : ∀ t ∈ toks, TokOk cc t.text t.tokenType) (ht : TokOk cc t.text t.tokenType) :
    ∀ x ∈ toks ++ [t], TokOk cc x.text x.tokenType := by
  intro x hx
  simp only [List.mem_append, List.mem_singleton] at hx
  rcases hx with hx | rfl
  · exact h x hx
  · exact ht

/-- the part of `process_char` after the arm keeps the second invariant (regular character) -/
theorem finishChar_typed (cc : CharClass) (σ : Lexer) (c : Char) (consumed : List Char) (toks : List LexerToken)
    (hcore : Core σ consumed toks) (hinv2 : Inv2 cc σ consumed toks) (hst : σ.state ≠ .noToken)
    (σ1 : Lexer) (sn : Bool) (heff : ArmEff σ c (σ1, sn)) (hty : ArmTyped cc c (σ1, sn)) :
    (finishChar cc σ1 c none sn).1.result = .err ∨
    Inv2 cc (finishChar cc σ1 c none sn).1 (consumed ++ [c]) (toks ++ (finishChar cc σ1 c none sn).2.toList) := by
  obtain ⟨hfr, hk⟩ := heff
  simp only [] at hfr hk
  have htree1 : σ1.operatorTree = theTree := by rw [hfr.operatorTree]; exact hinv2.tree
  rcases hk with ⟨rfl, hcr, hch, hnt, hsh⟩ | ⟨rfl, hcr, hch, hnt⟩ | ⟨rfl, hcr, hch, hnt⟩
  · right
    simp only [finishChar, Bool.false_eq_true, ↓reduceIte, Option.toList_none, List.append_nil]
    exact ⟨by simpa using htree1, Typed_bump c (hty.1 rfl), hinv2.toksOk, OpWitFrom_mono _ _ _ _ hinv2.opWit⟩
  · rcases finishChar_true cc σ1 c hnt with herr | ⟨ty, htyeq, heq⟩
    · exact Or.inl herr
    · rw [heq]
      simp only [hcr, ↓reduceIte, Option.toList_some]
      have hemit := (hty.2 rfl) ty htyeq
      rcases startToken_typed cc (afterEmit σ1) c (by simpa [afterEmit] using htree1) rfl with herr | htyped
      · exact Or.inl (by simpa using herr)
      · right
        refine ⟨?_, Typed_bump c htyped, toksOk_snoc hinv2.toksOk hemit.1, ?_⟩
        · rw [bumpColumn_tree, (startToken_startFrame cc (afterEmit σ1) c).operatorTree]
          simpa [afterEmit] using htree1
        · apply OpWitFrom_snoc _ _ _ _ (OpWitFrom_mono _ _ _ _ hinv2.opWit)
          intro hop
          refine ⟨c, ?_, (hemit.2 hop).1⟩
          have hlen : 0 + (textsOf toks).length + σ1.currentCharacters.length = consumed.length := by
            rw [hch, ← hcore.lossless]; simp
          simp only [] at hlen ⊢
          rw [hlen]
          simp
  · rcases finishChar_true cc σ1 c hnt with herr | ⟨ty, htyeq, heq⟩
    · exact Or.inl herr
    · rw [heq]
      simp only [hcr, Bool.false_eq_true, ↓reduceIte, Option.toList_some]
      have hemit := (hty.2 rfl) ty htyeq
      right
      refine ⟨by simpa [afterEmit] using htree1, Typed_bump c (Typed.noToken rfl rfl),
        toksOk_snoc hinv2.toksOk hemit.1, ?_⟩
      apply OpWitFrom_snoc _ _ _ _ (OpWitFrom_mono _ _ _ _ hinv2.opWit)
      intro hop
      have := (hemit.2 hop).2
      rw [hcr] at this; cases this

/-- `process_char` on a regular character keeps the second invariant or records an error -/
theorem processChar_typed (cc : CharClass) (hcc : cc.Sane2) (σ : Lexer) (c : Char) (consumed : List Char)
    (toks : List LexerToken) (hcore : Core σ consumed toks) (hinv2 : Inv2 cc σ consumed toks) (hinv : Inv σ)
    (hns : ¬Sentinel σ c) (σ' : Lexer) (ot : Option LexerToken) (h : processChar cc σ c = .ok (σ', ot)) :
    σ'.result = .err ∨ Inv2 cc σ' (consumed ++ [c]) (toks ++ ot.toList) := by
  unfold processChar at h
  simp only [] at h
  have hcore0 := Core_lexed (σ.charactersLexed + 1) hcore
  have hinv20 := Inv2_lexed (σ.charactersLexed + 1) hinv2
  generalize hσ0 : { σ with charactersLexed := σ.charactersLexed + 1 } = σ0 at h hcore0 hinv20
  have hns0 : ¬Sentinel σ0 c := by subst hσ0; exact hns
  have hinv0 : Inv σ0 := by subst hσ0; exact hinv
  clear hσ0 hcore hns hinv hinv2
  have key : ∀ p : Lexer × Bool, σ0.state ≠ .noToken → ArmEff σ0 c p → ArmTyped cc c p →
      stateStep cc σ0 c = Step.ofPair p → σ'.result = .err ∨ Inv2 cc σ' (consumed ++ [c]) (toks ++ ot.toList) := by
    intro p hst heff hty hss
    rw [hss] at h
    simp only [Step.ofPair, Outcome.ok.injEq] at h
    have := finishChar_typed cc σ0 c consumed toks hcore0 hinv20 hst p.1 p.2 heff hty
    rw [h] at this
    exact this
  have ht := hinv20.typed
  have htr := hinv20.tree
  unfold stateStep at h key
  cases hs : σ0.state <;> rw [hs] at h key <;> simp only [] at h key
  case noToken =>
    simp only [Step.ofPair, armNoToken, finishChar, Bool.false_eq_true, ↓reduceIte, Outcome.ok.injEq,
      Prod.mk.injEq] at h
    obtain ⟨rfl, rfl⟩ := h
    simp only [Option.toList_none, List.append_nil]
    rcases startToken_typed cc σ0 c htr hs with herr | htyped
    · exact Or.inl (by simpa using herr)
    · right
      refine ⟨?_, Typed_bump c htyped, hinv20.toksOk, OpWitFrom_mono _ _ _ _ hinv20.opWit⟩
      rw [bumpColumn_tree, (startToken_startFrame cc σ0 c).operatorTree]; exact htr
  case float =>
    have hpos : 1 ≤ σ0.textColumn := hinv0 hs
    have hnt : σ0.state ≠ .noToken := by rw [hs]; decide
    obtain ⟨st, hst, hout⟩ := armFloat_eff cc hcc σ0 c hs hcore0.create hcore0.shape hpos hcore0.ok
    have htyped := armFloat_typed cc σ0 c hs ht htr st hst
    rw [hst] at h
    rcases hout with ⟨σ1, sn, rfl, heff⟩ | herr | ⟨rfl, a, σ1, rfl, hsp⟩
    · simp only [Outcome.ok.injEq] at h
      have := finishChar_typed cc σ0 c consumed toks hcore0 hinv20 hnt σ1 sn heff htyped.1
      rw [h] at this
      exact this
    · left
      rcases herr with ⟨s1, nt, rfl, herr⟩ | ⟨s1, rfl, herr⟩
      · simp only [finishChar, Bool.false_eq_true, ↓reduceIte, Outcome.ok.injEq, Prod.mk.injEq] at h
        obtain ⟨rfl, _⟩ := h
        simpa using herr
      · simp only [Outcome.ok.injEq, Prod.mk.injEq] at h
        obtain ⟨rfl, _⟩ := h
        exact herr
    · simp only [finishChar, Bool.false_eq_true, ↓reduceIte, Outcome.ok.injEq, Prod.mk.injEq] at h
      obtain ⟨rfl, rfl⟩ := h
      right
      obtain ⟨harm, htok⟩ := htyped
      obtain ⟨_, hnop, htokok⟩ := htok _ rfl
      simp only [Option.toList_some]
      refine ⟨by simpa [hsp.operatorTree] using htr, Typed_bump '.' (harm.1 rfl),
        toksOk_snoc hinv20.toksOk htokok, ?_⟩
      apply OpWitFrom_snoc _ _ _ _ (OpWitFrom_mono _ _ _ _ hinv20.opWit)
      intro hop
      simp only [] at hop hnop
      rw [hnop] at hop; cases hop
  all_goals (have hnt : σ0.state ≠ .noToken := by rw [hs]; decide)
  · exact key _ (by decide) (armOperator_eff cc hcc σ0 c hs hcore0.create (hcore0.tok hnt))
      (armOperator_typed cc σ0 c hs ht htr hcore0.create) rfl
  · exact key _ (by decide) (armSpaces_eff σ0 c hs hcore0.create) (armSpaces_typed cc σ0 c hs ht) rfl
  · exact key _ (by decide) (armSubexpression_eff σ0 c hs hcore0.create) (armSubexpression_typed cc σ0 c hs ht) rfl
  · exact key _ (by decide) (armNumber_eff cc hcc σ0 c hs hcore0.create (hcore0.tok hnt) hcore0.shape)
      (armNumber_typed cc σ0 c hs ht) rfl
  · exact key _ (by decide) (armIdentifier_eff cc σ0 c hs hcore0.create) (armIdentifier_typed cc σ0 c hs ht) rfl
  · exact key _ (by decide) (armAnnotation_eff cc σ0 c hs hcore0.create) (armAnnotation_typed cc σ0 c hs ht) rfl
  · exact key _ (by decide) (armLineAnnotation_eff σ0 c hs hcore0.create hns0)
      (armLineAnnotation_typed cc σ0 c hs ht) rfl
  · exact key _ (by decide) (armCharList_eff σ0 c hs hcore0.create) (armCharList_typed cc σ0 c hs ht) rfl
  · exact key _ (by decide) (armStartCharList_eff σ0 c hs hcore0.create hns0)
      (armStartCharList_typed cc σ0 c hs ht) rfl
  · exact key _ (by decide) (armByteList_eff σ0 c hs hcore0.create) (armByteList_typed cc σ0 c hs ht) rfl
  · exact key _ (by decide) (armStartByteList_eff σ0 c hs hcore0.create hns0)
      (armStartByteList_typed cc σ0 c hs ht) rfl

theorem finishChar_tok (cc : CharClass) (σ1 : Lexer) (c : Char) (sn : Bool) (hnt : σ1.state ≠ .noToken)
    (hty : ArmTyped cc c (σ1, sn)) (t : LexerToken) (ht : (finishChar cc σ1 c none sn).2 = some t) :
    (finishChar cc σ1 c none sn).1.result = .err ∨ TokOk cc t.text t.tokenType := by
  cases sn with
  | false => simp [finishChar] at ht
  | true =>
    rcases finishChar_true cc σ1 c hnt with herr | ⟨ty, htyeq, heq⟩
    · exact Or.inl herr
    · rw [heq] at ht
      simp only [Option.some.injEq] at ht
      subst ht
      exact Or.inr ((hty.2 rfl) ty htyeq).1

/-- the token emitted while the end-of-input sentinel is pushed through is fine -/
theorem processChar_end_tok (cc : CharClass) (hcc : cc.Sane) (σ : Lexer) (consumed : List Char)
    (toks : List LexerToken) (hcore : Core σ consumed toks) (hinv2 : Inv2 cc σ consumed toks)
    (hat : σ.atEnd = true) (σ' : Lexer) (t : LexerToken) (h : processChar cc σ '\x00' = .ok (σ', some t)) :
    σ'.result = .err ∨ TokOk cc t.text t.tokenType := by
  unfold processChar at h
  simp only [] at h
  have hcore0 := Core_lexed (σ.charactersLexed + 1) hcore
  have hinv20 := Inv2_lexed (σ.charactersLexed + 1) hinv2
  generalize hσ0 : { σ with charactersLexed := σ.charactersLexed + 1 } = σ0 at h hcore0 hinv20
  have hat0 : σ0.atEnd = true := by subst hσ0; exact hat
  clear hσ0 hcore hinv2 hat
  have key : ∀ p : Lexer × Bool, p.1.state ≠ .noToken → ArmTyped cc '\x00' p →
      stateStep cc σ0 '\x00' = Step.ofPair p → σ'.result = .err ∨ TokOk cc t.text t.tokenType := by
    intro p hst hty hss
    rw [hss] at h
    simp only [Step.ofPair, Outcome.ok.injEq] at h
    have := finishChar_tok cc p.1 '\x00' p.2 hst hty t (by rw [h])
    rw [h] at this
    exact this
  have ht := hinv20.typed
  have htr := hinv20.tree
  unfold stateStep at h key
  cases hs : σ0.state <;> rw [hs] at h key <;> simp only [] at h key
  case noToken =>
    simp only [Step.ofPair, armNoToken, finishChar, Bool.false_eq_true, ↓reduceIte, Outcome.ok.injEq,
      Prod.mk.injEq] at h
    obtain ⟨_, h2⟩ := h
    cases h2
  case float =>
    obtain ⟨σ1, sn, hst, heff⟩ := armFloat_end cc hcc σ0 hs hcore0.create
    have htyped := armFloat_typed cc σ0 '\x00' hs ht htr _ hst
    rw [hst] at h
    simp only [Outcome.ok.injEq] at h
    have := finishChar_tok cc σ1 '\x00' sn heff.2.1 htyped.1 t (by rw [h])
    rw [h] at this
    exact this
  all_goals (have hnt : σ0.state ≠ .noToken := by rw [hs]; decide)
  · exact key _ (armOperator_end cc hcc σ0 hs hcore0.create (hcore0.tok hnt)).2.1
      (armOperator_typed cc σ0 _ hs ht htr hcore0.create) rfl
  · exact key _ (armSpaces_end σ0 hs hcore0.create (hcore0.tok hnt)).2.1 (armSpaces_typed cc σ0 _ hs ht) rfl
  · exact key _ (armSubexpression_end σ0 hs hcore0.create (hcore0.tok hnt)).2.1
      (armSubexpression_typed cc σ0 _ hs ht) rfl
  · exact key _ (armNumber_end cc hcc σ0 hs hcore0.create (hcore0.tok hnt)).2.1 (armNumber_typed cc σ0 _ hs ht) rfl
  · exact key _ (armIdentifier_end cc hcc σ0 hs hcore0.create (hcore0.tok hnt)).2.1
      (armIdentifier_typed cc σ0 _ hs ht) rfl
  · exact key _ (armAnnotation_end cc hcc σ0 hs hcore0.create (hcore0.tok hnt)).2.1
      (armAnnotation_typed cc σ0 _ hs ht) rfl
  · exact key _ (armLineAnnotation_end σ0 hs hcore0.create (hcore0.tok hnt) hat0).2.1
      (armLineAnnotation_typed cc σ0 _ hs ht) rfl
  · exact key _ (armCharList_end σ0 hs hcore0.create (hcore0.tok hnt)).2.1 (armCharList_typed cc σ0 _ hs ht) rfl
  · exact key _ (armStartCharList_end σ0 hs hcore0.create (hcore0.tok hnt) hat0).2.1
      (armStartCharList_typed cc σ0 _ hs ht) rfl
  · exact key _ (armByteList_end σ0 hs hcore0.create (hcore0.tok hnt)).2.1 (armByteList_typed cc σ0 _ hs ht) rfl
  · exact key _ (armStartByteList_end σ0 hs hcore0.create (hcore0.tok hnt) hat0).2.1
      (armStartByteList_typed cc σ0 _ hs ht) rfl

theorem operatorTree_TreeOk : TreeOk theTree :=
  walk_none_of_isNone (by decide)

/-- result of a successful `lex`, second part: every token is fine and every operator token is followed by a
character that continues no path of the operator tree, or ends at the end of the input -/
structure Final2 (cc : CharClass) (toks : List LexerToken) (s : List Char) : Prop where
  toksOk : ∀ t ∈ toks, TokOk cc t.text t.tokenType
  opEnd : OpEndFrom s 0 toks

theorem lexEnd_final2 (cc : CharClass) (hcc : cc.Sane) (fuel : Nat) (σ σ' : Lexer) (consumed : List Char)
    (toks toks' : List LexerToken) (hcore : Core σ consumed toks) (hinv2 : Inv2 cc σ consumed toks)
    (h : lexEnd cc (fuel + 2) σ toks = .ok (toks', σ')) : Final2 cc toks' consumed := by
  have hfin := lexEnd_final cc hcc fuel σ σ' consumed toks toks' hcore (by rw [hinv2.tree]; exact operatorTree_TreeOk) h
  rw [show fuel + 2 = (fuel + 1) + 1 from rfl, lexEnd] at h
  simp only [isErr_of_ok hcore.ok, Bool.false_eq_true, ↓reduceIte] at h
  cases hp : processChar cc { σ with atEnd := true } '\x00' with
  | ok r =>
    obtain ⟨σ1, ot⟩ := r
    rw [hp] at h
    cases ot with
    | none =>
      simp only [] at h
      obtain ⟨htoks, _⟩ := lexFinish_ok h
      subst htoks
      exact ⟨hinv2.toksOk, OpEnd_of_wit _ _ _ hinv2.opWit⟩
    | some t =>
      simp only [] at h
      cases hr1 : σ1.result with
      | err => rw [hr1] at h; cases h
      | ok =>
        rw [hr1] at h
        simp only [] at h
        have htok := processChar_end_tok cc hcc _ consumed toks (Core_atEnd true hcore) (Inv2_atEnd true hinv2) rfl σ1 t hp
        rcases htok with herr | htok
        · rw [hr1] at herr; cases herr
        · have hend := processChar_end cc hcc _ consumed toks (Core_atEnd true hcore) rfl
            (by rw [show ({ σ with atEnd := true } : Lexer).operatorTree = σ.operatorTree from rfl, hinv2.tree]
                exact operatorTree_TreeOk) σ1 (some t) hp
          rcases hend with herr | ⟨hnone, _⟩ | ⟨t', ht', hs1, hfin1⟩
          · rw [hr1] at herr; cases herr
          · cases hnone
          · cases ht'
            have := lexEnd_second cc fuel σ1 σ' (toks ++ [t]) toks' hs1 h
            subst this
            refine ⟨toksOk_snoc hinv2.toksOk htok, ?_⟩
            apply OpEndFrom_snoc_end _ _ _ _ (OpEnd_of_wit _ _ _ hinv2.opWit)
            have := hfin1.lossless
            rw [textsOf_snoc] at this
            rw [← this]; simp
  | err e => rw [hp] at h; cases h
  | panic m => rw [hp] at h; cases h
  | fuelOut => rw [hp] at h; cases h

theorem lexLoop_final2 (cc : CharClass) (hcc : cc.Sane2) :
    ∀ (input : List Char) (σ σ' : Lexer) (consumed : List Char) (toks toks' : List LexerToken),
      Core σ consumed toks → Inv2 cc σ consumed toks → Inv σ → σ.atEnd = false →
      lexLoop cc input σ toks = .ok (toks', σ') → Final2 cc toks' (consumed ++ input)
  | [], σ, σ', consumed, toks, toks', hcore, hinv2, _, _, h => by
    simp only [lexLoop, endFuel] at h
    rw [List.append_nil]
    exact lexEnd_final2 cc hcc.toSane 2 σ σ' consumed toks toks' hcore hinv2 h
  | c :: rest, σ, σ', consumed, toks, toks', hcore, hinv2, hinv, hat, h => by
    simp only [lexLoop, isErr_of_ok hcore.ok, Bool.false_eq_true, ↓reduceIte] at h
    obtain ⟨σ1, ot, hp, hinv1⟩ := processChar_ok cc hcc.toSane σ c hinv
    have hf := processChar_frame cc _ _ _ _ hp
    have hns : ¬Sentinel σ c := fun hs => by have := hs.2; rw [hat] at this; cases this
    have hstep := processChar_core cc hcc σ c consumed toks hcore hinv hns σ1 ot hp
    have hstep2 := processChar_typed cc hcc σ c consumed toks hcore hinv2 hinv hns σ1 ot hp
    rw [hp] at h
    have hcons : consumed ++ c :: rest = (consumed ++ [c]) ++ rest := by simp
    rw [hcons]
    have hres : σ1.result = .ok := by
      cases hr : σ1.result with
      | ok => rfl
      | err =>
        exfalso
        cases ot with
        | none => simp only [] at h; rw [lexLoop_err cc rest σ1 toks hr] at h; cases h
        | some t => simp only [] at h; rw [hr] at h; cases h
    have hcore1 : Core σ1 (consumed ++ [c]) (toks ++ ot.toList) := by
      rcases hstep with herr | hc
      · rw [hres] at herr; cases herr
      · exact hc
    have hinv21 : Inv2 cc σ1 (consumed ++ [c]) (toks ++ ot.toList) := by
      rcases hstep2 with herr | hc
      · rw [hres] at herr; cases herr
      · exact hc
    cases ot with
    | none =>
      simp only [] at h
      exact lexLoop_final2 cc hcc rest σ1 σ' _ toks toks' (by simpa using hcore1) (by simpa using hinv21) hinv1
        (by rw [hf.2.1]; exact hat) h
    | some t =>
      simp only [] at h
      rw [hres] at h
      simp only [] at h
      exact lexLoop_final2 cc hcc rest σ1 σ' _ (toks ++ [t]) toks' (by simpa using hcore1) (by simpa using hinv21)
        hinv1 (by rw [hf.2.1]; exact hat) h

theorem Inv2_init (cc : CharClass) : Inv2 cc (Lexer.init theTree) [] [] :=
  ⟨rfl, Typed.noToken rfl rfl, by simp, trivial⟩

theorem lex_final2 (cc : CharClass) (hcc : cc.Sane2) (s : List Char) (toks : List LexerToken)
    (h : lex cc s = .ok toks) : Final2 cc toks s := by
  unfold lex lexFull at h
  rw [new_eq] at h
  simp only [] at h
  cases hl : lexLoop cc s (Lexer.init theTree) [] with
  | ok r =>
    obtain ⟨toks', σ'⟩ := r
    rw [hl] at h
    simp only [Outcome.ok.injEq] at h
    subst h
    have := lexLoop_final2 cc hcc s (Lexer.init theTree) σ' [] [] toks' (Core_init theTree) (Inv2_init cc)
      (fun h => by simp [Lexer.init] at h) rfl hl
    simpa using this
  | err e => rw [hl] at h; cases h
  | panic m => rw [hl] at h; cases h
  | fuelOut => rw [hl] at h; cases h

theorem OpEndFrom_get (s : List Char) : ∀ (o : Nat) (toks : List LexerToken), OpEndFrom s o toks →
    ∀ (i : Nat) (hi : i < toks.length), isOpType toks[i].tokenType = true →
      (∃ d, s[o + (textsOf (toks.take i)).length + toks[i].text.length]? = some d ∧
        walkOperator theTree (toks[i].text ++ [d]) = none) ∨
      o + (textsOf (toks.take i)).length + toks[i].text.length = s.length
  | o, [], _, i, hi, _ => by simp at hi
  | o, t :: ts, h, 0, _, hop => by simpa [textsOf] using h.1 hop
  | o, t :: ts, h, i + 1, hi, hop => by
    have := OpEndFrom_get s (o + t.text.length) ts h.2 i (by simpa using hi) (by simpa using hop)
    have e : (textsOf (t :: List.take i ts)).length = t.text.length + (textsOf (List.take i ts)).length := by
      simp [textsOf]
    simp only [List.take_succ_cons, List.getElem_cons_succ]
    rw [e, ← Nat.add_assoc]
    exact this

/-- longest match: an operator token is a spelling of the table and no longer spelling is a prefix of the rest of
the input from the token's start -/
theorem lex_longest_match (cc : CharClass) (hcc : cc.Sane2) (s : List Char) (toks : List LexerToken)
    (h : lex cc s = .ok toks) (i : Nat) (hi : i < toks.length) (hop : isOpType toks[i].tokenType = true) :
    (toks[i].text, toks[i].tokenType) ∈ Garnish.Gen.LexTables.operatorChars ∧
    ∀ sp ty, (sp, ty) ∈ Garnish.Gen.LexTables.operatorChars → toks[i].text.length < sp.length →
      ¬ sp <+: s.drop (textsOf (toks.take i)).length := by
  have hf := lex_final cc hcc s toks h
  have hf2 := lex_final2 cc hcc s toks h
  obtain ⟨node, hw, hnty⟩ := (hf2.toksOk toks[i] (List.getElem_mem hi)).op hop
  refine ⟨tree_sound _ node _ hw hnty, ?_⟩
  intro sp ty hsp hlen hpre
  -- the input from the token's start is the token's text followed by the rest
  have ht : toks = toks.take i ++ toks[i] :: toks.drop (i + 1) := by
    rw [← List.drop_eq_getElem_cons hi, List.take_append_drop]
  have hs : s = textsOf (toks.take i) ++ (toks[i].text ++ textsOf (toks.drop (i + 1))) :=
    calc s = textsOf toks := hf.lossless.symm
      _ = textsOf (toks.take i ++ toks[i] :: toks.drop (i + 1)) := congrArg textsOf ht
      _ = _ := by simp only [textsOf, List.map_append, List.map_cons, List.flatten_append, List.flatten_cons]
  have hdrop : s.drop (textsOf (toks.take i)).length = toks[i].text ++ textsOf (toks.drop (i + 1)) := by
    conv => lhs; rw [hs]
    simp
  rw [hdrop] at hpre
  obtain ⟨r, hr⟩ := hpre
  -- `sp` is longer than the text, so it extends it by at least one character
  rcases List.append_eq_append_iff.mp hr with ⟨k, hk1, hk2⟩ | ⟨k, hk1, hk2⟩
  · -- text = sp ++ k : impossible, sp is longer
    have : toks[i].text.length = sp.length + k.length := by rw [hk1]; simp
    omega
  · cases k with
    | nil => simp at hk1; rw [hk1] at hlen; omega
    | cons d k' =>
      -- the next character of the input is `d`
      have hnext : s[0 + (textsOf (toks.take i)).length + toks[i].text.length]? = some d := by
        have hs' : s = (textsOf (toks.take i) ++ toks[i].text) ++ (d :: (k' ++ r)) := by
          rw [hs, hk2]; simp
        rw [hs', List.getElem?_append_right (by simp)]
        simp
      rcases OpEndFrom_get s 0 toks hf2.opEnd i hi hop with ⟨d', hd', hnone⟩ | hend
      · rw [hnext] at hd'
        simp only [Option.some.injEq] at hd'
        subst hd'
        obtain ⟨m, hm⟩ := table_prefix_path sp ty (toks[i].text ++ [d]) k' hsp (by rw [hk1]; simp)
        rw [hm] at hnone; cases hnone
      · have hl := congrArg List.length hs
        simp only [List.length_append] at hl
        have hl2 := congrArg List.length hk2
        simp only [List.length_append, List.length_cons] at hl2
        omega

/-- greedy without backtracking, exactly: in the Operator state, when the characters read so far are a path of the
tree without a token type (a proper prefix of spellings only, e.g. `>.` or `?`), and the next character neither
continues a path nor triggers one of the two documented switches (`_`-prefixed identifier, `.digit` float), then
`process_char` records the error "No token" — the lexer does not fall back to a shorter spelling -/
theorem processChar_no_backtracking (cc : CharClass) (σ : Lexer) (c : Char) (hs : σ.state = .operator)
    (hty : σ.currentTokenType = none)
    (hpath : walkOperator σ.operatorTree (σ.currentCharacters ++ [c]) = none)
    (hident : ¬(startsWith (σ.currentCharacters ++ [c]) '_' = true ∧ isIdentifier cc (σ.currentCharacters ++ [c]) = true))
    (hfloat : ¬(startsWith (σ.currentCharacters ++ [c]) '.' = true ∧ utf8Len (σ.currentCharacters ++ [c]) = 2 ∧
                cc.isNumeric c = true ∧ σ.canFloat = true)) :
    ∃ σ1, processChar cc σ c = .ok (σ1, none) ∧ σ1.result = .err := by
  have h1 : (startsWith (push σ.currentCharacters c) '_' && isIdentifier cc (push σ.currentCharacters c)) = false := by
    simpa [push] using hident
  have h2 : (startsWith (push σ.currentCharacters c) '.' && utf8Len (push σ.currentCharacters c) == 2
      && cc.isNumeric c && σ.canFloat) = false := by
    simp only [push, Bool.and_eq_false_iff, beq_eq_false_iff_ne, ne_eq]
    simp only [not_and, Bool.not_eq_true] at hfloat
    by_cases a : startsWith (σ.currentCharacters ++ [c]) '.' = true
    · by_cases b : utf8Len (σ.currentCharacters ++ [c]) = 2
      · by_cases d : cc.isNumeric c = true
        · exact Or.inr (hfloat a b d)
        · exact Or.inl (Or.inr (by simpa using d))
      · exact Or.inl (Or.inl (Or.inr b))
    · exact Or.inl (Or.inl (Or.inl (by simpa using a)))
  simp only [processChar, stateStep, hs, Step.ofPair, armOperator, currentOperator, push, hpath]
  simp only [push] at h1 h2
  simp only [h1, h2, Bool.false_eq_true, ↓reduceIte, finishChar, pushNewToken, canCreateValidToken, hty, pop_append_singleton]
  simp [hs, LexResult.isOk]

end Garnish.Model.Lexer
