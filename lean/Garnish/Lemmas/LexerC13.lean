/-
Helper lemmas for property C13 (Garnish/Props/C13.lean), about the lexer model Garnish.Model.Lexer
(= lexer.rs with the repair patches lexfix-1..5).

The central object is the invariant `Core σ consumed toks` ("after reading `consumed` the lexer `σ` has emitted
`toks`, holds the rest in `current_characters`, knows where the pending token started and where it is, and has no
error recorded"). `processChar_core` shows that `process_char` on a regular character keeps it or records an error,
`processChar_end` treats the end-of-input sentinel, `lexLoop_final`/`lex_final` lift this to `lex`.
-/
import Garnish.Lemmas.Lexer
set_option linter.unusedSimpArgs false
set_option linter.unusedVariables false
namespace Garnish.Model.Lexer

/-- position after reading `p`: (number of `'\n'`, number of characters after the last `'\n'`) -/
def posOf (p : List Char) : Nat × Nat :=
  (p.count '\n', (p.reverse.takeWhile (· != '\n')).length)

theorem posOf_nil : posOf [] = (0, 0) := rfl

theorem posOf_snoc (p : List Char) (c : Char) :
    posOf (p ++ [c]) = if c = '\n' then ((posOf p).1 + 1, 0) else ((posOf p).1, (posOf p).2 + 1) := by
  unfold posOf
  by_cases h : c = '\n'
  · subst h; simp
  · simp [h, List.count_append]

/-- concatenated token texts -/
def textsOf (toks : List LexerToken) : List Char := (toks.map (·.text)).flatten

@[simp] theorem textsOf_nil : textsOf [] = [] := rfl
theorem textsOf_snoc (toks : List LexerToken) (t : LexerToken) : textsOf (toks ++ [t]) = textsOf toks ++ t.text := by
  simp [textsOf]

/-- every token's row/column is the position of its first character, `p` being the text before the tokens -/
def TokPosFrom : List Char → List LexerToken → Prop
  | _, [] => True
  | p, t :: ts => (t.row, t.column) = posOf p ∧ TokPosFrom (p ++ t.text) ts

theorem TokPosFrom_snoc : ∀ (p : List Char) (ts : List LexerToken) (t : LexerToken),
    TokPosFrom p ts → (t.row, t.column) = posOf (p ++ textsOf ts) → TokPosFrom p (ts ++ [t])
  | p, [], t, _, h => by simpa [TokPosFrom] using h
  | p, t0 :: ts, t, h0, h => by
    simp only [List.cons_append, TokPosFrom] at h0 ⊢
    refine ⟨h0.1, TokPosFrom_snoc _ ts t h0.2 ?_⟩
    simpa [textsOf, List.append_assoc] using h

/-- `c` is the end-of-input sentinel -/
def Sentinel (σ : Lexer) (c : Char) : Prop := c = '\x00' ∧ σ.atEnd = true

/-- extra sanity of the Unicode tables: `'.'` is neither numeric nor alphanumeric -/
structure CharClass.Sane2 (cc : CharClass) : Prop extends cc.Sane where
  dotNumeric : cc.isNumeric '.' = false
  dotAlphanumeric : cc.isAlphanumeric '.' = false

/-- everything `start_token` leaves alone -/
structure StartFrame (σ σ2 : Lexer) : Prop where
  textRow : σ2.textRow = σ.textRow
  textColumn : σ2.textColumn = σ.textColumn
  tokenStartRow : σ2.tokenStartRow = σ.textRow
  tokenStartColumn : σ2.tokenStartColumn = σ.textColumn
  shouldCreate : σ2.shouldCreate = σ.shouldCreate
  atEnd : σ2.atEnd = σ.atEnd
  operatorTree : σ2.operatorTree = σ.operatorTree

theorem startToken_startFrame (cc : CharClass) (σ : Lexer) (c : Char) : StartFrame σ (startToken cc σ c) := by
  generalize hr : startToken cc σ c = r
  unfold startToken at hr
  simp only [] at hr
  repeat' split at hr
  all_goals (subst hr; constructor <;> rfl)

/-- what `start_token` does to state / characters / result -/
theorem startToken_effect (cc : CharClass) (σ : Lexer) (c : Char) (hok : σ.result = .ok) :
    (startToken cc σ c).result = .err ∨
    ((startToken cc σ c).result = .ok ∧ (startToken cc σ c).state = .noToken ∧
        (startToken cc σ c).currentCharacters = [] ∧ Sentinel σ c) ∨
    ((startToken cc σ c).result = .ok ∧ (startToken cc σ c).state ≠ .noToken ∧ (startToken cc σ c).state ≠ .float ∧
        (startToken cc σ c).currentCharacters = [c] ∧
        ((startToken cc σ c).state = .number → cc.isNumeric c = true)) := by
  generalize hr : startToken cc σ c = r
  unfold startToken at hr
  simp only [] at hr
  repeat' split at hr
  all_goals (subst hr; simp_all [push, Sentinel])

/-- shape of the characters of a float under construction: `a.b`, no other period; `.b` needs a digit -/
def FloatShape (cs : List Char) : Prop :=
  ∃ a b, cs = a ++ '.' :: b ∧ '.' ∉ a ∧ '.' ∉ b ∧ (a = [] → b ≠ [])

def Shape (σ : Lexer) : Prop :=
  (σ.state = .number → '.' ∉ σ.currentCharacters) ∧ (σ.state = .float → FloatShape σ.currentCharacters)

/-- fields the arms of `process_char` (other than NoToken and the float split) leave alone -/
structure ArmFrame (σ σ1 : Lexer) : Prop where
  textRow : σ1.textRow = σ.textRow
  textColumn : σ1.textColumn = σ.textColumn
  tokenStartRow : σ1.tokenStartRow = σ.tokenStartRow
  tokenStartColumn : σ1.tokenStartColumn = σ.tokenStartColumn
  result : σ1.result = σ.result
  atEnd : σ1.atEnd = σ.atEnd
  operatorTree : σ1.operatorTree = σ.operatorTree

theorem armFrame_iff (σ σ1 : Lexer) : ArmFrame σ σ1 ↔
    (σ1.textRow = σ.textRow ∧ σ1.textColumn = σ.textColumn ∧ σ1.tokenStartRow = σ.tokenStartRow ∧
     σ1.tokenStartColumn = σ.tokenStartColumn ∧ σ1.result = σ.result ∧ σ1.atEnd = σ.atEnd ∧
     σ1.operatorTree = σ.operatorTree) :=
  ⟨fun h => ⟨h.1, h.2, h.3, h.4, h.5, h.6, h.7⟩, fun h => ⟨h.1, h.2.1, h.2.2.1, h.2.2.2.1, h.2.2.2.2.1, h.2.2.2.2.2.1, h.2.2.2.2.2.2⟩⟩

/-- the three ways an arm treats a regular character: continue the token with it, end the token before it,
end the token with it -/
def ArmKind (σ : Lexer) (c : Char) (σ1 : Lexer) (sn : Bool) : Prop :=
  (sn = false ∧ σ1.shouldCreate = true ∧ σ1.currentCharacters = σ.currentCharacters ++ [c] ∧
      σ1.state ≠ .noToken ∧ Shape σ1) ∨
  (sn = true ∧ σ1.shouldCreate = true ∧ σ1.currentCharacters = σ.currentCharacters ∧ σ1.state ≠ .noToken) ∨
  (sn = true ∧ σ1.shouldCreate = false ∧ σ1.currentCharacters = σ.currentCharacters ++ [c] ∧ σ1.state ≠ .noToken)

def ArmEff (σ : Lexer) (c : Char) (p : Lexer × Bool) : Prop := ArmFrame σ p.1 ∧ ArmKind σ c p.1 p.2

/-- `hr : arm … = r`: unfold, split, substitute, simplify -/
macro "arm_tac" f:ident hr:ident : tactic =>
  `(tactic| (unfold $f at $hr:ident; (try simp only [] at $hr:ident); (repeat' split at $hr:ident);
             all_goals (subst $hr:ident; simp_all [ArmEff, ArmKind, Shape, push, Sentinel, armFrame_iff])))

theorem armIdentifier_eff (cc : CharClass) (σ : Lexer) (c : Char) (hs : σ.state = .identifier)
    (hc : σ.shouldCreate = true) : ArmEff σ c (armIdentifier cc σ c) := by
  generalize hr : armIdentifier cc σ c = r
  arm_tac armIdentifier hr

theorem armStartCharList_eff (σ : Lexer) (c : Char) (hs : σ.state = .startCharList)
    (hc : σ.shouldCreate = true) (hns : ¬Sentinel σ c) : ArmEff σ c (armStartCharList σ c) := by
  generalize hr : armStartCharList σ c = r
  arm_tac armStartCharList hr

theorem armCharList_eff (σ : Lexer) (c : Char) (hs : σ.state = .charList)
    (hc : σ.shouldCreate = true) : ArmEff σ c (armCharList σ c) := by
  generalize hr : armCharList σ c = r
  arm_tac armCharList hr

theorem armStartByteList_eff (σ : Lexer) (c : Char) (hs : σ.state = .startByteList)
    (hc : σ.shouldCreate = true) (hns : ¬Sentinel σ c) : ArmEff σ c (armStartByteList σ c) := by
  generalize hr : armStartByteList σ c = r
  arm_tac armStartByteList hr

theorem armByteList_eff (σ : Lexer) (c : Char) (hs : σ.state = .byteList)
    (hc : σ.shouldCreate = true) : ArmEff σ c (armByteList σ c) := by
  generalize hr : armByteList σ c = r
  arm_tac armByteList hr

theorem armSpaces_eff (σ : Lexer) (c : Char) (hs : σ.state = .spaces)
    (hc : σ.shouldCreate = true) : ArmEff σ c (armSpaces σ c) := by
  generalize hr : armSpaces σ c = r
  arm_tac armSpaces hr

theorem armSubexpression_eff (σ : Lexer) (c : Char) (hs : σ.state = .subexpression)
    (hc : σ.shouldCreate = true) : ArmEff σ c (armSubexpression σ c) := by
  generalize hr : armSubexpression σ c = r
  arm_tac armSubexpression hr

theorem armAnnotation_eff (cc : CharClass) (σ : Lexer) (c : Char) (hs : σ.state = .annotation)
    (hc : σ.shouldCreate = true) : ArmEff σ c (armAnnotation cc σ c) := by
  generalize hr : armAnnotation cc σ c = r
  arm_tac armAnnotation hr

theorem armLineAnnotation_eff (σ : Lexer) (c : Char) (hs : σ.state = .lineAnnotation)
    (hc : σ.shouldCreate = true) (hns : ¬Sentinel σ c) : ArmEff σ c (armLineAnnotation σ c) := by
  generalize hr : armLineAnnotation σ c = r
  arm_tac armLineAnnotation hr

@[simp] theorem pop_push (s : List Char) (c : Char) : pop (push s c) = s := by
  simp [pop, push]

theorem utf8Len_append (a b : List Char) : utf8Len (a ++ b) = utf8Len a + utf8Len b := by
  induction a with
  | nil => simp [utf8Len]
  | cons x r ih => simp [utf8Len, ih]; omega

theorem utf8Len_eq_zero {a : List Char} (h : utf8Len a = 0) : a = [] := by
  cases a with
  | nil => rfl
  | cons x r =>
    have := Char.utf8Size_pos x
    simp [utf8Len] at h; omega

theorem sane2_ne_dot {cc : CharClass} (hcc : cc.Sane2) {c : Char}
    (h : (cc.isNumeric c || c == '_' || cc.isAlphanumeric c) = true) : c ≠ '.' := by
  intro hc; subst hc
  simp [hcc.dotNumeric, hcc.dotAlphanumeric] at h

theorem FloatShape_push {cs : List Char} {c : Char} (h : FloatShape cs) (hc : c ≠ '.') : FloatShape (cs ++ [c]) := by
  obtain ⟨a, b, rfl, ha, hb, hab⟩ := h
  refine ⟨a, b ++ [c], by simp, ha, ?_, fun _ => by simp⟩
  simp only [List.mem_append, List.mem_singleton, not_or]
  exact ⟨hb, fun h => hc h.symm⟩

theorem FloatShape_of_number {cs : List Char} (h : '.' ∉ cs) (hne : cs ≠ []) : FloatShape (cs ++ ['.']) :=
  ⟨cs, [], rfl, h, by simp, fun h0 => absurd h0 hne⟩

theorem FloatShape_dot_digit {cs : List Char} {c : Char} (hne : cs ≠ []) (hs : startsWith (cs ++ [c]) '.' = true)
    (hl : utf8Len (cs ++ [c]) = 2) (hc : c ≠ '.') : FloatShape (cs ++ [c]) := by
  cases cs with
  | nil => exact absurd rfl hne
  | cons x r =>
    have hx : x = '.' := by simpa [startsWith] using hs
    subst hx
    have h1 := Char.utf8Size_pos c
    have h2 : ('.' : Char).utf8Size = 1 := by decide
    rw [utf8Len_append] at hl
    simp only [utf8Len, h2] at hl
    have hr : r = [] := utf8Len_eq_zero (by omega)
    subst hr
    exact ⟨[], [c], rfl, by simp, by simpa using fun h => hc h.symm, fun _ => by simp⟩

theorem armOperator_eff (cc : CharClass) (hcc : cc.Sane2) (σ : Lexer) (c : Char) (hs : σ.state = .operator)
    (hc : σ.shouldCreate = true) (hne : σ.currentCharacters ≠ []) : ArmEff σ c (armOperator cc σ c) := by
  generalize hr : armOperator cc σ c = r
  unfold armOperator at hr
  simp only [] at hr
  repeat' split at hr
  all_goals (subst hr; simp_all [ArmEff, ArmKind, Shape, Sentinel, armFrame_iff])
  all_goals (try simp [push])
  rename_i h
  refine FloatShape_dot_digit hne (by simpa [push] using h.1.1.1) (by simpa [push] using h.1.1.2) ?_
  intro hdot; subst hdot
  simp [hcc.dotNumeric] at h

theorem armNumber_eff (cc : CharClass) (hcc : cc.Sane2) (σ : Lexer) (c : Char) (hs : σ.state = .number)
    (hc : σ.shouldCreate = true) (hne : σ.currentCharacters ≠ []) (hsh : Shape σ) :
    ArmEff σ c (armNumber cc σ c) := by
  have hnd := hsh.1 hs
  generalize hr : armNumber cc σ c = r
  unfold armNumber at hr
  repeat' split at hr
  all_goals (subst hr; simp_all [ArmEff, ArmKind, Shape, Sentinel, armFrame_iff, push])
  · rename_i h
    intro hdot; subst hdot
    simp [hcc.dotNumeric, hcc.dotAlphanumeric] at h
  · exact FloatShape_of_number hnd hne

theorem dropWhile_dot_ne {x : Char} {r : List Char} (h : x ≠ '.') :
    (x :: r).dropWhile (fun y => y == '.') = x :: r := by
  have : (x == '.') = false := by simpa using h
  simp [List.dropWhile, this]

theorem dropWhile_dot_eq (r : List Char) :
    ('.' :: r).dropWhile (fun y => y == '.') = r.dropWhile (fun y => y == '.') := by
  simp [List.dropWhile]

theorem trimMatches_number {a : List Char} (hne : a ≠ []) (hnd : '.' ∉ a) : trimMatches (a ++ ['.']) '.' = a := by
  unfold trimMatches
  cases a with
  | nil => exact absurd rfl hne
  | cons x r =>
    have hx : x ≠ '.' := by intro h; subst h; simp at hnd
    rw [List.cons_append, dropWhile_dot_ne hx]
    rw [← List.cons_append, List.reverse_append]
    simp only [List.reverse_cons, List.reverse_nil, List.nil_append, List.singleton_append]
    rw [dropWhile_dot_eq]
    -- the reversed number starts with its last character, which is not a period
    cases hrev : (r.reverse ++ [x]) with
    | nil => simp at hrev
    | cons y ys =>
      have hy : y ∈ x :: r := by
        have : y ∈ r.reverse ++ [x] := by rw [hrev]; simp
        simpa [or_comm] using this
      have hyd : y ≠ '.' := by intro h; subst h; exact hnd hy
      rw [dropWhile_dot_ne hyd, ← hrev]
      simp

theorem FloatShape_endsWith {cs : List Char} (h : FloatShape cs) (he : endsWith cs '.' = true) :
    ∃ a, cs = a ++ ['.'] ∧ a ≠ [] ∧ '.' ∉ a := by
  obtain ⟨a, b, rfl, ha, hb, hab⟩ := h
  have hb0 : b = [] := by
    cases hbl : b.getLast? with
    | none => simpa using hbl
    | some y =>
      have hy : y ∈ b := List.mem_of_getLast? hbl
      have : (a ++ '.' :: b).getLast? = some y := by
        cases b with
        | nil => simp at hbl
        | cons z zs => simp [List.getLast?_append, List.getLast?_cons_cons] at hbl ⊢; simp [hbl]
      simp [endsWith, this] at he
      subst he
      exact absurd hy hb
  subst hb0
  refine ⟨a, rfl, ?_, ha⟩
  intro h0; exact hab h0 rfl

/-- the float split: `1.` followed by `.` emits the number and continues as the range operator `..` -/
structure FloatSplit (σ : Lexer) (a : List Char) (σ1 : Lexer) : Prop where
  chars0 : σ.currentCharacters = a ++ ['.']
  ane : a ≠ []
  anodot : '.' ∉ a
  chars : σ1.currentCharacters = ['.', '.']
  tokenStartRow : σ1.tokenStartRow = σ.textRow
  tokenStartColumn : σ1.tokenStartColumn = σ.textColumn - 1
  textRow : σ1.textRow = σ.textRow
  textColumn : σ1.textColumn = σ.textColumn
  shouldCreate : σ1.shouldCreate = σ.shouldCreate
  result : σ1.result = .ok
  notNoToken : σ1.state ≠ .noToken
  notFloat : σ1.state ≠ .float
  notNumber : σ1.state ≠ .number
  atEnd : σ1.atEnd = σ.atEnd
  operatorTree : σ1.operatorTree = σ.operatorTree

def FloatOut (σ : Lexer) (c : Char) (st : Step) : Prop :=
  (∃ σ1 sn, st = .cont σ1 none sn ∧ ArmEff σ c (σ1, sn)) ∨
  ((∃ σ1 nt, st = .cont σ1 nt false ∧ σ1.result = .err) ∨ (∃ σ1, st = .returnNone σ1 ∧ σ1.result = .err)) ∨
  (c = '.' ∧ ∃ a σ1, st = .cont σ1 (some ⟨a, .number, σ.tokenStartRow, σ.tokenStartColumn⟩) false ∧
    FloatSplit σ a σ1)

theorem armFloat_eff (cc : CharClass) (hcc : cc.Sane2) (σ : Lexer) (c : Char) (hs : σ.state = .float)
    (hc : σ.shouldCreate = true) (hsh : Shape σ) (hpos : 1 ≤ σ.textColumn) (hok : σ.result = .ok) :
    ∃ st, armFloat cc σ c = .ok st ∧ FloatOut σ c st := by
  have hfs := hsh.2 hs
  unfold armFloat
  split
  · rename_i hcond
    refine ⟨_, rfl, Or.inl ⟨_, _, rfl, ?_⟩⟩
    have := FloatShape_push hfs (sane2_ne_dot hcc hcond)
    simp [ArmEff, ArmKind, Shape, armFrame_iff, push, hs, hc, this]
  · split
    · rename_i hcond
      have hc' : c = '.' := by simp at hcond; exact hcond.1
      subst hc'
      have hends : endsWith σ.currentCharacters '.' = true := by simp at hcond; exact hcond
      obtain ⟨a, ha, hane, hand⟩ := FloatShape_endsWith hfs hends
      have hne : ¬ (σ.textColumn = 0) := by omega
      simp only [hne, ↓reduceIte]
      have hfr := startToken_startFrame cc { σ with tokenStartRow := σ.textRow } '.'
      have heff := startToken_effect cc { σ with tokenStartRow := σ.textRow } '.' (by simpa using hok)
      generalize hst : startToken cc { σ with tokenStartRow := σ.textRow } '.' = st at hfr heff
      rcases heff with herr | ⟨_, _, _, hsent⟩ | ⟨hrok, hnt, hnf, hchars, hnum⟩
      · -- start_token failed: the error stays
        split
        · exact ⟨_, rfl, Or.inr (Or.inl (Or.inl ⟨_, _, rfl, by simpa using herr⟩))⟩
        · exact ⟨_, rfl, Or.inr (Or.inl (Or.inr ⟨_, rfl, rfl⟩))⟩
      · exact absurd hsent.1 (by decide)
      · split
        · refine ⟨_, rfl, Or.inr (Or.inr ⟨rfl, a, ?_⟩)⟩
          rw [ha, trimMatches_number hane hand]
          refine ⟨_, rfl, ?_⟩
          · have hnn : st.state ≠ .number := fun h => by
              have := hnum h; rw [hcc.dotNumeric] at this; cases this
            have h1 : st.textRow = σ.textRow := hfr.textRow
            have h2 : st.textColumn = σ.textColumn := hfr.textColumn
            have h3 : st.tokenStartRow = σ.textRow := hfr.tokenStartRow
            have h4 : st.shouldCreate = σ.shouldCreate := hfr.shouldCreate
            have h5 : st.atEnd = σ.atEnd := hfr.atEnd
            have h6 : st.operatorTree = σ.operatorTree := hfr.operatorTree
            constructor <;> simp_all [push]
        · exact ⟨_, rfl, Or.inr (Or.inl (Or.inr ⟨_, rfl, rfl⟩))⟩
    · refine ⟨_, rfl, Or.inl ⟨_, _, rfl, ?_⟩⟩
      simp [ArmEff, ArmKind, armFrame_iff, hs, hc]

/-! ## the C13 invariant -/

/-- state of the lexer after `consumed` has been read and `toks` have been emitted (and no error recorded) -/
structure Core (σ : Lexer) (consumed : List Char) (toks : List LexerToken) : Prop where
  lossless : textsOf toks ++ σ.currentCharacters = consumed
  nonempty : ∀ t ∈ toks, t.text ≠ []
  noTok : σ.state = .noToken → σ.currentCharacters = []
  tok : σ.state ≠ .noToken → σ.currentCharacters ≠ []
  tokPos : TokPosFrom [] toks
  startPos : σ.state ≠ .noToken → (σ.tokenStartRow, σ.tokenStartColumn) = posOf (textsOf toks)
  textPos : (σ.textRow, σ.textColumn) = posOf consumed
  shape : Shape σ
  create : σ.shouldCreate = true
  ok : σ.result = .ok

theorem startToken_result_err (cc : CharClass) (σ : Lexer) (c : Char) (h : σ.result = .err) :
    (startToken cc σ c).result = .err := by
  generalize hr : startToken cc σ c = r
  unfold startToken at hr
  simp only [] at hr
  repeat' split at hr
  all_goals (subst hr; simp_all)

theorem bumpColumn_textPos (σ : Lexer) (c : Char) (consumed : List Char)
    (h : (σ.textRow, σ.textColumn) = posOf consumed) :
    ((bumpColumn σ c).textRow, (bumpColumn σ c).textColumn) = posOf (consumed ++ [c]) := by
  rw [posOf_snoc, ← h]
  unfold bumpColumn
  by_cases hc : c = '\n' <;> simp [hc]

@[simp] theorem bumpColumn_tokenStartRow (σ : Lexer) (c : Char) : (bumpColumn σ c).tokenStartRow = σ.tokenStartRow := by
  unfold bumpColumn; split <;> rfl
@[simp] theorem bumpColumn_tokenStartColumn (σ : Lexer) (c : Char) :
    (bumpColumn σ c).tokenStartColumn = σ.tokenStartColumn := by
  unfold bumpColumn; split <;> rfl
@[simp] theorem bumpColumn_shouldCreate (σ : Lexer) (c : Char) : (bumpColumn σ c).shouldCreate = σ.shouldCreate := by
  unfold bumpColumn; split <;> rfl
@[simp] theorem bumpColumn_result (σ : Lexer) (c : Char) : (bumpColumn σ c).result = σ.result := by
  unfold bumpColumn; split <;> rfl
@[simp] theorem bumpColumn_atEnd (σ : Lexer) (c : Char) : (bumpColumn σ c).atEnd = σ.atEnd := by
  unfold bumpColumn; split <;> rfl

theorem Shape_bump {σ : Lexer} {c : Char} (h : Shape σ) : Shape (bumpColumn σ c) := by
  unfold Shape at *; simpa using h

/-- a freshly started token (regular character) re-establishes the invariant -/
theorem Core_start (cc : CharClass) (hcc : cc.Sane2) (σ2 : Lexer) (c : Char) (consumed : List Char)
    (toks : List LexerToken)
    (hlos : textsOf toks = consumed) (hne : ∀ t ∈ toks, t.text ≠ []) (hpos : TokPosFrom [] toks)
    (htext : (σ2.textRow, σ2.textColumn) = posOf consumed) (hcr : σ2.shouldCreate = true) (hok : σ2.result = .ok)
    (hns : ¬Sentinel σ2 c) :
    (bumpColumn (startToken cc σ2 c) c).result = .err ∨
    Core (bumpColumn (startToken cc σ2 c) c) (consumed ++ [c]) toks := by
  have hfr := startToken_startFrame cc σ2 c
  rcases startToken_effect cc σ2 c hok with herr | ⟨_, _, _, hsent⟩ | ⟨hrok, hnt, hnf, hchars, hnum⟩
  · exact Or.inl (by simpa using herr)
  · exact absurd hsent hns
  · refine Or.inr ⟨?_, hne, ?_, ?_, hpos, ?_, ?_, ?_, ?_, ?_⟩
    · simp [hchars, hlos]
    · intro h; simp at h; exact absurd h hnt
    · intro _; simp [hchars]
    · intro _
      simp only [bumpColumn_tokenStartRow, bumpColumn_tokenStartColumn, hfr.tokenStartRow, hfr.tokenStartColumn]
      rw [hlos]; exact htext
    · apply bumpColumn_textPos
      rw [hfr.textRow, hfr.textColumn]; exact htext
    · apply Shape_bump
      refine ⟨fun h => ?_, fun h => absurd h hnf⟩
      rw [hchars]
      have hn := hnum h
      intro hmem
      simp at hmem
      subst hmem
      rw [hcc.dotNumeric] at hn; cases hn
    · simp [hfr.shouldCreate, hcr]
    · simpa using hrok

theorem TokPosFrom_emit {σ : Lexer} {consumed : List Char} {toks : List LexerToken} (hcore : Core σ consumed toks)
    (hst : σ.state ≠ .noToken) (text : List Char) (ty : Gen.TokenType) :
    TokPosFrom [] (toks ++ [⟨text, ty, σ.tokenStartRow, σ.tokenStartColumn⟩]) := by
  apply TokPosFrom_snoc _ _ _ hcore.tokPos
  simpa using hcore.startPos hst

/-- the part of `process_char` after the arm, for an arm that treated a regular character in one of the three ways -/
theorem finishChar_core (cc : CharClass) (hcc : cc.Sane2) (σ : Lexer) (c : Char) (consumed : List Char)
    (toks : List LexerToken) (hcore : Core σ consumed toks) (hst : σ.state ≠ .noToken)
    (σ1 : Lexer) (sn : Bool) (heff : ArmEff σ c (σ1, sn)) (hns : ¬Sentinel σ c) :
    (finishChar cc σ1 c none sn).1.result = .err ∨
    Core (finishChar cc σ1 c none sn).1 (consumed ++ [c]) (toks ++ (finishChar cc σ1 c none sn).2.toList) := by
  obtain ⟨hfr, hk⟩ := heff
  simp only [] at hfr hk
  have hok1 : σ1.result = .ok := by rw [hfr.result]; exact hcore.ok
  rcases hk with ⟨rfl, hcr, hch, hnt, hsh⟩ | ⟨rfl, hcr, hch, hnt⟩ | ⟨rfl, hcr, hch, hnt⟩
  · -- the character continues the token
    right
    simp only [finishChar, Bool.false_eq_true, ↓reduceIte, Option.toList_none, List.append_nil]
    refine ⟨?_, hcore.nonempty, ?_, ?_, hcore.tokPos, ?_, ?_, Shape_bump hsh, by simpa using hcr, by simpa using hok1⟩
    · simp [hch, ← hcore.lossless]
    · intro h; simp at h; exact absurd h hnt
    · intro _; simp [hch]
    · intro _
      simp only [bumpColumn_tokenStartRow, bumpColumn_tokenStartColumn, hfr.tokenStartRow, hfr.tokenStartColumn]
      exact hcore.startPos hst
    · apply bumpColumn_textPos
      rw [hfr.textRow, hfr.textColumn]; exact hcore.textPos
  · -- the token ends before the character, which starts the next token
    simp only [finishChar, ↓reduceIte, pushNewToken]
    have hne : (σ1.state != LexingState.noToken) = true := by simpa using hnt
    simp only [hne, ↓reduceIte]
    cases hcv : canCreateValidToken { σ1 with canFloat := !blocksFloat σ1.currentTokenType } with
    | err =>
      left
      simp only [LexResult.isOk, Bool.false_eq_true, ↓reduceIte, hcr]
      simp only [bumpColumn_result]
      exact startToken_result_err cc _ c rfl
    | ok =>
      simp only [LexResult.isOk, ↓reduceIte]
      cases hty : σ1.currentTokenType with
      | none => left; rfl
      | some ty =>
        simp only [hcr, ↓reduceIte, Option.toList_some]
        have hchne : σ.currentCharacters ≠ [] := hcore.tok hst
        rw [hfr.tokenStartRow, hfr.tokenStartColumn, hch]
        apply Core_start cc hcc
        · rw [textsOf_snoc]; exact hcore.lossless
        · intro t ht
          simp only [List.mem_append, List.mem_singleton] at ht
          rcases ht with ht | rfl
          · exact hcore.nonempty t ht
          · exact hchne
        · exact TokPosFrom_emit hcore hst _ _
        · simp only [hfr.textRow, hfr.textColumn]; exact hcore.textPos
        · rfl
        · rfl
        · intro hs; exact hns ⟨hs.1, by simpa [hfr.atEnd] using hs.2⟩
  · -- the token ends with the character
    simp only [finishChar, ↓reduceIte, pushNewToken]
    have hne : (σ1.state != LexingState.noToken) = true := by simpa using hnt
    simp only [hne, ↓reduceIte]
    cases hcv : canCreateValidToken { σ1 with canFloat := !blocksFloat σ1.currentTokenType } with
    | err =>
      left
      simp [LexResult.isOk, hcr]
    | ok =>
      simp only [LexResult.isOk, ↓reduceIte]
      cases hty : σ1.currentTokenType with
      | none => left; rfl
      | some ty =>
        right
        simp only [hcr, Bool.false_eq_true, ↓reduceIte, Option.toList_some]
        rw [hfr.tokenStartRow, hfr.tokenStartColumn, hch]
        refine ⟨?_, ?_, ?_, ?_, TokPosFrom_emit hcore hst _ _, ?_, ?_, ?_, by simp, by simp⟩
        · simp [textsOf_snoc, ← hcore.lossless]
        · intro t ht
          simp only [List.mem_append, List.mem_singleton] at ht
          rcases ht with ht | rfl
          · exact hcore.nonempty t ht
          · simp
        · intro _; simp
        · intro h; simp at h
        · intro h; simp at h
        · apply bumpColumn_textPos
          simp only [hfr.textRow, hfr.textColumn]; exact hcore.textPos
        · apply Shape_bump
          exact ⟨fun h => by simp at h, fun h => by simp at h⟩

theorem Core_lexed {σ : Lexer} {consumed : List Char} {toks : List LexerToken} (n : Nat)
    (h : Core σ consumed toks) : Core { σ with charactersLexed := n } consumed toks :=
  ⟨h.1, h.2, h.3, h.4, h.5, h.6, h.7, h.8, h.9, h.10⟩

/-- the float split keeps the invariant -/
theorem floatSplit_core (σ : Lexer) (consumed : List Char) (toks : List LexerToken) (hcore : Core σ consumed toks)
    (hst : σ.state ≠ .noToken) (a : List Char) (σ1 : Lexer) (hsp : FloatSplit σ a σ1) :
    Core (bumpColumn σ1 '.') (consumed ++ ['.'])
      (toks ++ [⟨a, .number, σ.tokenStartRow, σ.tokenStartColumn⟩]) := by
  have hcons : consumed = (textsOf toks ++ a) ++ ['.'] := by
    rw [← hcore.lossless, hsp.chars0, List.append_assoc]
  refine ⟨?_, ?_, ?_, ?_, TokPosFrom_emit hcore hst _ _, ?_, ?_, ?_, ?_, ?_⟩
  · simp [textsOf_snoc, hsp.chars, hcons]
  · intro t ht
    simp only [List.mem_append, List.mem_singleton] at ht
    rcases ht with ht | rfl
    · exact hcore.nonempty t ht
    · exact hsp.ane
  · intro h; simp at h; exact absurd h hsp.notNoToken
  · intro _; simp [hsp.chars]
  · intro _
    simp only [bumpColumn_tokenStartRow, bumpColumn_tokenStartColumn, hsp.tokenStartRow, hsp.tokenStartColumn,
      textsOf_snoc]
    have htp := hcore.textPos
    rw [hcons, posOf_snoc] at htp
    simp only [show ¬ (('.' : Char) = '\n') by decide, ↓reduceIte] at htp
    have h1 : σ.textRow = (posOf (textsOf toks ++ a)).1 := congrArg Prod.fst htp
    have h2 : σ.textColumn = (posOf (textsOf toks ++ a)).2 + 1 := congrArg Prod.snd htp
    rw [h1, h2]; simp
  · apply bumpColumn_textPos
    rw [hsp.textRow, hsp.textColumn]; exact hcore.textPos
  · apply Shape_bump
    exact ⟨fun h => absurd h hsp.notNumber, fun h => absurd h hsp.notFloat⟩
  · simp [hsp.shouldCreate, hcore.create]
  · simpa using hsp.result

/-- `process_char` on a regular character keeps the invariant or records an error -/
theorem processChar_core (cc : CharClass) (hcc : cc.Sane2) (σ : Lexer) (c : Char) (consumed : List Char)
    (toks : List LexerToken) (hcore : Core σ consumed toks) (hinv : Inv σ) (hns : ¬Sentinel σ c)
    (σ' : Lexer) (ot : Option LexerToken) (h : processChar cc σ c = .ok (σ', ot)) :
    σ'.result = .err ∨ Core σ' (consumed ++ [c]) (toks ++ ot.toList) := by
  unfold processChar at h
  simp only [] at h
  have hcore0 := Core_lexed (σ.charactersLexed + 1) hcore
  generalize hσ0 : { σ with charactersLexed := σ.charactersLexed + 1 } = σ0 at h hcore0
  have hs0 : σ0.state = σ.state := by subst hσ0; rfl
  have hns0 : ¬Sentinel σ0 c := by subst hσ0; exact hns
  have hinv0 : Inv σ0 := by subst hσ0; exact hinv
  clear hσ0 hcore hns hinv
  have key : ∀ p : Lexer × Bool, σ0.state ≠ .noToken → ArmEff σ0 c p →
      stateStep cc σ0 c = Step.ofPair p → σ'.result = .err ∨ Core σ' (consumed ++ [c]) (toks ++ ot.toList) := by
    intro p hst heff hss
    rw [hss] at h
    simp only [Step.ofPair, Outcome.ok.injEq] at h
    have := finishChar_core cc hcc σ0 c consumed toks hcore0 hst p.1 p.2 heff hns0
    rw [h] at this
    exact this
  unfold stateStep at h key
  cases hs : σ0.state <;> rw [hs] at h key <;> simp only [] at h key
  case noToken =>
    simp only [Step.ofPair, armNoToken, finishChar, Bool.false_eq_true, ↓reduceIte, Outcome.ok.injEq,
      Prod.mk.injEq] at h
    obtain ⟨rfl, rfl⟩ := h
    simp only [Option.toList_none, List.append_nil]
    have hch := hcore0.noTok hs
    apply Core_start cc hcc σ0 c consumed toks ?_ hcore0.nonempty hcore0.tokPos hcore0.textPos hcore0.create
      hcore0.ok hns0
    have := hcore0.lossless
    rw [hch, List.append_nil] at this
    exact this
  case float =>
    have hpos : 1 ≤ σ0.textColumn := hinv0 hs
    obtain ⟨st, hst, hout⟩ := armFloat_eff cc hcc σ0 c hs hcore0.create hcore0.shape hpos hcore0.ok
    rw [hst] at h
    have hnt : σ0.state ≠ .noToken := by rw [hs]; decide
    rcases hout with ⟨σ1, sn, rfl, heff⟩ | herr | ⟨rfl, a, σ1, rfl, hsp⟩
    · simp only [Outcome.ok.injEq] at h
      have := finishChar_core cc hcc σ0 c consumed toks hcore0 hnt σ1 sn heff hns0
      rw [h] at this
      exact this
    · left
      rcases herr with ⟨s1, nt, rfl, herr⟩ | ⟨s1, rfl, herr⟩
      · simp only [finishChar, Bool.false_eq_true, ↓reduceIte, Outcome.ok.injEq, Prod.mk.injEq] at h
        obtain ⟨rfl, _⟩ := h
        simpa using herr
      · simp only [Outcome.ok.injEq, Prod.mk.injEq] at h
        obtain ⟨rfl, _⟩ := h
        exact herr
    · simp only [finishChar, Bool.false_eq_true, ↓reduceIte, Outcome.ok.injEq, Prod.mk.injEq] at h
      obtain ⟨rfl, rfl⟩ := h
      right
      simpa using floatSplit_core σ0 consumed toks hcore0 hnt a σ1 hsp
  all_goals (have hnt : σ0.state ≠ .noToken := by rw [hs]; decide)
  · exact key _ (by decide) (armOperator_eff cc hcc σ0 c hs hcore0.create (hcore0.tok hnt)) rfl
  · exact key _ (by decide) (armSpaces_eff σ0 c hs hcore0.create) rfl
  · exact key _ (by decide) (armSubexpression_eff σ0 c hs hcore0.create) rfl
  · exact key _ (by decide) (armNumber_eff cc hcc σ0 c hs hcore0.create (hcore0.tok hnt) hcore0.shape) rfl
  · exact key _ (by decide) (armIdentifier_eff cc σ0 c hs hcore0.create) rfl
  · exact key _ (by decide) (armAnnotation_eff cc σ0 c hs hcore0.create) rfl
  · exact key _ (by decide) (armLineAnnotation_eff σ0 c hs hcore0.create hns0) rfl
  · exact key _ (by decide) (armCharList_eff σ0 c hs hcore0.create) rfl
  · exact key _ (by decide) (armStartCharList_eff σ0 c hs hcore0.create hns0) rfl
  · exact key _ (by decide) (armByteList_eff σ0 c hs hcore0.create) rfl
  · exact key _ (by decide) (armStartByteList_eff σ0 c hs hcore0.create hns0) rfl

/-! ## the end-of-input sentinel -/

theorem startToken_nul_full (cc : CharClass) (hcc : cc.Sane) (σ : Lexer) (ht : TreeOk σ.operatorTree)
    (hat : σ.atEnd = true) :
    (startToken cc σ '\x00').state = .noToken ∧ (startToken cc σ '\x00').currentCharacters = [] ∧
    (startToken cc σ '\x00').result = σ.result := by
  unfold TreeOk at ht
  generalize hr : startToken cc σ '\x00' = r
  unfold startToken at hr
  simp [currentOperator, push, ht, isAsciiWhitespace, isIdentifierChar, hcc.nulNumeric, hcc.nulAlphanumeric, hat] at hr
  subst hr; exact ⟨rfl, rfl, rfl⟩

/-- how an arm treats the sentinel: it either keeps a non-empty unfinished token or ends the token before it -/
def ArmEnd (σ : Lexer) (p : Lexer × Bool) : Prop :=
  ArmFrame σ p.1 ∧ p.1.state ≠ .noToken ∧
  ((p.2 = false ∧ p.1.currentCharacters ≠ []) ∨
   (p.2 = true ∧ p.1.shouldCreate = true ∧ p.1.currentCharacters = σ.currentCharacters))

theorem nul_not_ws : isAsciiWhitespace '\x00' = false := by decide

macro "end_tac" f:ident hr:ident hcc:ident : tactic =>
  `(tactic| (unfold $f at $hr:ident; (try simp only [] at $hr:ident); (repeat' split at $hr:ident);
             all_goals (subst $hr:ident; simp_all [ArmEnd, push, armFrame_iff, nul_not_ws, isIdentifierChar, isIdentifier,
                          CharClass.Sane.nulNumeric $hcc, CharClass.Sane.nulAlphanumeric $hcc])))

macro "end_tac0" f:ident hr:ident : tactic =>
  `(tactic| (unfold $f at $hr:ident; (try simp only [] at $hr:ident); (repeat' split at $hr:ident);
             all_goals (subst $hr:ident; simp_all [ArmEnd, push, armFrame_iff, nul_not_ws])))

@[simp] theorem pop_append_singleton (s : List Char) (c : Char) : pop (s ++ [c]) = s := by
  simp [pop]

theorem armOperator_end (cc : CharClass) (hcc : cc.Sane) (σ : Lexer) (hs : σ.state = .operator)
    (hc : σ.shouldCreate = true) (hne : σ.currentCharacters ≠ []) : ArmEnd σ (armOperator cc σ '\x00') := by
  generalize hr : armOperator cc σ '\x00' = r
  end_tac armOperator hr hcc
theorem armNumber_end (cc : CharClass) (hcc : cc.Sane) (σ : Lexer) (hs : σ.state = .number)
    (hc : σ.shouldCreate = true) (hne : σ.currentCharacters ≠ []) : ArmEnd σ (armNumber cc σ '\x00') := by
  generalize hr : armNumber cc σ '\x00' = r
  end_tac armNumber hr hcc
theorem armIdentifier_end (cc : CharClass) (hcc : cc.Sane) (σ : Lexer) (hs : σ.state = .identifier)
    (hc : σ.shouldCreate = true) (hne : σ.currentCharacters ≠ []) : ArmEnd σ (armIdentifier cc σ '\x00') := by
  generalize hr : armIdentifier cc σ '\x00' = r
  end_tac armIdentifier hr hcc
theorem armStartCharList_end (σ : Lexer) (hs : σ.state = .startCharList)
    (hc : σ.shouldCreate = true) (hne : σ.currentCharacters ≠ []) (hat : σ.atEnd = true) :
    ArmEnd σ (armStartCharList σ '\x00') := by
  generalize hr : armStartCharList σ '\x00' = r
  end_tac0 armStartCharList hr
theorem armCharList_end (σ : Lexer) (hs : σ.state = .charList)
    (hc : σ.shouldCreate = true) (hne : σ.currentCharacters ≠ []) : ArmEnd σ (armCharList σ '\x00') := by
  generalize hr : armCharList σ '\x00' = r
  end_tac0 armCharList hr
theorem armStartByteList_end (σ : Lexer) (hs : σ.state = .startByteList)
    (hc : σ.shouldCreate = true) (hne : σ.currentCharacters ≠ []) (hat : σ.atEnd = true) :
    ArmEnd σ (armStartByteList σ '\x00') := by
  generalize hr : armStartByteList σ '\x00' = r
  end_tac0 armStartByteList hr
theorem armByteList_end (σ : Lexer) (hs : σ.state = .byteList)
    (hc : σ.shouldCreate = true) (hne : σ.currentCharacters ≠ []) : ArmEnd σ (armByteList σ '\x00') := by
  generalize hr : armByteList σ '\x00' = r
  end_tac0 armByteList hr
theorem armSpaces_end (σ : Lexer) (hs : σ.state = .spaces)
    (hc : σ.shouldCreate = true) (hne : σ.currentCharacters ≠ []) : ArmEnd σ (armSpaces σ '\x00') := by
  generalize hr : armSpaces σ '\x00' = r
  end_tac0 armSpaces hr
theorem armSubexpression_end (σ : Lexer) (hs : σ.state = .subexpression)
    (hc : σ.shouldCreate = true) (hne : σ.currentCharacters ≠ []) : ArmEnd σ (armSubexpression σ '\x00') := by
  generalize hr : armSubexpression σ '\x00' = r
  end_tac0 armSubexpression hr
theorem armAnnotation_end (cc : CharClass) (hcc : cc.Sane) (σ : Lexer) (hs : σ.state = .annotation)
    (hc : σ.shouldCreate = true) (hne : σ.currentCharacters ≠ []) : ArmEnd σ (armAnnotation cc σ '\x00') := by
  generalize hr : armAnnotation cc σ '\x00' = r
  end_tac armAnnotation hr hcc
theorem armLineAnnotation_end (σ : Lexer) (hs : σ.state = .lineAnnotation)
    (hc : σ.shouldCreate = true) (hne : σ.currentCharacters ≠ []) (hat : σ.atEnd = true) :
    ArmEnd σ (armLineAnnotation σ '\x00') := by
  generalize hr : armLineAnnotation σ '\x00' = r
  end_tac0 armLineAnnotation hr

theorem armFloat_end (cc : CharClass) (hcc : cc.Sane) (σ : Lexer) (hs : σ.state = .float)
    (hc : σ.shouldCreate = true) :
    ∃ σ1 sn, armFloat cc σ '\x00' = .ok (.cont σ1 none sn) ∧ ArmEnd σ (σ1, sn) := by
  unfold armFloat
  have h1 : (cc.isNumeric '\x00' || '\x00' == '_' || cc.isAlphanumeric '\x00') = false := by
    simp [hcc.nulNumeric, hcc.nulAlphanumeric]
  have h2 : (('\x00' : Char) == '.') = false := by decide
  simp only [h1, Bool.false_eq_true, ↓reduceIte, h2, Bool.false_and]
  exact ⟨_, _, rfl, by simp [ArmEnd, armFrame_iff, hs, hc]⟩

/-- result of the lexer: what `lex` returns once the input is exhausted -/
structure Final (toks : List LexerToken) (consumed : List Char) : Prop where
  lossless : textsOf toks = consumed
  nonempty : ∀ t ∈ toks, t.text ≠ []
  tokPos : TokPosFrom [] toks

/-- the rest of `process_char` on the sentinel -/
theorem finishChar_end (cc : CharClass) (hcc : cc.Sane) (σ : Lexer) (consumed : List Char)
    (toks : List LexerToken) (hcore : Core σ consumed toks) (hst : σ.state ≠ .noToken)
    (hat : σ.atEnd = true) (htree : TreeOk σ.operatorTree)
    (σ1 : Lexer) (sn : Bool) (heff : ArmEnd σ (σ1, sn)) :
    (finishChar cc σ1 '\x00' none sn).1.result = .err ∨
    ((finishChar cc σ1 '\x00' none sn).2 = none ∧ (finishChar cc σ1 '\x00' none sn).1.currentCharacters ≠ []) ∨
    (∃ t, (finishChar cc σ1 '\x00' none sn).2 = some t ∧ (finishChar cc σ1 '\x00' none sn).1.state = .noToken ∧
        Final (toks ++ [t]) consumed) := by
  obtain ⟨hfr, hnt, hk⟩ := heff
  simp only [] at hfr hk hnt
  rcases hk with ⟨rfl, hch⟩ | ⟨rfl, hcr, hch⟩
  · right; left
    simp only [finishChar, Bool.false_eq_true, ↓reduceIte, bumpColumn_chars]
    exact ⟨trivial, hch⟩
  · simp only [finishChar, ↓reduceIte, pushNewToken]
    have hne : (σ1.state != LexingState.noToken) = true := by simpa using hnt
    simp only [hne, ↓reduceIte]
    cases hcv : canCreateValidToken { σ1 with canFloat := !blocksFloat σ1.currentTokenType } with
    | err =>
      left
      simp only [LexResult.isOk, Bool.false_eq_true, ↓reduceIte, hcr]
      simp only [bumpColumn_result]
      exact startToken_result_err cc _ _ rfl
    | ok =>
      simp only [LexResult.isOk, ↓reduceIte]
      cases hty : σ1.currentTokenType with
      | none => left; rfl
      | some ty =>
        right; right
        simp only [hcr, ↓reduceIte]
        refine ⟨_, rfl, ?_, ?_⟩
        · rw [bumpColumn_state]
          exact (startToken_nul_full cc hcc _ (by simpa [hfr.operatorTree] using htree)
            (by simpa [hfr.atEnd] using hat)).1
        · rw [hfr.tokenStartRow, hfr.tokenStartColumn, hch]
          refine ⟨?_, ?_, TokPosFrom_emit hcore hst _ _⟩
          · rw [textsOf_snoc]; exact hcore.lossless
          · intro t ht
            simp only [List.mem_append, List.mem_singleton] at ht
            rcases ht with ht | rfl
            · exact hcore.nonempty t ht
            · exact hcore.tok hst

/-- `process_char` on the end-of-input sentinel -/
theorem processChar_end (cc : CharClass) (hcc : cc.Sane) (σ : Lexer) (consumed : List Char)
    (toks : List LexerToken) (hcore : Core σ consumed toks) (hat : σ.atEnd = true) (htree : TreeOk σ.operatorTree)
    (σ' : Lexer) (ot : Option LexerToken) (h : processChar cc σ '\x00' = .ok (σ', ot)) :
    σ'.result = .err ∨
    (ot = none ∧ (σ'.currentCharacters ≠ [] ∨ Final toks consumed)) ∨
    (∃ t, ot = some t ∧ σ'.state = .noToken ∧ Final (toks ++ [t]) consumed) := by
  unfold processChar at h
  simp only [] at h
  have hcore0 := Core_lexed (σ.charactersLexed + 1) hcore
  generalize hσ0 : { σ with charactersLexed := σ.charactersLexed + 1 } = σ0 at h hcore0
  have hat0 : σ0.atEnd = true := by subst hσ0; exact hat
  have htree0 : TreeOk σ0.operatorTree := by subst hσ0; exact htree
  clear hσ0 hcore hat htree
  have key : ∀ p : Lexer × Bool, σ0.state ≠ .noToken → ArmEnd σ0 p →
      stateStep cc σ0 '\x00' = Step.ofPair p →
      σ'.result = .err ∨ (ot = none ∧ (σ'.currentCharacters ≠ [] ∨ Final toks consumed)) ∨
      (∃ t, ot = some t ∧ σ'.state = .noToken ∧ Final (toks ++ [t]) consumed) := by
    intro p hst heff hss
    rw [hss] at h
    simp only [Step.ofPair, Outcome.ok.injEq] at h
    have := finishChar_end cc hcc σ0 consumed toks hcore0 hst hat0 htree0 p.1 p.2 heff
    rw [h] at this
    rcases this with h1 | ⟨h1, h2⟩ | h3
    · exact Or.inl h1
    · exact Or.inr (Or.inl ⟨h1, Or.inl h2⟩)
    · exact Or.inr (Or.inr h3)
  unfold stateStep at h key
  cases hs : σ0.state <;> rw [hs] at h key <;> simp only [] at h key
  case noToken =>
    simp only [Step.ofPair, armNoToken, finishChar, Bool.false_eq_true, ↓reduceIte, Outcome.ok.injEq,
      Prod.mk.injEq] at h
    obtain ⟨rfl, rfl⟩ := h
    right; left
    refine ⟨rfl, Or.inr ⟨?_, hcore0.nonempty, hcore0.tokPos⟩⟩
    have := hcore0.lossless
    rw [hcore0.noTok hs, List.append_nil] at this
    exact this
  case float =>
    have hnt : σ0.state ≠ .noToken := by rw [hs]; decide
    obtain ⟨σ1, sn, hst, heff⟩ := armFloat_end cc hcc σ0 hs hcore0.create
    rw [hst] at h
    simp only [Outcome.ok.injEq] at h
    have := finishChar_end cc hcc σ0 consumed toks hcore0 hnt hat0 htree0 σ1 sn heff
    rw [h] at this
    rcases this with h1 | ⟨h1, h2⟩ | h3
    · exact Or.inl h1
    · exact Or.inr (Or.inl ⟨h1, Or.inl h2⟩)
    · exact Or.inr (Or.inr h3)
  all_goals (have hnt : σ0.state ≠ .noToken := by rw [hs]; decide)
  · exact key _ (by decide) (armOperator_end cc hcc σ0 hs hcore0.create (hcore0.tok hnt)) rfl
  · exact key _ (by decide) (armSpaces_end σ0 hs hcore0.create (hcore0.tok hnt)) rfl
  · exact key _ (by decide) (armSubexpression_end σ0 hs hcore0.create (hcore0.tok hnt)) rfl
  · exact key _ (by decide) (armNumber_end cc hcc σ0 hs hcore0.create (hcore0.tok hnt)) rfl
  · exact key _ (by decide) (armIdentifier_end cc hcc σ0 hs hcore0.create (hcore0.tok hnt)) rfl
  · exact key _ (by decide) (armAnnotation_end cc hcc σ0 hs hcore0.create (hcore0.tok hnt)) rfl
  · exact key _ (by decide) (armLineAnnotation_end σ0 hs hcore0.create (hcore0.tok hnt) hat0) rfl
  · exact key _ (by decide) (armCharList_end σ0 hs hcore0.create (hcore0.tok hnt)) rfl
  · exact key _ (by decide) (armStartCharList_end σ0 hs hcore0.create (hcore0.tok hnt) hat0) rfl
  · exact key _ (by decide) (armByteList_end σ0 hs hcore0.create (hcore0.tok hnt)) rfl
  · exact key _ (by decide) (armStartByteList_end σ0 hs hcore0.create (hcore0.tok hnt) hat0) rfl

/-! ## the loop -/

theorem lexFinish_ok {σ σ' : Lexer} {toks toks' : List LexerToken} (h : lexFinish σ toks = .ok (toks', σ')) :
    toks' = toks ∧ σ.result = .ok := by
  unfold lexFinish at h
  cases hr : σ.result <;> rw [hr] at h <;> simp at h
  exact ⟨h.1.symm, rfl⟩

theorem isErr_of_ok {σ : Lexer} (h : σ.result = .ok) : σ.result.isErr = false := by rw [h]; rfl

theorem Core_atEnd {σ : Lexer} {consumed : List Char} {toks : List LexerToken} (b : Bool)
    (h : Core σ consumed toks) : Core { σ with atEnd := b } consumed toks :=
  ⟨h.1, h.2, h.3, h.4, h.5, h.6, h.7, h.8, h.9, h.10⟩

/-- second sentinel: in `NoToken` nothing more is emitted -/
theorem lexEnd_second (cc : CharClass) (fuel : Nat) (σ σ' : Lexer) (toks toks' : List LexerToken)
    (hs : σ.state = .noToken) (h : lexEnd cc (fuel + 1) σ toks = .ok (toks', σ')) : toks' = toks := by
  simp only [lexEnd] at h
  split at h
  · exact (lexFinish_ok h).1
  · cases hp : processChar cc { σ with atEnd := true } '\x00' with
    | ok r =>
      obtain ⟨σ1, ot⟩ := r
      have hnone := processChar_noToken_none cc _ _ _ _ (by simpa using hs) hp
      subst hnone
      rw [hp] at h
      simp only [] at h
      exact (lexFinish_ok h).1
    | err e => rw [hp] at h; cases h
    | panic m => rw [hp] at h; cases h
    | fuelOut => rw [hp] at h; cases h

theorem lexEnd_final (cc : CharClass) (hcc : cc.Sane) (fuel : Nat) (σ σ' : Lexer) (consumed : List Char)
    (toks toks' : List LexerToken) (hcore : Core σ consumed toks) (htree : TreeOk σ.operatorTree)
    (h : lexEnd cc (fuel + 2) σ toks = .ok (toks', σ')) : Final toks' consumed := by
  rw [show fuel + 2 = (fuel + 1) + 1 from rfl, lexEnd] at h
  simp only [isErr_of_ok hcore.ok, Bool.false_eq_true, ↓reduceIte] at h
  cases hp : processChar cc { σ with atEnd := true } '\x00' with
  | ok r =>
    obtain ⟨σ1, ot⟩ := r
    rw [hp] at h
    have hend := processChar_end cc hcc _ consumed toks (Core_atEnd true hcore) rfl (by simpa using htree) σ1 ot hp
    cases ot with
    | none =>
      simp only [] at h
      obtain ⟨htoks, hres⟩ := lexFinish_ok h
      subst htoks
      rcases hend with herr | ⟨_, hne | hfin⟩ | ⟨t, ht, _⟩
      · -- an error was recorded: lexFinish cannot succeed
        exfalso
        split at hres
        · simp at hres
        · rw [herr] at hres; cases hres
      · exfalso
        have hlen : utf8Len σ1.currentCharacters > 0 := by
          cases hc : σ1.currentCharacters with
          | nil => exact absurd hc hne
          | cons x r => have := Char.utf8Size_pos x; simp [utf8Len]; omega
        split at hres
        · simp at hres
        · rename_i hcond
          cases hr1 : σ1.result with
          | ok => simp [hlen, hr1, LexResult.isOk] at hcond
          | err => rw [hr1] at hres; cases hres
      · exact hfin
      · cases ht
    | some t =>
      simp only [] at h
      rcases hend with herr | ⟨hnone, _⟩ | ⟨t', ht, hs1, hfin⟩
      · rw [herr] at h; cases h
      · cases hnone
      · cases ht
        cases hr1 : σ1.result with
        | err => rw [hr1] at h; cases h
        | ok =>
          rw [hr1] at h
          simp only [] at h
          have := lexEnd_second cc fuel σ1 σ' (toks ++ [t]) toks' hs1 h
          subst this
          exact hfin
  | err e => rw [hp] at h; cases h
  | panic m => rw [hp] at h; cases h
  | fuelOut => rw [hp] at h; cases h

theorem lexEnd_err (cc : CharClass) (fuel : Nat) (σ : Lexer) (toks : List LexerToken) (h : σ.result = .err) :
    lexEnd cc (fuel + 1) σ toks = .err .syntax := by
  simp [lexEnd, h, LexResult.isErr, lexFinish]

theorem lexLoop_err (cc : CharClass) (input : List Char) (σ : Lexer) (toks : List LexerToken)
    (h : σ.result = .err) : lexLoop cc input σ toks = .err .syntax := by
  cases input with
  | nil => simp only [lexLoop, endFuel]; exact lexEnd_err cc 3 σ toks h
  | cons c rest => simp [lexLoop, h, LexResult.isErr, lexFinish]

/-- the main invariant theorem: if `lex` succeeds from a state satisfying the invariant, the result is `Final` -/
theorem lexLoop_final (cc : CharClass) (hcc : cc.Sane2) :
    ∀ (input : List Char) (σ σ' : Lexer) (consumed : List Char) (toks toks' : List LexerToken),
      Core σ consumed toks → Inv σ → TreeOk σ.operatorTree → σ.atEnd = false →
      lexLoop cc input σ toks = .ok (toks', σ') → Final toks' (consumed ++ input)
  | [], σ, σ', consumed, toks, toks', hcore, _, htree, _, h => by
    simp only [lexLoop, endFuel] at h
    rw [List.append_nil]
    exact lexEnd_final cc hcc.toSane 2 σ σ' consumed toks toks' hcore htree h
  | c :: rest, σ, σ', consumed, toks, toks', hcore, hinv, htree, hat, h => by
    simp only [lexLoop, isErr_of_ok hcore.ok, Bool.false_eq_true, ↓reduceIte] at h
    obtain ⟨σ1, ot, hp, hinv1⟩ := processChar_ok cc hcc.toSane σ c hinv
    have hf := processChar_frame cc _ _ _ _ hp
    have hns : ¬Sentinel σ c := fun hs => by have := hs.2; rw [hat] at this; cases this
    have hstep := processChar_core cc hcc σ c consumed toks hcore hinv hns σ1 ot hp
    rw [hp] at h
    have hcons : consumed ++ c :: rest = (consumed ++ [c]) ++ rest := by simp
    rw [hcons]
    cases ot with
    | none =>
      simp only [] at h
      rcases hstep with herr | hcore1
      · rw [lexLoop_err cc rest σ1 toks herr] at h; cases h
      · exact lexLoop_final cc hcc rest σ1 σ' _ toks toks' (by simpa using hcore1) hinv1
          (by rw [hf.1]; exact htree) (by rw [hf.2.1]; exact hat) h
    | some t =>
      simp only [] at h
      rcases hstep with herr | hcore1
      · rw [herr] at h; cases h
      · rw [hcore1.ok] at h
        simp only [] at h
        exact lexLoop_final cc hcc rest σ1 σ' _ (toks ++ [t]) toks' (by simpa using hcore1) hinv1
          (by rw [hf.1]; exact htree) (by rw [hf.2.1]; exact hat) h

theorem Core_init (t : LexerOperatorNode) : Core (Lexer.init t) [] [] :=
  ⟨rfl, by simp, fun _ => rfl, fun h => absurd rfl h, trivial, fun h => absurd rfl h, rfl,
   ⟨fun h => by simp [Lexer.init] at h, fun h => by simp [Lexer.init] at h⟩, rfl, rfl⟩

/-- `lex` succeeds only with a lossless, non-empty, correctly positioned token list -/
theorem lex_final (cc : CharClass) (hcc : cc.Sane2) (s : List Char) (toks : List LexerToken)
    (h : lex cc s = .ok toks) : Final toks s := by
  obtain ⟨t, hnew, ht⟩ := new_ok
  unfold lex lexFull at h
  rw [hnew] at h
  simp only [] at h
  cases hl : lexLoop cc s (Lexer.init t) [] with
  | ok r =>
    obtain ⟨toks', σ'⟩ := r
    rw [hl] at h
    simp only [Outcome.ok.injEq] at h
    subst h
    have := lexLoop_final cc hcc s (Lexer.init t) σ' [] [] toks' (Core_init t)
      (fun h => by simp [Lexer.init] at h) ht rfl hl
    simpa using this
  | err e => rw [hl] at h; cases h
  | panic m => rw [hl] at h; cases h
  | fuelOut => rw [hl] at h; cases h

/-! ## the Rust tables; indexed form of the position statement -/

/-- the Unicode predicates of the Rust std, from the generated range tables -/
def rustTables : CharClass := ⟨Garnish.Gen.CharRanges.isAlphanumeric, Garnish.Gen.CharRanges.isNumeric⟩

theorem rustTables_sane2 : rustTables.Sane2 where
  nulNumeric := by decide +kernel
  nulAlphanumeric := by decide +kernel
  nlNumeric := by decide +kernel
  nlAlphanumeric := by decide +kernel
  dotNumeric := by decide +kernel
  dotAlphanumeric := by decide +kernel

theorem TokPosFrom_get : ∀ (p : List Char) (toks : List LexerToken), TokPosFrom p toks →
    ∀ (i : Nat) (h : i < toks.length), (toks[i].row, toks[i].column) = posOf (p ++ textsOf (toks.take i))
  | p, [], _, i, h => by simp at h
  | p, t :: ts, hp, 0, _ => by simpa [TokPosFrom] using hp.1
  | p, t :: ts, hp, i + 1, h => by
    have := TokPosFrom_get (p ++ t.text) ts hp.2 i (by simpa using h)
    simpa [textsOf, List.append_assoc] using this

theorem textsOf_take_prefix (toks : List LexerToken) (s : List Char) (h : textsOf toks = s) (i : Nat) :
    textsOf (toks.take i) = s.take (textsOf (toks.take i)).length := by
  have : s = textsOf (toks.take i) ++ textsOf (toks.drop i) := by
    rw [← h]
    simp only [textsOf, ← List.flatten_append, ← List.map_append, List.take_append_drop]
  rw [this, List.take_left']
  rfl

/-! ## blank lines -/

/-- `lex`'s loop on a prefix of the input (the same steps as `lexLoop`, without the end-of-input phase) -/
def runChars (cc : CharClass) : List Char → Lexer → List LexerToken → Outcome (Lexer × List LexerToken)
  | [], σ, toks => .ok (σ, toks)
  | c :: rest, σ, toks =>
    if σ.result.isErr then .err .syntax else
    match processChar cc σ c with
    | .ok (σ1, some t) =>
      match σ1.result with
      | .err => .err .syntax
      | .ok => runChars cc rest σ1 (toks ++ [t])
    | .ok (σ1, none) => runChars cc rest σ1 toks
    | .err e => .err e
    | .panic s => .panic s
    | .fuelOut => .fuelOut

theorem lexLoop_append (cc : CharClass) : ∀ (x rest : List Char) (σ σ1 : Lexer) (toks toks1 : List LexerToken),
    runChars cc x σ toks = .ok (σ1, toks1) → lexLoop cc (x ++ rest) σ toks = lexLoop cc rest σ1 toks1
  | [], rest, σ, σ1, toks, toks1, h => by
    simp only [runChars, Outcome.ok.injEq, Prod.mk.injEq] at h
    obtain ⟨rfl, rfl⟩ := h; rfl
  | c :: x, rest, σ, σ1, toks, toks1, h => by
    simp only [runChars] at h
    simp only [List.cons_append, lexLoop]
    split at h
    · cases h
    · rename_i hE
      simp only [hE, Bool.false_eq_true, ↓reduceIte]
      cases hp : processChar cc σ c with
      | ok r =>
        obtain ⟨σ2, ot⟩ := r
        rw [hp] at h
        cases ot with
        | none => exact lexLoop_append cc x rest σ2 σ1 toks toks1 h
        | some t =>
          simp only [] at h ⊢
          cases hr : σ2.result with
          | err => rw [hr] at h; cases h
          | ok => rw [hr] at h; exact lexLoop_append cc x rest σ2 σ1 _ toks1 h
      | err e => rw [hp] at h; cases h
      | panic m => rw [hp] at h; cases h
      | fuelOut => rw [hp] at h; cases h

theorem runChars_append (cc : CharClass) : ∀ (x y : List Char) (σ σ1 : Lexer) (toks toks1 : List LexerToken),
    runChars cc x σ toks = .ok (σ1, toks1) → runChars cc (x ++ y) σ toks = runChars cc y σ1 toks1
  | [], y, σ, σ1, toks, toks1, h => by
    simp only [runChars, Outcome.ok.injEq, Prod.mk.injEq] at h
    obtain ⟨rfl, rfl⟩ := h; rfl
  | c :: x, y, σ, σ1, toks, toks1, h => by
    simp only [runChars] at h
    simp only [List.cons_append, runChars]
    split at h
    · cases h
    · rename_i hE
      simp only [hE, Bool.false_eq_true, ↓reduceIte]
      cases hp : processChar cc σ c with
      | ok r =>
        obtain ⟨σ2, ot⟩ := r
        rw [hp] at h
        cases ot with
        | none => exact runChars_append cc x y σ2 σ1 toks toks1 h
        | some t =>
          simp only [] at h ⊢
          cases hr : σ2.result with
          | err => rw [hr] at h; cases h
          | ok => rw [hr] at h; exact runChars_append cc x y σ2 σ1 _ toks1 h
      | err e => rw [hp] at h; cases h
      | panic m => rw [hp] at h; cases h
      | fuelOut => rw [hp] at h; cases h

/-- in a run of horizontal whitespace, no newline seen yet -/
structure WsA (σ : Lexer) (cs : List Char) : Prop where
  state : σ.state = .spaces
  chars : σ.currentCharacters = cs
  couldBe : σ.couldBeSubExpression = false
  create : σ.shouldCreate = true
  ok : σ.result = .ok

/-- directly after the first newline of a whitespace run -/
structure WsB (σ : Lexer) (cs : List Char) : Prop where
  state : σ.state = .subexpression
  chars : σ.currentCharacters = cs
  create : σ.shouldCreate = true
  ok : σ.result = .ok

/-- spaces/tabs after the first newline of a whitespace run -/
structure WsC (σ : Lexer) (cs : List Char) : Prop where
  state : σ.state = .spaces
  chars : σ.currentCharacters = cs
  couldBe : σ.couldBeSubExpression = true
  create : σ.shouldCreate = true
  ok : σ.result = .ok

def IsBlank (c : Char) : Prop := c = ' ' ∨ c = '\t'

theorem wsA_blank (cc : CharClass) (σ : Lexer) (cs : List Char) (c : Char) (h : WsA σ cs) (hc : IsBlank c) :
    ∃ σ1, processChar cc σ c = .ok (σ1, none) ∧ WsA σ1 (cs ++ [c]) := by
  obtain ⟨h1, h2, h3, h4, h5⟩ := h
  rcases hc with rfl | rfl
  all_goals
    simp only [processChar, stateStep, h1, Step.ofPair, armSpaces, finishChar]
    refine ⟨_, rfl, ?_⟩
    constructor <;> simp [bumpColumn, push, h1, h2, h3, h4, h5]

theorem wsA_newline (cc : CharClass) (σ : Lexer) (cs : List Char) (h : WsA σ cs) :
    ∃ σ1, processChar cc σ '\n' = .ok (σ1, none) ∧ WsB σ1 (cs ++ ['\n']) := by
  obtain ⟨h1, h2, h3, h4, h5⟩ := h
  simp only [processChar, stateStep, h1, Step.ofPair, armSpaces, finishChar, h3]
  refine ⟨_, rfl, ?_⟩
  constructor <;> simp [bumpColumn, push, h1, h2, h3, h4, h5]

theorem wsB_blank (cc : CharClass) (σ : Lexer) (cs : List Char) (c : Char) (h : WsB σ cs) (hc : IsBlank c) :
    ∃ σ1, processChar cc σ c = .ok (σ1, none) ∧ WsC σ1 (cs ++ [c]) := by
  obtain ⟨h1, h2, h4, h5⟩ := h
  rcases hc with rfl | rfl
  all_goals
    simp only [processChar, stateStep, h1, Step.ofPair, armSubexpression, finishChar]
    refine ⟨_, rfl, ?_⟩
    constructor <;> simp [bumpColumn, push, h1, h2, h4, h5]

theorem wsC_blank (cc : CharClass) (σ : Lexer) (cs : List Char) (c : Char) (h : WsC σ cs) (hc : IsBlank c) :
    ∃ σ1, processChar cc σ c = .ok (σ1, none) ∧ WsC σ1 (cs ++ [c]) := by
  obtain ⟨h1, h2, h3, h4, h5⟩ := h
  rcases hc with rfl | rfl
  all_goals
    simp only [processChar, stateStep, h1, Step.ofPair, armSpaces, finishChar]
    refine ⟨_, rfl, ?_⟩
    constructor <;> simp [bumpColumn, push, h1, h2, h3, h4, h5]

/-- the second newline directly after the first: one Subexpression token with everything (patch 2) -/
theorem wsB_newline (cc : CharClass) (σ : Lexer) (cs : List Char) (h : WsB σ cs) :
    ∃ σ1 t, processChar cc σ '\n' = .ok (σ1, some t) ∧ t.tokenType = .subexpression ∧ t.text = cs ++ ['\n'] ∧
      σ1.result = .ok := by
  obtain ⟨h1, h2, h4, h5⟩ := h
  have hnl : (isAsciiWhitespace '\n' && !('\n' == '\t' || '\n' == ' ')) = true := by decide
  simp only [processChar, stateStep, h1, Step.ofPair, armSubexpression, finishChar, pushNewToken,
    canCreateValidToken, hnl, ↓reduceIte]
  refine ⟨_, _, rfl, ?_⟩
  simp [bumpColumn, push, h1, h2, h4, h5]

/-- the second newline after trailing spaces/tabs: one Subexpression token with everything -/
theorem wsC_newline (cc : CharClass) (σ : Lexer) (cs : List Char) (h : WsC σ cs) :
    ∃ σ1 t, processChar cc σ '\n' = .ok (σ1, some t) ∧ t.tokenType = .subexpression ∧ t.text = cs ++ ['\n'] ∧
      σ1.result = .ok := by
  obtain ⟨h1, h2, h3, h4, h5⟩ := h
  simp only [processChar, stateStep, h1, Step.ofPair, armSpaces, finishChar, pushNewToken,
    canCreateValidToken, h3]
  refine ⟨_, _, rfl, ?_⟩
  simp [bumpColumn, push, h1, h2, h3, h4, h5]

theorem runChars_none (cc : CharClass) (c : Char) (rest : List Char) (σ σ1 : Lexer) (toks : List LexerToken)
    (hok : σ.result = .ok) (hp : processChar cc σ c = .ok (σ1, none)) :
    runChars cc (c :: rest) σ toks = runChars cc rest σ1 toks := by
  simp [runChars, isErr_of_ok hok, hp]

theorem runChars_some (cc : CharClass) (c : Char) (rest : List Char) (σ σ1 : Lexer) (toks : List LexerToken)
    (t : LexerToken) (hok : σ.result = .ok) (hp : processChar cc σ c = .ok (σ1, some t)) (hok1 : σ1.result = .ok) :
    runChars cc (c :: rest) σ toks = runChars cc rest σ1 (toks ++ [t]) := by
  simp [runChars, isErr_of_ok hok, hp, hok1]

theorem runA (cc : CharClass) : ∀ (ws : List Char) (σ : Lexer) (cs : List Char) (toks : List LexerToken),
    WsA σ cs → (∀ c ∈ ws, IsBlank c) → ∃ σ1, runChars cc ws σ toks = .ok (σ1, toks) ∧ WsA σ1 (cs ++ ws)
  | [], σ, cs, toks, h, _ => ⟨σ, rfl, by simpa using h⟩
  | c :: ws, σ, cs, toks, h, hb => by
    obtain ⟨σ1, hp, h1⟩ := wsA_blank cc σ cs c h (hb c (by simp))
    obtain ⟨σ2, hr, h2⟩ := runA cc ws σ1 (cs ++ [c]) toks h1 (fun x hx => hb x (by simp [hx]))
    exact ⟨σ2, by rw [runChars_none cc c ws σ σ1 toks h.ok hp]; exact hr, by simpa using h2⟩

theorem runC (cc : CharClass) : ∀ (ws : List Char) (σ : Lexer) (cs : List Char) (toks : List LexerToken),
    WsC σ cs → (∀ c ∈ ws, IsBlank c) → ∃ σ1, runChars cc ws σ toks = .ok (σ1, toks) ∧ WsC σ1 (cs ++ ws)
  | [], σ, cs, toks, h, _ => ⟨σ, rfl, by simpa using h⟩
  | c :: ws, σ, cs, toks, h, hb => by
    obtain ⟨σ1, hp, h1⟩ := wsC_blank cc σ cs c h (hb c (by simp))
    obtain ⟨σ2, hr, h2⟩ := runC cc ws σ1 (cs ++ [c]) toks h1 (fun x hx => hb x (by simp [hx]))
    exact ⟨σ2, by rw [runChars_none cc c ws σ σ1 toks h.ok hp]; exact hr, by simpa using h2⟩

/-- from directly after the first newline: `ws'` then the second newline give one Subexpression token -/
theorem runB_blank_line (cc : CharClass) (ws' : List Char) (σ : Lexer) (cs : List Char) (toks : List LexerToken)
    (h : WsB σ cs) (hb : ∀ c ∈ ws', IsBlank c) :
    ∃ σ1 t, runChars cc (ws' ++ ['\n']) σ toks = .ok (σ1, toks ++ [t]) ∧ t.tokenType = .subexpression ∧
      t.text = cs ++ ws' ++ ['\n'] := by
  cases ws' with
  | nil =>
    obtain ⟨σ1, t, hp, hty, htx, hok1⟩ := wsB_newline cc σ cs h
    refine ⟨σ1, t, ?_, hty, by simpa using htx⟩
    rw [List.nil_append, runChars_some cc '\n' [] σ σ1 toks t h.ok hp hok1]; rfl
  | cons c r =>
    obtain ⟨σ1, hp, h1⟩ := wsB_blank cc σ cs c h (hb c (by simp))
    obtain ⟨σ2, hr, h2⟩ := runC cc r σ1 (cs ++ [c]) toks h1 (fun x hx => hb x (by simp [hx]))
    obtain ⟨σ3, t, hp3, hty, htx, hok3⟩ := wsC_newline cc σ2 _ h2
    refine ⟨σ3, t, ?_, hty, by simpa using htx⟩
    rw [List.cons_append, runChars_none cc c _ σ σ1 toks h.ok hp, runChars_append cc r ['\n'] σ1 σ2 toks toks hr,
      runChars_some cc '\n' [] σ2 σ3 toks t h2.ok hp3 hok3]
    rfl

/-- a string after which whitespace starts a fresh whitespace token: running the lexer over `a` followed by a
space/tab (resp. a newline) emits tokens spelling `a` and leaves the lexer at the start of a whitespace run -/
structure Boundary (cc : CharClass) (σ0 : Lexer) (a : List Char) : Prop where
  blank : ∀ c, IsBlank c → ∃ σ toks, runChars cc (a ++ [c]) σ0 [] = .ok (σ, toks) ∧ WsA σ [c] ∧ textsOf toks = a
  newline : ∃ σ toks, runChars cc (a ++ ['\n']) σ0 [] = .ok (σ, toks) ∧ WsB σ ['\n'] ∧ textsOf toks = a

/-- the whole whitespace run with a blank line becomes one Subexpression token -/
theorem run_blank_line (cc : CharClass) (σ0 : Lexer) (a ws ws' : List Char) (hbd : Boundary cc σ0 a)
    (hws : ∀ c ∈ ws, IsBlank c) (hws' : ∀ c ∈ ws', IsBlank c) :
    ∃ σ1 toks t, runChars cc (a ++ ws ++ ['\n'] ++ ws' ++ ['\n']) σ0 [] = .ok (σ1, toks ++ [t]) ∧
      textsOf toks = a ∧ t.tokenType = .subexpression ∧ t.text = ws ++ ['\n'] ++ ws' ++ ['\n'] := by
  cases ws with
  | nil =>
    obtain ⟨σ, toks, hr, hB, htx⟩ := hbd.newline
    obtain ⟨σ1, t, hr1, hty, htxt⟩ := runB_blank_line cc ws' σ ['\n'] toks hB hws'
    refine ⟨σ1, toks, t, ?_, htx, hty, by simpa using htxt⟩
    have := runChars_append cc (a ++ ['\n']) (ws' ++ ['\n']) σ0 σ [] toks hr
    simpa [List.append_assoc] using this.trans hr1
  | cons c r =>
    obtain ⟨σ, toks, hr, hA, htx⟩ := hbd.blank c (hws c (by simp))
    obtain ⟨σ2, hr2, hA2⟩ := runA cc r σ [c] toks hA (fun x hx => hws x (by simp [hx]))
    obtain ⟨σ3, hp3, hB3⟩ := wsA_newline cc σ2 _ hA2
    obtain ⟨σ4, t, hr4, hty, htxt⟩ := runB_blank_line cc ws' σ3 _ toks hB3 hws'
    refine ⟨σ4, toks, t, ?_, htx, hty, by simpa using htxt⟩
    have e1 := runChars_append cc (a ++ [c]) (r ++ ['\n'] ++ ws' ++ ['\n']) σ0 σ [] toks hr
    have e2 := runChars_append cc r (['\n'] ++ ws' ++ ['\n']) σ σ2 toks toks hr2
    have e3 : runChars cc (['\n'] ++ ws' ++ ['\n']) σ2 toks = runChars cc (ws' ++ ['\n']) σ3 toks := by
      simpa using runChars_none cc '\n' (ws' ++ ['\n']) σ2 σ3 toks hA2.ok hp3
    have : a ++ c :: r ++ ['\n'] ++ ws' ++ ['\n'] = (a ++ [c]) ++ (r ++ ['\n'] ++ ws' ++ ['\n']) := by simp
    rw [this, e1]
    have : r ++ ['\n'] ++ ws' ++ ['\n'] = r ++ (['\n'] ++ ws' ++ ['\n']) := by simp
    rw [this, e2, e3, hr4]

/-- `lex`'s loop only appends tokens -/
theorem lexEnd_prefix (cc : CharClass) : ∀ (fuel : Nat) (σ σ' : Lexer) (toks toks' : List LexerToken),
    lexEnd cc fuel σ toks = .ok (toks', σ') → ∃ post, toks' = toks ++ post
  | 0, _, _, _, _, h => by simp [lexEnd] at h
  | fuel + 1, σ, σ', toks, toks', h => by
    simp only [lexEnd] at h
    split at h
    · exact ⟨[], by simpa using (lexFinish_ok h).1⟩
    · cases hp : processChar cc { σ with atEnd := true } '\x00' with
      | ok r =>
        obtain ⟨σ1, ot⟩ := r
        rw [hp] at h
        cases ot with
        | none => exact ⟨[], by simpa using (lexFinish_ok h).1⟩
        | some t =>
          simp only [] at h
          cases hr : σ1.result with
          | err => rw [hr] at h; cases h
          | ok =>
            rw [hr] at h
            obtain ⟨post, hpost⟩ := lexEnd_prefix cc fuel σ1 σ' _ toks' h
            exact ⟨t :: post, by simpa using hpost⟩
      | err e => rw [hp] at h; cases h
      | panic m => rw [hp] at h; cases h
      | fuelOut => rw [hp] at h; cases h

theorem lexLoop_prefix (cc : CharClass) : ∀ (input : List Char) (σ σ' : Lexer) (toks toks' : List LexerToken),
    lexLoop cc input σ toks = .ok (toks', σ') → ∃ post, toks' = toks ++ post
  | [], σ, σ', toks, toks', h => lexEnd_prefix cc endFuel σ σ' toks toks' (by simpa [lexLoop] using h)
  | c :: rest, σ, σ', toks, toks', h => by
    simp only [lexLoop] at h
    split at h
    · exact ⟨[], by simpa using (lexFinish_ok h).1⟩
    · cases hp : processChar cc σ c with
      | ok r =>
        obtain ⟨σ1, ot⟩ := r
        rw [hp] at h
        cases ot with
        | none => exact lexLoop_prefix cc rest σ1 σ' toks toks' h
        | some t =>
          simp only [] at h
          cases hr : σ1.result with
          | err => rw [hr] at h; cases h
          | ok =>
            rw [hr] at h
            obtain ⟨post, hpost⟩ := lexLoop_prefix cc rest σ1 σ' _ toks' h
            exact ⟨t :: post, by simpa using hpost⟩
      | err e => rw [hp] at h; cases h
      | panic m => rw [hp] at h; cases h
      | fuelOut => rw [hp] at h; cases h

/-- the operator tree of `Lexer::new` -/
def theTree : LexerOperatorNode :=
  match createOperatorTree Garnish.Gen.LexTables.operatorChars with
  | .ok t => t
  | _ => .mk '\x00' none []

theorem new_eq : Lexer.new = .ok (Lexer.init theTree) := by
  have h := operatorTree_nulFree
  unfold Lexer.new theTree
  cases hc : createOperatorTree Garnish.Gen.LexTables.operatorChars with
  | ok t => rfl
  | err e => rw [hc] at h; cases h
  | panic m => rw [hc] at h; cases h
  | fuelOut => rw [hc] at h; cases h

/-- blank-line theorem in terms of `lex` -/
theorem lex_blank_line (cc : CharClass) (a ws ws' b : List Char)
    (hbd : Boundary cc (Lexer.init theTree) a)
    (hws : ∀ c ∈ ws, IsBlank c) (hws' : ∀ c ∈ ws', IsBlank c) (toks : List LexerToken)
    (h : lex cc (a ++ ws ++ ['\n'] ++ ws' ++ ['\n'] ++ b) = .ok toks) :
    ∃ pre t post, toks = pre ++ [t] ++ post ∧ textsOf pre = a ∧ t.tokenType = .subexpression ∧
      t.text = ws ++ ['\n'] ++ ws' ++ ['\n'] := by
  unfold lex lexFull at h
  rw [new_eq] at h
  simp only [] at h
  obtain ⟨σ1, pre, t, hrun, hpre, hty, htx⟩ := run_blank_line cc (Lexer.init theTree) a ws ws' hbd hws hws'
  rw [lexLoop_append cc _ b (Lexer.init theTree) σ1 [] (pre ++ [t]) hrun] at h
  cases hl : lexLoop cc b σ1 (pre ++ [t]) with
  | ok r =>
    obtain ⟨toks', σ'⟩ := r
    rw [hl] at h
    simp only [Outcome.ok.injEq] at h
    subst h
    obtain ⟨post, hpost⟩ := lexLoop_prefix cc b σ1 σ' _ _ hl
    exact ⟨pre, t, post, hpost, hpre, hty, htx⟩
  | err e => rw [hl] at h; cases h
  | panic m => rw [hl] at h; cases h
  | fuelOut => rw [hl] at h; cases h

/-! ### the family of identifier-like strings satisfies `Boundary` -/

/-- a letter: alphanumeric, not numeric, not whitespace, not `_`/`:`, not the first character of an operator -/
structure Letter (cc : CharClass) (ch : Char) : Prop where
  alnum : cc.isAlphanumeric ch = true
  notNumeric : cc.isNumeric ch = false
  notWs : isAsciiWhitespace ch = false
  notUnderscore : ch ≠ '_'
  notColon : ch ≠ ':'
  notOperator : walkOperator theTree [ch] = none

/-- spaces, tabs and newlines are not alphanumeric -/
structure CharClass.SaneWs (cc : CharClass) : Prop where
  space : cc.isAlphanumeric ' ' = false
  tab : cc.isAlphanumeric '\t' = false
  newline : cc.isAlphanumeric '\n' = false

/-- an identifier under construction -/
structure InIdent (σ : Lexer) (cs : List Char) : Prop where
  state : σ.state = .identifier
  chars : σ.currentCharacters = cs
  type : σ.currentTokenType = some .identifier
  create : σ.shouldCreate = true
  ok : σ.result = .ok
  tree : σ.operatorTree = theTree

theorem treeWs : (walkOperator theTree [' ']).isNone = true ∧ (walkOperator theTree ['\t']).isNone = true ∧
    (walkOperator theTree ['\n']).isNone = true := by decide

theorem letter_not_blank {cc : CharClass} {ch : Char} (h : Letter cc ch) :
    ch ≠ ' ' ∧ ch ≠ '\t' ∧ ch ≠ '\r' := by
  have := h.notWs
  refine ⟨?_, ?_, ?_⟩ <;> (rintro rfl; simp [isAsciiWhitespace] at this)

theorem startToken_letter (cc : CharClass) (σ : Lexer) (c : Char) (hl : Letter cc c)
    (htr : σ.operatorTree = theTree) :
    startToken cc σ c = { σ with currentCharacters := [c], currentTokenType := some .identifier, tokenStartRow := σ.textRow, tokenStartColumn := σ.textColumn, state := .identifier } := by
  have hnb := letter_not_blank hl
  unfold startToken
  simp [currentOperator, push, htr, hl.notOperator, hnb.1, hnb.2.1, hnb.2.2, hl.notWs, hl.notNumeric,
    isIdentifierChar, hl.alnum]

theorem walk_none_of_isNone {t : LexerOperatorNode} {cs : List Char} (h : (walkOperator t cs).isNone = true) :
    walkOperator t cs = none := by
  cases hw : walkOperator t cs with
  | none => rfl
  | some n => rw [hw] at h; cases h

theorem startToken_blank (cc : CharClass) (σ : Lexer) (c : Char) (hb : IsBlank c)
    (htr : σ.operatorTree = theTree) :
    startToken cc σ c = { σ with currentCharacters := [c], currentTokenType := some .whitespace, tokenStartRow := σ.textRow, tokenStartColumn := σ.textColumn, state := .spaces } := by
  have h1 := walk_none_of_isNone treeWs.1
  have h2 := walk_none_of_isNone treeWs.2.1
  unfold startToken
  rcases hb with rfl | rfl <;> simp [currentOperator, push, htr, h1, h2]

theorem startToken_newline (cc : CharClass) (σ : Lexer) (htr : σ.operatorTree = theTree) :
    startToken cc σ '\n' = { σ with currentCharacters := ['\n'], currentTokenType := some .subexpression, tokenStartRow := σ.textRow, tokenStartColumn := σ.textColumn, state := .subexpression } := by
  have h3 := walk_none_of_isNone treeWs.2.2
  unfold startToken
  simp [currentOperator, push, htr, h3, isAsciiWhitespace]

theorem ident_start (cc : CharClass) (σ : Lexer) (c : Char) (hl : Letter cc c) (hs : σ.state = .noToken)
    (hcr : σ.shouldCreate = true) (hok : σ.result = .ok) (htr : σ.operatorTree = theTree) :
    ∃ σ1, processChar cc σ c = .ok (σ1, none) ∧ InIdent σ1 [c] := by
  simp only [processChar, stateStep, hs, Step.ofPair, armNoToken, finishChar]
  refine ⟨_, rfl, ?_⟩
  rw [startToken_letter cc _ c hl (by simpa using htr)]
  constructor <;> simp [bumpColumn, hcr, hok, htr] <;> (split <;> simp [hcr, hok, htr])

theorem ident_push (cc : CharClass) (σ : Lexer) (cs : List Char) (c : Char) (hl : Letter cc c)
    (h : InIdent σ cs) : ∃ σ1, processChar cc σ c = .ok (σ1, none) ∧ InIdent σ1 (cs ++ [c]) := by
  obtain ⟨h1, h2, h3, h4, h5, h6⟩ := h
  have hid : isIdentifierChar cc c = true := by simp [isIdentifierChar, hl.alnum]
  simp only [processChar, stateStep, h1, Step.ofPair, armIdentifier, hid, ↓reduceIte, finishChar]
  refine ⟨_, rfl, ?_⟩
  constructor <;> simp [bumpColumn, push, h1, h2, h3, h4, h5, h6] <;> (split <;> simp [h1, h2, h3, h4, h5, h6, push])

theorem ident_end_blank (cc : CharClass) (hws : cc.SaneWs) (σ : Lexer) (x : Char) (r : List Char) (c : Char)
    (hx : Letter cc x) (hb : IsBlank c) (h : InIdent σ (x :: r)) :
    ∃ σ1 t, processChar cc σ c = .ok (σ1, some t) ∧ t.text = x :: r ∧ WsA σ1 [c] := by
  obtain ⟨h1, h2, h3, h4, h5, h6⟩ := h
  have hid : isIdentifierChar cc c = false := by
    rcases hb with rfl | rfl <;> simp [isIdentifierChar, hws.space, hws.tab]
  have hbt : (c == '`') = false := by rcases hb with rfl | rfl <;> decide
  have hcol : startsWith (x :: r) ':' = false := by simp [startsWith, hx.notColon]
  have hv1 : (x :: r == ['_']) = false := by
    simp only [beq_eq_false_iff_ne, ne_eq, List.cons.injEq, not_and]
    intro hh; exact absurd hh hx.notUnderscore
  have hv2 : (x :: r == [':']) = false := by
    simp only [beq_eq_false_iff_ne, ne_eq, List.cons.injEq, not_and]
    intro hh; exact absurd hh hx.notColon
  simp only [processChar, stateStep, h1, Step.ofPair, armIdentifier, hid, hbt, Bool.false_eq_true, ↓reduceIte,
    h2, hcol, Bool.false_and, finishChar, pushNewToken, canCreateValidToken, h3, hv1, hv2, Bool.or_self, h4]
  simp only [h1, bne_iff_ne, ne_eq, reduceCtorEq, not_false_eq_true, ↓reduceIte, LexResult.isOk]
  rw [startToken_blank cc _ c hb (by simpa using h6)]
  refine ⟨_, _, rfl, rfl, ?_⟩
  constructor <;> simp [bumpColumn, h5] <;> (split <;> simp [h5])

theorem ident_end_newline (cc : CharClass) (hws : cc.SaneWs) (σ : Lexer) (x : Char) (r : List Char)
    (hx : Letter cc x) (h : InIdent σ (x :: r)) :
    ∃ σ1 t, processChar cc σ '\n' = .ok (σ1, some t) ∧ t.text = x :: r ∧ WsB σ1 ['\n'] := by
  obtain ⟨h1, h2, h3, h4, h5, h6⟩ := h
  have hid : isIdentifierChar cc '\n' = false := by simp [isIdentifierChar, hws.newline]
  have hbt : (('\n' : Char) == '`') = false := by decide
  have hcol : startsWith (x :: r) ':' = false := by simp [startsWith, hx.notColon]
  have hv1 : (x :: r == ['_']) = false := by
    simp only [beq_eq_false_iff_ne, ne_eq, List.cons.injEq, not_and]
    intro hh; exact absurd hh hx.notUnderscore
  have hv2 : (x :: r == [':']) = false := by
    simp only [beq_eq_false_iff_ne, ne_eq, List.cons.injEq, not_and]
    intro hh; exact absurd hh hx.notColon
  simp only [processChar, stateStep, h1, Step.ofPair, armIdentifier, hid, hbt, Bool.false_eq_true, ↓reduceIte,
    h2, hcol, Bool.false_and, finishChar, pushNewToken, canCreateValidToken, h3, hv1, hv2, Bool.or_self, h4]
  simp only [h1, bne_iff_ne, ne_eq, reduceCtorEq, not_false_eq_true, ↓reduceIte, LexResult.isOk]
  rw [startToken_newline cc _ (by simpa using h6)]
  refine ⟨_, _, rfl, rfl, ?_⟩
  constructor <;> simp [bumpColumn, h5]

theorem run_ident (cc : CharClass) : ∀ (r : List Char) (σ : Lexer) (cs : List Char) (toks : List LexerToken),
    InIdent σ cs → (∀ ch ∈ r, Letter cc ch) → ∃ σ1, runChars cc r σ toks = .ok (σ1, toks) ∧ InIdent σ1 (cs ++ r)
  | [], σ, cs, toks, h, _ => ⟨σ, rfl, by simpa using h⟩
  | c :: r, σ, cs, toks, h, hl => by
    obtain ⟨σ1, hp, h1⟩ := ident_push cc σ cs c (hl c (by simp)) h
    obtain ⟨σ2, hr, h2⟩ := run_ident cc r σ1 (cs ++ [c]) toks h1 (fun x hx => hl x (by simp [hx]))
    exact ⟨σ2, by rw [runChars_none cc c r σ σ1 toks h.ok hp]; exact hr, by simpa using h2⟩

/-- identifier-like strings (non-empty lists of letters) are token-boundary-safe -/
theorem boundary_letters (cc : CharClass) (hws : cc.SaneWs) (x : Char) (r : List Char)
    (hl : ∀ ch ∈ x :: r, Letter cc ch) : Boundary cc (Lexer.init theTree) (x :: r) := by
  have hx := hl x (by simp)
  obtain ⟨σ1, hp1, hi1⟩ := ident_start cc (Lexer.init theTree) x hx rfl rfl rfl rfl
  obtain ⟨σ2, hr2, hi2⟩ := run_ident cc r σ1 [x] [] hi1 (fun ch hch => hl ch (by simp [hch]))
  have hrun : runChars cc (x :: r) (Lexer.init theTree) [] = .ok (σ2, []) := by
    rw [runChars_none cc x r _ σ1 [] rfl hp1]; exact hr2
  constructor
  · intro c hb
    obtain ⟨σ3, t, hp3, htx, hA⟩ := ident_end_blank cc hws σ2 x r c hx hb (by simpa using hi2)
    refine ⟨σ3, [t], ?_, hA, by simp [textsOf, htx]⟩
    rw [runChars_append cc (x :: r) [c] _ σ2 [] [] hrun, runChars_some cc c [] σ2 σ3 [] t hi2.ok hp3 hA.ok]
    rfl
  · obtain ⟨σ3, t, hp3, htx, hB⟩ := ident_end_newline cc hws σ2 x r hx (by simpa using hi2)
    refine ⟨σ3, [t], ?_, hB, by simp [textsOf, htx]⟩
    rw [runChars_append cc (x :: r) ['\n'] _ σ2 [] [] hrun, runChars_some cc '\n' [] σ2 σ3 [] t hi2.ok hp3 hB.ok]
    rfl

/-! ## characters that cannot start a token -/

/-- `c` can start a token: the disjunction of the branches of `start_token` (other than the end-of-input one) -/
def CanStart (cc : CharClass) (tree : LexerOperatorNode) (c : Char) : Prop :=
  (walkOperator tree [c]).isSome = true ∨ c = ' ' ∨ c = '\t' ∨ c = '\r' ∨ isAsciiWhitespace c = true ∨
  cc.isNumeric c = true ∨ isIdentifierChar cc c = true ∨ c = '`' ∨ c = '@' ∨ c = '"' ∨ c = '\''

theorem startToken_rejects (cc : CharClass) (σ : Lexer) (c : Char) (h : ¬CanStart cc σ.operatorTree c)
    (hns : ¬Sentinel σ c) : (startToken cc σ c).result = .err := by
  unfold CanStart at h
  simp only [not_or] at h
  obtain ⟨h1, h2, h3, h4, h5, h6, h7, h8, h9, h10, h11⟩ := h
  have hw : walkOperator σ.operatorTree [c] = none := by
    cases hw : walkOperator σ.operatorTree [c] with
    | none => rfl
    | some n => rw [hw] at h1; simp at h1
  have hsent : ¬(c = '\x00' ∧ σ.atEnd = true) := hns
  generalize hr : startToken cc σ c = r
  unfold startToken at hr
  simp [currentOperator, push, hw, h2, h3, h4, h5, h6, h7, h8, h9, h10, h11] at hr
  split at hr
  · rename_i hc; exact absurd hc hsent
  · subst hr; rfl

theorem runChars_frame (cc : CharClass) : ∀ (x : List Char) (σ σ1 : Lexer) (toks toks1 : List LexerToken),
    runChars cc x σ toks = .ok (σ1, toks1) → σ1.operatorTree = σ.operatorTree ∧ σ1.atEnd = σ.atEnd
  | [], σ, σ1, toks, toks1, h => by
    simp only [runChars, Outcome.ok.injEq, Prod.mk.injEq] at h
    obtain ⟨rfl, _⟩ := h; exact ⟨rfl, rfl⟩
  | c :: x, σ, σ1, toks, toks1, h => by
    simp only [runChars] at h
    split at h
    · cases h
    · cases hp : processChar cc σ c with
      | ok r =>
        obtain ⟨σ2, ot⟩ := r
        have hf := processChar_frame cc _ _ _ _ hp
        rw [hp] at h
        cases ot with
        | none =>
          have := runChars_frame cc x σ2 σ1 toks toks1 h
          exact ⟨this.1.trans hf.1, this.2.trans hf.2.1⟩
        | some t =>
          simp only [] at h
          cases hr : σ2.result with
          | err => rw [hr] at h; cases h
          | ok =>
            rw [hr] at h
            have := runChars_frame cc x σ2 σ1 _ toks1 h
            exact ⟨this.1.trans hf.1, this.2.trans hf.2.1⟩
      | err e => rw [hp] at h; cases h
      | panic m => rw [hp] at h; cases h
      | fuelOut => rw [hp] at h; cases h

theorem processChar_noToken (cc : CharClass) (σ : Lexer) (c : Char) (hs : σ.state = .noToken) :
    processChar cc σ c =
      .ok (bumpColumn (startToken cc { σ with charactersLexed := σ.charactersLexed + 1 } c) c, none) := by
  unfold processChar
  simp only []
  have hss : stateStep cc { σ with charactersLexed := σ.charactersLexed + 1 } c =
      Step.ofPair (armNoToken cc { σ with charactersLexed := σ.charactersLexed + 1 } c) := by
    unfold stateStep
    have hs' : ({ σ with charactersLexed := σ.charactersLexed + 1 } : Lexer).state = .noToken := hs
    rw [hs']
  rw [hss]
  simp only [Step.ofPair, armNoToken, finishChar, Bool.false_eq_true, ↓reduceIte]

theorem lexLoop_rejects (cc : CharClass) (post : List Char) (c : Char) (σ : Lexer) (toks : List LexerToken)
    (hs : σ.state = .noToken) (hat : σ.atEnd = false) (hc : ¬CanStart cc σ.operatorTree c) :
    lexLoop cc (c :: post) σ toks = .err .syntax := by
  simp only [lexLoop]
  by_cases hE : σ.result.isErr = true
  · have : σ.result = .err := by cases hr : σ.result <;> simp [hr, LexResult.isErr] at hE ⊢
    rw [if_pos hE]
    simp [lexFinish, this]
  · have hns : ¬Sentinel { σ with charactersLexed := σ.charactersLexed + 1 } c := by
      intro hsn; have := hsn.2; simp [hat] at this
    have hrej := startToken_rejects cc { σ with charactersLexed := σ.charactersLexed + 1 } c hc hns
    rw [if_neg hE, processChar_noToken cc σ c hs]
    simp only []
    rw [lexLoop_err cc post _ toks (by simpa using hrej)]

/-- a character that cannot start a token, met between tokens, makes `lex` fail -/
theorem lex_rejects (cc : CharClass) (pre post : List Char) (c : Char) (σ : Lexer) (toks : List LexerToken)
    (hrun : runChars cc pre (Lexer.init theTree) [] = .ok (σ, toks)) (hs : σ.state = .noToken)
    (hc : ¬CanStart cc theTree c) : lex cc (pre ++ c :: post) = .err .syntax := by
  have hfr := runChars_frame cc pre _ σ [] toks hrun
  have h1 : σ.operatorTree = theTree := hfr.1
  have h2 : σ.atEnd = false := hfr.2
  unfold lex lexFull
  rw [new_eq]
  simp only []
  rw [lexLoop_append cc pre (c :: post) _ σ [] toks hrun,
    lexLoop_rejects cc post c σ toks hs h2 (by rw [h1]; exact hc)]

/-! ## operators: what is proved towards longest match -/

/-- every spelling of the regenerated table is recognised by the operator tree with its token type -/
def tableRecognised : Bool :=
  Garnish.Gen.LexTables.operatorChars.all fun p =>
    match walkOperator theTree p.1 with
    | some n => n.tokenType == some p.2
    | none => false

theorem tableRecognised_true : tableRecognised = true := by decide

/-- an operator token ends only when the next character continues no spelling (and no prefix of one):
the Operator arm returns `start_new = true` only if the operator tree has no path for the characters so far
followed by `c` -/
theorem armOperator_maximal (cc : CharClass) (σ : Lexer) (c : Char) (h : (armOperator cc σ c).2 = true) :
    walkOperator σ.operatorTree (σ.currentCharacters ++ [c]) = none := by
  unfold armOperator at h
  simp only [] at h
  split at h
  · simp at h
  · rename_i hnone
    simpa [currentOperator, push] using hnone

/-- while an operator is being extended its token type is the one stored in the tree for the characters so far -/
theorem armOperator_type (cc : CharClass) (σ : Lexer) (c : Char) (node : LexerOperatorNode)
    (h : walkOperator σ.operatorTree (σ.currentCharacters ++ [c]) = some node) :
    (armOperator cc σ c).1.currentTokenType = node.tokenType ∧ (armOperator cc σ c).2 = false ∧
    (armOperator cc σ c).1.currentCharacters = σ.currentCharacters ++ [c] := by
  unfold armOperator
  simp [currentOperator, push, h]

end Garnish.Model.Lexer
