/-
`SimpleGarnishData` as a store: the invariant `SInv` (the three preallocated cells are there; every register is a data
address), the effect of a push / a cache decision (`push_adds`, `cache_adds` — the latter is where `HitSound` is used)
and the scalar adders.
-/
import Garnish.Lemmas.RuntimeSimple
namespace Garnish.Lemmas.Runtime.Simple
open Garnish Gen Garnish.Model.Equality Garnish.Model.Runtime Garnish.Lemmas.Runtime
variable {F : Type} {hit : List (SimCell F) → SimCell F → Option Nat} {h : SimHost F}

/-- what every state `SimpleGarnishData::new()` and the operations below produce satisfies -/
structure SInv (st : SimState F) : Prop where
  seeded : Seeded st
  regs : RegsOK st.cells st.register

theorem keeps_ext {st st' : SimState F} (hext : Ext st.cells st'.cells) (hj : st'.jumps = st.jumps)
    (hi : st'.instrs = st.instrs) (hc : st'.cursor = st.cursor) : Keeps (simpleRStore hit h) st st' where
  dec := fun _ _ hd => decodes_mono (viewLe_ext hext) hd
  jump := by funext j; simp only [simpleRStore, hj]
  ilen := by simp only [simpleRStore, hi]
  cur := hc
  instr := by funext j; simp only [simpleRStore, hi]

theorem eff_ext {st st' : SimState F} (hinv : SInv st) (hext : Ext st.cells st'.cells) (hj : st'.jumps = st.jumps)
    (hi : st'.instrs = st.instrs) (hc : st'.cursor = st.cursor) (hr : st'.register = st.register)
    (hv : st'.values = st.values) (ht : st'.trace = st.trace) :
    Eff (simpleRStore hit h) st st' ((simpleRStore hit h).regs st) ((simpleRStore hit h).vals st) where
  keeps := keeps_ext hext hj hi hc
  regs := by simp only [simpleRStore, hr]; exact flatRegs_ext hext hinv.regs
  vals := hv
  trace := ht
  frames := by simp only [simpleRStore, hr]; exact framesOf_ext hext hinv.regs

theorem sinv_ext {st st' : SimState F} (hinv : SInv st) (hext : Ext st.cells st'.cells)
    (hr : st'.register = st.register) : SInv st' where
  seeded := ⟨hext _ _ hinv.seeded.1, hext _ _ hinv.seeded.2.1, hext _ _ hinv.seeded.2.2⟩
  regs := by rw [hr]; exact regsOK_ext hext hinv.regs

/-- `Adds` together with the invariant -/
def AddsI (hit : List (SimCell F) → SimCell F → Option Nat) (h : SimHost F) (m : RM (SimState F) Nat)
    (st : SimState F) (v : Val F) : Prop :=
  ∃ a st', m st = .ok (a, st') ∧ Decodes (simView st'.cells) a v ∧
    Eff (simpleRStore hit h) st st' ((simpleRStore hit h).regs st) ((simpleRStore hit h).vals st) ∧ SInv st' ∧
    st'.currentList = st.currentList

theorem AddsI.adds {m : RM (SimState F) Nat} {st : SimState F} {v : Val F} (ha : AddsI hit h m st v) :
    Adds (simpleRStore hit h) m st v := by
  obtain ⟨a, st', h1, h2, h3, _⟩ := ha; exact ⟨a, st', h1, h2, h3⟩

theorem same_adds {st : SimState F} (hinv : SInv st) {a : Nat} {v : Val F} (hd : Decodes (simView st.cells) a v)
    {m : RM (SimState F) Nat} (hm : m st = .ok (a, st)) : AddsI hit h m st v :=
  ⟨a, st, hm, hd, eff_ext hinv (ext_refl _) rfl rfl rfl rfl rfl rfl, hinv, rfl⟩

theorem push_adds {st : SimState F} (hinv : SInv st) (c : SimCell F) {v : Val F}
    (hd : Decodes (simView (st.cells ++ [c])) st.cells.length v) : AddsI hit h (SimState.push c) st v :=
  ⟨st.cells.length, { st with cells := st.cells ++ [c] }, rfl, hd,
    eff_ext hinv (ext_append _ _) rfl rfl rfl rfl rfl rfl, sinv_ext hinv (ext_append _ _) rfl, rfl⟩

theorem cache_adds (hs : HitSound hit) {st : SimState F} (hinv : SInv st) (c : SimCell F) {v : Val F}
    (hd : ∀ cells a, cells[a]? = some c → Decodes (simView cells) a v) :
    AddsI hit h (SimState.cacheAdd hit c) st v := by
  cases hh : hit st.cells c with
  | some a =>
    refine same_adds hinv (hd _ _ (hs _ _ _ hh)) ?_
    simp only [SimState.cacheAdd, hh]
  | none =>
    obtain ⟨a, st', h1, rest⟩ := push_adds (hit := hit) (h := h) hinv c (hd _ _ (new_cell st.cells c))
    refine ⟨a, st', ?_, rest⟩
    simp only [SimState.cacheAdd, hh]; exact h1

section leaf
variable {cells : List (SimCell F)} {a : Nat}

theorem dec_unit (hc : cells[a]? = some .unit) : Decodes (simView cells) a (.unit : Val F) :=
  .unit (by simp only [simView, hc, SimCell.ty])
theorem dec_tru (hc : cells[a]? = some .tru) : Decodes (simView cells) a (.tru : Val F) :=
  .tru (by simp only [simView, hc, SimCell.ty])
theorem dec_fls (hc : cells[a]? = some .fls) : Decodes (simView cells) a (.fls : Val F) :=
  .fls (by simp only [simView, hc, SimCell.ty])
theorem dec_num {n : Number F} (hc : cells[a]? = some (.num n)) : Decodes (simView cells) a (.num n) :=
  .num (by simp only [simView, hc, SimCell.ty]) (by simp only [simView, hc])
theorem dec_type {t : Ty} (hc : cells[a]? = some (.type t)) : Decodes (simView cells) a (.type t : Val F) :=
  .type (by simp only [simView, hc, SimCell.ty]) (by simp only [simView, hc])
theorem dec_char {c : Nat} (hc : cells[a]? = some (.char c)) : Decodes (simView cells) a (.char c : Val F) :=
  .char (by simp only [simView, hc, SimCell.ty]) (by simp only [simView, hc])
theorem dec_byte {c : Nat} (hc : cells[a]? = some (.byte c)) : Decodes (simView cells) a (.byte c : Val F) :=
  .byte (by simp only [simView, hc, SimCell.ty]) (by simp only [simView, hc])
theorem dec_sym {c : Nat} (hc : cells[a]? = some (.sym c)) : Decodes (simView cells) a (.sym c : Val F) :=
  .sym (by simp only [simView, hc, SimCell.ty]) (by simp only [simView, hc])
theorem dec_symList {ss : List Nat} (hc : cells[a]? = some (.symList ss)) :
    Decodes (simView cells) a (.symList (ss.map SymPart.sym) : Val F) :=
  .symList (by simp only [simView, hc, SimCell.ty]) (by simp only [simView, hc])
end leaf

variable (hs : HitSound hit) {st : SimState F} (hinv : SInv st)
include hinv

theorem addUnit_law : AddsI hit h (simpleRStore hit h).addUnit st .unit :=
  same_adds hinv (dec_unit hinv.seeded.1) rfl
theorem addFalse_law : AddsI hit h (simpleRStore hit h).addFalse st .fls :=
  same_adds hinv (dec_fls hinv.seeded.2.1) rfl
theorem addTrue_law : AddsI hit h (simpleRStore hit h).addTrue st .tru :=
  same_adds hinv (dec_tru hinv.seeded.2.2) rfl

include hs
theorem addNumber_law (n : Number F) : AddsI hit h ((simpleRStore hit h).addNumber n) st (.num n) :=
  cache_adds hs hinv _ (fun _ _ hc => dec_num hc)
theorem addType_law (t : Ty) : AddsI hit h ((simpleRStore hit h).addType t) st (.type t) :=
  cache_adds hs hinv _ (fun _ _ hc => dec_type hc)
theorem addChar_law (c : Nat) : AddsI hit h ((simpleRStore hit h).addChar c) st (.char c) :=
  cache_adds hs hinv _ (fun _ _ hc => dec_char hc)
theorem addByte_law (c : Nat) : AddsI hit h ((simpleRStore hit h).addByte c) st (.byte c) :=
  cache_adds hs hinv _ (fun _ _ hc => dec_byte hc)
theorem addSymbol_law (c : Nat) : AddsI hit h ((simpleRStore hit h).addSymbol c) st (.sym c) :=
  cache_adds hs hinv _ (fun _ _ hc => dec_sym hc)

end Garnish.Lemmas.Runtime.Simple
