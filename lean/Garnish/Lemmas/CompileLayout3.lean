/-
Compile correctness, part (iii): `emit_located` — the main line that `emit` writes for `e` is `Located` in every
later layout state in which the roots pushed meanwhile are located.
-/
import Garnish.Lemmas.CompileLayout2
namespace Garnish.Abs
open Garnish Gen Garnish.Spec

variable {F : Type} {bodies : List (Nat × Expr F)} {sF : LState F}

theorem condTail_located {cur : Nat} {onTrue : Bool} {t : Expr F} {s1 sM : LState F} {lo : Nat}
    (hc : cur < s1.jumps.size) (hp1 : PendOK s1) (hlo : lo ≤ s1.jumps.size)
    (hpre : Within lo (condTail cur onTrue t s1) sM []) (hev : Ev sM sF)
    (hroots : ∀ r ∈ sM.pending, lo ≤ r.patch → RootLocated bodies sF.toProg r) :
    ∃ j join tb, sF.toProg.instrs[s1.instrs.size]? = some (jumpIf onTrue, some j) ∧
      sF.toProg.instrs[s1.instrs.size + 1]? = some (.putValue, none) ∧
      sF.toProg.jumps[j]? = some tb ∧ sF.toProg.jumps[join]? = some (s1.instrs.size + 2) ∧ join ≠ cur ∧
      Located sF.toProg j cur tb t ∧
      InstrsAt sF.toProg (tb + len t) (termsAfter sF.toProg (tb + len t) [(.jumpTo, some join)]) := by
  simp only [condTail] at hpre
  have hR := hpre.1.keep _ (List.mem_cons_self)
  obtain ⟨_, hloc⟩ := hroots _ hR hlo
  obtain ⟨tb, hj, hl, ht⟩ := hloc t rfl
  have hA := hpre.1
  have i1 := instr_at (t := s1.pushJump 0) (i := jumpIf onTrue) (d := some s1.jumps.size)
    ((((App.push _ _ _).trans (App.pushRoot _ _)).trans (App.pushJump _ _)).trans hA) hev
  have i2 := instr_at (t := (s1.pushJump 0).push (jumpIf onTrue) (some s1.jumps.size)) (i := .putValue) (d := none)
    (((App.pushRoot _ _).trans (App.pushJump _ _)).trans hA) hev
  have jj := jump_at (App.refl _) (fun r hr => by
      simp only [pushJump_pending, pushRoot_pending, push_pending, List.mem_cons] at hr
      rcases hr with rfl | hr
      · simp
      · have := hp1 r hr; simp; omega) (by simp) (by simp; omega) hpre hev
  simp only [pushJump_instrs, push_isize, pushRoot_jumps, push_jumps, pushJump_jsize] at i1 i2 jj ht
  exact ⟨_, _, tb, i1, i2, hj, jj, by simp; omega, hl, ht⟩

theorem logicalTail_located {cur : Nat} {instr : Instruction} {r : Expr F} {s1 sM : LState F} {lo : Nat}
    (hc : cur < s1.jumps.size) (hp1 : PendOK s1) (hlo : lo ≤ s1.jumps.size)
    (hpre : Within lo (logicalTail cur instr r s1) sM []) (hev : Ev sM sF)
    (hroots : ∀ r ∈ sM.pending, lo ≤ r.patch → RootLocated bodies sF.toProg r) :
    ∃ j join tb, sF.toProg.instrs[s1.instrs.size]? = some (instr, some j) ∧
      sF.toProg.jumps[j]? = some tb ∧ sF.toProg.jumps[join]? = some (s1.instrs.size + 1) ∧ join ≠ cur ∧
      Located sF.toProg j cur tb r ∧
      InstrsAt sF.toProg (tb + len r) (termsAfter sF.toProg (tb + len r) [(.tis, none), (.jumpTo, some join)]) := by
  simp only [logicalTail] at hpre
  have hR := hpre.1.keep _ (List.mem_cons_self)
  obtain ⟨_, hloc⟩ := hroots _ hR hlo
  obtain ⟨tb, hj, hl, ht⟩ := hloc r rfl
  have hA := hpre.1
  have i1 := instr_at (t := s1.pushJump 0) (i := instr) (d := some s1.jumps.size)
    (((App.pushRoot _ _).trans (App.pushJump _ _)).trans hA) hev
  have jj := jump_at (App.refl _) (fun r hr => by
      simp only [pushJump_pending, pushRoot_pending, push_pending, List.mem_cons] at hr
      rcases hr with rfl | hr
      · simp
      · have := hp1 r hr; simp; omega) (by simp) (by simp; omega) hpre hev
  simp only [pushJump_instrs, push_isize, pushRoot_jumps, push_jumps, pushJump_jsize] at i1 jj ht
  exact ⟨_, _, tb, i1, hj, jj, by simp; omega, hl, ht⟩

/-- what is known about one arm body of an else-chain once its root is located -/
def ArmLoc (sF : LState F) (cur join : Nat) (it : Expr F × Nat) : Prop :=
  ∃ tb, sF.toProg.jumps[it.2]? = some tb ∧ Located sF.toProg it.2 cur tb it.1 ∧
    InstrsAt sF.toProg (tb + len it.1) (termsAfter sF.toProg (tb + len it.1) [(.jumpTo, some join)])

theorem finishChain_located {cur : Nat} {s2 sM : LState F} {items : List (Expr F × Nat)} {lo hi : Nat}
    (hp2 : PendOK s2) (ok : ItemsOK lo hi items) (hhi : hi ≤ s2.jumps.size) (hlo : lo ≤ s2.jumps.size)
    (hpre : Within lo (finishChain cur s2 items) sM []) (hev : Ev sM sF)
    (hroots : ∀ r ∈ sM.pending, lo ≤ r.patch → RootLocated bodies sF.toProg r) (hne : items ≠ []) :
    sF.toProg.jumps[s2.jumps.size]? = some s2.instrs.size ∧ ∀ it ∈ items, ArmLoc sF cur s2.jumps.size it := by
  cases items with
  | nil => exact absurd rfl hne
  | cons it0 its =>
    simp only [finishChain] at hpre
    constructor
    · refine jump_at (t := s2) (x := s2.instrs.size) (s' := _) ?_ ?_ ?_ hlo hpre hev
      · exact ⟨fun _ _ => rfl, Nat.le_refl _, fun _ _ => rfl, Nat.le_refl _, fun _ _ => rfl, Nat.le_refl _,
          fun r hr => List.mem_append.2 (.inr hr)⟩
      · intro r hr
        simp only [List.mem_append] at hr
        rcases hr with hr | hr
        · simp only [armRoots, List.mem_reverse, List.mem_map] at hr
          obtain ⟨it', hin, rfl⟩ := hr
          have := ok it' hin
          simp; omega
        · have := hp2 r hr
          simp at this ⊢; omega
      · simp
    · intro it hit
      have hmem : (⟨.code it.1, it.2, [(.jumpTo, some s2.jumps.size)], cur⟩ : Root F) ∈
          armRoots cur s2.jumps.size (it0 :: its) ++ (s2.pushJump s2.instrs.size).pending := by
        refine List.mem_append.2 (.inl ?_)
        simp only [armRoots, List.mem_reverse, List.mem_map]
        exact ⟨it, hit, rfl⟩
      obtain ⟨_, hloc⟩ := hroots _ (hpre.1.keep _ hmem) (ok it hit).1
      exact hloc it.1 rfl

theorem Within.trans {lo : Nat} {a b sM : LState F} {idx : List Nat} (h1 : Within lo a b idx) (h2 : Within lo b sM []) :
    Within lo a sM idx := by
  refine ⟨h1.1.trans h2.1, fun r hr => ?_⟩
  have := h1.1.jsize
  rcases h2.2 r hr with h | h | h | h
  · exact h1.2 r h
  · exact .inr (.inl h)
  · exact .inr (.inr (.inl (by omega)))
  · simp at h

theorem Within.dropGe {lo : Nat} {a sM : LState F} {idx : List Nat} (h : Within lo a sM idx)
    (hi : ∀ i ∈ idx, a.jumps.size ≤ i) : Within lo a sM [] :=
  ⟨h.1, fun r hr => by
    rcases h.2 r hr with h1 | h1 | h1 | h1
    · exact .inl h1
    · exact .inr (.inl h1)
    · exact .inr (.inr (.inl h1))
    · exact .inr (.inr (.inl (hi _ h1)))⟩

theorem Within.dropLt {lo : Nat} {a sM : LState F} {idx : List Nat} (h : Within lo a sM idx)
    (hi : ∀ i ∈ idx, i < lo) : Within lo a sM [] :=
  ⟨h.1, fun r hr => by
    rcases h.2 r hr with h1 | h1 | h1 | h1
    · exact .inl h1
    · exact .inr (.inl h1)
    · exact .inr (.inr (.inl h1))
    · exact .inr (.inl (hi _ h1))⟩

theorem Within.tailIdx {lo : Nat} {a sM : LState F} {i : Nat} {idx : List Nat} (h : Within lo a sM (i :: idx))
    (hi : i < lo) : Within lo a sM idx :=
  ⟨h.1, fun r hr => by
    rcases h.2 r hr with h1 | h1 | h1 | h1
    · exact .inl h1
    · exact .inr (.inl h1)
    · exact .inr (.inr (.inl h1))
    · simp only [List.mem_cons] at h1
      rcases h1 with h1 | h1
      · exact .inr (.inl (by omega))
      · exact .inr (.inr (.inr h1))⟩

/-- the end of an else-chain, seen from a state `a` of its emission: the only roots it adds are the arm bodies -/
theorem finishChain_within {cur lo : Nat} {a s2 : LState F} {items : List (Expr F × Nat)} (p : Pre a s2) :
    Within lo a (finishChain cur s2 items) (items.map (·.2)) := by
  cases items with
  | nil => exact p.within lo
  | cons it its =>
    simp only [finishChain]
    have pj : Pre a (s2.pushJump s2.instrs.size) := p.trans (.pushJump _ _)
    refine ⟨⟨pj.instrs, pj.isize, pj.consts, pj.csize, pj.jumps, pj.jsize,
      fun r hr => List.mem_append.2 (.inr (pj.keep r hr))⟩, fun r hr => ?_⟩
    simp only [List.mem_append] at hr
    rcases hr with hr | hr
    · simp only [armRoots, List.mem_reverse, List.mem_map] at hr
      obtain ⟨it', hin, rfl⟩ := hr
      exact .inr (.inr (.inr (List.mem_map.2 ⟨it', hin, rfl⟩)))
    · rcases pj.pend r hr with h | ⟨h, _⟩
      · exact .inl h
      · exact .inr (.inr (.inl h))

section
variable {root cur : Nat}

mutual
theorem emit_located : ∀ (e : Expr F) (s : LState F), EmitLoc bodies sF root cur e s
  | .lit v, s => by
    intro sM hc hp hpre hev hroots
    simp only [emit] at hpre
    simp only [Located]
    obtain ⟨h1, h2⟩ := const_at hpre.1 hev
    exact ⟨_, h1, h2⟩
  | .input, s => by
    intro sM hc hp hpre hev hroots
    simp only [emit] at hpre
    simp only [Located]
    exact instr_at hpre.1 hev
  | .ident sym, s => by
    intro sM hc hp hpre hev hroots
    simp only [emit] at hpre
    simp only [Located]
    obtain ⟨h1, h2⟩ := const_at hpre.1 hev
    exact ⟨_, h1, h2⟩
  | .emptyNested, s => by
    intro sM hc hp hpre hev hroots
    simp only [emit] at hpre
    simp only [Located]
    obtain ⟨h1, h2⟩ := const_at hpre.1 hev
    exact ⟨_, h1, h2⟩
  | .nested id, s => by
    intro sM hc hp hpre hev hroots
    simp only [emit] at hpre
    simp only [Located]
    have hR := hpre.1.keep _ (List.mem_cons_self)
    obtain ⟨hlab, _⟩ := hroots _ hR (Nat.le_refl _)
    have hid : s.jumps.size = id := hlab id rfl
    obtain ⟨h1, h2⟩ := const_at (t := s.pushJump 0) ((App.pushRoot _ _).trans hpre.1) hev
    rw [hid] at h2
    exact ⟨_, h1, h2⟩
  | .unary op x, s => by
    intro sM hc hp hpre hev hroots
    obtain ⟨p1, z1⟩ := emit_pre root cur x s hc
    simp only [emit] at hpre
    simp only [Located]
    refine ⟨sub_loc (emit_located x s) hc hp (.refl s) (hpre.pre (.push _ _ _)) hev hroots, ?_⟩
    rw [← z1]; exact instr_at hpre.1 hev
  | .binary op l r, s => by
    intro sM hc hp hpre hev hroots
    obtain ⟨p1, z1⟩ := emit_pre root cur l s hc
    obtain ⟨p2, z2⟩ := emit_pre root cur r (emit root cur l s) (by have := p1.jsize; omega)
    simp only [emit] at hpre
    simp only [Located]
    refine ⟨sub_loc (emit_located l s) hc hp (.refl s) ((hpre.pre (.push _ _ _)).pre p2) hev hroots, ?_, ?_⟩
    · rw [← z1]; exact sub_loc (emit_located r _) hc hp p1 (hpre.pre (.push _ _ _)) hev hroots
    · rw [← z1, ← z2]; exact instr_at hpre.1 hev
  | .pair l r, s => by
    intro sM hc hp hpre hev hroots
    obtain ⟨p1, z1⟩ := emit_pre root cur r s hc
    obtain ⟨p2, z2⟩ := emit_pre root cur l (emit root cur r s) (by have := p1.jsize; omega)
    simp only [emit] at hpre
    simp only [Located]
    refine ⟨sub_loc (emit_located r s) hc hp (.refl s) ((hpre.pre (.push _ _ _)).pre p2) hev hroots, ?_, ?_⟩
    · rw [← z1]; exact sub_loc (emit_located l _) hc hp p1 (hpre.pre (.push _ _ _)) hev hroots
    · rw [← z1, ← z2]; exact instr_at hpre.1 hev
  | .applyTo x f, s => by
    intro sM hc hp hpre hev hroots
    obtain ⟨p1, z1⟩ := emit_pre root cur f s hc
    obtain ⟨p2, z2⟩ := emit_pre root cur x (emit root cur f s) (by have := p1.jsize; omega)
    simp only [emit] at hpre
    simp only [Located]
    refine ⟨sub_loc (emit_located f s) hc hp (.refl s) ((hpre.pre (.push _ _ _)).pre p2) hev hroots, ?_, ?_⟩
    · rw [← z1]; exact sub_loc (emit_located x _) hc hp p1 (hpre.pre (.push _ _ _)) hev hroots
    · rw [← z1, ← z2]; exact instr_at hpre.1 hev
  | .list items, s => by
    intro sM hc hp hpre hev hroots
    obtain ⟨p1, z1⟩ := emitList_pre root cur items s hc
    simp only [emit] at hpre
    simp only [Located]
    refine ⟨emitList_located items s sM hc hp (hpre.pre (.push _ _ _)) hev hroots, ?_⟩
    rw [← z1]; exact instr_at hpre.1 hev
  | .cond onTrue c t, s => by
    intro sM hc hp hpre hev hroots
    obtain ⟨p1, z1⟩ := emit_pre root cur c s hc
    have j1 := p1.jsize
    obtain ⟨p2, _⟩ := condTail_pre (cur := cur) (onTrue := onTrue) (t := t) (s1 := emit root cur c s) (by omega)
    simp only [emit] at hpre
    simp only [Located]
    refine ⟨sub_loc (emit_located c s) hc hp (.refl s) (hpre.pre p2) hev hroots, ?_⟩
    have := condTail_located (by omega) (hp.of_pre p1) j1 hpre hev hroots
    rw [z1] at this
    exact this
  | .and l r, s => by
    intro sM hc hp hpre hev hroots
    obtain ⟨p1, z1⟩ := emit_pre root cur l s hc
    have j1 := p1.jsize
    obtain ⟨p2, _⟩ := logicalTail_pre (cur := cur) (instr := .and) (r := r) (s1 := emit root cur l s) (by omega)
    simp only [emit] at hpre
    simp only [Located]
    refine ⟨sub_loc (emit_located l s) hc hp (.refl s) (hpre.pre p2) hev hroots, ?_⟩
    have := logicalTail_located (by omega) (hp.of_pre p1) j1 hpre hev hroots
    rw [z1] at this
    exact this
  | .or l r, s => by
    intro sM hc hp hpre hev hroots
    obtain ⟨p1, z1⟩ := emit_pre root cur l s hc
    have j1 := p1.jsize
    obtain ⟨p2, _⟩ := logicalTail_pre (cur := cur) (instr := .or) (r := r) (s1 := emit root cur l s) (by omega)
    simp only [emit] at hpre
    simp only [Located]
    refine ⟨sub_loc (emit_located l s) hc hp (.refl s) (hpre.pre p2) hev hroots, ?_⟩
    have := logicalTail_located (by omega) (hp.of_pre p1) j1 hpre hev hroots
    rw [z1] at this
    exact this
  | .seq a b, s => by
    intro sM hc hp hpre hev hroots
    obtain ⟨p1, z1⟩ := emit_pre root cur a s hc
    obtain ⟨p2, z2⟩ := emit_pre root cur b ((emit root cur a s).push .updateValue none) (by have := p1.jsize; simp; omega)
    simp only [emit] at hpre
    simp only [Located]
    refine ⟨sub_loc (emit_located a s) hc hp (.refl s) ((hpre.pre p2).pre (.push _ _ _)) hev hroots, ?_, ?_⟩
    · rw [← z1]; exact instr_at (hpre.pre p2).1 hev
    · have := sub_loc (emit_located b _) hc hp (p1.trans (.push _ _ _)) hpre hev hroots
      simpa [z1] using this
  | .sideAfter x b, s => by
    intro sM hc hp hpre hev hroots
    obtain ⟨p1, z1⟩ := emit_pre root cur x s hc
    obtain ⟨p2, z2⟩ := emit_pre root cur b ((emit root cur x s).push .startSideEffect none)
      (by have := p1.jsize; simp; omega)
    simp only [emit] at hpre
    simp only [Located]
    refine ⟨sub_loc (emit_located x s) hc hp (.refl s)
      (((hpre.pre (.push _ _ _)).pre p2).pre (.push _ _ _)) hev hroots, ?_, ?_, ?_⟩
    · rw [← z1]; exact instr_at ((hpre.pre (.push _ _ _)).pre p2).1 hev
    · have := sub_loc (emit_located b _) hc hp (p1.trans (.push _ _ _)) (hpre.pre (.push _ _ _)) hev hroots
      simpa [z1] using this
    · have := instr_at hpre.1 hev
      simpa [z2, z1] using this
  | .reapply x, s => by
    intro sM hc hp hpre hev hroots
    obtain ⟨p1, z1⟩ := emit_pre root cur x s hc
    simp only [emit] at hpre
    simp only [Located]
    refine ⟨sub_loc (emit_located x s) hc hp (.refl s) ((hpre.pre (.push _ _ _)).pre (.push _ _ _)) hev hroots,
      ?_, ?_⟩
    · rw [← z1]; exact instr_at ((App.push _ _ _).trans hpre.1) hev
    · have := instr_at hpre.1 hev
      simpa [z1] using this
  | .prefixApply sym x, s => by
    intro sM hc hp hpre hev hroots
    obtain ⟨p1, z1⟩ := emit_pre root cur x (s.pushConst .resolve (.sym sym)) (by simpa using hc)
    simp only [emit] at hpre
    simp only [Located]
    obtain ⟨h1, h2⟩ := const_at ((hpre.pre (.push _ _ _)).pre p1).1 hev
    refine ⟨⟨_, h1, h2⟩, ?_, ?_⟩
    · have := sub_loc (emit_located x _) hc hp (.pushConst s _ _) (hpre.pre (.push _ _ _)) hev hroots
      simpa using this
    · have := instr_at hpre.1 hev
      simpa [z1] using this
  | .suffixApply x sym, s => by
    intro sM hc hp hpre hev hroots
    obtain ⟨p1, z1⟩ := emit_pre root cur x (s.pushConst .resolve (.sym sym)) (by simpa using hc)
    simp only [emit] at hpre
    simp only [Located]
    obtain ⟨h1, h2⟩ := const_at ((hpre.pre (.push _ _ _)).pre p1).1 hev
    refine ⟨⟨_, h1, h2⟩, ?_, ?_⟩
    · have := sub_loc (emit_located x _) hc hp (.pushConst s _ _) (hpre.pre (.push _ _ _)) hev hroots
      simpa using this
    · have := instr_at hpre.1 hev
      simpa [z1] using this
  | .infixApply a sym b, s => by
    intro sM hc hp hpre hev hroots
    obtain ⟨p1, z1⟩ := emit_pre root cur a (s.pushConst .resolve (.sym sym)) (by simpa using hc)
    obtain ⟨p2, z2⟩ := emit_pre root cur b (emit root cur a (s.pushConst .resolve (.sym sym)))
      (by have := p1.jsize; simp at this; omega)
    simp only [emit] at hpre
    simp only [Located]
    have hq : Within s.jumps.size ((emit root cur b (emit root cur a (s.pushConst .resolve (.sym sym)))).push
        .makeList (some 2)) sM [] := hpre.pre (.push _ _ _)
    obtain ⟨h1, h2⟩ := const_at (((hq.pre (.push _ _ _)).pre p2).pre p1).1 hev
    refine ⟨⟨_, h1, h2⟩, ?_, ?_, ?_, ?_⟩
    · have := sub_loc (emit_located a _) hc hp (.pushConst s _ _) ((hq.pre (.push _ _ _)).pre p2) hev hroots
      simpa using this
    · have := sub_loc (emit_located b _) hc hp ((Pre.pushConst s _ _).trans p1) (hq.pre (.push _ _ _)) hev hroots
      simpa [z1] using this
    · have := instr_at hq.1 hev
      simpa [z2, z1] using this
    · have := instr_at hpre.1 hev
      simpa [z2, z1] using this
  | .chain arms none, s => by
    intro sM hc hp hpre hev hroots
    obtain ⟨p1, z1, ok1⟩ := emitArms_pre root cur arms s hc
    have j1 := p1.jsize
    simp only [emit] at hpre
    rw [Located_chain]
    cases arms with
    | nil =>
      simp only [emitArms, chainNoFinal, finishChain] at hpre
      exact ⟨0, by simp [LocatedArms], by simpa [lenArms] using instr_at hpre.1 hev, fun h => absurd rfl h⟩
    | cons arm rest =>
      simp only [chainNoFinal] at hpre
      have hne : (emitArms root cur (arm :: rest) s).2 ≠ [] := by
        obtain ⟨b, c, t⟩ := arm; simp [emitArms]
      obtain ⟨hj, harm⟩ := finishChain_located (hp.of_pre p1) ok1 (Nat.le_refl _) j1 hpre hev hroots hne
      have hw : Within s.jumps.size (emitArms root cur (arm :: rest) s).1 sM ((emitArms root cur (arm :: rest) s).2.map (·.2)) :=
        (finishChain_within (Pre.refl _)).trans hpre
      refine ⟨_, emitArms_located (arm :: rest) s sM _ hc hp hw hev hroots harm, trivial, fun _ => ⟨?_, by omega⟩⟩
      rw [hj, z1, len_chain]
      simp
  | .chain arms (some e), s => by
    intro sM hc hp hpre hev hroots
    obtain ⟨p1, z1, ok1⟩ := emitArms_pre root cur arms s hc
    have j1 := p1.jsize
    obtain ⟨p2, z2⟩ := emit_pre root cur e (emitArms root cur arms s).1 (by omega)
    have j2 := p2.jsize
    simp only [emit] at hpre
    rw [Located_chain]
    have ok2 : ItemsOK s.jumps.size (emit root cur e (emitArms root cur arms s).1).jumps.size (emitArms root cur arms s).2 :=
      fun it hit => ⟨(ok1 it hit).1, by have := (ok1 it hit).2; omega⟩
    have hfe : Located sF.toProg root cur (s.instrs.size + lenArms arms) e := by
      rw [← z1]
      -- seen from the final arm, the arm placeholders were allocated before it started
      have hw : Within (emitArms root cur arms s).1.jumps.size (emit root cur e (emitArms root cur arms s).1) sM [] :=
        ((finishChain_within (Pre.refl _)).dropLt (fun i hi => by
          obtain ⟨it, hit, rfl⟩ := List.mem_map.1 hi
          exact (ok1 it hit).2)).trans (hpre.mono j1)
      exact emit_located e _ sM (by omega) (hp.of_pre p1) hw hev (fun r hr h => hroots r hr (by omega))
    cases arms with
    | nil =>
      exact ⟨0, by simp [LocatedArms], hfe, fun h => absurd rfl h⟩
    | cons arm rest =>
      have hne : (emitArms root cur (arm :: rest) s).2 ≠ [] := by
        obtain ⟨b, c, t⟩ := arm; simp [emitArms]
      obtain ⟨hj, harm⟩ := finishChain_located (hp.of_pre (p1.trans p2)) ok2 (Nat.le_refl _) (by omega) hpre hev hroots hne
      have hw : Within s.jumps.size (emitArms root cur (arm :: rest) s).1 sM ((emitArms root cur (arm :: rest) s).2.map (·.2)) :=
        (finishChain_within p2).trans hpre
      refine ⟨_, emitArms_located (arm :: rest) s sM _ hc hp hw hev hroots harm, hfe, fun _ => ⟨?_, by omega⟩⟩
      rw [hj, z2, z1, len_chain]
      simp only [Option.some.injEq]
      omega

theorem emitList_located : ∀ (items : List (Expr F)) (s sM : LState F), cur < s.jumps.size → PendOK s →
    Within s.jumps.size (emitList root cur items s) sM [] → Ev sM sF →
    (∀ r ∈ sM.pending, s.jumps.size ≤ r.patch → RootLocated bodies sF.toProg r) →
    LocatedList sF.toProg root cur s.instrs.size items
  | [], s, sM, _, _, _, _, _ => by simp [LocatedList]
  | x :: xs, s, sM, hc, hp, hpre, hev, hroots => by
    obtain ⟨p1, z1⟩ := emit_pre root cur x s hc
    obtain ⟨p2, _⟩ := emitList_pre root cur xs (emit root cur x s) (by have := p1.jsize; omega)
    simp only [emitList] at hpre
    simp only [LocatedList]
    refine ⟨sub_loc (emit_located x s) hc hp (.refl s) (hpre.pre p2) hev hroots, ?_⟩
    rw [← z1]
    have j1 := p1.jsize
    exact emitList_located xs _ sM (by omega) (hp.of_pre p1) (hpre.mono j1) hev (fun r hr h => hroots r hr (by omega))

theorem emitArms_located : ∀ (arms : List (Bool × Expr F × Expr F)) (s sM : LState F) (join : Nat),
    cur < s.jumps.size → PendOK s →
    Within s.jumps.size (emitArms root cur arms s).1 sM ((emitArms root cur arms s).2.map (·.2)) → Ev sM sF →
    (∀ r ∈ sM.pending, s.jumps.size ≤ r.patch → RootLocated bodies sF.toProg r) →
    (∀ it ∈ (emitArms root cur arms s).2, ArmLoc sF cur join it) →
    LocatedArms sF.toProg root cur join s.instrs.size arms
  | [], s, sM, join, _, _, _, _, _, _ => by simp [LocatedArms]
  | (onTrue, c, t) :: rest, s, sM, join, hc, hp, hpre, hev, hroots, harm => by
    obtain ⟨p1, z1⟩ := emit_pre root cur c s hc
    have j1 := p1.jsize
    obtain ⟨p2, _, ok2⟩ := emitArms_pre root cur rest
      (((emit root cur c s).pushJump 0).push (jumpIf onTrue) (some (emit root cur c s).jumps.size)) (by simp; omega)
    have j2 := p2.jsize
    simp only [emitArms, List.map_cons] at hpre harm
    simp only [LocatedArms]
    have pa : Pre (emit root cur c s)
        (((emit root cur c s).pushJump 0).push (jumpIf onTrue) (some (emit root cur c s).jumps.size)) :=
      (Pre.pushJump _ 0).trans (.push _ _ _)
    -- seen from the condition, its own placeholder and those of the later arms come later
    have hwc : Within s.jumps.size (emit root cur c s) sM [] :=
      ((hpre.pre p2).pre pa).dropGe (fun i hi => by
        simp only [List.mem_cons, List.mem_map] at hi
        rcases hi with rfl | ⟨it, hit, rfl⟩
        · exact Nat.le_refl _
        · have := (ok2 it hit).1; simp at this; omega)
    refine ⟨sub_loc (emit_located c s) hc hp (.refl s) hwc hev hroots, ?_, ?_⟩
    · obtain ⟨tb, h1, h2, h3⟩ := harm (t, (emit root cur c s).jumps.size) (List.mem_cons_self)
      have i1 := instr_at (t := (emit root cur c s).pushJump 0) (hpre.pre p2).1 hev
      simp only [pushJump_instrs, z1] at i1
      exact ⟨_, tb, i1, h1, h2, h3⟩
    · have hwr := (hpre.mono (lo' := (((emit root cur c s).pushJump 0).push (jumpIf onTrue)
          (some (emit root cur c s).jumps.size)).jumps.size) (by simp; omega)).tailIdx (by simp)
      have := emitArms_located rest _ sM join (by simp; omega) (by
          intro r hr; have := (hp.of_pre p1) r (by simpa using hr); simp; omega) hwr hev
        (fun r hr h => hroots r hr (by simp at h; omega)) (fun it hit => harm it (List.mem_cons_of_mem _ hit))
      simpa [z1] using this
end

end

end Garnish.Abs
