/-
The reversed walk of `clone_index_stack`: the loop invariant and `clone_preserves`.
-/
import Garnish.Lemmas.OptimizeFresh
import Garnish.Lemmas.OptimizeIndex
set_option maxHeartbeats 1000000
namespace Garnish.BasicOpt
open Garnish

/-- `n` is a faithful copy of `o`: same label, same inline cells, links established by the loop -/
def CloneOf (s0 : Array Cell) (cur : Store) (lo hi o n : Nat) : Prop :=
  ∀ sh, shape s0 o = some sh → ∃ sh', shape cur.cells n = some sh' ∧ sh'.label = sh.label ∧ sh'.inl = sh.inl ∧
    AllRel (Link cur lo hi) sh.kids sh'.kids

/-- what a map entry `(o, n)` means: `o` is retained and kept in place, or `n + off` is the position of a
faithful copy behind the index list (`off` = the distance the copies are slid down afterwards) -/
def Good (off : Nat) (s0 : Array Cell) (cur : Store) (lo hi o n : Nat) : Prop :=
  (n = o ∧ o < cur.retention) ∨ ∃ ni, hi ≤ ni ∧ n + off = ni ∧ CloneOf s0 cur lo hi o ni

/-- heaps without list cells (the list arm of the clone step is not covered by the universal proof yet) -/
def NoLists (cells : Array Cell) : Prop := ∀ (i n k : Nat), cells[i]? ≠ some (.list n k)

/-- where a link of a freshly copied cell at position `j` may lead: to a readable retained address, or (after
the slide by `off`) to a readable cell that was copied earlier -/
def Target (off : Nat) (cur : Store) (hi k' j : Nat) : Prop :=
  (k' < cur.retention ∧ ∃ sh, shape cur.cells k' = some sh) ∨
  (hi ≤ k' + off ∧ k' + off < j ∧ ∃ sh, shape cur.cells (k' + off) = some sh)

/-- a cell behind the index list: a list header has `k ≤ n`; it is never a node, or it is a node whose links are
`Target`s -/
def FreshOK (off : Nat) (cur : Store) (hi j : Nat) : Prop :=
  ∃ c, cur.cells[j]? = some c ∧ (∀ n k, c = .list n k → k ≤ n) ∧
    (neverNode c = true ∨ ∃ sh, shape cur.cells j = some sh ∧ ∀ k' ∈ sh.kids, Target off cur hi k' j)

/-- what the index phase guarantees when it is started on nodes of a block whose links lead to nodes -/
def FreshPre (s0 : Array Cell) (s1 : Store) (top hi : Nat) : Prop :=
  KidsNodes s0 ∧ ∀ j, top ≤ j → j < hi → ∀ o, s1.cells[j]? = some (.cloneItem o) → ∃ sh, shape s0 o = some sh

theorem Target.mono {off : Nat} {cur cur' : Store} {hi k' j : Nat} (hret : cur'.retention = cur.retention)
    (hag : AgreeNC cur.cells cur'.cells) (h : Target off cur hi k' j) : Target off cur' hi k' j := by
  rcases h with ⟨h1, sh, h2⟩ | ⟨h1, h2, sh, h3⟩
  · exact Or.inl ⟨by rw [hret]; exact h1, sh, shape_agree hag h2⟩
  · exact Or.inr ⟨h1, h2, sh, shape_agree hag h3⟩

theorem FreshOK.mono {off : Nat} {cur cur' : Store} {hi j : Nat} (hcell : cur'.cells[j]? = cur.cells[j]?)
    (hret : cur'.retention = cur.retention) (hag : AgreeNC cur.cells cur'.cells) (h : FreshOK off cur hi j) :
    FreshOK off cur' hi j := by
  obtain ⟨c, h1, h2, h3⟩ := h
  refine ⟨c, by rw [hcell]; exact h1, h2, ?_⟩
  rcases h3 with h3 | ⟨sh, h4, h5⟩
  · exact Or.inl h3
  · exact Or.inr ⟨sh, shape_agree hag h4, fun k' hk' => (h5 k' hk').mono hret hag⟩

/-- invariant of the reversed walk: positions `≥ top + k` of the index list are processed -/
structure CInv (off : Nat) (s0 : Array Cell) (s1 : Store) (top hi k : Nat) (cur : Store) : Prop where
  agree0 : ∀ (i : Nat) (c : Cell), s0[i]? = some c → cur.cells[i]? = some c
  start : cur.start = s1.start
  ret : cur.retention = s1.retention
  hiLe : hi ≤ cur.cells.size
  bound : top + k ≤ hi
  pending : ∀ j, j < top + k → j < hi → cur.cells[j]? = s1.cells[j]?
  done : ∀ j, top + k ≤ j → j < hi → ∃ o n, cur.cells[j]? = some (.cloneIndexMap o n) ∧
    s1.cells[j]? = some (.cloneItem o) ∧ Good off s0 cur (top + k) hi o n
  /-- when the index list names nodes only, everything behind it is well formed -/
  fresh : FreshPre s0 s1 top hi → ∀ j, hi ≤ j → j < cur.cells.size → FreshOK off cur hi j

theorem Link.mono {cur cur' : Store} {lo lo' hi x x' : Nat} (hlo : lo' ≤ lo) (hret : cur'.retention = cur.retention)
    (hcells : ∀ j, lo ≤ j → j < hi → cur'.cells[j]? = cur.cells[j]?) (h : Link cur lo hi x x') :
    Link cur' lo' hi x x' := by
  rcases h with ⟨h1, h2⟩ | ⟨j, h1, h2, h3⟩
  · exact Or.inl ⟨h1, by rw [hret]; exact h2⟩
  · exact Or.inr ⟨j, by omega, h2, by rw [hcells j h1 h2]; exact h3⟩

theorem Good.mono {off : Nat} {s0 : Array Cell} {cur cur' : Store} {lo lo' hi o n : Nat} (hlo : lo' ≤ lo)
    (hret : cur'.retention = cur.retention)
    (hcells : ∀ j, lo ≤ j → j < hi → cur'.cells[j]? = cur.cells[j]?)
    (hag : AgreeNC cur.cells cur'.cells) (h : Good off s0 cur lo hi o n) : Good off s0 cur' lo' hi o n := by
  rcases h with ⟨h1, h2⟩ | ⟨ni, hni1, hni2, h⟩
  · exact Or.inl ⟨h1, by rw [hret]; exact h2⟩
  · refine Or.inr ⟨ni, hni1, hni2, ?_⟩
    intro sh hsh
    obtain ⟨sh', h1, h2, h3, h4⟩ := h sh hsh
    exact ⟨sh', shape_agree hag h1, h2, h3, AllRel.imp (fun a b hab => Link.mono hlo hret hcells hab) h4⟩

theorem pushLast_ge : ∀ (cs : List Cell) (s s' : Store) (last r : Nat), cs ≠ [] →
    Store.pushLast s cs last = .ok (s', r) → s.cells.size ≤ r
  | [], _, _, _, _, h, _ => absurd rfl h
  | [c], s, s', last, r, _, h => by
    simp only [Store.pushLast, bind_eq_ok] at h
    obtain ⟨⟨s1, i1⟩, h1, h2⟩ := h
    simp only [Outcome.ok.injEq, Prod.mk.injEq] at h2
    have := (push_ok h1).1
    omega
  | c :: d :: cs, s, s', last, r, _, h => by
    simp only [Store.pushLast, bind_eq_ok] at h
    obtain ⟨⟨s1, i1⟩, h1, h2⟩ := h
    have := pushLast_ge (d :: cs) s1 s' i1 r (by simp) (by simpa [Store.pushLast, bind_eq_ok] using h2)
    have hsz := (push_ext 0 h1).mono
    omega

theorem relink_ne {s : Store} {ls le index : Nat} {c : Cell} {cs : List Cell}
    (h : Store.relink s ls le index c = .ok cs) : cs ≠ [] := by
  cases c <;> simp only [Store.relink, bind_eq_ok, pure_eq_ok] at h <;> try (simp at h; done)
  all_goals (
    first
      | (obtain ⟨_, _, _, _, _, _, h⟩ := h; subst h; simp)
      | (obtain ⟨_, _, _, _, h⟩ := h; subst h; simp)
      | (obtain ⟨_, _, h⟩ := h; subst h; simp))

/-- the copy made by one clone step lies behind everything that existed -/
theorem cloneCell_index_ge {s s' : Store} {ls le index r : Nat} {c : Cell}
    (h : Store.cloneCell s ls le index c = .ok (s', r)) : s.cells.size ≤ r := by
  unfold Store.cloneCell at h
  split at h
  all_goals first
    | (have := (push_ok h).1; omega)
    | (simp only [bind_eq_ok, pure_eq_ok, Prod.mk.injEq] at h
       obtain ⟨⟨s1, i1⟩, h1, s2, h2, h3, h4⟩ := h
       have := (push_ok h1).1
       omega)
    | (simp at h; done)
    | (simp only [bind_eq_ok] at h
       obtain ⟨cells, h1, h2⟩ := h
       exact pushLast_ge _ _ _ _ _ (relink_ne h1) h2)

theorem setCell_cells {s s' : Store} {i : Nat} {c : Cell} (h : Store.setCell s i c = .ok s') :
    i < s.cells.size ∧ s'.cells = s.cells.setIfInBounds i c ∧ SameFrame s s' := by
  unfold Store.setCell at h
  split at h
  · simp only [Outcome.ok.injEq] at h
    subst h
    exact ⟨by assumption, rfl, SameFrame.rfl' _⟩
  · simp at h

/-- what one iteration of the reversed walk does: entry `index` at position `top + k` gets the mapping `nw`
(store `cur2`: after the optional copy; `s2`: after the map entry is written) -/
structure CStep (off : Nat) (s0 : Array Cell) (s1 : Store) (top hi k : Nat) (cur : Store) (index : Nat)
    (cur2 : Store) (nw : Nat) (s2 : Store) : Prop where
  item : cur.cells[top + k]? = some (.cloneItem index)
  ext : Ext (top + k + 1) cur cur2
  keep : ∀ j, j < cur.cells.size → cur2.cells[j]? = cur.cells[j]?
  good : Good off s0 cur2 (top + k + 1) hi index nw
  /-- the cells the step appends: the copy itself, and cells that are leaves or never nodes -/
  news : FreshPre s0 s1 top hi → ∀ j, cur.cells.size ≤ j → j < cur2.cells.size →
    j = nw + off ∨ ∃ d, cur2.cells[j]? = some d ∧ SideCell d
  other : ∀ j, j ≠ top + k → s2.cells[j]? = cur2.cells[j]?
  size2 : s2.cells.size = cur2.cells.size
  frame2 : SameFrame cur2 s2
  agree2 : AgreeNC cur2.cells s2.cells

/-- one iteration of the reversed walk keeps the invariant; `off = 0` is `clone_data`, for `optimize` the
offset is applied to every new index because the retention count lies below the index list -/
theorem cloneLoop_one {off : Nat} {s0 : Array Cell} {s1 : Store} {top hi : Nat} (htop : s0.size ≤ top)
    (hnl : ListsWF s0) (hcase : off = 0 ∨ s1.retention ≤ hi) (k : Nat) (cur s' : Store)
    (hinv : CInv off s0 s1 top hi (k + 1) cur)
    (h : Store.cloneLoop off (s1.start + hi) top (k + 1) cur = .ok s') :
    ∃ index cur2 nw s2, CStep off s0 s1 top hi k cur index cur2 nw s2 ∧ CInv off s0 s1 top hi k s2 ∧
      Store.cloneLoop off (s1.start + hi) top k s2 = .ok s' := by
  simp only [Store.cloneLoop, bind_eq_ok] at h
  obtain ⟨ci, hgi, h2⟩ := h
  have hci := get_ok hgi
  split at h2
  · rename_i index
    simp only [bind_eq_ok] at h2
    obtain ⟨existing, hex, ⟨cur2, nw⟩, h3, s2, hset, hrest⟩ := h2
    have hstart : cur.start + (top + k) + 1 = cur.start + (top + k + 1) := by omega
    rw [hstart, ← hinv.start] at hex
    rw [hstart, ← hinv.start] at h3
    -- the store after the optional clone, and what the new map entry satisfies
    have key : Ext (top + k + 1) cur cur2 ∧ (∀ j, j < cur.cells.size → cur2.cells[j]? = cur.cells[j]?) ∧
        Good off s0 cur2 (top + k + 1) hi index nw ∧
        (FreshPre s0 s1 top hi → ∀ j, cur.cells.size ≤ j → j < cur2.cells.size → FreshOK off cur2 hi j) ∧
        (FreshPre s0 s1 top hi → ∀ j, cur.cells.size ≤ j → j < cur2.cells.size →
          j = nw + off ∨ ∃ d, cur2.cells[j]? = some d ∧ SideCell d) := by
      cases existing with
      | some j' =>
        simp only [pure, Outcome.ok.injEq, Prod.mk.injEq] at h3
        obtain ⟨hc2, hni⟩ := h3
        subst hc2; subst hni
        refine ⟨Ext.refl _ _, fun _ _ => rfl, ?_, fun _ j h1 h2 => by omega, fun _ j h1 h2 => by omega⟩
        rcases lookupOpt_link hex with ⟨h1, h1'⟩ | ⟨j, h1, h2, hcell⟩
        · exact Or.inl ⟨h1, h1'⟩
        · obtain ⟨o, n, hcell', _, hgood⟩ := hinv.done j (by omega) h2
          rw [hcell] at hcell'
          simp only [Option.some.injEq, Cell.cloneIndexMap.injEq] at hcell'
          obtain ⟨ho, hn⟩ := hcell'
          subst ho; subst hn
          have hk : top + (k + 1) = top + k + 1 := by omega
          rw [hk] at hgood
          exact hgood
      | none =>
        simp only [bind_eq_ok] at h3
        obtain ⟨c, hgc, ⟨cur2', ni'⟩, hclone, h4⟩ := h3
        have hge := cloneCell_index_ge hclone
        have hext := cloneCell_ext (top + k + 1) hclone
        have hni : cur2' = cur2 ∧ nw + off = ni' := by
          split at h4
          · rename_i hlt
            simp only [pure, Outcome.ok.injEq, Prod.mk.injEq] at h4
            refine ⟨h4.1, ?_⟩
            rcases hcase with h0 | hr
            · omega
            · have e1 := hext.frame.1
              have e2 := hinv.ret
              have e3 := hinv.hiLe
              exfalso
              have hlt' : ni' < cur2'.retention := hlt
              omega
          · split at h4
            · simp at h4
            · simp only [pure, Outcome.ok.injEq, Prod.mk.injEq] at h4
              refine ⟨h4.1, ?_⟩
              omega
        obtain ⟨hc2, hni⟩ := hni
        subst hc2
        have hkeep : ∀ j, j < cur.cells.size → cur2'.cells[j]? = cur.cells[j]? :=
          fun j hj => (cloneCell_ext (j + 1) hclone).keep j (by omega) hj
        have hagc : AgreeNC cur.cells cur2'.cells := by
          intro j d hj _
          have hjl : j < cur.cells.size := by
            rcases Nat.lt_or_ge j cur.cells.size with h | h
            · exact h
            · rw [Array.getElem?_eq_none h] at hj; cases hj
          rw [hkeep j hjl]; exact hj
        refine ⟨hext, hkeep, Or.inr ⟨ni', by have := hinv.hiLe; omega, hni, ?_⟩, ?_, ?_⟩
        rotate_left
        · -- the cells this step appends
          intro ⟨hkn, hitems⟩ j hj1 hj2
          have hi_lt' : top + k < hi := by have := hinv.bound; omega
          obtain ⟨sh, hsh⟩ := hitems (top + k) (by omega) hi_lt' index (by
            rw [← hinv.pending (top + k) (by omega) hi_lt']; exact hci)
          obtain ⟨c0, hc0⟩ := shape_cell hsh
          have hcc : c = c0 := by
            have := hinv.agree0 index c0 hc0
            rw [get_ok hgc] at this
            exact Option.some.inj this
          subst hcc
          obtain ⟨sh', g1, g2, g3, g4⟩ := cloneCell_shape_all hinv.agree0 hc0 hsh
            (fun n k hck => hnl index n k (by rw [hc0, hck])) hclone
          have hoth := cloneCell_others hinv.agree0 hc0 hsh hclone
          by_cases hjn : j = ni'
          · subst hjn
            obtain ⟨c'', hc''⟩ := shape_cell g1
            refine ⟨c'', hc'', ?_, Or.inr ⟨sh', g1, ?_⟩⟩
            · intro n k' hck
              subst hck
              have hl1 : sh'.label = .list n k' := by
                unfold shape at g1; rw [hc''] at g1
                simp only at g1
                split at g1
                · simp only [Option.some.injEq] at g1; rw [← g1]
                · simp at g1
              have := label_list hsh (by rw [← g2]; exact hl1)
              exact hnl index n k' this
            · intro k' hk'
              obtain ⟨x, hx, st, hgr, hab⟩ := AllRel.right_mem g4 k' hk'
              obtain ⟨shx, hshx⟩ := hkn index sh hsh x hx
              have hxcur : ∃ sh2, shape cur2'.cells x = some sh2 :=
                ⟨shx, shape_agree hagc (shape_agree (agreeNC_of_all hinv.agree0) hshx)⟩
              rw [← hgr.start] at hab
              have hl := lookup_link hab
              rcases hl with ⟨h1, h2⟩ | ⟨j', h1, h2, h3⟩
              · subst h1
                exact Or.inl ⟨by rw [hext.frame.1, ← hgr.ret]; exact h2, hxcur⟩
              · rw [hgr.keep j' (by have := hinv.hiLe; omega)] at h3
                obtain ⟨o, n, hcell', _, hgood⟩ := hinv.done j' (by omega) h2
                rw [h3] at hcell'
                simp only [Option.some.injEq, Cell.cloneIndexMap.injEq] at hcell'
                obtain ⟨ho, hn⟩ := hcell'
                subst ho; subst hn
                rcases hgood with ⟨e1, e2⟩ | ⟨ni2, e1, e2, e3⟩
                · subst e1
                  exact Or.inl ⟨by rw [hext.frame.1]; exact e2, hxcur⟩
                · obtain ⟨sh2, f1, _, _, _⟩ := e3 shx hshx
                  have hb := shape_bound f1
                  exact Or.inr ⟨by omega, by omega, sh2, by rw [e2]; exact shape_agree hagc f1⟩
          · obtain ⟨d, hd, hside⟩ := hoth j hj1 hj2 hjn
            refine ⟨d, hd, ?_, ?_⟩
            · intro n k' hdk
              subst hdk
              rcases hside with h | h
              · simp [neverNode] at h
              · simp [isLeafCell, soloShape] at h
            · rcases hside with h | h
              · exact Or.inl h
              · exact Or.inr ⟨_, shape_of_solo hd h, fun k' hk' => by simp at hk'⟩
        · -- the cells this step appends, by kind
          intro ⟨hkn, hitems⟩ j hj1 hj2
          have hi_lt' : top + k < hi := by have := hinv.bound; omega
          obtain ⟨sh, hsh⟩ := hitems (top + k) (by omega) hi_lt' index (by
            rw [← hinv.pending (top + k) (by omega) hi_lt']; exact hci)
          obtain ⟨c0, hc0⟩ := shape_cell hsh
          have hcc : c = c0 := by
            have := hinv.agree0 index c0 hc0
            rw [get_ok hgc] at this
            exact Option.some.inj this
          subst hcc
          have hoth := cloneCell_others hinv.agree0 hc0 hsh hclone
          by_cases hjn : j = ni'
          · exact Or.inl (by omega)
          · exact Or.inr (hoth j hj1 hj2 hjn)
        intro sh hsh
        obtain ⟨c0, hc0⟩ := shape_cell hsh
        have hcc : c = c0 := by
          have := hinv.agree0 index c0 hc0
          rw [get_ok hgc] at this
          exact Option.some.inj this
        subst hcc
        obtain ⟨sh', g1, g2, g3, g4⟩ := cloneCell_shape_all hinv.agree0 hc0 hsh (fun n k hck => hnl index n k (by rw [hc0, hck])) hclone
        refine ⟨sh', g1, g2, g3, AllRel.imp (fun a b ⟨st, hgr, hab⟩ => ?_) g4⟩
        rw [← hgr.start] at hab
        have hl := lookup_link hab
        exact Link.mono (Nat.le_refl _) (hext.frame.1.trans hgr.ret.symm)
          (fun j hj1 hj2 => (hkeep j (by have := hinv.hiLe; omega)).trans
            (hgr.keep j (by have := hinv.hiLe; omega)).symm) hl
    obtain ⟨hext, hkeep, hgood, hfresh2, hnews⟩ := key
    obtain ⟨hilt, hcells2, hframe2⟩ := setCell_cells hset
    have hi_lt : top + k < hi := by have := hinv.bound; omega
    have hcur2i : cur2.cells[top + k]? = some (.cloneItem index) := by
      rw [hkeep _ (by have := hinv.hiLe; omega)]; exact hci
    -- only the `CloneItem` at `top + k` changes between `cur2` and `s2`
    have hag2 : AgreeNC cur2.cells s2.cells := by
      intro j d hj hne
      rw [hcells2]
      by_cases hji : j = top + k
      · subst hji
        rw [hcur2i] at hj
        exact absurd (Option.some.inj hj).symm (hne index)
      · simp [Ne.symm hji, hj]
    have hother : ∀ j, j ≠ top + k → s2.cells[j]? = cur2.cells[j]? := by
      intro j hj
      rw [hcells2]
      simp [Ne.symm hj]
    have hinv2 : CInv off s0 s1 top hi k s2 := by
      refine ⟨?_, ?_, ?_, ?_, by omega, ?_, ?_, ?_⟩
      rotate_right
      · -- everything behind the index list stays well formed
        intro hpre j hj1 hj2
        have hsz2 : s2.cells.size = cur2.cells.size := by rw [hcells2]; simp
        have hagc : AgreeNC cur.cells cur2.cells := by
          intro j' d hj' _
          have hjl : j' < cur.cells.size := by
            rcases Nat.lt_or_ge j' cur.cells.size with h | h
            · exact h
            · rw [Array.getElem?_eq_none h] at hj'; cases hj'
          rw [hkeep j' hjl]; exact hj'
        by_cases hold : j < cur.cells.size
        · have f1 := (hinv.fresh hpre j hj1 hold).mono (hkeep j hold) hext.frame.1 hagc
          exact f1.mono (hother j (by omega)) hframe2.1 hag2
        · exact (hfresh2 hpre j (by omega) (by omega)).mono (hother j (by omega)) hframe2.1 hag2
      · intro j d hj
        have hjlt : j < s0.size := by
          rcases Nat.lt_or_ge j s0.size with h | h
          · exact h
          · rw [Array.getElem?_eq_none h] at hj; cases hj
        have h1 := hinv.agree0 j d hj
        have hjc : j < cur.cells.size := by
          rcases Nat.lt_or_ge j cur.cells.size with h | h
          · exact h
          · rw [Array.getElem?_eq_none h] at h1; cases h1
        rw [hother j (by omega), hkeep j hjc]; exact h1
      · rw [hframe2.2.1, hext.frame.2.1]; exact hinv.start
      · rw [hframe2.1, hext.frame.1]; exact hinv.ret
      · rw [hcells2]; simp; exact Nat.le_trans hinv.hiLe hext.mono
      · intro j hj1 hj2
        rw [hother j (by omega), hkeep j (by have := hinv.hiLe; omega)]
        exact hinv.pending j (by omega) hj2
      · intro j hj1 hj2
        have hcellsJ : ∀ j', top + k + 1 ≤ j' → j' < hi → s2.cells[j']? = cur2.cells[j']? :=
          fun j' h1 _ => hother j' (by omega)
        by_cases hji : j = top + k
        · subst hji
          refine ⟨index, nw, ?_, ?_, Good.mono (by omega) hframe2.1 hcellsJ hag2 hgood⟩
          · rw [hcells2]
            simp [hilt]
          · rw [← hinv.pending (top + k) (by omega) hi_lt]; exact hci
        · obtain ⟨o, n, hcell, hs1, hg⟩ := hinv.done j (by omega) hj2
          have hk : top + (k + 1) = top + k + 1 := by omega
          rw [hk] at hg
          refine ⟨o, n, ?_, hs1, ?_⟩
          · rw [hother j hji, hkeep j (by have := hinv.hiLe; omega)]; exact hcell
          · have hg2 : Good off s0 cur2 (top + k + 1) hi o n :=
              Good.mono (Nat.le_refl _) hext.frame.1
                (fun j' h1 h2 => hkeep j' (by have := hinv.hiLe; omega))
                (fun j' d hj' _ => by
                  have : j' < cur.cells.size := by
                    rcases Nat.lt_or_ge j' cur.cells.size with h | h
                    · exact h
                    · rw [Array.getElem?_eq_none h] at hj'; cases hj'
                  rw [hkeep j' this]; exact hj') hg
            exact Good.mono (by omega) hframe2.1 hcellsJ hag2 hg2
    exact ⟨index, cur2, nw, s2, ⟨hci, hext, hkeep, hgood, hnews, hother, by rw [hcells2]; simp, hframe2, hag2⟩, hinv2, hrest⟩
  · simp at h2

theorem cloneLoop_step_inv {off : Nat} {s0 : Array Cell} {s1 : Store} {top hi : Nat} (htop : s0.size ≤ top)
    (hnl : ListsWF s0) (hcase : off = 0 ∨ s1.retention ≤ hi) :
    ∀ (k : Nat) (cur s' : Store), CInv off s0 s1 top hi k cur →
      Store.cloneLoop off (s1.start + hi) top k cur = .ok s' → CInv off s0 s1 top hi 0 s'
  | 0, cur, s', hinv, h => by
    simp only [Store.cloneLoop, Outcome.ok.injEq] at h
    subst h; exact hinv
  | k + 1, cur, s', hinv, h => by
    obtain ⟨_, _, _, s2, _, hinv2, hrest⟩ := cloneLoop_one htop hnl hcase k cur s' hinv h
    exact cloneLoop_step_inv htop hnl hcase k s2 s' hinv2 hrest


theorem AllRel.imp_mem {α β} {R S : α → β → Prop} : ∀ {l : List α} {l' : List β},
    (∀ a b, a ∈ l → R a b → S a b) → AllRel R l l' → AllRel S l l'
  | _, _, _, .nil => .nil
  | _, _, h, .cons hab t =>
    .cons (h _ _ (by simp) hab) (AllRel.imp_mem (fun a b ha hr => h a b (by simp [ha]) hr) t)

theorem allRel_refl_of {α} {S : α → α → Prop} : ∀ (l : List α), (∀ a ∈ l, S a a) → AllRel S l l
  | [], _ => .nil
  | a :: l, h => .cons (h a (by simp)) (allRel_refl_of l (fun b hb => h b (by simp [hb])))

/-- **clone_preserves**: the address returned by `clone_data` unfolds to the same
tree as the argument, for every fuel, whenever the argument has an unfolding at all (acyclic, well formed) -/
theorem cloneData_preserves {s s' : Store} {a r : Nat} (h : Store.cloneData s a = .ok (s', r))
    (hnl : ListsWF s.cells) (hd : Dec s.cells a) : ∀ fuel, unfold s.cells fuel a = unfold s'.cells fuel r := by
  simp only [Store.cloneData, bind_eq_ok] at h
  obtain ⟨⟨s1, st⟩, h1, h2⟩ := h
  obtain ⟨e1, hst⟩ := createIndexStack_ext s.cells.size h1
  subst hst
  -- the head of the index list is `CloneItem a`
  have hhead : s1.cells[s.cells.size]? = some (.cloneItem a) := by
    simp only [Store.createIndexStack, bind_eq_ok, pure_eq_ok] at h1
    obtain ⟨⟨sp, ip⟩, hp, sl, hl, h3⟩ := h1
    simp only [Prod.mk.injEq] at h3
    obtain ⟨h3, _⟩ := h3
    subst h3
    obtain ⟨_, hcells, _⟩ := push_ok hp
    have e := indexLoop_ext (s.cells.size + 1) _ _ _ _ _ _ hl
    rw [e.keep s.cells.size (by omega) (by rw [hcells]; simp), hcells]
    simp
  simp only [Store.cloneIndexStack, bind_eq_ok] at h2
  obtain ⟨s2, hloop, c, hgt, h3⟩ := h2
  have hsize : s.cells.size < s1.cells.size := by
    rcases Nat.lt_or_ge s.cells.size s1.cells.size with h | h
    · exact h
    · rw [Array.getElem?_eq_none h] at hhead; cases hhead
  have hinv0 : CInv 0 s.cells s1 s.cells.size s1.cells.size (s1.cells.size - s.cells.size) s1 := by
    refine ⟨?_, rfl, rfl, Nat.le_refl _, by omega, fun _ _ _ => rfl, ?_, fun _ j h1 h2 => by omega⟩
    · intro i c hc
      have hi : i < s.cells.size := by
        rcases Nat.lt_or_ge i s.cells.size with h | h
        · exact h
        · rw [Array.getElem?_eq_none h] at hc; cases hc
      rw [e1.keep i hi hi]; exact hc
    · intro j hj1 hj2; omega
  have hinv := cloneLoop_step_inv (Nat.le_refl _) hnl (Or.inl rfl) _ _ _ hinv0 (by simpa [Store.cursor] using hloop)
  -- the entry at the head of the list
  obtain ⟨o, n, hcell, hs1, hgood⟩ := hinv.done s.cells.size (by omega) hsize
  rw [hhead] at hs1
  simp only [Option.some.injEq, Cell.cloneItem.injEq] at hs1
  subst hs1
  have hc := get_ok hgt
  rw [hcell] at hc
  simp only [Option.some.injEq] at hc
  subst hc
  simp only [pure, Outcome.ok.injEq, Prod.mk.injEq] at h3
  obtain ⟨hs', hr⟩ := h3
  subst hs'; subst hr
  have hag : AgreeNC s.cells s2.cells := agreeNC_of_all hinv.agree0
  -- the bisimulation
  intro fuel
  refine bisim_unfold s.cells s2.cells
    (fun x x' => Dec s.cells x ∧ (x' = x ∨ ∃ j, s.cells.size ≤ j ∧ j < s1.cells.size ∧
      s2.cells[j]? = some (.cloneIndexMap x x'))) ?_ fuel a n ⟨hd, Or.inr ⟨_, Nat.le_refl _, hsize, hcell⟩⟩
  intro x x' ⟨hdx, hx⟩
  obtain ⟨sh, hsh, hk⟩ := hdx.shape
  have ident : ∃ s_1 s'_1, shape s.cells x = some s_1 ∧ shape s2.cells x = some s'_1 ∧ s_1.label = s'_1.label ∧
      s_1.inl = s'_1.inl ∧ AllRel (fun x x' => Dec s.cells x ∧ (x' = x ∨ ∃ j, s.cells.size ≤ j ∧ j < s1.cells.size ∧
        s2.cells[j]? = some (.cloneIndexMap x x'))) s_1.kids s'_1.kids :=
    ⟨sh, sh, hsh, shape_agree hag hsh, rfl, rfl, allRel_refl_of _ (fun k hkm => ⟨hk k hkm, Or.inl rfl⟩)⟩
  rcases hx with rfl | ⟨j, hj1, hj2, hjc⟩
  · exact ident
  · obtain ⟨o', n', hcell', _, hg⟩ := hinv.done j (by omega) hj2
    rw [hjc] at hcell'
    simp only [Option.some.injEq, Cell.cloneIndexMap.injEq] at hcell'
    obtain ⟨ho, hn⟩ := hcell'
    subst ho; subst hn
    rcases hg with ⟨rfl, _⟩ | ⟨ni, _, hni, hg⟩
    · exact ident
    · simp only [Nat.add_zero] at hni
      subst hni
      obtain ⟨sh', g1, g2, g3, g4⟩ := hg sh hsh
      refine ⟨sh, sh', hsh, g1, g2.symm, g3.symm, AllRel.imp_mem (fun k k' hkm hl => ⟨hk k hkm, ?_⟩) g4⟩
      rcases hl with ⟨h1, _⟩ | ⟨j', h1, h2, h3⟩
      · exact Or.inl h1
      · exact Or.inr ⟨j', by omega, h2, h3⟩

end Garnish.BasicOpt
