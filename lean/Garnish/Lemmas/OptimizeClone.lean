/-
The reversed walk of `clone_index_stack`: links, the list arm, the loop invariant and `clone_preserves`.
-/
import Garnish.Lemmas.OptimizeShape
namespace Garnish.BasicOpt
open Garnish

/-! ### the reversed walk of `clone_index_stack`: invariant and `clone_preserves` -/

set_option maxHeartbeats 1000000

theorem shape_cell {cells : Array Cell} {a : Nat} {sh : Shape} (h : shape cells a = some sh) :
    ∃ c, cells[a]? = some c := by
  unfold shape at h
  cases hc : cells[a]? with
  | none => simp [hc] at h
  | some c => exact ⟨c, rfl⟩

/-- one clone step, every kind of cell except lists -/
theorem cloneCell_shape {s0 : Array Cell} {cur cur2 : Store} {ls le index ni : Nat} {c : Cell} {sh : Shape}
    (hA : ∀ (i : Nat) (c : Cell), s0[i]? = some c → cur.cells[i]? = some c)
    (hc : s0[index]? = some c) (hsh : shape s0 index = some sh)
    (hnl : ∀ n k, c ≠ .list n k)
    (hclone : Store.cloneCell cur ls le index c = .ok (cur2, ni)) :
    ∃ sh', shape cur2.cells ni = some sh' ∧ sh'.label = sh.label ∧ sh'.inl = sh.inl ∧
      AllRel (fun x x' => Store.lookup cur ls le x = .ok x') sh.kids sh'.kids := by
  cases hso : soloShape c with
  | some x =>
    have : sh = x := solo_of_shape hc hso hsh
    subst this
    exact cloneCell_shape_solo hso hclone
  | none =>
    cases c <;> simp only [soloShape] at hso <;> try (simp at hso; done)
    · exact cloneCell_shape_inline hA hc hsh (Or.inr (Or.inr ⟨_, rfl⟩)) hclone
    · exact cloneCell_shape_inline hA hc hsh (Or.inl ⟨_, rfl⟩) hclone
    · exact cloneCell_shape_inline hA hc hsh (Or.inr (Or.inl ⟨_, rfl⟩)) hclone
    · exact absurd rfl (hnl _ _)
    all_goals first
      | (unfold shape at hsh; rw [hc] at hsh; simp at hsh; done)
      | exact cloneCell_shape_frame hA hc hsh (Or.inl ⟨_, _, rfl⟩) hclone
      | exact cloneCell_shape_frame hA hc hsh (Or.inr (Or.inl ⟨_, rfl⟩)) hclone
      | exact cloneCell_shape_frame hA hc hsh (Or.inr (Or.inr (Or.inl ⟨_, rfl⟩))) hclone
      | exact cloneCell_shape_frame hA hc hsh (Or.inr (Or.inr (Or.inr rfl))) hclone

theorem findMap_some {cells : Array Cell} {idx nw : Nat} : ∀ (n lo : Nat), Store.findMap cells idx lo n = some nw →
    ∃ j, lo ≤ j ∧ j < lo + n ∧ cells[j]? = some (.cloneIndexMap idx nw)
  | 0, lo, h => by simp [Store.findMap] at h
  | n + 1, lo, h => by
    simp only [Store.findMap] at h
    split at h
    · rename_i o nw' hcell
      split at h
      · rename_i ho
        simp only [Option.some.injEq] at h
        subst h; subst ho
        exact ⟨lo, Nat.le_refl _, by omega, hcell⟩
      · obtain ⟨j, h1, h2, h3⟩ := findMap_some n (lo + 1) h
        exact ⟨j, by omega, by omega, h3⟩
    · obtain ⟨j, h1, h2, h3⟩ := findMap_some n (lo + 1) h
      exact ⟨j, by omega, by omega, h3⟩

/-- `x ↦ x'` is a link the clone loop has established: retained, or a map entry at a processed position -/
def Link (cur : Store) (lo hi : Nat) (x x' : Nat) : Prop :=
  (x' = x ∧ x < cur.retention) ∨ ∃ j, lo ≤ j ∧ j < hi ∧ cur.cells[j]? = some (.cloneIndexMap x x')

theorem lookupOpt_link {cur : Store} {lo hi x x' : Nat}
    (h : Store.lookupOpt cur (cur.start + lo) (cur.start + hi) x = .ok (some x')) : Link cur lo hi x x' := by
  unfold Store.lookupOpt at h
  split at h
  · simp only [Outcome.ok.injEq, Option.some.injEq] at h
    subst h; exact Or.inl ⟨rfl, by assumption⟩
  · split at h
    · simp at h
    · split at h
      · simp at h
      · simp only [Outcome.ok.injEq] at h
        have e1 : cur.start + lo - cur.start = lo := by omega
        have e2 : cur.start + hi - cur.start = hi := by omega
        rw [e1, e2] at h
        obtain ⟨j, h1, h2, h3⟩ := findMap_some _ _ h
        exact Or.inr ⟨j, h1, by omega, h3⟩

theorem lookup_link {cur : Store} {lo hi x x' : Nat}
    (h : Store.lookup cur (cur.start + lo) (cur.start + hi) x = .ok x') : Link cur lo hi x x' := by
  simp only [Store.lookup, bind_eq_ok] at h
  obtain ⟨o, ho, h2⟩ := h
  cases o with
  | none => simp at h2
  | some v =>
    simp only [pure_eq_ok] at h2
    subst h2
    exact lookupOpt_link ho

theorem AllRel.imp {α β} {R S : α → β → Prop} (h : ∀ a b, R a b → S a b) :
    ∀ {l : List α} {l' : List β}, AllRel R l l' → AllRel S l l'
  | _, _, .nil => .nil
  | _, _, .cons hab t => .cons (h _ _ hab) (AllRel.imp h t)


/-- `st` is `cur` with data cells appended -/
structure Grown (cur st : Store) : Prop where
  start : st.start = cur.start
  ret : st.retention = cur.retention
  keep : ∀ j, j < cur.cells.size → st.cells[j]? = cur.cells[j]?
  mono : cur.cells.size ≤ st.cells.size

theorem Grown.refl (s : Store) : Grown s s := ⟨rfl, rfl, fun _ _ => rfl, Nat.le_refl _⟩

theorem Grown.trans {a b c : Store} (h1 : Grown a b) (h2 : Grown b c) : Grown a c :=
  ⟨h2.start.trans h1.start, h2.ret.trans h1.ret,
   fun j hj => (h2.keep j (Nat.lt_of_lt_of_le hj h1.mono)).trans (h1.keep j hj), Nat.le_trans h1.mono h2.mono⟩

theorem Grown.of_ext {a b : Store} (h : Ext a.cells.size a b) : Grown a b :=
  ⟨h.frame.2.1, h.frame.1, fun j hj => h.keep j hj hj, h.mono⟩

/-- a link looked up in `cur` or in `cur` with cells appended -/
def LinkVia (cur : Store) (ls le x x' : Nat) : Prop := ∃ st, Grown cur st ∧ Store.lookup st ls le x = .ok x'

inductive SlotRel (L : Nat → Nat → Prop) : Cell → Cell → Prop where
  | item {x x'} : L x x' → SlotRel L (.listItem x) (.listItem x')
  | assoc {sy x x'} : L x x' → SlotRel L (.associativeItem sy x) (.associativeItem sy x')
  | empty : SlotRel L .empty .empty

theorem SlotRel.imp {L M : Nat → Nat → Prop} (h : ∀ a b, L a b → M a b) {c c' : Cell} :
    SlotRel L c c' → SlotRel M c c'
  | .item hl => .item (h _ _ hl)
  | .assoc hl => .assoc (h _ _ hl)
  | .empty => .empty

theorem cloneSlots_spec (ls le : Nat) : ∀ (m : Nat) (s s' : Store) (i : Nat),
    Store.cloneSlots ls le s i m = .ok s' →
      Grown s s' ∧ ∀ t, t < m → i + t < s.cells.size →
        ∃ c c', s.cells[i + t]? = some c ∧ s'.cells[s.cells.size + t]? = some c' ∧ SlotRel (LinkVia s ls le) c c'
  | 0, s, s', i, h => by
    simp only [Store.cloneSlots, Outcome.ok.injEq] at h
    subst h
    exact ⟨Grown.refl _, fun t ht => by omega⟩
  | m + 1, s, s', i, h => by
    simp only [Store.cloneSlots, bind_eq_ok] at h
    obtain ⟨c, hg, h2⟩ := h
    have hc := get_ok hg
    -- common tail once the relinked cell `c'` is known
    have tail : ∀ (c' : Cell) (s1 : Store) (i1 : Nat), SlotRel (LinkVia s ls le) c c' → s.push c' = .ok (s1, i1) →
        Store.cloneSlots ls le s1 (i + 1) m = .ok s' →
        Grown s s' ∧ ∀ t, t < m + 1 → i + t < s.cells.size →
          ∃ c c', s.cells[i + t]? = some c ∧ s'.cells[s.cells.size + t]? = some c' ∧ SlotRel (LinkVia s ls le) c c' := by
      intro c' s1 i1 hrel hpush hrest
      obtain ⟨_, hcells, _⟩ := push_ok hpush
      have g1 : Grown s s1 := Grown.of_ext (push_ext _ hpush)
      obtain ⟨g2, ih⟩ := cloneSlots_spec ls le m s1 s' (i + 1) hrest
      have hsz : s1.cells.size = s.cells.size + 1 := by rw [hcells]; simp
      refine ⟨g1.trans g2, ?_⟩
      intro t ht hit
      cases t with
      | zero =>
        refine ⟨c, c', by simpa using hc, ?_, hrel⟩
        rw [Nat.add_zero, g2.keep _ (by omega), hcells]
        simp
      | succ t =>
        obtain ⟨d, d', hd, hd', hrel'⟩ := ih t (by omega) (by omega)
        refine ⟨d, d', ?_, ?_, SlotRel.imp (fun a b ⟨st, hst, hl⟩ => ⟨st, g1.trans hst, hl⟩) hrel'⟩
        · rw [← g1.keep _ (by omega)]
          have : i + (t + 1) = i + 1 + t := by omega
          rw [this]; exact hd
        · have : s.cells.size + (t + 1) = s1.cells.size + t := by omega
          rw [this]; exact hd'
    split at h2
    · simp only [bind_eq_ok] at h2
      obtain ⟨item', hl, ⟨s1, i1⟩, hpush, hrest⟩ := h2
      exact tail _ s1 i1 (.item ⟨s, Grown.refl _, hl⟩) hpush hrest
    · simp only [bind_eq_ok] at h2
      obtain ⟨item', hl, ⟨s1, i1⟩, hpush, hrest⟩ := h2
      exact tail _ s1 i1 (.assoc ⟨s, Grown.refl _, hl⟩) hpush hrest
    · simp only [bind_eq_ok] at h2
      obtain ⟨⟨s1, i1⟩, hpush, hrest⟩ := h2
      exact tail _ s1 i1 .empty hpush hrest
    · simp at h2

theorem listItems_build {L : Nat → Nat → Prop} {s0 cells2 : Array Cell} : ∀ (n a b : Nat) (items : List Nat),
    listItems s0 a n = some items →
    (∀ t, t < n → ∃ c c', s0[a + t]? = some c ∧ cells2[b + t]? = some c' ∧ SlotRel L c c') →
    ∃ items', listItems cells2 b n = some items' ∧ AllRel L items items'
  | 0, a, b, items, h, _ => by
    simp only [listItems, Option.some.injEq] at h
    subst h
    exact ⟨[], by simp [listItems], .nil⟩
  | n + 1, a, b, items, h, hs => by
    simp only [listItems] at h
    obtain ⟨c, c', hc, hc', hrel⟩ := hs 0 (by omega)
    simp only [Nat.add_zero] at hc hc'
    rw [hc] at h
    cases hrel with
    | item hl =>
      simp only [Option.map_eq_some_iff] at h
      obtain ⟨rest, hrest, rfl⟩ := h
      obtain ⟨rest', hr', hall⟩ := listItems_build n (a + 1) (b + 1) rest hrest (fun t ht => by
        obtain ⟨d, d', h1, h2, h3⟩ := hs (t + 1) (by omega)
        refine ⟨d, d', ?_, ?_, h3⟩
        · have : a + 1 + t = a + (t + 1) := by omega
          rw [this]; exact h1
        · have : b + 1 + t = b + (t + 1) := by omega
          rw [this]; exact h2)
      refine ⟨_ :: rest', ?_, .cons hl hall⟩
      simp only [listItems, hc', hr', Option.map_some]
    | assoc _ => simp at h
    | empty => simp at h

theorem assocItems_build {L : Nat → Nat → Prop} {s0 cells2 : Array Cell} : ∀ (n a b : Nat) (keys : List Cell)
    (targets : List Nat), assocItems s0 a n = some (keys, targets) →
    (∀ t, t < n → ∃ c c', s0[a + t]? = some c ∧ cells2[b + t]? = some c' ∧ SlotRel L c c') →
    ∃ targets', assocItems cells2 b n = some (keys, targets') ∧ AllRel L targets targets'
  | 0, a, b, keys, targets, h, _ => by
    simp only [assocItems, Option.some.injEq, Prod.mk.injEq] at h
    obtain ⟨h1, h2⟩ := h
    subst h1; subst h2
    exact ⟨[], by simp [assocItems], .nil⟩
  | n + 1, a, b, keys, targets, h, hs => by
    simp only [assocItems] at h
    obtain ⟨c, c', hc, hc', hrel⟩ := hs 0 (by omega)
    simp only [Nat.add_zero] at hc hc'
    rw [hc] at h
    cases hrel with
    | assoc hl =>
      simp only [Option.map_eq_some_iff] at h
      obtain ⟨⟨ks, js⟩, hrest, heq⟩ := h
      simp only [Prod.mk.injEq] at heq
      obtain ⟨hk, hj⟩ := heq
      subst hk; subst hj
      obtain ⟨rest', hr', hall⟩ := assocItems_build n (a + 1) (b + 1) ks js hrest (fun t ht => by
        obtain ⟨d, d', h1, h2, h3⟩ := hs (t + 1) (by omega)
        refine ⟨d, d', ?_, ?_, h3⟩
        · have : a + 1 + t = a + (t + 1) := by omega
          rw [this]; exact h1
        · have : b + 1 + t = b + (t + 1) := by omega
          rw [this]; exact h2)
      refine ⟨_ :: rest', ?_, .cons hl hall⟩
      simp only [assocItems, hc', hr', Option.map_some]
    | item _ => simp at h
    | empty => simp at h

theorem AllRel.append {α β} {R : α → β → Prop} : ∀ {l1 : List α} {l1' : List β} {l2 : List α} {l2' : List β},
    AllRel R l1 l1' → AllRel R l2 l2' → AllRel R (l1 ++ l2) (l1' ++ l2')
  | _, _, _, _, .nil, h2 => h2
  | _, _, _, _, .cons hab t, h2 => .cons hab (AllRel.append t h2)


theorem listItems_cell {cells : Array Cell} : ∀ (n a : Nat) (items : List Nat), listItems cells a n = some items →
    ∀ t, t < n → ∃ c, cells[a + t]? = some c
  | 0, _, _, _, t, ht => by omega
  | n + 1, a, items, h, t, ht => by
    simp only [listItems] at h
    cases hc : cells[a]? with
    | none => simp [hc] at h
    | some c =>
      cases t with
      | zero => exact ⟨c, by simpa using hc⟩
      | succ t =>
        rw [hc] at h
        cases c <;> simp only [] at h <;> try (simp at h; done)
        simp only [Option.map_eq_some_iff] at h
        obtain ⟨rest, hrest, _⟩ := h
        obtain ⟨d, hd⟩ := listItems_cell n (a + 1) rest hrest t (by omega)
        exact ⟨d, by have : a + (t + 1) = a + 1 + t := by omega
                     rw [this]; exact hd⟩

theorem assocItems_cell {cells : Array Cell} : ∀ (n a : Nat) (r : List Cell × List Nat), assocItems cells a n = some r →
    ∀ t, t < n → ∃ c, cells[a + t]? = some c
  | 0, _, _, _, t, ht => by omega
  | n + 1, a, r, h, t, ht => by
    simp only [assocItems] at h
    cases hc : cells[a]? with
    | none => simp [hc] at h
    | some c =>
      cases t with
      | zero => exact ⟨c, by simpa using hc⟩
      | succ t =>
        rw [hc] at h
        cases c <;> simp only [] at h <;> try (simp at h; done)
        simp only [Option.map_eq_some_iff] at h
        obtain ⟨rest, hrest, _⟩ := h
        obtain ⟨d, hd⟩ := assocItems_cell n (a + 1) rest hrest t (by omega)
        exact ⟨d, by have : a + (t + 1) = a + 1 + t := by omega
                     rw [this]; exact hd⟩

/-- cloning a list: items and key table are copied behind the header with their links looked up -/
theorem cloneCell_shape_list {s0 : Array Cell} {cur cur2 : Store} {ls le index ni n k : Nat} {sh : Shape}
    (hA : ∀ (i : Nat) (c : Cell), s0[i]? = some c → cur.cells[i]? = some c)
    (hc : s0[index]? = some (.list n k)) (hsh : shape s0 index = some sh) (hkn : k ≤ n)
    (hclone : Store.cloneCell cur ls le index (.list n k) = .ok (cur2, ni)) :
    ∃ sh', shape cur2.cells ni = some sh' ∧ sh'.label = sh.label ∧ sh'.inl = sh.inl ∧
      AllRel (LinkVia cur ls le) sh.kids sh'.kids := by
  unfold shape at hsh
  rw [hc] at hsh
  simp only at hsh
  split at hsh
  · rename_i items keys targets h1 h2
    simp only [Option.some.injEq] at hsh
    subst hsh
    simp only [Store.cloneCell, bind_eq_ok, pure_eq_ok, Prod.mk.injEq] at hclone
    obtain ⟨⟨s1, li⟩, hpush, s2, hslots, hs2, hli⟩ := hclone
    subst hs2; subst hli
    obtain ⟨hi, hcells, _⟩ := push_ok hpush
    have g1 : Grown cur s1 := Grown.of_ext (push_ext _ hpush)
    have hsz : s1.cells.size = cur.cells.size + 1 := by rw [hcells]; simp
    obtain ⟨g2, spec⟩ := cloneSlots_spec ls le (n * 2) s1 s2 (index + 1) hslots
    have slot : ∀ u, u < n * 2 → ∀ d, s0[index + 1 + u]? = some d →
        ∃ c c', s0[index + 1 + u]? = some c ∧ s2.cells[li + 1 + u]? = some c' ∧ SlotRel (LinkVia cur ls le) c c' := by
      intro u hu d hd
      have hcur := hA _ d hd
      have hlt : index + 1 + u < cur.cells.size := by
        rcases Nat.lt_or_ge (index + 1 + u) cur.cells.size with h | h
        · exact h
        · rw [Array.getElem?_eq_none h] at hcur; cases hcur
      obtain ⟨c, c', e1, e2, e3⟩ := spec u hu (by omega)
      rw [g1.keep _ hlt, hcur] at e1
      simp only [Option.some.injEq] at e1
      subst e1
      refine ⟨d, c', hd, ?_, SlotRel.imp (fun a b ⟨st, hst, hl⟩ => ⟨st, g1.trans hst, hl⟩) e3⟩
      have : li + 1 + u = s1.cells.size + u := by omega
      rw [this]; exact e2
    obtain ⟨items', hit, hitrel⟩ := listItems_build n (index + 1) (li + 1) items h1 (fun t ht => by
      obtain ⟨d, hd⟩ := listItems_cell _ _ _ h1 t ht
      exact slot t (by omega) d hd)
    obtain ⟨targets', htg, htgrel⟩ := assocItems_build k (index + 1 + n) (li + 1 + n) keys targets h2 (fun t ht => by
      obtain ⟨d, hd⟩ := assocItems_cell _ _ _ h2 t ht
      have e : index + 1 + n + t = index + 1 + (n + t) := by omega
      have e' : li + 1 + n + t = li + 1 + (n + t) := by omega
      rw [e, e']
      rw [e] at hd
      exact slot (n + t) (by omega) d hd)
    have hhdr : s2.cells[li]? = some (.list n k) := by
      rw [g2.keep li (by omega), hcells, hi]; simp
    refine ⟨⟨.list n k, keys, items' ++ targets'⟩, ?_, rfl, rfl, AllRel.append hitrel htgrel⟩
    unfold shape
    rw [hhdr]
    simp only [hit, htg]
  · simp at hsh

/-- one clone step, every kind of cell (lists need `k ≤ n`: the key table lies within the copied slots) -/
theorem cloneCell_shape_all {s0 : Array Cell} {cur cur2 : Store} {ls le index ni : Nat} {c : Cell} {sh : Shape}
    (hA : ∀ (i : Nat) (c : Cell), s0[i]? = some c → cur.cells[i]? = some c)
    (hc : s0[index]? = some c) (hsh : shape s0 index = some sh)
    (hwf : ∀ n k, c = .list n k → k ≤ n)
    (hclone : Store.cloneCell cur ls le index c = .ok (cur2, ni)) :
    ∃ sh', shape cur2.cells ni = some sh' ∧ sh'.label = sh.label ∧ sh'.inl = sh.inl ∧
      AllRel (LinkVia cur ls le) sh.kids sh'.kids := by
  by_cases hl : ∃ n k, c = .list n k
  · obtain ⟨n, k, rfl⟩ := hl
    exact cloneCell_shape_list hA hc hsh (hwf n k rfl) hclone
  · obtain ⟨sh', g1, g2, g3, g4⟩ := cloneCell_shape hA hc hsh (fun n k h => hl ⟨n, k, h⟩) hclone
    exact ⟨sh', g1, g2, g3, AllRel.imp (fun a b hab => ⟨cur, Grown.refl _, hab⟩) g4⟩

/-- list headers whose key-table length does not exceed the list length (what `end_list` produces) -/
def ListsWF (cells : Array Cell) : Prop := ∀ (i n k : Nat), cells[i]? = some (.list n k) → k ≤ n

/-- `n` is a faithful copy of `o`: same label, same inline cells, links established by the loop -/
def CloneOf (s0 : Array Cell) (cur : Store) (lo hi o n : Nat) : Prop :=
  ∀ sh, shape s0 o = some sh → ∃ sh', shape cur.cells n = some sh' ∧ sh'.label = sh.label ∧ sh'.inl = sh.inl ∧
    AllRel (Link cur lo hi) sh.kids sh'.kids

/-- what a map entry `(o, n)` means: `o` is retained and kept in place, or `n + off` is the position of a
faithful copy behind the index list (`off` = the distance the copies are slid down afterwards) -/
def Good (off : Nat) (s0 : Array Cell) (cur : Store) (lo hi o n : Nat) : Prop :=
  (n = o ∧ o < cur.retention) ∨ ∃ ni, hi ≤ ni ∧ n + off = ni ∧ CloneOf s0 cur lo hi o ni

/-- heaps without list cells (the list arm of the clone step is not covered by the universal proof yet) -/
def NoLists (cells : Array Cell) : Prop := ∀ (i n k : Nat), cells[i]? ≠ some (.list n k)

/-- invariant of the reversed walk: positions `≥ top + k` of the index list are processed -/
structure CInv (off : Nat) (s0 : Array Cell) (s1 : Store) (top hi k : Nat) (cur : Store) : Prop where
  agree0 : ∀ (i : Nat) (c : Cell), s0[i]? = some c → cur.cells[i]? = some c
  start : cur.start = s1.start
  ret : cur.retention = s1.retention
  hiLe : hi ≤ cur.cells.size
  bound : top + k ≤ hi
  pending : ∀ j, j < top + k → j < hi → cur.cells[j]? = s1.cells[j]?
  done : ∀ j, top + k ≤ j → j < hi → ∃ o n, cur.cells[j]? = some (.cloneIndexMap o n) ∧
    s1.cells[j]? = some (.cloneItem o) ∧ Good off s0 cur (top + k) hi o n

theorem Link.mono {cur cur' : Store} {lo lo' hi x x' : Nat} (hlo : lo' ≤ lo) (hret : cur'.retention = cur.retention)
    (hcells : ∀ j, lo ≤ j → j < hi → cur'.cells[j]? = cur.cells[j]?) (h : Link cur lo hi x x') :
    Link cur' lo' hi x x' := by
  rcases h with ⟨h1, h2⟩ | ⟨j, h1, h2, h3⟩
  · exact Or.inl ⟨h1, by rw [hret]; exact h2⟩
  · exact Or.inr ⟨j, by omega, h2, by rw [hcells j h1 h2]; exact h3⟩

theorem Good.mono {off : Nat} {s0 : Array Cell} {cur cur' : Store} {lo lo' hi o n : Nat} (hlo : lo' ≤ lo)
    (hret : cur'.retention = cur.retention)
    (hcells : ∀ j, lo ≤ j → j < hi → cur'.cells[j]? = cur.cells[j]?)
    (hag : AgreeNC cur.cells cur'.cells) (h : Good off s0 cur lo hi o n) : Good off s0 cur' lo' hi o n := by
  rcases h with ⟨h1, h2⟩ | ⟨ni, hni1, hni2, h⟩
  · exact Or.inl ⟨h1, by rw [hret]; exact h2⟩
  · refine Or.inr ⟨ni, hni1, hni2, ?_⟩
    intro sh hsh
    obtain ⟨sh', h1, h2, h3, h4⟩ := h sh hsh
    exact ⟨sh', shape_agree hag h1, h2, h3, AllRel.imp (fun a b hab => Link.mono hlo hret hcells hab) h4⟩

theorem pushLast_ge : ∀ (cs : List Cell) (s s' : Store) (last r : Nat), cs ≠ [] →
    Store.pushLast s cs last = .ok (s', r) → s.cells.size ≤ r
  | [], _, _, _, _, h, _ => absurd rfl h
  | [c], s, s', last, r, _, h => by
    simp only [Store.pushLast, bind_eq_ok] at h
    obtain ⟨⟨s1, i1⟩, h1, h2⟩ := h
    simp only [Outcome.ok.injEq, Prod.mk.injEq] at h2
    have := (push_ok h1).1
    omega
  | c :: d :: cs, s, s', last, r, _, h => by
    simp only [Store.pushLast, bind_eq_ok] at h
    obtain ⟨⟨s1, i1⟩, h1, h2⟩ := h
    have := pushLast_ge (d :: cs) s1 s' i1 r (by simp) (by simpa [Store.pushLast, bind_eq_ok] using h2)
    have hsz := (push_ext 0 h1).mono
    omega

theorem relink_ne {s : Store} {ls le index : Nat} {c : Cell} {cs : List Cell}
    (h : Store.relink s ls le index c = .ok cs) : cs ≠ [] := by
  cases c <;> simp only [Store.relink, bind_eq_ok, pure_eq_ok] at h <;> try (simp at h; done)
  all_goals (
    first
      | (obtain ⟨_, _, _, _, _, _, h⟩ := h; subst h; simp)
      | (obtain ⟨_, _, _, _, h⟩ := h; subst h; simp)
      | (obtain ⟨_, _, h⟩ := h; subst h; simp))

/-- the copy made by one clone step lies behind everything that existed -/
theorem cloneCell_index_ge {s s' : Store} {ls le index r : Nat} {c : Cell}
    (h : Store.cloneCell s ls le index c = .ok (s', r)) : s.cells.size ≤ r := by
  unfold Store.cloneCell at h
  split at h
  all_goals first
    | (have := (push_ok h).1; omega)
    | (simp only [bind_eq_ok, pure_eq_ok, Prod.mk.injEq] at h
       obtain ⟨⟨s1, i1⟩, h1, s2, h2, h3, h4⟩ := h
       have := (push_ok h1).1
       omega)
    | (simp at h; done)
    | (simp only [bind_eq_ok] at h
       obtain ⟨cells, h1, h2⟩ := h
       exact pushLast_ge _ _ _ _ _ (relink_ne h1) h2)

theorem setCell_cells {s s' : Store} {i : Nat} {c : Cell} (h : Store.setCell s i c = .ok s') :
    i < s.cells.size ∧ s'.cells = s.cells.setIfInBounds i c ∧ SameFrame s s' := by
  unfold Store.setCell at h
  split at h
  · simp only [Outcome.ok.injEq] at h
    subst h
    exact ⟨by assumption, rfl, SameFrame.rfl' _⟩
  · simp at h

/-- one iteration of the reversed walk keeps the invariant; `off = 0` is `clone_data`, for `optimize` the
offset is applied to every new index because the retention count lies below the index list -/
theorem cloneLoop_step_inv {off : Nat} {s0 : Array Cell} {s1 : Store} {top hi : Nat} (htop : s0.size ≤ top)
    (hnl : ListsWF s0) (hcase : off = 0 ∨ s1.retention ≤ hi) :
    ∀ (k : Nat) (cur s' : Store), CInv off s0 s1 top hi k cur →
      Store.cloneLoop off (s1.start + hi) top k cur = .ok s' → CInv off s0 s1 top hi 0 s'
  | 0, cur, s', hinv, h => by
    simp only [Store.cloneLoop, Outcome.ok.injEq] at h
    subst h; exact hinv
  | k + 1, cur, s', hinv, h => by
    simp only [Store.cloneLoop, bind_eq_ok] at h
    obtain ⟨ci, hgi, h2⟩ := h
    have hci := get_ok hgi
    split at h2
    · rename_i index
      simp only [bind_eq_ok] at h2
      obtain ⟨existing, hex, ⟨cur2, nw⟩, h3, s2, hset, hrest⟩ := h2
      have hstart : cur.start + (top + k) + 1 = cur.start + (top + k + 1) := by omega
      rw [hstart, ← hinv.start] at hex
      rw [hstart, ← hinv.start] at h3
      -- the store after the optional clone, and what the new map entry satisfies
      have key : Ext (top + k + 1) cur cur2 ∧ (∀ j, j < cur.cells.size → cur2.cells[j]? = cur.cells[j]?) ∧
          Good off s0 cur2 (top + k + 1) hi index nw := by
        cases existing with
        | some j' =>
          simp only [pure, Outcome.ok.injEq, Prod.mk.injEq] at h3
          obtain ⟨hc2, hni⟩ := h3
          subst hc2; subst hni
          refine ⟨Ext.refl _ _, fun _ _ => rfl, ?_⟩
          rcases lookupOpt_link hex with ⟨h1, h1'⟩ | ⟨j, h1, h2, hcell⟩
          · exact Or.inl ⟨h1, h1'⟩
          · obtain ⟨o, n, hcell', _, hgood⟩ := hinv.done j (by omega) h2
            rw [hcell] at hcell'
            simp only [Option.some.injEq, Cell.cloneIndexMap.injEq] at hcell'
            obtain ⟨ho, hn⟩ := hcell'
            subst ho; subst hn
            have hk : top + (k + 1) = top + k + 1 := by omega
            rw [hk] at hgood
            exact hgood
        | none =>
          simp only [bind_eq_ok] at h3
          obtain ⟨c, hgc, ⟨cur2', ni'⟩, hclone, h4⟩ := h3
          have hge := cloneCell_index_ge hclone
          have hext := cloneCell_ext (top + k + 1) hclone
          have hni : cur2' = cur2 ∧ nw + off = ni' := by
            split at h4
            · rename_i hlt
              simp only [pure, Outcome.ok.injEq, Prod.mk.injEq] at h4
              refine ⟨h4.1, ?_⟩
              rcases hcase with h0 | hr
              · omega
              · have e1 := hext.frame.1
                have e2 := hinv.ret
                have e3 := hinv.hiLe
                exfalso
                have hlt' : ni' < cur2'.retention := hlt
                omega
            · split at h4
              · simp at h4
              · simp only [pure, Outcome.ok.injEq, Prod.mk.injEq] at h4
                refine ⟨h4.1, ?_⟩
                omega
          obtain ⟨hc2, hni⟩ := hni
          subst hc2
          have hkeep : ∀ j, j < cur.cells.size → cur2'.cells[j]? = cur.cells[j]? :=
            fun j hj => (cloneCell_ext (j + 1) hclone).keep j (by omega) hj
          refine ⟨hext, hkeep, Or.inr ⟨ni', by have := hinv.hiLe; omega, hni, ?_⟩⟩
          intro sh hsh
          obtain ⟨c0, hc0⟩ := shape_cell hsh
          have hcc : c = c0 := by
            have := hinv.agree0 index c0 hc0
            rw [get_ok hgc] at this
            exact Option.some.inj this
          subst hcc
          obtain ⟨sh', g1, g2, g3, g4⟩ := cloneCell_shape_all hinv.agree0 hc0 hsh (fun n k hck => hnl index n k (by rw [hc0, hck])) hclone
          refine ⟨sh', g1, g2, g3, AllRel.imp (fun a b ⟨st, hgr, hab⟩ => ?_) g4⟩
          rw [← hgr.start] at hab
          have hl := lookup_link hab
          exact Link.mono (Nat.le_refl _) (hext.frame.1.trans hgr.ret.symm)
            (fun j hj1 hj2 => (hkeep j (by have := hinv.hiLe; omega)).trans
              (hgr.keep j (by have := hinv.hiLe; omega)).symm) hl
      obtain ⟨hext, hkeep, hgood⟩ := key
      obtain ⟨hilt, hcells2, hframe2⟩ := setCell_cells hset
      have hi_lt : top + k < hi := by have := hinv.bound; omega
      have hcur2i : cur2.cells[top + k]? = some (.cloneItem index) := by
        rw [hkeep _ (by have := hinv.hiLe; omega)]; exact hci
      -- only the `CloneItem` at `top + k` changes between `cur2` and `s2`
      have hag2 : AgreeNC cur2.cells s2.cells := by
        intro j d hj hne
        rw [hcells2]
        by_cases hji : j = top + k
        · subst hji
          rw [hcur2i] at hj
          exact absurd (Option.some.inj hj).symm (hne index)
        · simp [Ne.symm hji, hj]
      have hother : ∀ j, j ≠ top + k → s2.cells[j]? = cur2.cells[j]? := by
        intro j hj
        rw [hcells2]
        simp [Ne.symm hj]
      have hinv2 : CInv off s0 s1 top hi k s2 := by
        refine ⟨?_, ?_, ?_, ?_, by omega, ?_, ?_⟩
        · intro j d hj
          have hjlt : j < s0.size := by
            rcases Nat.lt_or_ge j s0.size with h | h
            · exact h
            · rw [Array.getElem?_eq_none h] at hj; cases hj
          have h1 := hinv.agree0 j d hj
          have hjc : j < cur.cells.size := by
            rcases Nat.lt_or_ge j cur.cells.size with h | h
            · exact h
            · rw [Array.getElem?_eq_none h] at h1; cases h1
          rw [hother j (by omega), hkeep j hjc]; exact h1
        · rw [hframe2.2.1, hext.frame.2.1]; exact hinv.start
        · rw [hframe2.1, hext.frame.1]; exact hinv.ret
        · rw [hcells2]; simp; exact Nat.le_trans hinv.hiLe hext.mono
        · intro j hj1 hj2
          rw [hother j (by omega), hkeep j (by have := hinv.hiLe; omega)]
          exact hinv.pending j (by omega) hj2
        · intro j hj1 hj2
          have hcellsJ : ∀ j', top + k + 1 ≤ j' → j' < hi → s2.cells[j']? = cur2.cells[j']? :=
            fun j' h1 _ => hother j' (by omega)
          by_cases hji : j = top + k
          · subst hji
            refine ⟨index, nw, ?_, ?_, Good.mono (by omega) hframe2.1 hcellsJ hag2 hgood⟩
            · rw [hcells2]
              simp [hilt]
            · rw [← hinv.pending (top + k) (by omega) hi_lt]; exact hci
          · obtain ⟨o, n, hcell, hs1, hg⟩ := hinv.done j (by omega) hj2
            have hk : top + (k + 1) = top + k + 1 := by omega
            rw [hk] at hg
            refine ⟨o, n, ?_, hs1, ?_⟩
            · rw [hother j hji, hkeep j (by have := hinv.hiLe; omega)]; exact hcell
            · have hg2 : Good off s0 cur2 (top + k + 1) hi o n :=
                Good.mono (Nat.le_refl _) hext.frame.1
                  (fun j' h1 h2 => hkeep j' (by have := hinv.hiLe; omega))
                  (fun j' d hj' _ => by
                    have : j' < cur.cells.size := by
                      rcases Nat.lt_or_ge j' cur.cells.size with h | h
                      · exact h
                      · rw [Array.getElem?_eq_none h] at hj'; cases hj'
                    rw [hkeep j' this]; exact hj') hg
              exact Good.mono (by omega) hframe2.1 hcellsJ hag2 hg2
      exact cloneLoop_step_inv htop hnl hcase k s2 s' hinv2 hrest
    · simp at h2


theorem AllRel.imp_mem {α β} {R S : α → β → Prop} : ∀ {l : List α} {l' : List β},
    (∀ a b, a ∈ l → R a b → S a b) → AllRel R l l' → AllRel S l l'
  | _, _, _, .nil => .nil
  | _, _, h, .cons hab t =>
    .cons (h _ _ (by simp) hab) (AllRel.imp_mem (fun a b ha hr => h a b (by simp [ha]) hr) t)

theorem allRel_refl_of {α} {S : α → α → Prop} : ∀ (l : List α), (∀ a ∈ l, S a a) → AllRel S l l
  | [], _ => .nil
  | a :: l, h => .cons (h a (by simp)) (allRel_refl_of l (fun b hb => h b (by simp [hb])))

/-- **clone_preserves**: the address returned by `clone_data` unfolds to the same
tree as the argument, for every fuel, whenever the argument has an unfolding at all (acyclic, well formed) -/
theorem cloneData_preserves {s s' : Store} {a r : Nat} (h : Store.cloneData s a = .ok (s', r))
    (hnl : ListsWF s.cells) (hd : Dec s.cells a) : ∀ fuel, unfold s.cells fuel a = unfold s'.cells fuel r := by
  simp only [Store.cloneData, bind_eq_ok] at h
  obtain ⟨⟨s1, st⟩, h1, h2⟩ := h
  obtain ⟨e1, hst⟩ := createIndexStack_ext s.cells.size h1
  subst hst
  -- the head of the index list is `CloneItem a`
  have hhead : s1.cells[s.cells.size]? = some (.cloneItem a) := by
    simp only [Store.createIndexStack, bind_eq_ok, pure_eq_ok] at h1
    obtain ⟨⟨sp, ip⟩, hp, sl, hl, h3⟩ := h1
    simp only [Prod.mk.injEq] at h3
    obtain ⟨h3, _⟩ := h3
    subst h3
    obtain ⟨_, hcells, _⟩ := push_ok hp
    have e := indexLoop_ext (s.cells.size + 1) _ _ _ _ _ _ hl
    rw [e.keep s.cells.size (by omega) (by rw [hcells]; simp), hcells]
    simp
  simp only [Store.cloneIndexStack, bind_eq_ok] at h2
  obtain ⟨s2, hloop, c, hgt, h3⟩ := h2
  have hsize : s.cells.size < s1.cells.size := by
    rcases Nat.lt_or_ge s.cells.size s1.cells.size with h | h
    · exact h
    · rw [Array.getElem?_eq_none h] at hhead; cases hhead
  have hinv0 : CInv 0 s.cells s1 s.cells.size s1.cells.size (s1.cells.size - s.cells.size) s1 := by
    refine ⟨?_, rfl, rfl, Nat.le_refl _, by omega, fun _ _ _ => rfl, ?_⟩
    · intro i c hc
      have hi : i < s.cells.size := by
        rcases Nat.lt_or_ge i s.cells.size with h | h
        · exact h
        · rw [Array.getElem?_eq_none h] at hc; cases hc
      rw [e1.keep i hi hi]; exact hc
    · intro j hj1 hj2; omega
  have hinv := cloneLoop_step_inv (Nat.le_refl _) hnl (Or.inl rfl) _ _ _ hinv0 (by simpa [Store.cursor] using hloop)
  -- the entry at the head of the list
  obtain ⟨o, n, hcell, hs1, hgood⟩ := hinv.done s.cells.size (by omega) hsize
  rw [hhead] at hs1
  simp only [Option.some.injEq, Cell.cloneItem.injEq] at hs1
  subst hs1
  have hc := get_ok hgt
  rw [hcell] at hc
  simp only [Option.some.injEq] at hc
  subst hc
  simp only [pure, Outcome.ok.injEq, Prod.mk.injEq] at h3
  obtain ⟨hs', hr⟩ := h3
  subst hs'; subst hr
  have hag : AgreeNC s.cells s2.cells := agreeNC_of_all hinv.agree0
  -- the bisimulation
  intro fuel
  refine bisim_unfold s.cells s2.cells
    (fun x x' => Dec s.cells x ∧ (x' = x ∨ ∃ j, s.cells.size ≤ j ∧ j < s1.cells.size ∧
      s2.cells[j]? = some (.cloneIndexMap x x'))) ?_ fuel a n ⟨hd, Or.inr ⟨_, Nat.le_refl _, hsize, hcell⟩⟩
  intro x x' ⟨hdx, hx⟩
  obtain ⟨sh, hsh, hk⟩ := hdx.shape
  have ident : ∃ s_1 s'_1, shape s.cells x = some s_1 ∧ shape s2.cells x = some s'_1 ∧ s_1.label = s'_1.label ∧
      s_1.inl = s'_1.inl ∧ AllRel (fun x x' => Dec s.cells x ∧ (x' = x ∨ ∃ j, s.cells.size ≤ j ∧ j < s1.cells.size ∧
        s2.cells[j]? = some (.cloneIndexMap x x'))) s_1.kids s'_1.kids :=
    ⟨sh, sh, hsh, shape_agree hag hsh, rfl, rfl, allRel_refl_of _ (fun k hkm => ⟨hk k hkm, Or.inl rfl⟩)⟩
  rcases hx with rfl | ⟨j, hj1, hj2, hjc⟩
  · exact ident
  · obtain ⟨o', n', hcell', _, hg⟩ := hinv.done j (by omega) hj2
    rw [hjc] at hcell'
    simp only [Option.some.injEq, Cell.cloneIndexMap.injEq] at hcell'
    obtain ⟨ho, hn⟩ := hcell'
    subst ho; subst hn
    rcases hg with ⟨rfl, _⟩ | ⟨ni, _, hni, hg⟩
    · exact ident
    · simp only [Nat.add_zero] at hni
      subst hni
      obtain ⟨sh', g1, g2, g3, g4⟩ := hg sh hsh
      refine ⟨sh, sh', hsh, g1, g2.symm, g3.symm, AllRel.imp_mem (fun k k' hkm hl => ⟨hk k hkm, ?_⟩) g4⟩
      rcases hl with ⟨h1, _⟩ | ⟨j', h1, h2, h3⟩
      · exact Or.inl h1
      · exact Or.inr ⟨j', by omega, h2, h3⟩

end Garnish.BasicOpt
