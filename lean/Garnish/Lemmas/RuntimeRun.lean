/-
Lemmas for the multi-step refinement: with the constants loaded the machine-only side condition gives `StepOKF`;
`Loaded` survives a step; a static program is `RunOK`; the address-level loop follows the machine's run.
-/
import Garnish.Model.Runtime.Run
import Garnish.Props.RuntimeRefineStepFull
set_option linter.unusedSimpArgs false
set_option linter.unusedVariables false
namespace Garnish.Lemmas.Runtime
open Garnish Gen Garnish.Abs Garnish.Model.Equality Garnish.Model.Runtime Garnish.Props.RuntimeRefine

variable {F σ : Type} {S : RStore F σ} {P : Prog F} {host : Host F} (fo : FloatOps F)

/-- with the constants loaded, the machine-only side condition is the whole side condition -/
theorem stepOKF_of_machOK (L : StoreLawsRun S) {fuel : Nat} {s : σ} {m : MState F} {instr : Instruction}
    {operand : Option Nat} (hl : Loaded S P s) (h : MachOK fo P fuel m instr operand) :
    StepOKF fo S P fuel s m instr operand := by
  cases instr <;> first
    | exact h
    | trivial
    | (intro k hk v hv; exact ⟨L.dataBound s k v (hl k v hv), hl k v hv⟩)
    | (intro k hk key hkey; exact ⟨hl k key hkey, h k key hk hkey⟩)

theorem loaded_kept {s s' : σ} (hl : Loaded S P s) (hk : DecKept S s s') : Loaded S P s' :=
  fun k v h => hk k v (hl k v h)

/-- a static program is fine along every run -/
theorem runOK_of_static (fuel : Nat) (hs : StaticOK P) : ∀ (n : Nat) (m : MState F), RunOK fo host P fuel n m
  | 0, _ => trivial
  | n + 1, m => ⟨fun instr operand hf => by
      have := hs m.pc instr operand hf
      cases instr <;> first | trivial | (simp [isDynamic] at this),
    fun m' _ => runOK_of_static fuel hs n m'⟩

/-- MULTI-STEP: the address-level loop follows the machine's run to its end -/
theorem executeLoop_spec (L : StoreLawsRun S) (HR : HostRefines S host) (fuel : Nat) (cast : RM σ (Option Nat)) :
    ∀ (n : Nat) (s : σ) (m : MState F), Sim S P s m → Loaded S P s → RunOK fo host P fuel n m →
      ∀ (m' : MState F) (k : Nat), Abs.run fo host P n m = (.halted m', k) →
        ∃ s', executeLoop fo S fuel (fullHandlers fo S fuel cast) n s = .ok ((.end_, k), s') ∧
          SimD S P s' m'.regs m'.vals m'.frames ∧ DecKept S s s' := by
  intro n
  induction n with
  | zero => intro s m _ _ _ m' k h; simp [Abs.run] at h
  | succ n ih =>
    intro s m hsim hl hok m' k hrun
    obtain ⟨hmach, hnext⟩ := hok
    have hstepsim : StepSim fo host S P fuel (fullHandlers fo S fuel cast) s m := by
      cases hf : P.instrs[m.pc]? with
      | none => exact C01_refine_step_end fo fuel _ hsim hf
      | some p =>
        obtain ⟨instr, operand⟩ := p
        exact C01_refine_step_full fo L.toStoreLaws HR fuel cast hsim hf
          (stepOKF_of_machOK fo L hl (hmach instr operand hf))
    unfold StepSim at hstepsim
    rw [Abs.run] at hrun
    cases hst : Abs.step fo host P m with
    | running m1 =>
      rw [hst] at hstepsim hrun
      obtain ⟨s1, h1, hs1, hk1⟩ := hstepsim
      simp only [] at hrun
      cases hr : Abs.run fo host P n m1 with
      | mk r k' =>
        rw [hr] at hrun
        simp only [Prod.mk.injEq] at hrun
        obtain ⟨rfl, rfl⟩ := hrun
        obtain ⟨s2, h2, hd2, hk2⟩ := ih s1 m1 hs1 (loaded_kept hl hk1) (hnext m1 hst) m' k' hr
        refine ⟨s2, ?_, hd2, fun a v h => hk2 a v (hk1 a v h)⟩
        rw [executeLoop, bind_ok h1]
        simp only []
        rw [bind_ok h2]; rfl
    | halted m1 =>
      rw [hst] at hstepsim hrun
      obtain ⟨s1, h1, hd1, hk1⟩ := hstepsim
      simp only [Prod.mk.injEq, StepRes.halted.injEq] at hrun
      obtain ⟨rfl, rfl⟩ := hrun
      exact ⟨s1, by rw [executeLoop, bind_ok h1]; rfl, hd1, hk1⟩
    | err e =>
      rw [hst] at hrun
      simp at hrun

end Garnish.Lemmas.Runtime
