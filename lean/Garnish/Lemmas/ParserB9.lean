/-
Brackets, part 9: complete operands, both sides.  `OpdOK toks`: from any open operand position the tokens `toks` are
processed to a complete operand (`OpdRes`), and the reference parser plugs the corresponding reference tree into its
frame.  `opd_atom`: `prefix* value` is such an operand.
-/
import Garnish.Lemmas.ParserB8

namespace Garnish.Spec
open Garnish Garnish.Gen Garnish.Model.Parser

/-- `current_group` is the top of the group stack -/
def CGOK (st : PState) : Prop :=
  st.currentGroup = if st.groupStack.isEmpty then none else some (st.groupStack.size - 1)

/-- the kind of the innermost frame: inside a `( )` group or not -/
def KindOK (st : PState) (ug : Option Nat) (inG : Bool) : Prop :=
  match ug with
  | none => inG = false
  | some g => ∃ G, st.nodes[g]? = some G ∧ (G.definition == Definition.group) = inG

theorem KindOK.transfer {st0 st1 : PState} {ug : Option Nat} {inG : Bool} {base : Nat} (h : KindOK st0 ug inG)
    (hb : ∀ g, ug = some g → g < base)
    (ho : ∀ j, j < base → (st1.nodes[j]?).map (setRight none) = (st0.nodes[j]?).map (setRight none)) :
    KindOK st1 ug inG := by
  cases ug with
  | none => exact h
  | some g =>
    obtain ⟨G, hG, hd⟩ := h
    have := ho g (hb g rfl)
    rw [hG] at this
    cases h1 : st1.nodes[g]? with
    | none => rw [h1] at this; cases this
    | some G1 =>
      rw [h1] at this
      simp only [Option.map_some, Option.some.injEq] at this
      refine ⟨G1, h1, ?_⟩
      have : G1.definition = G.definition := by
        cases G1; cases G; simp only [setRight, ParseNode.mk.injEq] at this; exact this.1
      rw [this]; exact hd

/-! ### plugging prefix leaves and a primary -/

/-- the primary as it ends up below the node `dA` / the last prefix operator -/
def adjY (ps : List (Definition × Nat)) (dA : Definition) (Y : RTree) : RTree :=
  match ps with
  | [] => if dA == .access then asProperty Y else Y
  | _ :: _ => Y

theorem plug_wrap (Y : RTree) :
    ∀ (ps : List (Definition × Nat)) (l : RTree) (dA : Definition) (k : Nat),
      (∀ p ∈ ps, p.1 ≠ Definition.identifier ∧ p.1 ≠ Definition.access) →
      plug (plugLeaves (.node l dA k .nil) ps) Y = .node l dA k (wrapR ps (adjY ps dA Y))
  | [], l, dA, k, _ => by
    simp only [plugLeaves, plug, RTree.isNil, if_true, wrapR, adjY]
  | (d, kd) :: ps, l, dA, k, h => by
    have hd := h (d, kd) (List.mem_cons_self ..)
    have hud : underDef dA d = d := by unfold underDef; cases d <;> first | rfl | exact absurd rfl hd.1
    simp only [plugLeaves, plug_fresh, hud]
    rw [plugLeaves_node _ _ _ _ _ (by rfl)]
    have hnn : (plugLeaves (.node .nil d kd .nil) ps).isNil = false := plugLeaves_isNil_false ps _ (by rfl)
    have : plug (.node l dA k (plugLeaves (.node .nil d kd .nil) ps)) Y =
        .node l dA k (plug (plugLeaves (.node .nil d kd .nil) ps) Y) := by
      simp [plug, hnn]
    rw [this, plug_wrap Y ps .nil d kd (fun p hp => h p (List.mem_cons_of_mem _ hp))]
    have hadj : adjY ps d Y = Y := by
      cases ps with
      | nil =>
        have : (d == Definition.access) = false := by simpa using hd.2
        simp [adjY, this]
      | cons _ _ => rfl
    rw [hadj]
    rfl

theorem underDef_not_access' {dl : Definition} (da : Definition) (h : dl ≠ .access) : underDef dl da = da := by
  have : (dl == Definition.access) = false := by simpa using h
  unfold underDef
  cases da <;> simp [this]

theorem leaf_adj (dA da : Definition) (k : Nat) :
    RTree.node .nil (underDef dA da) k .nil =
      (if dA == .access then asProperty (.node .nil da k .nil) else .node .nil da k .nil) := by
  by_cases h : dA = .access
  · subst h; cases da <;> rfl
  · have h' : (dA == Definition.access) = false := by simpa using h
    rw [underDef_not_access' da h, if_neg (by simp [h'])]

theorem underDef_not_access {dl : Definition} (da : Definition) (h : dl ≠ .access) : underDef dl da = da := by
  have : (dl == Definition.access) = false := by simpa using h
  unfold underDef
  cases da <;> simp [this]

/-- the operand `prefix* Y` as a `PlugFn` -/
theorem plugFn_of (df : Nat → Definition) (dm : Definition) (sub : Tree) (ps : List (Definition × Nat)) (Y : RTree)
    (hps : ∀ p ∈ ps, p.1 ≠ Definition.identifier ∧ p.1 ≠ Definition.access)
    (hsub : toRG df sub = wrapR ps (adjY ps dm Y)) (hnil : dm ≠ .access → adjY ps dm Y = Y) :
    PlugFn df dm sub (fun R => plug (plugLeaves R ps) Y) := by
  refine ⟨?_, ?_, ?_⟩
  · intro l a k R hR
    rw [plugLeaves_node _ _ _ _ _ hR]
    have hnn := plugLeaves_isNil_false ps R hR
    simp [plug, hnn]
  · intro l k
    rw [plug_wrap Y ps l dm k hps, hsub]
  · intro hdm
    rw [hsub, hnil hdm]
    cases ps with
    | nil => simp [plugLeaves, plug, wrapR]
    | cons p ps' =>
      obtain ⟨d, kd⟩ := p
      have hfresh : plug RTree.nil (RTree.node .nil d kd .nil) = RTree.node .nil d kd .nil := rfl
      simp only [plugLeaves, hfresh]
      rw [plug_wrap Y ps' .nil d kd (fun p hp => hps p (List.mem_cons_of_mem _ hp))]
      have hd := hps (d, kd) (List.mem_cons_self ..)
      have hadj : adjY ps' d Y = Y := by
        cases ps' with
        | nil =>
          have : (d == Definition.access) = false := by simpa using hd.2
          simp [adjY, this]
        | cons _ _ => rfl
      simp only [wrapR, hadj]

/-! ### chains -/

theorem onSpine_chainR (cb : Nat) : ∀ (ks : List Nat) (m : Nat) (X : Tree), OnSpine cb X → OnSpine cb (chainR m ks X)
  | [], _, _, h => h
  | _ :: ks, m, X, h => Or.inr (onSpine_chainR cb ks (m + 1) X h)

theorem spineG_chainR (df : Nat → Definition) (cb : Nat) : ∀ (ks : List Nat) (m : Nat) (X : Tree),
    (∀ i, i < ks.length → isBracketDef (df (m + i)) = false) → m + ks.length ≤ cb → SpineG df cb X →
    SpineG df cb (chainR m ks X)
  | [], _, _, _, _, h => h
  | k :: ks, m, X, hnb, hle, h => by
    simp only [List.length_cons] at hle hnb
    have h0 := hnb 0 (by omega)
    simp only [Nat.add_zero] at h0
    simp only [chainR, SpineG, if_neg (show m ≠ cb by omega)]
    refine ⟨h0, spineG_chainR df cb ks (m + 1) X ?_ (by omega) h⟩
    intro i hi
    have := hnb (i + 1) (by omega)
    have e : m + 1 + i = m + (i + 1) := by omega
    rw [e]; exact this

theorem leavesP_facts (pre : List PToken) (k : Nat) (hpre : ∀ p ∈ pre, isPrefixTok p = true) :
    ∀ p ∈ leavesP pre k, p.1 ≠ Definition.identifier ∧ p.1 ≠ Definition.access ∧ isBracketDef p.1 = false := by
  intro p hp
  obtain ⟨i, hi, rfl⟩ := List.getElem_of_mem hp
  rw [leavesP_get pre k i hi]
  have hi' : i < pre.length := by rw [leavesP_length] at hi; exact hi
  have hs : (getDefinition (pre[i]).type).2 = .unaryPrefix := by
    have := hpre _ (List.getElem_mem hi')
    unfold isPrefixTok at this; simpa using this
  obtain ⟨_, _, _, _, f2, f3, _, f5⟩ := prefix_def_facts _ hs
  refine ⟨f2, f3, ?_⟩
  generalize (getDefinition (pre[i]).type).1 = d at f5
  revert f5; cases d <;> decide

theorem pushP_allPrio : ∀ (ps : List PToken) (st : PState), AllPrio st.nodes → (∀ p ∈ ps, isPrefixTok p = true) →
    AllPrio (pushP st ps).nodes
  | [], _, h, _ => h
  | p :: ps, st, h, hps => by
    apply pushP_allPrio ps (stepP st p) _ (fun x hx => hps x (List.mem_cons_of_mem _ hx))
    have hp := hps p (List.mem_cons_self ..)
    have hs : (getDefinition p.type).2 = .unaryPrefix := by unfold isPrefixTok at hp; simpa using hp
    obtain ⟨q, hq, _⟩ := prefix_def_facts p.type hs
    intro i nd hi
    simp only [stepP, Array.getElem?_push] at hi
    split at hi
    · injection hi with hi; subst hi; exact ⟨q, hq⟩
    · exact h i nd hi

theorem aboveDef_pushP (ps : List PToken) (st : PState) :
    aboveDef (pushP st ps) = (match ps.getLast? with | some p => (getDefinition p.type).1 | none => aboveDef st) := by
  cases hgl : ps.getLast? with
  | none =>
    have hnil : ps = [] := by simpa using hgl
    subst hnil; rfl
  | some pl =>
    have hne : ps ≠ [] := by intro e; rw [e] at hgl; simp at hgl
    have hlen : 0 < ps.length := List.length_pos_iff.mpr hne
    have hidx := pushP_def ps st (ps.length - 1) (by omega)
    have hsz := pushP_size ps st
    have e : (pushP st ps).nodes.size - 1 = st.nodes.size + (ps.length - 1) := by omega
    unfold aboveDef
    rw [e, hidx]
    have : ps[ps.length - 1]'(by omega) = pl := by
      have h1 := List.getLast?_eq_getElem? (l := ps)
      rw [hgl] at h1
      exact (List.getElem?_eq_some_iff.mp h1.symm).2
    simp [this]

/-! ### operands -/

/-- **the tokens `toks` form a complete operand**, on both sides -/
def OpdOK (c : Nat) (toks : List PToken) : Prop :=
  ∀ (st1 : PState) (ug : Option Nat), OpenB st1 ug → AllPrio st1.nodes → CGOK st1 →
    ∀ (pos : Nat), NumberedFrom pos toks → ∀ (rest : List PToken),
    ∃ (st2 : PState) (sub : Tree) (cb : Nat) (P : RTree → RTree),
      loop st1 (toks ++ rest) = loop st2 rest ∧ OpdRes st1 st2 sub cb ∧
      PlugFn (dfOf st2.nodes) (aboveDef st1) sub P ∧
      sub.inorder.length + st1.nodes.size + c = st2.nodes.size ∧
      ∀ (f : Frame) (stack : List Frame) (restR : List PToken), OpenLast f.last →
        refLoop Table.gen f stack pos (toks ++ restR) =
          refLoop Table.gen { f with cur := P f.cur, last := .operand, ws := false, prevSep := false } stack
            (pos + toks.length) restR

theorem numbered_prefix : ∀ (l1 l2 : List PToken) (k : Nat), NumberedFrom k (l1 ++ l2) → NumberedFrom k l1
  | [], _, _, _ => trivial
  | _ :: l1, l2, k, h => ⟨h.1, numbered_prefix l1 l2 (k + 1) h.2⟩

theorem numbered_ext : ∀ (l1 l2 : List PToken) (k : Nat), NumberedFrom k l1 → NumberedFrom (k + l1.length) l2 →
    NumberedFrom k (l1 ++ l2)
  | [], _, _, _, h => by simpa using h
  | _ :: l1, l2, k, h1, h2 => by
    refine ⟨h1.1, numbered_ext l1 l2 (k + 1) h1.2 ?_⟩
    simp only [List.length_cons] at h2
    have e : k + 1 + l1.length = k + (l1.length + 1) := by omega
    rw [e]; exact h2

/-- `prefix* value` is a complete operand -/
theorem opd_atom (pre : List PToken) (a : PToken) (hpre : ∀ p ∈ pre, isPrefixTok p = true) (ha : isAtom10 a = true) :
    OpdOK 0 (pre ++ [a]) := by
  intro st1 ug hO hprios _ pos hnum rest
  obtain ⟨hsa, hqa⟩ := atom10_facts ha
  have hO' := pushP_openB pre st1 ug hO hpre
  have hsz := pushP_size pre st1
  obtain ⟨hgsP, hcgP⟩ := pushP_fields pre st1
  obtain ⟨st2, h2, hn2, ll2, c2, n2, g2, cg2, p2⟩ := value_stepB (pushP st1 pre) ug a rest.isEmpty hO' ha
  have hs2 : st2.nodes.size = st1.nodes.size + pre.length + 1 := by rw [hn2]; simp [hsz]
  have hlt2 : ∀ j, j < st1.nodes.size + pre.length → st2.nodes[j]? = (pushP st1 pre).nodes[j]? := by
    intro j hj; rw [hn2, Array.getElem?_push, if_neg (by omega)]
  have hleaf : st2.nodes[st1.nodes.size + pre.length]? = some ⟨underDef (aboveDef (pushP st1 pre)) (getDefinition a.type).1,
      (getDefinition a.type).2, (pushP st1 pre).lastLeft, none, none, a⟩ := by
    rw [hn2, Array.getElem?_push, if_pos hsz.symm]
  have hpdef : ∀ (i : Nat) (h : i < pre.length),
      dfOf st2.nodes (st1.nodes.size + i) = (getDefinition (pre[i]).type).1 := by
    intro i h
    simp only [dfOf, hlt2 _ (show st1.nodes.size + i < st1.nodes.size + pre.length by omega), pushP_def pre st1 i h,
      Option.getD_some]
  have hleafdef : dfOf st2.nodes (st1.nodes.size + pre.length) =
      underDef (aboveDef (pushP st1 pre)) (getDefinition a.type).1 := by simp [dfOf, hleaf]
  let X : Tree := .node .nil (st1.nodes.size + pre.length) a.col .nil
  have hXtree : IsTreeAt st2.nodes (pushP st1 pre).nextParent (some (pushP st1 pre).nodes.size) X := by
    rw [hsz]
    exact isTreeAt_node _ hleaf (by rw [hO'.link]) (.nil _) (.nil _) rfl
  have htree := chainR_isTreeAt pre st1 st2.nodes X (fun j hj => by rw [hsz] at hj; exact hlt2 j hj) hXtree
  have hnbleaf : isBracketDef (underDef (aboveDef (pushP st1 pre)) (getDefinition a.type).1) = false := by
    have := underDef_prio (dAbove := aboveDef (pushP st1 pre)) hqa
    generalize underDef (aboveDef (pushP st1 pre)) (getDefinition a.type).1 = d at this
    revert this; cases d <;> decide
  have hleaves := leavesP_facts pre pos hpre
  have hcols : (leavesP pre pos).map (·.2) = pre.map (·.col) := leavesP_cols pre pos [a] hnum
  have hacol : a.col = pos + pre.length := (numbered_append pre [a] pos hnum).1
  have hcnt : (chainR st1.nodes.size (pre.map (·.col)) X).inorder.length + st1.nodes.size + 0 = st2.nodes.size := by
    rw [chainR_inorder, List.length_map]
    simp only [X, Tree.inorder, List.nil_append, List.length_append, List.length_range', List.length_cons, List.length_nil]
    omega
  refine ⟨st2, chainR st1.nodes.size (pre.map (·.col)) X, st2.nodes.size,
    fun R => plug (plugLeaves R (leavesP pre pos)) (.node .nil (getDefinition a.type).1 (pos + pre.length) .nil), ?_, ?_, ?_, hcnt, ?_⟩
  · -- the loop
    cases hp : pre with
    | nil =>
      subst hp
      simp only [List.nil_append, List.cons_append, loop, pushP] at h2 ⊢
      rw [h2]; rfl
    | cons p ps =>
      rw [← hp, List.append_assoc, prefix_runB pre st1 ug ([a] ++ rest) hO hpre (by simp)]
      simp only [List.cons_append, List.nil_append, loop, h2, Outcome.bind]
  · -- the operand
    have hin2 : (chainR st1.nodes.size (pre.map (·.col)) X).inorder = List.range' st1.nodes.size (pre.length + 1) := by
      rw [chainR_inorder, List.length_map]
      simp only [X, Tree.inorder, List.nil_append]
      rw [List.range'_concat, Nat.one_mul]
    refine ⟨?_, by omega, htree, ?_, n2, by rw [g2, hgsP], by rw [cg2, hcgP], ?_, ?_, ?_, ?_,
      ⟨_, _, by rw [ll2, hsz], hleaf, Or.inl (prio10_valueLike (underDef_prio hqa))⟩⟩
    · intro j hj
      rw [hlt2 j (by omega), pushP_below pre st1 j hj]
    · rw [hin2, hs2]
      exact sortedIn_range' _ _ _ (by omega)
    · have hb : Bot st2 (chainR st1.nodes.size (pre.map (·.col)) X) st2.nodes.size := by
        refine .plain (by rw [ll2, hsz, hs2]; rfl) ⟨_, by rw [hs2, Nat.add_sub_cancel]; exact hleaf, rfl, ?_⟩ ?_ ?_
        · exact prio10_not_groupLike (underDef_prio hqa)
        · rw [hin2, hs2, List.getLast?_range']; simp
        · intro nd hnd
          rw [hs2, Nat.add_sub_cancel, hleaf] at hnd
          injection hnd with hnd; rw [← hnd]
          rcases hsa with h | h <;> rw [h] <;> rfl
      exact hb
    · apply spineG_chainR _ _ _ _ _ (by intro i hi; rw [List.length_map] at hi; rw [hpdef i hi]
                                        have := hpre _ (List.getElem_mem hi)
                                        have hs : (getDefinition (pre[i]).type).2 = .unaryPrefix := by
                                          unfold isPrefixTok at this; simpa using this
                                        obtain ⟨_, _, _, _, _, _, _, f5⟩ := prefix_def_facts _ hs
                                        generalize (getDefinition (pre[i]).type).1 = d at f5
                                        revert f5; cases d <;> decide)
        (by rw [List.length_map, hs2]; omega)
      simp only [X, SpineG, if_neg (show st1.nodes.size + pre.length ≠ st2.nodes.size by omega), hleafdef, hnbleaf]
      exact ⟨trivial, trivial⟩
    · intro i nd hi
      by_cases c1 : i < st1.nodes.size + pre.length
      · rw [hlt2 i c1] at hi
        exact pushP_allPrio pre st1 hprios hpre i nd hi
      · by_cases c2 : i = st1.nodes.size + pre.length
        · subst c2; rw [hleaf] at hi; injection hi with hi; subst hi; exact ⟨10, underDef_prio hqa⟩
        · have : st2.nodes[i]? = none := by apply Array.getElem?_eq_none; omega
          rw [this] at hi; cases hi
    · rcases p2 with h | h
      · exact Or.inl h
      · exact Or.inr (Or.inl h)
  · -- the reference tree of the operand
    apply plugFn_of _ _ _ _ _ (fun p hp => ⟨(hleaves p hp).1, (hleaves p hp).2.1⟩)
    · rw [← hcols, toRG_chainR (dfOf st2.nodes) (leavesP pre pos) st1.nodes.size X
        (by intro i h
            rw [leavesP_get pre pos i h]
            exact hpdef i (by rw [leavesP_length] at h; exact h))
        (fun p hp => (hleaves p hp).2.2)]
      congr 1
      simp only [X, toRG, hleafdef, hnbleaf, Bool.false_eq_true, if_false, hacol]
      rw [aboveDef_pushP]
      cases hp : pre with
      | nil =>
        simp only [leavesP, adjY, List.getLast?_nil]
        exact leaf_adj _ _ _
      | cons p ps =>
        have hne : (p :: ps).getLast? = some ((p :: ps).getLast (by simp)) := List.getLast?_eq_some_getLast (by simp)
        rw [hne]
        have hmem : (p :: ps).getLast (by simp) ∈ pre := by rw [hp]; exact List.getLast_mem _
        have hs : (getDefinition ((p :: ps).getLast (by simp)).type).2 = .unaryPrefix := by
          have := hpre _ hmem
          unfold isPrefixTok at this; simpa using this
        obtain ⟨_, _, _, _, _, f3, _, _⟩ := prefix_def_facts _ hs
        simp only [leavesP, adjY]
        rw [underDef_not_access _ f3]
    · intro hdm
      cases hp : pre with
      | nil =>
        have : (aboveDef st1 == Definition.access) = false := by simpa using hdm
        simp [leavesP, adjY, this]
      | cons p ps => rfl
  · -- the reference parser
    intro f stack restR hf
    obtain ⟨b, b2, l, hl, h⟩ := ref_prefix_runK pre f stack pos ([a] ++ restR) hpre hf
    rw [List.append_assoc, h]
    conv => lhs; unfold refLoop
    simp only [List.cons_append, List.nil_append]
    rw [ref_atom_stepK _ stack _ a restR ha hl]
    simp only [Outcome.bind, List.length_append, List.length_cons, List.length_nil]
    rfl

end Garnish.Spec
