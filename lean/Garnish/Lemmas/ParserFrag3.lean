/-
Operator fragment, part 3: the token loop of the parser model and the pass of the reference parser side by side
(`frag_loop`), the first token, the final checks of `parse`, and the fragment theorem `parse_frag1`:
for every token list `value (binop value)*` (any priorities, left-to-right and right-to-left), whenever the model of
`parse` accepts, its node array is a proper tree and that tree is the reference tree.
-/
import Garnish.Lemmas.ParserFrag2

namespace Garnish.Spec
open Garnish Garnish.Gen Garnish.Model.Parser

/-- `(binop value)*` -/
def opAtoms : List PToken → Bool
  | [] => true
  | o :: a :: rest => isBinopTok o && isAtom10 a && opAtoms rest
  | [_] => false

/-- stage 1 fragment: `value (binop value)*` -/
def frag1 : List PToken → Bool
  | a :: rest => isAtom10 a && opAtoms rest
  | [] => false

/-- token `i` of the list carries position `k + i` in its `col` field (what the harness' `!tokidx` mode does) -/
def NumberedFrom : Nat → List PToken → Prop
  | _, [] => True
  | k, t :: rest => t.col = k ∧ NumberedFrom (k + 1) rest

theorem atom10_facts {a : PToken} (ha : isAtom10 a = true) :
    ((getDefinition a.type).2 = .value ∨ (getDefinition a.type).2 = .identifier) ∧
      priority (getDefinition a.type).1 = some 10 := by
  unfold isAtom10 at ha
  simpa [Bool.and_eq_true, Bool.or_eq_true, beq_iff_eq] using ha

theorem prio10_not_special {d : Definition} (h : priority d = some 10) :
    (d == Definition.drop || d == Definition.expressionTerminator) = false := by
  revert h; cases d <;> decide

/-! ### reference side -/

theorem ref_pair (f : Frame) (pos q : Nat) (o a : PToken) (rest : List PToken) (ho : isBinopTok o = true)
    (ha : isAtom10 a = true) (hq : priority (getDefinition o.type).1 = some q) (hl : f.last = .operand) :
    refLoop Table.gen f [] pos (o :: a :: rest) =
      refLoop Table.gen
        { f with cur := plug (attach Table.gen q ((getDefinition o.type).2 == .binaryRightToLeft) (getDefinition o.type).1 pos f.cur)
                    (.node .nil (getDefinition a.type).1 (pos + 1) .nil),
                 last := .operand, ws := false, prevSep := false } [] (pos + 1 + 1) rest := by
  obtain ⟨hsa, hqa⟩ := atom10_facts ha
  have hns := prio10_not_special hqa
  unfold isBinopTok at ho
  have hso : (getDefinition o.type).2 = .binaryLeftToRight ∨ (getDefinition o.type).2 = .binaryRightToLeft := by
    simpa [Bool.or_eq_true, beq_iff_eq] using ho
  have hgen : Table.gen.define = getDefinition := rfl
  have hpr : Table.gen.prio = priority := rfl
  conv => lhs; unfold refLoop
  have step1 : refStep Table.gen f [] pos o (a :: rest) =
      .ok ({ f with cur := attach Table.gen q ((getDefinition o.type).2 == .binaryRightToLeft) (getDefinition o.type).1 pos f.cur,
                    last := .op, ws := false, prevSep := false }, []) := by
    unfold refStep
    rw [hgen]
    generalize getDefinition o.type = ds at hso hq ⊢
    obtain ⟨d, s⟩ := ds
    simp only at hso hq ⊢
    rcases hso with rfl | rfl <;> simp [hpr, hq, hl]
  rw [step1]
  simp only [Outcome.bind]
  conv => lhs; unfold refLoop
  have step2 : ∀ g : Frame, g.last = .op →
      refStep Table.gen g [] (pos + 1) a rest =
        .ok ({ g with cur := plug g.cur (.node .nil (getDefinition a.type).1 (pos + 1) .nil), last := .operand, ws := false,
                      prevSep := false }, []) := by
    intro g hg
    unfold refStep
    rw [hgen]
    generalize getDefinition a.type = ds at hsa hns ⊢
    obtain ⟨d, s⟩ := ds
    simp only at hsa hns ⊢
    rcases hsa with rfl | rfl <;> simp [hns, beforeOperand, hg, Outcome.bind]
  rw [step2 _ rfl]
  simp only [Outcome.bind]

theorem ref_first (a : PToken) (rest : List PToken) (pos : Nat) (ha : isAtom10 a = true) :
    refLoop Table.gen Frame.top [] pos (a :: rest) =
      refLoop Table.gen { Frame.top with cur := .node .nil (getDefinition a.type).1 pos .nil, last := .operand } []
        (pos + 1) rest := by
  obtain ⟨hsa, hqa⟩ := atom10_facts ha
  have hns := prio10_not_special hqa
  have hgen : Table.gen.define = getDefinition := rfl
  conv => lhs; unfold refLoop
  have step : refStep Table.gen Frame.top [] pos a rest =
      .ok ({ Frame.top with cur := .node .nil (getDefinition a.type).1 pos .nil, last := .operand }, []) := by
    unfold refStep
    rw [hgen]
    generalize getDefinition a.type = ds at hsa hns ⊢
    obtain ⟨d, s⟩ := ds
    simp only at hsa hns ⊢
    rcases hsa with rfl | rfl <;> simp [hns, beforeOperand, Frame.top, Outcome.bind, plug]
  rw [step]
  simp only [Outcome.bind]

theorem leaf_rename (dO dA : Definition) (ka : Nat) :
    (if dO == Definition.access then asProperty (.node .nil dA ka .nil) else .node .nil dA ka .nil) =
      RTree.node .nil (leafDef dO dA) ka .nil := by
  unfold leafDef asProperty
  cases dA <;> (split <;> simp_all)

/-! ### the two loops side by side -/

theorem frag_loop : ∀ (rest : List PToken) (st stF : PState) (T : Tree) (rt : Nat) (f : Frame) (pos : Nat),
    FragInv st T rt → f.last = .operand → f.cur = toRd (dfOf st.nodes) T → opAtoms rest = true →
    NumberedFrom pos rest → loop st rest = .ok stF →
    ∃ TF rtF, FragInv stF TF rtF ∧ refLoop Table.gen f [] pos rest = .ok (toRd (dfOf stF.nodes) TF)
  | [], st, stF, T, rt, f, pos, hinv, hl, hc, _, _, hloop => by
    unfold loop at hloop
    injection hloop with hloop; subst hloop
    refine ⟨T, rt, hinv, ?_⟩
    unfold refLoop
    simp [hl, hc]
  | [_], _, _, _, _, _, _, _, _, _, hoa, _, _ => by simp [opAtoms] at hoa
  | o :: a :: rest, st, stF, T, rt, f, pos, hinv, hl, hc, hoa, hnum, hloop => by
    simp only [opAtoms, Bool.and_eq_true] at hoa
    obtain ⟨⟨ho, ha⟩, hrest⟩ := hoa
    obtain ⟨hco, hca, hnum'⟩ := hnum
    simp only [loop, List.isEmpty_cons] at hloop
    obtain ⟨st1, h1, hloop⟩ := bind_ok hloop
    obtain ⟨st2, h2, hloop⟩ := bind_ok hloop
    obtain ⟨q, rt', hq, hinv2, hsz, hdefs, hdn, hdn1⟩ := pair_step hinv ho ha h1 h2
    rw [ref_pair f pos q o a rest ho ha hq hl]
    have hin := hinv.inord
    have hdf : ∀ i ∈ T.inorder, dfOf st2.nodes i = dfOf st.nodes i := by
      intro i hi
      rw [hin] at hi
      have := hdefs i (List.mem_range.mp hi)
      simp only [dfOf, this]
    have hcur : plug (attach Table.gen q ((getDefinition o.type).2 == .binaryRightToLeft) (getDefinition o.type).1 pos f.cur)
          (.node .nil (getDefinition a.type).1 (pos + 1) .nil) =
        toRd (dfOf st2.nodes) (insertI (prioAt st.nodes) q ((getDefinition o.type).2 == .binaryRightToLeft)
          st.nodes.size o.col a.col T) := by
      rw [hco, hca]
      have := insertI_toRd (dfOf st2.nodes) (prioAt st.nodes) q ((getDefinition o.type).2 == .binaryRightToLeft)
        st.nodes.size pos (pos + 1) (.node .nil (getDefinition a.type).1 (pos + 1) .nil)
        (by rw [hdn, hdn1]; exact leaf_rename _ _ _) T
        (by
          intro i hi
          rw [hdf i hi]
          rw [hin] at hi
          have hi' := List.mem_range.mp hi
          have hsome : ∃ nd, st.nodes[i]? = some nd := by
            cases hnd : st.nodes[i]? with
            | none => rw [Array.getElem?_eq_none_iff] at hnd; omega
            | some nd => exact ⟨nd, rfl⟩
          obtain ⟨nd, hnd⟩ := hsome
          obtain ⟨p, hp⟩ := hinv.prios i nd hnd
          show priority _ = _
          simp [dfOf, prioAt, hnd, hp])
      rw [hdn, toRd_congr _ _ T hdf] at this
      rw [hc]; exact this
    exact frag_loop rest st2 stF _ rt' _ (pos + 1 + 1) hinv2 rfl hcur hrest hnum' hloop

/-! ### first token, trimming, final checks -/

theorem first_step {a : PToken} {il : Bool} {st0 : PState} (ha : isAtom10 a = true)
    (h : step PState.init a il = .ok st0) :
    FragInv st0 (.node .nil 0 a.col .nil) 0 ∧ dfOf st0.nodes 0 = (getDefinition a.type).1 := by
  obtain ⟨hsa, hqa⟩ := atom10_facts ha
  obtain ⟨_, a2, _⟩ := prio10_facts hqa
  have hadj : adjustLastLeft PState.init none = .ok PState.init := rfl
  obtain ⟨nodes', info, hpt, hn, hl, hc, hnl, hgs, hcg, hp⟩ :=
    step_atom_spec PState.init st0 a il hsa a2 rfl rfl rfl hadj h
  obtain ⟨e1, e2⟩ := parseToken_first hpt
  subst e1; subst e2
  have hrd : renameDef (getDefinition a.type).1 none (PState.init.nodes) = (getDefinition a.type).1 := by
    unfold renameDef; cases (getDefinition a.type).1 <;> rfl
  simp only [hrd] at hn
  have hnodes : st0.nodes = #[⟨(getDefinition a.type).1, (getDefinition a.type).2, none, none, none, a⟩] := by
    rw [hn]; rfl
  refine ⟨⟨?_, ?_, ?_, ?_, hc, hnl, hgs, hcg, ?_, ?_, ?_⟩, ?_⟩
  · rw [hnodes]
    exact isTreeAt_node (arr := #[_]) ⟨(getDefinition a.type).1, (getDefinition a.type).2, none, none, none, a⟩ rfl rfl
      (.nil _) (.nil _) rfl
  · rw [hnodes]; rfl
  · rw [hnodes]; simp
  · rw [hl, hnodes]; rfl
  · intro i nd hi
    rw [hnodes] at hi
    cases i with
    | zero => simp at hi; subst hi; exact ⟨10, hqa⟩
    | succ i => simp at hi
  · rw [hnodes]; exact ⟨_, rfl, hqa⟩
  · rw [hp]; exact hsa
  · rw [hnodes]; rfl

theorem atom10_not_trimmable {a : PToken} (ha : isAtom10 a = true) : isTrimmable a = false := by
  obtain ⟨hsa, _⟩ := atom10_facts ha
  unfold isTrimmable
  revert hsa
  cases a.type <;> simp [getDefinition]

theorem last_atom : ∀ (rest : List PToken) (a0 : PToken), isAtom10 a0 = true → opAtoms rest = true →
    isAtom10 ((a0 :: rest).getLast (by simp)) = true
  | [], a0, h0, _ => by simpa using h0
  | [_], _, _, h => by simp [opAtoms] at h
  | o :: a :: rest, a0, _, h => by
    simp only [opAtoms, Bool.and_eq_true] at h
    have := last_atom rest a h.1.2 h.2
    simpa [List.getLast_cons] using this

theorem trim_id (l : List PToken) (hne : l ≠ []) (hh : isTrimmable (l.head hne) = false)
    (hl : isTrimmable (l.getLast hne) = false) : trimTokens l = .ok l ∧ trimStart l = 0 ∧ trimStart l.reverse = 0 := by
  have hs : trimStart l = 0 := by
    cases l with
    | nil => exact absurd rfl hne
    | cons x xs => simp only [List.head_cons] at hh; simp [trimStart, hh]
  have hrev : ∃ ys, l.reverse = l.getLast hne :: ys := by
    refine ⟨l.dropLast.reverse, ?_⟩
    conv => lhs; rw [← List.dropLast_concat_getLast hne]
    simp
  obtain ⟨ys, hys⟩ := hrev
  have hr : trimStart l.reverse = 0 := by rw [hys]; simp [trimStart, hl]
  refine ⟨?_, hs, hr⟩
  unfold trimTokens
  rw [hs, hys]
  simp [trimEnd, hl, Outcome.bind]

theorem composition_final (s : SecDef) (h : s = .value ∨ s = .identifier) : checkComposition s .none false = true := by
  rcases h with rfl | rfl <;> rfl

/-- **stage 1**: `value (binop value)*`, all priorities, left-to-right and right-to-left operators, no length bound -/
theorem parse_frag1 (toks : List PToken) (hf : frag1 toks = true) (hnum : NumberedFrom 0 toks) (r : ParseResult)
    (h : parse toks = .ok r) :
    ∃ t, toTree r = some t ∧ refParse Table.gen toks = .ok (toRd (dfOf r.nodes) t) := by
  cases toks with
  | nil => simp [frag1] at hf
  | cons a0 rest =>
    simp only [frag1, Bool.and_eq_true] at hf
    obtain ⟨ha0, hrest⟩ := hf
    obtain ⟨htrim, hts, htr⟩ := trim_id (a0 :: rest) (by simp) (atom10_not_trimmable ha0)
      (atom10_not_trimmable (last_atom rest a0 ha0 hrest))
    -- model side
    unfold parse at h
    rw [htrim] at h
    simp only [Outcome.bind, List.isEmpty_cons, Bool.false_eq_true, if_false] at h
    obtain ⟨stF, hloop, hfin⟩ := bind_ok h
    simp only [loop] at hloop
    obtain ⟨st0, h0, hloop⟩ := bind_ok hloop
    obtain ⟨hinv0, hdf0⟩ := first_step ha0 h0
    obtain ⟨hc0, hnum'⟩ := hnum
    -- reference side
    have href : refParse Table.gen (a0 :: rest) = refLoop Table.gen Frame.top [] 0 (a0 :: rest) := by
      unfold refParse
      simp only [hts, htr]
      simp
    rw [href, ref_first a0 rest 0 ha0]
    obtain ⟨TF, rtF, hinvF, hrefF⟩ := frag_loop rest st0 stF _ 0
      { Frame.top with cur := .node .nil (getDefinition a0.type).1 0 .nil, last := .operand } (0 + 1) hinv0 rfl
      (by simp [toRd, hdf0, hc0]) hrest hnum' hloop
    -- final checks
    unfold finish at hfin
    rw [hinvF.cfl, composition_final _ hinvF.prev, hinvF.gs] at hfin
    have hne : stF.nodes.isEmpty = false := by
      have := hinvF.pos
      cases hsz : stF.nodes.isEmpty with
      | false => rfl
      | true =>
        have h2 : stF.nodes = #[] := by simpa using hsz
        rw [h2] at this; simp at this
    simp only [Bool.not_true, Bool.false_eq_true, if_false, hne] at hfin
    have hfin' := hfin
    simp only [show (#[] : Array (Nat × Bool)).isEmpty = true from rfl, Bool.not_true, Bool.false_eq_true, if_false] at hfin'
    split at hfin'
    · cases hfin'
    · rename_i nd0 hnd0
      obtain ⟨root, hroot, hr⟩ := bind_ok hfin'
      injection hr with hr; subst hr
      have h0mem : 0 ∈ TF.inorder := by rw [hinvF.inord]; exact List.mem_range.mpr hinvF.pos
      have hrt : root = rtF := rootLoop_root hinvF.tree _ _ 0 nd0 root h0mem hnd0 hroot
      subst hrt
      refine ⟨TF, ?_, hrefF⟩
      rw [toTree_some_iff]
      refine ⟨?_, by rw [hinvF.inord]; exact List.nodup_range⟩
      simp only [rootLink, hne, Bool.false_eq_true, if_false]
      exact hinvF.tree

end Garnish.Spec
