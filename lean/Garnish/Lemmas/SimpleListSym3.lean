/-
The symbol look-up contract of list access on the two-`Vec` list cells of `SimpleGarnishData`.

* `ListSymOn` (Model/Runtime/StoreOn.lean) asks for the FIRST item keyed by the symbol, for every list.  Simple
  probes its association table from `sym % len`: with two items keyed by the same symbol it answers in probe order
  (`simpleA_not_listSymOn`: the contract as stated is FALSE of the implementation, so it cannot be discharged).
* On lists whose items carry pairwise different symbol keys (the hypothesis of property C16) the contract holds, for
  every state, every list cell whose items decode, every symbol: `simpleA_listSymDistinct` (`ListSymDistinctOn`).
* `accessWithSymbol_spec_distinct` / `getAccessAddr_spec_distinct`: the two lemmas of the refinement chain that consume
  `ListSymOn` (Lemmas/RuntimeOnAccess2.lean), re-proved from `ListSymDistinctOn` + "the list looked into has distinct
  keys" — the form in which the hypothesis can be discharged for Simple.
-/
import Garnish.Lemmas.SimpleListSym2
import Garnish.Lemmas.RuntimeOnAccess2
set_option linter.unusedVariables false
namespace Garnish.Lemmas.Runtime.SimpleSym
open Garnish Gen Garnish.Abs Garnish.Model.Equality Garnish.Model.Runtime Garnish.Store.Lists
open Garnish.Lemmas.EqualityRefine Garnish.Lemmas.Runtime Garnish.Lemmas.Runtime.On
open Garnish.Lemmas.Runtime.Simple Garnish.Props.RuntimeRefine

variable {F σ : Type}

/-- `ListSymOn` on the lists with pairwise different symbol keys -/
def ListSymDistinctOn (S : RStore F σ) (Inv : σ → Prop) : Prop :=
  ∀ s a items vs sym, Inv s → (S.view s).listItems a = some items → DecodesList (S.view s) items vs →
    DistinctKeys vs →
    match Abs.lookupSym sym vs with
    | some v => ∃ r, S.listItemWithSymbol s a sym = .ok (some r) ∧ Decodes (S.view s) r v
    | none => S.listItemWithSymbol s a sym = .ok none

theorem ListSymOn.distinct {S : RStore F σ} {Inv : σ → Prop} (h : ListSymOn S Inv) : ListSymDistinctOn S Inv :=
  fun s a items vs sym hi hl hd _ => h s a items vs sym hi hl hd

section simple
variable {hit : List (SimCell F) → SimCell F → Option Nat} {h : SimHost F}

/-- **Simple's symbol look-up meets the contract on every list with distinct keys** — every state (no invariant is
needed), every list cell built by `start_list` / `add_to_list` / `end_list` whose items decode, every symbol -/
theorem simpleA_listSymDistinct (Inv : SimState F → Prop) : ListSymDistinctOn (simpleRStoreA hit h) Inv :=
  fun s a items vs sym _ hi hd hk => simListSym_spec sym hi hd hk

/-- the state after `(:k = ()), (:k = $?)` with `k = 5`: two items keyed by the same symbol -/
def dupState : SimState F :=
  { cells := [.unit, .fls, .tru, .sym 5, .pair 3 0, .pair 3 2, .list [4, 5]], register := [], values := [],
    currentList := none, instrs := [], jumps := [], cursor := 0, trace := [] }

theorem dupState_inv : SInv (dupState : SimState F) :=
  ⟨⟨rfl, rfl, rfl⟩, fun a ha => by cases ha⟩

/-- **`ListSymOn` is false of `SimpleGarnishData`**: item 5 sits in slot `5 % 2 = 1`, where the probe for symbol 5
starts, so the SECOND item's value (`$?`) is returned where the contract asks for the first (`()`) -/
theorem simpleA_not_listSymOn : ¬ ListSymOn (simpleRStoreA hit h) SInv := by
  intro hls
  have hd : DecodesList (simView (dupState : SimState F).cells) [4, 5]
      [.pair (.sym 5) .unit, .pair (.sym 5) .tru] :=
    .cons (.pair rfl rfl (.sym rfl rfl) (.unit rfl)) (.cons (.pair rfl rfl (.sym rfl rfl) (.tru rfl)) .nil)
  have := hls dupState 6 [4, 5] _ 5 dupState_inv rfl hd
  simp only [Abs.lookupSym, beq_self_eq_true, if_true] at this
  obtain ⟨r, h1, h2⟩ := this
  have hr : (simpleRStoreA hit h).listItemWithSymbol dupState 6 5 = .ok (some 2) := rfl
  rw [hr] at h1
  cases h1
  cases h2 with
  | unit ht =>
    have : (some Ty.true : Option Ty) = some Ty.unit := ht
    cases this

end simple

section chain
variable {S : RStore F σ} {Inv : σ → Prop} {Rd : σ → Nat → Prop} (fo : FloatOps F)

/-- `access_with_symbol` refines Abs/Ops `accessSym`, with the look-up contract on distinct keys only -/
theorem accessWithSymbol_spec_distinct (L : StoreLawsOn S Inv Rd) (LS : ListSymDistinctOn S Inv) (fuel : Nat) {s : σ}
    {a : Nat} {v : Val F} (sym : Nat)
    (h : Decodes (S.view s) a v) (hd : AccessDomain v) (hf : accessFuel v ≤ fuel) (hnc : ncConcat v)
    (hk : ∀ vs, v = .list vs → DistinctKeys vs)
    (hinv : Inv s := by inv_tac) (hdp : Deep S s (S.regs s) := by deep_tac) :
    AccOutI S Inv s (accessWithSymbol fo S fuel sym a s) (accessSym sym v) := by
  by_cases hl : ∃ vs, v = .list vs
  · obtain ⟨vs, rfl⟩ := hl
    have ht := getDataType_of h
    rw [accessWithSymbol, bind_ok ht]
    simp only [Val.typeOf, accessSym]
    obtain ⟨items, hi, hdl⟩ := On.listItems_of h
    have hl := LS s a items vs sym hinv hi hdl (hk vs rfl)
    cases hk' : Abs.lookupSym sym vs with
    | none =>
      rw [hk'] at hl
      exact ⟨s, readR_ok (g := fun st => S.listItemWithSymbol st a sym) hl, EffI.refl s (by inv_tac)⟩
    | some x =>
      rw [hk'] at hl
      obtain ⟨r, h1, d⟩ := hl
      exact ⟨r, s, readR_ok (g := fun st => S.listItemWithSymbol st a sym) h1, d, EffI.refl s (by inv_tac)⟩
  · exact On.accessWithSymbol_spec fo L fuel sym h hd hf hnc (.inl (fun vs hv => hl ⟨vs, hv⟩)) hinv hdp

/-- `get_access_addr` likewise -/
theorem getAccessAddr_spec_distinct (L : StoreLawsOn S Inv Rd) (LS : ListSymDistinctOn S Inv) (fuel : Nat) {s : σ}
    {ka a : Nat} {key v : Val F}
    (hk : Decodes (S.view s) ka key) (h : Decodes (S.view s) a v) (hd : AccessDomain v)
    (hkey : ∀ n, key = .num n → (∃ i, n = .int i) ∧ RangeOrdered fo n v) (hf : accessFuel v ≤ fuel)
    (hnc : ncConcat v) (hdk : ∀ y, key = .sym y → ∀ vs, v = .list vs → DistinctKeys vs)
    (hinv : Inv s := by inv_tac) (hdp : Deep S s (S.regs s) := by deep_tac) :
    AccOutI S Inv s (getAccessAddr fo S fuel ka a s) (getAccess fo key v) := by
  by_cases hs : ∃ y, key = .sym y
  · obtain ⟨y, rfl⟩ := hs
    have ht := getDataType_of hk
    rw [getAccessAddr, bind_ok ht]
    simp only [Val.typeOf]
    rw [bind_ok (On.getSymbol_of hk)]
    exact accessWithSymbol_spec_distinct fo L LS fuel y h hd hf hnc (hdk y rfl) hinv hdp
  · exact On.getAccessAddr_spec fo L fuel hk h hd hkey hf hnc (.inl (fun y hy => absurd ⟨y, hy⟩ hs)) hinv hdp

end chain

end Garnish.Lemmas.Runtime.SimpleSym
