/-
C04, builder half — sibling order, part 5: the visit lemmas of Lemmas/BuildTotalHandlers with the order invariant.
-/
import Garnish.Lemmas.BuildOrder4
import Garnish.Lemmas.BuildTotalHandlers2
namespace Garnish.Lemmas.BuildOrder
open Garnish Garnish.Gen Garnish.Model.Parser Garnish.Model.Literals Garnish.Model.Build Garnish.Lemmas.Build
open Garnish.Lemmas.BuildTotal

variable {F : Type} {root : Nat} {tree : Array ParseNode} {G : Nat → Prop} {m0 : Nat}

/-- `Pre` plus the order invariant on the whole work list (the visited node on top) -/
structure PreO (root : Nat) (tree : Array ParseNode) (G : Nat → Prop) (m0 : Nat) (ph : Nat → Phase) (ctx : Ctx F) (ni : Nat)
    (pn : ParseNode) : Prop where
  pre : Pre root tree G ph ctx ni pn
  ord : OInv root tree G m0 ph (ctx.stack.toList ++ [ni]) ctx.nodes ctx.data.metadata

/-- what a handler establishes, with the order invariant -/
def PostO (root : Nat) (tree : Array ParseNode) (G : Nat → Prop) (m0 : Nat) (ph : Nat → Phase) (ctx' : Ctx F) : Prop :=
  ∃ ph', Inv root tree G ph' ctx' ∧ total ph' tree.size < total ph tree.size ∧
    OInv root tree G m0 ph' ctx'.stack.toList ctx'.nodes ctx'.data.metadata

section pre
variable {ph : Nat → Phase} {ctx : Ctx F} {ni : Nat} {pn : ParseNode}

/-- a node whose build node is already `Initialized` is in its second visit -/
theorem PreO.p2 (p : PreO root tree G m0 ph ctx ni pn) {node : BuildNode} (hnode : ctx.nodes[ni]? = some (some node))
    (hst : node.state = .initialized) : ph ni = .p2 := by
  rcases p.pre.hph with h | h
  · have := p.ord.uninit ni node hnode (Or.inl h); rw [hst] at this; cases this
  · exact h

theorem PreO.firstVisit (p : PreO root tree G m0 ph ctx ni pn) {ctx' : Ctx F} {node : BuildNode}
    (hnode : ctx.nodes[ni]? = some (some node)) (hst : node.state = .uninitialized)
    (hd : pn.definition ≠ .group ∧ pn.definition ≠ .nestedExpression)
    (cs suf : List Nat) (asg : List (Nat × BuildNode)) (l : List (Option Nat))
    (hM : ctx'.data.metadata.toList = ctx.data.metadata.toList ++ l) (hl : ∀ m, m ∈ l → m = none ∨ m = some ni)
    (hS : ctx'.stack.toList = ctx.stack.toList ++ suf) (hR : ctx'.rootStack = ctx.rootStack)
    (hN : ctx'.nodes = assign ctx.nodes asg)
    (hsuf : ∀ x, x ∈ suf → x = ni ∨ x ∈ cs) (hsufN : ni ∉ cs → cs.Nodup → suf.Nodup) (hcs : cs.Nodup)
    (hnisuf : ni ∈ suf) (hsufcs : ∀ c, c ∈ cs → c ∈ suf)
    (hchild : ∀ c, c ∈ cs → IsChild tree ni c ∧ ¬ LateRight tree ni c)
    (hasgp : ∀ q, q ∈ asg → q.2.parseNodeIndex = q.1)
    (hasg : ∀ q, q ∈ asg → (q.1 = ni ∧ q.2.state = .initialized ∧ q.2.conditionalItems = node.conditionalItems) ∨
      (q.1 ∈ cs ∧ q.2.conditionalItems = #[]))
    (hasgni : ∃ b, (ni, b) ∈ asg)
    (hasgU : ∀ q, q ∈ asg → q.1 = ni ∨ q.2.state = .uninitialized)
    (hasgall : ∀ c, c ∈ cs → ∃ b, (c, b) ∈ asg)
    (hB : isB pn.definition = true →
      (∀ c, BChild tree ni c → c ∈ cs ∧ Above suf c ni) ∧ (∀ a b, Ordered tree ni a b → Above suf a b) ∧
      (∀ m, m ∈ l → m = none)) : PostO root tree G m0 ph ctx' := by
  have hp1 := p.pre.p1 hnode hst
  have hchild' : ∀ c, c ∈ cs ++ [] → IsChild tree ni c ∧ (LateRight tree ni c → Phase.p2 = .p3) ∧ (ph ni = .p2 → LateRight tree ni c) := by
    intro c hc
    have hc' : c ∈ cs := by simpa using hc
    refine ⟨(hchild c hc').1, fun hl => absurd hl (hchild c hc').2, fun h2 => ?_⟩
    rw [hp1] at h2; cases h2
  have h1 := step_inv_exp p.pre.V p.pre.inv p.pre.hG p.pre.hph p.pre.hns p.pre.hpn .p2 (Or.inl rfl) (fun _ => ⟨hp1, hd⟩) cs [] suf []
    asg hS (by rw [hR]; simp) hN (fun x hx => by
      rcases hsuf x hx with h | h
      · exact Or.inl ⟨h, rfl⟩
      · exact Or.inr h) hsufN (fun x hx => by cases hx) (fun _ => List.nodup_nil) (by simpa using hcs) hchild' hasgp
    (fun q hq => by
      rcases hasg q hq with ⟨h1, h2, h3⟩ | ⟨h1, h2⟩
      · exact Or.inl ⟨h1, fun _ => h2, node, hnode, h3⟩
      · exact Or.inr ⟨by simpa using h1, h2⟩) (fun _ => hasgni)
  refine ⟨_, h1.1, h1.2, ?_⟩
  refine step_ord p.pre.V p.pre.inv p.pre.hG p.pre.hph p.pre.hpn p.ord .p2 (Or.inl rfl) (fun _ => hp1) cs [] suf asg l hS hN hM hl
    (fun _ => hnisuf) hsufcs h1.1.stackNodup (by simpa using hcs) hchild' ?_ (fun c hc => hasgall c (by simpa using hc))
    (fun _ => rfl) (fun hb _ => hB hb) (fun _ h => by cases h)
  intro q hq
  rcases hasg q hq with ⟨h1, _⟩ | ⟨h1, _⟩
  · exact Or.inl h1
  · rcases hasgU q hq with h2 | h2
    · exact Or.inl h2
    · exact Or.inr ⟨by simpa using h1, h2⟩

theorem PreO.lastVisit (p : PreO root tree G m0 ph ctx ni pn) {ctx' : Ctx F} (asg : List (Nat × BuildNode))
    (l : List (Option Nat))
    (hM : ctx'.data.metadata.toList = ctx.data.metadata.toList ++ l) (hl : ∀ m, m ∈ l → m = none ∨ m = some ni)
    (hS : ctx'.stack = ctx.stack) (hR : ctx'.rootStack = ctx.rootStack) (hN : ctx'.nodes = assign ctx.nodes asg)
    (hasgp : ∀ q, q ∈ asg → q.2.parseNodeIndex = q.1)
    (hasg : ∀ q, q ∈ asg → q.1 = ni ∧ ∃ bn, ctx.nodes[ni]? = some (some bn) ∧ q.2.conditionalItems = bn.conditionalItems)
    (hB : isB pn.definition = true → ph ni = .p2) : PostO root tree G m0 ph ctx' := by
  have h1 := step_inv_exp p.pre.V p.pre.inv p.pre.hG p.pre.hph p.pre.hns p.pre.hpn .p3 (Or.inr rfl) (fun h => by cases h) [] [] [] [] asg
    (by rw [hS]; simp) (by rw [hR]; simp) hN (fun x hx => by cases hx) (fun _ _ => List.nodup_nil)
    (fun x hx => by cases hx) (fun _ => List.nodup_nil) (by simp) (fun c hc => by cases hc) hasgp
    (fun q hq => Or.inl ⟨(hasg q hq).1, (fun h => by cases h), (hasg q hq).2⟩) (fun h => by cases h)
  refine ⟨_, h1.1, h1.2, ?_⟩
  exact step_ord p.pre.V p.pre.inv p.pre.hG p.pre.hph p.pre.hpn p.ord .p3 (Or.inr rfl) (fun h => by cases h) [] [] [] asg l
    (by rw [hS]; simp) hN hM hl (fun h => by cases h) (fun c hc => by cases hc) h1.1.stackNodup (by simp)
    (fun c hc => by cases hc) (fun q hq => Or.inl (hasg q hq).1) (fun c hc => by cases hc) (fun _ => rfl)
    (fun _ h => by cases h) (fun hb _ => ⟨hB hb, rfl⟩)

theorem PreO.rootVisit (p : PreO root tree G m0 ph ctx ni pn) {ctx' : Ctx F} {r : Nat} (hr : pn.right = some r)
    (hlate : ph ni = .p2 → isLate pn.definition = true) (hnb : isB pn.definition = false)
    (b : BuildNode) (hb : b.parseNodeIndex = r) (hbi : b.conditionalItems = #[]) (hbu : b.state = .uninitialized)
    (l : List (Option Nat))
    (hM : ctx'.data.metadata.toList = ctx.data.metadata.toList ++ l) (hl : ∀ m, m ∈ l → m = none ∨ m = some ni)
    (hS : ctx'.stack = ctx.stack) (hR : ctx'.rootStack = ctx.rootStack.push r) (hN : ctx'.nodes = putNode ctx.nodes r b) :
    PostO root tree G m0 ph ctx' := by
  have hchild' : ∀ c, c ∈ [] ++ [r] → IsChild tree ni c ∧ (LateRight tree ni c → Phase.p3 = .p3) ∧ (ph ni = .p2 → LateRight tree ni c) := by
    intro c hc
    have : c = r := by simpa using hc
    subst this
    exact ⟨p.pre.childR hr, fun _ => rfl, fun h2 => p.pre.lateRight (hlate h2) hr⟩
  have h1 := step_inv_exp p.pre.V p.pre.inv p.pre.hG p.pre.hph p.pre.hns p.pre.hpn .p3 (Or.inr rfl) (fun h => by cases h) [] [r] [] [r]
    [(r, b)] (by rw [hS]; simp) (by rw [hR]; simp) (by rw [hN]; rfl) (fun x hx => by cases hx) (fun _ _ => List.nodup_nil)
    (fun x hx => hx) (fun h => h) (by simp) hchild'
    (fun q hq => by
      have : q = (r, b) := by simpa using hq
      subst this; exact hb)
    (fun q hq => by
      have : q = (r, b) := by simpa using hq
      subst this; exact Or.inr ⟨by simp, hbi⟩) (fun h => by cases h)
  refine ⟨_, h1.1, h1.2, ?_⟩
  exact step_ord p.pre.V p.pre.inv p.pre.hG p.pre.hph p.pre.hpn p.ord .p3 (Or.inr rfl) (fun h => by cases h) [] [r] [] [(r, b)] l
    (by rw [hS]; simp) (by rw [hN]; rfl) hM hl (fun h => by cases h) (fun c hc => by cases hc) h1.1.stackNodup (by simp) hchild'
    (fun q hq => by
      have : q = (r, b) := by simpa using hq
      subst this; exact Or.inr ⟨by simp, hbu⟩)
    (fun c hc => by
      have : c = r := by simpa using hc
      subst this; exact ⟨b, by simp⟩)
    (fun h => by rw [hnb] at h; cases h) (fun h => by rw [hnb] at h; cases h) (fun h => by rw [hnb] at h; cases h)

theorem PreO.stackVisit (p : PreO root tree G m0 ph ctx ni pn) {ctx' : Ctx F} {r : Nat} (hr : pn.right = some r)
    (hp1 : ph ni = .p1) (hnl : isLate pn.definition = false) (hnb : isB pn.definition = false)
    (b : BuildNode) (hb : b.parseNodeIndex = r) (hbi : b.conditionalItems = #[]) (hbu : b.state = .uninitialized)
    (hD : ctx'.data = ctx.data)
    (hS : ctx'.stack = ctx.stack.push r) (hR : ctx'.rootStack = ctx.rootStack) (hN : ctx'.nodes = putNode ctx.nodes r b) :
    PostO root tree G m0 ph ctx' := by
  have hchild' : ∀ c, c ∈ [r] ++ [] → IsChild tree ni c ∧ (LateRight tree ni c → Phase.p3 = .p3) ∧ (ph ni = .p2 → LateRight tree ni c) := by
    intro c hc
    have : c = r := by simpa using hc
    subst this
    exact ⟨p.pre.childR hr, fun _ => rfl, fun h2 => by rw [hp1] at h2; cases h2⟩
  have h1 := step_inv_exp p.pre.V p.pre.inv p.pre.hG p.pre.hph p.pre.hns p.pre.hpn .p3 (Or.inr rfl) (fun h => by cases h) [r] [] [r] []
    [(r, b)] (by rw [hS]; simp) (by rw [hR]; simp) (by rw [hN]; rfl) (fun x hx => Or.inr hx) (fun _ h => h)
    (fun x hx => by cases hx) (fun _ => List.nodup_nil) (by simp) hchild'
    (fun q hq => by
      have : q = (r, b) := by simpa using hq
      subst this; exact hb)
    (fun q hq => by
      have : q = (r, b) := by simpa using hq
      subst this; exact Or.inr ⟨by simp, hbi⟩) (fun h => by cases h)
  refine ⟨_, h1.1, h1.2, ?_⟩
  exact step_ord p.pre.V p.pre.inv p.pre.hG p.pre.hph p.pre.hpn p.ord .p3 (Or.inr rfl) (fun h => by cases h) [r] [] [r] [(r, b)] []
    (by rw [hS]; simp) (by rw [hN]; rfl) (by rw [hD]; simp) (fun m hm => by cases hm) (fun h => by cases h) (fun c hc => hc)
    h1.1.stackNodup (by simp) hchild'
    (fun q hq => by
      have : q = (r, b) := by simpa using hq
      subst this; exact Or.inr ⟨by simp, hbu⟩)
    (fun c hc => by
      have : c = r := by simpa using hc
      subst this; exact ⟨b, by simp⟩)
    (fun _ => rfl) (fun h => by rw [hnb] at h; cases h) (fun h => by rw [hnb] at h; cases h)

end pre

end Garnish.Lemmas.BuildOrder
