/-
`hcalls_of_exprsKnown`: in a state a balanced program reaches, a step that pushes a frame is an `Apply` / `EmptyApply` entering the
body of an `Expression` operand — so `ReachK`'s call condition follows from `ExprsKnown` (with `C06.step_arity` for the other instructions).
-/
import Garnish.Lemmas.Her7
set_option linter.unusedSimpArgs false
set_option linter.unusedVariables false
namespace Garnish.Lemmas.Her
open Garnish Gen Garnish.Abs Garnish.Props.C06

variable {F : Type} {fo : FloatOps F} {host : Host F} {P : Prog F}

theorem her_part_expr {q : Val F → Bool} {j : Nat} {x : Val F} (h : her q (.part (.expr j) x) = true) :
    q (.expr j) = true := by
  simp [her] at h; exact h.1

/-- what `apply_internal` does to the frames: a frame is pushed only when an expression body is entered, and then the
new cursor is the jump-table entry of an `Expression` value that was the left operand -/
theorem applyStep_frames {s s1 : MState F} {instr : Instruction} {ur : Bool} {l r : Val F} {n : Nat}
    (hl : her (exprQ P) l = true) (h : applyStep fo host P s instr ur l r = .ok (s1, n))
    (hgrow : s1.frames.length = s.frames.length + 1) : n ∈ exprEntries P := by
  unfold applyStep at h
  cases hk : applyKind fo instr ur l r with
  | enter j input =>
    rw [hk] at h
    simp only [] at h
    cases hj : jumpTarget P j with
    | error e => rw [hj] at h; cases h
    | ok t =>
      rw [hj] at h
      cases h
      have hq : exprQ P (.expr j) = true := by
        rcases applyKind_enter hk with rfl | ⟨x, rfl⟩
        · exact hl
        · exact her_part_expr hl
      unfold jumpTarget at hj
      cases hjj : P.jumps[j]? with
      | none => rw [hjj] at hj; cases hj
      | some t' =>
        rw [hjj] at hj
        cases hj
        simp only [exprQ, hjj] at hq
        exact List.contains_iff_mem.mp hq
  | external m arg =>
    rw [hk] at h
    simp only [] at h
    cases ha : host.apply m arg <;> rw [ha] at h <;> cases h <;> simp at hgrow
  | out o =>
    rw [hk] at h
    simp only [] at h
    cases hp : pushOut host s o with
    | error e => rw [hp] at h; cases h
    | ok s2 =>
      rw [hp] at h
      cases h
      have := (pushOut_len hp).2.1
      rw [this] at hgrow
      omega

/-- **the call condition of `ReachK` from the invariant**: in a state a balanced program reaches, a step that pushes a
frame enters a body the analysis knows -/
theorem hcalls_of_exprsKnown {entry : Nat} {d : Array (Option Nat)} (hbal : absDepth P entry = some d)
    (hentry : entry < P.instrs.size) (vals : List (Val F)) (tr : List (HostCall F)) {s s' : MState F}
    (hr : ReachK fo host P (entry :: exprEntries P) ⟨entry, [], vals, [], tr⟩ s) (hk : ExprsKnown P s)
    (hs : Abs.step fo host P s = .running s') (hgrow : s'.frames.length = s.frames.length + 1) :
    s'.pc ∈ entry :: exprEntries P := by
  have hg := absDepth_sound (fo := fo) (host := host) hbal hentry vals tr hr
  obtain ⟨es, he⟩ := absDepth_operands_present (fo := fo) (host := host) hbal hentry vals tr hr
  cases hi : P.instrs[s.pc]? with
  | none => unfold Abs.step at hs; rw [hi] at hs; cases hs
  | some p =>
    obtain ⟨i, o⟩ := p
    by_cases h1 : i = .apply
    · subst h1
      unfold Abs.step at hs
      rw [hi] at hs
      simp only [] at hs
      split at hs
      · rename_i r l rs hregs
        have hl : her (exprQ P) l = true := by
          have := hk.regs; rw [hregs] at this; simp [herL] at this; exact this.2.1
        cases ha : applyStep fo host P { s with regs := rs } .apply true l r with
        | error e => rw [ha] at hs; simp [finish] at hs
        | ok pr =>
          obtain ⟨s1, n⟩ := pr
          rw [ha] at hs
          have := finish_running hs
          subst this
          exact List.mem_cons_of_mem _ (applyStep_frames hl ha hgrow)
      · cases hs
    · by_cases h2 : i = .emptyApply
      · subst h2
        unfold Abs.step at hs
        rw [hi] at hs
        simp only [] at hs
        split at hs
        · rename_i l rs hregs
          have hl : her (exprQ P) l = true := by
            have := hk.regs; rw [hregs] at this; simp [herL] at this; exact this.1
          cases ha : applyStep fo host P { s with regs := rs } .emptyApply false l .unit with
          | error e => rw [ha] at hs; simp [finish] at hs
          | ok pr =>
            obtain ⟨s1, n⟩ := pr
            rw [ha] at hs
            have := finish_running hs
            subst this
            exact List.mem_cons_of_mem _ (applyStep_frames hl ha hgrow)
        · cases hs
      · by_cases h3 : i = .endExpression
        · subst h3
          exfalso
          unfold Abs.step at hs
          rw [hi] at hs
          simp only [] at hs
          split at hs
          · cases hs
          · split at hs
            · split at hs <;> cases hs
            · rename_i fr frs hf
              have := finish_running hs
              subst this
              rw [hf] at hgrow
              simp at hgrow
              omega
        · exfalso
          have hk' : s.regs.length = base s.frames + (s.regs.length - base s.frames) := by have := hg.1; omega
          have hp := step_arity (fo := fo) (host := host) hi hk' he hs h1 h2 h3
          rw [hp.2.1] at hgrow
          omega

end Garnish.Lemmas.Her
