/-
The parser copies token texts into nodes unchanged (parser half of `C03_front_end_shape_statement`): every node
whose definition is Symbol (resp. ByteList) carries one of the input tokens of type Symbol (resp. ByteList) as its
`lexToken`. Proved as an invariant of the node vector through every function of Garnish.Model.Parser: nodes are
created only by `pushNode` (with the current token and a definition obtained from the token type) and by
`pushListNode` (definition List); all other writes touch `parent` / `left` / `right` only.
-/
import Garnish.Lemmas.Parser
set_option linter.unusedSimpArgs false
set_option linter.unusedVariables false
namespace Garnish.Model.Parser
open Garnish Garnish.Gen

/-- postcondition on `ok` results -/
def Post {α : Type} (P : α → Prop) : Outcome α → Prop
  | .ok a => P a
  | _ => True

@[simp] theorem post_ok {α : Type} (P : α → Prop) (a : α) : Post P (.ok a) ↔ P a := Iff.rfl
@[simp] theorem post_err {α : Type} (P : α → Prop) (e : ErrClass) : Post P (.err e) := trivial
@[simp] theorem post_implErr {α : Type} (P : α → Prop) : Post P (implErr : Outcome α) := trivial
@[simp] theorem post_syntaxErr {α : Type} (P : α → Prop) : Post P (syntaxErr : Outcome α) := trivial
@[simp] theorem post_panic {α : Type} (P : α → Prop) (s : String) : Post P (.panic s) := trivial
@[simp] theorem post_fuelOut {α : Type} (P : α → Prop) : Post P (.fuelOut : Outcome α) := trivial

theorem post_bind {α β : Type} {x : Outcome α} {f : α → Outcome β} {P : α → Prop} {Q : β → Prop}
    (hx : Post P x) (hf : ∀ a, P a → Post Q (f a)) : Post Q (Outcome.bind x f) := by
  cases x with
  | ok a => exact hf a hx
  | err e => trivial
  | panic s => trivial
  | fuelOut => trivial

theorem post_mono {α : Type} {x : Outcome α} {P Q : α → Prop} (hx : Post P x) (h : ∀ a, P a → Q a) : Post Q x := by
  cases x <;> simp_all [Post]

section
variable (S B : PToken → Prop)

/-- a node whose definition is Symbol / ByteList carries a token with the property `S` / `B` -/
def Good (pn : ParseNode) : Prop :=
  (pn.definition = .symbol → S pn.lexToken) ∧ (pn.definition = .byteList → B pn.lexToken)

def AllGood (nodes : Array ParseNode) : Prop := ∀ (i : Nat) (pn : ParseNode), nodes[i]? = some pn → Good S B pn

theorem allGood_empty : AllGood S B #[] := by intro i pn h; simp at h

theorem allGood_push {nodes : Array ParseNode} {pn : ParseNode} (h : AllGood S B nodes) (hp : Good S B pn) :
    AllGood S B (nodes.push pn) := by
  intro i x hx
  rw [Array.getElem?_push] at hx
  split at hx
  · cases hx; exact hp
  · exact h i x hx

theorem allGood_modify {nodes nodes' : Array ParseNode} {i : Nat} {f : ParseNode → ParseNode}
    (h : AllGood S B nodes) (hf : ∀ n, nodes[i]? = some n → Good S B (f n))
    (hm : modifyNode? nodes i f = some nodes') : AllGood S B nodes' := by
  unfold modifyNode? at hm
  split at hm
  · rename_i hi
    cases hm
    intro j x hx
    rw [Array.getElem?_set] at hx
    split at hx
    · cases hx
      exact hf _ (by simp [hi])
    · exact h j x hx
  · cases hm

theorem good_parent {n : ParseNode} (p : Option Nat) (h : Good S B n) : Good S B { n with parent := p } := h
theorem good_right {n : ParseNode} (p : Option Nat) (h : Good S B n) : Good S B { n with right := p } := h

/-- the definition an arm returns is the one it was given, or Drop -/
def InfoOk (d : Definition) (info : Info) : Prop := info.definition = d ∨ info.definition = .drop

theorem parseToken_good (id : Nat) (definition : Definition) (left right : Option Nat) (nodes : Array ParseNode)
    (underGroup : Option Nat) (rtl : Bool) (h : AllGood S B nodes) :
    Post (fun r => AllGood S B r.1 ∧ InfoOk definition r.2)
      (parseToken id definition left right nodes underGroup rtl) := by
  unfold parseToken
  split
  · simp
  · apply post_bind (P := fun _ => True)
    · cases walkLoop nodes _ underGroup rtl (nodes.size + 1) 0 left left <;> simp [Post]
    · intro a _
      dsimp only
      apply post_bind (P := fun ns => AllGood S B ns)
      · split
        · simpa using h
        · split
          · simp
          · rename_i hm
            simp only [post_ok]
            exact allGood_modify S B h (fun n hn => good_parent S B _ (h _ n hn)) hm
      · intro ns hns
        split
        · simp [hns, InfoOk]
        · split
          · simp
          · split
            · simp
            · rename_i hm
              have h2 := allGood_modify S B hns (fun n hn => good_right S B _ (hns _ n hn)) hm
              split
              · simp [h2, InfoOk]
              · split
                · simp [h2, InfoOk]
                · rename_i hm3
                  have h3 := allGood_modify S B h2 (fun n hn => good_parent S B _ (h2 _ n hn)) hm3
                  simp [h3, InfoOk]

def StOk (d : Definition) (r : PState × Info) : Prop := AllGood S B r.1.nodes ∧ InfoOk d r.2

theorem parseTokenSt_good (st : PState) (id : Nat) (definition : Definition) (left right underGroup : Option Nat)
    (rtl : Bool) (h : AllGood S B st.nodes) :
    Post (StOk S B definition) (parseTokenSt st id definition left right underGroup rtl) := by
  unfold parseTokenSt
  apply post_bind (parseToken_good S B id definition left right st.nodes underGroup rtl h)
  intro a ha
  simpa [StOk] using ha

theorem parseTokenLeftToRight_good (st : PState) (id : Nat) (definition : Definition) (left right underGroup : Option Nat)
    (h : AllGood S B st.nodes) :
    Post (StOk S B definition) (parseTokenLeftToRight st id definition left right underGroup) :=
  parseTokenSt_good S B st id definition left right underGroup false h

theorem parseTokenRightToLeft_good (st : PState) (id : Nat) (definition : Definition) (left right underGroup : Option Nat)
    (h : AllGood S B st.nodes) :
    Post (StOk S B definition) (parseTokenRightToLeft st id definition left right underGroup) :=
  parseTokenSt_good S B st id definition left right underGroup true h

theorem good_of_infoOk_list {info : Info} (h : InfoOk .list info) (sd : SecDef) (p l r : Option Nat) (t : PToken) :
    Good S B ⟨info.definition, sd, p, l, r, t⟩ := by
  rcases h with h | h <;> (constructor <;> (intro h'; simp only [] at h'; rw [h] at h'; cases h'))

theorem pushListNode_good (st : PState) (id ourId : Nat) (underGroup : Option Nat) (h : AllGood S B st.nodes) :
    Post (fun st' => AllGood S B st'.nodes) (pushListNode st id ourId underGroup) := by
  unfold pushListNode
  apply post_bind (parseTokenLeftToRight_good S B st id .list st.lastLeft (some ourId) underGroup h)
  intro a ha
  obtain ⟨h1, h2⟩ := ha
  simp only [post_ok]
  exact allGood_push S B h1 (good_of_infoOk_list S B h2 _ _ _ _ _)

theorem parseValueLike_good (st : PState) (id : Nat) (definition : Definition) (underGroup : Option Nat)
    (h : AllGood S B st.nodes) : Post (StOk S B definition) (parseValueLike st id definition underGroup) := by
  unfold parseValueLike
  split
  · apply post_bind (pushListNode_good S B st id (id + 1) underGroup h)
    intro st' hst'
    exact parseTokenLeftToRight_good S B _ _ _ _ _ _ hst'
  · exact parseTokenLeftToRight_good S B _ _ _ _ _ _ h

theorem setupSpaceListCheck_good (st : PState) (cg : Option Nat) (d : Definition) (h : AllGood S B st.nodes) :
    Post (StOk S B d) (setupSpaceListCheck st cg) := by
  unfold setupSpaceListCheck
  apply post_bind (P := fun st' => AllGood S B st'.nodes)
  · repeat' split
    all_goals (try dsimp only)
    all_goals (repeat' split)
    all_goals simp [h]
  · intro st' hst'
    simp [StOk, InfoOk, hst']

theorem adjustLastLeft_good (st : PState) (ug : Option Nat) (h : AllGood S B st.nodes) :
    Post (fun st' => AllGood S B st'.nodes) (adjustLastLeft st ug) := by
  unfold adjustLastLeft
  repeat' split
  all_goals (try dsimp only)
  all_goals (repeat' split)
  all_goals simp [h]

theorem armUnaryPrefix_good (st : PState) (currentId : Nat) (definition : Definition) (ar ug : Option Nat)
    (h : AllGood S B st.nodes) : Post (StOk S B definition) (armUnaryPrefix st currentId definition ar ug) := by
  unfold armUnaryPrefix
  dsimp only
  split
  · apply post_bind (pushListNode_good S B st currentId (currentId + 1) ug h)
    intro st' hst'
    simp [StOk, InfoOk, hst']
  · simp [StOk, InfoOk, h]

theorem armStartGrouping_good (st : PState) (currentId : Nat) (definition : Definition) (ar ug : Option Nat)
    (h : AllGood S B st.nodes) : Post (StOk S B definition) (armStartGrouping st currentId definition ar ug) := by
  unfold armStartGrouping
  dsimp only
  split
  · apply post_bind (pushListNode_good S B _ currentId (currentId + 1) ug (by simpa using h))
    intro st' hst'
    simp [StOk, InfoOk, hst']
  · simp [StOk, InfoOk, h]

theorem armStartSideEffect_good (st : PState) (currentId : Nat) (definition : Definition) (ar ug : Option Nat)
    (h : AllGood S B st.nodes) : Post (StOk S B definition) (armStartSideEffect st currentId definition ar ug) := by
  unfold armStartSideEffect
  dsimp only
  apply post_bind (parseTokenLeftToRight_good S B _ currentId definition _ ar ug (by simpa using h))
  intro a ha
  obtain ⟨h1, h2⟩ := ha
  simp [StOk, h1, h2]

theorem endGroupingFixLastLeft_good (st : PState) (currentId endedGroup : Nat) (h : AllGood S B st.nodes) :
    Post (fun st' => AllGood S B st'.nodes) (endGroupingFixLastLeft st currentId endedGroup) := by
  unfold endGroupingFixLastLeft
  split
  · simpa using h
  · split
    · simp
    · rename_i left hll _ leftNode0 hget
      dsimp only
      have hg0 : Good S B leftNode0 := h _ _ hget
      have hgl : Good S B (if (leftNode0.definition.isOptional || left == endedGroup) = true
          then { leftNode0 with right := none } else leftNode0) := by
        split
        · exact hg0
        · exact hg0
      generalize (if (leftNode0.definition.isOptional || left == endedGroup) = true
          then { leftNode0 with right := none } else leftNode0) = leftNode at hgl ⊢
      split
      · simp
      · rename_i nodes1 hm1
        have h1 := allGood_modify S B h (fun _ _ => hgl) hm1
        split
        · split
          · simpa using h1
          · split
            · simp
            · rename_i nodes2 hm2
              have h2 := allGood_modify S B h1 (fun n hn => good_parent S B _ (h1 _ n hn)) hm2
              split
              · simpa using h2
              · split
                · simp
                · rename_i nodes3 hm3
                  simpa using allGood_modify S B h2 (fun n hn => good_right S B _ (h2 _ n hn)) hm3
        · simpa using h1

theorem armEndGrouping_good (st : PState) (currentId : Nat) (token : PToken) (d : Definition)
    (h : AllGood S B st.nodes) : Post (StOk S B d) (armEndGrouping st currentId token) := by
  unfold armEndGrouping
  split
  · simp
  · dsimp only
    split
    · simp
    · apply post_bind (P := fun _ => True)
      · repeat' split
        all_goals simp
      · intro et _
        split
        · simp
        · apply post_bind (endGroupingFixLastLeft_good S B _ currentId _ (by simpa using h))
          intro st' hst'
          simp [StOk, InfoOk, hst']

theorem armSubexpression_good (st : PState) (currentId : Nat) (definition : Definition) (ar ug : Option Nat)
    (h : AllGood S B st.nodes) : Post (StOk S B definition) (armSubexpression st currentId definition ar ug) := by
  unfold armSubexpression
  apply post_bind (P := fun _ => True)
  · repeat' split
    all_goals simp
  · intro r _
    dsimp only
    split
    · exact setupSpaceListCheck_good S B st ug definition h
    · apply post_bind (P := fun p => AllGood S B p.1.nodes)
      · split
        · simpa using h
        · split
          · simp
          · rename_i left hll _ leftNode0 hget
            (try dsimp only)
            have hg0 : Good S B leftNode0 := h _ _ hget
            have hgl : Good S B (if leftNode0.definition.isOptional = true
                then { leftNode0 with right := none } else leftNode0) := by
              split <;> exact hg0
            generalize (if leftNode0.definition.isOptional = true
                then { leftNode0 with right := none } else leftNode0) = leftNode at hgl ⊢
            split
            · simp
            · rename_i nodes1 hm1
              simpa using allGood_modify S B h (fun _ _ => hgl) hm1
      · intro p hp
        split
        · simp [StOk, InfoOk, hp]
        · exact parseTokenLeftToRight_good S B _ _ _ _ _ _ (by simpa using hp)

theorem dispatch_good (st : PState) (currentId : Nat) (token : PToken) (definition : Definition) (sd : SecDef)
    (ar ug : Option Nat) (h : AllGood S B st.nodes) :
    Post (StOk S B definition) (dispatch st currentId token definition sd ar ug) := by
  unfold dispatch
  split
  · simp
  · exact setupSpaceListCheck_good S B st ug definition h
  · simp [StOk, InfoOk, h]
  · exact parseValueLike_good S B st currentId definition ug h
  · exact parseValueLike_good S B st currentId definition ug h
  · exact parseTokenRightToLeft_good S B _ _ _ _ _ _ (by simpa using h)
  · exact parseTokenLeftToRight_good S B _ _ _ _ _ _ (by simpa using h)
  · exact parseTokenLeftToRight_good S B _ _ _ _ _ _ (by simpa using h)
  · exact armUnaryPrefix_good S B st currentId definition ar ug h
  · exact parseTokenLeftToRight_good S B _ _ _ _ _ _ (by simpa using h)
  · exact armStartGrouping_good S B st currentId definition ar ug h
  · exact armStartSideEffect_good S B st currentId definition ar ug h
  · exact armEndGrouping_good S B st currentId token definition h
  · exact armEndGrouping_good S B st currentId token definition h
  · exact armSubexpression_good S B st currentId definition ar ug h

/-- what is required of an input token -/
def TokGood (t : PToken) : Prop := (t.type = .symbol → S t) ∧ (t.type = .byteList → B t)

theorem getDefinition_symbol (ty : TokenType) (h : (getDefinition ty).1 = .symbol) : ty = .symbol := by
  cases ty <;> simp [getDefinition] at h ⊢

theorem getDefinition_byteList (ty : TokenType) (h : (getDefinition ty).1 = .byteList) : ty = .byteList := by
  cases ty <;> simp [getDefinition] at h ⊢

theorem pushNode_good (st : PState) (info : Info) (sd : SecDef) (token : PToken) (h : AllGood S B st.nodes)
    (hi : InfoOk (getDefinition token.type).1 info) (ht : TokGood S B token) :
    AllGood S B (pushNode st info sd token).nodes := by
  unfold pushNode
  split
  · dsimp only
    apply allGood_push S B h
    have key : ∀ d : Definition, (d = .symbol → info.definition = .symbol) → (d = .byteList → info.definition = .byteList) →
        Good S B ⟨d, sd, info.parent, info.left, info.right, token⟩ := by
      intro d h1 h2
      constructor
      · intro hd
        have := h1 hd
        rcases hi with hi | hi
        · exact ht.1 (getDefinition_symbol _ (by rw [← hi, this]))
        · rw [hi] at this; cases this
      · intro hd
        have := h2 hd
        rcases hi with hi | hi
        · exact ht.2 (getDefinition_byteList _ (by rw [← hi, this]))
        · rw [hi] at this; cases this
    apply key
    · intro hd
      split at hd
      · rename_i heq
        exfalso
        split at hd
        · rw [heq] at hd; cases hd
        · split at hd
          · cases hd
          · rw [heq] at hd; cases hd
      · exact hd
    · intro hd
      split at hd
      · rename_i heq
        exfalso
        split at hd
        · rw [heq] at hd; cases hd
        · split at hd
          · cases hd
          · rw [heq] at hd; cases hd
      · exact hd
  · exact h

theorem step_good (st : PState) (token : PToken) (isLast : Bool) (h : AllGood S B st.nodes) (ht : TokGood S B token) :
    Post (fun st' => AllGood S B st'.nodes) (step st token isLast) := by
  unfold step
  dsimp only
  apply post_bind (P := fun _ => True)
  · cases underGroupOf st <;> simp [Post]
  · intro ug _
    apply post_bind (adjustLastLeft_good S B st ug h)
    intro st1 hst1
    split
    · simp
    · apply post_bind (dispatch_good S B _ _ token (getDefinition token.type).1 (getDefinition token.type).2 _ ug
        (by simpa using hst1))
      intro r hr
      obtain ⟨h1, h2⟩ := hr
      have hp := pushNode_good S B r.1 r.2 (getDefinition token.type).2 token h1 h2 ht
      simp only [post_ok]
      split <;> simpa using hp

theorem loop_good : ∀ (tokens : List PToken) (st : PState), AllGood S B st.nodes → (∀ t ∈ tokens, TokGood S B t) →
    Post (fun st' => AllGood S B st'.nodes) (loop st tokens)
  | [], st, h, _ => by simpa [loop] using h
  | t :: rest, st, h, ht => by
    unfold loop
    apply post_bind (step_good S B st t rest.isEmpty h (ht t (by simp)))
    intro st' hst'
    exact loop_good rest st' hst' (fun x hx => ht x (by simp [hx]))

theorem trimTokens_sub (tokens : List PToken) :
    Post (fun r => ∀ t ∈ r, t ∈ tokens) (trimTokens tokens) := by
  unfold trimTokens
  dsimp only
  apply post_bind (P := fun _ => True)
  · cases trimEnd tokens.reverse tokens.length <;> simp [Post]
  · intro e _
    split
    · simp
    · split
      · simp
      · simp only [post_ok]
        intro t ht
        exact List.mem_of_mem_drop (List.mem_of_mem_take ht)

theorem finish_good (st : PState) (h : AllGood S B st.nodes) : Post (fun r => AllGood S B r.nodes) (finish st) := by
  unfold finish
  repeat' split
  all_goals (try simp [h])
  all_goals (apply post_bind (P := fun _ => True))
  all_goals first
    | (cases rootLoop st.nodes (st.nodes.size + 1) 0 0 _ <;> simp [Post]; done)
    | (intro _ _; simp [h])

/-- every Symbol / ByteList node of the parse result carries an input token of that type (with the property the
input tokens of that type have) -/
theorem parse_good (tokens : List PToken) (ht : ∀ t ∈ tokens, TokGood S B t) :
    Post (fun r => AllGood S B r.nodes) (parse tokens) := by
  unfold parse
  apply post_bind (trimTokens_sub tokens)
  intro trimmed htr
  split
  · simpa using allGood_empty S B
  · apply post_bind (loop_good S B trimmed PState.init (by simpa [PState.init] using allGood_empty S B)
      (fun t h => ht t (htr t h)))
    intro st hst
    exact finish_good S B st hst
end

end Garnish.Model.Parser
