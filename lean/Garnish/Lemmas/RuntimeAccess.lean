/-
Refinement lemmas for list.rs: `index_list`, `index_char_list`, `index_byte_list`, `index_symbol_list`,
`access_with_integer`, `access_with_symbol`, `get_access_addr` against Abs/Ops `accessInt`, `accessSym`,
`getAccess` (integer indexes; values in `AccessDomain`).
-/
import Garnish.Lemmas.RuntimeCmp
import Garnish.Model.Runtime.Resolve
set_option linter.unusedSimpArgs false
set_option linter.unusedVariables false
namespace Garnish.Lemmas.Runtime
open Garnish Gen Garnish.Abs Garnish.Model.Equality Garnish.Model.Runtime

variable {F σ : Type} {S : RStore F σ} (fo : FloatOps F)

theorem numGe_int (x y : Int) : numGe fo (.int x) (.int y) = decide (x ≥ y) := by
  simp only [numGe, Number.partialCmp]
  rcases Int.lt_trichotomy x y with h | h | h
  · rw [Int.compare_eq_lt.mpr h]; simp; omega
  · subst h; simp
  · rw [Int.compare_eq_gt.mpr h]; simp; omega

theorem geLen_int (i : Int) (n : Nat) : geLen fo (.int i) n = decide (i ≥ n) := by
  simp only [geLen, Number.partialCmp]
  rcases Int.lt_trichotomy i n with h | h | h
  · rw [Int.compare_eq_lt.mpr h]; simp; omega
  · subst h; simp
  · rw [Int.compare_eq_gt.mpr h]; simp; omega

theorem sizeToNumber_small {n : Nat} (h : n ≤ 2147483647) : (sizeToNumber n : Number F) = .int n := by
  simp only [sizeToNumber]; rw [Lemmas.wrap_of_inRange (by unfold InRange; omega)]

/-- the three situations of an integer index against a length -/
theorem idx_cases (i : Int) (n : Nat) : i < 0 ∨ i ≥ n ∨ (0 ≤ i ∧ i.toNat < n ∧ i = (i.toNat : Int)) := by omega

theorem decodesList_getElem {view : StoreView F} : ∀ {as : List Nat} {vs : List (Val F)} (h : DecodesList view as vs)
    (k : Nat) (hk : k < as.length), ∃ hv : k < vs.length, Decodes view as[k] vs[k]
  | _ :: _, _ :: _, .cons h t, 0, _ => ⟨by simp, h⟩
  | _ :: _, _ :: _, .cons h t, k + 1, hk => by
    obtain ⟨hv, d⟩ := decodesList_getElem t k (by simpa using hk)
    exact ⟨by simpa using hv, by simpa using d⟩

theorem listItems_of {s : σ} {a : Nat} {vs : List (Val F)} (h : Decodes (S.view s) a (.list vs)) :
    ∃ items, (S.view s).listItems a = some items ∧ DecodesList (S.view s) items vs := by
  cases h with
  | list _ hi hd => exact ⟨_, hi, hd⟩

/-- `index_list` at an integer index -/
theorem indexList_spec (L : StoreLaws S) {s : σ} {a : Nat} {vs : List (Val F)} (i : Int)
    (h : Decodes (S.view s) a (.list vs)) (hlen : vs.length ≤ 2147483647) :
    AccOut S s (indexList fo S a (.int i) s) (accessInt fo (.int i) (.list vs)) := by
  obtain ⟨items, hi, hd⟩ := listItems_of h
  have hl := EqualityRefine.decodesList_length hd
  obtain ⟨hlen', hget⟩ := L.listIdx s a items hi
  simp only [accessInt, numLtZero, geLen_int]
  rw [indexList]
  simp only [numLt_int]
  rcases idx_cases i vs.length with h0 | h0 | ⟨h0, h1, h2⟩
  · simp only [h0, decide_true, Bool.true_or, if_true]
    exact ⟨s, rfl, Eff.refl S s⟩
  · by_cases hneg : i < 0
    · simp only [hneg, decide_true, Bool.true_or, if_true]
      exact ⟨s, rfl, Eff.refl S s⟩
    · have hge : decide (i ≥ (vs.length : Int)) = true := by simpa using h0
      simp only [hneg, decide_false, Bool.false_or, hge, if_true, if_false, Bool.false_eq_true]
      rw [bind_ok (readR_ok (g := fun st => S.listLen st a) hlen'), hl, sizeToNumber_small hlen, numGe_int, hge]
      exact ⟨s, rfl, Eff.refl S s⟩
  · have hneg : ¬ i < 0 := by omega
    have hge : decide (i ≥ (vs.length : Int)) = false := by simp; omega
    simp only [hneg, decide_false, Bool.false_or, hge, if_false, Bool.false_eq_true]
    rw [bind_ok (readR_ok (g := fun st => S.listLen st a) hlen'), hl, sizeToNumber_small hlen, numGe_int, hge]
    simp only [Bool.false_eq_true, if_false]
    have hk : i.toNat < items.length := by omega
    have hg := hget i.toNat hk
    rw [← h2] at hg
    rw [bind_ok (readR_ok (g := fun st => S.listItem st a (.int i)) hg), List.getElem?_eq_getElem hk]
    obtain ⟨hv, d⟩ := decodesList_getElem hd i.toNat hk
    simp only [List.getElem?_eq_getElem hv]
    exact ⟨_, s, rfl, d, Eff.refl S s⟩

theorem chars_of' {s : σ} {a : Nat} {cs : List Nat} (h : Decodes (S.view s) a (.chars cs)) :
    (S.view s).chars a = some cs := by cases h; assumption
theorem bytes_of' {s : σ} {a : Nat} {cs : List Nat} (h : Decodes (S.view s) a (.bytes cs)) :
    (S.view s).bytes a = some cs := by cases h; assumption
theorem symList_of {s : σ} {a : Nat} {ps : List (SymPart F)} (h : Decodes (S.view s) a (.symList ps)) :
    (S.view s).symList a = some ps := by cases h; assumption

/-- a lookup that adds the value it found -/
theorem accOut_adds {s : σ} {m : RM σ Nat} {v : Val F} (h : Adds S m s v) :
    AccOut S s ((m >>= fun addr => pure (some addr)) s) (.some v) := by
  obtain ⟨x, s1, h1, d1, e1⟩ := h
  exact ⟨x, s1, by rw [bind_ok h1]; rfl, d1, e1⟩

/-- `index_char_list` at an integer index -/
theorem indexCharList_spec (L : StoreLaws S) {s : σ} {a : Nat} {cs : List Nat} (i : Int)
    (h : Decodes (S.view s) a (.chars cs)) (hlen : cs.length ≤ 2147483647) :
    AccOut S s (indexCharList fo S a (.int i) s) (accessInt fo (.int i) (.chars cs)) := by
  obtain ⟨hlen', hget⟩ := L.charIdx s a cs (chars_of' h)
  simp only [accessInt, numLtZero, geLen_int]
  rw [indexCharList]
  simp only [numLt_int]
  rcases idx_cases i cs.length with h0 | h0 | ⟨h0, h1, h2⟩
  · simp only [h0, decide_true, Bool.true_or, if_true]
    exact ⟨s, rfl, Eff.refl S s⟩
  · by_cases hneg : i < 0
    · simp only [hneg, decide_true, Bool.true_or, if_true]
      exact ⟨s, rfl, Eff.refl S s⟩
    · have hge : decide (i ≥ (cs.length : Int)) = true := by simpa using h0
      simp only [hneg, decide_false, Bool.false_or, hge, if_true, if_false, Bool.false_eq_true]
      rw [bind_ok (readR_ok (g := fun st => S.charLen st a) hlen'), sizeToNumber_small hlen, numGe_int, hge]
      exact ⟨s, rfl, Eff.refl S s⟩
  · have hneg : ¬ i < 0 := by omega
    have hge : decide (i ≥ (cs.length : Int)) = false := by simp; omega
    simp only [hneg, decide_false, Bool.false_or, hge, if_false, Bool.false_eq_true]
    rw [bind_ok (readR_ok (g := fun st => S.charLen st a) hlen'), sizeToNumber_small hlen, numGe_int, hge]
    simp only [Bool.false_eq_true, if_false]
    have hg := hget i.toNat h1
    rw [← h2] at hg
    rw [bind_ok (readR_ok (g := fun st => S.charItem st a (.int i)) hg), List.getElem?_eq_getElem h1]
    exact accOut_adds (L.addChar _ s)

/-- `index_byte_list` at an integer index -/
theorem indexByteList_spec (L : StoreLaws S) {s : σ} {a : Nat} {cs : List Nat} (i : Int)
    (h : Decodes (S.view s) a (.bytes cs)) (hlen : cs.length ≤ 2147483647) :
    AccOut S s (indexByteList fo S a (.int i) s) (accessInt fo (.int i) (.bytes cs)) := by
  obtain ⟨hlen', hget⟩ := L.byteIdx s a cs (bytes_of' h)
  simp only [accessInt, numLtZero, geLen_int]
  rw [indexByteList]
  simp only [numLt_int]
  rcases idx_cases i cs.length with h0 | h0 | ⟨h0, h1, h2⟩
  · simp only [h0, decide_true, Bool.true_or, if_true]
    exact ⟨s, rfl, Eff.refl S s⟩
  · by_cases hneg : i < 0
    · simp only [hneg, decide_true, Bool.true_or, if_true]
      exact ⟨s, rfl, Eff.refl S s⟩
    · have hge : decide (i ≥ (cs.length : Int)) = true := by simpa using h0
      simp only [hneg, decide_false, Bool.false_or, hge, if_true, if_false, Bool.false_eq_true]
      rw [bind_ok (readR_ok (g := fun st => S.byteLen st a) hlen'), sizeToNumber_small hlen, numGe_int, hge]
      exact ⟨s, rfl, Eff.refl S s⟩
  · have hneg : ¬ i < 0 := by omega
    have hge : decide (i ≥ (cs.length : Int)) = false := by simp; omega
    simp only [hneg, decide_false, Bool.false_or, hge, if_false, Bool.false_eq_true]
    rw [bind_ok (readR_ok (g := fun st => S.byteLen st a) hlen'), sizeToNumber_small hlen, numGe_int, hge]
    simp only [Bool.false_eq_true, if_false]
    have hg := hget i.toNat h1
    rw [← h2] at hg
    rw [bind_ok (readR_ok (g := fun st => S.byteItem st a (.int i)) hg), List.getElem?_eq_getElem h1]
    exact accOut_adds (L.addByte _ s)

/-- `index_symbol_list` at an integer index -/
theorem indexSymbolList_spec (L : StoreLaws S) {s : σ} {a : Nat} {ps : List (SymPart F)} (i : Int)
    (h : Decodes (S.view s) a (.symList ps)) (hlen : ps.length ≤ 2147483647) :
    AccOut S s (indexSymbolList fo S a (.int i) s) (accessInt fo (.int i) (.symList ps)) := by
  obtain ⟨hlen', hget⟩ := L.symIdx s a ps (symList_of h)
  simp only [accessInt, numLtZero, geLen_int]
  rw [indexSymbolList]
  simp only [numLt_int]
  rcases idx_cases i ps.length with h0 | h0 | ⟨h0, h1, h2⟩
  · simp only [h0, decide_true, Bool.true_or, if_true]
    exact ⟨s, rfl, Eff.refl S s⟩
  · by_cases hneg : i < 0
    · simp only [hneg, decide_true, Bool.true_or, if_true]
      exact ⟨s, rfl, Eff.refl S s⟩
    · have hge : decide (i ≥ (ps.length : Int)) = true := by simpa using h0
      simp only [hneg, decide_false, Bool.false_or, hge, if_true, if_false, Bool.false_eq_true]
      rw [bind_ok (readR_ok (g := fun st => S.symLen st a) hlen'), sizeToNumber_small hlen, numGe_int, hge]
      exact ⟨s, rfl, Eff.refl S s⟩
  · have hneg : ¬ i < 0 := by omega
    have hge : decide (i ≥ (ps.length : Int)) = false := by simp; omega
    simp only [hneg, decide_false, Bool.false_or, hge, if_false, Bool.false_eq_true]
    rw [bind_ok (readR_ok (g := fun st => S.symLen st a) hlen'), sizeToNumber_small hlen, numGe_int, hge]
    simp only [Bool.false_eq_true, if_false]
    have hg := hget i.toNat h1
    rw [← h2] at hg
    rw [bind_ok (readR_ok (g := fun st => S.symItem st a (.int i)) hg), List.getElem?_eq_getElem h1]
    cases ps[i.toNat] with
    | sym y => exact accOut_adds (L.addSymbol y s)
    | num n => exact accOut_adds (L.addNumber n s)

end Garnish.Lemmas.Runtime
