/-
Relativised step theorem, group 2: `MachOKOn2`, `refine_step_on2`.
-/
import Garnish.Lemmas.RuntimeOnStep4
set_option linter.unusedSimpArgs false
set_option linter.unusedVariables false
namespace Garnish.Lemmas.Runtime.On
open Garnish Gen Garnish.Abs Garnish.Model.Equality Garnish.Model.Runtime Garnish.Lemmas.Runtime
open Garnish.Props.RuntimeRefine

variable {F σ : Type} {S : RStore F σ} {Inv : σ → Prop} {Rd : σ → Nat → Prop} {P : Prog F} {host : Host F}
  (fo : FloatOps F)

theorem MDeepN.drop {m : MState F} {n : Nat} (h : MDeepN m n) (hn : n ≤ m.regs.length) : MDeep m (m.regs.drop n) :=
  fun fr frs hf => by have := h fr frs hf; simp; omega

/-- group 2: comparisons, `MakePair`, `MakeList`, `Concat`, the four ranges, `PartialApply` -/
def MachOKOn2 (P : Prog F) (fuel : Nat) (m : MState F) (instr : Instruction) (operand : Option Nat) : Prop :=
  match instr with
  | .lessThan | .lessThanOrEqual | .greaterThan | .greaterThanOrEqual =>
    MDeepN m 2 ∧ ∀ vr vl rs, m.regs = vr :: vl :: rs → CompareDomain fo fuel vl vr
  | .makePair | .partialApply | .makeRange | .makeStartExclusiveRange | .makeEndExclusiveRange
  | .makeExclusiveRange => MDeepN m 2
  | .concat => MDeepN m 2 ∧ ∀ vr vl rs, m.regs = vr :: vl :: rs →
      (∀ x y, vl ≠ .slice x y) ∧ (∀ x y, vr ≠ .slice x y)
  | .makeList => ∀ n, operand = some n → MDeepN m n
  | _ => MachOKOn1 P m instr operand

theorem refine_step_on2 (L : StoreLawsOn S Inv Rd) (HR : HostRefinesI S Inv host) (fuel : Nat) (H : OtherHandlers σ)
    {s : σ} {m : MState F} (hsim : Sim S P s m) (hi : Inv s) (hl : Loaded S P s) {instr : Instruction}
    {operand : Option Nat} (hfetch : P.instrs[m.pc]? = some (instr, operand))
    (hok : MachOKOn2 fo P fuel m instr operand) : StepSimOn fo host S Inv P fuel H s m := by
  have cmp : (instr = .lessThan ∨ instr = .lessThanOrEqual ∨ instr = .greaterThan ∨ instr = .greaterThanOrEqual) →
      isGeneric instr = true → (∀ v : Val F, unaryOp fo instr v = none) → MDeepN m 2 →
      (∀ vr vl rs, m.regs = vr :: vl :: rs → CompareDomain fo fuel vl vr) → StepSimOn fo host S Inv P fuel H s m :=
    fun hop hg hu hm hdom => total_binary fo fuel H s hfetch hg hu (fun vr vl rs hr => by
      obtain ⟨h1, h2, h3, h4⟩ := hdom vr vl rs hr
      exact stepSim_compare fo L HR fuel H hsim hop hfetch hr hi (hm.two hr) h1 h2 h3 h4)
  have rng : ∀ se ee, instr = rangeInstr se ee → isGeneric instr = true → (∀ v : Val F, unaryOp fo instr v = none) →
      MDeepN m 2 → StepSimOn fo host S Inv P fuel H s m :=
    fun se ee hop hg hu hm => total_binary fo fuel H s hfetch hg hu
      (fun vr vl rs hr => stepSim_make_range fo L HR fuel H hsim se ee hop hfetch hr hi (hm.two hr))
  cases instr
  case lessThan => exact cmp (Or.inl rfl) rfl (fun _ => rfl) hok.1 hok.2
  case lessThanOrEqual => exact cmp (Or.inr (Or.inl rfl)) rfl (fun _ => rfl) hok.1 hok.2
  case greaterThan => exact cmp (Or.inr (Or.inr (Or.inl rfl))) rfl (fun _ => rfl) hok.1 hok.2
  case greaterThanOrEqual => exact cmp (Or.inr (Or.inr (Or.inr rfl))) rfl (fun _ => rfl) hok.1 hok.2
  case makeRange => exact rng false false rfl rfl (fun _ => rfl) hok
  case makeStartExclusiveRange => exact rng true false rfl rfl (fun _ => rfl) hok
  case makeEndExclusiveRange => exact rng false true rfl rfl (fun _ => rfl) hok
  case makeExclusiveRange => exact rng true true rfl rfl (fun _ => rfl) hok
  case partialApply =>
    exact total_binary fo fuel H s hfetch rfl (fun _ => rfl)
      (fun vr vl rs hr => stepSim_partialApply fo L HR fuel H hsim hfetch hr hi (MDeepN.two hok hr))
  case concat =>
    exact total_binary fo fuel H s hfetch rfl (fun _ => rfl)
      (fun vr vl rs hr => stepSim_concat fo L HR fuel H hsim hfetch hr hi (hok.1.two hr) (hok.2 vr vl rs hr).1
        (hok.2 vr vl rs hr).2)
  case makePair =>
    cases hr : m.regs with
    | nil => machine_errs_on fo, fuel, H, s, hfetch, .state, [hr]
    | cons vl t =>
      cases t with
      | nil => machine_errs_on fo, fuel, H, s, hfetch, .state, [hr]
      | cons vr rs => exact stepSim_makePair fo L fuel H hsim hfetch hr hi (MDeepN.two hok hr)
  case makeList =>
    cases operand with
    | none => machine_errs_on fo, fuel, H, s, hfetch, .implementation, []
    | some n =>
      by_cases hn : n ≤ m.regs.length
      · exact stepSim_makeList fo L fuel H hsim hfetch hn hi ((hok n rfl).drop hn)
      · have : n > m.regs.length := by omega
        machine_errs_on fo, fuel, H, s, hfetch, .state, [this]
  all_goals exact refine_step_on1 fo L HR fuel H hsim hi hl hfetch hok

end Garnish.Lemmas.Runtime.On
