/-
Array-level insertion lemma, general form: like `walk_insert` (ParserSim.lean) but the new operator's right operand is an
arbitrary subtree `sub` hanging at index `n+1` (a chain of prefix operators ending in a value) instead of a single leaf.
-/
import Garnish.Lemmas.ParserGTree
import Garnish.Lemmas.ParserSim

namespace Garnish.Spec
open Garnish Garnish.Gen Garnish.Model.Parser

/-- the operator node `n` (parent `par`, `left = llink`, `right = rlink`) and the operand subtree `sub` hanging at `rlink`
    (`rlink = some (n+1)` for a binary operator, `none` with `sub = nil` for a suffix operator) -/
structure NewOpS (arr : Array ParseNode) (n ko : Nat) (sub : Tree) (par llink rlink : Option Nat) : Prop where
  op : ∃ on, arr[n]? = some on ∧ on.parent = par ∧ on.left = llink ∧ on.right = rlink ∧ tokPos on = ko
  sub : IsTreeAt arr (some n) rlink sub

theorem newOpS_isTreeAt {arr : Array ParseNode} {n ko : Nat} {sub : Tree} {par llink rlink : Option Nat} {s : Tree}
    (hnew : NewOpS arr n ko sub par llink rlink) (hs : IsTreeAt arr (some n) llink s) :
    IsTreeAt arr par (some n) (newOpS s n ko sub) := by
  obtain ⟨on, h1, h2, h3, h4, h5⟩ := hnew.op
  refine isTreeAt_node on h1 h2 (by rw [h3]; exact hs) ?_ h5
  rw [h4]
  exact hnew.sub

/-- **the walk and the insertion**: for a subtree `t` hanging at `link = some i` -/
theorem walk_insertS (nodes : Array ParseNode) (q : Nat) (rtl : Bool) (n ko : Nat) (sub : Tree) (rlink : Option Nat) :
    ∀ {p link : Option Nat} {t : Tree}, IsTreeAt nodes p link t → ∀ i, link = some i → t.inorder.Nodup →
      bottomOK (prioAt nodes) q rtl t → ∀ tl0 : Option Nat,
      (∀ tl x, walkSpec nodes q rtl tl0 (rspineUp t) = (tl, some x) →
        ∃ tlv t' nx, tl = some tlv ∧ tlv ∈ t.inorder ∧ x ∈ t.inorder ∧ tlv ≠ x ∧ nodes[x]? = some nx ∧
          nx.right = some tlv ∧ absorbS (prioAt nodes) q rtl n ko sub t = some t' ∧
          ∀ arr : Array ParseNode, (∀ j ∈ t.inorder, j ≠ tlv → j ≠ x → arr[j]? = nodes[j]?) →
            arr[tlv]? = (nodes[tlv]?).map (setParent (some n)) → arr[x]? = (nodes[x]?).map (setRight (some n)) →
            NewOpS arr n ko sub (some x) (some tlv) rlink → IsTreeAt arr p link t') ∧
      (∀ tl, walkSpec nodes q rtl tl0 (rspineUp t) = (tl, none) →
        tl = some i ∧ absorbS (prioAt nodes) q rtl n ko sub t = none ∧
          ∀ arr : Array ParseNode, (∀ j ∈ t.inorder, j ≠ i → arr[j]? = nodes[j]?) →
            arr[i]? = (nodes[i]?).map (setParent (some n)) → IsTreeAt arr (some n) link t) := by
  intro p link t h
  induction h with
  | nil p => intro i hi; cases hi
  | node p i nd l r hn hpar hl hr _ ihr =>
    intro i' hi' hnd hbot tl0
    injection hi' with hi'; subst hi'
    simp only [Tree.inorder] at hnd
    rw [List.nodup_append] at hnd
    obtain ⟨ndl, ndir, hdisj⟩ := hnd
    rw [List.nodup_cons] at ndir
    obtain ⟨hir, ndr⟩ := ndir
    have hil : i ∉ l.inorder := fun hm => hdisj i hm i (List.mem_cons_self ..) rfl
    -- the reparented version of the whole subtree (used in both `none` conclusions)
    have reparent : ∀ arr : Array ParseNode,
        (∀ j ∈ (Tree.node l i (tokPos nd) r).inorder, j ≠ i → arr[j]? = nodes[j]?) →
        arr[i]? = (nodes[i]?).map (setParent (some n)) →
        IsTreeAt arr (some n) (some i) (.node l i (tokPos nd) r) := by
      intro arr hfr hi
      rw [hn] at hi
      refine isTreeAt_node (setParent (some n) nd) hi rfl ?_ ?_ rfl
      · exact hl.frame (fun j hj => hfr j (by simp [Tree.inorder, hj]) (fun e => hil (e ▸ hj)))
      · exact hr.frame (fun j hj => hfr j (by simp [Tree.inorder, hj]) (fun e => hir (e ▸ hj)))
    cases hrl : nd.right with
    | none =>
      rw [hrl] at hr
      cases hr
      simp only [bottomOK] at hbot
      have hstop : (decide (q < prioAt nodes i) || (q == prioAt nodes i && rtl)) = false := hbot
      simp only [rspineUp, List.nil_append, walkSpec, hstop, Bool.false_eq_true, if_false]
      constructor
      · intro tl x hw; injection hw with _ h2; cases h2
      · intro tl hw
        injection hw with h1 _
        refine ⟨h1.symm, ?_, reparent⟩
        simp [absorbS, hbot]
    | some ri =>
      have hr' := hr
      rw [hrl] at hr'
      have hrne : r ≠ .nil := by intro e; subst e; cases hr'
      have hbotr : bottomOK (prioAt nodes) q rtl r := by
        cases r with
        | nil => exact absurd rfl hrne
        | node rl rj rk rr => simpa [bottomOK] using hbot
      obtain ⟨ihS, ihN⟩ := ihr ri hrl ndr hbotr tl0
      simp only [rspineUp, walkSpec_append]
      cases hw : walkSpec nodes q rtl tl0 (rspineUp r) with
      | mk tlr parr =>
        cases parr with
        | some x =>
          obtain ⟨tlv, r', nx, e1, m1, m2, ne, hx, hxr, habs, harr⟩ := ihS tlr x hw
          constructor
          · intro tl x' hw'
            simp only at hw'
            injection hw' with h1 h2
            injection h2 with h2
            subst h1; subst h2
            refine ⟨tlv, .node l i (tokPos nd) r', nx, e1, by simp [Tree.inorder, m1], by simp [Tree.inorder, m2], ne, hx,
              hxr, by simp [absorbS, habs], ?_⟩
            intro arr hfr htl hxx hnew
            have hitl : i ≠ tlv := fun e => hir (e ▸ m1)
            have hix : i ≠ x := fun e => hir (e ▸ m2)
            refine isTreeAt_node nd (by rw [hfr i (by simp [Tree.inorder]) hitl hix]; exact hn) hpar ?_ ?_ rfl
            · exact hl.frame (fun j hj => hfr j (by simp [Tree.inorder, hj])
                (fun e => hdisj j hj tlv (List.mem_cons_of_mem _ m1) e)
                (fun e => hdisj j hj x (List.mem_cons_of_mem _ m2) e))
            · exact harr arr (fun j hj => hfr j (by simp [Tree.inorder, hj])) htl hxx hnew
          · intro tl hw'; simp only at hw'; injection hw' with _ h2; cases h2
        | none =>
          obtain ⟨etl, habs, harr⟩ := ihN tlr hw
          subst etl
          simp only [walkSpec]
          by_cases hs : (decide (q < prioAt nodes i) || (q == prioAt nodes i && rtl)) = true
          · simp only [hs, if_true]
            constructor
            · intro tl x' hw'
              injection hw' with h1 h2
              injection h2 with h2
              subst h1; subst h2
              have hri : ri ∈ r.inorder := hr'.root_mem
              have hne : ri ≠ i := fun e => hir (e ▸ hri)
              refine ⟨ri, .node l i (tokPos nd) (newOpS r n ko sub), nd, rfl, by simp [Tree.inorder, hri],
                by simp [Tree.inorder], hne, hn, hrl, ?_, ?_⟩
              · have : stops q rtl (prioAt nodes i) = true := hs
                simp [absorbS, habs, this]
              · intro arr hfr htl hxx hnew
                rw [hn] at hxx
                refine isTreeAt_node (setRight (some n) nd) hxx hpar ?_ ?_ rfl
                · exact hl.frame (fun j hj => hfr j (by simp [Tree.inorder, hj])
                    (fun e => hdisj j hj ri (List.mem_cons_of_mem _ hri) e) (fun e => hil (e ▸ hj)))
                · show IsTreeAt arr (some i) (some n) (newOpS r n ko sub)
                  refine newOpS_isTreeAt hnew ?_
                  have := harr arr (fun j hj hjr => hfr j (by simp [Tree.inorder, hj]) hjr (fun e => hir (e ▸ hj))) htl
                  rw [hrl] at this
                  exact this
            · intro tl hw'; injection hw' with _ h2; cases h2
          · have hs' : (decide (q < prioAt nodes i) || (q == prioAt nodes i && rtl)) = false := by
              simpa using hs
            simp only [hs', Bool.false_eq_true, if_false]
            constructor
            · intro tl x' hw'; injection hw' with _ h2; cases h2
            · intro tl hw'
              injection hw' with h1 _
              have : stops q rtl (prioAt nodes i) = false := hs'
              exact ⟨h1.symm, by simp [absorbS, habs, this], reparent⟩

end Garnish.Spec
