/-
C04, builder half — the order of the out-of-line parts, part 15: the two-visit handlers keep `LInv`.
-/
import Garnish.Lemmas.BuildLifo14
namespace Garnish.Lemmas.BuildSeq
open Garnish Garnish.Gen Garnish.Model.Parser Garnish.Model.Literals Garnish.Model.Build Garnish.Lemmas.Build
open Garnish.Lemmas.BuildTotal
open Garnish.Lemmas.BuildAttr (getNode_sat_eq setNodeIdx_sat_eq AddMeta)

variable {F : Type} {root : Nat} {tree : Array ParseNode} {G : Nat → Prop} {m0 : Nat}

section pre
variable {ph : Nat → Phase} {ctx : Ctx F} {ni : Nat} {pn : ParseNode}

theorem handleUnaryPrefix_lifo (p : PreL root tree G m0 ph ctx ni pn)
    (hd : pn.definition ≠ .group ∧ pn.definition ≠ .nestedExpression) (hnl : isLate pn.definition = false)
    (hk : layout pn.definition = .rn) (hnse : pn.definition ≠ .sideEffect) (hne : pn.definition ≠ .elseJump) (ins : Instruction) :
    Sat (PostL root tree G m0 ph) (handleUnaryPrefix ins ctx ni pn) := by
  unfold handleUnaryPrefix
  have hnool := oolR_false hnl hd.2
  have hnlog := not_logical hnl
  refine sat_bind (getNode_sat_eq ctx.nodes ni) (fun node hnode => ?_)
  have hpni := p.pre.pni hnode
  cases hst : node.state with
  | uninitialized =>
    dsimp only
    cases hr : pn.right with
    | none => exact sat_buildErr
    | some r =>
      dsimp only
      have hrlt := p.pre.child_lt (p.pre.childR hr)
      have hcR : NCP tree G root r := p.ncp (Or.inr hr) hne (fun ⟨h, _⟩ => by rw [hnlog] at h; cases h)
      simp only [setNodeIdx_eq, size_putNode, hrlt, bind_ok, sat_ok, hpni]
      exact p.firstVisit hnode hst hd [r] [ni, r] [(ni, _), (r, _)] [] (by simp) (fun m hm => by cases hm) (by simp) rfl rfl
        (by list_tac) (by list_tac) (by simp) (by simp) (by list_tac)
        (by child_tac p.pre, hnl) (by asgp_tac) (by asg_tac) ⟨_, List.mem_cons_self⟩ (by asgu_tac) (by asgall_tac)
        (conf_layout p.pre.hpn (pn.left) (some r) rfl hr .rn hk .p2 (fun _ => rfl) [r] [ni, r] rfl (fun c => by simp [csOf]))
        (by simp) (fun h => absurd h hnse)
        (all_layout p.pre.hpn (pn.left) (some r) rfl hr .rn hk [r] (fun c => by simp [csOf])) (by cp_tac hcR, hcR, rfl)
  | initialized =>
    dsimp only
    exact p.lastVisit [] [some ni] (by simp [pushInstr, hpni]) (by hl_tac) rfl rfl rfl (fun q hq => by cases hq)
      (fun q hq => by cases hq) (fun h => absurd h hnse)
      (fun h => absurd h (p.notP1 hnode hst)) (nool_last hnool rfl) (fun h => absurd h hne) (fun h => absurd h hd.1)

theorem handleUnarySuffix_lifo (p : PreL root tree G m0 ph ctx ni pn)
    (hd : pn.definition ≠ .group ∧ pn.definition ≠ .nestedExpression) (hnl : isLate pn.definition = false)
    (hk : layout pn.definition = .ln) (hnse : pn.definition ≠ .sideEffect) (hne : pn.definition ≠ .elseJump) (ins : Instruction) :
    Sat (PostL root tree G m0 ph) (handleUnarySuffix ins ctx ni pn) := by
  unfold handleUnarySuffix
  have hnool := oolR_false hnl hd.2
  have hnlog := not_logical hnl
  refine sat_bind (getNode_sat_eq ctx.nodes ni) (fun node hnode => ?_)
  have hpni := p.pre.pni hnode
  cases hst : node.state with
  | uninitialized =>
    dsimp only
    cases hl : pn.left with
    | none => exact sat_buildErr
    | some l =>
      dsimp only
      have hllt := p.pre.child_lt (p.pre.childL hl)
      have hcL : NCP tree G root l := p.ncp (Or.inl hl) hne (fun ⟨h, _⟩ => by rw [hnlog] at h; cases h)
      simp only [setNodeIdx_eq, size_putNode, hllt, bind_ok, sat_ok, hpni]
      exact p.firstVisit hnode hst hd [l] [ni, l] [(ni, _), (l, _)] [] (by simp) (fun m hm => by cases hm) (by simp) rfl rfl
        (by list_tac) (by list_tac) (by simp) (by simp) (by list_tac)
        (by child_tac p.pre, hnl) (by asgp_tac) (by asg_tac) ⟨_, List.mem_cons_self⟩ (by asgu_tac) (by asgall_tac)
        (conf_layout p.pre.hpn (some l) (pn.right) hl rfl .ln hk .p2 (fun _ => rfl) [l] [ni, l] rfl (fun c => by simp [csOf]))
        (by simp) (fun h => absurd h hnse)
        (all_layout p.pre.hpn (some l) (pn.right) hl rfl .ln hk [l] (fun c => by simp [csOf])) (by cp_tac hcL, hcL, rfl)
  | initialized =>
    dsimp only
    exact p.lastVisit [] [some ni] (by simp [pushInstr, hpni]) (by hl_tac) rfl rfl rfl (fun q hq => by cases hq)
      (fun q hq => by cases hq) (fun h => absurd h hnse)
      (fun h => absurd h (p.notP1 hnode hst)) (nool_last hnool rfl) (fun h => absurd h hne) (fun h => absurd h hd.1)

theorem handleBinaryOperationWithPush_lifo (p : PreL root tree G m0 ph ctx ni pn)
    (hd : pn.definition ≠ .group ∧ pn.definition ≠ .nestedExpression) (hnl : isLate pn.definition = false)
    (ins : Instruction) (lr : Bool) (hk : layout pn.definition = if lr then .rln else .lrn) (hnse : pn.definition ≠ .sideEffect) (hne : pn.definition ≠ .elseJump) :
    Sat (PostL root tree G m0 ph) (handleBinaryOperationWithPush ins lr ctx ni pn) := by
  unfold handleBinaryOperationWithPush
  have hnool := oolR_false hnl hd.2
  have hnlog := not_logical hnl
  refine sat_bind (getNode_sat_eq ctx.nodes ni) (fun node hnode => ?_)
  have hpni := p.pre.pni hnode
  cases hst : node.state with
  | uninitialized =>
    dsimp only
    cases hr : pn.right with
    | none => exact sat_buildErr
    | some r =>
      cases hl : pn.left with
      | none => exact sat_buildErr
      | some l =>
        dsimp only
        have hrlt := p.pre.child_lt (p.pre.childR hr)
        have hllt := p.pre.child_lt (p.pre.childL hl)
        have hne' := p.pre.lr_ne hl hr
        have hcR : NCP tree G root r := p.ncp (Or.inr hr) hne (fun ⟨h, _⟩ => by rw [hnlog] at h; cases h)
        have hcL : NCP tree G root l := p.ncp (Or.inl hl) hne (fun ⟨h, _⟩ => by rw [hnlog] at h; cases h)
        simp only [setNodeIdx_eq, size_putNode, hrlt, hllt, bind_ok, sat_ok, hpni]
        cases lr
        · have hk : layout pn.definition = .lrn := hk
          exact p.firstVisit hnode hst hd [r, l] [ni, r, l] [(ni, _), (r, _), (l, _)] [] (by simp) (fun m hm => by cases hm) (by simp) rfl rfl
            (by list_tac) (by list_tac) (by list_tac) (by simp) (by list_tac)
            (by child_tac p.pre, hnl) (by asgp_tac) (by asg_tac) ⟨_, List.mem_cons_self⟩ (by asgu_tac) (by asgall_tac)
            (conf_layout p.pre.hpn (some l) (some r) hl hr .lrn hk .p2 (fun _ => rfl) [r, l] [ni, r, l] rfl (fun c => by simp [csOf]))
            (by simp) (fun h => absurd h hnse)
            (all_layout p.pre.hpn (some l) (some r) hl hr .lrn hk [r, l] (fun c => by simp [csOf])) (by cp_tac hcR, hcL, rfl)
        · have hk : layout pn.definition = .rln := hk
          exact p.firstVisit hnode hst hd [r, l] [ni, l, r] [(ni, _), (r, _), (l, _)] [] (by simp) (fun m hm => by cases hm) (by simp) rfl rfl
            (by list_tac) (by list_tac) (by list_tac) (by simp) (by list_tac)
            (by child_tac p.pre, hnl) (by asgp_tac) (by asg_tac) ⟨_, List.mem_cons_self⟩ (by asgu_tac) (by asgall_tac)
            (conf_layout p.pre.hpn (some l) (some r) hl hr .rln hk .p2 (fun _ => rfl) [r, l] [ni, l, r] rfl (fun c => by simp [csOf]))
            (by simp) (fun h => absurd h hnse)
            (all_layout p.pre.hpn (some l) (some r) hl hr .rln hk [r, l] (fun c => by simp [csOf])) (by cp_tac hcR, hcL, rfl)
  | initialized =>
    dsimp only
    exact p.lastVisit [] [some ni] (by simp [pushInstr, hpni]) (by hl_tac) rfl rfl rfl (fun q hq => by cases hq)
      (fun q hq => by cases hq) (fun h => absurd h hnse)
      (fun h => absurd h (p.notP1 hnode hst)) (nool_last hnool rfl) (fun h => absurd h hne) (fun h => absurd h hd.1)

theorem handleReapply_lifo (p : PreL root tree G m0 ph ctx ni pn)
    (hd : pn.definition ≠ .group ∧ pn.definition ≠ .nestedExpression) (hnl : isLate pn.definition = false)
    (hk : layout pn.definition = .rn) (hnse : pn.definition ≠ .sideEffect) (hne : pn.definition ≠ .elseJump) :
    Sat (PostL root tree G m0 ph) (handleReapply ctx ni pn) := by
  unfold handleReapply
  have hnool := oolR_false hnl hd.2
  have hnlog := not_logical hnl
  refine sat_bind (getNode_sat_eq ctx.nodes ni) (fun node hnode => ?_)
  have hpni := p.pre.pni hnode
  cases hst : node.state with
  | uninitialized =>
    dsimp only
    cases hr : pn.right with
    | none => exact sat_buildErr
    | some r =>
      dsimp only
      have hrlt := p.pre.child_lt (p.pre.childR hr)
      have hcR : NCP tree G root r := p.ncp (Or.inr hr) hne (fun ⟨h, _⟩ => by rw [hnlog] at h; cases h)
      simp only [setNodeIdx_eq, size_putNode, hrlt, bind_ok, sat_ok, hpni]
      exact p.firstVisit hnode hst hd [r] [ni, r] [(ni, _), (r, _)] [] (by simp) (fun m hm => by cases hm) (by simp) rfl rfl
        (by list_tac) (by list_tac) (by simp) (by simp) (by list_tac)
        (by child_tac p.pre, hnl) (by asgp_tac) (by asg_tac) ⟨_, List.mem_cons_self⟩ (by asgu_tac) (by asgall_tac)
        (conf_layout p.pre.hpn (pn.left) (some r) rfl hr .rn hk .p2 (fun _ => rfl) [r] [ni, r] rfl (fun c => by simp [csOf]))
        (by simp) (fun h => absurd h hnse)
        (all_layout p.pre.hpn (pn.left) (some r) rfl hr .rn hk [r] (fun c => by simp [csOf])) (by cp_tac hcR, hcR, rfl)
  | initialized =>
    dsimp only
    exact p.lastVisit [] [some ni, some ni] (by simp [pushInstr]) (by hl_tac) rfl rfl rfl (fun q hq => by cases hq)
      (fun q hq => by cases hq) (fun h => absurd h hnse)
      (fun h => absurd h (p.notP1 hnode hst)) (nool_last hnool rfl) (fun h => absurd h hne) (fun h => absurd h hd.1)

theorem handleSubexpression_lifo (p : PreL root tree G m0 ph ctx ni pn)
    (hd : pn.definition ≠ .group ∧ pn.definition ≠ .nestedExpression) (hnl : isLate pn.definition = false)
    (hk : layout pn.definition = .lnr) (hnse : pn.definition ≠ .sideEffect) (hne : pn.definition ≠ .elseJump) :
    Sat (PostL root tree G m0 ph) (handleSubexpression ctx ni pn) := by
  unfold handleSubexpression
  have hnool := oolR_false hnl hd.2
  have hnlog := not_logical hnl
  refine sat_bind (getNode_sat_eq ctx.nodes ni) (fun node hnode => ?_)
  have hpni := p.pre.pni hnode
  cases hst : node.state with
  | uninitialized =>
    dsimp only
    cases hr : pn.right with
    | none => exact sat_buildErr
    | some r =>
      cases hl : pn.left with
      | none => exact sat_buildErr
      | some l =>
        dsimp only
        have hrlt := p.pre.child_lt (p.pre.childR hr)
        have hllt := p.pre.child_lt (p.pre.childL hl)
        have hne' := p.pre.lr_ne hl hr
        have hcR : NCP tree G root r := p.ncp (Or.inr hr) hne (fun ⟨h, _⟩ => by rw [hnlog] at h; cases h)
        have hcL : NCP tree G root l := p.ncp (Or.inl hl) hne (fun ⟨h, _⟩ => by rw [hnlog] at h; cases h)
        simp only [setNodeIdx_eq, size_putNode, hrlt, hllt, bind_ok, sat_ok, hpni]
        exact p.firstVisit hnode hst hd [r, l] [r, ni, l] [(ni, _), (r, _), (l, _)] [] (by simp) (fun m hm => by cases hm) (by simp) rfl rfl
          (by list_tac) (by list_tac) (by list_tac) (by simp) (by list_tac)
          (by child_tac p.pre, hnl) (by asgp_tac) (by asg_tac) ⟨_, List.mem_cons_self⟩ (by asgu_tac) (by asgall_tac)
          (conf_layout p.pre.hpn (some l) (some r) hl hr .lnr hk .p2 (fun _ => rfl) [r, l] [r, ni, l] rfl (fun c => by simp [csOf]))
          (by simp) (fun h => absurd h hnse)
          (all_layout p.pre.hpn (some l) (some r) hl hr .lnr hk [r, l] (fun c => by simp [csOf])) (by cp_tac hcR, hcL, rfl)
  | initialized =>
    dsimp only
    exact p.lastVisit [] [some ni] (by simp [pushInstr]) (by hl_tac) rfl rfl rfl (fun q hq => by cases hq)
      (fun q hq => by cases hq) (fun h => absurd h hnse)
      (fun h => absurd h (p.notP1 hnode hst)) (nool_last hnool rfl) (fun h => absurd h hne) (fun h => absurd h hd.1)

theorem handleInfixApply_lifo (p : PreL root tree G m0 ph ctx ni pn)
    (hd : pn.definition ≠ .group ∧ pn.definition ≠ .nestedExpression) (hnl : isLate pn.definition = false)
    (hk : layout pn.definition = .lrn) (hnse : pn.definition ≠ .sideEffect) (hne : pn.definition ≠ .elseJump) :
    Sat (PostL root tree G m0 ph) (handleInfixApply ctx ni pn) := by
  unfold handleInfixApply
  have hnool := oolR_false hnl hd.2
  have hnlog := not_logical hnl
  refine sat_bind (getNode_sat_eq ctx.nodes ni) (fun node hnode => ?_)
  have hpni := p.pre.pni hnode
  cases hst : node.state with
  | uninitialized =>
    dsimp only
    cases hr : pn.right with
    | none => exact sat_buildErr
    | some r =>
      cases hl : pn.left with
      | none => exact sat_buildErr
      | some l =>
        dsimp only
        have hrlt := p.pre.child_lt (p.pre.childR hr)
        have hllt := p.pre.child_lt (p.pre.childL hl)
        have hne' := p.pre.lr_ne hl hr
        have hcR : NCP tree G root r := p.ncp (Or.inr hr) hne (fun ⟨h, _⟩ => by rw [hnlog] at h; cases h)
        have hcL : NCP tree G root l := p.ncp (Or.inl hl) hne (fun ⟨h, _⟩ => by rw [hnlog] at h; cases h)
        simp only [setNodeIdx_eq, size_putNode, hrlt, hllt, bind_ok, sat_ok, hpni]
        exact p.firstVisit hnode hst hd [r, l] [ni, r, l] [(ni, _), (r, _), (l, _)] [none] (by simp [pushInstr, parseAddSymbol, addConst]) (by hl_tac) (by simp) rfl rfl
          (by list_tac) (by list_tac) (by list_tac) (by simp) (by list_tac)
          (by child_tac p.pre, hnl) (by asgp_tac) (by asg_tac) ⟨_, List.mem_cons_self⟩ (by asgu_tac) (by asgall_tac)
          (conf_layout p.pre.hpn (some l) (some r) hl hr .lrn hk .p2 (fun _ => rfl) [r, l] [ni, r, l] rfl (fun c => by simp [csOf]))
          (by simp) (fun h => absurd h hnse)
          (all_layout p.pre.hpn (some l) (some r) hl hr .lrn hk [r, l] (fun c => by simp [csOf])) (by cp_tac hcR, hcL, rfl)
  | initialized =>
    dsimp only
    exact p.lastVisit [] [none, some ni] (by simp [pushInstr]) (by hl_tac) rfl rfl rfl (fun q hq => by cases hq)
      (fun q hq => by cases hq) (fun h => absurd h hnse)
      (fun h => absurd h (p.notP1 hnode hst)) (nool_last hnool rfl) (fun h => absurd h hne) (fun h => absurd h hd.1)

theorem handleSideEffect_lifo (p : PreL root tree G m0 ph ctx ni pn)
    (hd : pn.definition ≠ .group ∧ pn.definition ≠ .nestedExpression) (hnl : isLate pn.definition = false)
    (hdef : pn.definition = .sideEffect) :
    Sat (PostL root tree G m0 ph) (handleSideEffect ctx ni pn) := by
  unfold handleSideEffect
  have hk : layout pn.definition = .rn := layout_sideEffect hdef
  have hne : pn.definition ≠ .elseJump := by rw [hdef]; decide
  have hnool := oolR_false hnl hd.2
  have hnlog := not_logical hnl
  refine sat_bind (getNode_sat_eq ctx.nodes ni) (fun node hnode => ?_)
  have hpni := p.pre.pni hnode
  cases hst : node.state with
  | uninitialized =>
    dsimp only
    cases hr : pn.right with
    | none =>
      dsimp only
      simp only [sat_ok, hpni]
      exact p.firstVisit hnode hst hd [] [ni] [(ni, _)] [some ni] (by simp [pushInstr]) (by hl_tac) (by simp) rfl rfl
        (by list_tac) (by list_tac) (by simp) (by simp) (fun c hc => by cases hc)
        (fun c hc => by cases hc) (by asgp_tac) (by asg_tac) ⟨_, List.mem_cons_self⟩ (by asgu_tac) (fun c hc => by cases hc)
        (conf_layout p.pre.hpn (pn.left) (none) rfl hr .rn hk .p2 (fun _ => rfl) [] [ni] rfl (fun c => by simp [csOf]))
        (fun _ => hdef) (fun _ => by simp)
        (all_layout p.pre.hpn (pn.left) (none) rfl hr .rn hk [] (fun c => by simp [csOf])) (by cp_tac trivial, trivial, rfl)
    | some r =>
      dsimp only
      have hrlt := p.pre.child_lt (p.pre.childR hr)
      have hcR : NCP tree G root r := p.ncp (Or.inr hr) hne (fun ⟨h, _⟩ => by rw [hnlog] at h; cases h)
      simp only [setNodeIdx_eq, size_putNode, hrlt, bind_ok, sat_ok, hpni]
      exact p.firstVisit hnode hst hd [r] [ni, r] [(ni, _), (r, _)] [some ni] (by simp [pushInstr]) (by hl_tac) (by simp) rfl rfl
        (by list_tac) (by list_tac) (by simp) (by simp) (by list_tac)
        (by child_tac p.pre, hnl) (by asgp_tac) (by asg_tac) ⟨_, List.mem_cons_self⟩ (by asgu_tac) (by asgall_tac)
        (conf_layout p.pre.hpn (pn.left) (some r) rfl hr .rn hk .p2 (fun _ => rfl) [r] [ni, r] rfl (fun c => by simp [csOf]))
        (fun _ => hdef) (fun _ => by simp)
        (all_layout p.pre.hpn (pn.left) (some r) rfl hr .rn hk [r] (fun c => by simp [csOf])) (by cp_tac hcR, hcR, rfl)
  | initialized =>
    dsimp only
    exact p.lastVisit [] [some ni] (by simp [pushInstr]) (by hl_tac) rfl rfl rfl (fun q hq => by cases hq)
      (fun q hq => by cases hq) (fun _ => by simp)
      (fun h => absurd h (p.notP1 hnode hst)) (nool_last hnool rfl) (fun h => absurd h hne) (fun h => absurd h hd.1)

theorem handleUnaryFixApply_lifo (p : PreL root tree G m0 ph ctx ni pn)
    (hd : pn.definition ≠ .group ∧ pn.definition ≠ .nestedExpression) (hnl : isLate pn.definition = false)
    (hnse : pn.definition ≠ .sideEffect) (hne : pn.definition ≠ .elseJump) {child : Option Nat}
    (hchild : (child = pn.left ∧ layout pn.definition = .ln) ∨ (child = pn.right ∧ layout pn.definition = .rn)) :
    Sat (PostL root tree G m0 ph) (handleUnaryFixApply child ctx ni pn) := by
  unfold handleUnaryFixApply
  have hnool := oolR_false hnl hd.2
  have hnlog := not_logical hnl
  refine sat_bind (getNode_sat_eq ctx.nodes ni) (fun node hnode => ?_)
  have hpni := p.pre.pni hnode
  cases hst : node.state with
  | uninitialized =>
    dsimp only
    cases hc : child with
    | none => exact sat_buildErr
    | some c =>
      dsimp only
      have hic : IsChild tree ni c := by
        rcases hchild with ⟨h, _⟩ | ⟨h, _⟩
        · exact p.pre.childL (by rw [← h]; exact hc)
        · exact p.pre.childR (by rw [← h]; exact hc)
      have hclt := p.pre.child_lt hic
      simp only [setNodeIdx_eq, size_putNode, hclt, bind_ok, sat_ok, hpni]
      have hchild' := fun x (hx : x ∈ [c]) => (show IsChild tree ni x ∧ ¬ LateRight tree ni x from by
          have : x = c := by simpa using hx
          subst this; exact ⟨hic, p.pre.notLate hnl _⟩)
      rcases hchild with ⟨h, hk⟩ | ⟨h, hk⟩
      · have hl : pn.left = some c := by rw [← h]; exact hc
        have hcC : NCP tree G root c := p.ncp (Or.inl hl) hne (fun ⟨h, _⟩ => by rw [hnlog] at h; cases h)
        exact p.firstVisit hnode hst hd [c] [ni, c] [(ni, _), (c, _)] [none] (by simp [pushInstr, parseAddSymbol, addConst]) (by hl_tac) (by simp) rfl rfl
          (by list_tac) (by list_tac) (by simp) (by simp) (by list_tac)
          hchild' (by asgp_tac) (by asg_tac) ⟨_, List.mem_cons_self⟩ (by asgu_tac) (by asgall_tac)
          (conf_layout p.pre.hpn (some c) (pn.right) hl rfl .ln hk .p2 (fun _ => rfl) [c] [ni, c] rfl (fun c => by simp [csOf]))
          (by simp) (fun h => absurd h hnse)
          (all_layout p.pre.hpn (some c) (pn.right) hl rfl .ln hk [c] (fun c => by simp [csOf])) (by cp_tac hcC, hcC, rfl)
      · have hr : pn.right = some c := by rw [← h]; exact hc
        have hcC : NCP tree G root c := p.ncp (Or.inr hr) hne (fun ⟨h, _⟩ => by rw [hnlog] at h; cases h)
        exact p.firstVisit hnode hst hd [c] [ni, c] [(ni, _), (c, _)] [none] (by simp [pushInstr, parseAddSymbol, addConst]) (by hl_tac) (by simp) rfl rfl
          (by list_tac) (by list_tac) (by simp) (by simp) (by list_tac)
          hchild' (by asgp_tac) (by asg_tac) ⟨_, List.mem_cons_self⟩ (by asgu_tac) (by asgall_tac)
          (conf_layout p.pre.hpn (pn.left) (some c) rfl hr .rn hk .p2 (fun _ => rfl) [c] [ni, c] rfl (fun c => by simp [csOf]))
          (by simp) (fun h => absurd h hnse)
          (all_layout p.pre.hpn (pn.left) (some c) rfl hr .rn hk [c] (fun c => by simp [csOf])) (by cp_tac hcC, hcC, rfl)
  | initialized =>
    dsimp only
    exact p.lastVisit [] [some ni] (by simp [pushInstr]) (by hl_tac) rfl rfl rfl (fun q hq => by cases hq)
      (fun q hq => by cases hq) (fun h => absurd h hnse)
      (fun h => absurd h (p.notP1 hnode hst)) (nool_last hnool rfl) (fun h => absurd h hne) (fun h => absurd h hd.1)

end pre

end Garnish.Lemmas.BuildSeq
