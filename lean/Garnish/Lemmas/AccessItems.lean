import Garnish.Lemmas.AccessWF
namespace Garnish.Access
open Garnish
open Garnish.BasicOpt (Cell)

theorem cellsAt_length (h : Heap) {a n : Nat} (hb : h.dstart + a + n ≤ h.heap.size) : (h.cellsAt a n).length = n := by
  unfold Heap.cellsAt
  rw [length_extract _ (by omega) (by simpa using hb)]; omega

theorem cellsAt_getElem? (h : Heap) (a n j : Nat) (hj : j < n) : (h.cellsAt a n)[j]? = h.cell (a + j) := by
  unfold Heap.cellsAt Heap.cell
  rw [List.extract_eq_take_drop, List.getElem?_take]
  have : j < h.dstart + a + n - (h.dstart + a) := by omega
  simp only [this, if_true, List.getElem?_drop, Array.getElem?_toList]
  congr 1; omega

section
variable {β : Type} {proj : Cell → Option β} {bad : Outcome (List β)}

/-- the cells a successful collector ran over, one by one -/
theorem collect_items (hbad : ∀ ys, bad ≠ .ok ys) {h : Heap} {a n : Nat} {ys : List β}
    (hb : h.dstart + a + n ≤ h.heap.size) (hc : collectWith proj bad (h.cellsAt a n) = .ok ys) :
    ys.length = n ∧ ∀ j, j < n → ∃ c y, h.cell (a + j) = some c ∧ proj c = some y ∧ ys[j]? = some y := by
  rw [collectWith_ok_iff proj bad hbad] at hc
  have hl : ys.length = n := by
    have := congrArg List.length hc
    simp only [List.length_map] at this
    rw [cellsAt_length h hb] at this; omega
  refine ⟨hl, fun j hj => ?_⟩
  have hj' := congrArg (fun l => l[j]?) hc
  simp only [List.getElem?_map, cellsAt_getElem? h a n j hj] at hj'
  have hy : j < ys.length := by omega
  rw [List.getElem?_eq_getElem hy] at hj' ⊢
  cases hcell : h.cell (a + j) with
  | none => rw [hcell] at hj'; simp at hj'
  | some c =>
    rw [hcell] at hj'
    simp only [Option.map_some] at hj'
    exact ⟨c, ys[j], rfl, by simpa using hj', rfl⟩
end

theorem bad_panic {β} (m : String) : ∀ ys : List β, (Outcome.panic m : Outcome (List β)) ≠ .ok ys := by intro ys h; cases h
theorem bad_err {β} (e : ErrClass) : ∀ ys : List β, (Outcome.err e : Outcome (List β)) ≠ .ok ys := by intro ys h; cases h

theorem asChar_of {c : Cell} {x : Nat} (h : charOf c = some x) : asChar c = .ok x := by
  cases c <;> simp [charOf] at h; subst h; rfl
theorem asByte_of {c : Cell} {x : Nat} (h : byteOf c = some x) : asByte c = .ok x := by
  cases c <;> simp [byteOf] at h; subst h; rfl
theorem asPart_of {c : Cell} {x : Part} (h : partOf c = some x) : asPart c = .ok x := by
  cases c <;> simp [partOf] at h <;> (subst h; rfl)
theorem asListItem_of {c : Cell} {x : Nat} (h : itemOf c = some x) : asListItem c = .ok x := by
  cases c <;> simp [itemOf] at h; subst h; rfl

theorem itemAddr_ok {la index : Nat} (h : la + 1 + index ≤ USIZE_MAX) : itemAddr la index = .ok (la + 1 + index) := by
  unfold itemAddr
  rw [uadd_ok (by omega)]; simp only [bind_ok]; rw [uadd_ok h]

/-- a header cell that is well-formed and what it announces -/
structure Announced {β : Type} (h : Heap) (i n : Nat) (ys : List β) (proj : Cell → Option β) : Prop where
  below : i + n < h.cursor
  length : ys.length = n
  item : ∀ j, j < n → ∃ c y, h.cell (i + 1 + j) = some c ∧ proj c = some y ∧ ys[j]? = some y

theorem announced_of {β} {proj : Cell → Option β} {bad : Outcome (List β)} (hbad : ∀ ys, bad ≠ .ok ys)
    {h : Heap} (wf : h.WF) {i n : Nat} (hlt : i + n < h.cursor)
    (hok : isOk (collectWith proj bad (h.cellsAt (i + 1) n)) = true) :
    ∃ ys, collectWith proj bad (h.cellsAt (i + 1) n) = .ok ys ∧ Announced h i n ys proj := by
  obtain ⟨ys, hys⟩ := (isOk_iff _).mp hok
  have hb : h.dstart + (i + 1) + n ≤ h.heap.size := by have := wf.1; omega
  obtain ⟨hl, hit⟩ := collect_items hbad hb hys
  exact ⟨ys, hys, hlt, hl, hit⟩

/-- reading the `j`-th announced cell through the bounds-checked getter -/
theorem Announced.read {β} {proj : Cell → Option β} {h : Heap} (wf : h.WF) {i n : Nat} {ys : List β}
    (an : Announced h i n ys proj) {j : Nat} (hj : j < n) :
    ∃ c y, (itemAddr i j).bind (fun a => h.getData a) = .ok c ∧ proj c = some y ∧ ys[j]? = some y := by
  obtain ⟨c, y, hc, hp, hy⟩ := an.item j hj
  have hlt : i + 1 + j < h.cursor := by have := an.below; omega
  have : i + 1 + j ≤ USIZE_MAX := by have := wf.1; have := wf.2.1; omega
  refine ⟨c, y, ?_, hp, hy⟩
  rw [itemAddr_ok this]; simp only [bind_ok]
  exact getData_lt wf hlt hc

end Garnish.Access
