/-
Lemmas/RuntimeApply2.lean over `StoreLawsOn`: the arms that add or look up one value and push it.
-/
import Garnish.Lemmas.RuntimeOnApply
set_option linter.unusedSimpArgs false
set_option linter.unusedVariables false
namespace Garnish.Lemmas.Runtime.On
open Garnish Gen Garnish.Abs Garnish.Model.Equality Garnish.Model.Runtime Garnish.Lemmas.Runtime

variable {F σ : Type} {S : RStore F σ} {Inv : σ → Prop} {Rd : σ → Nat → Prop} (fo : FloatOps F)

/-! ### the arms that add one value and push it -/

/-- an adder, `push_register`, then `next_instruction` -/
theorem addPushNext (L : StoreLawsOn S Inv Rd) {s s0 : σ} {rest : List Nat} {m : RM σ Nat} {v : Val F} (next : Nat)
    (e0 : EffI S Inv s s0 rest (S.vals s))
    (ha : ∃ a s', m s0 = .ok (a, s') ∧ Decodes (S.view s') a v ∧ EffI S Inv s0 s' (S.regs s0) (S.vals s0))
    (hv : v ≠ .custom) :
    PushedI S Inv s (((do let x ← m; S.pushRegister x; pure next : RM σ Nat) >>= fun n => pure (some n)) s0)
      (some next) rest v := by
  obtain ⟨ad, s2, h2, d2, e2⟩ := ha
  obtain ⟨s3, h3, e3⟩ := pushReg L d2 hv
  rw [e2.regs, e2.vals, e0.regs, e0.vals] at e3
  exact ⟨ad, s3, by rw [bind_apply, bind_ok h2, bind_ok h3]; rfl, e3.dec d2, (e0.trans e2).trans e3⟩

/-- `Symbol`/`SymbolList` pairs merge into one symbol list -/
theorem apply_merge_spec (L : StoreLawsOn S Inv Rd) (fuel : Nat) (instr : Instruction) (ur : Bool)
    {s : σ} {r l : Nat} {vr vl : Val F} {rest : List Nat}
    (hregs : S.regs s = r :: l :: rest) (hl : Decodes (S.view s) l vl) (hr : Decodes (S.view s) r vr)
    (harm : applyArm vl.typeOf vr.typeOf = .merge)
    (hinv : Inv s := by inv_tac) (hdp : Deep S s rest := by deep_tac) :
    ∃ v, applyKind fo instr ur vl vr = .out (.val v) ∧
      PushedI S Inv s (applyInternal fo S fuel instr ur s) (some (S.cursor s + 1)) rest v := by
  obtain ⟨s0, e0, hl0, hr0, hp⟩ := applyInternal_prefix fo L fuel instr ur hregs hl hr
  have key : ∀ v, mergeSymList vl vr = some v → (∀ n, vl ≠ .num n) → (∀ n, vr ≠ .num n) → v ≠ .custom →
      PushedI S Inv s (((do let x ← S.mergeToSymbolList l r; S.pushRegister x; pure (S.cursor s + 1) : RM σ Nat)
        >>= fun n => pure (some n)) s0) (some (S.cursor s + 1)) rest v :=
    fun v hv hnl hnr hvc => addPushNext L _ e0 (adds_i (L.mergeSome l r vl vr v s0 e0.inv hl0 hr0 hv hnl hnr)) hvc
  rw [hp]
  cases vl <;> cases vr <;> first
    | (cases harm; done)
    | exact ⟨_, rfl, key _ rfl (by intro n h; cases h) (by intro n h; cases h) (by intro h; cases h)⟩

/-- a list-like value applied to a range makes a slice -/
theorem apply_mkSlice_spec (L : StoreLawsOn S Inv Rd) (fuel : Nat) (instr : Instruction) (ur : Bool)
    {s : σ} {r l : Nat} {vr vl : Val F} {rest : List Nat}
    (hregs : S.regs s = r :: l :: rest) (hl : Decodes (S.view s) l vl) (hr : Decodes (S.view s) r vr)
    (harm : applyArm vl.typeOf vr.typeOf = .mkSlice)
    (hinv : Inv s := by inv_tac) (hdp : Deep S s rest := by deep_tac) :
    applyKind fo instr ur vl vr = .out (.val (.slice vl vr)) ∧
      PushedI S Inv s (applyInternal fo S fuel instr ur s) (some (S.cursor s + 1)) rest (.slice vl vr) := by
  obtain ⟨s0, e0, hl0, hr0, hp⟩ := applyInternal_prefix fo L fuel instr ur hregs hl hr
  have key : PushedI S Inv s (((do let x ← S.addSlice l r; S.pushRegister x; pure (S.cursor s + 1) : RM σ Nat)
        >>= fun n => pure (some n)) s0) (some (S.cursor s + 1)) rest (.slice vl vr) :=
    addPushNext L _ e0 (adds_i (L.addSlice l r vl vr s0 (by inv_tac) hl0 hr0)) (by intro h; cases h)
  rw [hp]
  cases vl <;> cases vr <;> first
    | (cases harm; done)
    | exact ⟨rfl, key⟩

/-- a range applied to a range is narrowed -/
theorem apply_narrow_spec (L : StoreLawsOn S Inv Rd) (fuel : Nat) (instr : Instruction) (ur : Bool)
    {s : σ} {r l : Nat} {os oe bs be : Val F} {rest : List Nat}
    (hregs : S.regs s = r :: l :: rest) (hl : Decodes (S.view s) l (.range os oe))
    (hr : Decodes (S.view s) r (.range bs be))
    (hinv : Inv s := by inv_tac) (hdp : Deep S s rest := by deep_tac) :
    RefinesOutI S Inv s (applyInternal fo S fuel instr ur s) (some (S.cursor s + 1)) rest l r
      (match Abs.narrowRange fo (.range os oe) (.range bs be) with
       | .ok v => .val v
       | .error e => .err e) := by
  obtain ⟨s0, e0, hl0, hr0, hp⟩ := applyInternal_prefix fo L fuel instr ur hregs hl hr
  have hn := narrowRange_spec fo L hl0 hr0
  rw [hp]
  cases hx : Abs.narrowRange fo (.range os oe) (.range bs be) with
  | ok v =>
    rw [hx] at hn
    have hvc : v ≠ .custom := by
      intro hc; subst hc
      unfold Abs.narrowRange at hx
      repeat' split at hx
      all_goals first | (cases hx; done) | skip
    exact addPushNext L _ e0 hn hvc
  | error e =>
    rw [hx] at hn
    show ((do let x ← Model.Runtime.narrowRange fo S l r; S.pushRegister x; pure (S.cursor s + 1) : RM σ Nat)
        >>= fun n => pure (some n)) s0 = .err e
    rw [bind_apply, bind_err hn]

theorem slice_of {s : σ} {a : Nat} {v vr : Val F} (h : Decodes (S.view s) a (.slice v vr)) :
    ∃ x y, (S.view s).slice a = some (x, y) ∧ Decodes (S.view s) x v ∧ Decodes (S.view s) y vr := by
  cases h with
  | slice _ hr ds de => exact ⟨_, _, hr, ds, de⟩

/-- a slice applied to a range: a new slice of the same value over the narrowed range -/
theorem apply_sliceNarrow_spec (L : StoreLawsOn S Inv Rd) (fuel : Nat) (instr : Instruction) (ur : Bool)
    {s : σ} {r l : Nat} {v os oe bs be : Val F} {rest : List Nat}
    (hregs : S.regs s = r :: l :: rest) (hl : Decodes (S.view s) l (.slice v (.range os oe)))
    (hr : Decodes (S.view s) r (.range bs be))
    (hinv : Inv s := by inv_tac) (hdp : Deep S s rest := by deep_tac) :
    RefinesOutI S Inv s (applyInternal fo S fuel instr ur s) (some (S.cursor s + 1)) rest l r
      (match Abs.narrowRange fo (.range os oe) (.range bs be) with
       | .ok nr => .val (.slice v nr)
       | .error e => .err e) := by
  obtain ⟨s0, e0, hl0, hr0, hp⟩ := applyInternal_prefix fo L fuel instr ur hregs hl hr
  obtain ⟨va, ra, hsl, dv, dsr⟩ := slice_of hl0
  have hn := narrowRange_spec fo L dsr hr0
  rw [hp]
  simp only [Val.typeOf, applyMatch]
  cases hx : Abs.narrowRange fo (.range os oe) (.range bs be) with
  | ok nr =>
    rw [hx] at hn
    obtain ⟨na, s1, h1, d1, e1⟩ := hn
    obtain ⟨sa, s2, h2, d2, e2⟩ := adds_i (L.addSlice va na v nr s1 (by inv_tac) (e1.dec dv) d1)
    obtain ⟨s3, h3, e3⟩ := pushReg L d2 (by intro h; cases h)
    rw [e1.regs, e1.vals] at e2
    rw [e2.regs, e2.vals, e0.regs, e0.vals] at e3
    refine ⟨sa, s3, ?_, e3.dec d2, ((e0.trans e1).trans e2).trans e3⟩
    rw [bind_apply, bind_ok (getSlice_of hsl)]
    simp only []
    rw [bind_ok h1, bind_ok h2, bind_ok h3]; rfl
  | error e =>
    rw [hx] at hn
    show _ = Outcome.err e
    rw [bind_apply, bind_ok (getSlice_of hsl)]
    simp only []
    rw [bind_err hn]

/-- a look-up followed by `None => push_unit, Some(i) => push_register(i)` and `next_instruction` -/
theorem lookupPushNext (L : StoreLawsOn S Inv Rd) {s s0 : σ} {rest : List Nat} {l r : Nat} {m : RM σ (Option Nat)} {a : Acc F}
    (next : Nat) (e0 : EffI S Inv s s0 rest (S.vals s)) (ha : AccOutI S Inv s0 (m s0) a)
    (hres : ∀ v, a = .some v → v ≠ .custom) :
    RefinesOutI S Inv s (((do pushOptional S (← m); pure next : RM σ Nat) >>= fun n => pure (some n)) s0)
      (some next) rest l r (accOut a) := by
  cases a with
  | some v =>
    obtain ⟨x, s1, h1, d1, e1⟩ := ha
    obtain ⟨s2, h2, e2⟩ := pushReg L d1 (hres v rfl)
    rw [e1.regs, e1.vals, e0.regs, e0.vals] at e2
    exact ⟨x, s2, by rw [bind_apply, bind_ok h1]; simp only [pushOptional]; rw [bind_ok h2]; rfl, e2.dec d1,
      (e0.trans e1).trans e2⟩
  | none =>
    obtain ⟨s1, h1, e1⟩ := ha
    obtain ⟨x, s2, h2, d2, e2⟩ := pushUnit_spec L s1
    rw [e1.regs, e1.vals, e0.regs, e0.vals] at e2
    exact ⟨x, s2, by rw [bind_apply, bind_ok h1]; simp only [pushOptional]; rw [bind_ok h2]; rfl, d2,
      (e0.trans e1).trans e2⟩
  | unsupported =>
    simp only [AccOutI] at ha
    show _ = Outcome.err ErrClass.unsupported
    rw [bind_apply, bind_err ha]
  | err e =>
    simp only [AccOutI] at ha
    show _ = Outcome.err e
    rw [bind_apply, bind_err ha]

/-- a symbol list, list or pair applied to an INTEGER: `access_with_integer` -/
theorem apply_accInt_spec (L : StoreLawsOn S Inv Rd) (fuel : Nat) (instr : Instruction) (ur : Bool)
    {s : σ} {r l : Nat} {vl : Val F} {i : Int} {rest : List Nat}
    (hregs : S.regs s = r :: l :: rest) (hl : Decodes (S.view s) l vl) (hr : Decodes (S.view s) r (.num (.int i)))
    (harm : applyArm vl.typeOf .number = .accInt) (hd : AccessDomain vl)
    (hres : ∀ v, accessInt fo (.int i) vl = .some v → v ≠ .custom)
    (hinv : Inv s := by inv_tac) (hdp : Deep S s rest := by deep_tac) :
    applyKind fo instr ur vl (.num (.int i)) = .out (accOut (accessInt fo (.int i) vl)) ∧
    RefinesOutI S Inv s (applyInternal fo S fuel instr ur s) (some (S.cursor s + 1)) rest l r
      (accOut (accessInt fo (.int i) vl)) := by
  obtain ⟨s0, e0, hl0, hr0, hp⟩ := applyInternal_prefix fo L fuel instr ur hregs hl hr
  have hro : RangeOrdered fo (.int i) vl := by
    intro a b len hv
    cases vl <;> first | (cases harm; done) | cases hv
  have hfu : accessFuel vl ≤ fuel := by
    cases vl <;> first | (cases harm; done) | exact Nat.zero_le _
  have hncv : ncConcat vl := by
    cases vl <;> first | (cases harm; done) | trivial
  have ha := accessWithInteger_spec fo L fuel i hl0 hd hro hfu hncv
  have key : RefinesOutI S Inv s (((do
        let num ← getNumber S r
        pushOptional S (← accessWithInteger fo S fuel num l)
        pure (S.cursor s + 1) : RM σ Nat) >>= fun n => pure (some n)) s0) (some (S.cursor s + 1)) rest l r
      (accOut (accessInt fo (.int i) vl)) := by
    have := lookupPushNext (l := l) (r := r) L (S.cursor s + 1) e0 ha hres
    rw [bind_apply, bind_ok (getNumber_of hr0)]
    rw [bind_apply] at this
    exact this
  rw [hp]
  have hk : ∀ a : Acc F, (match a with
      | .some v => ApplyKind.out (.val v)
      | .none => .out (.val .unit)
      | .unsupported => .out (.err .unsupported)
      | .err e => .out (.err e)) = .out (accOut a) := by
    intro a; cases a <;> rfl
  cases vl <;> first
    | (cases harm; done)
    | exact ⟨hk _, key⟩

/-- a pair or list applied to a symbol: `access_with_symbol` -/
theorem apply_accSym_spec (L : StoreLawsOn S Inv Rd) (fuel : Nat) (instr : Instruction) (ur : Bool)
    {s : σ} {r l y : Nat} {vl : Val F} {rest : List Nat}
    (hregs : S.regs s = r :: l :: rest) (hl : Decodes (S.view s) l vl) (hr : Decodes (S.view s) r (.sym y))
    (harm : applyArm vl.typeOf .symbol = .accSym) (hd : AccessDomain vl)
    (hls : (∀ vs, vl ≠ .list vs) ∨ ListSymOn S Inv) (hres : ∀ v, accessSym y vl = .some v → v ≠ .custom)
    (hinv : Inv s := by inv_tac) (hdp : Deep S s rest := by deep_tac) :
    applyKind fo instr ur vl (.sym y) = .out (accOut (accessSym y vl)) ∧
    RefinesOutI S Inv s (applyInternal fo S fuel instr ur s) (some (S.cursor s + 1)) rest l r
      (accOut (accessSym y vl)) := by
  obtain ⟨s0, e0, hl0, hr0, hp⟩ := applyInternal_prefix fo L fuel instr ur hregs hl hr
  have hfu : accessFuel vl ≤ fuel := by
    cases vl <;> first | (cases harm; done) | exact Nat.zero_le _
  have hncv : ncConcat vl := by
    cases vl <;> first | (cases harm; done) | trivial
  have ha := accessWithSymbol_spec fo L fuel y hl0 hd hfu hncv hls
  have key : RefinesOutI S Inv s (((do
        let sym ← getSymbol S r
        pushOptional S (← accessWithSymbol fo S fuel sym l)
        pure (S.cursor s + 1) : RM σ Nat) >>= fun n => pure (some n)) s0) (some (S.cursor s + 1)) rest l r
      (accOut (accessSym y vl)) := by
    have := lookupPushNext (l := l) (r := r) L (S.cursor s + 1) e0 ha hres
    rw [bind_apply, bind_ok (getSymbol_of hr0)]
    rw [bind_apply] at this
    exact this
  rw [hp]
  have hk : ∀ a : Acc F, (match a with
      | .some v => ApplyKind.out (.val v)
      | .none => .out (.val .unit)
      | .unsupported => .out (.err .unsupported)
      | .err e => .out (.err e)) = .out (accOut a) := by
    intro a; cases a <;> rfl
  cases vl <;> first
    | (cases harm; done)
    | exact ⟨hk _, key⟩

end Garnish.Lemmas.Runtime.On
