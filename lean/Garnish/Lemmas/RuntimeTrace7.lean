/-
Trace half of the step simulation, part 7 (mirrors Lemmas/RuntimeStep7.lean): `apply_internal` — the `External` arm
records `apply(external value, argument)` exactly as the machine does; entering an expression records nothing.
-/
import Garnish.Lemmas.RuntimeTrace6
set_option linter.unusedSimpArgs false
set_option linter.unusedVariables false
namespace Garnish.Lemmas.Runtime
open Garnish Gen Garnish.Abs Garnish.Model.Equality Garnish.Model.Runtime Garnish.Props.RuntimeRefine

variable {F σ : Type} {S : RStore F σ} {P : Prog F} {host : Host F} (fo : FloatOps F)

/-- entering an expression records no host call on either side -/
theorem enter_trace {s : σ} {m0 : MState F} {rest : List Nat}
    {instr : Instruction} {ur : Bool} {vl vr input : Val F} {j : Nat} {res : Outcome (Option Nat × σ)}
    (hk : applyKind fo instr ur vl vr = .enter j input) (hent : Entered S s res rest j input) :
    HandlerTrace S s res m0.trace (applyStep fo host P m0 instr ur vl vr) := by
  unfold applyStep
  rw [hk]
  simp only []
  cases hjt : jumpTarget P j with
  | error e => trivial
  | ok t =>
    unfold Entered at hent
    intro next s1 hres htr
    cases hj : S.jumpTable s j with
    | none => rw [hj] at hent; simp only [] at hent; rw [hent] at hres; cases hres
    | some t' =>
      rw [hj] at hent
      obtain ⟨ia, s2, h2, _, e2⟩ := hent
      rw [h2] at hres; cases hres
      show TraceRel (S.view s1) (S.trace s1) m0.trace
      rw [e2.trace]
      exact traceRel_mapDec e2.keeps.dec htr

/-- `apply_internal` against Abs/Machine `applyStep`, from a state whose two top registers are the operands -/
theorem applyInternal_trace (L : StoreLaws S) (HR : HostRefines S host) (fuel : Nat) (instr : Instruction) (ur : Bool)
    {s : σ} {m0 : MState F} (hpc : S.cursor s = m0.pc)
    {r l : Nat} {rest : List Nat} {vr vl : Val F} (hregs : S.regs s = r :: l :: rest)
    (dl : Decodes (S.view s) l vl) (dr : Decodes (S.view s) r vr)
    (hrest : DecodesList (S.view s) rest m0.regs) (hvals : DecodesList (S.view s) (S.vals s) m0.vals)
    (hfr : FramesRel (S.view s) (S.frames s) m0.frames)
    (hprog : (∀ i, S.instruction s i = P.instrs[i]?) ∧ (∀ j, S.jumpTable s j = P.jumps[j]?) ∧
      S.instrLen s = P.instrs.size)
    (hdom : ApplyDomain fo fuel vl vr) :
    HandlerTrace S s (applyInternal fo S fuel instr ur s) m0.trace (applyStep fo host P m0 instr ur vl vr) := by
  have outArm : ∀ o, applyKind fo instr ur vl vr = .out o →
      RefinesOut S s (applyInternal fo S fuel instr ur s) (some (S.cursor s + 1)) rest l r o →
      (∀ op a b, o = .defer op a b → a = vl ∧ b = vr) →
      HandlerTrace S s (applyInternal fo S fuel instr ur s) m0.trace (applyStep fo host P m0 instr ur vl vr) := by
    intro o hk href hdef
    rw [applyStep_out fo m0 instr ur vl vr o hk]
    exact handlerTrace_of_refines (m := m0) L HR hpc hrest hvals hfr hprog (by simp [hpc]) href
      (fun op a b ho => by obtain ⟨rfl, rfl⟩ := hdef op a b ho; exact ⟨dl, Or.inl dr⟩)
  obtain ⟨iexp, iext, ipart, inar, isn, iint, isym, ipath⟩ := applyArm_inv vl.typeOf vr.typeOf
  unfold ApplyDomain at hdom
  cases harm : applyArm vl.typeOf vr.typeOf <;> rw [harm] at hdom
  case defer =>
    obtain ⟨hk, href⟩ := C08_refine_apply_defer fo L fuel instr ur hregs dl dr harm
    exact outArm _ hk href (fun op a b h => by cases h; exact ⟨rfl, rfl⟩)
  case merge =>
    obtain ⟨v, hk, href⟩ := C17_refine_apply_merge fo L fuel instr ur hregs dl dr harm
    exact outArm _ hk href (fun op a b h => by cases h)
  case mkSlice =>
    obtain ⟨hk, href⟩ := C17_refine_apply_mk_slice fo L fuel instr ur hregs dl dr harm
    exact outArm _ hk href (fun op a b h => by cases h)
  case narrow =>
    obtain ⟨h1, h2⟩ := inar harm
    obtain ⟨os, oe, rfl⟩ := typeOf_inv_range h1
    obtain ⟨bs, be, rfl⟩ := typeOf_inv_range h2
    have href := apply_narrow_spec fo L fuel instr ur hregs dl dr
    refine outArm _ (by simp only [applyKind]; cases Abs.narrowRange fo (.range os oe) (.range bs be) <;> rfl) href ?_
    intro op a b h
    cases hx : Abs.narrowRange fo (.range os oe) (.range bs be) <;> rw [hx] at h <;> cases h
  case sliceNarrow =>
    obtain ⟨h1, h2⟩ := isn harm
    obtain ⟨v, sr, rfl⟩ := typeOf_inv_slice h1
    obtain ⟨bs, be, rfl⟩ := typeOf_inv_range h2
    obtain ⟨os, oe, rfl⟩ := hdom v sr rfl
    have href := apply_sliceNarrow_spec fo L fuel instr ur hregs dl dr
    refine outArm _ (by simp only [applyKind]; cases Abs.narrowRange fo (.range os oe) (.range bs be) <;> rfl) href ?_
    intro op a b h
    cases hx : Abs.narrowRange fo (.range os oe) (.range bs be) <;> rw [hx] at h <;> cases h
  case accInt =>
    obtain ⟨hd, i, rfl⟩ := hdom
    obtain ⟨hk, href⟩ := C17_refine_apply_access_integer fo L fuel instr ur hregs dl dr harm hd
    exact outArm _ hk href (fun op a b h => absurd h (accOut_not_defer _ op a b))
  case accSym =>
    obtain ⟨y, rfl⟩ := typeOf_inv_sym (isym harm)
    obtain ⟨hk, href⟩ := C17_refine_apply_access_symbol fo L fuel instr ur hregs dl dr harm hdom
    exact outArm _ hk href (fun op a b h => absurd h (accOut_not_defer _ op a b))
  case path =>
    obtain ⟨h1, h2⟩ := ipath harm
    obtain ⟨items, rfl⟩ := typeOf_list h1
    obtain ⟨ps, rfl⟩ := typeOf_inv_symList h2
    obtain ⟨hk, href⟩ := C17_refine_apply_path fo L fuel instr ur hregs dl dr (hdom items ps rfl rfl)
    exact outArm _ hk href (fun op a b h => absurd h (accOut_not_defer _ op a b))
  case external =>
    obtain ⟨n, rfl⟩ := typeOf_inv_ext (iext harm)
    obtain ⟨hk, s0, e0, hprot⟩ := C17_refine_apply_external fo L fuel instr ur hregs dl dr
    have ha := HR.apply n r vr s0 (e0.dec dr)
    unfold HostAnswer at ha
    unfold ApplyProtocol at hprot
    have hmach : ∃ md nx, applyStep fo host P m0 instr ur (.ext n) vr = .ok (md, nx) ∧
        md.trace = Abs.HostCall.apply n vr :: m0.trace := by
      unfold applyStep
      rw [hk]
      simp only []
      cases host.apply n vr <;> exact ⟨_, _, rfl, rfl⟩
    obtain ⟨md, nx, hmd, hmt⟩ := hmach
    rw [hmd]
    intro next s1 hres htr
    rw [hmt]
    have core : ∃ bb sh, S.apply n r s0 = .ok (bb, sh) ∧ Keeps S s0 sh ∧ S.trace s1 = S.trace sh ∧ DecKept S sh s1 := by
      cases hh : host.apply n vr with
      | some v =>
        rw [hh] at ha
        obtain ⟨x, sh, h1, _, he⟩ := ha
        rw [h1] at hprot
        simp only [] at hprot
        rw [hprot] at hres; cases hres
        exact ⟨true, _, h1, he.keeps, rfl, fun _ _ x => x⟩
      | none =>
        rw [hh] at ha
        obtain ⟨sh, h1, he⟩ := ha
        rw [h1] at hprot
        simp only [] at hprot
        obtain ⟨u, s2, h2, _, e2⟩ := hprot
        rw [h2] at hres; cases hres
        exact ⟨false, sh, h1, he.keeps, e2.trace, e2.keeps.dec⟩
    obtain ⟨bb, sh, h1, kh, et, dk⟩ := core
    have hrec := L.apply n r s0 bb sh h1
    have dall : DecKept S s s1 := fun x v hx => dk x v (kh.dec x v (e0.dec hx))
    rw [et, hrec, e0.trace]
    exact .cons ⟨rfl, dall _ _ dr⟩ (traceRel_mapDec dall htr)
  case expression =>
    obtain ⟨j, rfl⟩ := typeOf_inv_expr (iexp harm)
    obtain ⟨hk, hent⟩ := C17_refine_apply_expression fo L fuel instr ur hregs dl dr
    exact enter_trace fo hk hent
  case partial_ =>
    obtain ⟨f, x, rfl⟩ := typeOf_inv_part (ipart harm)
    by_cases hfe : f.typeOf = .expression
    · obtain ⟨j, rfl⟩ := typeOf_inv_expr hfe
      obtain ⟨hk, hent⟩ := C17_refine_apply_partial_expression fo L fuel instr ur hregs dl dr
      exact enter_trace fo hk hent
    · obtain ⟨hk, href⟩ := C17_refine_apply_partial_other fo L fuel instr ur hregs dl dr hfe
      exact outArm _ hk href (fun op a b h => by cases h)


/-- `Apply` -/
theorem stepTrace_apply (L : StoreLaws S) (HR : HostRefines S host) (fuel : Nat) (H : OtherHandlers σ)
    {s : σ} {m : MState F} (hsim : Sim S P s m) {operand : Option Nat}
    (hfetch : P.instrs[m.pc]? = some (.apply, operand)) {vr vl : Val F} {rs : List (Val F)}
    (hregs : m.regs = vr :: vl :: rs) (hdom : ApplyDomain fo fuel vl vr) :
    StepTrace fo host S P fuel H s m := by
  obtain ⟨hpc, hd⟩ := hsim
  have hdr := hd.regs
  rw [hregs] at hdr
  obtain ⟨r, as1, e1, dr, t1⟩ := decodesList_cons_inv hdr
  obtain ⟨l, rest, e2, dl, t2⟩ := decodesList_cons_inv t1
  subst e2
  refine stepTrace_of fo L fuel H ⟨hpc, hd⟩ hfetch
    (r := applyStep fo host P { m with regs := rs } .apply true vl vr)
    (by unfold Abs.step; rw [hfetch]; simp only [hregs]) ?_
  exact applyInternal_trace fo L HR fuel .apply true (m0 := { m with regs := rs }) hpc e1 dl dr t2 hd.vals hd.frames
    ⟨hd.instrs, hd.jumps, hd.ilen⟩ hdom

/-- `EmptyApply` -/
theorem stepTrace_emptyApply (L : StoreLaws S) (HR : HostRefines S host) (fuel : Nat) (H : OtherHandlers σ)
    {s : σ} {m : MState F} (hsim : Sim S P s m) {operand : Option Nat}
    (hfetch : P.instrs[m.pc]? = some (.emptyApply, operand)) {vl : Val F} {rs : List (Val F)}
    (hregs : m.regs = vl :: rs) (hdom : ApplyDomain fo fuel vl .unit) :
    StepTrace fo host S P fuel H s m := by
  obtain ⟨hpc, hd⟩ := hsim
  have hdr := hd.regs
  rw [hregs] at hdr
  obtain ⟨l, rest, e1, dl, t1⟩ := decodesList_cons_inv hdr
  obtain ⟨u, s1, du, eu, heq⟩ := C17_refine_empty_apply fo L fuel s
  rw [e1] at eu
  refine stepTrace_of fo L fuel H ⟨hpc, hd⟩ hfetch
    (r := applyStep fo host P { m with regs := rs } .emptyApply false vl .unit)
    (by unfold Abs.step; rw [hfetch]; simp only [hregs]) ?_
  have hs1 := applyInternal_trace fo L HR fuel .emptyApply false (m0 := { m with regs := rs })
    (s := s1) (by rw [eu.keeps.cur]; exact hpc) eu.regs (eu.dec dl) du (Sim.tail eu t1)
    (eu.vals ▸ Sim.tail eu hd.vals) (eu.frames ▸ framesRel_keeps eu.keeps hd.frames)
    ⟨fun i => by rw [eu.keeps.instr]; exact hd.instrs i, fun j => by rw [eu.keeps.jump]; exact hd.jumps j,
      by rw [eu.keeps.ilen]; exact hd.ilen⟩ hdom
  show HandlerTrace S s (emptyApply fo S fuel s) m.trace _
  rw [heq]
  cases hr : applyStep fo host P { m with regs := rs } .emptyApply false vl .unit with
  | error e => trivial
  | ok p =>
    rw [hr] at hs1
    obtain ⟨md, n⟩ := p
    intro next s2 h2 htr
    refine hs1 next s2 h2 ?_
    rw [eu.trace]
    exact traceRel_mapDec eu.keeps.dec htr

end Garnish.Lemmas.Runtime
