/-
Relabelling of body ids (1): values and the value-level operations.
`Val.rl ρ` renames the expression values inside a value. Every operation of Abs/Ops.lean treats an expression value
as an opaque name: for an INJECTIVE `ρ` (equality looks at the name) each operation commutes with `rl ρ`.
-/
import Garnish.Spec.Eval
namespace Garnish.Abs
open Garnish Gen

variable {F : Type} (fo : FloatOps F) (ρ : Nat → Nat)

mutual
/-- rename the expression values inside a value -/
def Val.rl : Val F → Val F
  | .expr j => .expr (ρ j)
  | .pair l r => .pair (Val.rl l) (Val.rl r)
  | .list items => .list (Val.rlList items)
  | .concat l r => .concat (Val.rl l) (Val.rl r)
  | .range s e => .range (Val.rl s) (Val.rl e)
  | .slice v r => .slice (Val.rl v) (Val.rl r)
  | .part f x => .part (Val.rl f) (Val.rl x)
  | .unit => .unit | .tru => .tru | .fls => .fls | .num n => .num n | .char c => .char c | .byte b => .byte b
  | .sym s => .sym s | .ext n => .ext n | .type t => .type t | .chars cs => .chars cs | .bytes bs => .bytes bs
  | .symList ps => .symList ps | .custom => .custom
def Val.rlList : List (Val F) → List (Val F)
  | [] => []
  | x :: xs => Val.rl x :: Val.rlList xs
end

theorem Val.rlList_eq : ∀ (l : List (Val F)), Val.rlList ρ l = l.map (Val.rl ρ)
  | [] => rfl
  | x :: xs => by simp [Val.rlList, Val.rlList_eq xs]

@[simp] theorem Val.rl_list (items : List (Val F)) : Val.rl ρ (.list items) = .list (items.map (Val.rl ρ)) := by
  simp [Val.rl, Val.rlList_eq]

@[simp] theorem Val.rl_typeOf (v : Val F) : (Val.rl ρ v).typeOf = v.typeOf := by cases v <;> rfl
@[simp] theorem Val.rl_truthy (v : Val F) : (Val.rl ρ v).truthy = v.truthy := by cases v <;> rfl
@[simp] theorem Val.rl_ofBool (b : Bool) : Val.rl ρ (Val.ofBool (F := F) b) = Val.ofBool b := by cases b <;> rfl
@[simp] theorem Val.rl_numResult (o : Option (Number F)) : Val.rl ρ (numResult o) = numResult o := by cases o <;> rfl

def OpOut.rl : OpOut F → OpOut F
  | .val v => .val (Val.rl ρ v)
  | .defer op l r => .defer op (Val.rl ρ l) (Val.rl ρ r)
  | .err e => .err e

def Acc.rl : Acc F → Acc F
  | .some v => .some (Val.rl ρ v)
  | .none => .none
  | .unsupported => .unsupported
  | .err e => .err e

def ApplyKind.rl : ApplyKind F → ApplyKind F
  | .enter j input => .enter (ρ j) (Val.rl ρ input)
  | .external n arg => .external n (Val.rl ρ arg)
  | .out o => .out (OpOut.rl ρ o)

/-! ### arithmetic, comparison -/

theorem arithBinary_rl (op : Instruction) (nop : NumOp) (l r : Val F) :
    arithBinary fo op nop (Val.rl ρ l) (Val.rl ρ r) = OpOut.rl ρ (arithBinary fo op nop l r) := by
  cases l <;> cases r <;> simp [arithBinary, Val.rl, OpOut.rl]

theorem arithUnary_rl (op : Instruction) (nop : NumOp) (v : Val F) :
    arithUnary fo op nop (Val.rl ρ v) = OpOut.rl ρ (arithUnary fo op nop v) := by
  cases v <;> simp [arithUnary, Val.rl, OpOut.rl]

theorem sliceStart_rl (r : Val F) : sliceStart (Val.rl ρ r) = sliceStart r := by
  cases r with
  | range s e => cases s <;> cases e <;> simp [sliceStart, Val.rl]
  | _ => simp [sliceStart, Val.rl]

theorem compareSlices_rl (lv lr rv rr : Val F) :
    compareSlices (Val.rl ρ lv) (Val.rl ρ lr) (Val.rl ρ rv) (Val.rl ρ rr) = compareSlices lv lr rv rr := by
  cases lv <;> cases rv <;> simp [compareSlices, Val.rl, sliceStart_rl]

theorem compareVals_rl (l r : Val F) : compareVals fo (Val.rl ρ l) (Val.rl ρ r) = compareVals fo l r := by
  cases l <;> cases r <;> simp [compareVals, Val.rl, compareSlices_rl]

theorem cmpOp_rl (acc : Ordering → Bool) (l r : Val F) :
    cmpOp fo acc (Val.rl ρ l) (Val.rl ρ r) = Val.rl ρ (cmpOp fo acc l r) := by
  simp only [cmpOp, compareVals_rl]
  split <;> simp [Val.rl]

/-! ### equality -/

mutual
def NVal.rl : NVal F → NVal F
  | .atom t n => .atom t (if t == .expression then ρ n else n)
  | .pair l r => .pair (NVal.rl l) (NVal.rl r)
  | .seq items => .seq (NVal.rlList items)
  | .range s e => .range (NVal.rl s) (NVal.rl e)
  | .num n => .num n | .text cs => .text cs | .blob bs => .blob bs | .symList ps => .symList ps | .opaque => .opaque
def NVal.rlList : List (NVal F) → List (NVal F)
  | [] => []
  | x :: xs => NVal.rl x :: NVal.rlList xs
end

theorem NVal.rlList_append : ∀ (a b : List (NVal F)), NVal.rlList ρ (a ++ b) = NVal.rlList ρ a ++ NVal.rlList ρ b
  | [], b => rfl
  | x :: xs, b => by simp [NVal.rlList, NVal.rlList_append xs b]

mutual
theorem norm_rl : ∀ (v : Val F), norm (Val.rl ρ v) = NVal.rl ρ (norm v)
  | .expr j => by simp [Val.rl, norm, NVal.rl]
  | .pair l r => by simp [Val.rl, norm, NVal.rl, norm_rl l, norm_rl r]
  | .list items => by simp [Val.rl, norm, NVal.rl, normList_rl items]
  | .concat l r => by simp [Val.rl, norm, NVal.rl, normConcat_rl l, normConcat_rl r, NVal.rlList_append]
  | .range s e => by simp [Val.rl, norm, NVal.rl, norm_rl s, norm_rl e]
  | .slice v r => by simp [Val.rl, norm, NVal.rl]
  | .part f x => by simp [Val.rl, norm, NVal.rl]
  | .unit => by simp [Val.rl, norm, NVal.rl]
  | .tru => by simp [Val.rl, norm, NVal.rl]
  | .fls => by simp [Val.rl, norm, NVal.rl]
  | .num n => by simp [Val.rl, norm, NVal.rl]
  | .char c => by simp [Val.rl, norm, NVal.rl]
  | .byte b => by simp [Val.rl, norm, NVal.rl]
  | .sym s => by simp [Val.rl, norm, NVal.rl]
  | .ext n => by simp [Val.rl, norm, NVal.rl]
  | .type t => by simp [Val.rl, norm, NVal.rl]
  | .chars cs => by simp [Val.rl, norm, NVal.rl]
  | .bytes bs => by simp [Val.rl, norm, NVal.rl]
  | .symList ps => by simp [Val.rl, norm, NVal.rl]
  | .custom => by simp [Val.rl, norm, NVal.rl]
theorem normList_rl : ∀ (l : List (Val F)), normList (Val.rlList ρ l) = NVal.rlList ρ (normList l)
  | [] => by simp [Val.rlList, normList, NVal.rlList]
  | x :: xs => by simp [Val.rlList, normList, NVal.rlList, norm_rl x, normList_rl xs]
theorem normConcat_rl : ∀ (v : Val F), normConcat (Val.rl ρ v) = NVal.rlList ρ (normConcat v)
  | .list items => by simp [Val.rl, normConcat, normList_rl items]
  | .concat l r => by simp [Val.rl, normConcat, normConcat_rl l, normConcat_rl r, NVal.rlList_append]
  | .expr j => by simp [Val.rl, normConcat, norm, NVal.rl, NVal.rlList]
  | .pair l r => by simp [Val.rl, normConcat, norm, NVal.rl, NVal.rlList, norm_rl l, norm_rl r]
  | .range s e => by simp [Val.rl, normConcat, norm, NVal.rl, NVal.rlList, norm_rl s, norm_rl e]
  | .slice v r => by simp [Val.rl, normConcat, norm, NVal.rl, NVal.rlList]
  | .part f x => by simp [Val.rl, normConcat, norm, NVal.rl, NVal.rlList]
  | .unit => by simp [Val.rl, normConcat, norm, NVal.rl, NVal.rlList]
  | .tru => by simp [Val.rl, normConcat, norm, NVal.rl, NVal.rlList]
  | .fls => by simp [Val.rl, normConcat, norm, NVal.rl, NVal.rlList]
  | .num n => by simp [Val.rl, normConcat, norm, NVal.rl, NVal.rlList]
  | .char c => by simp [Val.rl, normConcat, norm, NVal.rl, NVal.rlList]
  | .byte b => by simp [Val.rl, normConcat, norm, NVal.rl, NVal.rlList]
  | .sym s => by simp [Val.rl, normConcat, norm, NVal.rl, NVal.rlList]
  | .ext n => by simp [Val.rl, normConcat, norm, NVal.rl, NVal.rlList]
  | .type t => by simp [Val.rl, normConcat, norm, NVal.rl, NVal.rlList]
  | .chars cs => by simp [Val.rl, normConcat, norm, NVal.rl, NVal.rlList]
  | .bytes bs => by simp [Val.rl, normConcat, norm, NVal.rl, NVal.rlList]
  | .symList ps => by simp [Val.rl, normConcat, norm, NVal.rl, NVal.rlList]
  | .custom => by simp [Val.rl, normConcat, norm, NVal.rl, NVal.rlList]
end

theorem rangeEndEq_rl (x y : NVal F) : rangeEndEq fo (NVal.rl ρ x) (NVal.rl ρ y) = rangeEndEq fo x y := by
  cases x <;> cases y <;> simp [NVal.rl, rangeEndEq]

variable {ρ} in
mutual
theorem nvalEq_rl (hρ : ∀ a b, ρ a = ρ b → a = b) : ∀ (x y : NVal F), nvalEq fo (NVal.rl ρ x) (NVal.rl ρ y) = nvalEq fo x y
  | .atom t n, .atom t' n' => by
    simp only [NVal.rl, nvalEq]
    by_cases ht : t = t'
    · subst ht
      by_cases h : t = .expression
      · subst h
        simp only [beq_self_eq_true, if_true, Bool.true_and]
        by_cases hn : n = n'
        · subst hn; simp
        · have : ρ n ≠ ρ n' := fun e => hn (hρ _ _ e)
          rw [beq_eq_false_iff_ne.mpr this, beq_eq_false_iff_ne.mpr hn]
      · simp [h]
    · rw [beq_eq_false_iff_ne.mpr ht]; simp
  | .pair l r, .pair l' r' => by simp only [NVal.rl, nvalEq, nvalEq_rl hρ l l', nvalEq_rl hρ r r']
  | .seq a, .seq b => by simp only [NVal.rl, nvalEq, nvalsEq_rl hρ a b]
  | .range s e, .range s' e' => by simp only [NVal.rl, nvalEq, rangeEndEq_rl]
  | .num a, .num b => by simp only [NVal.rl]
  | .text a, .text b => by simp only [NVal.rl]
  | .blob a, .blob b => by simp only [NVal.rl]
  | .symList a, .symList b => by simp only [NVal.rl]
  | .opaque, y => by cases y <;> simp [NVal.rl, nvalEq]
  | .atom t n, .num _ | .atom t n, .text _ | .atom t n, .blob _ | .atom t n, .symList _ | .atom t n, .pair _ _
  | .atom t n, .seq _ | .atom t n, .range _ _ | .atom t n, .opaque => by simp [NVal.rl, nvalEq]
  | .num _, .atom t n | .text _, .atom t n | .blob _, .atom t n | .symList _, .atom t n | .pair _ _, .atom t n
  | .seq _, .atom t n | .range _ _, .atom t n => by simp [NVal.rl, nvalEq]
  | .num _, .text _ | .num _, .blob _ | .num _, .symList _ | .num _, .pair _ _ | .num _, .seq _ | .num _, .range _ _
  | .num _, .opaque => by simp [NVal.rl, nvalEq]
  | .text _, .num _ | .text _, .blob _ | .text _, .symList _ | .text _, .pair _ _ | .text _, .seq _ | .text _, .range _ _
  | .text _, .opaque => by simp [NVal.rl, nvalEq]
  | .blob _, .num _ | .blob _, .text _ | .blob _, .symList _ | .blob _, .pair _ _ | .blob _, .seq _ | .blob _, .range _ _
  | .blob _, .opaque => by simp [NVal.rl, nvalEq]
  | .symList _, .num _ | .symList _, .text _ | .symList _, .blob _ | .symList _, .pair _ _ | .symList _, .seq _
  | .symList _, .range _ _ | .symList _, .opaque => by simp [NVal.rl, nvalEq]
  | .pair _ _, .num _ | .pair _ _, .text _ | .pair _ _, .blob _ | .pair _ _, .symList _ | .pair _ _, .seq _
  | .pair _ _, .range _ _ | .pair _ _, .opaque => by simp [NVal.rl, nvalEq]
  | .seq _, .num _ | .seq _, .text _ | .seq _, .blob _ | .seq _, .symList _ | .seq _, .pair _ _
  | .seq _, .range _ _ | .seq _, .opaque => by simp [NVal.rl, nvalEq]
  | .range _ _, .num _ | .range _ _, .text _ | .range _ _, .blob _ | .range _ _, .symList _ | .range _ _, .pair _ _
  | .range _ _, .seq _ | .range _ _, .opaque => by simp [NVal.rl, nvalEq]
theorem nvalsEq_rl (hρ : ∀ a b, ρ a = ρ b → a = b) : ∀ (x y : List (NVal F)),
    nvalsEq fo (NVal.rlList ρ x) (NVal.rlList ρ y) = nvalsEq fo x y
  | [], [] => by simp [NVal.rlList]
  | [], _ :: _ => by simp [NVal.rlList, nvalsEq]
  | _ :: _, [] => by simp [NVal.rlList, nvalsEq]
  | a :: as, b :: bs => by simp only [NVal.rlList, nvalsEq, nvalEq_rl hρ a b, nvalsEq_rl hρ as bs]
end

theorem valEq_rl {ρ : Nat → Nat} (hρ : ∀ a b, ρ a = ρ b → a = b) (l r : Val F) :
    valEq fo (Val.rl ρ l) (Val.rl ρ r) = valEq fo l r := by
  simp only [valEq, norm_rl, nvalEq_rl fo hρ]

/-! ### lists, access -/

theorem flatItems_rl : ∀ (v : Val F), flatItems (Val.rl ρ v) = (flatItems v).map (Val.rl ρ)
  | .list items => by simp [flatItems]
  | .concat l r => by simp [Val.rl, flatItems, flatItems_rl l, flatItems_rl r]
  | .expr j => by simp [Val.rl, flatItems]
  | .pair l r => by simp [Val.rl, flatItems]
  | .range s e => by simp [Val.rl, flatItems]
  | .slice v r => by simp [Val.rl, flatItems]
  | .part f x => by simp [Val.rl, flatItems]
  | .unit => by simp [Val.rl, flatItems]
  | .tru => by simp [Val.rl, flatItems]
  | .fls => by simp [Val.rl, flatItems]
  | .num n => by simp [Val.rl, flatItems]
  | .char c => by simp [Val.rl, flatItems]
  | .byte b => by simp [Val.rl, flatItems]
  | .sym s => by simp [Val.rl, flatItems]
  | .ext n => by simp [Val.rl, flatItems]
  | .type t => by simp [Val.rl, flatItems]
  | .chars cs => by simp [Val.rl, flatItems]
  | .bytes bs => by simp [Val.rl, flatItems]
  | .symList ps => by simp [Val.rl, flatItems]
  | .custom => by simp [Val.rl, flatItems]

theorem lookupSym_rl (s : Nat) : ∀ (l : List (Val F)), lookupSym s (l.map (Val.rl ρ)) = (lookupSym s l).map (Val.rl ρ)
  | [] => rfl
  | x :: xs => by
    have ih := lookupSym_rl s xs
    cases x with
    | pair k v =>
      cases k <;> simp only [List.map_cons, Val.rl, lookupSym, ih]
      split <;> simp
    | list items => simp only [List.map_cons, Val.rl_list, lookupSym, ih]
    | _ => simp only [List.map_cons, Val.rl, lookupSym, ih]

theorem lookupRev_rl (s : Nat) : ∀ (v : Val F), lookupRev s (Val.rl ρ v) = (lookupRev s v).map (Val.rl ρ)
  | .concat l r => by
    simp only [Val.rl, lookupRev, lookupRev_rl s l, lookupRev_rl s r]
    cases lookupRev s r <;> simp [Option.orElse]
  | .list items => by simp only [Val.rl_list, lookupRev, lookupSym_rl]
  | .pair k v => by
    have := lookupSym_rl ρ s [Val.pair k v]
    simp only [List.map_cons, List.map_nil] at this
    simp only [Val.rl, lookupRev] at this ⊢
    exact this
  | .expr j => by simp [Val.rl, lookupRev, lookupSym]
  | .range s e => by simp [Val.rl, lookupRev, lookupSym]
  | .slice v r => by simp [Val.rl, lookupRev, lookupSym]
  | .part f x => by simp [Val.rl, lookupRev, lookupSym]
  | .unit => by simp [Val.rl, lookupRev, lookupSym]
  | .tru => by simp [Val.rl, lookupRev, lookupSym]
  | .fls => by simp [Val.rl, lookupRev, lookupSym]
  | .num n => by simp [Val.rl, lookupRev, lookupSym]
  | .char c => by simp [Val.rl, lookupRev, lookupSym]
  | .byte b => by simp [Val.rl, lookupRev, lookupSym]
  | .sym s => by simp [Val.rl, lookupRev, lookupSym]
  | .ext n => by simp [Val.rl, lookupRev, lookupSym]
  | .type t => by simp [Val.rl, lookupRev, lookupSym]
  | .chars cs => by simp [Val.rl, lookupRev, lookupSym]
  | .bytes bs => by simp [Val.rl, lookupRev, lookupSym]
  | .symList ps => by simp [Val.rl, lookupRev, lookupSym]
  | .custom => by simp [Val.rl, lookupRev, lookupSym]

end Garnish.Abs
