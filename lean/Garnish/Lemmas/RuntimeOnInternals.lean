/-
Lemmas/RuntimeInternals.lean over `StoreLawsOn`: `type_of`, `type_equal`, `equal` / `not_equal`, internals.rs.
-/
import Garnish.Lemmas.RuntimeOnConcat3
import Garnish.Lemmas.RuntimeInternals
import Garnish.Model.Runtime.StepDomainFull
import Garnish.Model.Runtime.Internals
import Garnish.Props.C11Refine
set_option linter.unusedSimpArgs false
set_option linter.unusedVariables false
namespace Garnish.Lemmas.Runtime.On
open Garnish Gen Garnish.Abs Garnish.Model.Equality Garnish.Model.Runtime Garnish.Lemmas.Runtime

variable {F σ : Type} {S : RStore F σ} {Inv : σ → Prop} {Rd : σ → Nat → Prop} (fo : FloatOps F)

/-- `type_of`: Abs/Ops `unaryOp .typeOf` -/
theorem typeOfH_spec (L : StoreLawsOn S Inv Rd) {s : σ} {a : Nat} {v : Val F} {rest : List Nat}
    (hregs : S.regs s = a :: rest) (h : Decodes (S.view s) a v)
    (hinv : Inv s := by inv_tac) (hdp : Deep S s rest := by deep_tac) :
    PushedI S Inv s (typeOfH S s) none rest (.type v.typeOf) := by
  obtain ⟨s0, h0, e0⟩ := nextRef_cons L hregs
  rw [typeOfH, bind_ok h0, bind_ok (getDataType_of (e0.dec h))]
  exact addPushTail L e0 (adds_i (L.addType v.typeOf s0 (by inv_tac))) (by intro h; cases h)

theorem getType_of {s : σ} {a : Nat} {t : Ty} (h : Decodes (S.view s) a (.type t)) : getType S a s = .ok (t, s) := by
  cases h with
  | type _ hn => simp [getType, RM.lift, hn, fetch, Outcome.ofOption, Outcome.bind]

/-- `type_equal`: Abs/Ops `typeEqual` -/
theorem typeEqualH_spec (L : StoreLawsOn S Inv Rd) {s : σ} {r l : Nat} {vr vl : Val F} {rest : List Nat}
    (hregs : S.regs s = r :: l :: rest) (hl : Decodes (S.view s) l vl) (hr : Decodes (S.view s) r vr)
    (hinv : Inv s := by inv_tac) (hdp : Deep S s rest := by deep_tac) :
    PushedI S Inv s (typeEqualH S s) none rest (Abs.typeEqual vl vr) := by
  obtain ⟨s0, h0, e0⟩ := nextTwoRawRef_cons L hregs
  have hr0 := e0.dec hr
  rw [typeEqualH, bind_ok h0]
  simp only []
  rw [bind_ok (getDataType_of (e0.dec hl)), bind_ok (getDataType_of hr0)]
  have key : ∀ (rt : Ty), Abs.typeEqual vl vr = Val.ofBool (vl.typeOf == rt) →
      PushedI S Inv s ((do pushBoolean S (vl.typeOf == rt); pure none : RM σ (Option Nat)) s0) none rest
        (Abs.typeEqual vl vr) := by
    intro rt hrt
    obtain ⟨x, s2, h2, d2, e2⟩ := pushBoolean_spec L (vl.typeOf == rt) s0
    rw [e0.regs, e0.vals] at e2
    rw [hrt]
    exact ⟨x, s2, by rw [bind_ok h2]; rfl, d2, e0.trans e2⟩
  by_cases ht : vr.typeOf = .type_
  · cases vr <;> simp [Val.typeOf] at ht
    rename_i t
    have hb : ((Val.type t : Val F).typeOf == Ty.type_) = true := rfl
    simp only [hb, if_true]
    rw [bind_ok (getType_of hr0)]
    exact key t rfl
  · have hb : (vr.typeOf == Ty.type_) = false := by
      cases vr <;> first | rfl | exact absurd rfl ht
    simp only [hb, Bool.false_eq_true, if_false]
    rw [bind_ok (pure_apply _ s0)]
    refine key vr.typeOf ?_
    cases vr <;> first | rfl | exact absurd rfl ht

/-- `equal` / `not_equal` through the read-only model: C11's verdict, two registers consumed -/
theorem equalH_spec (L : StoreLawsOn S Inv Rd) (fuel : Nat) (negate : Bool) {s : σ} {r l : Nat} {vr vl : Val F}
    {rest : List Nat} (hregs : S.regs s = r :: l :: rest) (hl : Decodes (S.view s) l vl)
    (hr : Decodes (S.view s) r vr) (nl : NoSlice vl) (nr : NoSlice vr) (hf : eqFuel vl vr ≤ fuel)
    (hinv : Inv s := by inv_tac) (hdp : Deep S s rest := by deep_tac) :
    PushedI S Inv s (equalH fo S fuel negate s) none rest
      (Val.ofBool (if negate then !valEq fo vl vr else valEq fo vl vr)) := by
  have hc := Garnish.Props.C11Refine.C11_equal_refines_fuel fo (S.view s) l r vl vr rest hl hr nl nr fuel hf
  rw [← hregs] at hc
  have hpop : (S.regs s).length - rest.length = [r, l].length := by rw [hregs]; simp; omega
  obtain ⟨s1, h1, e1, _⟩ := popRegisters_spec L [r, l] rest s hinv hdp hregs
  obtain ⟨x, s2, h2, d2, e2⟩ := pushBoolean_spec L (if negate then !valEq fo vl vr else valEq fo vl vr) s1
  rw [e1.regs, e1.vals] at e2
  refine ⟨x, s2, ?_, d2, e1.trans e2⟩
  unfold equalH
  rw [hc]
  simp only []
  rw [hpop, bind_ok h1, bind_ok h2]; rfl

theorem getConcatenation_of {s : σ} {a x y : Nat} (h : (S.view s).concatenation a = some (x, y)) :
    getConcatenation S a s = .ok ((x, y), s) := by
  simp [getConcatenation, RM.lift, h, fetch, Outcome.ofOption, Outcome.bind]

/-- an existing address is pushed after the operand was popped -/
theorem pushExisting (L : StoreLawsOn S Inv Rd) {s s0 : σ} {rest : List Nat} {x : Nat} {v : Val F}
    (e0 : EffI S Inv s s0 rest (S.vals s)) (d : Decodes (S.view s0) x v) (hv : v ≠ .custom) :
    PushedI S Inv s ((do S.pushRegister x; pure none : RM σ (Option Nat)) s0) none rest v := by
  obtain ⟨s1, h1, e1⟩ := pushReg L d hv
  rw [e0.regs, e0.vals] at e1
  exact ⟨x, s1, by rw [bind_ok h1]; rfl, e1.dec d, e0.trans e1⟩

theorem pushUnitTail (L : StoreLawsOn S Inv Rd) {s s0 : σ} {rest : List Nat} (e0 : EffI S Inv s s0 rest (S.vals s)) :
    PushedI S Inv s ((do pushUnit S; pure none : RM σ (Option Nat)) s0) none rest .unit := by
  obtain ⟨x, s1, h1, d1, e1⟩ := pushUnit_spec L s0
  rw [e0.regs, e0.vals] at e1
  exact ⟨x, s1, by rw [bind_ok h1]; rfl, d1, e0.trans e1⟩

/-- `access_left_internal` refines Abs/Ops `accessLeftInternal` -/
theorem accessLeftInternalH_spec (L : StoreLawsOn S Inv Rd) {s : σ} {a : Nat} {v : Val F} {rest : List Nat}
    (hregs : S.regs s = a :: rest) (h : Decodes (S.view s) a v)
    (hres : ∀ x, Abs.accessLeftInternal v = .val x → x ≠ .custom)
    (hinv : Inv s := by inv_tac) (hdp : Deep S s rest := by deep_tac) :
    RefinesOutI S Inv s (accessLeftInternalH S s) none rest a 0 (Abs.accessLeftInternal v) := by
  obtain ⟨s0, h0, e0⟩ := nextRef_cons L hregs
  have h' := e0.dec h
  rw [accessLeftInternalH, bind_ok h0, bind_ok (getDataType_of h')]
  cases v
  case pair vl vr =>
    cases h' with
    | pair _ hp dl dr =>
      simp only [Val.typeOf]
      rw [bind_ok (getPair_of hp)]
      exact pushExisting L e0 dl (hres _ rfl)
  case range vs ve =>
    cases h' with
    | range _ hrg ds de =>
      simp only [Val.typeOf]
      rw [bind_ok (getRangeRaw_of hrg)]
      simp only []
      rw [bind_ok (getDataType_of ds)]
      cases vs
      case num n => exact pushExisting L e0 ds (hres _ rfl)
      all_goals exact pushUnitTail L e0
  case slice vv vr =>
    cases h' with
    | slice _ hs dv dr =>
      simp only [Val.typeOf]
      rw [bind_ok (getSlice_of hs)]
      exact pushExisting L e0 dv (hres _ rfl)
  case concat vl vr =>
    cases h' with
    | concat _ hc dl dr _ _ _ =>
      simp only [Val.typeOf]
      rw [bind_ok (getConcatenation_of hc)]
      exact pushExisting L e0 dl (hres _ rfl)
  all_goals exact ⟨s0, e0, deferOrUnit_spec L s0 .accessLeftInternal _ _ none⟩

/-- `access_right_internal` refines Abs/Ops `accessRightInternal` -/
theorem accessRightInternalH_spec (L : StoreLawsOn S Inv Rd) {s : σ} {a : Nat} {v : Val F} {rest : List Nat}
    (hregs : S.regs s = a :: rest) (h : Decodes (S.view s) a v)
    (hres : ∀ x, Abs.accessRightInternal v = .val x → x ≠ .custom)
    (hinv : Inv s := by inv_tac) (hdp : Deep S s rest := by deep_tac) :
    RefinesOutI S Inv s (accessRightInternalH S s) none rest a 0 (Abs.accessRightInternal v) := by
  obtain ⟨s0, h0, e0⟩ := nextRef_cons L hregs
  have h' := e0.dec h
  rw [accessRightInternalH, bind_ok h0, bind_ok (getDataType_of h')]
  cases v
  case pair vl vr =>
    cases h' with
    | pair _ hp dl dr =>
      simp only [Val.typeOf]
      rw [bind_ok (getPair_of hp)]
      exact pushExisting L e0 dr (hres _ rfl)
  case range vs ve =>
    cases h' with
    | range _ hrg ds de =>
      simp only [Val.typeOf]
      rw [bind_ok (getRangeRaw_of hrg)]
      simp only []
      rw [bind_ok (getDataType_of de)]
      cases ve
      case num n => exact pushExisting L e0 de (hres _ rfl)
      all_goals exact pushUnitTail L e0
  case slice vv vr =>
    cases h' with
    | slice _ hs dv dr =>
      simp only [Val.typeOf]
      rw [bind_ok (getSlice_of hs)]
      exact pushExisting L e0 dr (hres _ rfl)
  case concat vl vr =>
    cases h' with
    | concat _ hc dl dr _ _ _ =>
      simp only [Val.typeOf]
      rw [bind_ok (getConcatenation_of hc)]
      exact pushExisting L e0 dr (hres _ rfl)
  all_goals exact ⟨s0, e0, deferOrUnit_spec L s0 .accessRightInternal _ _ none⟩

/-- a length pushed as a number -/
theorem pushLenTail (L : StoreLawsOn S Inv Rd) {s s0 : σ} {rest : List Nat} (e0 : EffI S Inv s s0 rest (S.vals s)) (n : Nat)
    (hn : n ≤ 2147483647) :
    PushedI S Inv s ((do pushNumber S (sizeToNumber n); pure none : RM σ (Option Nat)) s0) none rest
      (.num (.int (n : Int))) := by
  obtain ⟨x, s1, h1, d1, e1⟩ := pushNumber_spec L (sizeToNumber n : Number F) s0
  rw [e0.regs, e0.vals] at e1
  rw [sizeToNumber_small hn] at d1
  exact ⟨x, s1, by rw [bind_ok h1]; rfl, d1, e0.trans e1⟩

/-- `range_len` of two number ends, added and pushed -/
theorem rangeLenTail (L : StoreLawsOn S Inv Rd) {s s0 : σ} {rest : List Nat} {la ra : Nat}
    (e0 : EffI S Inv s s0 rest (S.vals s)) (x y : Number F) :
    RefinesOutI S Inv s ((do
        let result ← Model.Runtime.rangeLen fo x y
        let addr ← S.addNumber result
        S.pushRegister addr
        pure none : RM σ (Option Nat)) s0) none rest la ra
      (match Abs.rangeLen fo x y with
       | some n => .val (.num n)
       | none => .err .number) := by
  rw [bind_apply, rangeLen_rm]
  cases Abs.rangeLen fo x y with
  | none => rfl
  | some n =>
    simp only []
    exact addPushTail L e0 (adds_i (L.addNumber n s0 (by inv_tac))) (by intro h; cases h)

/-- `access_length_internal` refines Abs/Ops `accessLengthInternal` -/
theorem accessLengthInternalH_spec (L : StoreLawsOn S Inv Rd) (fuel : Nat) {s : σ} {a : Nat} {v : Val F} {rest : List Nat}
    (hregs : S.regs s = a :: rest) (h : Decodes (S.view s) a v) (hd : LengthDomain v) (hf : accessFuel v ≤ fuel)
    (hnc : ncConcat v)
    (hinv : Inv s := by inv_tac) (hdp : Deep S s rest := by deep_tac) :
    RefinesOutI S Inv s (accessLengthInternalH fo S fuel s) none rest a 0 (Abs.accessLengthInternal fo v) := by
  obtain ⟨s0, h0, e0⟩ := nextRef_cons L hregs
  have h' := e0.dec h
  rw [accessLengthInternalH, bind_ok h0, bind_ok (getDataType_of h')]
  cases v
  case pair vl vr =>
    cases h' with
    | pair _ hp dl dr =>
      simp only [Val.typeOf]
      rw [bind_ok (getPair_of hp)]
      simp only []
      rw [bind_ok (getDataType_of dl)]
      cases vl
      case sym k =>
        obtain ⟨x, s1, h1, d1, e1⟩ := pushNumber_spec L (.int 1 : Number F) s0
        rw [e0.regs, e0.vals] at e1
        exact ⟨x, s1, by simp only [Val.typeOf]; rw [bind_ok h1]; rfl, d1, e0.trans e1⟩
      all_goals exact pushUnitTail L e0
  case list vs =>
    obtain ⟨items, hi, hdl⟩ := listItems_of h'
    have hl := EqualityRefine.decodesList_length hdl
    obtain ⟨hlen', _⟩ := L.listIdx s0 a items hi
    simp only [Val.typeOf]
    rw [bind_ok (readR_ok (g := fun st => S.listLen st a) hlen'), hl]
    exact pushLenTail L e0 vs.length hd
  case chars cs =>
    obtain ⟨hlen', _⟩ := L.charIdx s0 a cs (chars_of' h')
    simp only [Val.typeOf]
    rw [bind_ok (readR_ok (g := fun st => S.charLen st a) hlen')]
    exact pushLenTail L e0 cs.length hd
  case bytes cs =>
    obtain ⟨hlen', _⟩ := L.byteIdx s0 a cs (bytes_of' h')
    simp only [Val.typeOf]
    rw [bind_ok (readR_ok (g := fun st => S.byteLen st a) hlen')]
    exact pushLenTail L e0 cs.length hd
  case range vs ve =>
    cases h' with
    | range _ hrg ds de =>
      simp only [Val.typeOf]
      rw [bind_ok (getRangeRaw_of hrg)]
      simp only []
      rw [bind_ok (getDataType_of de), bind_ok (getDataType_of ds)]
      by_cases hn : vs.typeOf = .number ∧ ve.typeOf = .number
      · obtain ⟨x, rfl⟩ := typeOf_number hn.1
        obtain ⟨y, rfl⟩ := typeOf_number hn.2
        simp only [Val.typeOf, Abs.accessLengthInternal]
        rw [bind_ok (getNumber_of ds), bind_ok (getNumber_of de)]
        exact rangeLenTail fo L e0 x y
      · have e1 : Abs.accessLengthInternal fo (.range vs ve) = .val .unit := by
          cases vs <;> cases ve <;> first | rfl | (exfalso; exact hn ⟨rfl, rfl⟩)
        rw [e1]
        generalize vs.typeOf = t1 at hn ⊢
        generalize ve.typeOf = t2 at hn ⊢
        cases t2
        case number =>
          cases t1
          case number => exact absurd ⟨rfl, rfl⟩ hn
          all_goals exact pushUnitTail L e0
        all_goals exact pushUnitTail L e0
  case slice vv sr =>
    obtain ⟨ra, rb, rfl⟩ := hd
    cases h' with
    | slice _ hs dv dsr =>
      cases dsr with
      | range _ hrg ds de =>
        simp only [Val.typeOf]
        rw [bind_ok (getSlice_of hs)]
        simp only []
        rw [bind_ok (getRangeRaw_of hrg)]
        simp only []
        rw [bind_ok (getDataType_of ds), bind_ok (getDataType_of de)]
        by_cases hn : ra.typeOf = .number ∧ rb.typeOf = .number
        · obtain ⟨x, rfl⟩ := typeOf_number hn.1
          obtain ⟨y, rfl⟩ := typeOf_number hn.2
          simp only [Val.typeOf, Abs.accessLengthInternal]
          rw [bind_ok (getNumber_of ds), bind_ok (getNumber_of de)]
          exact rangeLenTail fo L e0 x y
        · have e1 : Abs.accessLengthInternal fo (.slice vv (.range ra rb)) = .err .state := by
            cases ra <;> cases rb <;> first | rfl | (exfalso; exact hn ⟨rfl, rfl⟩)
          rw [e1]
          generalize ra.typeOf = t1 at hn ⊢
          generalize rb.typeOf = t2 at hn ⊢
          cases t1
          case number =>
            cases t2
            case number => exact absurd ⟨rfl, rfl⟩ hn
            all_goals rfl
          all_goals rfl
  case concat vl vr =>
    have hd' : (flatItems vl ++ flatItems vr).length ≤ 2147483647 := hd
    obtain ⟨s1, h1, e1⟩ := concatenationLen_spec fo L fuel h' hf hd' hnc
    rw [e0.regs, e0.vals] at e1
    simp only [Val.typeOf]
    rw [bind_ok h1]
    have hs : (sizeToNumber (flatItems vl ++ flatItems vr).length : Number F)
        = .int ((flatItems vl ++ flatItems vr).length : Nat) := sizeToNumber_small hd'
    obtain ⟨ad, s2, g2, d2, e2⟩ := adds_i (L.addNumber (sizeToNumber (flatItems vl ++ flatItems vr).length : Number F) s1 (by inv_tac))
    obtain ⟨s3, g3, e3⟩ := pushReg L d2 (by intro h; cases h)
    rw [e2.regs, e2.vals, e1.regs, e1.vals] at e3
    have d3 : Decodes (S.view s3) ad (.num (.int ((flatItems vl ++ flatItems vr).length : Nat))) :=
      hs ▸ e3.dec d2
    exact ⟨ad, s3, by rw [bind_ok g2, bind_ok g3]; rfl, d3, ((e0.trans e1).trans e2).trans e3⟩
  all_goals exact ⟨s0, e0, deferOrUnit_spec L s0 .accessLengthInternal _ _ none⟩

end Garnish.Lemmas.Runtime.On
