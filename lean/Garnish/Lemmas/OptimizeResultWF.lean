/-
`WF` is kept by `clone_data` and by `optimize`: the copies are well-formed cells whose links lead to retained
nodes or to copies made earlier (lower addresses).
-/
import Garnish.Lemmas.OptimizeList
set_option maxHeartbeats 2000000
namespace Garnish.BasicOpt
open Garnish

theorem prefix_append {A A' : Array Cell} (hle : A.size ≤ A'.size) (h : ∀ i, i < A.size → A'[i]? = A[i]?) :
    A' = A ++ A'.extract A.size A'.size := by
  apply Array.ext_getElem?
  intro i
  by_cases hi : i < A.size
  · rw [Array.getElem?_append_left hi, h i hi]
  · rw [Array.getElem?_append_right (by omega), Array.getElem?_extract]
    by_cases hi2 : i < A'.size
    · have : i - A.size < min A'.size A'.size - A.size := by simp; omega
      simp only [this, if_true]
      congr 1; omega
    · have : ¬ i - A.size < min A'.size A'.size - A.size := by simp; omega
      simp only [this, if_false]
      exact Array.getElem?_eq_none (by omega)

theorem WF.kidsNodes {s : Store} (hwf : WF s) : KidsNodes s.cells := by
  intro i sh hsh k hk
  have := kid_node hwf hsh hk
  simpa [isNode, Option.isSome_iff_exists] using this

theorem headerOK_of {cells : Array Cell} {j : Nat} {c : Cell} (hc : cells[j]? = some c)
    (h : neverNode c = true ∨ isNode cells j = true) : headerOK cells j = true := by
  unfold headerOK
  rw [hc]
  rcases h with h | h
  · cases c <;> simp [neverNode] at h <;> rfl
  · cases c <;> first | rfl | exact h

/-- the local conditions of `WF` for a cell behind the index list, from `FreshOK` with offset 0 -/
theorem freshOK_local {cur : Store} {hi j : Nat} (hret : cur.retention ≤ hi) (hj : hi ≤ j) (h : FreshOK 0 cur hi j) :
    nodeOK cur.cells j = true ∧ listOK cur.cells j = true ∧ headerOK cur.cells j = true := by
  obtain ⟨c, hc, hl, hk⟩ := h
  have hlist : listOK cur.cells j = true := by
    unfold listOK; rw [hc]
    cases c <;> first | rfl | (simp only [decide_eq_true_eq]; exact hl _ _ rfl)
  rcases hk with hn | ⟨sh, hsh, hkids⟩
  · refine ⟨by simp [nodeOK, neverNode_shape hc hn], hlist, headerOK_of hc (Or.inl hn)⟩
  · refine ⟨?_, hlist, headerOK_of hc (Or.inr (by simp [isNode, hsh]))⟩
    simp only [nodeOK, hsh, List.all_eq_true, Bool.and_eq_true, decide_eq_true_eq]
    intro k' hk'
    rcases hkids k' hk' with ⟨h1, sh2, h2⟩ | ⟨h1, h2, sh2, h3⟩
    · exact ⟨by omega, by simp [isNode, h2]⟩
    · simp only [Nat.add_zero] at h1 h2 h3
      exact ⟨h2, by simp [isNode, h3]⟩

/-- **`clone_data` keeps `WF`** and returns a readable address -/
theorem cloneData_wf {s s' : Store} {a r : Nat} (hwf : WF s) (ha : isNode s.cells a = true)
    (h : Store.cloneData s a = .ok (s', r)) : WF s' ∧ isNode s'.cells r = true := by
  have hext0 := cloneData_original_untouched h
  simp only [isNode, Option.isSome_iff_exists] at ha
  obtain ⟨sha, hsha⟩ := ha
  simp only [Store.cloneData, bind_eq_ok] at h
  obtain ⟨⟨s1, st⟩, h1, h2⟩ := h
  obtain ⟨e1, hst⟩ := createIndexStack_ext s.cells.size h1
  subst hst
  have hkn := hwf.kidsNodes
  -- the index list names nodes
  have hin0 : ItemsNodes s.cells s.cells.size s := ⟨fun _ _ h => h, fun j h1 h2 => by omega⟩
  obtain ⟨hin1, hsz1⟩ := createIndexStack_nodes (Nat.le_refl _) hkn hin0 (Nat.le_refl _) hsha h1
  have hpre : FreshPre s.cells s1 s.cells.size s1.cells.size := by
    refine ⟨hkn, ?_⟩
    intro j hj1 hj2 o ho
    obtain ⟨o', sh, h3, h4⟩ := hin1.items j hj1 hj2
    rw [ho] at h3
    simp only [Option.some.injEq, Cell.cloneItem.injEq] at h3
    subst h3; exact ⟨sh, h4⟩
  -- the walk
  simp only [Store.cloneIndexStack, bind_eq_ok] at h2
  obtain ⟨s2, hloop, c, hgt, h3⟩ := h2
  have hhead : s1.cells[s.cells.size]? = some (.cloneItem a) := by
    simp only [Store.createIndexStack, bind_eq_ok, pure_eq_ok] at h1
    obtain ⟨⟨sp, ip⟩, hp, sl, hl, h3'⟩ := h1
    simp only [Prod.mk.injEq] at h3'
    obtain ⟨h3', _⟩ := h3'
    subst h3'
    obtain ⟨_, hcells, _⟩ := push_ok hp
    have e := indexLoop_ext (s.cells.size + 1) _ _ _ _ _ _ hl
    rw [e.keep s.cells.size (by omega) (by rw [hcells]; simp), hcells]
    simp
  have hsize : s.cells.size < s1.cells.size := by
    rcases Nat.lt_or_ge s.cells.size s1.cells.size with h | h
    · exact h
    · rw [Array.getElem?_eq_none h] at hhead; cases hhead
  have hinv0 : CInv 0 s.cells s1 s.cells.size s1.cells.size (s1.cells.size - s.cells.size) s1 := by
    refine ⟨?_, rfl, rfl, Nat.le_refl _, by omega, fun _ _ _ => rfl, ?_, fun _ j h1 h2 => by omega⟩
    · intro i c hc
      have hi : i < s.cells.size := by
        rcases Nat.lt_or_ge i s.cells.size with h | h
        · exact h
        · rw [Array.getElem?_eq_none h] at hc; cases hc
      rw [e1.keep i hi hi]; exact hc
    · intro j hj1 hj2; omega
  have hinv := cloneLoop_step_inv (Nat.le_refl _) hwf.optHyp.listsWF (Or.inl rfl) _ _ _ hinv0
    (by simpa [Store.cursor] using hloop)
  -- the returned address
  obtain ⟨o, n, hcell, hs1, hgood⟩ := hinv.done s.cells.size (by omega) hsize
  rw [hhead] at hs1
  simp only [Option.some.injEq, Cell.cloneItem.injEq] at hs1
  subst hs1
  have hc := get_ok hgt
  rw [hcell] at hc
  simp only [Option.some.injEq] at hc
  subst hc
  simp only [pure, Outcome.ok.injEq, Prod.mk.injEq] at h3
  obtain ⟨hs', hr⟩ := h3
  subst hs'; subst hr
  have hretle : s2.retention ≤ s1.cells.size := by
    rw [hinv.ret, e1.frame.1]; have := hwf.retLe; omega
  have hrnode : isNode s2.cells n = true := by
    rcases hgood with ⟨e, _⟩ | ⟨ni, _, hni, hcl⟩
    · subst e
      simp [isNode, shape_agree (agreeNC_of_all hinv.agree0) hsha]
    · simp only [Nat.add_zero] at hni
      subst hni
      obtain ⟨sh', g1, _⟩ := hcl sha hsha
      simp [isNode, g1]
  refine ⟨?_, hrnode⟩
  -- `s2` is `s` with cells appended
  have hsz2 : s.cells.size ≤ s2.cells.size := hext0.mono
  have hcells : s2.cells = s.cells ++ s2.cells.extract s.cells.size s2.cells.size :=
    prefix_append hsz2 (fun i hi => hext0.keep i hi hi)
  have hf := hext0.frame
  refine append_wf _ hwf hcells hf.1 hf.2.2.1 ?_ ?_ ?_ ?_
  · intro j hj1 hj2
    by_cases hjh : j < s1.cells.size
    · -- a cell of the index list: now a map entry
      obtain ⟨o, n', hc', _, _⟩ := hinv.done j (by omega) hjh
      have hsh : shape s2.cells j = none := neverNode_shape hc' rfl
      exact ⟨by simp [nodeOK, hsh], by simp [listOK, hc'], by simp [headerOK, hc']⟩
    · exact freshOK_local hretle (by omega) (hinv.fresh hpre j (by omega) hj2)
  · rw [hf.2.2.2.2.1, hcells]; exact headOK_append hwf _ hwf.reg
  · rw [hf.2.2.2.1, hcells]; exact headOK_append hwf _ hwf.val
  · rw [hf.2.2.2.2.2, hcells]; exact headOK_append hwf _ hwf.frm

/-! ### `optimize` -/

theorem indexSymbols_nodes {s0 : Array Cell} {top : Nat} (htop : s0.size ≤ top) (hk : KidsNodes s0) :
    ∀ (n : Nat) (cur cur' : Store) (i : Nat), ItemsNodes s0 top cur → top ≤ cur.cells.size →
      (∀ c ∈ cur.symtab.toList, ∀ sy d, c = Cell.associativeItem sy d → ∃ sh, shape s0 d = some sh) →
      Store.indexSymbols cur i n = .ok cur' → ItemsNodes s0 top cur' ∧ cur.cells.size ≤ cur'.cells.size
  | 0, cur, cur', i, hin, _, _, h => by
    simp only [Store.indexSymbols, Outcome.ok.injEq] at h
    subst h; exact ⟨hin, Nat.le_refl _⟩
  | n + 1, cur, cur', i, hin, hle, hsym, h => by
    simp only [Store.indexSymbols, bind_eq_ok] at h
    obtain ⟨⟨sy, di⟩, hse, ⟨s1, st⟩, h3, h4⟩ := h
    have hent : cur.symtab[i]? = some (.associativeItem sy di) := by
      unfold Store.symEntry at hse
      split at hse
      · rename_i sy' d' heq
        simp only [Outcome.ok.injEq, Prod.mk.injEq] at hse
        rw [heq, hse.1, hse.2]
      · simp at hse
      · simp at hse
    obtain ⟨sh, hsh⟩ := hsym _ (List.mem_of_getElem? (by rw [Array.getElem?_toList]; exact hent)) sy di rfl
    obtain ⟨g1, g2⟩ := createIndexStack_nodes htop hk hin hle hsh h3
    have hst : s1.symtab = cur.symtab := (createIndexStack_ext 0 h3).1.frame.2.2.1
    obtain ⟨g3, g4⟩ := indexSymbols_nodes htop hk n s1 cur' (i + 1) g1 (by omega) (by rw [hst]; exact hsym) h4
    exact ⟨g3, by omega⟩

theorem indexOpt_nodes {s0 : Array Cell} {top : Nat} (htop : s0.size ≤ top) (hk : KidsNodes s0)
    {cur cur' : Store} {o : Option Nat} (hin : ItemsNodes s0 top cur) (hle : top ≤ cur.cells.size)
    (ho : ∀ i, o = some i → ∃ sh, shape s0 i = some sh) (h : Store.indexOpt cur o = .ok cur') :
    ItemsNodes s0 top cur' ∧ cur.cells.size ≤ cur'.cells.size := by
  cases o with
  | none =>
    simp only [Store.indexOpt, Outcome.ok.injEq] at h
    subst h; exact ⟨hin, Nat.le_refl _⟩
  | some i =>
    simp only [Store.indexOpt, bind_eq_ok, pure_eq_ok] at h
    obtain ⟨⟨s1, st⟩, h1, h2⟩ := h
    subst h2
    obtain ⟨sh, hsh⟩ := ho i rfl
    exact createIndexStack_nodes htop hk hin hle hsh h1

theorem indexRoots_nodes {s0 : Array Cell} {top : Nat} (htop : s0.size ≤ top) (hk : KidsNodes s0) :
    ∀ (rs : List Nat) (cur cur' : Store), ItemsNodes s0 top cur → top ≤ cur.cells.size →
      (∀ r ∈ rs, ∃ sh, shape s0 r = some sh) → Store.indexRoots cur rs = .ok cur' →
      ItemsNodes s0 top cur' ∧ cur.cells.size ≤ cur'.cells.size
  | [], cur, cur', hin, _, _, h => by
    simp only [Store.indexRoots, Outcome.ok.injEq] at h
    subst h; exact ⟨hin, Nat.le_refl _⟩
  | r :: rs, cur, cur', hin, hle, hall, h => by
    simp only [Store.indexRoots, bind_eq_ok] at h
    obtain ⟨⟨s1, st⟩, h1, h2⟩ := h
    obtain ⟨sh, hsh⟩ := hall r (by simp)
    obtain ⟨g1, g2⟩ := createIndexStack_nodes htop hk hin hle hsh h1
    obtain ⟨g3, g4⟩ := indexRoots_nodes htop hk rs s1 cur' g1 (by omega) (fun x hx => hall x (by simp [hx])) h2
    exact ⟨g3, by omega⟩

theorem node_shape {cells : Array Cell} {a : Nat} (h : isNode cells a = true) : ∃ sh, shape cells a = some sh := by
  simpa [isNode, Option.isSome_iff_exists] using h

theorem head_shape {cells : Array Cell} {o : Option Nat} (h : headOK cells o = true) :
    ∀ i, o = some i → ∃ sh, shape cells i = some sh := by
  intro i hi; subst hi; exact node_shape h

/-- the index phase of `optimize` on a well-formed store names nodes only -/
theorem indexPhase_pre {s : Store} {roots : List Nat} {s5 : Store} (hwf : WF s) (hroots : rootsOK s roots = true)
    (h : IndexPhase s roots s5) : FreshPre s.cells s5 s.cells.size s5.cells.size := by
  obtain ⟨s1, s2, s3, s4, h1, h2, h3, h4, h5⟩ := h
  have hkn := hwf.kidsNodes
  have hin0 : ItemsNodes s.cells s.cells.size s := ⟨fun _ _ h => h, fun j h1 h2 => by omega⟩
  obtain ⟨i1, z1⟩ := indexSymbols_nodes (Nat.le_refl _) hkn _ _ _ _ hin0 (Nat.le_refl _) (by
    intro c hc sy d hcd
    subst hcd
    have := hwf.syms _ hc
    exact node_shape (by simpa [symOK] using this)) h1
  obtain ⟨i2, z2⟩ := indexOpt_nodes (Nat.le_refl _) hkn i1 z1 (head_shape hwf.reg) h2
  obtain ⟨i3, z3⟩ := indexOpt_nodes (Nat.le_refl _) hkn i2 (by omega) (head_shape hwf.val) h3
  obtain ⟨i4, z4⟩ := indexOpt_nodes (Nat.le_refl _) hkn i3 (by omega) (head_shape hwf.frm) h4
  obtain ⟨i5, z5⟩ := indexRoots_nodes (Nat.le_refl _) hkn _ _ _ i4 (by omega) (by
    intro r hr
    simp only [rootsOK, List.all_eq_true] at hroots
    exact node_shape (hroots r hr)) h5
  refine ⟨hkn, ?_⟩
  intro j hj1 hj2 o ho
  obtain ⟨o', sh, g1, g2⟩ := i5.items j hj1 hj2
  rw [ho] at g1
  simp only [Option.some.injEq, Cell.cloneItem.injEq] at g1
  subst g1; exact ⟨sh, g2⟩

end Garnish.BasicOpt
