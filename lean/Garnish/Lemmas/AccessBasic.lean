import Garnish.Lemmas.AccessItems
namespace Garnish.Access
open Garnish
open Garnish.BasicOpt (Cell)

/-! ### the common shape of the text-like item getters and of the iterator constructors -/

/-- `get_char_list_item` / `get_byte_list_item` / `get_symbol_list_item` share this body -/
def genItem {β : Type} (h : Heap) (hdr : Cell → Outcome Nat) (asX : Cell → Outcome β) (la : Nat) (ix : Num) : Outcome (Option β) :=
  (h.getData la).bind fun c => (hdr c).bind fun len =>
  let index := usizeFrom ix
  if index ≥ len then .ok none else
  (itemAddr la index).bind fun a => (h.getData a).bind fun c => (asX c).bind fun x => .ok (some x)

theorem getCharListItem_eq (h : Heap) (la : Nat) (ix : Num) : getCharListItem h la ix = genItem h asCharList asChar la ix := rfl
theorem getByteListItem_eq (h : Heap) (la : Nat) (ix : Num) : getByteListItem h la ix = genItem h asByteList asByte la ix := rfl
theorem getSymbolListItem_eq (h : Heap) (la : Nat) (ix : Num) : getSymbolListItem h la ix = genItem h asSymbolList asPart la ix := rfl

/-- what makes a header projection fit a collector: it answers a length or `Err`, and a well-formed header
announces cells the collector accepts -/
structure Fits {β : Type} (h : Heap) (hdr : Cell → Outcome Nat) (proj : Cell → Option β) (bad : Outcome (List β)) : Prop where
  hdr_cases : ∀ c, (∃ n, hdr c = .ok n) ∨ hdr c = .err .data
  announced : ∀ i c n, i < h.cursor → h.cell i = some c → hdr c = .ok n →
    ∃ ys, collectWith proj bad (h.cellsAt (i + 1) n) = .ok ys ∧ Announced h i n ys proj

theorem fits_chars {h : Heap} (wf : h.WF) : Fits h asCharList charOf (.panic "garnish_impl.rs:get_char_list_iter: as_char().unwrap() on a cell that is not a Char") where
  hdr_cases c := by cases c <;> simp [asCharList]
  announced i c n hi hc hn := by
    cases c <;> simp [asCharList] at hn
    subst hn
    have := wf.cellOK hi hc
    simp only [cellOK, Bool.and_eq_true, decide_eq_true_eq] at this
    exact announced_of (bad_panic _) wf this.1 this.2

theorem fits_bytes {h : Heap} (wf : h.WF) : Fits h asByteList byteOf (.panic "garnish_impl.rs:get_byte_list_iter: as_byte().unwrap() on a cell that is not a Byte") where
  hdr_cases c := by cases c <;> simp [asByteList]
  announced i c n hi hc hn := by
    cases c <;> simp [asByteList] at hn
    subst hn
    have := wf.cellOK hi hc
    simp only [cellOK, Bool.and_eq_true, decide_eq_true_eq] at this
    exact announced_of (bad_panic _) wf this.1 this.2

theorem fits_parts {h : Heap} (wf : h.WF) : Fits h asSymbolList partOf (.err .data) where
  hdr_cases c := by cases c <;> simp [asSymbolList]
  announced i c n hi hc hn := by
    cases c <;> simp [asSymbolList] at hn
    subst hn
    have := wf.cellOK hi hc
    simp only [cellOK, Bool.and_eq_true, decide_eq_true_eq] at this
    exact announced_of (bad_err _) wf this.1 this.2

/-- `as_list()?.0` -/
def asListLen (c : Cell) : Outcome Nat := (asList c).bind fun p => .ok p.1

theorem fits_items {h : Heap} (wf : h.WF) : Fits h asListLen itemOf (.err .data) where
  hdr_cases c := by cases c <;> simp [asListLen, asList]
  announced i c n hi hc hn := by
    cases c <;> simp [asListLen, asList] at hn
    subst hn
    have := wf.cellOK hi hc
    simp only [cellOK, Bool.and_eq_true, decide_eq_true_eq] at this
    exact announced_of (bad_err _) wf (by omega) this.2

section gen
variable {β : Type} {h : Heap} {hdr : Cell → Outcome Nat} {proj : Cell → Option β} {bad : Outcome (List β)}
  {asX : Cell → Outcome β}

/-- the text-like item getters: never a panic; on a header of the right kind the answer is the `index`-th announced
item, `None` from the length on (a negative index was cast to 0) -/
theorem genItem_spec (wf : h.WF) (fit : Fits h hdr proj bad) (hproj : ∀ c x, proj c = some x → asX c = .ok x)
    (la : Nat) (ix : Num) :
    Safe (genItem h hdr asX la ix) ∧
    ∀ c n, la < h.cursor → h.cell la = some c → hdr c = .ok n →
      ∃ ys, collectWith proj bad (h.cellsAt (la + 1) n) = .ok ys ∧ ys.length = n ∧
        genItem h hdr asX la ix = .ok ys[usizeFrom ix]? := by
  have main : ∀ c n, la < h.cursor → h.cell la = some c → hdr c = .ok n →
      ∃ ys, collectWith proj bad (h.cellsAt (la + 1) n) = .ok ys ∧ ys.length = n ∧
        genItem h hdr asX la ix = .ok ys[usizeFrom ix]? := by
    intro c n hla hc hn
    obtain ⟨ys, hys, an⟩ := fit.announced la c n hla hc hn
    refine ⟨ys, hys, an.length, ?_⟩
    unfold genItem
    rw [getData_lt wf hla hc]; simp only [bind_ok, hn]
    by_cases hge : usizeFrom ix ≥ n
    · simp only [hge, if_true]
      rw [List.getElem?_eq_none (by rw [an.length]; exact hge)]
    · simp only [hge, if_false]
      obtain ⟨c', y, hrd, hp, hy⟩ := an.read wf (j := usizeFrom ix) (by omega)
      cases hia : itemAddr la (usizeFrom ix) with
      | ok a =>
        rw [hia] at hrd; simp only [bind_ok] at hrd ⊢
        rw [hrd]; simp only [bind_ok, hproj c' y hp, hy]
      | err e => rw [hia] at hrd; simp at hrd
      | panic m => rw [hia] at hrd; simp at hrd
      | fuelOut => rw [hia] at hrd; simp at hrd
  refine ⟨?_, main⟩
  rcases getData_cases wf la with ⟨_, h1⟩ | ⟨hla, c, hc, h1⟩
  · unfold genItem; rw [h1]; exact safe_err _
  · rcases fit.hdr_cases c with ⟨n, hn⟩ | he
    · obtain ⟨ys, _, _, h2⟩ := main c n hla hc hn
      rw [h2]; exact safe_ok _
    · unfold genItem; rw [h1]; simp only [bind_ok, he, bind_err]; exact safe_err _

end gen

end Garnish.Access
