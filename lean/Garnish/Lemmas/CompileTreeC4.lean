/-
The tie between the two builder models, else-chains (4): the `ElseJump` node at the top of a chain — at its second visit
the join entry is created and the registered arm bodies become pending roots.
-/
import Garnish.Lemmas.CompileTreeC3
namespace Garnish.Abs.Tree
open Garnish Garnish.Gen Garnish.Spec Garnish.Abs Garnish.Model.Parser Garnish.Model.Literals Garnish.Model.Build

variable {F : Type} {pf : List Char → Option F} {tree : Array ParseNode} {bodies : List (Nat × Expr F)}

theorem elseItems_spec (containing jti : Nat) : ∀ (items : List ConditionItem) (rs : Array Nat) (acc : Array (Nat × BuildNode)),
    (elseJumpItems containing jti items rs acc).1.toList = rs.toList ++ items.map (·.nodeIndex) ∧
    (elseJumpItems containing jti items rs acc).2.toList = acc.toList ++ items.map (fun c =>
      (c.nodeIndex, BuildNode.newWithJumpAndEnd c.nodeIndex containing c.jumpIndexToUpdate [(.jumpTo, some jti)]))
  | [], rs, acc => by simp [elseJumpItems]
  | c :: rest, rs, acc => by
    simp only [elseJumpItems]
    obtain ⟨h1, h2⟩ := elseItems_spec containing jti rest (rs.push c.nodeIndex) (acc.push _)
    rw [h1, h2]
    simp

theorem assign_ok : ∀ (L : List (Nat × BuildNode)) (nodes : Nodes), (∀ p ∈ L, p.1 < nodes.size) →
    ∃ Z, assignNewItems nodes L = .ok Z ∧ Z.size = nodes.size ∧
      (∀ x, (∀ p ∈ L, p.1 ≠ x) → Z[x]? = nodes[x]?) ∧
      (L.Pairwise (fun a b => a.1 ≠ b.1) → ∀ p ∈ L, Z[p.1]? = some (some p.2))
  | [], nodes, _ => ⟨nodes, rfl, rfl, fun _ _ => rfl, fun _ _ hp => by cases hp⟩
  | (i, b) :: rest, nodes, h => by
    have hi : i < nodes.size := h (i, b) List.mem_cons_self
    obtain ⟨Z, h1, h2, h3, h4⟩ := assign_ok rest (putNode nodes i b) (fun p hp => by
      simpa using h p (List.mem_cons_of_mem _ hp))
    refine ⟨Z, by simp only [assignNewItems, setNodeIdx_ok hi, Outcome.bind]; exact h1, by simpa using h2,
      fun x hx => ?_, fun hpw p hp => ?_⟩
    · rw [h3 x (fun p hp => hx p (List.mem_cons_of_mem _ hp)), get_putNode_ne (hx (i, b) List.mem_cons_self)]
    · rcases List.mem_cons.1 hp with rfl | hp'
      · rw [h3 i (fun q hq => Ne.symm ((List.pairwise_cons.1 hpw).1 q hq)), get_putNode_same hi]
      · exact h4 (List.pairwise_cons.1 hpw).2 p hp'

/-- the root an arm body becomes -/
def ArmRec.toRRec (cur join : Nat) (a : ArmRec F) : RRec F :=
  ⟨a.idx, a.lo, a.hi, ⟨.code a.t, a.j, [(.jumpTo, some join)], cur⟩⟩

theorem wsum_arms (cur join : Nat) : ∀ (M : List (ArmRec F)), wsum (M.map (ArmRec.toRRec cur join)) = asum M
  | [] => rfl
  | a :: M => by simp [ArmRec.toRRec, wsum_arms cur join M]

theorem wsum_reverse (R : List (RRec F)) : wsum R.reverse = wsum R := by
  simp [wsum, List.map_reverse, List.sum_reverse]

theorem elseJump_first_top {crj i l r : Nat} {pn : ParseNode} {data : BState F} {nodes : Nodes} {RS S : Array Nat} {b : BuildNode}
    (hd : pn.definition = .elseJump) (hl : pn.left = some l) (hr : pn.right = some r)
    (hb : nodes[i]? = some (some b)) (hs : b.state = .uninitialized) (hcp : b.conditionalParent = none)
    (hllt : l < nodes.size) (hrlt : r < nodes.size) :
    handleParseNode pf ⟨data, nodes, RS, S⟩ crj i pn =
      .ok ⟨data, putNode (putNode (putNode nodes i (visited b)) r (BuildNode.newWithConditional r b.containingExpressionJump i)) l
        (BuildNode.newWithConditional l b.containingExpressionJump i), RS, ((S.push b.parseNodeIndex).push r).push l⟩ := by
  obtain ⟨st, pni, cej, lpp, cc, ctl, ju, re, cpp, ci⟩ := b
  simp only at hs hcp
  subst hs; subst hcp
  simp only [handleParseNode, hd, handleElseJump, getNode, hb, Outcome.bind, hl, hr]
  rw [setNodeIdx_ok (by simpa using hrlt)]
  simp only []
  rw [setNodeIdx_ok (by simpa using hllt)]
  rfl

/-- **the `ElseJump` node at the top of an else-chain** -/
theorem sim_chain_top {lo hi i l r : Nat} {e : Expr F} {f1 f2 : Nat → Nat → LState F → LState F × List (Expr F × Nat)}
    {pn : ParseNode} (hpn : tree[i]? = some pn) (hd : pn.definition = .elseJump) (hl : pn.left = some l) (hr : pn.right = some r)
    (hli : lo ≤ l ∧ l < i) (hri : i + 1 ≤ r ∧ r < hi) (hlt : l < tree.size) (hrt : r < tree.size)
    (ih1 : SimArmsF pf tree bodies lo i l f1) (ih2 : SimArmsF pf tree bodies (i + 1) hi r f2)
    (hmono : ∀ root cur s, cur < s.jumps.size → cur < (f1 root cur s).1.jumps.size)
    (hne : ∀ root cur s, (f1 root cur s).2 ≠ [])
    (hemit : ∀ root cur s, emit root cur e s =
      finishChain cur (f2 root cur (f1 root cur s).1).1 ((f1 root cur s).2 ++ (f2 root cur (f1 root cur s).1).2)) :
    SimT pf tree bodies lo hi i e := by
  intro crj root cur data nodes RS S s lp cp pbn pre hdat hcur
  have hilt : i < nodes.size := lt_of_get pre.node
  have hllt : l < nodes.size := by rw [pre.size]; exact hlt
  have hrlt : r < nodes.size := by rw [pre.size]; exact hrt
  have hne' : ∀ par d', lp = some (par, d') → par ≠ i ∧ par ≠ l ∧ par ≠ r := fun par d' h => by
    have := (pre.par par d' h).1; exact ⟨by omega, by omega, by omega⟩
  have hcpn : cp.cond = none := by
    cases hc : cp.cond with
    | none => rfl
    | some x =>
      have := pre.cond ⟨x, hc⟩ pn hpn
      rw [hd] at this; cases this
  -- first visit
  obtain ⟨e1, e2, e3, e4, e5⟩ := three_puts (visited (mkNode i cur lp cp)) (mkNode l cur none (Ex.ofCond (some i)))
    (mkNode r cur none (Ex.ofCond (some i))) hilt hllt hrlt (by omega) (by omega) (by omega : l ≠ r)
  generalize hH : putNode (putNode (putNode nodes i (visited (mkNode i cur lp cp))) r (mkNode r cur none (Ex.ofCond (some i)))) l
    (mkNode l cur none (Ex.ofCond (some i))) = nodesH at e1 e2 e3 e4 e5
  have hhF : handleParseNode pf ⟨data, nodes, RS, S⟩ crj i pn = .ok ⟨data, nodesH, RS, ((S.push i).push r).push l⟩ := by
    rw [elseJump_first_top hd hl hr pre.node rfl hcpn hllt hrlt, ← hH]
    rfl
  have st1 := first_visit (pf := pf) (crj := crj) (data := data) (RS := RS) (S := S) pre ⟨by omega, by omega⟩ hpn hhF e2
    (fun par d' h => e5 par (hne' par d' h).1 (hne' par d' h).2.1 (hne' par d' h).2.2)
  generalize hA : counted nodesH i (visited (mkNode i cur lp cp)) lp pbn = A at st1
  have hAi : A[i]? = some (some (node1 i cur lp cp)) := by rw [← hA]; exact counted_node e2 (fun p d' h => (hne' p d' h).1)
  have hAo : ∀ y, y ≠ i → (∀ par d', lp = some (par, d') → y ≠ par) → A[y]? = nodesH[y]? := fun y h1 h2 => by
    rw [← hA]; exact counted_other h1 h2
  have hAsz : A.size = nodes.size := by rw [← hA, counted_size, e1]
  -- the parts
  obtain ⟨k, data', C, RS', newR, recs, stC, hk, hd', hm', hrs, hp, done⟩ :=
    chain_children hli hri ih1 ih2 hmono crj root cur i data A RS (S.push i) s (node1 i cur lp cp) (by rw [hAsz, pre.size])
      (by rw [hAo l (by omega) (fun p d' h => Ne.symm (hne' p d' h).2.1), e3])
      (by rw [hAo r (by omega) (fun p d' h => Ne.symm (hne' p d' h).2.2), e4]) (.inr rfl) hAi hdat hcur
  have hCsz : C.size = nodes.size := by rw [done.size, hAsz]
  have hrecs : recs ≠ [] := by
    intro h
    rw [h] at hm'
    have := hne root cur s
    simp only [List.map_nil, List.append_eq_nil_iff] at hm'
    exact this hm'.1
  -- second visit: the join, the arm bodies become roots
  generalize hs2 : (f2 root cur (f1 root cur s).1).1 = s2 at hd' hp
  have hCi := done.top
  generalize hbz : ({ node1 i cur lp cp with conditionalItems := (node1 i cur lp cp).conditionalItems ++ (recs.map ArmRec.item).toArray } : BuildNode) = bz at hCi
  have hbzc : bz.conditionalParent = none := by rw [← hbz]; exact hcpn
  have hbzi : bz.conditionalItems = (recs.map ArmRec.item).toArray := by rw [← hbz]; simp [node1, mkNode, BuildNode.new]
  have hbze : bz.containingExpressionJump = cur := by rw [← hbz]; rfl
  obtain ⟨hE1, hE2⟩ := elseItems_spec cur (getJumpTableLen data') (recs.map ArmRec.item) RS' #[]
  have hL : ∀ p ∈ (elseJumpItems cur (getJumpTableLen data') (recs.map ArmRec.item) RS' #[]).2.toList, p.1 < C.size := by
    intro p hp'
    rw [hE2] at hp'
    simp only [Array.toList_empty, List.nil_append, List.map_map, List.mem_map, Function.comp] at hp'
    obtain ⟨a, ha, rfl⟩ := hp'
    rw [hCsz, pre.size]
    exact (done.arms a ha).2.2.2.1
  obtain ⟨Z, hZ1, hZ2, hZ3, hZ4⟩ := assign_ok _ C hL
  have hhZ : handleParseNode pf ⟨data', C, RS', S⟩ crj i pn =
      .ok ⟨pushToJumpTable data' (getInstructionLen data'), Z,
        (elseJumpItems cur (getJumpTableLen data') (recs.map ArmRec.item) RS' #[]).1, S⟩ := by
    simp only [handleParseNode, hd, handleElseJump, getNode, hCi, Outcome.bind]
    rw [show bz.state = .initialized by rw [← hbz]; rfl]
    simp only [hbzc, hbzi, hbze]
    have hpos : (recs.map ArmRec.item).toArray.size > 0 := by
      cases recs with
      | nil => exact absurd rfl hrecs
      | cons a M => simp
    rw [if_pos hpos]
    simp only [List.toList_toArray, hZ1]
  -- distinct arm nodes
  have hidx : ∀ a ∈ recs, ∀ b ∈ recs, a.idx = b.idx → a = b ∨ True := fun _ _ _ _ _ => .inr trivial
  have hZi : Z[i]? = some (some bz) := by
    rw [hZ3 i (fun p hp' => ?_)]
    · exact hCi
    · rw [hE2] at hp'
      simp only [Array.toList_empty, List.nil_append, List.map_map, List.mem_map, Function.comp] at hp'
      obtain ⟨a, ha, rfl⟩ := hp'
      obtain ⟨x1, x2, x3, _⟩ := done.arms a ha
      have := x1 a.idx x2 x3
      simp only [Ival, ArmRec.item] at this ⊢
      omega
  have st2 := second_visit (lp := lp) (crj := crj) hpn hhZ hZi (by rw [← hbz]; rfl) (by rw [← hbz]; rfl)
  have hjoin : getJumpTableLen data' = s2.jumps.size := by simp only [getJumpTableLen, hd'.jumps]
  refine ⟨1 + k + 1, _, Z, _, (recs.map (ArmRec.toRRec cur s2.jumps.size)).reverse ++ newR, (st1.trans stC).trans st2, ?_, ?_, ?_, ?_, ?_,
    ⟨_, hZi, by rw [← hbz]; rfl⟩⟩
  · simp only [wsum_append, wsum_reverse, wsum_arms]; omega
  · rw [hemit, hs2, hm']
    cases hrm : recs.map (fun a => (a.t, a.j)) with
    | nil => exact absurd (List.map_eq_nil_iff.1 hrm) hrecs
    | cons it its =>
      simp only [finishChain]
      have := hd'.pushJump s2.instrs.size
      exact ⟨by simpa [getInstructionLen, hd'.instrs] using this.instrs,
        by simpa [getInstructionLen, hd'.instrs, pushToJumpTable, LState.pushJump] using this.jumps,
        this.consts⟩
  · rw [hE1, hrs]
    simp [List.map_reverse, ArmRec.toRRec, ArmRec.item, Function.comp]
  · rw [hemit, hs2, hm']
    cases hrm : recs.map (fun a => (a.t, a.j)) with
    | nil => exact absurd (List.map_eq_nil_iff.1 hrm) hrecs
    | cons it its =>
      simp only [finishChain]
      rw [← hrm, hp]
      simp [armRoots, List.map_reverse, ArmRec.toRRec, Function.comp]
  · -- what is known about the nodes
    have hLeq : (elseJumpItems cur (getJumpTableLen data') (recs.map ArmRec.item) RS' #[]).2.toList =
        recs.map (fun a => (a.idx, BuildNode.newWithJumpAndEnd a.idx cur a.j [(.jumpTo, some (getJumpTableLen data'))])) := by
      rw [hE2]; simp [ArmRec.item, Function.comp]
    have harm_in : ∀ a ∈ recs, lo ≤ a.lo ∧ a.hi ≤ hi ∧ a.idx ≠ i ∧ Ival lo hi a.idx := fun a ha => by
      obtain ⟨x1, x2, x3, _⟩ := done.arms a ha
      have h1 := x1 a.lo (Nat.le_refl _) (by omega)
      have h2 := x1 (a.hi - 1) (by omega) (by omega)
      have h3 := x1 a.idx x2 x3
      simp only [Ival] at h1 h2 h3 ⊢
      omega
    have hZo : ∀ x, (∀ a ∈ recs, a.idx ≠ x) → Z[x]? = C[x]? := fun x hx => by
      refine hZ3 x (fun p hp' => ?_)
      rw [hLeq] at hp'
      obtain ⟨a, ha, rfl⟩ := List.mem_map.1 hp'
      exact hx a ha
    have hZa : ∀ a ∈ recs, Z[a.idx]? =
        some (some (BuildNode.newWithJumpAndEnd a.idx cur a.j [(.jumpTo, some (getJumpTableLen data'))])) := fun a ha => by
      have hpw : (elseJumpItems cur (getJumpTableLen data') (recs.map ArmRec.item) RS' #[]).2.toList.Pairwise
          (fun x y => x.1 ≠ y.1) := by
        rw [hLeq, List.pairwise_map]
        refine done.disjA.imp_of_mem (fun {x y} hx hy hxy => ?_)
        obtain ⟨_, x2, x3, _⟩ := done.arms x hx
        obtain ⟨_, y2, y3, _⟩ := done.arms y hy
        simp only
        omega
      have := hZ4 hpw (a.idx, _) (by rw [hLeq]; exact List.mem_map.2 ⟨a, ha, rfl⟩)
      exact this
    refine ⟨by rw [hZ2, hCsz], fun x hx hpx => ?_, fun par d' h => ?_, fun q hq => ?_, fun x hx => ?_, ?_⟩
    · have h1 : x ≠ i := fun e => hx (by subst e; exact ⟨by omega, by omega⟩)
      have h2 : x ≠ l := fun e => hx (by subst e; exact ⟨by omega, by omega⟩)
      have h3 : x ≠ r := fun e => hx (by subst e; exact ⟨by omega, by omega⟩)
      rw [hZo x (fun a ha e => hx (e ▸ (harm_in a ha).2.2.2)),
        done.frame x (fun h => hx (by simp only [Ival] at h ⊢; omega)) h1, hAo x h1 hpx, e5 x h1 h2 h3]
    · subst h
      have hp1 := (pre.par par d' rfl).1
      rw [hZo par (fun a ha e => by have := (harm_in a ha).2.2.2; simp only [Ival] at this; omega),
        done.frame par (fun h => by simp only [Ival] at h; omega) (hne' par d' rfl).1, ← hA]
      refine counted_parent ?_
      rw [e5 par (hne' par d' rfl).1 (hne' par d' rfl).2.1 (hne' par d' rfl).2.2]
      exact (pre.par par d' rfl).2.1
    · rcases List.mem_append.1 hq with hq | hq
      · obtain ⟨a, ha, rfl⟩ := List.mem_map.1 (List.mem_reverse.1 hq)
        obtain ⟨x1, x2, x3, x4, x5⟩ := done.arms a ha
        have hin := harm_in a ha
        refine ⟨fun x h1 h2 => by simp only [ArmRec.toRRec] at h1 h2; simp only [Ival]; omega, x2, x3, ?_, ?_⟩
        · simp only [ArmRec.toRRec, bnOfRoot]
          rw [hZa a ha, hjoin]
        · simp only [RepRoot, ArmRec.toRRec]; exact x5
      · obtain ⟨x1, x2, x3, x4, x5⟩ := done.roots q hq
        refine ⟨fun x h1 h2 => by have := x1 x h1 h2; simp only [Ival] at this ⊢; omega, x2, x3, ?_, x5⟩
        rw [hZo q.idx (fun a ha e => ?_)]
        · exact x4
        · obtain ⟨_, y2, y3, _⟩ := done.arms a ha
          have := done.disjRA q hq a ha
          omega
    · by_cases hxi : x = i
      · subst hxi; exact .inl ⟨_, hZi⟩
      · rcases done.cover x (by simp only [Ival] at hx ⊢; omega) with ⟨b', hb'⟩ | ⟨q, hq, h⟩ | ⟨a, ha, h⟩
        · by_cases hxa : ∃ a ∈ recs, a.idx = x
          · obtain ⟨a, ha, rfl⟩ := hxa
            exact .inl ⟨_, hZa a ha⟩
          · exact .inl ⟨b', by rw [hZo x (fun a ha e => hxa ⟨a, ha, e⟩)]; exact hb'⟩
        · exact .inr ⟨q, List.mem_append_right _ hq, h⟩
        · exact .inr ⟨ArmRec.toRRec cur s2.jumps.size a,
            List.mem_append_left _ (List.mem_reverse.2 (List.mem_map.2 ⟨a, ha, rfl⟩)), h⟩
    · rw [List.pairwise_append]
      refine ⟨?_, done.disjR, fun q hq q' hq' => ?_⟩
      · rw [List.pairwise_reverse, List.pairwise_map]
        exact done.disjA.imp (fun {x y} h => by simp only [ArmRec.toRRec]; omega)
      · obtain ⟨a, ha, rfl⟩ := List.mem_map.1 (List.mem_reverse.1 hq)
        have := done.disjRA q' hq' a ha
        simp only [ArmRec.toRRec]
        omega

end Garnish.Abs.Tree
