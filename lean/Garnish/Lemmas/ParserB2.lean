/-
Brackets, part 2: `core_effectB` — `parse_token` for a new operator on a frame that satisfies `NInv`, the walk starting at the last node
(at top level or inside an open bracket).  Four cases: the bottom node stops the operator, an inner node stops it, it
passes the whole frame at top level (new root), it passes the whole frame inside a bracket (the walk stops at the bracket
node, whose `right` is redirected).
-/
import Garnish.Lemmas.ParserB1

namespace Garnish.Spec
open Garnish Garnish.Gen Garnish.Model.Parser

theorem map_setRight_setRight (v w : Option Nat) (o : Option ParseNode) :
    (o.map (setRight v)).map (setRight w) = o.map (setRight w) := by cases o <;> rfl

/-- what the continuation of `core_effectB` delivers: the frame's new tree, and the bracket node still pointing to its root -/
def FrameTree (arr : Array ParseNode) (p : Option Nat) (re' : Nat) (E' : Tree) : Prop :=
  IsTreeAt arr p (some re') E' ∧
    ∀ g, p = some g → ∃ G', arr[g]? = some G' ∧ G'.right = some re' ∧ G'.definition.isGroupLike = true ∧
      ∃ pg, priority G'.definition = some pg

/-- the right child of a node of the tree has that node as its parent -/
theorem IsTreeAt.right_child_parent {nodes : Array ParseNode} {p link : Option Nat} {t : Tree}
    (h : IsTreeAt nodes p link t) : ∀ {j i : Nat} {n : ParseNode}, j ∈ t.inorder → nodes[j]? = some n → n.right = some i →
      ∃ ni, nodes[i]? = some ni ∧ ni.parent = some j := by
  induction h with
  | nil p => intro j i n hj; cases hj
  | node p i0 nd l r hn hpar hl hr ihl ihr =>
    intro j i n hj hnj hri
    by_cases hji : j = i0
    · subst hji
      rw [hn] at hnj; injection hnj with hnj; subst hnj
      rw [hri] at hr
      cases hr with
      | node _ _ ni _ _ h1 h2 _ _ => exact ⟨ni, h1, h2⟩
    · simp only [Tree.inorder, List.mem_append, List.mem_cons] at hj
      rcases hj with hj | hj | hj
      · exact ihl hj hnj hri
      · exact absurd hj hji
      · exact ihr hj hnj hri

/-- unlinking the operator again restores the array: `x.right := tlv`, `tlv.parent := x` -/
theorem undo_stop {nodes nodes' : Array ParseNode} {n tlv x : Nat} {nx nt : ParseNode} (hne : tlv ≠ x)
    (hx : nodes[x]? = some nx) (hxr : nx.right = some tlv) (ht : nodes[tlv]? = some nt) (htp : nt.parent = some x)
    (hg : ∀ j, nodes'[j]? = if j = tlv then (nodes[j]?).map (setParent (some n))
                      else if j = x then (nodes[j]?).map (setRight (some n)) else nodes[j]?) :
    ∀ j, (if j = x then (nodes'[j]?).map (setRight (some tlv))
          else if j = tlv then (nodes'[j]?).map (setParent (some x)) else nodes'[j]?) = nodes[j]? := by
  intro j
  by_cases hjx : j = x
  · subst hjx
    rw [if_pos rfl, hg j, if_neg (fun e => hne e.symm), if_pos rfl, hx]
    simp only [Option.map_some, Option.some.injEq]
    cases nx; simp_all [setRight]
  · rw [if_neg hjx]
    by_cases hjt : j = tlv
    · subst hjt
      rw [if_pos rfl, hg j, if_pos rfl, ht]
      simp only [Option.map_some, Option.some.injEq]
      cases nt; simp_all [setParent]
    · rw [if_neg hjt, hg j, if_neg hjt, if_neg hjx]

theorem core_effectB {nodes : Array ParseNode} {ug p : Option Nat} {base : Nat} {E : Tree} {re : Nat}
    (hinv : NInv nodes ug p base E re) (hlastT : E.inorder.getLast? = some (nodes.size - 1))
    (d : Definition) (q : Nat) (rtl : Bool) (right : Option Nat) (hq : priority d = some q) :
    ∃ (nodes' : Array ParseNode) (info : Info),
      parseToken nodes.size d (some (nodes.size - 1)) right nodes ug rtl = .ok (nodes', info) ∧
      info.right = right ∧
      (∀ j, j < nodes.size → (nodes'[j]?).map (·.definition) = (nodes[j]?).map (·.definition)) ∧
      (∀ j, j < base → (nodes'[j]?).map (setRight none) = (nodes[j]?).map (setRight none)) ∧
      (∀ j, j + 1 < base → nodes'[j]? = nodes[j]?) ∧
      (∀ (arr : Array ParseNode) (sub : Tree) (ko : Nat) {rlink : Option Nat}, (∀ j, j < nodes.size → arr[j]? = nodes'[j]?) →
        (∃ on, arr[nodes.size]? = some on ∧ on.parent = info.parent ∧ on.left = info.left ∧ on.right = rlink ∧
          tokPos on = ko) →
        IsTreeAt arr (some nodes.size) rlink sub →
        ∃ re', FrameTree arr p re' (insertS (prioAt nodes) q rtl nodes.size ko sub E)) ∧
      (stops q rtl (prioAt nodes (nodes.size - 1)) = false → (∀ g, p = some g → info.parent.isSome = true) ∧ ∀ P, info.parent = some P →
        ∃ l, info.left = some l ∧ l < nodes.size ∧ P < nodes.size ∧ l ≠ P ∧
          ∀ j, (if j = P then (nodes'[j]?).map (setRight (some l))
                else if j = l then (nodes'[j]?).map (setParent (some P)) else nodes'[j]?) = nodes[j]?) := by
  have hmemE := hinv.mem
  obtain ⟨htree, hin, hfirst, hpos, hframe, hprios⟩ := hinv
  have hhead : (rspineUp E).head? = some (nodes.size - 1) := by rw [rspineUp_head, hlastT]
  have hlen : (rspineUp E).length + base ≤ nodes.size := by
    have := rspineUp_length E; have := hin.length_le' (by omega); omega
  have hnd : E.inorder.Nodup := hin.nodup
  have hlt_of_mem : ∀ j, j ∈ E.inorder → j < nodes.size := fun j hj => (hmemE j hj).2
  have hge_of_mem : ∀ j, j ∈ E.inorder → base ≤ j := fun j hj => (hmemE j hj).1
  -- the walk
  have hwalk : walkLoop nodes q ug rtl (nodes.size + 1) 0 (some (nodes.size - 1)) (some (nodes.size - 1)) =
      .ok ((walkSpec nodes q rtl (some (nodes.size - 1)) (rspineUp E)).1,
           (walkSpec nodes q rtl (some (nodes.size - 1)) (rspineUp E)).2.or p) := by
    cases hframe with
    | top re =>
      have hchain : Chain nodes (rspineUp E) := by
        have := chain_of_tree hprios htree [] trivial rfl
        simpa using this
      have := walkLoop_chain nodes q rtl (rspineUp E) (nodes.size + 1) 0 (some (nodes.size - 1)) hchain
        (by omega) (by omega)
      rw [hhead] at this
      rw [this]
      rcases walkSpec nodes q rtl (some (nodes.size - 1)) (rspineUp E) with ⟨tl', par⟩
      cases par <;> rfl
    | bracket g re G pg hG hgl hpg hGr =>
      have hgE : g ∉ E.inorder := fun hm => by have := hge_of_mem g hm; omega
      have hchain : ChainTo nodes g (rspineUp E) := by
        have := chainTo_of_tree hprios g htree hgE [] trivial rfl
        simpa using this
      have hgs : g < nodes.size := (Array.getElem?_eq_some_iff.mp hG).1
      have := walkLoop_chain_grp nodes q rtl g G pg hG hgl hpg (rspineUp E) (nodes.size + 1) 0
        (some (nodes.size - 1)) hchain (by omega) (by omega)
      rw [hhead] at this
      simp only [Option.getD_some] at this
      rw [this]
      rcases walkSpec nodes q rtl (some (nodes.size - 1)) (rspineUp E) with ⟨tl', par⟩
      cases par <;> rfl
  -- the bracket node (if any) is below the frame
  have hgfacts : ∀ g, p = some g → g + 1 = base ∧ g ∉ E.inorder ∧ ∃ G pg, nodes[g]? = some G ∧
      G.definition.isGroupLike = true ∧ priority G.definition = some pg ∧ G.right = some re := by
    intro g hg
    cases hframe with
    | top re => cases hg
    | bracket g' re G pg hG hgl hpg hGr =>
      injection hg with hg; subst hg
      exact ⟨rfl, fun hm => by have := hge_of_mem _ hm; omega, G, pg, hG, hgl, hpg, hGr⟩
  have houter_same : ∀ (nodes' : Array ParseNode), (∀ j, j ∉ E.inorder → nodes'[j]? = nodes[j]?) →
      (∀ j, j < base → (nodes'[j]?).map (setRight none) = (nodes[j]?).map (setRight none)) ∧
      (∀ j, j + 1 < base → nodes'[j]? = nodes[j]?) := by
    intro nodes' h
    have hn : ∀ j, j < base → j ∉ E.inorder := fun j hj hm => by have := hge_of_mem j hm; omega
    exact ⟨fun j hj => by rw [h j (hn j hj)], fun j hj => h j (hn j (by omega))⟩
  have hframe_same : ∀ (arr nodes' : Array ParseNode), (∀ j, j < nodes.size → arr[j]? = nodes'[j]?) →
      (∀ j, j ∉ E.inorder → nodes'[j]? = nodes[j]?) →
      ∀ g, p = some g → ∃ G', arr[g]? = some G' ∧ G'.right = some re ∧ G'.definition.isGroupLike = true ∧
        ∃ pg, priority G'.definition = some pg := by
    intro arr nodes' hlt hsame g hg
    obtain ⟨_, hgE, G, pg, hG, hgl, hpg, hGr⟩ := hgfacts g hg
    have hgs : g < nodes.size := (Array.getElem?_eq_some_iff.mp hG).1
    exact ⟨G, by rw [hlt g hgs, hsame g hgE]; exact hG, hGr, hgl, pg, hpg⟩
  by_cases hstopB : stops q rtl (prioAt nodes (nodes.size - 1)) = true
  · -- the bottom node stops the operator
    obtain ⟨hw, ⟨nb, hnb, hnbr⟩, _⟩ := walk_insertB nodes q rtl nodes.size 0 .nil none htree re rfl hnd _ hlastT hstopB
      (some (nodes.size - 1))
    rw [hw] at hwalk
    simp only [Option.or] at hwalk
    obtain ⟨nodes', info, h⟩ := parseToken_bottom_ok (id := nodes.size) (right := right) hq hwalk hnb hnbr
    obtain ⟨hinfo, hg⟩ := parseToken_bottom hq hwalk hnb hnbr h
    have hbmem : nodes.size - 1 ∈ E.inorder := List.mem_of_getLast? hlastT
    have hsame : ∀ j, j ∉ E.inorder → nodes'[j]? = nodes[j]? := by
      intro j hj; rw [hg j, if_neg (fun (e : j = nodes.size - 1) => hj (e ▸ hbmem))]
    obtain ⟨ho1, ho2⟩ := houter_same nodes' hsame
    refine ⟨nodes', info, h, by rw [hinfo], ?_, ho1, ho2, ?_, ?_⟩
    rotate_left 2
    · intro hns; rw [hns] at hstopB; cases hstopB
    · intro j _
      rw [hg j]
      split
      · exact map_def_setRight _ _
      · rfl
    · intro arr sub ko rlink hlt hon hsub
      obtain ⟨_, _, t', habs, harr⟩ := walk_insertB nodes q rtl nodes.size ko sub rlink htree re rfl hnd _ hlastT
        hstopB (some (nodes.size - 1))
      refine ⟨re, ?_, hframe_same arr nodes' hlt hsame⟩
      unfold insertS; rw [habs]
      have hbl : nodes.size - 1 < nodes.size := by omega
      apply harr arr
      · intro j hj h1
        rw [hlt j (hlt_of_mem j hj), hg j, if_neg h1]
      · rw [hlt _ hbl, hg _, if_pos rfl]
      · obtain ⟨on, o1, o2, o3, o4, o5⟩ := hon
        exact ⟨⟨on, o1, by rw [o2, hinfo], by rw [o3, hinfo], o4, o5⟩, hsub⟩
  · have hbot : bottomOK (prioAt nodes) q rtl E := by
      apply bottomOK_of_last
      intro b hb
      rw [hlastT] at hb
      injection hb with hb; subst hb
      simpa using hstopB
    rcases hw : walkSpec nodes q rtl (some (nodes.size - 1)) (rspineUp E) with ⟨tl, par⟩
    rw [hw] at hwalk
    cases par with
    | some x =>
      simp only [Option.or] at hwalk
      obtain ⟨hS0, _⟩ := walk_insertS nodes q rtl nodes.size 0 .nil none htree re rfl hnd hbot
        (some (nodes.size - 1))
      obtain ⟨tlv, _, nx, e1, m1, m2, ne, hx, hxr, _, _⟩ := hS0 tl x hw
      subst e1
      obtain ⟨nodes', info, h⟩ := parseToken_stop_ok (id := nodes.size) (right := right) hq hwalk ne hx hxr
        (hlt_of_mem tlv m1)
      obtain ⟨hinfo, hg⟩ := parseToken_stop hq hwalk ne hx hxr h
      have hsame : ∀ j, j ∉ E.inorder → nodes'[j]? = nodes[j]? := by
        intro j hj
        rw [hg j, if_neg (fun (e : j = tlv) => hj (e ▸ m1)), if_neg (fun (e : j = x) => hj (e ▸ m2))]
      obtain ⟨ho1, ho2⟩ := houter_same nodes' hsame
      refine ⟨nodes', info, h, by rw [hinfo], ?_, ho1, ho2, ?_, ?_⟩
      rotate_left 2
      · intro _
        refine ⟨fun _ _ => (by rw [hinfo]; rfl), ?_⟩
        intro P hP
        rw [hinfo] at hP; injection hP with hP; subst hP
        obtain ⟨nt, hnt, hntp⟩ := htree.right_child_parent m2 hx hxr
        exact ⟨tlv, by rw [hinfo], hlt_of_mem tlv m1, hlt_of_mem _ m2, ne, undo_stop ne hx hxr hnt hntp hg⟩
      · intro j _
        rw [hg j]
        split
        · exact map_def_setParent _ _
        · split
          · exact map_def_setRight _ _
          · rfl
      · intro arr sub ko rlink hlt hon hsub
        obtain ⟨hS, _⟩ := walk_insertS nodes q rtl nodes.size ko sub rlink htree re rfl hnd hbot
          (some (nodes.size - 1))
        obtain ⟨tlv', t', nx', e1', _, _, _, _, _, habs, harr⟩ := hS (some tlv) x hw
        injection e1' with e1'; subst e1'
        refine ⟨re, ?_, hframe_same arr nodes' hlt hsame⟩
        unfold insertS; rw [habs]
        apply harr arr
        · intro j hj h1 h2
          rw [hlt j (hlt_of_mem j hj), hg j, if_neg h1, if_neg h2]
        · rw [hlt tlv (hlt_of_mem tlv m1), hg tlv, if_pos rfl]
        · rw [hlt x (hlt_of_mem x m2), hg x, if_neg (fun e => ne e.symm), if_pos rfl]
        · obtain ⟨on, o1, o2, o3, o4, o5⟩ := hon
          exact ⟨⟨on, o1, by rw [o2, hinfo], by rw [o3, hinfo], o4, o5⟩, hsub⟩
    | none =>
      obtain ⟨_, hN0⟩ := walk_insertS nodes q rtl nodes.size 0 .nil none htree re rfl hnd hbot
        (some (nodes.size - 1))
      obtain ⟨e1, _, _⟩ := hN0 tl hw
      subst e1
      have hre : re < nodes.size := hlt_of_mem re htree.root_mem
      cases hp : p with
      | none =>
        -- top level: the operator becomes the root
        subst hp
        simp only [Option.or] at hwalk
        obtain ⟨nodes', info, h⟩ := parseToken_root_ok (id := nodes.size) (right := right) hq hwalk hre
        obtain ⟨hinfo, hg⟩ := parseToken_root hq hwalk h
        have hsame : ∀ j, j ∉ E.inorder → nodes'[j]? = nodes[j]? := by
          intro j hj; rw [hg j, if_neg (fun (e : j = re) => hj (e ▸ htree.root_mem))]
        obtain ⟨ho1, ho2⟩ := houter_same nodes' hsame
        refine ⟨nodes', info, h, by rw [hinfo], ?_, ho1, ho2, ?_, ?_⟩
        rotate_left 2
        · intro _; exact ⟨fun g hg => (by cases hg), fun P hP => (by rw [hinfo] at hP; cases hP)⟩
        · intro j _
          rw [hg j]
          split
          · exact map_def_setParent _ _
          · rfl
        · intro arr sub ko rlink hlt hon hsub
          obtain ⟨_, hN⟩ := walk_insertS nodes q rtl nodes.size ko sub rlink htree re rfl hnd hbot
            (some (nodes.size - 1))
          obtain ⟨_, habs, harr⟩ := hN (some re) hw
          refine ⟨nodes.size, ?_, fun g hg => by cases hg⟩
          unfold insertS; rw [habs]
          obtain ⟨on, o1, o2, o3, o4, o5⟩ := hon
          apply newOpS_isTreeAt (llink := some re) (rlink := rlink)
          · exact ⟨⟨on, o1, by rw [o2, hinfo], by rw [o3, hinfo], o4, o5⟩, hsub⟩
          · apply harr arr
            · intro j hj h1
              rw [hlt j (hlt_of_mem j hj), hg j, if_neg h1]
            · rw [hlt re hre, hg re, if_pos rfl]
      | some g =>
        -- inside a bracket: the walk stops at the bracket node, whose `right` is redirected to the operator
        subst hp
        simp only [Option.or] at hwalk
        obtain ⟨_, hgE, G, pg, hG, hgl, hpg, hGr⟩ := hgfacts g rfl
        have hgs : g < nodes.size := (Array.getElem?_eq_some_iff.mp hG).1
        have hne : re ≠ g := fun e => hgE (e ▸ htree.root_mem)
        obtain ⟨nodes', info, h⟩ := parseToken_stop_ok (id := nodes.size) (right := right) hq hwalk hne hG hGr hre
        obtain ⟨hinfo, hg⟩ := parseToken_stop hq hwalk hne hG hGr h
        refine ⟨nodes', info, h, by rw [hinfo], ?_, ?_, ?_, ?_, ?_⟩
        rotate_left 4
        · intro _
          refine ⟨fun _ _ => (by rw [hinfo]; rfl), ?_⟩
          intro P hP
          rw [hinfo] at hP; injection hP with hP; subst hP
          obtain ⟨nt, hnt, hntp⟩ : ∃ nt, nodes[re]? = some nt ∧ nt.parent = some g := by
            cases htree with
            | node _ _ nd _ _ h1 h2 _ _ => exact ⟨nd, h1, h2⟩
          exact ⟨re, by rw [hinfo], hre, hgs, hne, undo_stop hne hG hGr hnt hntp hg⟩
        · intro j _
          rw [hg j]
          split
          · exact map_def_setParent _ _
          · split
            · exact map_def_setRight _ _
            · rfl
        · intro j hj
          rw [hg j]
          have hjre : j ≠ re := fun e => by have := hge_of_mem re htree.root_mem; omega
          rw [if_neg hjre]
          split
          · exact map_setRight_setRight _ _ _
          · rfl
        · intro j hj
          rw [hg j, if_neg (fun e => by have := hge_of_mem re htree.root_mem; omega),
            if_neg (fun e => by have := (hgfacts g rfl).1; omega)]
        · intro arr sub ko rlink hlt hon hsub
          obtain ⟨_, hN⟩ := walk_insertS nodes q rtl nodes.size ko sub rlink htree re rfl hnd hbot
            (some (nodes.size - 1))
          obtain ⟨_, habs, harr⟩ := hN (some re) hw
          have hGarr : arr[g]? = some (setRight (some nodes.size) G) := by
            rw [hlt g hgs, hg g, if_neg (fun e => hne e.symm), if_pos rfl, hG]; rfl
          refine ⟨nodes.size, ?_, ?_⟩
          · unfold insertS; rw [habs]
            obtain ⟨on, o1, o2, o3, o4, o5⟩ := hon
            apply newOpS_isTreeAt (llink := some re) (rlink := rlink)
            · exact ⟨⟨on, o1, by rw [o2, hinfo], by rw [o3, hinfo], o4, o5⟩, hsub⟩
            · apply harr arr
              · intro j hj h1
                have hjg : j ≠ g := fun e => hgE (e ▸ hj)
                rw [hlt j (hlt_of_mem j hj), hg j, if_neg h1, if_neg hjg]
              · rw [hlt re hre, hg re, if_pos rfl]
          · intro g' hg'
            injection hg' with hg'; subst hg'
            exact ⟨_, hGarr, rfl, hgl, pg, hpg⟩

end Garnish.Spec
