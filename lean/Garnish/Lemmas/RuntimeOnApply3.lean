/-
Lemmas/RuntimeApply3.lean over `StoreLawsOn`: the `Expression` and `Partial` arms (input value and frame pushed).
-/
import Garnish.Lemmas.RuntimeOnApply2
set_option linter.unusedSimpArgs false
set_option linter.unusedVariables false
namespace Garnish.Lemmas.Runtime.On
open Garnish Gen Garnish.Abs Garnish.Model.Equality Garnish.Model.Runtime Garnish.Lemmas.Runtime

variable {F σ : Type} {S : RStore F σ} {Inv : σ → Prop} {Rd : σ → Nat → Prop} (fo : FloatOps F)

theorem getExpression_of {s : σ} {a j : Nat} (h : Decodes (S.view s) a (.expr j)) :
    getExpression S a s = .ok (j, s) := by
  cases h with
  | expr _ hn => simp [getExpression, RM.lift, hn, fetch, Outcome.ofOption, Outcome.bind]

theorem jumpPoint_apply (j : Nat) (s : σ) :
    jumpPoint S j s = match S.jumpTable s j with
      | some t => .ok (t, s)
      | none => .err .state := by
  rw [jumpPoint, bind_ok (getFromJumpTable_apply j s)]
  cases S.jumpTable s j <;> rfl

/-- the `Expression` arm -/
theorem apply_expression_spec (L : StoreLawsOn S Inv Rd) (fuel : Nat) (instr : Instruction) (ur : Bool)
    {s : σ} {r l j : Nat} {vr : Val F} {rest : List Nat}
    (hregs : S.regs s = r :: l :: rest) (hl : Decodes (S.view s) l (.expr j)) (hr : Decodes (S.view s) r vr)
    (hvr : vr ≠ .custom)
    (hinv : Inv s := by inv_tac) (hdp : Deep S s rest := by deep_tac) :
    EnteredI S Inv s (applyInternal fo S fuel instr ur s) rest j vr := by
  obtain ⟨s0, e0, hl0, hr0, hp⟩ := applyInternal_prefix fo L fuel instr ur hregs hl hr
  rw [hp]
  simp only [Val.typeOf, applyMatch]
  rw [bind_apply, bind_ok (getExpression_of hl0), bind_apply, jumpPoint_apply, e0.keeps.jump]
  unfold EnteredI
  cases hj : S.jumpTable s j with
  | none => rfl
  | some t =>
    simp only []
    obtain ⟨s1, h1, e1⟩ := pushVal L hr0 hvr
    rw [e0.regs, e0.vals] at e1
    obtain ⟨s2, h2, f2⟩ := pushFrm L (S.cursor s + 1) s1
    have e01 := e0.trans e1
    rw [e1.regs, e1.vals, e1.frames, e0.frames] at f2
    refine ⟨r, s2, ?_, f2.dec (e1.dec hr0), e01.toF.trans f2⟩
    rw [bind_ok h1, bind_ok (read_apply S.cursor s1), e01.keeps.cur, bind_ok h2]; rfl

theorem partial_of {s : σ} {a : Nat} {vf vx : Val F} (h : Decodes (S.view s) a (.part vf vx)) :
    ∃ x y, (S.view s).partial_ a = some (x, y) ∧ Decodes (S.view s) x vf ∧ Decodes (S.view s) y vx := by
  cases h with
  | part _ hr ds de => exact ⟨_, _, hr, ds, de⟩

theorem getPartial_of {s : σ} {a x y : Nat} (h : (S.view s).partial_ a = some (x, y)) :
    getPartial S a s = .ok ((x, y), s) := by
  simp [getPartial, RM.lift, h, fetch, Outcome.ofOption, Outcome.bind]

/-- the `Partial` arm over an expression: the stored input (concatenated with the argument for `Apply`, alone
for `EmptyApply`) becomes the input value -/
theorem apply_partial_expression_spec (L : StoreLawsOn S Inv Rd) (fuel : Nat) (instr : Instruction) (ur : Bool)
    {s : σ} {r l j : Nat} {vr input : Val F} {rest : List Nat}
    (hregs : S.regs s = r :: l :: rest) (hl : Decodes (S.view s) l (.part (.expr j) input))
    (hr : Decodes (S.view s) r vr)
    (hin : (if ur then Val.concat input vr else input) ≠ .custom)
    (hns : ur = true → (∀ x y, input ≠ .slice x y) ∧ (∀ x y, vr ≠ .slice x y))
    (hinv : Inv s := by inv_tac) (hdp : Deep S s rest := by deep_tac) :
    EnteredI S Inv s (applyInternal fo S fuel instr ur s) rest j (if ur then .concat input vr else input) := by
  obtain ⟨s0, e0, hl0, hr0, hp⟩ := applyInternal_prefix fo L fuel instr ur hregs hl hr
  obtain ⟨ea, ia, hpa, de, di⟩ := partial_of hl0
  rw [hp]
  simp only [Val.typeOf, applyMatch]
  rw [bind_ok2 (getPartial_of hpa)]
  simp only []
  rw [bind_ok2 (getDataType_of de)]
  simp only [Val.typeOf]
  -- the input value: `add_concatenation(input, right)` or `input`
  have hval : ∃ va s1, ((if ur = true then S.addConcatenation ia r else pure ia : RM σ Nat) s0 = .ok (va, s1)) ∧
      Decodes (S.view s1) va (if ur then .concat input vr else input) ∧ EffI S Inv s0 s1 (S.regs s0) (S.vals s0) := by
    cases ur with
    | false => exact ⟨ia, s0, rfl, di, EffI.refl s0 (by inv_tac)⟩
    | true =>
      obtain ⟨va, s1, h1, d1, e1⟩ := adds_i (L.addConcatenation ia r input vr s0 (by inv_tac) di hr0 (hns rfl).1 (hns rfl).2)
      exact ⟨va, s1, h1, d1, e1⟩
  obtain ⟨va, s1, h1, d1, e1⟩ := hval
  rw [e0.regs, e0.vals] at e1
  have e01 := e0.trans e1
  obtain ⟨s2, h2, e2⟩ := pushVal L d1 hin
  rw [e1.regs, e1.vals] at e2
  have e02 := e01.trans e2
  have de2 : Decodes (S.view s2) ea (.expr j) := (e1.trans e2).dec de
  have body : ∀ (m : RM σ Nat), m s0 = .ok (va, s1) →
      EnteredI S Inv s (((do
          let value ← m
          S.pushValueStack value
          let expression ← getExpression S ea
          let n ← jumpPoint S expression
          let c ← RM.read S.cursor
          S.pushFrame (c + 1)
          pure n : RM σ Nat) >>= fun n => pure (some n)) s0) rest j (if ur then .concat input vr else input) := by
    intro m hm
    rw [bind_ok2 hm, bind_ok2 h2, bind_ok2 (getExpression_of de2), bind_apply, bind_apply, jumpPoint_apply,
      e02.keeps.jump]
    unfold EnteredI
    cases hj : S.jumpTable s j with
    | none => rfl
    | some t =>
      simp only []
      obtain ⟨s3, h3, f3⟩ := pushFrm L (S.cursor s + 1) s2
      rw [e2.regs, e2.vals, e2.frames, e1.frames, e0.frames] at f3
      refine ⟨va, s3, ?_, f3.dec (e2.dec d1), e02.toF.trans f3⟩
      rw [bind_ok (read_apply S.cursor s2), e02.keeps.cur, bind_ok h3]; rfl
  cases ur with
  | false =>
    have := body (pure ia) h1
    simp only [Bool.false_eq_true, if_false] at this ⊢; exact this
  | true =>
    have := body (S.addConcatenation ia r) h1
    simp only [if_true] at this ⊢; exact this

/-- the `Partial` arm over anything that is not an expression: unit -/
theorem apply_partial_other_spec (L : StoreLawsOn S Inv Rd) (fuel : Nat) (instr : Instruction) (ur : Bool)
    {s : σ} {r l : Nat} {vr vf input : Val F} {rest : List Nat}
    (hregs : S.regs s = r :: l :: rest) (hl : Decodes (S.view s) l (.part vf input))
    (hr : Decodes (S.view s) r vr) (hne : vf.typeOf ≠ .expression)
    (hinv : Inv s := by inv_tac) (hdp : Deep S s rest := by deep_tac) :
    applyKind fo instr ur (.part vf input) vr = .out (.val .unit) ∧
    PushedI S Inv s (applyInternal fo S fuel instr ur s) (some (S.cursor s + 1)) rest .unit := by
  obtain ⟨s0, e0, hl0, hr0, hp⟩ := applyInternal_prefix fo L fuel instr ur hregs hl hr
  obtain ⟨ea, ia, hpa, de, di⟩ := partial_of hl0
  refine ⟨by cases vf <;> first | rfl | exact absurd rfl hne, ?_⟩
  rw [hp]
  simp only [Val.typeOf, applyMatch]
  rw [bind_apply, bind_ok (getPartial_of hpa)]
  simp only []
  rw [bind_ok (getDataType_of de)]
  obtain ⟨a, s1, h1, d1, e1⟩ := adds_i (L.addUnit s0 (by inv_tac))
  obtain ⟨s2, h2, e2⟩ := pushReg L d1 (by intro h; cases h)
  rw [e1.regs, e1.vals, e0.regs, e0.vals] at e2
  refine ⟨a, s2, ?_, e2.dec d1, (e0.trans e1).trans e2⟩
  generalize vf.typeOf = t at hne ⊢
  cases t
  case expression => exact absurd rfl hne
  all_goals (simp only []; rw [bind_ok h1, bind_ok h2]; rfl)

end Garnish.Lemmas.Runtime.On
