/-
`machOKOn4_of`: the whole coverage predicate from depth facts, `NoCustom`, custom-free constants and `DynOK`.
-/
import Garnish.Lemmas.NoCustom8
set_option linter.unusedSimpArgs false
set_option linter.unusedVariables false
namespace Garnish.Lemmas.NoCustom
open Garnish Gen Garnish.Abs Garnish.Model.Equality Garnish.Model.Runtime Garnish.Lemmas.Runtime
open Garnish.Lemmas.Runtime.On Garnish.Props.C06

variable {F σ : Type} (fo : FloatOps F) {S : RStore F σ} {Inv : σ → Prop} {P : Prog F}

/-- the whole coverage predicate from: the depth facts (stack balance), `NoCustom`, custom-free constants, `DynOK` -/
theorem machOKOn4_of {fuel : Nat} {m : MState F} {i : Instruction} {o : Option Nat}
    (hdeep : MDeepN m (arityOf i o)) (hend : i = .endExpression → m.frames = [] → ∃ r, m.regs = [r])
    (hnc : NoCustom m) (hc : ConstsNC P) (hdyn : DynOK fo S Inv P fuel m i o) :
    MachOKOn4 fo S Inv P fuel m i o := by
  have top : ∀ r rs, m.regs = r :: rs → r ≠ .custom := fun r rs h => nc_ne (head_nc hnc.regs h).1
  have vtop : ∀ v vs, m.vals = v :: vs → v ≠ .custom := fun v vs h => nc_ne (head_nc hnc.vals h).1
  have nc1 : ∀ r rs, m.regs = r :: rs → nc r = true := fun r rs h => (head_nc hnc.regs h).1
  have nc2 : ∀ a b rs, m.regs = a :: b :: rs → nc a = true ∧ nc b = true := fun a b rs h =>
    ⟨(head_nc hnc.regs h).1, (head_nc (head_nc hnc.regs h).2 rfl).1⟩
  have one : arityOf i o = 1 → ∀ r rs, m.regs = r :: rs → MDeep m rs := fun h1 r rs hr => (h1 ▸ hdeep).one hr
  cases i
  case invalid => trivial
  case jumpTo => trivial
  case applyType => trivial
  case put => exact fun k v _ hk => nc_ne (hc k v hk)
  case putValue => exact vtop
  case startSideEffect => exact vtop
  case pushValue => exact fun r rs h => ⟨top r rs h, one rfl r rs h⟩
  case updateValue => exact fun r rs h => ⟨top r rs h, one rfl r rs h⟩
  case jumpIfTrue => exact fun r rs h => one rfl r rs h
  case jumpIfFalse => exact fun r rs h => one rfl r rs h
  case endExpression =>
    exact fun r rs h => ⟨top r rs h, one rfl r rs h, fun hf => by
      obtain ⟨x, hx⟩ := hend rfl hf
      rw [hx] at h; cases h; rfl⟩
  case lessThan => exact ⟨hdeep, hdyn⟩
  case lessThanOrEqual => exact ⟨hdeep, hdyn⟩
  case greaterThan => exact ⟨hdeep, hdyn⟩
  case greaterThanOrEqual => exact ⟨hdeep, hdyn⟩
  case concat => exact ⟨hdeep, hdyn⟩
  case makeList => exact fun n hn => by subst hn; exact hdeep
  case apply =>
    refine ⟨hdeep, fun vr vl rs h => ?_⟩
    obtain ⟨h1, h2⟩ := hdyn vr vl rs h
    exact ⟨h1, applyDomainOn_of fo (nc2 vr vl rs h).2 (nc2 vr vl rs h).1 h2⟩
  case emptyApply =>
    refine ⟨hdeep, fun vl rs h => ?_⟩
    obtain ⟨h1, h2⟩ := hdyn vl rs h
    exact ⟨h1, applyDomainOn_of fo (nc1 vl rs h) rfl h2⟩
  case reapply => exact ⟨hdeep, top⟩
  case access =>
    refine ⟨hdeep, fun vr vl rs h => ?_⟩
    obtain ⟨h1, h2, h3⟩ := hdyn vr vl rs h
    exact ⟨h1, fun hg => lookupOn_of fo (nc2 vr vl rs h).2 (h2 hg), h3⟩
  case resolve =>
    refine ⟨hdeep, fun k key hk hkey cur vs hv => ?_⟩
    obtain ⟨h1, h2⟩ := hdyn k key hk hkey cur vs hv
    exact ⟨h1, lookupOn_of fo (head_nc hnc.vals hv).1 h2⟩
  case equal => exact ⟨hdeep, hdyn⟩
  case notEqual => exact ⟨hdeep, hdyn⟩
  case accessLeftInternal =>
    refine ⟨hdeep, fun v rs h x hx => ?_⟩
    have := outNC_left (nc1 v rs h)
    rw [hx] at this
    exact nc_ne this
  case accessRightInternal =>
    refine ⟨hdeep, fun v rs h x hx => ?_⟩
    have := outNC_right (nc1 v rs h)
    rw [hx] at this
    exact nc_ne this
  case accessLengthInternal =>
    exact ⟨hdeep, fun v rs h => ⟨(hdyn v rs h).1, (hdyn v rs h).2, ncConcat_of_nc (nc1 v rs h)⟩⟩
  all_goals exact hdeep

end Garnish.Lemmas.NoCustom
