/-
C18, reference-grammar level: the reference parser never looks at the token positions it stores, nor below the right spine
of the tree it is building.  `Sim E a b`: the trees `a` and `b` have the same right spine (same definitions, positions
free) and `E`-related parts off the spine (left operands, bracket contents).  `refStep` / `refLoop` map `Sim`-related
frames to `Sim`-related frames (`refStep_sim`, `refLoop_sim`).  Instances of `E`: equality after erasing the token
positions (`RTree.eraseTok`), and equality after also removing `( )` group nodes (`RTree.stripGroups`).
-/
import Garnish.Lemmas.RefParseShift

namespace Garnish.Spec
open Garnish Garnish.Gen Garnish.Model.Parser

/-- forget the token positions -/
def RTree.eraseTok : RTree → RTree
  | .nil => .nil
  | .node l d _ r => .node l.eraseTok d 0 r.eraseTok
  | .group d _ inner => .group d 0 inner.eraseTok

/-- forget the token positions and remove the `( )` group nodes (nested expressions `{ }` stay) -/
def RTree.stripGroups : RTree → RTree
  | .nil => .nil
  | .node l d _ r => .node l.stripGroups d 0 r.stripGroups
  | .group d _ inner => if d == .group then inner.stripGroups else .group d 0 inner.stripGroups

/-- same right spine, `E`-related parts off the spine -/
inductive Sim (E : RTree → RTree → Prop) : RTree → RTree → Prop
  | nil : Sim E .nil .nil
  | node {l l' r r' : RTree} (d : Definition) (k k' : Nat) : E l l' → Sim E r r' → Sim E (.node l d k r) (.node l' d k' r')
  | group {i i' : RTree} (d : Definition) (k k' : Nat) : E i i' → Sim E (.group d k i) (.group d k' i')

/-- what the simulation needs of the relation used off the spine -/
structure EOK (E : RTree → RTree → Prop) : Prop where
  refl : ∀ a, E a a
  ofSim : ∀ a b, Sim E a b → E a b

theorem Sim.rfl' {E : RTree → RTree → Prop} (h : EOK E) : ∀ a, Sim E a a
  | .nil => .nil
  | .node l d k r => .node d k k (h.refl l) (Sim.rfl' h r)
  | .group d k i => .group d k k (h.refl i)

def EErase (a b : RTree) : Prop := a.eraseTok = b.eraseTok
def EStrip (a b : RTree) : Prop := a.stripGroups = b.stripGroups

theorem eok_erase : EOK EErase where
  refl := fun _ => rfl
  ofSim := by
    intro a b h
    induction h with
    | nil => rfl
    | node d k k' hl _ ih => unfold EErase at *; simp only [RTree.eraseTok, hl, ih]
    | group d k k' hi => unfold EErase at *; simp only [RTree.eraseTok, hi]

theorem eok_strip : EOK EStrip where
  refl := fun _ => rfl
  ofSim := by
    intro a b h
    induction h with
    | nil => rfl
    | node d k k' hl _ ih => unfold EStrip at *; simp only [RTree.stripGroups, hl, ih]
    | group d k k' hi => unfold EStrip at *; simp only [RTree.stripGroups, hi]

section
variable {E : RTree → RTree → Prop}

theorem Sim.isNil {a b : RTree} (h : Sim E a b) : a.isNil = b.isNil := by cases h <;> rfl

/-- relation on optional results -/
def OptRel (R : RTree → RTree → Prop) : Option RTree → Option RTree → Prop
  | some a, some b => R a b
  | none, none => True
  | _, _ => False

theorem absorb_sim (hE : EOK E) (tbl : Table) (q : Nat) (rtl : Bool) (d : Definition) (k k' : Nat) {t t' : RTree}
    (h : Sim E t t') : OptRel (Sim E) (absorb tbl q rtl d k t) (absorb tbl q rtl d k' t') := by
  induction h with
  | nil => exact True.intro
  | group d0 k0 k0' hi => exact True.intro
  | node a ka ka' hl hr ih =>
    rename_i l l' r r'
    simp only [absorb]
    cases h1 : absorb tbl q rtl d k r with
    | some r1 =>
      cases h2 : absorb tbl q rtl d k' r' with
      | some r2 => rw [h1, h2] at ih; exact .node a ka ka' hl ih
      | none => rw [h1, h2] at ih; exact ih.elim
    | none =>
      cases h2 : absorb tbl q rtl d k' r' with
      | some r2 => rw [h1, h2] at ih; exact ih.elim
      | none =>
        cases tbl.prio a with
        | none => exact True.intro
        | some pa =>
          simp only
          split
          · exact .node a ka ka' hl (.node d k k' (hE.ofSim _ _ hr) .nil)
          · exact True.intro

theorem attach_sim (hE : EOK E) (tbl : Table) (q : Nat) (rtl : Bool) (d : Definition) (k k' : Nat) {t t' : RTree}
    (h : Sim E t t') : Sim E (attach tbl q rtl d k t) (attach tbl q rtl d k' t') := by
  have := absorb_sim hE tbl q rtl d k k' h
  unfold attach
  cases h1 : absorb tbl q rtl d k t <;> cases h2 : absorb tbl q rtl d k' t' <;> rw [h1, h2] at this
  · exact .node d k k' (hE.ofSim _ _ h) .nil
  · exact this.elim
  · exact this.elim
  · exact this

theorem asProperty_leaf_sim (hE : EOK E) (d : Definition) (k k' : Nat) :
    Sim E (asProperty (.node .nil d k .nil)) (asProperty (.node .nil d k' .nil)) := by
  unfold asProperty
  cases d <;> exact .node _ k k' (hE.refl _) .nil

theorem plug_leaf_sim (hE : EOK E) (d : Definition) (k k' : Nat) {R R' : RTree} (h : Sim E R R') :
    Sim E (plug R (.node .nil d k .nil)) (plug R' (.node .nil d k' .nil)) := by
  induction h with
  | nil => exact .node d k k' (hE.refl _) .nil
  | group d0 k0 k0' hi => exact .group d0 k0 k0' hi
  | node a ka ka' hl hr ih =>
    simp only [plug, hr.isNil]
    split
    · split
      · exact .node a ka ka' hl (asProperty_leaf_sim hE d k k')
      · exact .node a ka ka' hl (.node d k k' (hE.refl _) .nil)
    · exact .node a ka ka' hl ih

theorem plug_group_sim (gd : Definition) (k k' : Nat) {i i' : RTree} (hi : E i i') {R R' : RTree} (h : Sim E R R') :
    Sim E (plug R (.group gd k i)) (plug R' (.group gd k' i')) := by
  induction h with
  | nil => exact .group gd k k' hi
  | group d0 k0 k0' hi0 => exact .group d0 k0 k0' hi0
  | node a ka ka' hl hr ih =>
    simp only [plug, hr.isNil]
    split
    · have : ∀ kk j, asProperty (.group gd kk j) = .group gd kk j := fun _ _ => rfl
      simp only [this]
      split <;> exact .node a ka ka' hl (.group gd k k' hi)
    · exact .node a ka ka' hl ih

/-- frames: same bracket kind, `Sim`-related trees, same flags -/
structure FSim (E : RTree → RTree → Prop) (f f' : Frame) : Prop where
  ctx : f.ctx.map (·.1) = f'.ctx.map (·.1)
  cur : Sim E f.cur f'.cur
  last : f.last = f'.last
  ws : f.ws = f'.ws
  prevSep : f.prevSep = f'.prevSep

theorem FSim.rfl' (hE : EOK E) (f : Frame) : FSim E f f := ⟨rfl, Sim.rfl' hE _, rfl, rfl, rfl⟩

theorem FSim.inGroup {f f' : Frame} (h : FSim E f f') : f.inGroup = f'.inGroup := by
  have := h.ctx
  unfold Frame.inGroup
  cases h1 : f.ctx with
  | none =>
    cases h2 : f'.ctx with
    | none => rfl
    | some b => rw [h1, h2] at this; cases this
  | some a =>
    cases h2 : f'.ctx with
    | none => rw [h1, h2] at this; cases this
    | some b =>
      obtain ⟨d, p⟩ := a; obtain ⟨d', p'⟩ := b
      rw [h1, h2] at this
      simp only [Option.map_some, Option.some.injEq] at this
      subst this; cases d <;> rfl

/-- relation on outcomes: related values, or the same failure -/
def ORel {α β : Type} (R : α → β → Prop) : Outcome α → Outcome β → Prop
  | .ok a, .ok b => R a b
  | .err e, .err e' => e = e'
  | .panic s, .panic s' => s = s'
  | .fuelOut, .fuelOut => True
  | _, _ => False

/-- stacks of related frames -/
inductive LSim (E : RTree → RTree → Prop) : List Frame → List Frame → Prop
  | nil : LSim E [] []
  | cons {f f' : Frame} {s s' : List Frame} : FSim E f f' → LSim E s s' → LSim E (f :: s) (f' :: s')

theorem LSim.rfl' {E : RTree → RTree → Prop} (hE : EOK E) : ∀ s, LSim E s s
  | [] => .nil
  | f :: s => .cons (FSim.rfl' hE f) (LSim.rfl' hE s)

def SSim (E : RTree → RTree → Prop) (fs fs' : Frame × List Frame) : Prop :=
  FSim E fs.1 fs'.1 ∧ LSim E fs.2 fs'.2

theorem beforeOperand_sim (hE : EOK E) (tbl : Table) {f f' : Frame} (h : FSim E f f') (pos pos' : Nat) :
    ORel (FSim E) (beforeOperand tbl f pos) (beforeOperand tbl f' pos') := by
  unfold beforeOperand
  rw [← h.last, ← h.ws]
  cases f.last <;> simp only [ORel] <;> try exact h
  cases f.ws with
  | false => exact rfl
  | true =>
    simp only [if_true]
    cases tbl.prio .list with
    | none => exact rfl
    | some q => exact ⟨h.ctx, attach_sim hE tbl q false .list _ _ h.cur, rfl, rfl, h.prevSep⟩

theorem operand_step_sim (hE : EOK E) (tbl : Table) {f f' : Frame} (h : FSim E f f') {stack stack' : List Frame}
    (hs : LSim E stack stack') (pos pos' : Nat) (d : Definition) (l : Last) :
    ORel (SSim E)
      (Outcome.bind (beforeOperand tbl f pos) fun f =>
        .ok ({ f with cur := plug f.cur (.node .nil d pos .nil), last := l, ws := false, prevSep := false }, stack))
      (Outcome.bind (beforeOperand tbl f' pos') fun f =>
        .ok ({ f with cur := plug f.cur (.node .nil d pos' .nil), last := l, ws := false, prevSep := false }, stack')) := by
  have hb := beforeOperand_sim hE tbl h pos pos'
  cases h1 : beforeOperand tbl f pos <;> cases h2 : beforeOperand tbl f' pos' <;> rw [h1, h2] at hb <;>
    simp only [ORel] at hb <;> simp only [Outcome.bind, ORel] <;> try exact hb
  exact ⟨⟨hb.ctx, plug_leaf_sim hE d pos pos' hb.cur, rfl, rfl, rfl⟩, hs⟩

theorem binary_step_sim (hE : EOK E) (tbl : Table) {f f' : Frame} (h : FSim E f f') {stack stack' : List Frame}
    (hs : LSim E stack stack') (pos pos' : Nat) (d : Definition) (s : SecDef) :
    ORel (SSim E)
      (match tbl.prio d with
        | none => (.err .implementation : Outcome (Frame × List Frame))
        | some q =>
          let optional := s == .optionalBinaryLeftToRight
          let leftOk := f.last == .operand || f.last == .suffix || (optional && (f.last == .start || f.last == .sep))
          if !leftOk then .err .syntax
          else
            let last : Last := if s == .unarySuffix then .suffix else if optional then .optOp else .op
            .ok ({ f with cur := attach tbl q (s == .binaryRightToLeft) d pos f.cur, last := last, ws := false,
                          prevSep := false }, stack))
      (match tbl.prio d with
        | none => (.err .implementation : Outcome (Frame × List Frame))
        | some q =>
          let optional := s == .optionalBinaryLeftToRight
          let leftOk := f'.last == .operand || f'.last == .suffix || (optional && (f'.last == .start || f'.last == .sep))
          if !leftOk then .err .syntax
          else
            let last : Last := if s == .unarySuffix then .suffix else if optional then .optOp else .op
            .ok ({ f' with cur := attach tbl q (s == .binaryRightToLeft) d pos' f'.cur, last := last, ws := false,
                           prevSep := false }, stack')) := by
  rw [← h.last]
  cases tbl.prio d with
  | none => exact rfl
  | some q =>
    simp only
    split
    · exact rfl
    · exact ⟨⟨h.ctx, attach_sim hE tbl q _ d pos pos' h.cur, rfl, rfl, rfl⟩, hs⟩

/-- **one step preserves the simulation** (positions `pos`, `pos'` are unrelated) -/
theorem refStep_sim (hE : EOK E) (tbl : Table) {f f' : Frame} (h : FSim E f f') {stack stack' : List Frame}
    (hs : LSim E stack stack') (pos pos' : Nat) (t : PToken) (rest : List PToken) :
    ORel (SSim E) (refStep tbl f stack pos t rest) (refStep tbl f' stack' pos' t rest) := by
  unfold refStep
  generalize tbl.define t.type = ds
  obtain ⟨d, s⟩ := ds
  cases s with
  | none => exact rfl
  | annotation => exact ⟨h, hs⟩
  | whitespace => exact ⟨⟨h.ctx, h.cur, h.last, rfl, h.prevSep⟩, hs⟩
  | startSideEffect => exact rfl
  | endSideEffect => exact rfl
  | value =>
    simp only
    split
    · exact rfl
    · exact operand_step_sim hE tbl h hs pos pos' d .operand
  | identifier =>
    simp only
    split
    · exact rfl
    · exact operand_step_sim hE tbl h hs pos pos' d .operand
  | unaryPrefix => exact operand_step_sim hE tbl h hs pos pos' d .op
  | binaryLeftToRight => exact binary_step_sim hE tbl h hs pos pos' d _
  | binaryRightToLeft => exact binary_step_sim hE tbl h hs pos pos' d _
  | optionalBinaryLeftToRight => exact binary_step_sim hE tbl h hs pos pos' d _
  | unarySuffix => exact binary_step_sim hE tbl h hs pos pos' d _
  | startGrouping =>
    simp only
    have hb := beforeOperand_sim hE tbl h pos pos'
    cases h1 : beforeOperand tbl f pos <;> cases h2 : beforeOperand tbl f' pos' <;> rw [h1, h2] at hb <;>
      simp only [ORel] at hb <;> simp only [Outcome.bind, ORel] <;> try exact hb
    exact ⟨⟨rfl, .nil, rfl, rfl, rfl⟩, .cons ⟨hb.ctx, hb.cur, hb.last, rfl, hb.prevSep⟩ hs⟩
  | endGrouping =>
    simp only
    have hc := h.ctx
    cases h1 : f.ctx with
    | none =>
      cases h2 : f'.ctx with
      | none => exact rfl
      | some gp => rw [h1, h2] at hc; cases hc
    | some gp =>
      cases h2 : f'.ctx with
      | none => rw [h1, h2] at hc; cases hc
      | some gp' =>
        obtain ⟨gd, gpos⟩ := gp
        obtain ⟨gd', gpos'⟩ := gp'
        rw [h1, h2] at hc
        simp only [Option.map_some, Option.some.injEq] at hc
        subst hc
        cases hs with
        | nil => exact rfl
        | cons hp hs' =>
          simp only [← h.last]
          split
          · exact rfl
          · split
            · exact rfl
            · exact ⟨⟨hp.ctx, plug_group_sim gd gpos gpos' (hE.ofSim _ _ h.cur) hp.cur, rfl, rfl, rfl⟩, hs'⟩
  | subexpression =>
    simp only [← h.inGroup, ← h.prevSep, ← h.last]
    split
    · exact ⟨⟨h.ctx, h.cur, rfl, rfl, rfl⟩, hs⟩
    · split
      · exact ⟨⟨h.ctx, h.cur, rfl, h.ws, rfl⟩, hs⟩
      · split
        · exact rfl
        · cases tbl.prio d with
          | none => exact rfl
          | some q => exact ⟨⟨h.ctx, attach_sim hE tbl q false d pos pos' h.cur, rfl, rfl, rfl⟩, hs⟩

/-- **the loop preserves the simulation** -/
theorem refLoop_sim (hE : EOK E) (tbl : Table) : ∀ (toks : List PToken) {f f' : Frame} {stack stack' : List Frame}
    (pos pos' : Nat), FSim E f f' → LSim E stack stack' →
    ORel (Sim E) (refLoop tbl f stack pos toks) (refLoop tbl f' stack' pos' toks)
  | [], f, f', stack, stack', _, _, h, hs => by
    unfold refLoop
    rw [← h.last]
    cases hs with
    | nil =>
      simp only [List.isEmpty_nil, Bool.not_true, Bool.false_eq_true, if_false]
      split
      · exact rfl
      · exact h.cur
    | cons _ _ => exact rfl
  | t :: rest, f, f', stack, stack', pos, pos', h, hs => by
    unfold refLoop
    have hst := refStep_sim hE tbl h hs pos pos' t rest
    cases h1 : refStep tbl f stack pos t rest <;> cases h2 : refStep tbl f' stack' pos' t rest <;> rw [h1, h2] at hst <;>
      simp only [ORel] at hst <;> simp only [Outcome.bind, ORel] <;> try exact hst
    exact refLoop_sim hE tbl rest (pos + 1) (pos' + 1) hst.1 hst.2

end

/-- related outcomes under `EErase`-simulation have equal position-erased results -/
theorem ORel.erase_eq {a b : Outcome RTree} (h : ORel (Sim EErase) a b) :
    a.mapT RTree.eraseTok = b.mapT RTree.eraseTok := by
  cases a <;> cases b <;> simp only [ORel] at h <;> simp only [Outcome.mapT]
  · exact congrArg _ (eok_erase.ofSim _ _ h)
  · rw [h]
  · rw [h]

theorem ORel.strip_eq {a b : Outcome RTree} (h : ORel (Sim EStrip) a b) :
    a.mapT RTree.stripGroups = b.mapT RTree.stripGroups := by
  cases a <;> cases b <;> simp only [ORel] at h <;> simp only [Outcome.mapT]
  · exact congrArg _ (eok_strip.ofSim _ _ h)
  · rw [h]
  · rw [h]

end Garnish.Spec
