import Garnish.Abs.Machine
import Garnish.Spec.Defined
set_option linter.unusedSimpArgs false
namespace Garnish.Lemmas
open Garnish Gen Garnish.Abs

variable {F : Type} (fo : FloatOps F)

theorem arithBinary_defer (op : Instruction) (nop : NumOp) (l r : Val F)
    (h : ¬ (l.typeOf = .number ∧ r.typeOf = .number)) : arithBinary fo op nop l r = .defer op l r := by
  cases l <;> first
    | rfl
    | (cases r <;> first | rfl | (exfalso; apply h; constructor <;> rfl))

theorem arithUnary_defer (op : Instruction) (nop : NumOp) (v : Val F)
    (h : v.typeOf ≠ .number) : arithUnary fo op nop v = .defer op v .unit := by
  cases v <;> first | rfl | (exfalso; apply h; rfl)

theorem makeRange_defer (se ee : Bool) (l r : Val F)
    (h : ¬ (l.typeOf = .number ∧ r.typeOf = .number)) : makeRange fo se ee l r = .defer (rangeInstr se ee) l r := by
  cases l <;> first
    | rfl
    | (cases r <;> first | rfl | (exfalso; apply h; constructor <;> rfl))

theorem access_undefined (l r : Val F) (h : Spec.definedAccess l.typeOf r.typeOf = false) :
    access fo l r = .defer .access l r := by
  cases l <;> cases r <;> simp [Spec.definedAccess, Val.typeOf] at h <;>
    simp [access, Val.typeOf, getAccess, accessSym, accessInt]

theorem apply_undefined (useRight : Bool) (instr : Instruction) (l r : Val F)
    (h : Spec.definedApply l.typeOf r.typeOf = false) :
    applyKind fo instr useRight l r = .out (.defer instr l r) := by
  cases l <;> cases r <;> simp [Spec.definedApply, Val.typeOf] at h <;> simp [applyKind]

theorem leftInternal_undefined (v : Val F) (h : Spec.definedUnary .accessLeftInternal v.typeOf = false) :
    accessLeftInternal v = .defer .accessLeftInternal v .unit := by
  cases v <;> simp [Spec.definedUnary, Val.typeOf] at h <;> simp [accessLeftInternal]

theorem rightInternal_undefined (v : Val F) (h : Spec.definedUnary .accessRightInternal v.typeOf = false) :
    accessRightInternal v = .defer .accessRightInternal v .unit := by
  cases v <;> simp [Spec.definedUnary, Val.typeOf] at h <;> simp [accessRightInternal]

theorem lengthInternal_undefined (v : Val F) (h : Spec.definedUnary .accessLengthInternal v.typeOf = false) :
    accessLengthInternal fo v = .defer .accessLengthInternal v .unit := by
  cases v <;> simp [Spec.definedUnary, Val.typeOf] at h <;> simp [accessLengthInternal]

end Garnish.Lemmas
