/-
`treeOf`: a parse tree for an expression, structurally.  The expression is first turned into a skeleton (`Sk`: leaf, prefix
node, suffix node, binary node — with the node's definition and token text), every compound operand wrapped in a group
node `( … )` as a cautious printer would parenthesise it; the skeleton is then numbered in-order, which is how the real
parser numbers its nodes (by token position).
This file: skeletons, their numbering, and that the numbered skeleton has the `Shape` that `validate_parse_tree` accepts.
-/
import Garnish.Lemmas.CompileTreeV
namespace Garnish.Abs.Tree
open Garnish Garnish.Gen Garnish.Spec Garnish.Abs Garnish.Model.Parser Garnish.Model.Literals Garnish.Model.Build

/-- definition and token text of a node -/
abbrev Lab := Definition × List Char

inductive Sk where
  | leaf (d : Lab)
  | pre (d : Lab) (c : Sk)
  | suf (c : Sk) (d : Lab)
  | bin (l : Sk) (d : Lab) (r : Sk)

namespace Sk

def size : Sk → Nat
  | leaf _ => 1
  | pre _ c => 1 + c.size
  | suf c _ => c.size + 1
  | bin l _ r => l.size + 1 + r.size

/-- offset of the root within the interval of the skeleton -/
def root : Sk → Nat
  | leaf _ => 0
  | pre _ _ => 0
  | suf c _ => c.size
  | bin l _ _ => l.size

def lab : Sk → Lab
  | leaf d => d
  | pre d _ => d
  | suf _ d => d
  | bin _ d _ => d

theorem size_pos : ∀ sk : Sk, 0 < sk.size
  | leaf _ => by simp [size]
  | pre _ _ => by simp [size]; omega
  | suf _ _ => by simp [size]
  | bin _ _ _ => by simp [size]; omega

theorem root_lt : ∀ sk : Sk, sk.root < sk.size
  | leaf _ => by simp [size, root]
  | pre _ _ => by simp [size, root]; omega
  | suf _ _ => by simp [size, root]
  | bin _ _ _ => by simp [size, root]; omega

def mkPN (d : Lab) (parent left right : Option Nat) : ParseNode :=
  ⟨d.1, .none, parent, left, right, ⟨d.2, .unknown, 0, 0⟩⟩

/-- the node with number `k` when the skeleton occupies the numbers from `lo` on and hangs below `par` -/
def nodeAt : Sk → Nat → Option Nat → Nat → Option ParseNode
  | leaf d, lo, par, k => if k = lo then some (mkPN d par none none) else none
  | pre d c, lo, par, k =>
    if k = lo then some (mkPN d par none (some (lo + 1 + c.root))) else nodeAt c (lo + 1) (some lo) k
  | suf c d, lo, par, k =>
    if k = lo + c.size then some (mkPN d par (some (lo + c.root)) none) else nodeAt c lo (some (lo + c.size)) k
  | bin l d r, lo, par, k =>
    if k < lo + l.size then nodeAt l lo (some (lo + l.size)) k
    else if k = lo + l.size then some (mkPN d par (some (lo + l.root)) (some (lo + l.size + 1 + r.root)))
    else nodeAt r (lo + l.size + 1) (some (lo + l.size)) k

theorem nodeAt_some : ∀ (sk : Sk) (lo : Nat) (par : Option Nat) (k : Nat), lo ≤ k → k < lo + sk.size →
    ∃ pn, nodeAt sk lo par k = some pn
  | leaf d, lo, par, k, h1, h2 => by
    simp only [size] at h2
    exact ⟨mkPN d par none none, by simp [nodeAt, show k = lo by omega]⟩
  | pre d c, lo, par, k, h1, h2 => by
    simp only [size] at h2
    simp only [nodeAt]
    split
    · exact ⟨_, rfl⟩
    · exact nodeAt_some c (lo + 1) _ k (by omega) (by omega)
  | suf c d, lo, par, k, h1, h2 => by
    simp only [size] at h2
    simp only [nodeAt]
    split
    · exact ⟨_, rfl⟩
    · exact nodeAt_some c lo _ k h1 (by omega)
  | bin l d r, lo, par, k, h1, h2 => by
    simp only [size] at h2
    simp only [nodeAt]
    split
    · exact nodeAt_some l lo _ k h1 (by omega)
    · split
      · exact ⟨_, rfl⟩
      · exact nodeAt_some r (lo + l.size + 1) _ k (by omega) (by omega)

end Sk

open Sk

/-- the array agrees with the numbered skeleton on its interval -/
def Agree (tree : Array ParseNode) (sk : Sk) (lo : Nat) (par : Option Nat) : Prop :=
  ∀ k, lo ≤ k → k < lo + sk.size → tree[k]? = nodeAt sk lo par k

variable {tree : Array ParseNode}

/-- the node at the root of the skeleton carries its label and parent -/
theorem Agree.rootNode {sk : Sk} {lo : Nat} {par : Option Nat} (h : Agree tree sk lo par) :
    ∃ pn, tree[lo + sk.root]? = some pn ∧ pn.definition = sk.lab.1 ∧ pn.lexToken.text = sk.lab.2 ∧ pn.parent = par := by
  have := h (lo + sk.root) (by omega) (by have := root_lt sk; omega)
  cases sk with
  | leaf d => exact ⟨mkPN d par none none, by rw [this]; simp [nodeAt, root], rfl, rfl, rfl⟩
  | pre d c => exact ⟨mkPN d par none (some (lo + 1 + c.root)), by rw [this]; simp [nodeAt, root], rfl, rfl, rfl⟩
  | suf c d => exact ⟨mkPN d par (some (lo + c.root)) none, by rw [this]; simp [nodeAt, root], rfl, rfl, rfl⟩
  | bin l d r =>
    exact ⟨mkPN d par (some (lo + l.root)) (some (lo + l.size + 1 + r.root)), by rw [this]; simp [nodeAt, root], rfl, rfl, rfl⟩

theorem Agree.leaf {d : Lab} {lo : Nat} {par : Option Nat} (h : Agree tree (.leaf d) lo par) :
    tree[lo]? = some (mkPN d par none none) := by
  rw [h lo (Nat.le_refl _) (by simp [size])]; simp [nodeAt]

theorem Agree.pre {d : Lab} {c : Sk} {lo : Nat} {par : Option Nat} (h : Agree tree (.pre d c) lo par) :
    tree[lo]? = some (mkPN d par none (some (lo + 1 + c.root))) ∧ Agree tree c (lo + 1) (some lo) := by
  refine ⟨by rw [h lo (Nat.le_refl _) (by simp [size]; omega)]; simp [nodeAt], fun k h1 h2 => ?_⟩
  rw [h k (by omega) (by simp only [size]; omega)]
  simp only [nodeAt, if_neg (show ¬ k = lo by omega)]

theorem Agree.suf {d : Lab} {c : Sk} {lo : Nat} {par : Option Nat} (h : Agree tree (.suf c d) lo par) :
    tree[lo + c.size]? = some (mkPN d par (some (lo + c.root)) none) ∧ Agree tree c lo (some (lo + c.size)) := by
  refine ⟨by rw [h (lo + c.size) (by omega) (by simp [size])]; simp [nodeAt], fun k h1 h2 => ?_⟩
  rw [h k h1 (by simp only [size]; omega)]
  simp only [nodeAt, if_neg (show ¬ k = lo + c.size by omega)]

theorem Agree.bin {d : Lab} {l r : Sk} {lo : Nat} {par : Option Nat} (h : Agree tree (.bin l d r) lo par) :
    tree[lo + l.size]? = some (mkPN d par (some (lo + l.root)) (some (lo + l.size + 1 + r.root))) ∧
    Agree tree l lo (some (lo + l.size)) ∧ Agree tree r (lo + l.size + 1) (some (lo + l.size)) := by
  refine ⟨by rw [h (lo + l.size) (by omega) (by simp [size]; omega)]; simp [nodeAt], fun k h1 h2 => ?_, fun k h1 h2 => ?_⟩
  · rw [h k h1 (by simp only [size]; omega)]
    simp only [nodeAt, if_pos h2]
  · rw [h k (by omega) (by simp only [size]; omega)]
    simp only [nodeAt, if_neg (show ¬ k < lo + l.size by omega), if_neg (show ¬ k = lo + l.size by omega)]

/-- the numbered skeleton has the shape that `validate_parse_tree` accepts -/
theorem shape_of_agree : ∀ (sk : Sk) (lo : Nat) (par : Option Nat), Agree tree sk lo par →
    Shape tree lo (lo + sk.size) (lo + sk.root)
  | .leaf d, lo, par, h => by
    simpa [size, root] using Shape.leaf (tree := tree) h.leaf rfl rfl
  | .pre d c, lo, par, h => by
    obtain ⟨h1, h2⟩ := h.pre
    obtain ⟨pc, hc1, _, _, hc4⟩ := h2.rootNode
    have := Shape.right (tree := tree) h1 rfl rfl ⟨pc, hc1, hc4⟩ (by
      have := shape_of_agree c (lo + 1) _ h2
      simpa [Nat.add_assoc] using this)
    simpa [size, root, Nat.add_assoc] using this
  | .suf c d, lo, par, h => by
    obtain ⟨h1, h2⟩ := h.suf
    obtain ⟨pc, hc1, _, _, hc4⟩ := h2.rootNode
    have := Shape.left (tree := tree) h1 rfl rfl ⟨pc, hc1, hc4⟩ (shape_of_agree c lo _ h2)
    simpa [size, root, Nat.add_assoc] using this
  | .bin l d r, lo, par, h => by
    obtain ⟨h1, h2, h3⟩ := h.bin
    obtain ⟨pl, hl1, _, _, hl4⟩ := h2.rootNode
    obtain ⟨pr, hr1, _, _, hr4⟩ := h3.rootNode
    have := Shape.both (tree := tree) h1 rfl rfl ⟨pl, hl1, hl4⟩ ⟨pr, by simpa [Nat.add_assoc] using hr1, hr4⟩
      (shape_of_agree l lo _ h2) (by
        have := shape_of_agree r (lo + l.size + 1) _ h3
        simpa [Nat.add_assoc] using this)
    simpa [size, root, Nat.add_assoc] using this

/-- the array of a skeleton -/
def Sk.toArray (sk : Sk) : Array ParseNode :=
  Array.ofFn (n := sk.size) (fun k => (nodeAt sk 0 none k.val).getD default)

theorem Sk.toArray_size (sk : Sk) : sk.toArray.size = sk.size := by simp [Sk.toArray]

theorem Sk.toArray_agree (sk : Sk) : Agree sk.toArray sk 0 none := by
  intro k _ h2
  have hk : k < sk.size := by omega
  obtain ⟨pn, hpn⟩ := nodeAt_some sk 0 none k (Nat.zero_le _) h2
  simp [Sk.toArray, hk, hpn]

end Garnish.Abs.Tree
