/-
C04, builder half — evaluation order, part 11: lists keep the order invariant.
-/
import Garnish.Lemmas.BuildSeq10
namespace Garnish.Lemmas.BuildSeq
open Garnish Garnish.Gen Garnish.Model.Parser Garnish.Model.Literals Garnish.Model.Build Garnish.Lemmas.Build
open Garnish.Lemmas.BuildTotal
open Garnish.Lemmas.BuildAttr (getNode_sat_eq setNodeIdx_sat_eq AddMeta)

variable {F : Type} {root : Nat} {tree : Array ParseNode} {G : Nat → Prop} {m0 : Nat}

section pre
variable {ph : Nat → Phase} {ctx : Ctx F} {ni : Nat} {pn : ParseNode}

theorem handleList_seq (p : PreS root tree G m0 ph ctx ni pn)
    (hd : pn.definition ≠ .group ∧ pn.definition ≠ .nestedExpression) (hnl : isLate pn.definition = false)
    (hk : layout pn.definition = .lrn) (hnse : pn.definition ≠ .sideEffect) :
    Sat (PostS root tree G m0 ph) (handleList ctx ni pn) := by
  unfold handleList
  refine sat_bind (getNode_sat_eq ctx.nodes ni) (fun node hnode => ?_)
  have hpni := p.pre.pni hnode
  cases hst : node.state with
  | uninitialized =>
    dsimp only
    cases hlp : node.listParent with
    | none =>
      dsimp only
      cases hr : pn.right with
      | none =>
        cases hl : pn.left with
        | none =>
          simp only [bind_ok, sat_ok, hpni]
          exact p.firstVisit hnode hst hd [] [ni] [(ni, _)] [] (by simp) (fun m hm => by cases hm) (by simp) rfl rfl
            (by list_tac) (by list_tac) (by simp) (by simp) (fun c hc => by cases hc)
            (fun c hc => by cases hc) (by asgp_tac) (by asg_tac) ⟨_, List.mem_cons_self⟩ (by asgu_tac) (fun c hc => by cases hc)
            (conf_layout p.pre.hpn (none) (none) hl hr .lrn hk .p2 (fun _ => rfl) [] [ni] rfl (fun c => by simp [csOf]))
            (by simp) (fun h => absurd h hnse)
        | some l =>
          have hllt := p.pre.child_lt (p.pre.childL hl)
          simp only [setNodeIdx_eq, size_putNode, hllt, bind_ok, sat_ok, hpni]
          exact p.firstVisit hnode hst hd [l] [ni, l] [(ni, _), (l, _)] [] (by simp) (fun m hm => by cases hm) (by simp) rfl rfl
            (by list_tac) (by list_tac) (by simp) (by simp) (by list_tac)
            (by child_tac p.pre, hnl) (by asgp_tac) (by asg_tac) ⟨_, List.mem_cons_self⟩ (by asgu_tac) (by asgall_tac)
            (conf_layout p.pre.hpn (some l) (none) hl hr .lrn hk .p2 (fun _ => rfl) [l] [ni, l] rfl (fun c => by simp [csOf]))
            (by simp) (fun h => absurd h hnse)
      | some r =>
        have hrlt := p.pre.child_lt (p.pre.childR hr)
        cases hl : pn.left with
        | none =>
          simp only [setNodeIdx_eq, size_putNode, hrlt, bind_ok, sat_ok, hpni]
          exact p.firstVisit hnode hst hd [r] [ni, r] [(ni, _), (r, _)] [] (by simp) (fun m hm => by cases hm) (by simp) rfl rfl
            (by list_tac) (by list_tac) (by simp) (by simp) (by list_tac)
            (by child_tac p.pre, hnl) (by asgp_tac) (by asg_tac) ⟨_, List.mem_cons_self⟩ (by asgu_tac) (by asgall_tac)
            (conf_layout p.pre.hpn (none) (some r) hl hr .lrn hk .p2 (fun _ => rfl) [r] [ni, r] rfl (fun c => by simp [csOf]))
            (by simp) (fun h => absurd h hnse)
        | some l =>
          have hllt := p.pre.child_lt (p.pre.childL hl)
          have hne := p.pre.lr_ne hl hr
          simp only [setNodeIdx_eq, size_putNode, hrlt, hllt, bind_ok, sat_ok, hpni]
          exact p.firstVisit hnode hst hd [r, l] [ni, r, l] [(ni, _), (r, _), (l, _)] [] (by simp) (fun m hm => by cases hm) (by simp) rfl rfl
            (by list_tac) (by list_tac) (by list_tac) (by simp) (by list_tac)
            (by child_tac p.pre, hnl) (by asgp_tac) (by asg_tac) ⟨_, List.mem_cons_self⟩ (by asgu_tac) (by asgall_tac)
            (conf_layout p.pre.hpn (some l) (some r) hl hr .lrn hk .p2 (fun _ => rfl) [r, l] [ni, r, l] rfl (fun c => by simp [csOf]))
            (by simp) (fun h => absurd h hnse)
    | some pd =>
      obtain ⟨par, d⟩ := pd
      dsimp only
      rcases Classical.em ((d == pn.definition) = true) with hb | hb
      · rw [if_pos hb]
        dsimp only
        cases hr : pn.right with
        | none =>
          cases hl : pn.left with
          | none =>
            simp only [bind_ok, sat_ok, hpni]
            exact p.firstVisit hnode hst hd [] [ni] [(ni, _)] [] (by simp) (fun m hm => by cases hm) (by simp) rfl rfl
              (by list_tac) (by list_tac) (by simp) (by simp) (fun c hc => by cases hc)
              (fun c hc => by cases hc) (by asgp_tac) (by asg_tac) ⟨_, List.mem_cons_self⟩ (by asgu_tac) (fun c hc => by cases hc)
              (conf_layout p.pre.hpn (none) (none) hl hr .lrn hk .p2 (fun _ => rfl) [] [ni] rfl (fun c => by simp [csOf]))
              (by simp) (fun h => absurd h hnse)
          | some l =>
            have hllt := p.pre.child_lt (p.pre.childL hl)
            simp only [setNodeIdx_eq, size_putNode, hllt, bind_ok, sat_ok, hpni]
            exact p.firstVisit hnode hst hd [l] [ni, l] [(ni, _), (l, _)] [] (by simp) (fun m hm => by cases hm) (by simp) rfl rfl
              (by list_tac) (by list_tac) (by simp) (by simp) (by list_tac)
              (by child_tac p.pre, hnl) (by asgp_tac) (by asg_tac) ⟨_, List.mem_cons_self⟩ (by asgu_tac) (by asgall_tac)
              (conf_layout p.pre.hpn (some l) (none) hl hr .lrn hk .p2 (fun _ => rfl) [l] [ni, l] rfl (fun c => by simp [csOf]))
              (by simp) (fun h => absurd h hnse)
        | some r =>
          have hrlt := p.pre.child_lt (p.pre.childR hr)
          cases hl : pn.left with
          | none =>
            simp only [setNodeIdx_eq, size_putNode, hrlt, bind_ok, sat_ok, hpni]
            exact p.firstVisit hnode hst hd [r] [ni, r] [(ni, _), (r, _)] [] (by simp) (fun m hm => by cases hm) (by simp) rfl rfl
              (by list_tac) (by list_tac) (by simp) (by simp) (by list_tac)
              (by child_tac p.pre, hnl) (by asgp_tac) (by asg_tac) ⟨_, List.mem_cons_self⟩ (by asgu_tac) (by asgall_tac)
              (conf_layout p.pre.hpn (none) (some r) hl hr .lrn hk .p2 (fun _ => rfl) [r] [ni, r] rfl (fun c => by simp [csOf]))
              (by simp) (fun h => absurd h hnse)
          | some l =>
            have hllt := p.pre.child_lt (p.pre.childL hl)
            have hne := p.pre.lr_ne hl hr
            simp only [setNodeIdx_eq, size_putNode, hrlt, hllt, bind_ok, sat_ok, hpni]
            exact p.firstVisit hnode hst hd [r, l] [ni, r, l] [(ni, _), (r, _), (l, _)] [] (by simp) (fun m hm => by cases hm) (by simp) rfl rfl
              (by list_tac) (by list_tac) (by list_tac) (by simp) (by list_tac)
              (by child_tac p.pre, hnl) (by asgp_tac) (by asg_tac) ⟨_, List.mem_cons_self⟩ (by asgu_tac) (by asgall_tac)
              (conf_layout p.pre.hpn (some l) (some r) hl hr .lrn hk .p2 (fun _ => rfl) [r, l] [ni, r, l] rfl (fun c => by simp [csOf]))
              (by simp) (fun h => absurd h hnse)
      · rw [if_neg hb]
        dsimp only
        cases hr : pn.right with
        | none =>
          cases hl : pn.left with
          | none =>
            simp only [bind_ok, sat_ok, hpni]
            exact p.firstVisit hnode hst hd [] [ni] [(ni, _)] [] (by simp) (fun m hm => by cases hm) (by simp) rfl rfl
              (by list_tac) (by list_tac) (by simp) (by simp) (fun c hc => by cases hc)
              (fun c hc => by cases hc) (by asgp_tac) (by asg_tac) ⟨_, List.mem_cons_self⟩ (by asgu_tac) (fun c hc => by cases hc)
              (conf_layout p.pre.hpn (none) (none) hl hr .lrn hk .p2 (fun _ => rfl) [] [ni] rfl (fun c => by simp [csOf]))
              (by simp) (fun h => absurd h hnse)
          | some l =>
            have hllt := p.pre.child_lt (p.pre.childL hl)
            simp only [setNodeIdx_eq, size_putNode, hllt, bind_ok, sat_ok, hpni]
            exact p.firstVisit hnode hst hd [l] [ni, l] [(ni, _), (l, _)] [] (by simp) (fun m hm => by cases hm) (by simp) rfl rfl
              (by list_tac) (by list_tac) (by simp) (by simp) (by list_tac)
              (by child_tac p.pre, hnl) (by asgp_tac) (by asg_tac) ⟨_, List.mem_cons_self⟩ (by asgu_tac) (by asgall_tac)
              (conf_layout p.pre.hpn (some l) (none) hl hr .lrn hk .p2 (fun _ => rfl) [l] [ni, l] rfl (fun c => by simp [csOf]))
              (by simp) (fun h => absurd h hnse)
        | some r =>
          have hrlt := p.pre.child_lt (p.pre.childR hr)
          cases hl : pn.left with
          | none =>
            simp only [setNodeIdx_eq, size_putNode, hrlt, bind_ok, sat_ok, hpni]
            exact p.firstVisit hnode hst hd [r] [ni, r] [(ni, _), (r, _)] [] (by simp) (fun m hm => by cases hm) (by simp) rfl rfl
              (by list_tac) (by list_tac) (by simp) (by simp) (by list_tac)
              (by child_tac p.pre, hnl) (by asgp_tac) (by asg_tac) ⟨_, List.mem_cons_self⟩ (by asgu_tac) (by asgall_tac)
              (conf_layout p.pre.hpn (none) (some r) hl hr .lrn hk .p2 (fun _ => rfl) [r] [ni, r] rfl (fun c => by simp [csOf]))
              (by simp) (fun h => absurd h hnse)
          | some l =>
            have hllt := p.pre.child_lt (p.pre.childL hl)
            have hne := p.pre.lr_ne hl hr
            simp only [setNodeIdx_eq, size_putNode, hrlt, hllt, bind_ok, sat_ok, hpni]
            exact p.firstVisit hnode hst hd [r, l] [ni, r, l] [(ni, _), (r, _), (l, _)] [] (by simp) (fun m hm => by cases hm) (by simp) rfl rfl
              (by list_tac) (by list_tac) (by list_tac) (by simp) (by list_tac)
              (by child_tac p.pre, hnl) (by asgp_tac) (by asg_tac) ⟨_, List.mem_cons_self⟩ (by asgu_tac) (by asgall_tac)
              (conf_layout p.pre.hpn (some l) (some r) hl hr .lrn hk .p2 (fun _ => rfl) [r, l] [ni, r, l] rfl (fun c => by simp [csOf]))
              (by simp) (fun h => absurd h hnse)
  | initialized =>
    dsimp only
    have key0 : Sat (PostS root tree G m0 ph) (Outcome.ok ctx) :=
      p.lastVisit [] [] (by simp) (fun m hm => by cases hm) rfl rfl rfl (fun q hq => by cases hq) (fun q hq => by cases hq)
        (fun h => absurd h hnse)
    have key : Sat (PostS root tree G m0 ph) (Outcome.bind (getNode ctx.nodes ni) fun node =>
        Outcome.ok { ctx with
          nodes := putNode ctx.nodes ni { node with childCount := node.childCount + 1 },
          data := pushInstr ctx.data .makeList (some node.childCount) (some node.parseNodeIndex) }) := by
      refine sat_bind (getNode_sat_eq ctx.nodes ni) (fun node2 hnode2 => ?_)
      have hp2 := p.pre.pni hnode2
      refine p.lastVisit [(ni, _)] [some ni] (by simp [pushInstr, hp2]) (by hl_tac) rfl rfl rfl (fun q hq => ?_) (fun q hq => ?_)
        (fun h => absurd h hnse)
      · simp only [List.mem_cons, List.mem_nil_iff, or_false] at hq
        subst hq; exact hp2
      · simp only [List.mem_cons, List.mem_nil_iff, or_false] at hq
        subst hq; exact ⟨rfl, node2, hnode2, rfl⟩
    repeat' (first | exact key0 | exact key | split)

end pre

end Garnish.Lemmas.BuildSeq
