/-
`SimpleGarnishData` as a store: register stack (`pop_register` refuses a `StackFrame`: `TopOpen`), value stack,
instruction cursor, host extension points.
-/
import Garnish.Lemmas.RuntimeSimple4
namespace Garnish.Lemmas.Runtime.Simple
open Garnish Gen Garnish.Model.Equality Garnish.Model.Runtime Garnish.Lemmas.Runtime
variable {F : Type} {hit : List (SimCell F) → SimCell F → Option Nat} {h : SimHost F}

local notation "S" => simpleRStore hit h

theorem keeps_same {st st' : SimState F} (hcells : st'.cells = st.cells) (hj : st'.jumps = st.jumps)
    (hi : st'.instrs = st.instrs) (hc : st'.cursor = st.cursor) : Keeps (simpleRStore hit h) st st' :=
  keeps_ext (by rw [hcells]; exact ext_refl _) hj hi hc

/-- the top of the register `Vec` is not a `StackFrame` (`pop_register` refuses one) -/
def TopOpen (st : SimState F) : Prop :=
  match st.register with
  | [] => True
  | a :: _ => isFrame st.cells a = false

theorem flatRegs_cons_open {cells : List (SimCell F)} {a : Nat} {rest : List Nat} (ha : isFrame cells a = false) :
    flatRegs cells (a :: rest) = a :: flatRegs cells rest := by
  unfold flatRegs; rw [List.filter_cons, ha]; rfl

theorem flatRegs_cons_frame {cells : List (SimCell F)} {a : Nat} {rest : List Nat} (ha : isFrame cells a = true) :
    flatRegs cells (a :: rest) = flatRegs cells rest := by
  unfold flatRegs; rw [List.filter_cons, ha]; rfl

theorem framesOf_cons_open {cells : List (SimCell F)} {a : Nat} {rest : List Nat} (ha : isFrame cells a = false) :
    framesOf cells (a :: rest) = framesOf cells rest := by
  unfold isFrame at ha
  rw [framesOf]
  cases hc : cells[a]? with
  | none => rfl
  | some c => rw [hc] at ha; cases c <;> first | rfl | cases ha

/-- `push_register` of a data address that is not a `StackFrame` -/
theorem pushRegister_law {st : SimState F} (hinv : SInv st) {a : Nat} (ha : a < st.cells.length)
    (hf : isFrame st.cells a = false) :
    ∃ st', (S).pushRegister a st = .ok ((), st') ∧ Eff (S) st st' (a :: (S).regs st) ((S).vals st) ∧ SInv st' ∧
      TopOpen st' := by
  refine ⟨{ st with register := a :: st.register }, rfl, ⟨keeps_same rfl rfl rfl rfl, ?_, rfl, rfl, ?_⟩,
    ⟨hinv.seeded, ?_⟩, hf⟩
  · exact flatRegs_cons_open hf
  · exact framesOf_cons_open hf
  · intro b hb
    cases hb with
    | head => exact ha
    | tail _ hb => exact hinv.regs b hb

theorem register_nil_of {st : SimState F} (ho : TopOpen st) (hr : (S).regs st = []) : st.register = [] := by
  cases hreg : st.register with
  | nil => rfl
  | cons a rest =>
    unfold TopOpen at ho; rw [hreg] at ho
    have : (S).regs st = a :: flatRegs st.cells rest := by
      show flatRegs st.cells st.register = _
      rw [hreg]; exact flatRegs_cons_open ho
    rw [hr] at this; cases this

theorem popRegisterNil_law {st : SimState F} (ho : TopOpen st) (hr : (S).regs st = []) :
    ∃ st', (S).popRegister st = .ok (none, st') ∧ Eff (S) st st' [] ((S).vals st) ∧ st' = st := by
  have hreg := register_nil_of ho hr
  refine ⟨st, ?_, ⟨keeps_same rfl rfl rfl rfl, hr, rfl, rfl, rfl⟩, rfl⟩
  simp only [simpleRStore, hreg]

theorem popRegisterCons_law {st : SimState F} (hinv : SInv st) (ho : TopOpen st) {a : Nat} {rest : List Nat}
    (hr : (S).regs st = a :: rest) :
    ∃ st', (S).popRegister st = .ok (some a, st') ∧ Eff (S) st st' rest ((S).vals st) ∧ SInv st' := by
  cases hreg : st.register with
  | nil =>
    have : (S).regs st = [] := by show flatRegs st.cells st.register = _; rw [hreg]; rfl
    rw [hr] at this; cases this
  | cons b below =>
    unfold TopOpen at ho; rw [hreg] at ho
    have hflat : (S).regs st = b :: flatRegs st.cells below := by
      show flatRegs st.cells st.register = _
      rw [hreg]; exact flatRegs_cons_open ho
    rw [hr] at hflat
    obtain ⟨rfl, rfl⟩ := List.cons.inj hflat
    have hb : a < st.cells.length := hinv.regs a (by rw [hreg]; exact List.mem_cons_self ..)
    have hcell : st.cells[a]? = some st.cells[a] := List.getElem?_eq_getElem hb
    refine ⟨{ st with register := below }, ?_, ⟨keeps_same rfl rfl rfl rfl, rfl, rfl, rfl, ?_⟩, ⟨hinv.seeded, ?_⟩⟩
    · have ho' : isFrame st.cells a = false := ho
      unfold isFrame at ho'
      simp only [simpleRStore, hreg]
      generalize st.cells[a]? = oc at hcell ho'
      cases hcell
      generalize st.cells[a] = c at ho'
      cases c <;> first | rfl | cases ho'
    · show framesOf st.cells below = framesOf st.cells st.register
      rw [hreg]; exact (framesOf_cons_open ho).symm
    · intro c hc; exact hinv.regs c (by rw [hreg]; exact List.mem_cons_of_mem _ hc)

/-! ### the value stack -/

theorem pushValueStack_law (st : SimState F) (a : Nat) :
    ∃ st', (S).pushValueStack a st = .ok ((), st') ∧ Eff (S) st st' ((S).regs st) (a :: (S).vals st) ∧
      (SInv st → SInv st') :=
  ⟨{ st with values := a :: st.values }, rfl, ⟨keeps_same rfl rfl rfl rfl, rfl, rfl, rfl, rfl⟩,
    fun hi => ⟨hi.seeded, hi.regs⟩⟩

theorem popValueStackNil_law (st : SimState F) (hv : (S).vals st = []) :
    ∃ st', (S).popValueStack st = .ok (none, st') ∧ Eff (S) st st' ((S).regs st) [] ∧ st' = st := by
  have hv' : st.values = [] := hv
  refine ⟨st, ?_, ⟨keeps_same rfl rfl rfl rfl, rfl, hv, rfl, rfl⟩, rfl⟩
  simp only [simpleRStore, hv']

theorem popValueStackCons_law (st : SimState F) {a : Nat} {rest : List Nat} (hv : (S).vals st = a :: rest) :
    ∃ st', (S).popValueStack st = .ok (some a, st') ∧ Eff (S) st st' ((S).regs st) rest ∧ (SInv st → SInv st') := by
  have hv' : st.values = a :: rest := hv
  refine ⟨{ st with values := rest }, ?_, ⟨keeps_same rfl rfl rfl rfl, rfl, rfl, rfl, rfl⟩,
    fun hi => ⟨hi.seeded, hi.regs⟩⟩
  simp only [simpleRStore, hv']

theorem setCurrentNil_law (st : SimState F) (r : Nat) (hv : (S).vals st = []) :
    ∃ st', (S).setCurrentValue r st = .ok (false, st') ∧ Eff (S) st st' ((S).regs st) [] ∧ st' = st := by
  have hv' : st.values = [] := hv
  refine ⟨st, ?_, ⟨keeps_same rfl rfl rfl rfl, rfl, hv, rfl, rfl⟩, rfl⟩
  simp only [simpleRStore, hv']

theorem setCurrentCons_law (st : SimState F) (r : Nat) {a : Nat} {rest : List Nat} (hv : (S).vals st = a :: rest) :
    ∃ st', (S).setCurrentValue r st = .ok (true, st') ∧ Eff (S) st st' ((S).regs st) (r :: rest) ∧
      (SInv st → SInv st') := by
  have hv' : st.values = a :: rest := hv
  refine ⟨{ st with values := r :: rest }, ?_, ⟨keeps_same rfl rfl rfl rfl, rfl, rfl, rfl, rfl⟩,
    fun hi => ⟨hi.seeded, hi.regs⟩⟩
  simp only [simpleRStore, hv']

/-! ### cursor and host -/

theorem setCursor_law (n : Nat) (st : SimState F) :
    ∃ st', (S).setInstructionCursor n st = .ok ((), st') ∧ (S).cursor st' = n ∧
      (∀ a v, Decodes ((S).view st) a v → Decodes ((S).view st') a v) ∧ (S).jumpTable st' = (S).jumpTable st ∧
      (S).instrLen st' = (S).instrLen st ∧ (S).instruction st' = (S).instruction st ∧
      (S).dataLen st' = (S).dataLen st ∧
      (S).regs st' = (S).regs st ∧ (S).vals st' = (S).vals st ∧ (S).trace st' = (S).trace st ∧
      (S).frames st' = (S).frames st :=
  ⟨{ st with cursor := n }, rfl, rfl, fun _ _ hd => hd, rfl, rfl, rfl, rfl, rfl, rfl, rfl, rfl⟩

theorem records_law (c : HostCall) : Records (S) (SimState.hostCall h c) c := by
  intro st b st' hcall
  simp only [SimState.hostCall] at hcall
  cases hcall; rfl

end Garnish.Lemmas.Runtime.Simple
