/-
`run_located`, continued: operators, pairs, lists, `;`, side-effect blocks, `^~`, identifier application.
Each lemma: the construct at fuel + 1 from the induction hypotheses at fuel.
-/
import Garnish.Lemmas.CompileRun
namespace Garnish.Abs
open Garnish Gen Garnish.Spec

variable {F : Type} {fo : FloatOps F} {host : Host F} {P : Prog F} {bodies : List (Nat × Expr F)}

theorem ResOK.toReach {entry pc pcEnd : Nat} {tail : Bool} {rs vs : List (Val F)} {fr : List (Frame F)}
    {st st' : St F} {v : Val F} (h : ResOK fo host P entry pc pcEnd tail rs vs fr st (.val v) st') :
    Reach fo host P ⟨pc, rs, st.inp :: vs, fr, st.trace⟩ ⟨pcEnd, v :: rs, st'.inp :: vs, fr, st'.trace⟩ := h

theorem ResOK.ofReach {entry pc pcEnd : Nat} {tail : Bool} {rs vs : List (Val F)} {fr : List (Frame F)}
    {st st' : St F} {v : Val F}
    (h : Reach fo host P ⟨pc, rs, st.inp :: vs, fr, st.trace⟩ ⟨pcEnd, v :: rs, st'.inp :: vs, fr, st'.trace⟩) :
    ResOK fo host P entry pc pcEnd tail rs vs fr st (.val v) st' := h

/-- the apply instruction at `pcA` with its operands popped, given the evaluator's `applyValsS` -/
theorem apply_reach {fuel cur : Nat} (ihA : SimA fo host P bodies fuel) {instr : Instruction} {useRight : Bool}
    {f x : Val F} {st st' : St F} {res : Res F}
    (h : applyValsS fo host bodies cur fuel instr useRight f x st = .ok (res, st'))
    {pcA : Nat} {regs rs vs : List (Val F)} {fr : List (Frame F)} (hlt : pcA + 1 < P.instrs.size)
    (hstep : step fo host P ⟨pcA, regs, st.inp :: vs, fr, st.trace⟩ =
      finish P (applyStep fo host P ⟨pcA, rs, st.inp :: vs, fr, st.trace⟩ instr useRight f x)) :
    ∃ v, res = .val v ∧
      Reach fo host P ⟨pcA, regs, st.inp :: vs, fr, st.trace⟩ ⟨pcA + 1, v :: rs, st'.inp :: vs, fr, st'.trace⟩ := by
  obtain ⟨v, s1, rfl, hs1, hr⟩ := ihA cur instr useRight f x st res st' h pcA rs vs fr hlt
  exact ⟨v, rfl, .next (by rw [hstep]; exact hs1) hr⟩

theorem sim_unary {fuel : Nat} (ih : SimE fo host P bodies fuel) (ihA : SimA fo host P bodies fuel)
    (op : Instruction) (x : Expr F) : SimAt fo host P bodies (fuel + 1) (.unary op x) := by
  intro cur st res st' h root pc rs vs fr entry hloc hwf hj hent hlt
  have h0 := h
  simp only [Located] at hloc
  obtain ⟨hlx, hi⟩ := hloc
  simp only [wfC, Bool.and_eq_true] at hwf
  have hend : pc + len (.unary op x) = pc + len x + 1 := by simp only [len]; omega
  rw [hend] at hlt ⊢
  simp only [evalFS] at h
  rcases eval_cases (fo := fo) (host := host) (bodies := bodies) (cur := cur) (fuel := fuel) (x := x) (st := st)
    with ⟨w, st1, hx⟩ | ⟨w, st1, hx⟩ | ⟨e, hx⟩ | hx <;> simp only [hx] at h
  · have ihx := (ih x cur st _ _ hx root pc rs vs fr entry hlx hwf.2 hj hent (by omega)).toReach
    split at h
    · rename_i hop
      have : op = .emptyApply := by simpa using hop
      subst this
      obtain ⟨v, rfl, hr⟩ := apply_reach ihA h (regs := w :: rs) (rs := rs) hlt (step_emptyApply hi)
      exact ResOK.ofReach (ihx.trans hr)
    · split at h
      · rename_i o hu
        rcases settle_cases (host := host) st1 o with ⟨v, st2, hs⟩ | ⟨e, hs⟩ <;> simp [hs] at h
        obtain ⟨rfl, rfl⟩ := h
        have := settle_inp hs
        simp only [ResOK, this]
        exact ihx.snoc (step_unary hi hlt hu rfl hs)
      · simp at h
  · simp only [Out.ok.injEq, Prod.mk.injEq] at h
    obtain ⟨rfl, rfl⟩ := h
    exact ResOK.sub_restart (pend := []) (.refl _)
      (ih x cur st _ _ hx root pc rs vs fr entry hlx hwf.2 hj hent (by omega)) (fun ht => (noR_sound (by simpa [tailR] using ht) h0).elim)
  · simp at h
  · simp at h

theorem sim_binary {fuel : Nat} (ih : SimE fo host P bodies fuel) (ihA : SimA fo host P bodies fuel)
    (op : Instruction) (l r : Expr F) : SimAt fo host P bodies (fuel + 1) (.binary op l r) := by
  intro cur st res st' h root pc rs vs fr entry hloc hwf hj hent hlt
  have h0 := h
  simp only [Located] at hloc
  obtain ⟨hll, hlr, hi⟩ := hloc
  simp only [wfC, Bool.and_eq_true] at hwf
  have hend : pc + len (.binary op l r) = pc + len l + len r + 1 := by simp only [len]; omega
  rw [hend] at hlt ⊢
  simp only [evalFS] at h
  rcases eval_cases (fo := fo) (host := host) (bodies := bodies) (cur := cur) (fuel := fuel) (x := l) (st := st)
    with ⟨wl, st1, hx⟩ | ⟨w, st1, hx⟩ | ⟨e, hx⟩ | hx <;> simp only [hx] at h
  · have ihl := (ih l cur st _ _ hx root pc rs vs fr entry hll hwf.1.2 hj hent (by omega)).toReach
    rcases eval_cases (fo := fo) (host := host) (bodies := bodies) (cur := cur) (fuel := fuel) (x := r) (st := st1)
      with ⟨wr, st2, hy⟩ | ⟨w, st2, hy⟩ | ⟨e, hy⟩ | hy <;> simp only [hy] at h
    · have ihr := (ih r cur st1 _ _ hy root (pc + len l) (wl :: rs) vs fr entry hlr hwf.2 hj hent
        (by omega)).toReach
      split at h
      · rename_i hop
        have : op = .apply := by simpa using hop
        subst this
        obtain ⟨v, rfl, hr⟩ := apply_reach ihA h (regs := wr :: wl :: rs) (rs := rs) hlt (step_apply hi)
        exact ResOK.ofReach ((ihl.trans ihr).trans hr)
      · rename_i hop
        split at h
        · rename_i o hb
          rcases settle_cases (host := host) st2 o with ⟨v, st3, hs⟩ | ⟨e, hs⟩ <;> simp [hs] at h
          obtain ⟨rfl, rfl⟩ := h
          have := settle_inp hs
          simp only [ResOK, this]
          have hmp : op ≠ .makePair := by
            intro hc; subst hc; simp [binOK] at hwf
          exact (ihl.trans ihr).snoc (step_binary hi hlt hb (by simpa using hop) hmp rfl hs)
        · simp at h
    · simp only [Out.ok.injEq, Prod.mk.injEq] at h
      obtain ⟨rfl, rfl⟩ := h
      exact ResOK.sub_restart (pend := [wl]) ihl
        (ih r cur st1 _ _ hy root (pc + len l) (wl :: rs) vs fr entry hlr hwf.2 hj hent (by omega))
        (fun ht => (noR_sound (by simpa [tailR] using ht) h0).elim)
    · simp at h
    · simp at h
  · simp only [Out.ok.injEq, Prod.mk.injEq] at h
    obtain ⟨rfl, rfl⟩ := h
    exact ResOK.sub_restart (pend := []) (.refl _)
      (ih l cur st _ _ hx root pc rs vs fr entry hll hwf.1.2 hj hent (by omega))
      (fun ht => (noR_sound (by simpa [tailR] using ht) h0).elim)
  · simp at h
  · simp at h

theorem sim_pair {fuel : Nat} (ih : SimE fo host P bodies fuel)
    (l r : Expr F) : SimAt fo host P bodies (fuel + 1) (.pair l r) := by
  intro cur st res st' h root pc rs vs fr entry hloc hwf hj hent hlt
  have h0 := h
  simp only [Located] at hloc
  obtain ⟨hlr, hll, hi⟩ := hloc
  simp only [wfC, Bool.and_eq_true] at hwf
  have hend : pc + len (.pair l r) = pc + len r + len l + 1 := by simp only [len]; omega
  rw [hend] at hlt ⊢
  simp only [evalFS] at h
  rcases eval_cases (fo := fo) (host := host) (bodies := bodies) (cur := cur) (fuel := fuel) (x := r) (st := st)
    with ⟨wr, st1, hx⟩ | ⟨w, st1, hx⟩ | ⟨e, hx⟩ | hx <;> simp only [hx] at h
  · have ihr := (ih r cur st _ _ hx root pc rs vs fr entry hlr hwf.2 hj hent (by omega)).toReach
    rcases eval_cases (fo := fo) (host := host) (bodies := bodies) (cur := cur) (fuel := fuel) (x := l) (st := st1)
      with ⟨wl, st2, hy⟩ | ⟨w, st2, hy⟩ | ⟨e, hy⟩ | hy <;> simp only [hy] at h
    · have ihl := (ih l cur st1 _ _ hy root (pc + len r) (wr :: rs) vs fr entry hll hwf.1 hj hent
        (by omega)).toReach
      simp only [Out.ok.injEq, Prod.mk.injEq] at h
      obtain ⟨rfl, rfl⟩ := h
      exact ResOK.ofReach ((ihr.trans ihl).snoc (step_makePair hi hlt))
    · simp only [Out.ok.injEq, Prod.mk.injEq] at h
      obtain ⟨rfl, rfl⟩ := h
      exact ResOK.sub_restart (pend := [wr]) ihr
        (ih l cur st1 _ _ hy root (pc + len r) (wr :: rs) vs fr entry hll hwf.1 hj hent (by omega))
        (fun ht => (noR_sound (by simpa [tailR] using ht) h0).elim)
    · simp at h
    · simp at h
  · simp only [Out.ok.injEq, Prod.mk.injEq] at h
    obtain ⟨rfl, rfl⟩ := h
    exact ResOK.sub_restart (pend := []) (.refl _)
      (ih r cur st _ _ hx root pc rs vs fr entry hlr hwf.2 hj hent (by omega))
      (fun ht => (noR_sound (by simpa [tailR] using ht) h0).elim)
  · simp at h
  · simp at h

theorem sim_applyTo {fuel : Nat} (ih : SimE fo host P bodies fuel) (ihA : SimA fo host P bodies fuel)
    (x f : Expr F) : SimAt fo host P bodies (fuel + 1) (.applyTo x f) := by
  intro cur st res st' h root pc rs vs fr entry hloc hwf hj hent hlt
  have h0 := h
  simp only [Located] at hloc
  obtain ⟨hlf, hlx, hi⟩ := hloc
  simp only [wfC, Bool.and_eq_true] at hwf
  have hend : pc + len (.applyTo x f) = pc + len f + len x + 1 := by simp only [len]; omega
  rw [hend] at hlt ⊢
  simp only [evalFS] at h
  rcases eval_cases (fo := fo) (host := host) (bodies := bodies) (cur := cur) (fuel := fuel) (x := f) (st := st)
    with ⟨wf, st1, hx⟩ | ⟨w, st1, hx⟩ | ⟨e, hx⟩ | hx <;> simp only [hx] at h
  · have ihf := (ih f cur st _ _ hx root pc rs vs fr entry hlf hwf.2 hj hent (by omega)).toReach
    rcases eval_cases (fo := fo) (host := host) (bodies := bodies) (cur := cur) (fuel := fuel) (x := x) (st := st1)
      with ⟨wx, st2, hy⟩ | ⟨w, st2, hy⟩ | ⟨e, hy⟩ | hy <;> simp only [hy] at h
    · have ihx := (ih x cur st1 _ _ hy root (pc + len f) (wf :: rs) vs fr entry hlx hwf.1 hj hent
        (by omega)).toReach
      obtain ⟨v, rfl, hr⟩ := apply_reach ihA h (regs := wx :: wf :: rs) (rs := rs) hlt (step_apply hi)
      exact ResOK.ofReach ((ihf.trans ihx).trans hr)
    · simp only [Out.ok.injEq, Prod.mk.injEq] at h
      obtain ⟨rfl, rfl⟩ := h
      exact ResOK.sub_restart (pend := [wf]) ihf
        (ih x cur st1 _ _ hy root (pc + len f) (wf :: rs) vs fr entry hlx hwf.1 hj hent (by omega))
        (fun ht => (noR_sound (by simpa [tailR] using ht) h0).elim)
    · simp at h
    · simp at h
  · simp only [Out.ok.injEq, Prod.mk.injEq] at h
    obtain ⟨rfl, rfl⟩ := h
    exact ResOK.sub_restart (pend := []) (.refl _)
      (ih f cur st _ _ hx root pc rs vs fr entry hlf hwf.2 hj hent (by omega))
      (fun ht => (noR_sound (by simpa [tailR] using ht) h0).elim)
  · simp at h
  · simp at h

theorem sim_seq {fuel : Nat} (ih : SimE fo host P bodies fuel)
    (a b : Expr F) : SimAt fo host P bodies (fuel + 1) (.seq a b) := by
  intro cur st res st' h root pc rs vs fr entry hloc hwf hj hent hlt
  simp only [Located] at hloc
  obtain ⟨hla, hi, hlb⟩ := hloc
  simp only [wfC, Bool.and_eq_true] at hwf
  have hend : pc + len (.seq a b) = pc + len a + 1 + len b := by simp only [len]; omega
  rw [hend] at hlt ⊢
  simp only [evalFS] at h
  rcases eval_cases (fo := fo) (host := host) (bodies := bodies) (cur := cur) (fuel := fuel) (x := a) (st := st)
    with ⟨wa, st1, hx⟩ | ⟨w, st1, hx⟩ | ⟨e, hx⟩ | hx <;> simp only [hx] at h
  · have iha := (ih a cur st _ _ hx root pc rs vs fr entry hla hwf.1 hj hent (by omega)).toReach
    have hup := iha.snoc (step_updateValue hi (by omega))
    have ihb := ih b cur { st1 with inp := wa } res st' h root (pc + len a + 1) rs vs fr entry hlb hwf.2
      hj hent (by omega)
    cases res with
    | val v => exact ResOK.ofReach (hup.trans ihb.toReach)
    | restart v =>
      refine ResOK.sub_restart (pend := []) hup ihb (fun ht => ?_)
      simp only [tailR, Bool.and_eq_true] at ht
      exact ⟨ht.2, rfl⟩
  · simp only [Out.ok.injEq, Prod.mk.injEq] at h
    obtain ⟨rfl, rfl⟩ := h
    refine ResOK.sub_restart (pend := []) (.refl _)
      (ih a cur st _ _ hx root pc rs vs fr entry hla hwf.1 hj hent (by omega)) (fun ht => ?_)
    simp only [tailR, Bool.and_eq_true] at ht
    exact (noR_sound ht.1 hx).elim
  · simp at h
  · simp at h

theorem sim_sideAfter {fuel : Nat} (ih : SimE fo host P bodies fuel)
    (x b : Expr F) : SimAt fo host P bodies (fuel + 1) (.sideAfter x b) := by
  intro cur st res st' h root pc rs vs fr entry hloc hwf hj hent hlt
  have h0 := h
  simp only [Located] at hloc
  obtain ⟨hlx, hi1, hlb, hi2⟩ := hloc
  simp only [wfC, Bool.and_eq_true] at hwf
  have hend : pc + len (.sideAfter x b) = pc + len x + 1 + len b + 1 := by simp only [len]; omega
  rw [hend] at hlt ⊢
  simp only [evalFS] at h
  rcases eval_cases (fo := fo) (host := host) (bodies := bodies) (cur := cur) (fuel := fuel) (x := x) (st := st)
    with ⟨wx, st1, hx⟩ | ⟨w, st1, hx⟩ | ⟨e, hx⟩ | hx <;> simp only [hx] at h
  · have ihx := (ih x cur st _ _ hx root pc rs vs fr entry hlx hwf.1.1 hj hent (by omega)).toReach
    have hst := ihx.snoc (step_startSideEffect hi1 (by omega))
    rcases eval_cases (fo := fo) (host := host) (bodies := bodies) (cur := cur) (fuel := fuel) (x := b) (st := st1)
      with ⟨wb, st2, hy⟩ | ⟨w, st2, hy⟩ | ⟨e, hy⟩ | hy <;> simp only [hy] at h
    · have ihb := (ih b cur st1 _ _ hy root (pc + len x + 1) (wx :: rs) (st1.inp :: vs) fr entry hlb hwf.1.2
        hj hent (by omega)).toReach
      simp only [Out.ok.injEq, Prod.mk.injEq] at h
      obtain ⟨rfl, rfl⟩ := h
      exact ResOK.ofReach ((hst.trans ihb).snoc (step_endSideEffect hi2 hlt))
    · exact (noR_sound hwf.2 hy).elim
    · simp at h
    · simp at h
  · simp only [Out.ok.injEq, Prod.mk.injEq] at h
    obtain ⟨rfl, rfl⟩ := h
    exact ResOK.sub_restart (pend := []) (.refl _)
      (ih x cur st _ _ hx root pc rs vs fr entry hlx hwf.1.1 hj hent (by omega))
      (fun ht => (noR_sound (by simpa [tailR] using ht) h0).elim)
  · simp at h
  · simp at h

theorem sim_reapply {fuel : Nat} (ih : SimE fo host P bodies fuel)
    (x : Expr F) : SimAt fo host P bodies (fuel + 1) (.reapply x) := by
  intro cur st res st' h root pc rs vs fr entry hloc hwf hj hent hlt
  simp only [Located] at hloc
  obtain ⟨hlx, hi1, hi2⟩ := hloc
  simp only [wfC] at hwf
  have hend : pc + len (.reapply x) = pc + len x + 2 := by simp only [len]; omega
  rw [hend] at hlt ⊢
  simp only [evalFS] at h
  rcases eval_cases (fo := fo) (host := host) (bodies := bodies) (cur := cur) (fuel := fuel) (x := x) (st := st)
    with ⟨w, st1, hx⟩ | ⟨w, st1, hx⟩ | ⟨e, hx⟩ | hx <;> simp only [hx] at h
  · have ihx := (ih x cur st _ _ hx root pc rs vs fr entry hlx hwf hj hent (by omega)).toReach
    simp only [Out.ok.injEq, Prod.mk.injEq] at h
    obtain ⟨rfl, rfl⟩ := h
    refine ⟨[], ?_, fun _ => rfl⟩
    exact (ihx.snoc (step_updateValue hi1 (by omega))).snoc (step_jumpTo hi2 hj hent)
  · simp only [Out.ok.injEq, Prod.mk.injEq] at h
    obtain ⟨rfl, rfl⟩ := h
    refine ResOK.sub_restart (pend := []) (.refl _)
      (ih x cur st _ _ hx root pc rs vs fr entry hlx hwf hj hent (by omega)) (fun ht => ?_)
    simp only [tailR] at ht
    exact (noR_sound ht hx).elim
  · simp at h
  · simp at h

end Garnish.Abs
