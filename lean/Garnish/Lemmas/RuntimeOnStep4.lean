/-
Step lemmas over `StoreLawsOn`: comparisons, ranges, `Concat`, `PartialApply`, `MakePair`, `MakeList`.
-/
import Garnish.Lemmas.RuntimeOnCompare
set_option linter.unusedSimpArgs false
set_option linter.unusedVariables false
namespace Garnish.Lemmas.Runtime.On
open Garnish Gen Garnish.Abs Garnish.Model.Equality Garnish.Model.Runtime Garnish.Lemmas.Runtime
open Garnish.Props.RuntimeRefine

variable {F σ : Type} {S : RStore F σ} {Inv : σ → Prop} {Rd : σ → Nat → Prop} {P : Prog F} {host : Host F}
  (fo : FloatOps F)

/-- the refinement against Abs/Ops itself: wherever `compareValsR` agrees with `compareVals` (see
`C12_compareValsR_agrees`) the four handlers push exactly `Abs.lessThan` / … of the decoded operands -/
theorem C12_refine_less_than_abs (L : StoreLawsOn S Inv Rd)
    {s : σ} {r l : Nat} {vr vl : Val F} {rest : List Nat}
    (hregs : S.regs s = r :: l :: rest) (hl : Decodes (S.view s) l vl) (hr : Decodes (S.view s) r vr)
    (ha : textLen vl ≤ 2147483647) (hb : textLen vr ≤ 2147483647) (fuel : Nat) (hf : cmpFuel vl vr ≤ fuel)
    (hagree : compareValsR fo vl vr = some (.ok (compareVals fo vl vr)))
    (hi : Inv s := by inv_tac) (hdp : Deep S s rest := by deep_tac) :
    PushedI S Inv s (Model.Runtime.lessThan fo S fuel s) none rest (Abs.lessThan fo vl vr) ∧
    PushedI S Inv s (Model.Runtime.lessThanOrEqual fo S fuel s) none rest (Abs.lessThanOrEqual fo vl vr) ∧
    PushedI S Inv s (Model.Runtime.greaterThan fo S fuel s) none rest (Abs.greaterThan fo vl vr) ∧
    PushedI S Inv s (Model.Runtime.greaterThanOrEqual fo S fuel s) none rest (Abs.greaterThanOrEqual fo vl vr) := by
  have h1 := C12_refine_handler fo L (fun o => o == .lt) .gt rfl hregs hl hr ha hb fuel hf
  have h2 := C12_refine_handler fo L (fun o => o != .gt) .gt rfl hregs hl hr ha hb fuel hf
  have h3 := C12_refine_handler fo L (fun o => o == .gt) .lt rfl hregs hl hr ha hb fuel hf
  have h4 := C12_refine_handler fo L (fun o => o != .lt) .lt rfl hregs hl hr ha hb fuel hf
  simp only [hagree, C12_cmpValOf_compareVals] at h1 h2 h3 h4
  exact ⟨h1, h2, h3, h4⟩


/-- the same, in the words of Abs/Machine: `n ≤ regs.length`, the new list holds `(regs.take n).reverse` -/
theorem C16_refine_make_list_machine (L : StoreLawsOn S Inv Rd) {s : σ} (n : Nat) (vs : List (Val F))
    (hn : n ≤ (S.regs s).length) (hd : DecodesList (S.view s) ((S.regs s).take n) vs)
    (hi : Inv s := by inv_tac) (hdp : Deep S s ((S.regs s).drop n) := by deep_tac) :
    PushedI S Inv s (makeList S n s) none ((S.regs s).drop n) (.list vs.reverse) := by
  have h := makeList_spec L ((S.regs s).take n) ((S.regs s).drop n) vs (List.take_append_drop n _).symm hd
  rwa [List.length_take, Nat.min_eq_left hn] at h


theorem stepSim_concat (L : StoreLawsOn S Inv Rd) (HR : HostRefinesI S Inv host) (fuel : Nat) (H : OtherHandlers σ)
    {s : σ} {m : MState F} (hsim : Sim S P s m) {operand : Option Nat}
    (hfetch : P.instrs[m.pc]? = some (.concat, operand)) {vr vl : Val F} {rs : List (Val F)}
    (hregs : m.regs = vr :: vl :: rs) (hi : Inv s) (hm : MDeep m rs)
    (nl : ∀ x y, vl ≠ .slice x y) (nr : ∀ x y, vr ≠ .slice x y) : StepSimOn fo host S Inv P fuel H s m :=
  stepSim_binary fo L HR fuel H hsim hfetch rfl hregs (o := .val (.concat vl vr)) rfl rfl
    (fun r l rest hr hd dl dr => C06_refine_concat L hr dl dr nl nr) (fun _ _ _ h => by cases h) hi hm

theorem stepSim_partialApply (L : StoreLawsOn S Inv Rd) (HR : HostRefinesI S Inv host) (fuel : Nat) (H : OtherHandlers σ)
    {s : σ} {m : MState F} (hsim : Sim S P s m) {operand : Option Nat}
    (hfetch : P.instrs[m.pc]? = some (.partialApply, operand)) {vr vl : Val F} {rs : List (Val F)}
    (hregs : m.regs = vr :: vl :: rs) (hi : Inv s) (hm : MDeep m rs) : StepSimOn fo host S Inv P fuel H s m :=
  stepSim_binary fo L HR fuel H hsim hfetch rfl hregs (o := .val (.part vl vr)) rfl rfl
    (fun r l rest hr hd dl dr => C06_refine_partial_apply L hr dl dr) (fun _ _ _ h => by cases h) hi hm


/-- the four range instructions -/
theorem stepSim_make_range (L : StoreLawsOn S Inv Rd) (HR : HostRefinesI S Inv host) (fuel : Nat) (H : OtherHandlers σ)
    {s : σ} {m : MState F} (hsim : Sim S P s m) {op : Instruction} {operand : Option Nat} (se ee : Bool)
    (hop : op = rangeInstr se ee)
    (hfetch : P.instrs[m.pc]? = some (op, operand)) {vr vl : Val F} {rs : List (Val F)}
    (hregs : m.regs = vr :: vl :: rs) (hi : Inv s) (hm : MDeep m rs) : StepSimOn fo host S Inv P fuel H s m := by
  subst hop
  have facts : isGeneric (rangeInstr se ee) = true ∧ unaryOp fo (rangeInstr se ee) vr = none ∧
      binaryOp fo (rangeInstr se ee) vl vr = some (Abs.makeRange fo se ee vl vr) ∧
      dispatch fo S fuel H (rangeInstr se ee) operand = makeRangeInternal fo S se ee := by
    cases se <;> cases ee <;> exact ⟨rfl, rfl, rfl, rfl⟩
  obtain ⟨hg, hu, hb, hdisp⟩ := facts
  exact stepSim_binary fo L HR fuel H hsim hfetch hg hregs hu hb
    (fun r l rest hr hd dl dr => by rw [hdisp]; exact C08_refine_make_range_internal fo L se ee hr dl dr)
    (fun op' a b h => makeRange_defer fo h) hi hm

/-- the four comparison instructions, where the code-faithful comparison agrees with Abs/Ops (everywhere except
slices of text / bytes with a range `sliceStart` rejects) -/
theorem stepSim_compare (L : StoreLawsOn S Inv Rd) (HR : HostRefinesI S Inv host) (fuel : Nat) (H : OtherHandlers σ)
    {s : σ} {m : MState F} (hsim : Sim S P s m) {op : Instruction} {operand : Option Nat}
    (hop : op = .lessThan ∨ op = .lessThanOrEqual ∨ op = .greaterThan ∨ op = .greaterThanOrEqual)
    (hfetch : P.instrs[m.pc]? = some (op, operand)) {vr vl : Val F} {rs : List (Val F)}
    (hregs : m.regs = vr :: vl :: rs) (hi : Inv s) (hm : MDeep m rs)
    (ha : textLen vl ≤ 2147483647) (hb : textLen vr ≤ 2147483647) (hf : cmpFuel vl vr ≤ fuel)
    (hagree : compareValsR fo vl vr = some (.ok (compareVals fo vl vr))) :
    StepSimOn fo host S Inv P fuel H s m := by
  rcases hop with rfl | rfl | rfl | rfl
  · exact stepSim_binary fo L HR fuel H hsim hfetch rfl hregs (o := .val (Abs.lessThan fo vl vr)) rfl rfl
      (fun r l rest hr hd dl dr => (C12_refine_less_than_abs fo L hr dl dr ha hb fuel hf hagree).1)
      (fun _ _ _ h => by cases h) hi hm
  · exact stepSim_binary fo L HR fuel H hsim hfetch rfl hregs (o := .val (Abs.lessThanOrEqual fo vl vr)) rfl rfl
      (fun r l rest hr hd dl dr => (C12_refine_less_than_abs fo L hr dl dr ha hb fuel hf hagree).2.1)
      (fun _ _ _ h => by cases h) hi hm
  · exact stepSim_binary fo L HR fuel H hsim hfetch rfl hregs (o := .val (Abs.greaterThan fo vl vr)) rfl rfl
      (fun r l rest hr hd dl dr => (C12_refine_less_than_abs fo L hr dl dr ha hb fuel hf hagree).2.2.1)
      (fun _ _ _ h => by cases h) hi hm
  · exact stepSim_binary fo L HR fuel H hsim hfetch rfl hregs (o := .val (Abs.greaterThanOrEqual fo vl vr)) rfl rfl
      (fun r l rest hr hd dl dr => (C12_refine_less_than_abs fo L hr dl dr ha hb fuel hf hagree).2.2.2)
      (fun _ _ _ h => by cases h) hi hm


/-- `MakePair`: the left component is on top -/
theorem stepSim_makePair (L : StoreLawsOn S Inv Rd) (fuel : Nat) (H : OtherHandlers σ) {s : σ} {m : MState F}
    (hsim : Sim S P s m) {operand : Option Nat} (hfetch : P.instrs[m.pc]? = some (.makePair, operand))
    {vl vr : Val F} {rs : List (Val F)} (hregs : m.regs = vl :: vr :: rs) (hi : Inv s) (hm : MDeep m rs) : StepSimOn fo host S Inv P fuel H s m := by
  have hr := hsim.2.regs
  rw [hregs] at hr
  obtain ⟨l, as1, e1, dl, t1⟩ := decodesList_cons_inv hr
  obtain ⟨r, rest, e2, dr, t2⟩ := decodesList_cons_inv t1
  subst e2
  have hdeep : Deep S s rest := deep_of_sim hsim.2 t2 hm
  obtain ⟨a, s1, h1, d1, ef⟩ := C06_refine_make_pair L e1 dl dr
  refine stepSim_of fo L fuel H hsim hfetch (r := .ok ({ m with regs := .pair vl vr :: rs }, m.pc + 1))
    (by unfold Abs.step; rw [hfetch]; simp only [hregs]; rfl) ?_
  exact handlerSim_ofEff hsim.2 (md := { m with regs := .pair vl vr :: rs }) h1 ef
    (.cons d1 (Sim.tail ef t2)) (Sim.tail ef hsim.2.vals) rfl (by simp [hsim.1])


/-- `MakeList n` -/
theorem stepSim_makeList (L : StoreLawsOn S Inv Rd) (fuel : Nat) (H : OtherHandlers σ) {s : σ} {m : MState F}
    (hsim : Sim S P s m) {n : Nat} (hfetch : P.instrs[m.pc]? = some (.makeList, some n))
    (hn : n ≤ m.regs.length) (hi : Inv s) (hm : MDeep m (m.regs.drop n)) : StepSimOn fo host S Inv P fuel H s m := by
  have hlen := EqualityRefine.decodesList_length hsim.2.regs
  have hdeep : Deep S s ((S.regs s).drop n) := deep_of_sim hsim.2 (decodesList_drop n hsim.2.regs) hm
  obtain ⟨a, s1, h1, d1, e1⟩ := C16_refine_make_list_machine L n (m.regs.take n) (by omega)
    (decodesList_take n hsim.2.regs)
  refine stepSim_of fo L fuel H hsim hfetch
    (r := .ok ({ m with regs := .list (m.regs.take n).reverse :: m.regs.drop n }, m.pc + 1))
    (by unfold Abs.step; rw [hfetch]; simp only [show ¬ n > m.regs.length by omega, if_false]; rfl) ?_
  exact handlerSim_ofEff hsim.2 (md := { m with regs := .list (m.regs.take n).reverse :: m.regs.drop n }) h1 e1
    (.cons d1 (Sim.tail e1 (decodesList_drop n hsim.2.regs))) (Sim.tail e1 hsim.2.vals) rfl (by simp [hsim.1])


end Garnish.Lemmas.Runtime.On
