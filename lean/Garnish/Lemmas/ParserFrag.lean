/-
Operator fragment, part 1: facts that connect a node array that represents an index tree (`IsTreeAt`, in-order = 0..size-1)
with what the parser model needs — the right spine is a parent `Chain`, its bottom is the last node, the parent walk of
`finish` ends at the root — and the combined effect of one (binary operator, value) pair of tokens (`pair_step`).
-/
import Garnish.Lemmas.ParserSim

namespace Garnish.Spec
open Garnish Garnish.Gen Garnish.Model.Parser

/-! ### right spine -/

theorem rspineUp_head (t : Tree) : (rspineUp t).head? = t.inorder.getLast? := by
  induction t with
  | nil => rfl
  | node l i k r _ ihr =>
    simp only [rspineUp, Tree.inorder, List.head?_append, ihr]
    cases hr : r.inorder.getLast? with
    | none =>
      have : r.inorder = [] := by simpa using hr
      simp [this]
    | some b =>
      have hne : r.inorder ≠ [] := by intro e; simp [e] at hr
      rw [show i :: r.inorder = [i] ++ r.inorder from rfl, ← List.append_assoc, List.getLast?_append, hr]
      simp

theorem rspineUp_length (t : Tree) : (rspineUp t).length ≤ t.inorder.length := by
  induction t with
  | nil => simp [rspineUp, Tree.inorder]
  | node l i k r _ ihr => simp only [rspineUp, Tree.inorder, List.length_append, List.length_cons, List.length_nil]; omega

/-- all nodes of the array have a priority -/
def AllPrio (nodes : Array ParseNode) : Prop := ∀ (i : Nat) nd, nodes[i]? = some nd → ∃ p, priority nd.definition = some p

theorem chain_of_tree {nodes : Array ParseNode} (hp : AllPrio nodes) {p link : Option Nat} {t : Tree}
    (h : IsTreeAt nodes p link t) :
    ∀ above : List Nat, Chain nodes above → p = above.head? → Chain nodes (rspineUp t ++ above) := by
  induction h with
  | nil p => intro above hc _; simpa [rspineUp] using hc
  | node p i nd l r hn hpar _ hr _ ihr =>
    intro above hc hpa
    simp only [rspineUp, List.append_assoc, List.singleton_append]
    apply ihr (i :: above)
    · obtain ⟨q, hq⟩ := hp i nd hn
      exact ⟨⟨nd, q, hn, hq, by rw [hpar, hpa]⟩, hc⟩
    · rfl

theorem bottomOK_of_last (pr : Nat → Nat) (q : Nat) (rtl : Bool) :
    ∀ t : Tree, (∀ b, t.inorder.getLast? = some b → stops q rtl (pr b) = false) → bottomOK pr q rtl t := by
  intro t
  induction t with
  | nil => intro _; trivial
  | node l i k r _ ihr =>
    intro h
    cases r with
    | nil => exact h i (by simp [Tree.inorder])
    | node rl rj rk rr =>
      show bottomOK pr q rtl (.node rl rj rk rr)
      apply ihr
      intro b hb
      apply h b
      simp only [Tree.inorder] at hb ⊢
      rw [show i :: (rl.inorder ++ rj :: rr.inorder) = [i] ++ (rl.inorder ++ rj :: rr.inorder) from rfl,
        ← List.append_assoc, List.getLast?_append, hb]
      rfl

/-! ### climbing parent links ends at the root -/

theorem parent_in_tree {nodes : Array ParseNode} {p link : Option Nat} {t : Tree} (h : IsTreeAt nodes p link t) :
    ∀ i, link = some i → ∀ x nx, x ∈ t.inorder → nodes[x]? = some nx →
      (x = i ∧ nx.parent = p) ∨ (∃ y, nx.parent = some y ∧ y ∈ t.inorder) := by
  induction h with
  | nil p => intro i hi; cases hi
  | node p i nd l r hn hpar hl hr ihl ihr =>
    intro i' hi' x nx hx hnx
    injection hi' with hi'; subst hi'
    simp only [Tree.inorder, List.mem_append, List.mem_cons] at hx
    rcases hx with hx | hx | hx
    · cases hll : nd.left with
      | none => rw [hll] at hl; cases hl; simp [Tree.inorder] at hx
      | some li =>
        rcases ihl li hll x nx hx hnx with ⟨_, h2⟩ | ⟨y, h1, h2⟩
        · exact Or.inr ⟨i, h2, by simp [Tree.inorder]⟩
        · exact Or.inr ⟨y, h1, by simp [Tree.inorder, h2]⟩
    · subst hx
      rw [hn] at hnx; injection hnx with hnx; subst hnx
      exact Or.inl ⟨rfl, hpar⟩
    · cases hrl : nd.right with
      | none => rw [hrl] at hr; cases hr; simp [Tree.inorder] at hx
      | some ri =>
        rcases ihr ri hrl x nx hx hnx with ⟨_, h2⟩ | ⟨y, h1, h2⟩
        · exact Or.inr ⟨i, h2, by simp [Tree.inorder]⟩
        · exact Or.inr ⟨y, h1, by simp [Tree.inorder, h2]⟩

/-- whatever `finish`'s root walk returns, starting anywhere in the tree, is the root -/
theorem rootLoop_root {nodes : Array ParseNode} {rt : Nat} {t : Tree} (h : IsTreeAt nodes none (some rt) t) :
    ∀ (fuel count x : Nat) (nx : ParseNode) (root : Nat), x ∈ t.inorder → nodes[x]? = some nx →
      rootLoop nodes fuel count x nx = .ok root → root = rt := by
  intro fuel
  induction fuel with
  | zero =>
    intro count x nx root hx hnx hr
    unfold rootLoop at hr
    rcases parent_in_tree h rt rfl x nx hx hnx with ⟨e1, e2⟩ | ⟨y, e1, _⟩
    · simp only [e2] at hr; injection hr with hr; rw [← hr, e1]
    · simp only [e1] at hr; cases hr
  | succ fuel ih =>
    intro count x nx root hx hnx hr
    unfold rootLoop at hr
    rcases parent_in_tree h rt rfl x nx hx hnx with ⟨e1, e2⟩ | ⟨y, e1, hy⟩
    · simp only [e2] at hr; injection hr with hr; rw [← hr, e1]
    · simp only [e1] at hr
      split at hr
      · cases hr
      · rename_i ny hny
        split at hr
        · cases hr
        · exact ih _ y ny root hy hny hr

/-! ### definitions / priorities looked up in a node array -/

/-- definition of node `i` (what `toRd` needs) -/
def dfOf (nodes : Array ParseNode) (i : Nat) : Definition := ((nodes[i]?).map (·.definition)).getD .drop

theorem prioAt_eq_of_def {a b : Array ParseNode} {i : Nat}
    (h : (a[i]?).map (·.definition) = (b[i]?).map (·.definition)) : prioAt a i = prioAt b i := by
  unfold prioAt
  cases ha : a[i]? <;> cases hb : b[i]? <;> simp_all

theorem absorbI_congr (pr pr' : Nat → Nat) (q : Nat) (rtl : Bool) (n ko ka : Nat) :
    ∀ t : Tree, (∀ i ∈ t.inorder, pr i = pr' i) → absorbI pr q rtl n ko ka t = absorbI pr' q rtl n ko ka t := by
  intro t
  induction t with
  | nil => intro _; rfl
  | node l i k r _ ihr =>
    intro h
    simp only [absorbI, ihr (fun j hj => h j (by simp [Tree.inorder, hj])), h i (by simp [Tree.inorder])]

end Garnish.Spec
