/-
`SimpleGarnishData` as a store (Model/Runtime/SimpleStore.lean): the data list only grows (`Ext`), and growing keeps
every getter answer (`viewLe_ext`, hence every `Decodes` fact by Lemmas/RuntimeMono.lean), the modelled concatenation
iterator (`flatSim_ext`) and — for registers that are data addresses (`RegsOK`) — the register and frame views.
-/
import Garnish.Model.Runtime.SimpleStore
import Garnish.Lemmas.RuntimeMono
namespace Garnish.Lemmas.Runtime.Simple
open Garnish Gen Garnish.Model.Equality Garnish.Model.Runtime Garnish.Lemmas.Runtime
variable {F : Type}

/-- the data list only grows -/
def Ext (c1 c2 : List (SimCell F)) : Prop := ∀ (a : Nat) (c : SimCell F), c1[a]? = some c → c2[a]? = some c

theorem ext_refl (c : List (SimCell F)) : Ext c c := fun _ _ h => h

theorem ext_append (cells : List (SimCell F)) (c : SimCell F) : Ext cells (cells ++ [c]) := by
  intro a x h
  have hlt : a < cells.length := by
    rcases Nat.lt_or_ge a cells.length with h1 | h1
    · exact h1
    · rw [List.getElem?_eq_none_iff.mpr h1] at h; cases h
  rw [List.getElem?_append_left hlt]; exact h

theorem new_cell (cells : List (SimCell F)) (c : SimCell F) : (cells ++ [c])[cells.length]? = some c := by simp

theorem flatSim_ext {c1 c2 : List (SimCell F)} (h : Ext c1 c2) : ∀ (a : Nat) (xs : List Nat),
    flatSim c1 a = some xs → flatSim c2 a = some xs := by
  intro a
  induction a using Nat.strongRecOn with
  | _ a ih =>
    intro xs hx
    rw [flatSim] at hx ⊢
    cases hc : c1[a]? with
    | none => rw [hc] at hx; cases hx
    | some c =>
      rw [hc] at hx; rw [h a c hc]
      cases c <;> try exact hx
      case concat l r =>
        simp only at hx ⊢
        by_cases hlt : l < a ∧ r < a
        · rw [dif_pos hlt] at hx ⊢
          cases hl : flatSim c1 l with
          | none => rw [hl] at hx; cases hx
          | some il =>
            cases hr : flatSim c1 r with
            | none => rw [hl, hr] at hx; cases hx
            | some ir =>
              rw [hl, hr] at hx
              rw [ih l hlt.1 il hl, ih r hlt.2 ir hr]; exact hx
        · rw [dif_neg hlt] at hx; cases hx

theorem viewLe_ext {c1 c2 : List (SimCell F)} (h : Ext c1 c2) : ViewLe (simView c1) (simView c2) := by
  constructor <;> intro a x hx <;> simp only [simView] at hx ⊢ <;> cases hc : c1[a]? <;> rw [hc] at hx <;>
    (try (cases hx; done)) <;> rename_i c <;> rw [h a c hc] <;> (try exact hx)
  -- concatItems
  cases c <;> try (cases hx; done)
  exact flatSim_ext h a x hx

theorem isFrame_ext {c1 c2 : List (SimCell F)} (h : Ext c1 c2) {a : Nat} (ha : a < c1.length) :
    isFrame c2 a = isFrame c1 a := by
  unfold isFrame
  have : c1[a]? = some c1[a] := List.getElem?_eq_getElem ha
  rw [h a _ this, this]

/-- every register is an address of the data list -/
def RegsOK (cells : List (SimCell F)) (reg : List Nat) : Prop := ∀ a ∈ reg, a < cells.length

theorem flatRegs_ext {c1 c2 : List (SimCell F)} (h : Ext c1 c2) : ∀ {reg : List Nat}, RegsOK c1 reg →
    flatRegs c2 reg = flatRegs c1 reg := by
  intro reg
  induction reg with
  | nil => intro _; rfl
  | cons a rest ih =>
    intro hok
    have ha : a < c1.length := hok a (List.mem_cons_self ..)
    have hr : RegsOK c1 rest := fun b hb => hok b (List.mem_cons_of_mem _ hb)
    unfold flatRegs at ih ⊢
    rw [List.filter_cons, List.filter_cons, isFrame_ext h ha, ih hr]

theorem framesOf_ext {c1 c2 : List (SimCell F)} (h : Ext c1 c2) : ∀ {reg : List Nat}, RegsOK c1 reg →
    framesOf c2 reg = framesOf c1 reg := by
  intro reg
  induction reg with
  | nil => intro _; rfl
  | cons a rest ih =>
    intro hok
    have ha : a < c1.length := hok a (List.mem_cons_self ..)
    have hr : RegsOK c1 rest := fun b hb => hok b (List.mem_cons_of_mem _ hb)
    have h1 : c1[a]? = some c1[a] := List.getElem?_eq_getElem ha
    unfold framesOf
    rw [h a _ h1, h1, ih hr, flatRegs_ext h hr]

theorem regsOK_ext {c1 c2 : List (SimCell F)} (h : Ext c1 c2) {reg : List Nat} (hok : RegsOK c1 reg) :
    RegsOK c2 reg := by
  intro a ha
  have hlt := hok a ha
  have h1 : c1[a]? = some c1[a] := List.getElem?_eq_getElem hlt
  have := h a _ h1
  rcases Nat.lt_or_ge a c2.length with h2 | h2
  · exact h2
  · rw [List.getElem?_eq_none_iff.mpr h2] at this; cases this

end Garnish.Lemmas.Runtime.Simple
