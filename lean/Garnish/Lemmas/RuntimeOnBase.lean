/-
Runtime refinement over the relativised contract `StoreLawsOn`: effects that carry the invariant (`EffI`, `FEffI`, `HEffI`), the
refinement vocabulary with them (`PushedI`, `PoppedI`, `DeferProtocolI`, `RefinesOutI`), the host contract from invariant
states (`HostRefinesI`), the tactics that find `Inv` / `Deep` facts (`inv_tac`, `deep_tac`: the auto-params of every lemma
below), and utilities.rs. The lemma NAMES are those of Lemmas/RuntimeBase.lean, in namespace `…Runtime.On`, so that the
handler proofs of Lemmas/Runtime*.lean go through by substitution.
-/
import Garnish.Lemmas.RuntimeOn4
set_option linter.unusedSimpArgs false
set_option linter.unusedVariables false
namespace Garnish.Lemmas.Runtime.On
open Garnish Gen Garnish.Abs Garnish.Model.Equality Garnish.Model.Runtime Garnish.Lemmas.Runtime

variable {F σ : Type} {S : RStore F σ} {Inv : σ → Prop} {Rd : σ → Nat → Prop}

/-- `Eff` with the invariant re-established -/
structure EffI (S : RStore F σ) (Inv : σ → Prop) (s s' : σ) (regs' vals' : List Nat) : Prop
    extends Eff S s s' regs' vals' where
  inv : Inv s'

structure FEffI (S : RStore F σ) (Inv : σ → Prop) (s s' : σ) (regs' vals' : List Nat)
    (frames' : List (Nat × List Nat)) : Prop extends FEff S s s' regs' vals' frames' where
  inv : Inv s'

structure HEffI (S : RStore F σ) (Inv : σ → Prop) (s s' : σ) (regs' : List Nat) : Prop extends HEff S s s' regs' where
  inv : Inv s'

theorem EffI.refl (s : σ) (hi : Inv s) : EffI S Inv s s (S.regs s) (S.vals s) := ⟨Eff.refl S s, hi⟩

theorem EffI.trans {s s1 s2 : σ} {R1 V1 R2 V2 : List Nat} (h1 : EffI S Inv s s1 R1 V1) (h2 : EffI S Inv s1 s2 R2 V2) :
    EffI S Inv s s2 R2 V2 := ⟨h1.toEff.trans h2.toEff, h2.inv⟩

theorem EffI.toF {s s' : σ} {R V : List Nat} (h : EffI S Inv s s' R V) : FEffI S Inv s s' R V (S.frames s) :=
  ⟨h.toEff.toF, h.inv⟩

theorem FEffI.trans {s s1 s2 : σ} {R1 V1 R2 V2 : List Nat} {Fr1 Fr2 : List (Nat × List Nat)}
    (h1 : FEffI S Inv s s1 R1 V1 Fr1) (h2 : FEffI S Inv s1 s2 R2 V2 Fr2) : FEffI S Inv s s2 R2 V2 Fr2 :=
  ⟨h1.toFEff.trans h2.toFEff, h2.inv⟩

theorem FEffI.thenEff {s s1 s2 : σ} {R1 V1 R2 V2 : List Nat} {Fr1 : List (Nat × List Nat)}
    (h1 : FEffI S Inv s s1 R1 V1 Fr1) (h2 : EffI S Inv s1 s2 R2 V2) : FEffI S Inv s s2 R2 V2 Fr1 :=
  ⟨h1.toFEff.thenEff h2.toEff, h2.inv⟩

theorem EffI.after {s s1 s2 : σ} {R1 V1 : List Nat} (h1 : EffI S Inv s s1 R1 V1)
    {R2 V2 : List Nat → List Nat} (h2 : EffI S Inv s1 s2 (R2 (S.regs s1)) (V2 (S.vals s1))) :
    EffI S Inv s s2 (R2 R1) (V2 V1) := ⟨h1.toEff.after h2.toEff, h2.inv⟩

theorem EffI.dec {s s' : σ} {R V : List Nat} (h : EffI S Inv s s' R V) {a : Nat} {v : Val F}
    (d : Decodes (S.view s) a v) : Decodes (S.view s') a v := h.keeps.dec a v d

theorem FEffI.dec {s s' : σ} {R V : List Nat} {Fr : List (Nat × List Nat)} (h : FEffI S Inv s s' R V Fr) {a : Nat}
    {v : Val F} (d : Decodes (S.view s) a v) : Decodes (S.view s') a v := h.keeps.dec a v d

theorem EffI.deep {s s' : σ} {R V : List Nat} (h : EffI S Inv s s' R V) {rest : List Nat} (hd : Deep S s rest) :
    Deep S s' rest := deep_kept h.frames hd

/-- find the invariant of a state: an assumption, or the end of an effect at hand -/
macro "inv_tac" : tactic =>
  `(tactic| first
    | assumption
    | (apply EffI.inv; assumption)
    | (apply FEffI.inv; assumption)
    | (apply HEffI.inv; assumption))

/-- find `Deep`: an assumption, or one carried along an effect -/
macro "deep_tac" : tactic =>
  `(tactic| first
    | assumption
    | (apply deep_cons; assumption)
    | (refine EffI.deep ?_ ?_ <;> assumption))

/-! ### the refinement vocabulary (Model/Runtime/Refines.lean) with the invariant -/

def PushedI {α : Type} (S : RStore F σ) (Inv : σ → Prop) (s : σ) (res : Outcome (α × σ)) (next : α)
    (rest : List Nat) (v : Val F) : Prop :=
  ∃ a s', res = .ok (next, s') ∧ Decodes (S.view s') a v ∧ EffI S Inv s s' (a :: rest) (S.vals s)

def PoppedI {α : Type} (S : RStore F σ) (Inv : σ → Prop) (s : σ) (res : Outcome (α × σ)) (next : α)
    (rest : List Nat) : Prop :=
  ∃ s', res = .ok (next, s') ∧ EffI S Inv s s' rest (S.vals s)

/-- the defer protocol; the host's state must satisfy the invariant for the `false` branch to go on -/
def DeferProtocolI {α : Type} (S : RStore F σ) (Inv : σ → Prop) (s0 : σ) (res : Outcome (α × σ)) (next : α)
    (op : Instruction) (l r : Ty × Nat) : Prop :=
  match S.deferOp op l r s0 with
  | .ok (true, s1) => res = .ok (next, s1)
  | .ok (false, s1) => Inv s1 → PushedI S Inv s1 res next (S.regs s1) .unit
  | .err e => res = .err e
  | .panic p => res = .panic p
  | .fuelOut => res = .fuelOut

def RefinesOutI {α : Type} (S : RStore F σ) (Inv : σ → Prop) (s : σ) (res : Outcome (α × σ)) (next : α)
    (rest : List Nat) (la ra : Nat) (o : OpOut F) : Prop :=
  match o with
  | .val v => PushedI S Inv s res next rest v
  | .defer op vl vr => ∃ s0, EffI S Inv s s0 rest (S.vals s) ∧
      DeferProtocolI S Inv s0 res next op (vl.typeOf, la) (vr.typeOf, ra)
  | .err e => res = .err e

/-! ### the host -/

def HostAnswerI (S : RStore F σ) (Inv : σ → Prop) (call : RM σ Bool) (s : σ) (answer : Option (Val F)) : Prop :=
  match answer with
  | some v => ∃ a s1, call s = .ok (true, s1) ∧ Decodes (S.view s1) a v ∧ HEffI S Inv s s1 (a :: S.regs s)
  | none => ∃ s1, call s = .ok (false, s1) ∧ HEffI S Inv s s1 (S.regs s)

/-- `HostRefines` (Model/Runtime/Sim.lean) from invariant states, the invariant re-established by the host -/
structure HostRefinesI (S : RStore F σ) (Inv : σ → Prop) (host : Host F) : Prop where
  defer : ∀ op l r vl vr s, Inv s → Decodes (S.view s) l vl → Decodes (S.view s) r vr →
    HostAnswerI S Inv (S.deferOp op (vl.typeOf, l) (vr.typeOf, r)) s (host.defer op vl vr)
  deferUnary : ∀ op a v s, Inv s → Decodes (S.view s) a v →
    HostAnswerI S Inv (S.deferOp op (v.typeOf, a) (.unit, 0)) s (host.defer op v .unit)
  resolve : ∀ y s, Inv s → HostAnswerI S Inv (S.resolve y) s (host.resolve y)
  apply : ∀ n r vr s, Inv s → Decodes (S.view s) r vr → HostAnswerI S Inv (S.apply n r) s (host.apply n vr)

/-! ### utilities.rs over the relativised contract -/

section
variable (L : StoreLawsOn S Inv Rd)
include L

theorem nextRef_cons {s : σ} {a : Nat} {rest : List Nat} (h : S.regs s = a :: rest)
    (hi : Inv s := by inv_tac) (hd : Deep S s rest := by deep_tac) :
    ∃ s', nextRef S s = .ok (a, s') ∧ EffI S Inv s s' rest (S.vals s) := by
  obtain ⟨s', h1, e, i⟩ := L.popRegisterCons s a rest hi h hd
  exact ⟨s', by simp [nextRef, bind_ok h1], e, i⟩

theorem nextTwoRawRef_cons {s : σ} {a b : Nat} {rest : List Nat} (h : S.regs s = a :: b :: rest)
    (hi : Inv s := by inv_tac) (hd : Deep S s rest := by deep_tac) :
    ∃ s', nextTwoRawRef S s = .ok ((a, b), s') ∧ EffI S Inv s s' rest (S.vals s) := by
  obtain ⟨s1, h1, e1⟩ := nextRef_cons L h hi (deep_cons hd)
  obtain ⟨s2, h2, e2⟩ := nextRef_cons L e1.regs e1.inv (e1.deep hd)
  rw [e1.vals] at e2
  exact ⟨s2, by simp [nextTwoRawRef, bind_ok h1, bind_ok h2], e1.trans e2⟩

omit L in
/-- `Adds` with the invariant, as an effect -/
theorem adds_i {m : RM σ Nat} {s : σ} {v : Val F} (h : AddsOn S Inv m s v) :
    ∃ a s', m s = .ok (a, s') ∧ Decodes (S.view s') a v ∧ EffI S Inv s s' (S.regs s) (S.vals s) := by
  obtain ⟨a, s', h1, h2, h3, h4⟩ := h; exact ⟨a, s', h1, h2, h3, h4⟩

def PushedOnI (S : RStore F σ) (Inv : σ → Prop) (s : σ) (res : Outcome (Unit × σ)) (v : Val F) : Prop :=
  ∃ a s', res = .ok ((), s') ∧ Decodes (S.view s') a v ∧ EffI S Inv s s' (a :: S.regs s) (S.vals s)

theorem push_of_adds {m : RM σ Nat} {s : σ} {v : Val F} (h : AddsOn S Inv m s v) (hv : v ≠ .custom) :
    PushedOnI S Inv s ((m >>= fun a => S.pushRegister a) s) v := by
  obtain ⟨a, s1, h1, d, e1, i1⟩ := h
  obtain ⟨s2, h2, e2, i2⟩ := L.pushRegister a s1 i1 (L.readable s1 a v i1 d hv)
  rw [e1.regs, e1.vals] at e2
  exact ⟨a, s2, by rw [bind_ok h1, h2], e2.dec d, e1.trans e2, i2⟩

theorem pushUnit_spec (s : σ) (hi : Inv s := by inv_tac) : PushedOnI S Inv s (pushUnit S s) .unit :=
  push_of_adds L (L.addUnit s hi) (by intro h; cases h)

theorem pushNumber_spec (n : Number F) (s : σ) (hi : Inv s := by inv_tac) :
    PushedOnI S Inv s (pushNumber S n s) (.num n) :=
  push_of_adds L (L.addNumber n s hi) (by intro h; cases h)

theorem pushBoolean_spec (b : Bool) (s : σ) (hi : Inv s := by inv_tac) :
    PushedOnI S Inv s (pushBoolean S b s) (Val.ofBool b) := by
  cases b
  · exact push_of_adds L (L.addFalse s hi) (by intro h; cases h)
  · exact push_of_adds L (L.addTrue s hi) (by intro h; cases h)

theorem pushPair_spec {l r : Nat} {vl vr : Val F} {s : σ}
    (hl : Decodes (S.view s) l vl) (hr : Decodes (S.view s) r vr) (hi : Inv s := by inv_tac) :
    PushedOnI S Inv s (pushPair S l r s) (.pair vl vr) :=
  push_of_adds L (L.addPair l r vl vr s hi hl hr) (by intro h; cases h)

/-- `push_register` of an address at hand -/
theorem pushReg {s : σ} {a : Nat} {v : Val F} (hd : Decodes (S.view s) a v) (hv : v ≠ .custom)
    (hi : Inv s := by inv_tac) :
    ∃ s', S.pushRegister a s = .ok ((), s') ∧ EffI S Inv s s' (a :: S.regs s) (S.vals s) := by
  obtain ⟨s', h1, e, i⟩ := L.pushRegister a s hi (L.readable s a v hi hd hv)
  exact ⟨s', h1, e, i⟩

end
end Garnish.Lemmas.Runtime.On
