/-
Hereditary predicates on values: `her q v` = the leaf test `q` holds of every leaf of `v` (pairs, lists, concatenations, ranges, slices,
partial applications are descended into); `LeafOK q` = `q` accepts every leaf the operations of Abs/Ops create. Lemmas/NoCustom1.lean
parametrised (`nc` is the instance `q v = (v ≠ custom)`; `exprQ` of Her7 the one for known `Expression` values).
-/
import Garnish.Abs.Machine
set_option linter.unusedSimpArgs false
set_option linter.unusedVariables false
namespace Garnish.Lemmas.Her
open Garnish Gen Garnish.Abs

variable {F : Type} {q : Val F → Bool}

mutual
/-- the leaf test `q` holds of every leaf of the value, hereditarily (pairs, lists, concatenations, ranges, slices and
partial applications are descended into) -/
def her (q : Val F → Bool) : Val F → Bool
  | .pair l r | .concat l r | .range l r | .slice l r | .part l r => her q l && her q r
  | .list items => herL q items
  | v => q v
def herL (q : Val F → Bool) : List (Val F) → Bool
  | [] => true
  | x :: xs => her q x && herL q xs
end

/-- the leaf test accepts every leaf the operations of Abs/Ops create -/
class LeafOK (q : Val F → Bool) : Prop where
  unit : q .unit = true
  tru : q .tru = true
  fls : q .fls = true
  num : ∀ n, q (.num n) = true
  char : ∀ c, q (.char c) = true
  byte : ∀ b, q (.byte b) = true
  sym : ∀ s, q (.sym s) = true
  type : ∀ t, q (.type t) = true
  symList : ∀ ps, q (.symList ps) = true

theorem herL_iff : ∀ (xs : List (Val F)), herL q xs = true ↔ ∀ x ∈ xs, her q x = true
  | [] => by simp [herL]
  | x :: xs => by simp [herL, herL_iff xs]

theorem herL_append (xs ys : List (Val F)) : herL q (xs ++ ys) = (herL q xs && herL q ys) := by
  induction xs with
  | nil => simp [herL]
  | cons x xs ih => simp [herL, ih, Bool.and_assoc]

theorem herL_get {xs : List (Val F)} (h : herL q xs = true) {i : Nat} {x : Val F} (hx : xs[i]? = some x) : her q x = true :=
  (herL_iff xs).mp h x (List.mem_of_getElem? hx)

theorem herL_take {xs : List (Val F)} (h : herL q xs = true) (n : Nat) : herL q (xs.take n) = true :=
  (herL_iff _).mpr fun x hx => (herL_iff xs).mp h x (List.mem_of_mem_take hx)

theorem herL_drop {xs : List (Val F)} (h : herL q xs = true) (n : Nat) : herL q (xs.drop n) = true :=
  (herL_iff _).mpr fun x hx => (herL_iff xs).mp h x (List.mem_of_mem_drop hx)

theorem herL_reverse {xs : List (Val F)} (h : herL q xs = true) : herL q xs.reverse = true :=
  (herL_iff _).mpr fun x hx => (herL_iff xs).mp h x (List.mem_reverse.mp hx)

theorem herL_tail {xs : List (Val F)} (h : herL q xs = true) : herL q xs.tail = true := by
  cases xs with
  | nil => rfl
  | cons x xs => simp [herL] at h; exact h.2

theorem her_unit [hq : LeafOK q] : her q (.unit : Val F) = true := by simp [her, hq.unit]
theorem her_tru [hq : LeafOK q] : her q (.tru : Val F) = true := by simp [her, hq.tru]
theorem her_fls [hq : LeafOK q] : her q (.fls : Val F) = true := by simp [her, hq.fls]
theorem her_num [hq : LeafOK q] (n : Number F) : her q (.num n) = true := by simp [her, hq.num]
theorem her_char [hq : LeafOK q] (c : Nat) : her q (.char c : Val F) = true := by simp [her, hq.char]
theorem her_byte [hq : LeafOK q] (c : Nat) : her q (.byte c : Val F) = true := by simp [her, hq.byte]
theorem her_sym [hq : LeafOK q] (c : Nat) : her q (.sym c : Val F) = true := by simp [her, hq.sym]
theorem her_type [hq : LeafOK q] (t : Ty) : her q (.type t : Val F) = true := by simp [her, hq.type]
theorem her_symList [hq : LeafOK q] (ps : List (SymPart F)) : her q (.symList ps) = true := by simp [her, hq.symList]

theorem her_ofBool [hq : LeafOK q] (b : Bool) : her q (Val.ofBool b : Val F) = true := by
  cases b
  · exact her_fls
  · exact her_tru

theorem her_flatItems : ∀ (v : Val F), her q v = true → herL q (flatItems v) = true
  | .concat l r, h => by
    simp [her] at h
    rw [flatItems, herL_append, her_flatItems l h.1, her_flatItems r h.2]; rfl
  | .list items, h => by simpa [her, flatItems] using h
  | .unit, h | .tru, h | .fls, h | .num _, h | .char _, h | .byte _, h | .sym _, h | .expr _, h | .ext _, h
  | .type _, h | .chars _, h | .bytes _, h | .symList _, h | .custom, h => by simp [flatItems, herL]; exact h
  | .pair l r, h | .range l r, h | .slice l r, h | .part l r, h => by simp [flatItems, herL]; exact h

theorem her_lookupSym (s : Nat) : ∀ (xs : List (Val F)), herL q xs = true → ∀ v, lookupSym s xs = some v → her q v = true
  | [], _, v, h => by simp [lookupSym] at h
  | x :: rest, hx, v, h => by
    simp [herL] at hx
    have ih := her_lookupSym s rest hx.2 v
    unfold lookupSym at h
    split at h
    · rename_i heq; cases heq
    · rename_i k w rest' heq
      cases heq
      split at h
      · cases h
        have := hx.1; simp [her] at this; exact this.2
      · exact ih h
    · rename_i y rest' _ heq
      cases heq
      exact ih h

theorem her_lookupRev (s : Nat) : ∀ (c : Val F), her q c = true → ∀ v, lookupRev s c = some v → her q v = true
  | .concat l r, hc, v, h => by
    simp [her] at hc
    simp only [lookupRev] at h
    cases hr : lookupRev s r with
    | some x => rw [hr] at h; simp [Option.orElse] at h; subst h; exact her_lookupRev s r hc.2 x hr
    | none => rw [hr] at h; simp [Option.orElse] at h; exact her_lookupRev s l hc.1 v h
  | .list items, hc, v, h => by simp [her] at hc; exact her_lookupSym s items hc v (by simpa [lookupRev] using h)
  | .pair l r, hc, v, h => by
    have : lookupRev s (.pair l r) = lookupSym s [.pair l r] := rfl
    rw [this] at h; exact her_lookupSym s _ (by simp [herL]; exact hc) v h
  | .unit, _, v, h | .tru, _, v, h | .fls, _, v, h | .num _, _, v, h | .char _, _, v, h | .byte _, _, v, h
  | .sym _, _, v, h | .expr _, _, v, h | .ext _, _, v, h | .type _, _, v, h | .chars _, _, v, h | .bytes _, _, v, h
  | .symList _, _, v, h | .range _ _, _, v, h | .slice _ _, _, v, h | .part _ _, _, v, h | .custom, _, v, h => by
    simp [lookupRev, lookupSym] at h

/-- a fresh leaf satisfies the test -/
macro "fresh" : tactic =>
  `(tactic| first
    | rfl
    | exact her_unit | exact her_tru | exact her_fls | exact her_num _ | exact her_char _ | exact her_byte _
    | exact her_sym _ | exact her_type _ | exact her_symList _ | exact her_ofBool _)

end Garnish.Lemmas.Her
