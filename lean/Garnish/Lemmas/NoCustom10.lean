/-
`runOKOn4_of_balanced`: static discharge for the whole instruction set; the coverage predicate along `reloc`.
-/
import Garnish.Lemmas.NoCustom9
set_option linter.unusedSimpArgs false
set_option linter.unusedVariables false
namespace Garnish.Lemmas.NoCustom
open Garnish Gen Garnish.Abs Garnish.Model.Equality Garnish.Model.Runtime Garnish.Lemmas.Runtime
open Garnish.Lemmas.Runtime.On Garnish.Props.C06

variable {F σ : Type} {fo : FloatOps F} {host : Host F} {S : RStore F σ} {Inv : σ → Prop} {P : Prog F}

/-- **static discharge, whole instruction set**: stack balance gives the depth conditions, the `NoCustom` invariant the
"no custom" conditions; what is left is `DynOK` in the reachable states (and that calls enter known bodies) -/
theorem runOKOn4_of_balanced {entry : Nat} {d : Array (Option Nat)} (h : absDepth P entry = some d)
    (hentry : entry < P.instrs.size) (vals : List (Val F)) (tr : List (HostCall F)) (fuel : Nat)
    (HN : HostNoCustom host) (hc : ConstsNC P) (hv : ncL vals = true)
    (hdyn : ∀ s, ReachK fo host P (entry :: exprEntries P) ⟨entry, [], vals, [], tr⟩ s → ∀ i o,
      P.instrs[s.pc]? = some (i, o) → DynOK fo S Inv P fuel s i o)
    (hcalls : ∀ s s', ReachK fo host P (entry :: exprEntries P) ⟨entry, [], vals, [], tr⟩ s →
      Abs.step fo host P s = .running s' → s'.frames.length = s.frames.length + 1 → s'.pc ∈ entry :: exprEntries P)
    (n : Nat) : RunOKG fo (MachOKOn4 fo S Inv P fuel) host P n ⟨entry, [], vals, [], tr⟩ :=
  runOKG_of_reach (MachOKOn4 fo S Inv P fuel) (entry :: exprEntries P) _
    (fun s hr i o hf => by
      obtain ⟨hd, he⟩ := deep_of_balanced (fo := fo) (host := host) h hentry vals tr hr hf
      exact machOKOn4_of fo hd he (noCustom_reach HN hc (noCustom_start hv) hr) hc (hdyn s hr i o hf))
    hcalls n _ (.refl _)

/-- the coverage predicate moves along the relocation -/
theorem machOKOn4_reloc {fuel : Nat} {m : MState F} {i : Instruction} {o : Option Nat}
    (h : MachOKOn4 fo S Inv P fuel m i o) :
    MachOKOn4 fo S Inv (reloc P) fuel m (relocI (i, o)).1 (relocI (i, o)).2 := by
  cases i <;> cases o <;> first
    | exact h
    | (intro k v hk hc
       simp only [relocI, Option.some.injEq] at hk
       subst hk
       rw [reloc_const] at hc
       exact h _ v rfl hc)
    | (intro k v hk hc; cases hk)
    | (refine ⟨h.1, fun k key hk hc => ?_⟩
       simp only [relocI, Option.some.injEq] at hk
       subst hk
       rw [reloc_const] at hc
       exact h.2 _ key rfl hc)
    | (exact ⟨h.1, fun k key hk hc => by cases hk⟩)

/-- `DynOK` does not see the relocation either (the other direction, for stating it on the built program) -/
theorem constsNC_reloc (hc : ConstsNC P) : ConstsNC (reloc P) := by
  intro k v hk
  match k with
  | 0 => simp [reloc] at hk; subst hk; rfl
  | 1 => simp [reloc] at hk; subst hk; rfl
  | 2 => simp [reloc] at hk; subst hk; rfl
  | k + 3 => rw [reloc_const] at hk; exact hc k v hk

end Garnish.Lemmas.NoCustom
