/-
Kernel evaluation of list construction.  `List.mergeSort` is defined by well-founded recursion, which the kernel does
not unfold; `ksort` is the same merge sort with explicit fuel (structural recursion), proved equal to it.  `buildListK`
is `Store.buildList` with `ksort` in place of `mergeSort`; `buildList_eq` lets the closed examples of
Props/C07Reach.lean be checked by `decide +kernel`.  Nothing here is part of the model.
-/
import Garnish.Store.BasicOptimize
namespace Garnish.BasicOpt
open Garnish

/-- `List.merge` with fuel -/
def kmerge {α : Type} (le : α → α → Bool) : Nat → List α → List α → List α
  | 0, xs, ys => xs ++ ys
  | _ + 1, [], ys => ys
  | _ + 1, x :: xs, [] => x :: xs
  | fuel + 1, x :: xs, y :: ys =>
    if le x y then x :: kmerge le fuel xs (y :: ys) else y :: kmerge le fuel (x :: xs) ys

theorem merge_eq_kmerge {α : Type} (le : α → α → Bool) :
    ∀ (fuel : Nat) (xs ys : List α), xs.length + ys.length ≤ fuel → xs.merge ys le = kmerge le fuel xs ys
  | 0, xs, ys, h => by
    have h1 : xs = [] := List.eq_nil_of_length_eq_zero (by omega)
    have h2 : ys = [] := List.eq_nil_of_length_eq_zero (by omega)
    subst h1; subst h2; simp [kmerge]
  | _ + 1, [], ys, _ => by simp [kmerge]
  | _ + 1, x :: xs, [], _ => by simp [kmerge]
  | fuel + 1, x :: xs, y :: ys, h => by
    simp only [List.length_cons] at h
    rw [List.merge]
    simp only [kmerge]
    rw [merge_eq_kmerge le fuel xs (y :: ys) (by simp only [List.length_cons]; omega),
      merge_eq_kmerge le fuel (x :: xs) ys (by simp only [List.length_cons]; omega)]

/-- `List.mergeSort` with fuel -/
def ksort {α : Type} (le : α → α → Bool) : Nat → List α → List α
  | 0, l => l
  | _ + 1, [] => []
  | _ + 1, [a] => [a]
  | fuel + 1, a :: b :: xs =>
    kmerge le (xs.length + 2) (ksort le fuel ((a :: b :: xs).take ((xs.length + 2 + 1) / 2)))
      (ksort le fuel ((a :: b :: xs).drop ((xs.length + 2 + 1) / 2)))

theorem mergeSort_eq_ksort {α : Type} (le : α → α → Bool) :
    ∀ (fuel : Nat) (l : List α), l.length ≤ fuel → l.mergeSort le = ksort le fuel l
  | 0, l, h => by
    have : l = [] := List.eq_nil_of_length_eq_zero (by omega)
    subst this; simp [ksort]
  | _ + 1, [], _ => by simp [ksort]
  | _ + 1, [a], _ => by simp [ksort]
  | fuel + 1, a :: b :: xs, h => by
    simp only [List.length_cons] at h
    rw [List.mergeSort]
    simp only [List.MergeSort.Internal.splitInTwo_fst, List.MergeSort.Internal.splitInTwo_snd, ksort]
    rw [mergeSort_eq_ksort le fuel _ (by simp only [List.length_take, List.length_cons]; omega),
      mergeSort_eq_ksort le fuel _ (by simp only [List.length_drop, List.length_cons]; omega)]
    simp only [List.length_cons]
    rw [merge_eq_kmerge le (xs.length + 2)]
    rw [← mergeSort_eq_ksort le fuel _ (by simp only [List.length_take, List.length_cons]; omega),
      ← mergeSort_eq_ksort le fuel _ (by simp only [List.length_drop, List.length_cons]; omega)]
    simp only [List.length_mergeSort, List.length_take, List.length_drop, List.length_cons]
    omega

/-- `Store.endList` with the fuelled sort -/
def Store.endListK (s : Store) (li : Nat) : Outcome (Store × Nat) := do
  match ← s.get li with
  | .uninitializedList len count =>
    if count < len then .err .data else
    let a := li + 1 + len
    if s.start + a + len > s.custom.start + s.custom.size then .panic "garnish_impl.rs:end_list slice" else
    let slots := (List.range len).map (fun j => s.cells.getD (a + j) .empty)
    let k := (slots.filter (fun c => c != .empty)).length
    let sorted := ksort Store.assocLe len slots
    let s := { s with cells := Store.setRange s.cells a sorted }
    let s ← Store.setCell s li (.list len k)
    pure (s, li)
  | _ => .err .data

theorem Store.endList_eq (s : Store) (li : Nat) : s.endList li = s.endListK li := by
  unfold Store.endList Store.endListK
  congr 1
  funext c
  cases c with
  | uninitializedList len count =>
    have hk := mergeSort_eq_ksort Store.assocLe len
      ((List.range len).map (fun j => s.cells.getD (li + 1 + len + j) .empty)) (by simp)
    simp only [hk]
  | _ => rfl

/-- `Store.buildList` with the fuelled sort -/
def Store.buildListK (s : Store) (items : List Nat) : Outcome (Store × Nat) := do
  let (s, li) ← s.startList items.length
  let s ← items.foldlM (fun s a => s.addToList li a) s
  s.endListK li

theorem Store.buildList_eq (s : Store) (items : List Nat) : s.buildList items = s.buildListK items := by
  unfold Store.buildList Store.buildListK
  simp only [Store.endList_eq]

end Garnish.BasicOpt
