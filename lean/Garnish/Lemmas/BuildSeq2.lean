/-
C04, builder half — evaluation order, part 2: the order invariant `SInv` and `prec_key`.
-/
import Garnish.Lemmas.BuildSeq
namespace Garnish.Lemmas.BuildSeq
open Garnish Garnish.Gen Garnish.Model.Parser Garnish.Model.Literals Garnish.Model.Build Garnish.Lemmas.Build
open Garnish.Lemmas.BuildTotal
open Garnish.Lemmas.BuildOrder (Above above_append_left above_append_mem above_append_right above_mem above_irrefl
  above_top_false above_init Attr)

/-- the node is between its first and its last visit, or about to be visited for the first time: it is on `stack` -/
def Act (ph : Nat → Phase) (x : Nat) : Prop := ph x = .p1 ∨ ph x = .p2

theorem Act.ne0 {ph : Nat → Phase} {x : Nat} (h : Act ph x) : ph x ≠ .p0 := by
  rcases h with h | h <;> rw [h] <;> intro h' <;> cases h'
theorem Act.ne3 {ph : Nat → Phase} {x : Nat} (h : Act ph x) : ph x ≠ .p3 := by
  rcases h with h | h <;> rw [h] <;> intro h' <;> cases h'
theorem Act.nepr {ph : Nat → Phase} {x : Nat} (h : Act ph x) : ph x ≠ .pr := by
  rcases h with h | h <;> rw [h] <;> intro h' <;> cases h'
theorem not_act_of_23 {ph : Nat → Phase} {x : Nat} (h : ph x = .p2 ∨ ph x = .p3) (h1 : ph x ≠ .p2) : ¬ Act ph x := by
  intro ha
  rcases h with h | h
  · exact h1 h
  · exact ha.ne3 h

/-- everything attributed to `x` has to precede everything attributed to `z` -/
def Prec (tree : Array ParseNode) (G : Nat → Prop) (x z : Nat) : Prop :=
  (∃ y a b, G y ∧ Ord tree y a b ∧ IDesc tree a x ∧ IDesc tree b z) ∨
  (∃ y c pn, G y ∧ PreC tree y c ∧ tree[y]? = some pn ∧ pn.definition ≠ .sideEffect ∧ IDesc tree c x ∧ z = y) ∨
  (∃ y c, G y ∧ PostC tree y c ∧ IDesc tree c z ∧ x = y) ∨
  (∃ ρ y r, G ρ ∧ IDesc tree ρ y ∧ OolChild tree y r ∧ IDesc tree ρ x ∧ Sub tree r z)

/-! ### the order invariant (at the head of the inner loop; `S` is the whole work list) -/

structure SInv (root : Nat) (tree : Array ParseNode) (G : Nat → Prop) (m0 : Nat) (ph : Nat → Phase) (S : List Nat)
    (nodes : Nodes) (M : Array (Option Nat)) : Prop where
  nodup : S.Nodup
  onStack : ∀ x, Act ph x → x ∈ S
  attrVisited : ∀ x, Attr m0 M x → ph x = .p2 ∨ ph x = .p3
  attrLast : ∀ (y : Nat) (pn : ParseNode), tree[y]? = some pn → pn.definition ≠ .sideEffect → Attr m0 M y → ph y = .p3
  inl : ∀ y c, G y → ILink tree y c → ph c ≠ .pr ∧ ∀ o, ph c ≠ .pc o
  sibAbove : ∀ y a b x, G y → Ord tree y a b → IDesc tree a x → Act ph x → ph b = .p1 ∧ Above S x b
  sibDone : ∀ y a b x, G y → Ord tree y a b → IDesc tree a x → (ph b = .p2 ∨ ph b = .p3) → ¬ Act ph x
  preAbove : ∀ y c x, G y → PreC tree y c → IDesc tree c x → Act ph x → ph y = .p2 ∧ Above S x y
  preDone : ∀ y c x, G y → PreC tree y c → IDesc tree c x → ph y = .p3 → ¬ Act ph x
  postBelow : ∀ y c z, G y → PostC tree y c → IDesc tree c z → Act ph z → ph y = .p2 → Above S y z
  postAfter : ∀ y c z, G y → PostC tree y c → IDesc tree c z → (ph z = .p2 ∨ ph z = .p3) → ph y = .p3
  owner : ∀ ρ y r x, G ρ → IDesc tree ρ y → OolChild tree y r → (ph r = .p1 ∨ ph r = .p2 ∨ ph r = .p3) → IDesc tree ρ x →
    ¬ Act ph x
  uninit : ∀ (x : Nat) (bn : BuildNode), nodes[x]? = some (some bn) → (ph x = .p1 ∨ ph x = .pr) → bn.state = .uninitialized
  ord : ∀ x z, Prec tree G x z → ∀ kx kz : Nat, m0 ≤ kx → m0 ≤ kz → M[kx]? = some (some x) → M[kz]? = some (some z) → kx < kz

section facts
variable {F : Type} {root : Nat} {tree : Array ParseNode} {G : Nat → Prop} {m0 : Nat} {ph : Nat → Phase}

/-- a scheduled child means the parent has been visited -/
theorem child_visited (V : Validated root tree G) {ctx : Ctx F} (hinv : Inv root tree G ph ctx) {y c : Nat} (hy : G y)
    (hc : IsChild tree y c) (hc0 : ph c ≠ .p0) : ph y = .p2 ∨ ph y = .p3 := by
  have hcG := (child_facts V hy hc).1
  rcases hinv.fresh c hcG hc0 with h1 | ⟨p, hp, hpc, hs, _⟩
  · exact absurd h1 (child_ne_root V hy hc)
  · have := parent_unique V hp hy hpc hc
    subst this; exact hs

/-- a scheduled descendant means the ancestors have been visited -/
theorem sub_climb (V : Validated root tree G) {ctx : Ctx F} (hinv : Inv root tree G ph ctx) {b z : Nat} (hb : G b)
    (h : Sub tree b z) (hz : ph z ≠ .p0) : z = b ∨ ph b = .p2 ∨ ph b = .p3 := by
  induction h with
  | refl => exact Or.inl rfl
  | @step w x hw hc ih =>
    have hwG := sub_G V hb hw
    have hs := child_visited V hinv hwG hc hz
    have hw0 : ph w ≠ .p0 := by rcases hs with h | h <;> rw [h] <;> intro h' <;> cases h'
    rcases ih hw0 with h2 | h2
    · subst h2; exact Or.inr hs
    · exact Or.inr h2

theorem idesc_climb (V : Validated root tree G) {ctx : Ctx F} (hinv : Inv root tree G ph ctx) {b z : Nat} (hb : G b)
    (h : IDesc tree b z) (hz : ph z ≠ .p0) : z = b ∨ ph b = .p2 ∨ ph b = .p3 := sub_climb V hinv hb h.sub hz

/-- a scheduled in-line descendant of the child `c` of `y` means `y` has been visited -/
theorem idesc_parent_visited (V : Validated root tree G) {ctx : Ctx F} (hinv : Inv root tree G ph ctx) {y c z : Nat} (hy : G y)
    (hc : IsChild tree y c) (h : IDesc tree c z) (hz : ph z ≠ .p0) : ph y = .p2 ∨ ph y = .p3 := by
  have hcG := (child_facts V hy hc).1
  refine child_visited V hinv hy hc ?_
  rcases idesc_climb V hinv hcG h hz with h1 | h1
  · subst h1; exact hz
  · rcases h1 with h | h <;> rw [h] <;> intro h' <;> cases h'

/-- the node on top of the work list, still being visited: nothing that has to come after it is attributed yet -/
theorem prec_key (V : Validated root tree G) {ctx : Ctx F} (hinv : Inv root tree G ph ctx) {S0 : List Nat} {x : Nat}
    {nodes : Nodes} {M : Array (Option Nat)} (ho : SInv root tree G m0 ph (S0 ++ [x]) nodes M)
    (hx : Act ph x) {z : Nat} (hp : Prec tree G x z) : ¬ Attr m0 M z ∧ z ≠ x := by
  suffices hkey : (Attr m0 M z ∨ z = x) → False from ⟨fun h => hkey (Or.inl h), fun h => hkey (Or.inr h)⟩
  intro hz
  have hz0 : ph z ≠ .p0 := by
    rcases hz with h | h
    · rcases ho.attrVisited z h with h' | h' <;> rw [h'] <;> intro h'' <;> cases h''
    · rw [h]; exact hx.ne0
  rcases hp with ⟨y, a, b, hy, hord, hda, hdb⟩ | ⟨y, c, pn, hy, hc, hpn, hnse, hdc, hzy⟩ | ⟨y, c, hy, hc, hdc, hxy⟩ |
    ⟨ρ, y, r, hρ, hdy, hool, hdx, hsub⟩
  · have hbG := (child_facts V hy hord.right.isChild).1
    have hbv : ph b = .p2 ∨ ph b = .p3 := by
      rcases idesc_climb V hinv hbG hdb hz0 with h1 | h1
      · subst h1
        rcases hz with h | h
        · exact ho.attrVisited z h
        · subst h
          exact absurd (ho.sibAbove y a z z hy hord hda hx).2 (above_irrefl ho.nodup)
      · exact h1
    exact ho.sibDone y a b x hy hord hda hbv hx
  · subst hzy
    rcases hz with h | h
    · exact ho.preDone z c x hy hc hdc (ho.attrLast z pn hpn hnse h) hx
    · subst h
      exact above_irrefl ho.nodup (ho.preAbove z c z hy hc hdc hx).2
  · subst hxy
    rcases hz with h | h
    · exact hx.ne3 (ho.postAfter x c z hy hc hdc (ho.attrVisited z h))
    · subst h
      rcases idesc_parent_visited V hinv hy hc.ilink.isChild hdc hz0 with h2 | h3
      · exact above_irrefl ho.nodup (ho.postBelow z c z hy hc hdc hx h2)
      · exact hx.ne3 h3
  · have hyG := idesc_G V hρ hdy
    have hrG := (child_facts V hyG hool.isChild).1
    have hr : ph r = .p1 ∨ ph r = .p2 ∨ ph r = .p3 := by
      rcases sub_climb V hinv hrG hsub hz0 with h1 | h1
      · subst h1
        rcases hz with h | h
        · exact Or.inr (ho.attrVisited z h)
        · subst h
          rcases hx with h' | h'
          · exact Or.inl h'
          · exact Or.inr (Or.inl h')
      · exact Or.inr h1
    exact ho.owner ρ y r x hρ hdy hool hr hdx hx

end facts

end Garnish.Lemmas.BuildSeq
