/-
Text-level rewrites, part 5c (C18): the list of SIGNIFICANT token positions (`Spec.significant`, which the in-order walk
of the reference tree equals: `refParse_inorder`) under the insertion of a filler token (Whitespace / Annotation) in the
interior of a token list: the positions behind the insertion shift by one (`significant_insert`).
-/
import Garnish.Lemmas.LexRewrite5
import Garnish.Lemmas.RefParseInorder
set_option linter.unusedSimpArgs false
set_option linter.unusedVariables false
namespace Garnish.Spec
open Garnish Garnish.Gen Garnish.Model.Parser

/-- one token of the scan: is its position significant, the bracket stack and the "previous token" afterwards -/
def stepE (ty : TokenType) (cf : Bool) (st : List Bracket) (prev : PrevTok) : Bool × List Bracket × PrevTok :=
  if isFiller ty then (false, st, prev)
  else if isCloser ty then (false, st.tail, .other)
  else match openerOf ty with
    | some b => (true, b :: st, if b == .expr then .openExpr else .other)
    | none =>
      if isSeparator ty then
        if st.head? == some .group then (false, st, prev)
        else if prev == .sep || prev == .openExpr || (ty == .subexpression && cf) then (false, st, .sep)
        else (true, st, .sep)
      else (true, st, .other)

theorem scan_cons (t : PToken) (rest : List PToken) (pos : Nat) (st : List Bracket) (prev : PrevTok) :
    significantScan (t :: rest) pos st prev =
      (if (stepE t.type (closerFollows rest) st prev).1 then [pos] else []) ++
        significantScan rest (pos + 1) (stepE t.type (closerFollows rest) st prev).2.1
          (stepE t.type (closerFollows rest) st prev).2.2 := by
  simp only [significantScan]
  unfold stepE
  by_cases h1 : isFiller t.type = true
  · simp [h1]
  · by_cases h2 : isCloser t.type = true
    · simp [h1, h2]
    · cases h3 : openerOf t.type with
      | some b => simp [h1, h2, h3]
      | none =>
        by_cases h4 : isSeparator t.type = true
        · by_cases h5 : (st.head? == some Bracket.group) = true
          · simp [h1, h2, h3, h4, h5]
          · by_cases h6 : (prev == PrevTok.sep || prev == PrevTok.openExpr ||
                (t.type == TokenType.subexpression && closerFollows rest)) = true
            · simp [h1, h2, h3, h4, h5, h6]
            · simp [h1, h2, h3, h4, h5, h6]
        · simp [h1, h2, h3, h4]

theorem scan_types : ∀ (a b : List PToken) (pos : Nat) (st : List Bracket) (prev : PrevTok), SameTypes a b →
    significantScan a pos st prev = significantScan b pos st prev
  | [], [], _, _, _, _ => rfl
  | [], _ :: _, _, _, _, h => by simp [SameTypes] at h
  | _ :: _, [], _, _, _, h => by simp [SameTypes] at h
  | x :: a, y :: b, pos, st, prev, h => by
    simp only [SameTypes, List.map_cons, List.cons.injEq] at h
    rw [scan_cons, scan_cons, h.1, closerFollows_types (a := a) (b := b) h.2,
      scan_types a b _ _ _ h.2]

theorem scan_ge : ∀ (l : List PToken) (pos : Nat) (st : List Bracket) (prev : PrevTok),
    ∀ x ∈ significantScan l pos st prev, pos ≤ x
  | [], _, _, _, x, h => by simp [significantScan] at h
  | t :: rest, pos, st, prev, x, h => by
    rw [scan_cons] at h
    rcases List.mem_append.mp h with h | h
    · split at h
      · simp at h; omega
      · simp at h
    · have := scan_ge rest (pos + 1) _ _ x h
      omega

theorem scan_shift : ∀ (l : List PToken) (pos : Nat) (st : List Bracket) (prev : PrevTok),
    significantScan l (pos + 1) st prev = (significantScan l pos st prev).map (· + 1)
  | [], _, _, _ => rfl
  | t :: rest, pos, st, prev => by
    rw [scan_cons, scan_cons, scan_shift rest (pos + 1)]
    split <;> simp

/-- positions from `m` on move up by one -/
def shiftAt (m k : Nat) : Nat := if k < m then k else k + 1

theorem shiftAt_inj (m : Nat) : ∀ x y, shiftAt m x = shiftAt m y → x = y := by
  intro x y h
  unfold shiftAt at h
  split at h <;> split at h <;> omega

theorem closerFollows_insert {w : PToken} (hw : isFiller w.type = true) : ∀ (pre post : List PToken),
    closerFollows (pre ++ w :: post) = closerFollows (pre ++ post)
  | [], post => closerFollows_filler hw post
  | x :: pre, post => by
    simp only [List.cons_append, closerFollows, closerFollows_insert hw pre post]

theorem scan_insert {w : PToken} (hw : isFiller w.type = true) : ∀ (pre post : List PToken) (pos : Nat)
    (st : List Bracket) (prev : PrevTok),
    significantScan (pre ++ w :: post) pos st prev =
      (significantScan (pre ++ post) pos st prev).map (shiftAt (pos + pre.length))
  | [], post, pos, st, prev => by
    have h1 : significantScan (w :: post) pos st prev = significantScan post (pos + 1) st prev := by
      rw [scan_cons]; simp [stepE, hw]
    simp only [List.nil_append, h1, scan_shift, List.length_nil, Nat.add_zero]
    apply List.map_congr_left
    intro x hx
    have := scan_ge post pos st prev x hx
    unfold shiftAt
    rw [if_neg (by omega)]
  | x :: pre, post, pos, st, prev => by
    simp only [List.cons_append]
    rw [scan_cons, scan_cons, closerFollows_insert hw pre post, scan_insert hw pre post (pos + 1)]
    have e : pos + 1 + pre.length = pos + (x :: pre).length := by simp; omega
    rw [e, List.map_append]
    congr 1
    split
    · simp [shiftAt]
    · rfl

theorem significant_noTrim {toks : List PToken} (h : NoTrim toks) :
    significant toks = significantScan toks 0 [] .start := by
  obtain ⟨hne, h1, h2⟩ := h
  unfold significant
  simp only [h1, h2]
  have hlen : ¬ (0 ≥ toks.length) := by
    have := List.length_pos_iff.mpr hne; omega
  simp [hlen]

/-- **a filler token inserted in the interior**: the significant positions behind it shift by one -/
theorem significant_insert (pre post : List PToken) (w : PToken) (hw : isFiller w.type = true)
    (h : NoTrim (pre ++ post)) (h' : NoTrim (pre ++ w :: post)) :
    significant (pre ++ w :: post) = (significant (pre ++ post)).map (shiftAt pre.length) := by
  rw [significant_noTrim h, significant_noTrim h', scan_insert hw]
  simp

theorem significant_types {a b : List PToken} (hs : SameTypes a b) (ha : NoTrim a) :
    significant b = significant a := by
  rw [significant_noTrim ha, significant_noTrim (ha.types hs), scan_types a b _ _ _ hs]

end Garnish.Spec
