/-
Brackets, part 10: complete expressions of a frame, both sides.  `ExprOK toks ls`: from the start of a frame (the very
beginning, or right after an opening bracket) the tokens `toks` are processed to a state that satisfies `UInv` for a tree
`E`, and the reference parser's frame holds the reference tree of `E` (`ls`: the last item was a suffix operator).
Constructors: the first operand (`expr_first`), a suffix operator (`expr_suf`), a binary operator with its right operand
(`expr_bin`).
-/
import Garnish.Lemmas.ParserB9

namespace Garnish.Spec
open Garnish Garnish.Gen Garnish.Model.Parser

/-- what may precede the first token of a frame's expression -/
def StartPrev (st : PState) : Prop :=
  st.previousSecondDef = .none ∨ st.previousSecondDef = .startGrouping ∨ st.previousSecondDef = .startSideEffect ∨
    st.previousSecondDef = .whitespace ∨ st.previousSecondDef = .annotation ∨ st.previousSecondDef = .subexpression

def ExprOK (c : Nat) (inG : Bool) (toks : List PToken) (ls : Bool) : Prop :=
  ∀ (st0 : PState) (ug p : Option Nat) (base : Nat), OpenB st0 ug → FrameStart st0 ug p base → AllPrio st0.nodes →
    CGOK st0 → KindOK st0 ug inG → StartPrev st0 → ∀ (pos : Nat), NumberedFrom pos toks → ∀ (rest : List PToken),
    ∃ (st1 : PState) (E : Tree) (re cb : Nat),
      loop st0 (toks ++ rest) = loop st1 rest ∧ UInv st1 ug p base E re cb ∧
      st1.groupStack = st0.groupStack ∧ st1.currentGroup = st0.currentGroup ∧
      (∀ j, j + 1 < base → st1.nodes[j]? = st0.nodes[j]?) ∧
      (∀ j, j < base → (st1.nodes[j]?).map (setRight none) = (st0.nodes[j]?).map (setRight none)) ∧
      (ls = false → Ready st1) ∧
      E.inorder.length + base + c = st1.nodes.size ∧
      ∀ (f : Frame) (stack : List Frame) (restR : List PToken), f.cur = .nil → f.last = .start → f.inGroup = inG →
        refLoop Table.gen f stack pos (toks ++ restR) =
          refLoop Table.gen { f with cur := toRG (dfOf st1.nodes) E, last := if ls then .suffix else .operand, ws := false,
                                     prevSep := false } stack (pos + toks.length) restR

theorem prio_dfOf {nodes : Array ParseNode} (hp : AllPrio nodes) {i : Nat} (hi : i < nodes.size) :
    Table.gen.prio (dfOf nodes i) = some (prioAt nodes i) := by
  have hsome : ∃ nd, nodes[i]? = some nd := by
    cases hnd : nodes[i]? with
    | none => rw [Array.getElem?_eq_none_iff] at hnd; omega
    | some nd => exact ⟨nd, rfl⟩
  obtain ⟨nd, hnd⟩ := hsome
  obtain ⟨p, hp⟩ := hp i nd hnd
  show priority _ = _
  simp [dfOf, prioAt, hnd, hp]

theorem FrameStart.above_ne {st0 : PState} {ug p : Option Nat} {base : Nat} (h : FrameStart st0 ug p base) :
    aboveDef st0 ≠ .access := by
  cases h with
  | top h1 _ => simp [aboveDef, h1]
  | bracket g G pg h1 _ hG hgl _ _ =>
    unfold aboveDef
    rw [h1, Nat.add_sub_cancel, hG]
    intro e
    simp only [Option.map_some, Option.getD_some] at e
    rw [e] at hgl; cases hgl

/-- the first operand of a frame is an expression -/
theorem expr_first {c : Nat} {inG : Bool} {x : List PToken} (hx : OpdOK c x) : ExprOK c inG x false := by
  intro st0 ug p base hO hfs hprios hcg _ _ pos hnum rest
  obtain ⟨st2, sub, cb, P, hloop, hres, hP, hcnt, href⟩ := hx st0 ug hO hprios hcg pos hnum rest
  obtain ⟨hb, _⟩ := hfs.base_eq
  refine ⟨st2, sub, base, cb, hloop, uinv_first hfs hO.hug hres, hres.gs, hres.cg,
    fun j hj => hres.below j (by omega), fun j hj => by rw [hres.below j (by omega)], fun _ => hres.ready, by rw [hb]; exact hcnt, ?_⟩
  intro f stack restR hc hl _
  rw [href f stack restR (Or.inr (Or.inl hl)), hc, hP.nil hfs.above_ne]
  rfl

/-- an expression followed by a suffix operator -/
theorem expr_suf {c : Nat} {inG : Bool} {e : List PToken} {ls : Bool} (he : ExprOK c inG e ls) (s : PToken)
    (hs : isSuffixTok s = true) : ExprOK c inG (e ++ [s]) true := by
  intro st0 ug p base hO hfs hprios hcg hk hsp pos hnum rest
  have hnume := numbered_prefix e [s] pos hnum
  have hscol : s.col = pos + e.length := (numbered_append e [s] pos hnum).1
  obtain ⟨stE, E, re, cb, hloopE, hinvE, hgsE, hcgE, ho1E, ho2E, hrdE, hcntE, hrefE⟩ :=
    he st0 ug p base hO hfs hprios hcg hk hsp pos hnume ([s] ++ rest)
  obtain ⟨q, st1, re', hq, h1, hinv1, hs1, hgs1, hcg1, hdefs1, ho11, ho21, hdn⟩ :=
    suffix_effectU hinvE s rest.isEmpty hs
  have hsd : (getDefinition s.type).2 = .unarySuffix := by unfold isSuffixTok at hs; simpa using hs
  obtain ⟨_, _, _, hnb⟩ := suffix_prio20 s.type hsd
  refine ⟨st1, _, re', st1.nodes.size, ?_, hinv1, by rw [hgs1, hgsE], by rw [hcg1, hcgE],
    fun j hj => by rw [ho21 j hj, ho1E j hj], fun j hj => by rw [ho11 j hj, ho2E j hj], (fun h => Bool.noConfusion h),
    by rw [insertC_inorder]; simp only [List.length_append, List.length_cons, Tree.inorder, List.length_nil]; omega, ?_⟩
  · rw [List.append_assoc, hloopE]
    simp only [List.cons_append, List.nil_append, loop, h1, Outcome.bind]
  · intro f stack restR hc hl hig
    rw [List.append_assoc, hrefE f stack ([s] ++ restR) hc hl hig]
    conv => lhs; unfold refLoop
    simp only [List.cons_append, List.nil_append]
    rw [ref_suffix_stepK _ stack _ q s restR hs hq (by cases ls <;> simp)]
    simp only [Outcome.bind, List.length_append, List.length_cons, List.length_nil, if_true]
    have hcong : ∀ i ∈ E.inorder, dfOf stE.nodes i = dfOf st1.nodes i := by
      intro i hi
      have := hdefs1 i (hinvE.n.mem i hi).2
      simp only [dfOf, this]
    have hcur : attach Table.gen q false (getDefinition s.type).1 (pos + e.length) (toRG (dfOf stE.nodes) E) =
        toRG (dfOf st1.nodes) (insertC cb (prioAt stE.nodes) q false stE.nodes.size s.col .nil E) := by
      rw [toRG_congr _ _ E hcong, ← hdn, hscol]
      apply insertC_toRG_nil (dfOf st1.nodes) (prioAt stE.nodes) q false stE.nodes.size (pos + e.length) cb
        (by rw [hdn]; exact hnb) E
      · intro i hi
        rw [← hcong i hi]
        exact prio_dfOf hinvE.n.prios (hinvE.n.mem i hi).2
      · exact hinvE.spine.congr hcong
    rw [hcur]
    rfl

theorem OpdRes.transfer {s s' s2 : PState} {sub : Tree} {cb : Nat} (h : OpdRes s s2 sub cb) (h1 : s'.nodes = s.nodes)
    (h2 : s'.nextParent = s.nextParent) (h3 : s'.groupStack = s.groupStack) (h4 : s'.currentGroup = s.currentGroup) :
    OpdRes s' s2 sub cb :=
  ⟨by rw [h1]; exact h.below, by rw [h1]; exact h.size, by rw [h1, h2]; exact h.tree, by rw [h1]; exact h.inord, h.nnl,
    by rw [h3]; exact h.gs, by rw [h4]; exact h.cg, h.bot, h.spine, h.prios, h.prev, h.ready⟩

/-- an expression followed by a binary operator and its right operand -/
theorem expr_bin {c1 c2 : Nat} {inG : Bool} {e x ws1 ws2 : List PToken} {ls : Bool} {o : PToken} (he : ExprOK c1 inG e ls)
    (hx : OpdOK c2 x)
    (ho : isBin3Tok o = true) (hw1 : ∀ w ∈ ws1, isTriviaTok w = true) (hw2 : ∀ w ∈ ws2, isTriviaTok w = true)
    (hxne : x ≠ []) :
    ExprOK (c1 + c2) inG (e ++ (ws1 ++ (o :: (ws2 ++ x)))) false := by
  intro st0 ug p base hO hfs hprios hcg hk hsp pos hnum rest
  -- positions
  have hnume := numbered_prefix e _ pos hnum
  have hnum1 := numbered_append e _ pos hnum
  have hnum2 := numbered_append ws1 _ _ hnum1
  have hocol : o.col = pos + e.length + ws1.length := hnum2.1
  have hnum3 := numbered_append ws2 x _ hnum2.2
  -- the expression so far
  obtain ⟨stE, E, re, cb, hloopE, hinvE, hgsE, hcgE, ho1E, ho2E, hrdE, hcntE, hrefE⟩ :=
    he st0 ug p base hO hfs hprios hcg hk hsp pos hnume (ws1 ++ (o :: (ws2 ++ x)) ++ rest)
  -- trivia, operator
  obtain ⟨stE', hloopW1, hinvE', hnE', hgsE', hcgE'⟩ := trivia_runU ws1 stE ((o :: (ws2 ++ x)) ++ rest) hinvE hw1
  obtain ⟨q, st1, hq, h1, hO1, hprios1, hs1, hgs1, hcg1, habove1, hK⟩ := bin_stepU hinvE' ho
  -- trivia, operand
  obtain ⟨st1', hloopW2, hO1', hn1', hnp1', hll1', hgs1', hcg1'⟩ :=
    trivia_runB ws2 st1 ug (x ++ rest) hO1 (by omega) hw2 (by simp [hxne])
  have hcg1ok : CGOK st1' := by
    unfold CGOK at hcg ⊢
    rw [hcg1', hgs1', hcg1, hgs1, hcgE', hgsE', hcgE, hgsE]; exact hcg
  obtain ⟨st2, sub, cb', P, hloopX, hres, hP, hcntX, hrefX⟩ :=
    hx st1' ug hO1' (by rw [hn1']; exact hprios1) hcg1ok _ hnum3 rest
  have hres1 : OpdRes st1 st2 sub cb' := hres.transfer hn1'.symm hnp1'.symm hgs1'.symm hcg1'.symm
  obtain ⟨re', hinv2, hdefs2, ho12, ho22, hdn⟩ := hK st2 sub cb' hres1
  rw [hnE'] at hinv2 hdefs2 ho12 ho22 hdn
  have hbo := bin3_prio20 o.type (by unfold isBin3Tok at ho; exact ho)
  obtain ⟨_, _, _, hnb⟩ := hbo
  refine ⟨st2, _, re', cb', ?_, hinv2, ?_, ?_, fun j hj => by rw [ho22 j hj, ho1E j hj],
    fun j hj => by rw [ho12 j hj, ho2E j hj], fun _ => hres.ready, ?_, ?_⟩
  rotate_left 3
  · -- the node count
    rw [insertC_inorder]
    simp only [List.length_append, List.length_cons]
    rw [hn1'] at hcntX
    rw [hnE'] at hs1
    omega
  rotate_right 3
  · -- the loop
    have e1 : e ++ (ws1 ++ (o :: (ws2 ++ x))) ++ rest = e ++ (ws1 ++ (o :: (ws2 ++ x)) ++ rest) := by simp
    have e2 : ws1 ++ (o :: (ws2 ++ x)) ++ rest = ws1 ++ ((o :: (ws2 ++ x)) ++ rest) := by simp
    rw [e1, hloopE, e2, hloopW1]
    simp only [List.cons_append, loop]
    have he' : (ws2 ++ x ++ rest).isEmpty = false := by
      cases ws2 <;> cases x <;> simp_all
    rw [he', h1]
    simp only [Outcome.bind]
    rw [List.append_assoc, hloopW2, hloopX]
  · rw [hres1.gs, hgs1, hgsE', hgsE]
  · rw [hres1.cg, hcg1, hcgE', hcgE]
  · -- the reference parser
    intro f stack restR hc hl hig
    have e1 : e ++ (ws1 ++ (o :: (ws2 ++ x))) ++ restR = e ++ (ws1 ++ (o :: (ws2 ++ x ++ restR))) := by simp
    rw [e1, hrefE f stack _ hc hl hig]
    obtain ⟨b1, hb1⟩ := ref_skipK ws1
      { f with cur := toRG (dfOf stE.nodes) E, last := if ls then .suffix else .operand, ws := false, prevSep := false }
      stack (pos + e.length) (o :: (ws2 ++ x ++ restR)) hw1
    rw [hb1]
    conv => lhs; unfold refLoop
    rw [ref_op_stepK _ stack _ q o _ ho hq (by cases ls <;> simp)]
    simp only [Outcome.bind]
    obtain ⟨b2, hb2⟩ := ref_skipK ws2
      { f with cur := attach Table.gen q ((getDefinition o.type).2 == .binaryRightToLeft) (getDefinition o.type).1
                        (pos + e.length + ws1.length) (toRG (dfOf stE.nodes) E),
               last := lastAfter (getDefinition o.type).2, ws := false, prevSep := false }
      stack (pos + e.length + ws1.length + 1) (x ++ restR) hw2
    rw [List.append_assoc, hb2, hrefX _ stack restR (lastAfter_open _)]
    have hcong : ∀ i ∈ E.inorder, dfOf stE.nodes i = dfOf st2.nodes i := by
      intro i hi
      have := hdefs2 i (hinvE.n.mem i hi).2
      simp only [dfOf, this]
    have habove : aboveDef st1' = dfOf st2.nodes stE.nodes.size := by
      rw [hdn, ← habove1]; unfold aboveDef; rw [hn1']
    have hcur : P (attach Table.gen q ((getDefinition o.type).2 == .binaryRightToLeft) (getDefinition o.type).1
          (pos + e.length + ws1.length) (toRG (dfOf stE.nodes) E)) =
        toRG (dfOf st2.nodes) (insertC cb (prioAt stE.nodes) q ((getDefinition o.type).2 == .binaryRightToLeft)
          stE.nodes.size o.col sub E) := by
      rw [toRG_congr _ _ E hcong, ← hdn, hocol]
      apply insertC_toRG (dfOf st2.nodes) (prioAt stE.nodes) q _ stE.nodes.size (pos + e.length + ws1.length) sub cb P
        (by rw [← habove]; exact hP) (by rw [hdn]; exact hnb) E
      · intro i hi
        rw [← hcong i hi]
        exact prio_dfOf hinvE.n.prios (hinvE.n.mem i hi).2
      · exact hinvE.spine.congr hcong
    rw [hcur]
    have hlen : pos + e.length + ws1.length + 1 + ws2.length + x.length =
        pos + (e ++ (ws1 ++ (o :: (ws2 ++ x)))).length := by
      simp only [List.length_append, List.length_cons]; omega
    rw [hlen]
    rfl

end Garnish.Spec
