/-
`LayoutOK` (the data block ends inside the heap) is kept by every operation of the Basic store interface: pushes move
the custom block along with the growth step, everything else leaves the geometry of the data block alone.
-/
import Garnish.Lemmas.BasicList3
set_option linter.unusedSimpArgs false
set_option linter.unusedVariables false
set_option maxHeartbeats 2000000
namespace Garnish.Lemmas.Runtime.Basic
open Garnish Gen Garnish.Model.Equality Garnish.Model.Runtime Garnish.Model.Runtime.Basic Garnish.BasicOpt
open Garnish.Lemmas.Runtime Garnish.Lemmas.EqualityRefine

variable {F : Type}

theorem layout_heads {s : Store} (hl : LayoutOK s) (r v f : Option Nat) :
    LayoutOK { s with currentRegister := r, currentValue := v, currentFrame := f } := hl

theorem copyCells_layout : ∀ (n : Nat) (s s' : Store) (i : Nat), LayoutOK s → Store.copyCells s i n = .ok s' → LayoutOK s'
  | 0, s, s', i, hl, h => by simp only [Store.copyCells, Outcome.ok.injEq] at h; subst h; exact hl
  | n + 1, s, s', i, hl, h => by
    simp only [Store.copyCells, BasicOpt.bind_eq_ok] at h
    obtain ⟨c, _, ⟨s1, i1⟩, hp, h2⟩ := h
    exact copyCells_layout n s1 s' (i + 1) (push_layout hl hp) h2

theorem pushRegister_layout {s s' : Store} {v : Nat} (hl : LayoutOK s) (h : Store.pushRegister s v = .ok s') : LayoutOK s' := by
  simp only [Store.pushRegister, BasicOpt.bind_eq_ok, BasicOpt.pure_eq_ok] at h
  obtain ⟨⟨s1, i⟩, hp, hs'⟩ := h
  subst hs'
  have : LayoutOK s1 := by
    cases hr : s.currentRegister <;> (rw [hr] at hp; exact push_layout hl hp)
  exact this

theorem pushValue_layout {s s' : Store} {v : Nat} (hl : LayoutOK s) (h : Store.pushValue s v = .ok s') : LayoutOK s' := by
  simp only [Store.pushValue, BasicOpt.bind_eq_ok, BasicOpt.pure_eq_ok] at h
  obtain ⟨⟨s1, i⟩, hp, hs'⟩ := h
  subst hs'
  have : LayoutOK s1 := by
    cases hr : s.currentValue <;> (rw [hr] at hp; exact push_layout hl hp)
  exact this

theorem pushFrame_layout {s s' : Store} {j : Nat} (hl : LayoutOK s) (h : Store.pushFrame s j = .ok s') : LayoutOK s' := by
  simp only [Store.pushFrame, BasicOpt.bind_eq_ok, BasicOpt.pure_eq_ok] at h
  obtain ⟨⟨s1, i1⟩, hp1, ⟨s2, i2⟩, hp2, hs'⟩ := h
  subst hs'
  have h2 : LayoutOK s2 := push_layout (push_layout hl hp1) hp2
  exact h2

theorem popRegister_layout {s s' : Store} {o : Option Nat} (hl : LayoutOK s) (h : Store.popRegister s = .ok (s', o)) :
    LayoutOK s' := by
  unfold Store.popRegister at h
  split at h
  · simp only [Outcome.ok.injEq, Prod.mk.injEq] at h; rw [← h.1]; exact hl
  · simp only [BasicOpt.bind_eq_ok] at h
    obtain ⟨c, _, h⟩ := h
    split at h <;> first
      | (cases h; done)
      | (simp only [BasicOpt.pure_eq_ok, Prod.mk.injEq] at h; rw [← h.1]; exact hl)

theorem popFrame_layout {s s' : Store} {o : Option Nat} (hl : LayoutOK s) (h : Store.popFrame s = .ok (s', o)) :
    LayoutOK s' := by
  unfold Store.popFrame at h
  split at h
  · simp only [Outcome.ok.injEq, Prod.mk.injEq] at h; rw [← h.1]; exact hl
  · simp only [BasicOpt.bind_eq_ok] at h
    obtain ⟨ret, _, c, _, h⟩ := h
    split at h <;> first
      | (cases h; done)
      | (simp only [BasicOpt.pure_eq_ok, Prod.mk.injEq] at h; rw [← h.1]; exact hl)

theorem popValue_layout {s : Store} (hl : LayoutOK s) : LayoutOK (Store.popValue s).1 := by
  unfold Store.popValue
  split
  · exact hl
  · split <;> exact hl

theorem setCurrentValue_layout {s s' : Store} {v : Nat} (hl : LayoutOK s) (h : Store.setCurrentValue s v = .ok s') :
    LayoutOK s' := by
  unfold Store.setCurrentValue at h
  split at h
  · cases h
  · split at h
    · exact (setCell_geo h).layout hl
    · exact (setCell_geo h).layout hl
    · cases h

theorem mergeToSymbolList_layout {s s' : Store} {a b i : Nat} (hl : LayoutOK s)
    (h : Store.mergeToSymbolList s a b = .ok (s', i)) : LayoutOK s' := by
  simp only [Store.mergeToSymbolList, BasicOpt.bind_eq_ok] at h
  obtain ⟨ca, _, cb, _, h⟩ := h
  split at h
  · simp only [BasicOpt.bind_eq_ok, BasicOpt.pure_eq_ok, Prod.mk.injEq] at h
    obtain ⟨⟨s1, i1⟩, hp, s2, hc1, s3, hc2, hs', _⟩ := h
    subst hs'
    exact copyCells_layout _ _ _ _ (copyCells_layout _ _ _ _ (push_layout hl hp) hc1) hc2
  · split at h
    · simp only [BasicOpt.bind_eq_ok, BasicOpt.pure_eq_ok, Prod.mk.injEq] at h
      obtain ⟨⟨s1, i1⟩, hp, s2, hc1, ⟨s3, i3⟩, hp3, hs', _⟩ := h
      subst hs'
      exact push_layout (copyCells_layout _ _ _ _ (push_layout hl hp) hc1) hp3
    · exact push_layout hl h
  · split at h
    · simp only [BasicOpt.bind_eq_ok, BasicOpt.pure_eq_ok, Prod.mk.injEq] at h
      obtain ⟨⟨s1, i1⟩, hp, ⟨s2, i2⟩, hp2, s3, hc2, hs', _⟩ := h
      subst hs'
      exact copyCells_layout _ _ _ _ (push_layout (push_layout hl hp) hp2) hc2
    · exact push_layout hl h
  · split at h
    · simp only [BasicOpt.bind_eq_ok, BasicOpt.pure_eq_ok, Prod.mk.injEq] at h
      obtain ⟨⟨s1, i1⟩, hp, ⟨s2, i2⟩, hp2, ⟨s3, i3⟩, hp3, hs', _⟩ := h
      subst hs'
      exact push_layout (push_layout (push_layout hl hp) hp2) hp3
    · exact push_layout hl h

/-! ### the lifted operations -/

theorem liftAdd_layout {f : Store → Outcome (Store × Nat)} (hf : ∀ s s' a, LayoutOK s → f s = .ok (s', a) → LayoutOK s')
    {st st' : BState} {a : Nat} (hl : LayoutOK st.store) (h : liftAdd f st = .ok (a, st')) : LayoutOK st'.store := by
  unfold liftAdd at h
  split at h
  · rename_i s' a' heq
    simp only [Outcome.ok.injEq, Prod.mk.injEq] at h
    rw [← h.2]; exact hf _ _ _ hl heq
  all_goals cases h

theorem liftUnit_layout {f : Store → Outcome Store} (hf : ∀ s s', LayoutOK s → f s = .ok s' → LayoutOK s')
    {st st' : BState} (hl : LayoutOK st.store) (h : liftUnit f st = .ok ((), st')) : LayoutOK st'.store := by
  unfold liftUnit at h
  split at h
  · rename_i s' heq
    simp only [Outcome.ok.injEq, Prod.mk.injEq] at h
    rw [← h.2]; exact hf _ _ hl heq
  all_goals cases h

theorem liftPop_layout {f : Store → Outcome (Store × Option Nat)}
    (hf : ∀ s s' o, LayoutOK s → f s = .ok (s', o) → LayoutOK s')
    {st st' : BState} {o : Option Nat} (hl : LayoutOK st.store) (h : liftPop f st = .ok (o, st')) :
    LayoutOK st'.store := by
  unfold liftPop at h
  split at h
  · rename_i s' o' heq
    simp only [Outcome.ok.injEq, Prod.mk.injEq] at h
    rw [← h.2]; exact hf _ _ _ hl heq
  all_goals cases h

end Garnish.Lemmas.Runtime.Basic
