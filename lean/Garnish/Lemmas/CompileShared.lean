/-
C20 at the compile level, lemmas: what is `Located` in a program stays `Located` in every program that extends it
(same instructions, jump entries, constants wherever the smaller one has them); the layout loop extends the state it
starts from, whatever it compiles; and the whole-program run theorem for a body named by an arbitrary jump entry.
-/
import Garnish.Lemmas.CompileRun4
import Garnish.Lemmas.CompileComplete
import Garnish.Props.C20
namespace Garnish.Abs
open Garnish Gen Garnish.Spec Garnish.Props.C20

variable {F : Type}

theorem InstrsAt_extends {P P' : Prog F} (h : Extends P P') : ∀ {l : List Instr} {pc : Nat}, InstrsAt P pc l → InstrsAt P' pc l
  | [], _, _ => trivial
  | _ :: _, _, hi => ⟨h.instrs _ _ hi.1, InstrsAt_extends h hi.2⟩

mutual
theorem Located_extends {P P' : Prog F} (h : Extends P P') (root cur : Nat) : ∀ (e : Expr F) (pc : Nat),
    Located P root cur pc e → Located P' root cur pc e
  | .lit v, pc, hl => by
    simp only [Located] at hl ⊢; obtain ⟨k, h1, h2⟩ := hl; exact ⟨k, h.instrs _ _ h1, h.consts _ _ h2⟩
  | .input, pc, hl => by simp only [Located] at hl ⊢; exact h.instrs _ _ hl
  | .ident sym, pc, hl => by
    simp only [Located] at hl ⊢; obtain ⟨k, h1, h2⟩ := hl; exact ⟨k, h.instrs _ _ h1, h.consts _ _ h2⟩
  | .nested id, pc, hl => by
    simp only [Located] at hl ⊢; obtain ⟨k, h1, h2⟩ := hl; exact ⟨k, h.instrs _ _ h1, h.consts _ _ h2⟩
  | .emptyNested, pc, hl => by
    simp only [Located] at hl ⊢; obtain ⟨k, h1, h2⟩ := hl; exact ⟨k, h.instrs _ _ h1, h.consts _ _ h2⟩
  | .unary op x, pc, hl => by
    simp only [Located] at hl ⊢; exact ⟨Located_extends h root cur x _ hl.1, h.instrs _ _ hl.2⟩
  | .binary op l r, pc, hl => by
    simp only [Located] at hl ⊢
    exact ⟨Located_extends h root cur l _ hl.1, Located_extends h root cur r _ hl.2.1, h.instrs _ _ hl.2.2⟩
  | .pair l r, pc, hl => by
    simp only [Located] at hl ⊢
    exact ⟨Located_extends h root cur r _ hl.1, Located_extends h root cur l _ hl.2.1, h.instrs _ _ hl.2.2⟩
  | .applyTo x f, pc, hl => by
    simp only [Located] at hl ⊢
    exact ⟨Located_extends h root cur f _ hl.1, Located_extends h root cur x _ hl.2.1, h.instrs _ _ hl.2.2⟩
  | .list items, pc, hl => by
    simp only [Located] at hl ⊢; exact ⟨LocatedList_extends h root cur items _ hl.1, h.instrs _ _ hl.2⟩
  | .cond onTrue c t, pc, hl => by
    simp only [Located] at hl ⊢
    obtain ⟨hc, j, join, tb, h1, h2, h3, h4, h5, h6, h7⟩ := hl
    rw [termsAfter_jump] at h7
    exact ⟨Located_extends h root cur c _ hc, j, join, tb, h.instrs _ _ h1, h.instrs _ _ h2, h.jumps _ _ h3, h.jumps _ _ h4, h5,
      Located_extends h j cur t _ h6, by rw [termsAfter_jump]; exact InstrsAt_extends h h7⟩
  | .and l r, pc, hl => by
    simp only [Located] at hl ⊢
    obtain ⟨hc, j, join, tb, h1, h3, h4, h5, h6, h7⟩ := hl
    rw [termsAfter_tis] at h7
    exact ⟨Located_extends h root cur l _ hc, j, join, tb, h.instrs _ _ h1, h.jumps _ _ h3, h.jumps _ _ h4, h5,
      Located_extends h j cur r _ h6, by rw [termsAfter_tis]; exact InstrsAt_extends h h7⟩
  | .or l r, pc, hl => by
    simp only [Located] at hl ⊢
    obtain ⟨hc, j, join, tb, h1, h3, h4, h5, h6, h7⟩ := hl
    rw [termsAfter_tis] at h7
    exact ⟨Located_extends h root cur l _ hc, j, join, tb, h.instrs _ _ h1, h.jumps _ _ h3, h.jumps _ _ h4, h5,
      Located_extends h j cur r _ h6, by rw [termsAfter_tis]; exact InstrsAt_extends h h7⟩
  | .seq a b, pc, hl => by
    simp only [Located] at hl ⊢
    exact ⟨Located_extends h root cur a _ hl.1, h.instrs _ _ hl.2.1, Located_extends h root cur b _ hl.2.2⟩
  | .sideAfter x b, pc, hl => by
    simp only [Located] at hl ⊢
    exact ⟨Located_extends h root cur x _ hl.1, h.instrs _ _ hl.2.1, Located_extends h root cur b _ hl.2.2.1,
      h.instrs _ _ hl.2.2.2⟩
  | .reapply x, pc, hl => by
    simp only [Located] at hl ⊢
    exact ⟨Located_extends h root cur x _ hl.1, h.instrs _ _ hl.2.1, h.instrs _ _ hl.2.2⟩
  | .prefixApply sym x, pc, hl => by
    simp only [Located] at hl ⊢
    obtain ⟨⟨k, h1, h2⟩, h3, h4⟩ := hl
    exact ⟨⟨k, h.instrs _ _ h1, h.consts _ _ h2⟩, Located_extends h root cur x _ h3, h.instrs _ _ h4⟩
  | .suffixApply x sym, pc, hl => by
    simp only [Located] at hl ⊢
    obtain ⟨⟨k, h1, h2⟩, h3, h4⟩ := hl
    exact ⟨⟨k, h.instrs _ _ h1, h.consts _ _ h2⟩, Located_extends h root cur x _ h3, h.instrs _ _ h4⟩
  | .infixApply a sym b, pc, hl => by
    simp only [Located] at hl ⊢
    obtain ⟨⟨k, h1, h2⟩, h3, h4, h5, h6⟩ := hl
    exact ⟨⟨k, h.instrs _ _ h1, h.consts _ _ h2⟩, Located_extends h root cur a _ h3, Located_extends h root cur b _ h4,
      h.instrs _ _ h5, h.instrs _ _ h6⟩
  | .chain arms none, pc, hl => by
    rw [Located_chain] at hl ⊢
    obtain ⟨join, h1, h2, h3⟩ := hl
    refine ⟨join, LocatedArms_extends h root cur join arms _ h1, ?_, fun hne => ⟨h.jumps _ _ (h3 hne).1, (h3 hne).2⟩⟩
    cases arms with
    | nil => exact h.instrs _ _ h2
    | cons a as => trivial
  | .chain arms (some e), pc, hl => by
    rw [Located_chain] at hl ⊢
    obtain ⟨join, h1, h2, h3⟩ := hl
    exact ⟨join, LocatedArms_extends h root cur join arms _ h1, Located_extends h root cur e _ h2,
      fun hne => ⟨h.jumps _ _ (h3 hne).1, (h3 hne).2⟩⟩

theorem LocatedList_extends {P P' : Prog F} (h : Extends P P') (root cur : Nat) : ∀ (items : List (Expr F)) (pc : Nat),
    LocatedList P root cur pc items → LocatedList P' root cur pc items
  | [], _, _ => by simp [LocatedList]
  | x :: xs, pc, hl => by
    simp only [LocatedList] at hl ⊢
    exact ⟨Located_extends h root cur x _ hl.1, LocatedList_extends h root cur xs _ hl.2⟩

theorem LocatedArms_extends {P P' : Prog F} (h : Extends P P') (root cur join : Nat) :
    ∀ (arms : List (Bool × Expr F × Expr F)) (pc : Nat),
    LocatedArms P root cur join pc arms → LocatedArms P' root cur join pc arms
  | [], _, _ => by simp [LocatedArms]
  | (b, c, t) :: rest, pc, hl => by
    simp only [LocatedArms] at hl ⊢
    obtain ⟨hc, ⟨j, tb, h1, h2, h3, h4⟩, hr⟩ := hl
    rw [termsAfter_jump] at h4
    exact ⟨Located_extends h root cur c _ hc, ⟨j, tb, h.instrs _ _ h1, h.jumps _ _ h2, Located_extends h j cur t _ h3,
      by rw [termsAfter_jump]; exact InstrsAt_extends h h4⟩, LocatedArms_extends h root cur join rest _ hr⟩
end

/-- every body laid out in `P` is laid out, at the same place, in every program that extends `P` -/
theorem Env_extends {P P' : Prog F} {bodies : List (Nat × Expr F)} (h : Extends P P') (env : Env P bodies) : Env P' bodies := by
  constructor
  intro id b hb
  obtain ⟨t, h1, h2, h3, h4⟩ := env.body id b hb
  exact ⟨t, h.jumps _ _ h1, Located_extends h id id b t h2, h3, h.instrs _ _ h4⟩

theorem _root_.Garnish.Props.C20.Extends.refl (P : Prog F) : Extends P P := ⟨fun _ _ h => h, fun _ _ h => h, fun _ _ h => h⟩

theorem _root_.Garnish.Props.C20.Extends.trans {A B C : Prog F} (h1 : Extends A B) (h2 : Extends B C) : Extends A C :=
  ⟨fun i x h => h2.instrs i x (h1.instrs i x h), fun i x h => h2.jumps i x (h1.jumps i x h),
   fun i x h => h2.consts i x (h1.consts i x h)⟩

/-! ### the layout loop extends its start state -/
section loop
variable (bodies : List (Nat × Expr F))

theorem layoutRoot_ev {s : LState F} {r : Root F} {rest : List (Root F)} (inv : Inv s) (hp : s.pending = r :: rest) :
    Ev s (layoutRoot bodies r { s with pending := rest }) := by
  have hr_mem : r ∈ s.pending := by rw [hp]; exact List.mem_cons_self
  have hrest : ∀ q ∈ rest, q ∈ s.pending := fun q hq => by rw [hp]; exact List.mem_cons_of_mem _ hq
  rw [layoutRoot_eq]
  simp only
  generalize hs1 : LState.mk s.instrs (s.jumps.setIfInBounds r.patch s.instrs.size) s.consts rest (r :: s.done)
    s.depths (s.pendDep.headD 0) s.pendDep.tail = s1
  have s1_instrs : s1.instrs = s.instrs := by rw [← hs1]
  have s1_consts : s1.consts = s.consts := by rw [← hs1]
  have s1_jumps : s1.jumps = s.jumps.setIfInBounds r.patch s.instrs.size := by rw [← hs1]
  have s1_jsize : s1.jumps.size = s.jumps.size := by rw [s1_jumps]; simp
  have s1_pending : s1.pending = rest := by rw [← hs1]
  have hcont1 : r.containing < s1.jumps.size := by rw [s1_jsize]; exact inv.cont r hr_mem
  generalize hs2 : bodyState bodies r s1 = s2
  have p12 : Pre s1 s2 := by
    rw [← hs2]
    simp only [bodyState]
    cases rootBody bodies r with
    | none => exact .refl s1
    | some b => exact (emit_pre r.patch r.containing b s1 hcont1).1
  have p1' : Pre s1 (addTerms s.instrs.size s2.instrs.back? r.term s2) := p12.trans (addTerms_pre _ _ _ _)
  refine ⟨fun i hi => ?_, ?_, fun i hi => ?_, ?_, fun i hi hn => ?_, ?_, fun q hq => ?_⟩
  · rw [p1'.instrs i (by rw [s1_instrs]; exact hi), s1_instrs]
  · have := p1'.isize; rw [s1_instrs] at this; exact this
  · rw [p1'.consts i (by rw [s1_consts]; exact hi), s1_consts]
  · have := p1'.csize; rw [s1_consts] at this; exact this
  · rw [p1'.jumps i (by rw [s1_jsize]; exact hi), s1_jumps]
    have : r.patch ≠ i := hn r hr_mem
    simp [this]
  · have := p1'.jsize; omega
  · rcases p1'.pend q hq with h | ⟨h, _⟩
    · rw [s1_pending] at h; exact .inl (hrest q h)
    · exact .inr (by omega)

/-- the layout loop only appends, and overwrites only placeholders of roots that were pending — whatever it compiles -/
theorem layoutRoots_ev : ∀ (fuel : Nat) (s : LState F), Inv s → Ev s (layoutRoots bodies fuel s)
  | 0, s, _ => .refl s
  | fuel + 1, s, inv => by
    cases hp : s.pending with
    | nil => simp only [layoutRoots, hp]; exact .refl s
    | cons r rest =>
      simp only [layoutRoots, hp]
      obtain ⟨inv', _⟩ := layoutRoot_facts bodies inv hp
      exact (layoutRoot_ev bodies inv hp).trans (layoutRoots_ev fuel _ inv')

/-- every root laid out from `s` on gets a jump entry `≥ lo` (when the pending ones have) that points at or after
the instructions `s` holds -/
theorem roots_range (lo : Nat) : ∀ (fuel : Nat) (s : LState F), Inv s →
    (layoutRoots bodies fuel s).pending = [] →
    (∀ q ∈ (layoutRoots bodies fuel s).done, LabelOK q) →
    ((layoutRoots bodies fuel s).done.map (·.patch)).Nodup →
    (∀ r ∈ s.pending, lo ≤ r.patch) → lo ≤ s.jumps.size →
    ∀ r ∈ (layoutRoots bodies fuel s).done, r ∈ s.done ∨
      (lo ≤ r.patch ∧ ∃ t, (layoutRoots bodies fuel s).jumps[r.patch]? = some t ∧ s.instrs.size ≤ t)
  | 0, s, _, _, _, _, _, _ => fun r hr => .inl hr
  | fuel + 1, s, inv, hc, hlab, hnd, hlo, hjs => by
    cases hp : s.pending with
    | nil => intro r hr; simp only [layoutRoots, hp] at hr; exact .inl hr
    | cons r0 rest =>
      have hj := head_jump bodies inv hp hc hlab hnd
      obtain ⟨inv', _, hjs', hpend', hdone', _, _, hisz'⟩ := layoutRoot_facts bodies inv hp
      simp only [layoutRoots, hp] at hc hlab hnd hj ⊢
      have ih := roots_range lo fuel _ inv' hc hlab hnd (fun q hq => by
        rcases hpend' q hq with h | h
        · exact hlo q (by rw [hp]; exact List.mem_cons_of_mem _ h)
        · omega) (by omega)
      intro r hr
      rcases ih r hr with h | ⟨h1, t, h2, h3⟩
      · rw [hdone'] at h
        simp only [List.mem_cons] at h
        rcases h with rfl | h
        · exact .inr ⟨hlo r (by rw [hp]; exact List.mem_cons_self), _, hj, Nat.le_refl _⟩
        · exact .inl h
      · exact .inr ⟨h1, t, h2, by omega⟩

end loop

end Garnish.Abs
