/-
C04, builder half — evaluation order, part 6: the arrangement of every handler agrees with `layout` (`conf_layout`), and
the concrete phase updates of Lemmas/BuildTotal* are steps (`mkStep`, `mkStep_cond`, `mkStep_else`).
-/
import Garnish.Lemmas.BuildSeq5
namespace Garnish.Lemmas.BuildSeq
open Garnish Garnish.Gen Garnish.Model.Parser Garnish.Model.Literals Garnish.Model.Build Garnish.Lemmas.Build
open Garnish.Lemmas.BuildTotal
open Garnish.Lemmas.BuildOrder (Above above_append_left above_append_mem above_append_right above_mem above_irrefl
  above_top_false above_init Attr Moving nm1 nm2 nm3 nmr nm23 nm123 get_append attr_append children_fresh nodup_init)

variable {F : Type} {root : Nat} {tree : Array ParseNode} {G : Nat → Prop} {m0 : Nat}

/-! ### the arrangement -/

/-- the arrangement pushed by the first visit, bottom first -/
def sufOf (k : Lay) (ni : Nat) (ol or_ : Option Nat) : List Nat :=
  match k with
  | .lrn => ni :: (or_.toList ++ ol.toList)
  | .rln => ni :: (ol.toList ++ or_.toList)
  | .lnr => or_.toList ++ ni :: ol.toList
  | .ln => ni :: ol.toList
  | .rn => ni :: or_.toList
  | .gr => or_.toList
  | .none => []

/-- the children pushed by the first visit -/
def csOf (k : Lay) (ol or_ : Option Nat) : List Nat :=
  match k with
  | .lrn | .rln | .lnr => or_.toList ++ ol.toList
  | .ln => ol.toList
  | .rn | .gr => or_.toList
  | .none => []

/-- what the order invariant needs to know about the arrangement pushed by a visit -/
structure Conf (tree : Array ParseNode) (ni : Nat) (vni : Phase) (cs suf : List Nat) : Prop where
  hinl : ∀ c, c ∈ cs → ILink tree ni c
  hord : ∀ a b, Ord tree ni a b → a ∈ cs → b ∈ cs ∧ Above suf a b
  hpre : ∀ c, PreC tree ni c → c ∈ cs → vni = .p2 ∧ Above suf c ni
  hpost : ∀ c, PostC tree ni c → c ∈ cs → Above suf ni c

theorem conf_nil (tree : Array ParseNode) (ni : Nat) (vni : Phase) (suf : List Nat) : Conf tree ni vni [] suf :=
  ⟨(fun c hc => by cases hc), (fun a b _ hc => by cases hc), (fun c _ hc => by cases hc), (fun c _ hc => by cases hc)⟩

theorem above_head {v u : Nat} {s2 : List Nat} (h : u ∈ s2) : Above (v :: s2) u v := ⟨[], s2, rfl, h⟩
theorem above_mid {w v u : Nat} {s2 : List Nat} (h : u ∈ s2) : Above (w :: v :: s2) u v := ⟨[w], s2, rfl, h⟩

theorem conf_layout {ni : Nat} {pn : ParseNode} (hpn : tree[ni]? = some pn) (ol or_ : Option Nat) (hl : pn.left = ol)
    (hr : pn.right = or_) (k : Lay) (hk : layout pn.definition = k) (vni : Phase) (hvk : k ≠ .gr → vni = .p2)
    (cs suf : List Nat) (hsuf : suf = sufOf k ni ol or_) (hcs : ∀ c, c ∈ cs ↔ c ∈ csOf k ol or_) : Conf tree ni vni cs suf := by
  subst hsuf
  refine ⟨fun c hc => ?_, fun a b hab ha => ?_, fun c hc hm => ?_, fun c hc hm => ?_⟩
  · have hm := (hcs c).1 hc
    refine ⟨pn, hpn, ?_⟩
    rw [hk, hl, hr]
    cases k <;> cases ol <;> cases or_ <;> simp [csOf] at hm <;> simp [inlL, inlR, hm]
    all_goals (rcases hm with h | h <;> simp [h])
  · obtain ⟨pn', L, R, h1, h2, h3, h4⟩ := hab
    rw [hpn] at h1; cases h1
    rw [hl] at h2; rw [hr] at h3
    subst h2; subst h3
    rw [hk] at h4
    rcases h4 with ⟨hk', ha', hb'⟩ | ⟨hk', ha', hb'⟩
    · subst hk'; subst ha'; subst hb'
      exact ⟨(hcs _).2 (by simp [csOf]), above_mid (by simp)⟩
    · subst ha'; subst hb'
      rcases hk' with hk' | hk' <;> subst hk'
      · exact ⟨(hcs _).2 (by simp [csOf]), above_mid (by simp)⟩
      · exact ⟨(hcs _).2 (by simp [csOf]), above_head (by simp)⟩
  · have hm' := (hcs c).1 hm
    obtain ⟨pn', h1, h2⟩ := hc
    rw [hpn] at h1; cases h1
    rw [hk, hl, hr] at h2
    have hg : k ≠ .gr := by
      intro e; subst e
      rcases h2 with ⟨_, h⟩ | ⟨_, h⟩ <;> simp [inlL, preR] at h
    refine ⟨hvk hg, ?_⟩
    cases k <;> cases ol <;> cases or_ <;> simp [inlL, preR] at h2 <;> simp [sufOf] <;>
      first
        | (subst h2; first | exact above_head (by simp) | exact above_mid (by simp))
        | (rcases h2 with h | h <;> subst h <;> first | exact above_head (by simp) | exact above_mid (by simp))
  · have hm' := (hcs c).1 hm
    obtain ⟨pn', h1, h2, h3⟩ := hc
    rw [hpn] at h1; cases h1
    rw [hk] at h3; subst h3
    rw [hr] at h2; subst h2
    cases ol <;> simp [sufOf] <;> exact above_head (by simp)

/-! ### the phase update of `step_inv` -/

theorem mkStep (V : Validated root tree G) {ph : Nat → Phase} {ctx ctx' : Ctx F} (hinv : Inv root tree G ph ctx)
    {ni : Nat} (hG : G ni) (hph : ph ni = .p1 ∨ ph ni = .p2) {pn : ParseNode} (hpn : tree[ni]? = some pn)
    {M M' : Array (Option Nat)}
    (vni : Phase) (hv : vni = .p2 ∨ vni = .p3) (hv2 : vni = .p2 → ph ni = .p1)
    (cs rs suf : List Nat) (asg : List (Nat × BuildNode)) (l : List (Option Nat))
    (hS : ctx'.stack.toList = ctx.stack.toList ++ suf) (hN : ctx'.nodes = assign ctx.nodes asg)
    (hM : M'.toList = M.toList ++ l) (hl : ∀ m, m ∈ l → m = none ∨ m = some ni)
    (hsufni : vni = .p2 → ni ∈ suf) (hsufcs : ∀ c, c ∈ cs → c ∈ suf)
    (hnodup' : ctx'.stack.toList.Nodup)
    (hcr : (cs ++ rs).Nodup)
    (hchild : ∀ c, c ∈ cs ++ rs → IsChild tree ni c ∧ (LateRight tree ni c → vni = .p3) ∧ (ph ni = .p2 → LateRight tree ni c))
    (hasgkeys : ∀ q, q ∈ asg → q.1 = ni ∨ (q.1 ∈ cs ++ rs ∧ q.2.state = .uninitialized))
    (hasgall : ∀ c, c ∈ cs ++ rs → ∃ b, (c, b) ∈ asg)
    (hcs1 : cs ≠ [] → ph ni = .p1) (conf : Conf tree ni vni cs suf)
    (hattr : some ni ∈ l → vni = .p3 ∨ pn.definition = .sideEffect) (hse : pn.definition = .sideEffect → some ni ∈ l)
    (hool : ∀ c, c ∈ rs → OolChild tree ni c) :
    Step root tree G ph (stepPhase ph ni vni cs rs) ctx ctx' ni pn vni cs rs suf l M M' := by
  have hfr := children_fresh V hinv hG hph (cs ++ rs) hchild
  have hdisj : ∀ c, c ∈ cs → c ∉ rs := fun c hc hr => (List.nodup_append.1 hcr).2.2 c hc c hr rfl
  refine ⟨V, hinv, hG, hph, hpn, hv, hv2, by simp [stepPhase], ?_, ?_, ?_, hS, hM, hl, hsufni, hsufcs, hnodup',
    (fun c hc => ⟨(hfr c (List.mem_append_left _ hc)).1, (hfr c (List.mem_append_left _ hc)).2.2.1,
      (hfr c (List.mem_append_left _ hc)).2.2.2⟩),
    (fun c hc => ⟨Or.inl (hfr c (List.mem_append_right _ hc)).1, (hfr c (List.mem_append_right _ hc)).2.2.1⟩),
    ?_, hcs1, conf.hinl, conf.hord, conf.hpre, conf.hpost, hattr, hse, fun c hc _ => hool c hc⟩
  · intro c hc
    have := (hfr c (List.mem_append_left _ hc)).2.2.1
    simp [stepPhase, this, hc]
  · intro c hc
    have h1 := (hfr c (List.mem_append_right _ hc)).2.2.1
    have h2 : c ∉ cs := fun hcc => hdisj c hcc hc
    simp [stepPhase, h1, h2, hc]
  · intro x hxn hx
    have h1 : x ∉ cs := fun hm => hx (List.mem_append_left _ hm)
    have h2 : x ∉ rs := fun hm => hx (List.mem_append_right _ hm)
    simp [stepPhase, hxn, h1, h2]
  · intro x bn hx _ hxn
    rw [hN] at hx
    rcases assign_get asg ctx.nodes x _ hx with ⟨b, hb, hvb⟩ | ⟨hold, hno⟩
    · cases hvb
      rcases hasgkeys _ hb with h | ⟨h1, h2⟩
      · exact absurd h hxn
      · exact ⟨fun _ => h2, fun hm => absurd h1 hm⟩
    · refine ⟨fun hm => ?_, fun _ => ⟨bn, hold, rfl⟩⟩
      obtain ⟨b, hb⟩ := hasgall x hm
      exact absurd hb (hno b)

end Garnish.Lemmas.BuildSeq
