/-
A decision procedure for the hypothesis `NoStale` of `optimize_wfq`, and the fact that stores whose links all lead
downwards (`WF`) satisfy it.
-/
import Garnish.Lemmas.MutOptimize
namespace Garnish.BasicOpt
open Garnish

/-- `i` is on the input-value chain that starts at `head` (at most `fuel` cells are visited) -/
def chainMem (cells : Array Cell) : Nat → Option Nat → Nat → Bool
  | 0, _, _ => false
  | _ + 1, none, _ => false
  | fuel + 1, some h, i =>
    if h = i then svAt cells h else
    match cells[h]? with
    | some (.value p _) => chainMem cells fuel (some p) i
    | _ => false

theorem chainMem_sound (cells : Array Cell) : ∀ (fuel : Nat) (o : Option Nat) (i : Nat),
    chainMem cells fuel o i = true → OnHead cells o i
  | 0, _, _, h => by simp [chainMem] at h
  | _ + 1, none, _, h => by simp [chainMem] at h
  | fuel + 1, some hd, i, h => by
    simp only [chainMem] at h
    split at h
    · rename_i e
      subst e
      exact ⟨hd, rfl, .here h⟩
    · split at h
      · rename_i p v hc
        obtain ⟨h', e, hch⟩ := chainMem_sound cells fuel (some p) i h
        cases e
        exact ⟨hd, rfl, .there hc hch⟩
      · cases h

/-- no retained input-value cell off the current chain refers to data behind the retention count (decidable form) -/
def noStale (s : Store) : Bool :=
  (List.range s.retention).all (fun i =>
    match s.cells[i]? with
    | some (.value _ v) => decide (v < s.retention) || chainMem s.cells s.cells.size s.currentValue i
    | some (.valueRoot v) => decide (v < s.retention) || chainMem s.cells s.cells.size s.currentValue i
    | _ => true)

theorem noStale_sound {s : Store} (h : noStale s = true) : NoStale s := by
  intro i v hi hc
  simp only [noStale, List.all_eq_true, List.mem_range] at h
  have hh := h i hi
  rcases hc with ⟨p, hc⟩ | hc
  · simp only [hc, Bool.or_eq_true, decide_eq_true_eq] at hh
    exact hh.imp id (chainMem_sound _ _ _ _)
  · simp only [hc, Bool.or_eq_true, decide_eq_true_eq] at hh
    exact hh.imp id (chainMem_sound _ _ _ _)

/-- when every link leads downwards nothing is stale -/
theorem noStale_of_wf {s : Store} (hwf : WF s) : noStale s = true := by
  simp only [noStale, List.all_eq_true, List.mem_range]
  intro i hi
  have hlt : i < s.cells.size := by have := hwf.retLe; omega
  have hn := hwf.nodes i hlt
  cases hc : s.cells[i]? with
  | none => rfl
  | some c =>
    cases c <;> try rfl
    · rename_i p v
      have hsh : shape s.cells i = some ⟨.value 0 0, [], [p, v]⟩ := shape_of_solo hc rfl
      simp only [nodeOK, hsh, List.all_eq_true, Bool.and_eq_true, decide_eq_true_eq] at hn
      have := (hn v (by simp)).1
      simp only [Bool.or_eq_true, decide_eq_true_eq]
      exact Or.inl (by omega)
    · rename_i v
      have hsh : shape s.cells i = some ⟨.valueRoot 0, [], [v]⟩ := shape_of_solo hc rfl
      simp only [nodeOK, hsh, List.all_eq_true, Bool.and_eq_true, decide_eq_true_eq] at hn
      have := (hn v (by simp)).1
      simp only [Bool.or_eq_true, decide_eq_true_eq]
      exact Or.inl (by omega)

end Garnish.BasicOpt
