import Garnish.Lemmas.AccessList
import Garnish.Lemmas.AccessSimple
import Garnish.Model.AccessRuntime
namespace Garnish.Access.Runtime
open Garnish Garnish.Access
open Garnish.Gen (Ty)

/-! ### checked arithmetic -/

theorem numPlus_eq (a b : Int) : numPlus a b = if InRange (a + b) then .ok (a + b) else .err .number := rfl

/-- `range_len` fails with a number error exactly when `end - start` or `end - start + 1` leaves `i32` -/
theorem rangeLen_eq (s e : Int) :
    rangeLen s e = if InRange (e - s) ∧ InRange (e - s + 1) then .ok (e - s + 1) else .err .number := by
  unfold rangeLen numSub numInc numPlus
  by_cases h1 : InRange (e - s)
  · by_cases h2 : InRange (e - s + 1) <;> simp [h1, h2]
  · simp [h1]

theorem rangeLen_safe (s e : Int) : Safe (rangeLen s e) := by
  rw [rangeLen_eq]; split
  · exact safe_ok _
  · exact safe_err _

theorem numPlus_safe (a b : Int) : Safe (numPlus a b) := by
  unfold numPlus; split
  · exact safe_ok _
  · exact safe_err _

theorem numSub_safe (a b : Int) : Safe (numSub a b) := by
  unfold numSub; split
  · exact safe_ok _
  · exact safe_err _

theorem sizeToNumber_inRange (n : Nat) : InRange (sizeToNumber n) := by
  unfold sizeToNumber wrap InRange; omega

theorem sizeToNumber_le (n : Nat) : sizeToNumber n ≤ n := by
  unfold sizeToNumber wrap; omega

theorem sizeToNumber_small {n : Nat} (h : n ≤ 2147483647) : sizeToNumber n = n := by
  unfold sizeToNumber wrap; omega

/-! ### a data object whose accessors are total -/

/-- every accessor the runtime calls answers `Ok` or `Err`, and the numbers it hands out are `i32` values -/
structure Iface.OK (d : Iface) : Prop where
  typeOf : ∀ a, Safe (d.typeOf a)
  getPair : ∀ a, Safe (d.getPair a)
  getRange : ∀ a, Safe (d.getRange a)
  getSlice : ∀ a, Safe (d.getSlice a)
  getConcat : ∀ a, Safe (d.getConcat a)
  getNumber : ∀ a, Safe (d.getNumber a)
  numberInRange : ∀ a v, d.getNumber a = .ok v → InRange v
  getSymbol : ∀ a, Safe (d.getSymbol a)
  listLen : ∀ a, Safe (d.listLen a)
  listItem : ∀ a ix, Safe (d.listItem a ix)
  charLen : ∀ a, Safe (d.charLen a)
  charItem : ∀ a ix, Safe (d.charItem a ix)
  byteLen : ∀ a, Safe (d.byteLen a)
  byteItem : ∀ a ix, Safe (d.byteItem a ix)
  symLen : ∀ a, Safe (d.symLen a)
  symItem : ∀ a ix, Safe (d.symItem a ix)

/-- below its length a list always has an item (`get_list_item` never says `None` there): what keeps the
`unimplemented!` of `iterate_concatenation_mut` unreachable -/
def Iface.ListsTotal (d : Iface) : Prop :=
  ∀ r len i, d.listLen r = .ok len → i < len → d.listItem r (.int (sizeToNumber i)) ≠ .ok none

section
variable {d : Iface}

theorem getRangeNums_safe (ok : d.OK) (addr : Nat) : Safe (getRangeNums d addr) := by
  unfold getRangeNums
  apply safe_bind (ok.getRange addr); intro p _
  apply safe_bind (ok.typeOf _); intro ts _
  apply safe_bind (ok.typeOf _); intro te _
  split
  · apply safe_bind (ok.getNumber _); intro s _
    apply safe_bind (ok.getNumber _); intro e _
    exact safe_bind (rangeLen_safe _ _) (fun _ _ => safe_ok _)
  · exact safe_err _

theorem getRangeNums_inRange (ok : d.OK) {addr : Nat} {s e len : Int} (h : getRangeNums d addr = .ok (s, e, len)) :
    InRange s ∧ InRange e ∧ len = e - s + 1 ∧ InRange len := by
  unfold getRangeNums at h
  cases hr : d.getRange addr with
  | ok p =>
    rw [hr] at h; simp only [bind_ok] at h
    cases h1 : d.typeOf p.1 with
    | ok ts =>
      rw [h1] at h; simp only [bind_ok] at h
      cases h2 : d.typeOf p.2 with
      | ok te =>
        rw [h2] at h; simp only [bind_ok] at h
        split at h
        · cases h3 : d.getNumber p.1 with
          | ok s' =>
            rw [h3] at h; simp only [bind_ok] at h
            cases h4 : d.getNumber p.2 with
            | ok e' =>
              rw [h4] at h; simp only [bind_ok] at h
              rw [rangeLen_eq] at h
              split at h
              · rename_i hc
                simp only [bind_ok, Outcome.ok.injEq, Prod.mk.injEq] at h
                obtain ⟨rfl, rfl, rfl⟩ := h
                exact ⟨ok.numberInRange _ _ h3, ok.numberInRange _ _ h4, rfl, hc.2⟩
              · simp at h
            | err _ => rw [h4] at h; simp at h
            | panic _ => rw [h4] at h; simp at h
            | fuelOut => rw [h4] at h; simp at h
          | err _ => rw [h3] at h; simp at h
          | panic _ => rw [h3] at h; simp at h
          | fuelOut => rw [h3] at h; simp at h
        · simp at h
      | err _ => rw [h2] at h; simp at h
      | panic _ => rw [h2] at h; simp at h
      | fuelOut => rw [h2] at h; simp at h
    | err _ => rw [h1] at h; simp at h
    | panic _ => rw [h1] at h; simp at h
    | fuelOut => rw [h1] at h; simp at h
  | err _ => rw [hr] at h; simp at h
  | panic _ => rw [hr] at h; simp at h
  | fuelOut => rw [hr] at h; simp at h

theorem indexList_safe (ok : d.OK) (list : Nat) (ix : Int) : Safe (indexList d list ix) := by
  unfold indexList; split
  · exact safe_ok _
  · apply safe_bind (ok.listLen list); intro len _
    split
    · exact safe_ok _
    · apply safe_bind (ok.listItem _ _); intro r _
      split <;> exact safe_ok _

theorem indexCharList_safe (ok : d.OK) (list : Nat) (ix : Int) : Safe (indexCharList d list ix) := by
  unfold indexCharList; split
  · exact safe_ok _
  · apply safe_bind (ok.charLen list); intro len _
    split
    · exact safe_ok _
    · apply safe_bind (ok.charItem _ _); intro r _
      split <;> exact safe_ok _

theorem indexByteList_safe (ok : d.OK) (list : Nat) (ix : Int) : Safe (indexByteList d list ix) := by
  unfold indexByteList; split
  · exact safe_ok _
  · apply safe_bind (ok.byteLen list); intro len _
    split
    · exact safe_ok _
    · apply safe_bind (ok.byteItem _ _); intro r _
      split <;> exact safe_ok _

theorem indexSymbolList_safe (ok : d.OK) (list : Nat) (ix : Int) : Safe (indexSymbolList d list ix) := by
  unfold indexSymbolList; split
  · exact safe_ok _
  · apply safe_bind (ok.symLen list); intro len _
    split
    · exact safe_ok _
    · apply safe_bind (ok.symItem _ _); intro r _
      split <;> exact safe_ok _

/-- the scan of one list inside a concatenation: no panic as long as the list has an item below its length -/
theorem listScan_safe (ok : d.OK) (r : Nat) (index : Nat) (target : Int) {len : Nat}
    (tot : ∀ i, i < len → d.listItem r (.int (sizeToNumber i)) ≠ .ok none) :
    ∀ rem i, i + rem ≤ len → Safe (listScan d r index target rem i) := by
  intro rem
  induction rem with
  | zero => intro i _; exact safe_ok _
  | succ rem ih =>
    intro i hi
    unfold listScan
    simp only
    apply safe_bind (ok.listItem _ _); intro it hit
    cases it with
    | none => exact absurd hit (tot i (by omega))
    | some item =>
      simp only
      split
      · split
        · exact safe_ok _
        · exact ih _ (by omega)
      · exact safe_err _

/-- `iterate_concatenation_mut`: no panic while the running index stays a `usize`; `M` bounds the list lengths, so
that takes `2^64 / M` iterations -/
theorem concatFind_noPanic (ok : d.OK) (tot : d.ListsTotal) (target : Int) {M : Nat} (hM1 : 1 ≤ M)
    (hM : ∀ r len, d.listLen r = .ok len → len ≤ M) :
    ∀ fuel stack index, index + fuel * M ≤ USIZE_MAX → NoPanic (concatFind d target fuel stack index) := by
  intro fuel
  induction fuel with
  | zero => intro stack index _; cases stack <;> simp [concatFind, noPanic_ok, noPanic_fuelOut]
  | succ fuel ih =>
    intro stack index hb
    have hb' : index + M + fuel * M ≤ USIZE_MAX := by rw [Nat.succ_mul] at hb; omega
    cases stack with
    | nil => simp [concatFind, noPanic_ok]
    | cons r stack =>
      unfold concatFind
      apply noPanic_bind (ok.typeOf r).noPanic; intro t _
      split
      · apply noPanic_bind (ok.getConcat r).noPanic; intro p _
        exact ih _ _ (by omega)
      · apply noPanic_bind (ok.listLen r).noPanic; intro len hlen
        apply noPanic_bind (listScan_safe ok r index target (fun i hi => tot r len i hlen hi) len 0 (by omega)).noPanic
        intro f _
        split
        · exact noPanic_ok _
        · have := hM r len hlen
          rw [uadd_ok (by omega)]; simp only [bind_ok]
          exact ih _ _ (by omega)
      · split
        · exact noPanic_ok _
        · rw [uadd_ok (by omega)]; simp only [bind_ok]
          exact ih _ _ (by omega)

theorem indexConcatenation_noPanic (ok : d.OK) (tot : d.ListsTotal) {M : Nat} (hM1 : 1 ≤ M)
    (hM : ∀ r len, d.listLen r = .ok len → len ≤ M) {fuel : Nat} (hf : fuel * M ≤ USIZE_MAX) (addr : Nat) (ix : Int) :
    NoPanic (indexConcatenation d fuel addr ix) := by
  unfold indexConcatenation
  apply noPanic_bind (ok.getConcat addr).noPanic; intro p _
  exact concatFind_noPanic ok tot ix hM1 hM fuel _ 0 (by omega)

/-- `access_with_integer`: for every value, every `i32` index and every extent stored in a slice or range, `Ok`,
`Err` (a number error when `start + index` or a range length leaves `i32`) or — only inside a concatenation — the
model's fuel bound; never a panic -/
theorem accessWithInteger_noPanic (ok : d.OK) (tot : d.ListsTotal) {M : Nat} (hM1 : 1 ≤ M)
    (hM : ∀ r len, d.listLen r = .ok len → len ≤ M) {fuel : Nat} (hf : fuel * M ≤ USIZE_MAX) (ix : Int) (value : Nat) :
    NoPanic (accessWithInteger d fuel ix value) := by
  unfold accessWithInteger
  apply noPanic_bind (ok.typeOf value).noPanic; intro t _
  split
  · split
    · apply noPanic_bind (ok.getPair value).noPanic; intro p _
      apply noPanic_bind (ok.typeOf _).noPanic; intro tl _
      split <;> exact noPanic_ok _
    · exact noPanic_ok _
  · exact (indexList_safe ok _ _).noPanic
  · exact (indexCharList_safe ok _ _).noPanic
  · exact (indexByteList_safe ok _ _).noPanic
  · exact (indexSymbolList_safe ok _ _).noPanic
  · apply noPanic_bind (ok.getRange value).noPanic; intro p _
    apply noPanic_bind (ok.typeOf _).noPanic; intro ts _
    apply noPanic_bind (ok.typeOf _).noPanic; intro te _
    split
    · apply noPanic_bind (ok.getNumber _).noPanic; intro s _
      apply noPanic_bind (ok.getNumber _).noPanic; intro e _
      apply noPanic_bind (rangeLen_safe _ _).noPanic; intro len _
      split
      · exact noPanic_ok _
      · exact noPanic_bind (numPlus_safe _ _).noPanic (fun _ _ => noPanic_ok _)
    · exact noPanic_ok _
  · apply noPanic_bind (ok.getSlice value).noPanic; intro p _
    apply noPanic_bind (getRangeNums_safe ok _).noPanic; intro r _
    apply noPanic_bind (numPlus_safe _ _).noPanic; intro adjusted _
    apply noPanic_bind (ok.typeOf _).noPanic; intro tv _
    split
    · exact (indexList_safe ok _ _).noPanic
    · exact (indexCharList_safe ok _ _).noPanic
    · exact (indexByteList_safe ok _ _).noPanic
    · exact indexConcatenation_noPanic ok tot hM1 hM hf _ _
    · exact noPanic_err _
  · exact indexConcatenation_noPanic ok tot hM1 hM hf _ _
  · exact noPanic_err _

end

end Garnish.Access.Runtime
