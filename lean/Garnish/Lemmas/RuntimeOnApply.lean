/-
Lemmas/RuntimeApply.lean over `StoreLawsOn`: prefix of `apply_internal`, external and defer arms, `narrow_range`.
-/
import Garnish.Lemmas.RuntimeOnAccess3
import Garnish.Model.Runtime.Apply
set_option linter.unusedSimpArgs false
set_option linter.unusedVariables false
namespace Garnish.Lemmas.Runtime.On
open Garnish Gen Garnish.Abs Garnish.Model.Equality Garnish.Model.Runtime Garnish.Lemmas.Runtime

variable {F σ : Type} {S : RStore F σ} {Inv : σ → Prop} {Rd : σ → Nat → Prop} (fo : FloatOps F)

theorem applyMatch_defer (fuel : Nat) (instr : Instruction) (ur : Bool) (l r next : Nat) (tl tr : Ty)
    (h : applyArm tl tr = .defer) :
    applyMatch fo S fuel instr ur l r next tl tr = (do deferOrUnit S instr (tl, l) (tr, r); pure next) := by
  cases tl <;> cases tr <;> first | rfl | (cases h; done)

theorem applyKind_defer (instr : Instruction) (ur : Bool) (vl vr : Val F)
    (h : applyArm vl.typeOf vr.typeOf = .defer) :
    applyKind fo instr ur vl vr = .out (.defer instr vl vr) := by
  cases vl <;> cases vr <;> first | rfl | (cases h; done)

theorem applyMatch_external (fuel : Nat) (instr : Instruction) (ur : Bool) (l r next : Nat) (tr : Ty) :
    applyMatch fo S fuel instr ur l r next .external tr = (do
      let externalValue ← getExternal S l
      match ← S.apply externalValue r with
      | true => pure ()
      | false => pushUnit S
      pure next) := by
  cases tr <;> rfl

theorem getExternal_of {s : σ} {a n : Nat} (h : Decodes (S.view s) a (.ext n)) : getExternal S a s = .ok (n, s) := by
  cases h with
  | ext _ hn => simp [getExternal, RM.lift, hn, fetch, Outcome.ofOption, Outcome.bind]

/-- the prefix of `apply_internal`: both operands popped, the types read; what remains is `applyMatch` -/
theorem applyInternal_prefix (L : StoreLawsOn S Inv Rd) (fuel : Nat) (instr : Instruction) (ur : Bool)
    {s : σ} {r l : Nat} {vr vl : Val F} {rest : List Nat}
    (hregs : S.regs s = r :: l :: rest) (hl : Decodes (S.view s) l vl) (hr : Decodes (S.view s) r vr)
    (hinv : Inv s := by inv_tac) (hdp : Deep S s rest := by deep_tac) :
    ∃ s0, EffI S Inv s s0 rest (S.vals s) ∧ Decodes (S.view s0) l vl ∧ Decodes (S.view s0) r vr ∧
      applyInternal fo S fuel instr ur s =
        (applyMatch fo S fuel instr ur l r (S.cursor s + 1) vl.typeOf vr.typeOf >>= fun n => pure (some n)) s0 := by
  obtain ⟨s1, h1, e1⟩ := nextRef_cons L hregs
  obtain ⟨s0, h2, e2⟩ := nextRef_cons L e1.regs
  rw [e1.vals] at e2
  have e0 := e1.trans e2
  refine ⟨s0, e0, e0.dec hl, e0.dec hr, ?_⟩
  rw [applyInternal, bind_ok h1, bind_ok h2, bind_ok (read_apply S.cursor s0), e0.keeps.cur,
    bind_ok (getDataType_of (e0.dec hl)), bind_ok (getDataType_of (e0.dec hr))]

/-- the `External` arm (C17): the host's `apply` is asked exactly once with the external's value and the address of
the argument; unit iff it declines; execution continues at `cursor + 1` -/
theorem apply_external_spec (L : StoreLawsOn S Inv Rd) (fuel : Nat) (instr : Instruction) (ur : Bool)
    {s : σ} {r l n : Nat} {vr : Val F} {rest : List Nat}
    (hregs : S.regs s = r :: l :: rest) (hl : Decodes (S.view s) l (.ext n)) (hr : Decodes (S.view s) r vr)
    (hinv : Inv s := by inv_tac) (hdp : Deep S s rest := by deep_tac) :
    ∃ s0, EffI S Inv s s0 rest (S.vals s) ∧
      ApplyProtocolI S Inv s0 (applyInternal fo S fuel instr ur s) (some (S.cursor s + 1)) n r := by
  obtain ⟨s0, e0, hl0, hr0, hp⟩ := applyInternal_prefix fo L fuel instr ur hregs hl hr
  refine ⟨s0, e0, ?_⟩
  rw [hp]
  simp only [Val.typeOf]
  rw [applyMatch_external, bind_apply, bind_ok (getExternal_of hl0)]
  unfold ApplyProtocolI
  cases ha : S.apply n r s0 with
  | ok p =>
    obtain ⟨b, s1⟩ := p
    cases b with
    | true => simp only []; rw [bind_ok ha]; rfl
    | false =>
      simp only []
      intro hi1
      obtain ⟨a, s2, h2, d2, e2⟩ := pushUnit_spec L s1
      refine ⟨a, s2, ?_, d2, e2⟩
      rw [bind_ok ha]
      simp only []
      rw [bind_ok h2]; rfl
  | err e => simp only []; rw [bind_err ha]
  | panic p => simp only []; rw [bind_apply, ha]
  | fuelOut => simp only []; rw [bind_apply, ha]

/-- the catch-all arm: the defer protocol with the instruction `apply_internal` was called for -/
theorem apply_defer_spec (L : StoreLawsOn S Inv Rd) (fuel : Nat) (instr : Instruction) (ur : Bool)
    {s : σ} {r l : Nat} {vr vl : Val F} {rest : List Nat}
    (hregs : S.regs s = r :: l :: rest) (hl : Decodes (S.view s) l vl) (hr : Decodes (S.view s) r vr)
    (harm : applyArm vl.typeOf vr.typeOf = .defer)
    (hinv : Inv s := by inv_tac) (hdp : Deep S s rest := by deep_tac) :
    RefinesOutI S Inv s (applyInternal fo S fuel instr ur s) (some (S.cursor s + 1)) rest l r (.defer instr vl vr) := by
  obtain ⟨s0, e0, hl0, hr0, hp⟩ := applyInternal_prefix fo L fuel instr ur hregs hl hr
  refine ⟨s0, e0, ?_⟩
  rw [hp, applyMatch_defer fo fuel instr ur l r _ _ _ harm]
  have := deferOrUnit_spec L s0 instr (vl.typeOf, l) (vr.typeOf, r) (some (S.cursor s + 1))
  -- the handler has one more `pure` in the chain
  unfold DeferProtocolI at this ⊢
  cases hd : S.deferOp instr (vl.typeOf, l) (vr.typeOf, r) s0 with
  | ok p =>
    obtain ⟨b, s1⟩ := p
    rw [hd] at this
    cases b with
    | true =>
      simp only [] at this ⊢
      rw [deferOrUnit, bind_apply, bind_apply, bind_ok hd] ; rfl
    | false =>
      simp only [] at this ⊢
      intro hi1
      obtain ⟨a, s2, h2, d2, e2⟩ := pushUnit_spec L s1
      refine ⟨a, s2, ?_, d2, e2⟩
      rw [deferOrUnit, bind_apply, bind_apply, bind_ok hd]
      simp only [Bool.not_false, if_true]
      rw [h2]; rfl
  | err e => simp only []; rw [deferOrUnit, bind_apply, bind_apply, bind_err hd]
  | panic p => simp only []; rw [deferOrUnit, bind_apply, bind_apply, bind_apply, hd]
  | fuelOut => simp only []; rw [deferOrUnit, bind_apply, bind_apply, bind_apply, hd]

/-! ### `narrow_range` -/

theorem range_of {s : σ} {a : Nat} {vs ve : Val F} (h : Decodes (S.view s) a (.range vs ve)) :
    ∃ x y, (S.view s).range a = some (x, y) ∧ Decodes (S.view s) x vs ∧ Decodes (S.view s) y ve := by
  cases h with
  | range _ hr ds de => exact ⟨_, _, hr, ds, de⟩

/-- `narrow_range` on two ranges refines Abs/Ops `narrowRange` -/
theorem narrowRange_spec (L : StoreLawsOn S Inv Rd) {s : σ} {tn by_ : Nat} {os oe bs be : Val F}
    (ht : Decodes (S.view s) tn (.range os oe)) (hb : Decodes (S.view s) by_ (.range bs be))
    (hinv : Inv s := by inv_tac) :
    match Abs.narrowRange fo (.range os oe) (.range bs be) with
    | .ok v => ∃ a s', Model.Runtime.narrowRange fo S tn by_ s = .ok (a, s') ∧ Decodes (S.view s') a v ∧
        EffI S Inv s s' (S.regs s) (S.vals s)
    | .error e => Model.Runtime.narrowRange fo S tn by_ s = .err e := by
  obtain ⟨ba, bb, hbr, dbs, dbe⟩ := range_of hb
  obtain ⟨oa, ob, hor, dos, doe⟩ := range_of ht
  rw [Model.Runtime.narrowRange, bind_ok (getRangeRaw_of hbr)]
  simp only []
  rw [bind_ok (getRangeRaw_of hor)]
  simp only []
  rw [bind_ok (getDataType_of dbs), bind_ok (getDataType_of dbe), bind_ok (getDataType_of dos)]
  by_cases hn : bs.typeOf = .number ∧ be.typeOf = .number ∧ os.typeOf = .number
  · obtain ⟨x, rfl⟩ := typeOf_number hn.1
    obtain ⟨y, rfl⟩ := typeOf_number hn.2.1
    obtain ⟨z, rfl⟩ := typeOf_number hn.2.2
    simp only [Val.typeOf, Abs.narrowRange]
    rw [bind_ok (getNumber_of dbs), bind_ok (getNumber_of dbe), bind_ok (getNumber_of dos)]
    cases h1 : Number.plus fo z x with
    | none => rfl
    | some ns =>
      cases h2 : Number.subtract fo y x with
      | none => rfl
      | some adj =>
        simp only []
        cases h3 : Number.plus fo ns adj with
        | none => rfl
        | some ne =>
          simp only []
          obtain ⟨a1, s1, g1, d1, e1⟩ := adds_i (L.addNumber ns s (by inv_tac))
          obtain ⟨a2, s2, g2, d2, e2⟩ := adds_i (L.addNumber ne s1 (by inv_tac))
          obtain ⟨a3, s3, g3, d3, e3⟩ := adds_i (L.addRange a1 a2 _ _ s2 (by inv_tac) (e2.dec d1) d2)
          rw [e1.regs, e1.vals] at e2
          rw [e2.regs, e2.vals] at e3
          exact ⟨a3, s3, by rw [bind_ok g1, bind_ok g2]; exact g3, d3, (e1.trans e2).trans e3⟩
  · have e1 : Abs.narrowRange fo (.range os oe) (.range bs be) = .error .state := by
      cases bs <;> first | rfl | (cases be <;> first | rfl | (cases os <;> first | rfl | exact absurd ⟨rfl, rfl, rfl⟩ hn))
    rw [e1]
    simp only []
    generalize bs.typeOf = t1 at hn ⊢
    generalize be.typeOf = t2 at hn ⊢
    generalize os.typeOf = t3 at hn ⊢
    cases t1
    case number =>
      cases t2
      case number =>
        cases t3
        case number => exact absurd ⟨rfl, rfl, rfl⟩ hn
        all_goals rfl
      all_goals rfl
    all_goals rfl

end Garnish.Lemmas.Runtime.On
