/-
The parser's node array represents the elaborated program (5): the induction over the index tree.
-/
import Garnish.Lemmas.SourceRep5
namespace Garnish.Abs.Source
open Garnish Garnish.Gen Garnish.Spec Garnish.Abs Garnish.Abs.Tree Garnish.Model.Parser Garnish.Model.Literals

variable {F : Type} {pf : List Char → Option F} {nodes : Array ParseNode} {B : List (Nat × Expr F)}
  {κ : Nat → Nat} {toks : List PToken}

/-- every node carries the text of the token at its position -/
def Linked (toks : List PToken) (nodes : Array ParseNode) : Prop :=
  ∀ (i : Nat) (n : ParseNode), nodes[i]? = some n → textAt toks (tokPos n) = n.lexToken.text

theorem bind_some {α β : Type} {o : Option α} {f : α → Option β} {y : β} (h : o.bind f = some y) :
    ∃ x, o = some x ∧ f x = some y := by
  cases o with
  | none => cases h
  | some x => exact ⟨x, rfl, h⟩

theorem go_ne_nil {t : RTree} {x : Res F} (h : go pf κ toks t = some x) : t ≠ .nil := by
  intro e; subst e; rw [go.eq_1] at h; cases h

theorem binE_bodies {d : Definition} {text : List Char} {lIs rIs lC rC rJ : Bool} {a b y : Res F}
    (h : binE d text lIs rIs lC rC rJ a b = some y) : y.bodies = a.bodies ++ b.bodies := by
  unfold binE at h
  simp only at h
  repeat' split at h
  all_goals first | (cases h; rfl) | cases h

/-- what `isSideNode` says about the index tree -/
theorem side_shape {rl rr : Spec.Tree} {ri rk : Nat} {nr : ParseNode} (hnr : nodes[ri]? = some nr)
    (h : isSideNode (toRG (dfOf nodes) (.node rl ri rk rr)) = true) : rl = .nil ∧ nr.definition = .sideEffect := by
  simp only [toRG, dfOf_get hnr] at h
  split at h
  · simp [isSideNode] at h
  · cases rl with
    | nil => simp only [toRG, isSideNode, beq_iff_eq] at h; exact ⟨rfl, h⟩
    | node _ _ _ _ =>
      simp only [toRG] at h
      split at h <;> simp [isSideNode] at h

theorem out_of_tree (hlink : Linked toks nodes) : ∀ (t : Spec.Tree) (p link : Option Nat) (lo hi : Nat) (x : Res F),
    t ≠ .nil → IsTreeAt nodes p link t → t.inorder = List.range' lo (hi - lo) → bracketsOK (dfOf nodes) t = true →
    go pf κ toks (toRG (dfOf nodes) t) = some x → (∀ id b, (id, b) ∈ x.bodies → lookupBody B id = some b) →
    Out pf nodes B lo hi (rootIdx t) (toRG (dfOf nodes) t) x
  | .nil, _, _, _, _, _, h, _, _, _, _, _ => absurd rfl h
  | .node l i k r, p, link, lo, hi, x, _, ht, hin, hbr, hgo, hB => by
    obtain ⟨_, n, hn, _, hk, hl, hr⟩ := isTreeAt_inv ht
    simp only [Spec.Tree.inorder] at hin
    obtain ⟨h1, h2, h3, h4⟩ := split_range hin
    simp only [bracketsOK, Bool.and_eq_true, dfOf_get hn] at hbr
    obtain ⟨⟨hbl, hbrl⟩, hbrr⟩ := hbr
    have hroot : rootDef (toRG (dfOf nodes) (.node l i k r)) = some n.definition := rootDef_toRG hn
    have htext : textAt toks k = n.lexToken.text := by rw [hk]; exact hlink i n hn
    simp only [rootIdx]
    revert hgo hroot
    simp only [toRG, dfOf_get hn]
    intro hgo hroot
    by_cases hb : isBracketDef n.definition = true
    · -- a bracket
      simp only [hb, if_true] at hgo hroot hbl ⊢
      have hlnil : l = .nil := by cases l <;> simp_all
      subst hlnil
      have hlo : lo = i := by
        simp only [Spec.Tree.inorder] at h3
        have := range_nil h3; omega
      subst hlo
      have hd : n.definition = .group ∨ n.definition = .nestedExpression := by
        simpa [isBracketDef] using hb
      rcases hd with hd | hd
      · rw [hd] at hgo
        rw [go_group] at hgo
        obtain ⟨x', hx', hx⟩ := bind_some hgo
        cases hx
        have hrne : r ≠ .nil := fun e => go_ne_nil hx' ((toRG_nil_iff _ _).mpr e)
        cases r with
        | nil => exact absurd rfl hrne
        | node rl ri rk rr =>
          obtain ⟨hrl, _⟩ := isTreeAt_inv hr
          have ih := out_of_tree hlink (.node rl ri rk rr) _ _ _ _ x' (by simp) hr h4 hbrr hx' hB
          exact Out.plain (Rep.group hn hd hrl ih.rep)
      · rw [hd] at hgo
        cases r with
        | nil =>
          simp only [toRG] at hgo
          rw [go_enested] at hgo
          cases hgo
          have hhi : hi = lo + 1 := by
            simp only [Spec.Tree.inorder] at h4
            have := range_nil h4; omega
          subst hhi
          exact Out.plain (Rep.emptyNested hn hd (isTreeAt_link_nil hr))
        | node rl ri rk rr =>
          rw [go_nested _ _ _ _ _ (by rw [Ne, toRG_nil_iff]; simp)] at hgo
          obtain ⟨x', hx', hx⟩ := bind_some hgo
          cases hx
          obtain ⟨hrl, _⟩ := isTreeAt_inv hr
          have ih := out_of_tree hlink (.node rl ri rk rr) _ _ _ _ x' (by simp) hr h4 hbrr hx'
            (fun id b hm => hB id b (List.mem_cons_of_mem _ hm))
          exact Out.plain (Rep.nested hn hd hrl (hB _ _ (List.mem_cons_self ..)) ih.rep)
    · -- a value or operator node
      simp only [hb, Bool.false_eq_true, if_false] at hgo hroot ⊢
      cases l with
      | nil =>
        have hlo : lo = i := by
          simp only [Spec.Tree.inorder] at h3
          have := range_nil h3; omega
        subst hlo
        have hnl := isTreeAt_link_nil hl
        cases r with
        | nil =>
          have hhi : hi = lo + 1 := by
            simp only [Spec.Tree.inorder] at h4
            have := range_nil h4; omega
          subst hhi
          simp only [toRG] at hgo ⊢
          rw [go_leaf, htext] at hgo
          cases he : leafE pf n.definition n.lexToken.text with
          | none => rw [he] at hgo; cases hgo
          | some e =>
            rw [he] at hgo; cases hgo
            exact Out.plain (leaf_rep hn hnl (isTreeAt_link_nil hr) he)
        | node rl ri rk rr =>
          have hne : toRG (dfOf nodes) (.node rl ri rk rr) ≠ .nil := by rw [Ne, toRG_nil_iff]; simp
          simp only [show toRG (dfOf nodes) Spec.Tree.nil = RTree.nil from rfl] at hgo ⊢
          obtain ⟨hrl, nr, hnr, _, _, hrL, hrR⟩ := isTreeAt_inv hr
          by_cases hside : isSideNode (toRG (dfOf nodes) (.node rl ri rk rr)) = true
          · -- `v [ body ]`
            obtain ⟨hrlnil, hdse⟩ := side_shape hnr hside
            subst hrlnil
            have hri : ri = lo + 1 := by
              simp only [Spec.Tree.inorder, List.nil_append] at h4
              have := split_range (l := []) h4
              have h5 := range_nil this.2.2.1
              omega
            subst hri
            have h4' : rr.inorder = List.range' (lo + 1 + 1) (hi - (lo + 1 + 1)) := by
              simp only [Spec.Tree.inorder, List.nil_append] at h4
              exact (split_range (l := []) h4).2.2.2
            have hbr2 : bracketsOK (dfOf nodes) rr = true := by
              simp only [bracketsOK, Bool.and_eq_true] at hbrr
              exact hbrr.2
            have hrg : toRG (dfOf nodes) (.node .nil (lo + 1) rk rr) = .node .nil .sideEffect rk (toRG (dfOf nodes) rr) := by
              simp only [toRG, dfOf_get hnr, hdse]
              rfl
            rw [hrg, go_side, htext] at hgo
            obtain ⟨e, he, hgo⟩ := bind_some hgo
            obtain ⟨x', hx', hx⟩ := bind_some hgo
            cases hx
            have hrrne : rr ≠ .nil := fun e => go_ne_nil hx' ((toRG_nil_iff _ _).mpr e)
            cases rr with
            | nil => exact absurd rfl hrrne
            | node rrl rri rrk rrr =>
              obtain ⟨hrrl, _⟩ := isTreeAt_inv hrR
              have ih := out_of_tree hlink (.node rrl rri rrk rrr) _ _ _ _ x' (by simp) hrR h4' hbr2 hx' hB
              exact Out.plain (Rep.side hn hnl hrl (leaf_leafRep he) hnr hdse hrrl ih.rep)
          · rw [go_pre _ _ _ _ _ _ hne (by simpa using hside), htext] at hgo
            obtain ⟨x', hx', hx⟩ := bind_some hgo
            have hbs : ∀ id b, (id, b) ∈ x'.bodies → (id, b) ∈ x.bodies := by
              intro id b hm
              unfold preE at hx
              split at hx
              · cases hx; exact hm
              · split at hx
                · cases hx; exact hm
                · split at hx
                  · cases hx; exact hm
                  · cases hx
            have ih := out_of_tree hlink (.node rl ri rk rr) _ _ _ _ x' (by simp) hr h4 hbrr hx'
              (fun id b hm => hB id b (hbs id b hm))
            exact pre_out hn hrl ih.rep hx
      | node ll li lk lr =>
        have hnel : toRG (dfOf nodes) (.node ll li lk lr) ≠ .nil := by rw [Ne, toRG_nil_iff]; simp
        obtain ⟨hll, _⟩ := isTreeAt_inv hl
        cases r with
        | nil =>
          have hhi : hi = i + 1 := by
            simp only [Spec.Tree.inorder] at h4
            have := range_nil h4; omega
          subst hhi
          simp only [show toRG (dfOf nodes) Spec.Tree.nil = RTree.nil from rfl] at hgo ⊢
          rw [go_suf _ _ _ _ _ _ hnel, htext] at hgo
          obtain ⟨x', hx', hx⟩ := bind_some hgo
          have hbs : ∀ id b, (id, b) ∈ x'.bodies → (id, b) ∈ x.bodies := by
            intro id b hm
            unfold sufE at hx
            split at hx
            · cases hx; exact hm
            · split at hx
              · cases hx; exact hm
              · cases hx
          have ih := out_of_tree hlink (.node ll li lk lr) _ _ _ _ x' (by simp) hl h3 hbrl hx'
            (fun id b hm => hB id b (hbs id b hm))
          exact suf_out hn hll ih.rep hx
        | node rl ri rk rr =>
          have hner : toRG (dfOf nodes) (.node rl ri rk rr) ≠ .nil := by rw [Ne, toRG_nil_iff]; simp
          obtain ⟨hrl, _⟩ := isTreeAt_inv hr
          rw [go_bin _ _ _ _ _ _ _ hnel hner, htext] at hgo
          obtain ⟨a, ha, hgo⟩ := bind_some hgo
          obtain ⟨b, hb', hx⟩ := bind_some hgo
          have hbs := binE_bodies hx
          have iha := out_of_tree hlink (.node ll li lk lr) _ _ _ _ a (by simp) hl h3 hbrl ha
            (fun id b hm => hB id b (hbs ▸ List.mem_append_left _ hm))
          have ihb := out_of_tree hlink (.node rl ri rk rr) _ _ _ _ b (by simp) hr h4 hbrr hb'
            (fun id b hm => hB id b (hbs ▸ List.mem_append_right _ hm))
          exact bin_out hn rfl hll hrl iha ihb (fun pn h => rootDef_toRG h) (fun pn h => rootDef_toRG h) hroot hx

end Garnish.Abs.Source
