/-
Parentheses and the elaboration (1): `ungroup` removes the `( )` nodes of a reference tree (positions kept); `safe` says of every
`( )` node that it is REDUNDANT for `Abs.Source.go` — its content is not a shape that the parent reads structurally:
  * not a list of the parent's own kind, as an operand of `,` / the space list (`(a, b), c` ≠ `a, b, c`);
  * not a conditional / else-chain, as the left operand of `&&` / `||` or the final arm of `|>` (there the parentheses are needed);
  * not the left operand of `|>` at all (`(c ?> t) |> e` is not an else-chain);
  * not a side-effect block directly after a value (`v ([b])`);
  * not empty.
`go_ungroup` (Lemmas/WrapElab2.lean): on a safe tree `go` computes what it computes on the tree without its parentheses.
-/
import Garnish.Lemmas.SourceRep2
namespace Garnish.Abs.Source
open Garnish Garnish.Gen Garnish.Spec Garnish.Abs Garnish.Abs.Tree Garnish.Model.Parser Garnish.Model.Literals

variable {F : Type}

/-- a `( )` node -/
def paren : RTree → Bool
  | .group d _ _ => d == .group
  | _ => false

/-- the tree without its `( )` nodes -/
def ungroup : RTree → RTree
  | .nil => .nil
  | .node l d k r => .node (ungroup l) d k (ungroup r)
  | .group d k i => if d == .group then ungroup i else .group d k (ungroup i)

def listD (d : Definition) : Bool := d == .list || d == .commaList

/-- the parentheses around the left operand `l` of a `d` node are redundant -/
def leftSafe (d : Definition) (l : RTree) : Bool :=
  !paren l || (!(listD d && rootIs (ungroup l) d) && !((d == .and || d == .or) && rootCond (ungroup l)) && d != .elseJump)

/-- the parentheses around the right operand `r` of a `d` node (left operand `l`) are redundant -/
def rightSafe (d : Definition) (l r : RTree) : Bool :=
  !paren r || (!(listD d && rootIs (ungroup r) d) && !(d == .elseJump && rootCond (ungroup r)) &&
    !((ungroup l).isNil && isSideNode (ungroup r)))

/-- every `( )` node of the tree is redundant (and not empty) -/
def safe : RTree → Bool
  | .nil => true
  | .node l d _ r => safe l && safe r && leftSafe d l && rightSafe d l r
  | .group d _ i => safe i && (!(d == .group) || !(ungroup i).isNil)

/-- what a `( )` node does to the result of its content: list items and conditional arms are reset -/
def fixP (t : RTree) (x : Res F) : Res F := if paren t then plain x.e x.bodies else x

theorem fixP_e (t : RTree) (x : Res F) : (fixP t x).e = x.e := by unfold fixP; split <;> rfl
theorem fixP_bodies (t : RTree) (x : Res F) : (fixP t x).bodies = x.bodies := by unfold fixP; split <;> rfl

theorem ungroup_nil_iff : ∀ (t : RTree), safe t = true → (ungroup t = .nil ↔ t = .nil)
  | .nil, _ => by simp [ungroup]
  | .node _ _ _ _, _ => by simp [ungroup]
  | .group d k i, h => by
    simp only [safe, Bool.and_eq_true, Bool.or_eq_true, Bool.not_eq_true'] at h
    simp only [ungroup]
    split
    · rename_i hd
      rcases h.2 with h2 | h2
      · rw [hd] at h2; cases h2
      · cases hu : ungroup i <;> simp_all [RTree.isNil]
    · simp

theorem rootDef_ungroup : ∀ (t : RTree), paren t = false → rootDef (ungroup t) = rootDef t
  | .nil, _ => rfl
  | .node _ _ _ _, _ => rfl
  | .group d k i, h => by
    simp only [paren] at h
    simp only [ungroup, h, Bool.false_eq_true, if_false, rootDef]

theorem rootIs_ungroup (t : RTree) (d : Definition) (h : paren t = false) : rootIs (ungroup t) d = rootIs t d := by
  simp only [rootIs, rootDef_ungroup t h]
theorem rootCond_ungroup (t : RTree) (h : paren t = false) : rootCond (ungroup t) = rootCond t := by
  simp only [rootCond, rootDef_ungroup t h]
theorem isJumpIf_ungroup (t : RTree) (h : paren t = false) : isJumpIf (ungroup t) = isJumpIf t := by
  simp only [isJumpIf, rootIs_ungroup t _ h]

theorem paren_rootDef {t : RTree} (h : paren t = true) : rootDef t = some .group := by
  cases t with
  | nil => cases h
  | node _ _ _ _ => cases h
  | group d k i => simp only [paren, beq_iff_eq] at h; simp [rootDef, h]

theorem paren_rootCond {t : RTree} (h : paren t = true) : rootCond t = false := by
  simp [rootCond, paren_rootDef h, condDef]
theorem paren_isJumpIf {t : RTree} (h : paren t = true) : isJumpIf t = false := by
  simp [isJumpIf, rootIs, paren_rootDef h]
theorem paren_rootIs {t : RTree} (h : paren t = true) (d : Definition) (hd : d ≠ .group) : rootIs t d = false := by
  simp only [rootIs, paren_rootDef h]
  simp only [beq_eq_false_iff_ne, ne_eq, Option.some.injEq]
  exact fun e => hd e.symm
theorem paren_isSideNode {t : RTree} (h : paren t = true) : isSideNode t = false := by
  cases t with
  | nil => cases h
  | node _ _ _ _ => cases h
  | group d k i => rfl

theorem isSideNode_ungroup : ∀ (t : RTree), safe t = true → paren t = false → isSideNode (ungroup t) = isSideNode t
  | .nil, _, _ => rfl
  | .group d k i, _, h => by
    simp only [paren] at h
    simp only [ungroup, h, Bool.false_eq_true, if_false, isSideNode]
  | .node l d k r, hs, _ => by
    simp only [safe, Bool.and_eq_true] at hs
    have := ungroup_nil_iff l hs.1.1.1
    cases l with
    | nil => rfl
    | node _ _ _ _ => rfl
    | group d' k' i' =>
      simp only [ungroup]
      cases hu : ungroup (.group d' k' i') with
      | nil => exact absurd (this.mp hu) (by simp)
      | node _ _ _ _ => simp only [ungroup] at hu; rw [hu]; rfl
      | group _ _ _ => simp only [ungroup] at hu; rw [hu]; rfl

end Garnish.Abs.Source
