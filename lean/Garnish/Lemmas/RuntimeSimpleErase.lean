/-
The adders of `simpleRStore` (Model/Runtime/SimpleStore.lean), with the payloads erased (`eraseD`), ARE the constructor
steps `Access.Simple.step` of Model/SimpleBuild.lean (optimize-agent's model of the `SimpleDataList`, on which C07 /
C15 / C19-Simple statements are made): same list, same address — given that the two cache decisions agree
(`HitErases`).
-/
import Garnish.Model.Runtime.SimpleStore
namespace Garnish.Lemmas.Runtime.Simple
open Garnish Gen Garnish.Model.Equality Garnish.Model.Runtime
open Garnish.Access.Simple (SData SCell SOp step intern pushCell)
variable {F : Type} {hit : List (SimCell F) → SimCell F → Option Nat} {h : SimHost F}

/-- the data list with the payloads erased: the `SData` of Model/AccessSimple.lean -/
def eraseD (cells : List (SimCell F)) : SData := (cells.map erase).toArray

theorem eraseD_push (cells : List (SimCell F)) (c : SimCell F) : eraseD (cells ++ [c]) = (eraseD cells).push (erase c) := by
  simp [eraseD]

theorem eraseD_size (cells : List (SimCell F)) : (eraseD cells).size = cells.length := by simp [eraseD]

/-- the cache decision of the payload-free model is the one made here -/
def HitErases (hit : List (SimCell F) → SimCell F → Option Nat) (hit' : SData → SCell → Option Nat) : Prop :=
  ∀ cells c, hit' (eraseD cells) (erase c) = hit cells c

theorem push_erases {c : SimCell F} {st st' : SimState F} {a : Nat} (hp : SimState.push c st = .ok (a, st')) :
    pushCell (eraseD st.cells) (erase c) = (eraseD st'.cells, a) := by
  simp only [SimState.push] at hp
  cases hp
  simp only [pushCell, eraseD_push, eraseD_size]

theorem cacheAdd_erases {hit' : SData → SCell → Option Nat} (he : HitErases hit hit') {c : SimCell F}
    {st st' : SimState F} {a : Nat} (hp : SimState.cacheAdd hit c st = .ok (a, st')) :
    intern hit' (eraseD st.cells) (erase c) = (eraseD st'.cells, a) := by
  simp only [SimState.cacheAdd] at hp
  have he' := he st.cells c
  simp only [intern]
  cases hh : hit st.cells c with
  | some b => rw [hh] at hp he'; cases hp; rw [he']
  | none => rw [hh] at hp he'; cases hp; rw [he']; simp only [eraseD_push, eraseD_size]

section table
variable {hit' : SData → SCell → Option Nat} (he : HitErases hit hit') {st st' : SimState F} {a : Nat}
local notation "S" => simpleRStore hit h

theorem addUnit_erases (hp : (S).addUnit st = .ok (a, st')) :
    step hit' (eraseD st.cells) .unit = .ok (eraseD st'.cells, a) := by cases hp; rfl
theorem addTrue_erases (hp : (S).addTrue st = .ok (a, st')) :
    step hit' (eraseD st.cells) .tru = .ok (eraseD st'.cells, a) := by cases hp; rfl
theorem addFalse_erases (hp : (S).addFalse st = .ok (a, st')) :
    step hit' (eraseD st.cells) .fls = .ok (eraseD st'.cells, a) := by cases hp; rfl
theorem addPair_erases {l r : Nat} (hp : (S).addPair (l, r) st = .ok (a, st')) :
    step hit' (eraseD st.cells) (.pair l r) = .ok (eraseD st'.cells, a) := by
  simp only [step]; exact congrArg _ (push_erases hp)
theorem addRange_erases {l r : Nat} (hp : (S).addRange l r st = .ok (a, st')) :
    step hit' (eraseD st.cells) (.range l r) = .ok (eraseD st'.cells, a) := by
  simp only [step]; exact congrArg _ (push_erases hp)
theorem addSlice_erases {l r : Nat} (hp : (S).addSlice l r st = .ok (a, st')) :
    step hit' (eraseD st.cells) (.slice l r) = .ok (eraseD st'.cells, a) := by
  simp only [step]; exact congrArg _ (push_erases hp)
theorem addConcatenation_erases {l r : Nat} (hp : (S).addConcatenation l r st = .ok (a, st')) :
    step hit' (eraseD st.cells) (.concat l r) = .ok (eraseD st'.cells, a) := by
  simp only [step]; exact congrArg _ (push_erases hp)
theorem addPartial_erases {l r : Nat} (hp : (S).addPartial l r st = .ok (a, st')) :
    step hit' (eraseD st.cells) (.partial_ l r) = .ok (eraseD st'.cells, a) := by
  simp only [step]; exact congrArg _ (push_erases hp)
theorem pushFrame_erases {j : Nat} (hp : (S).pushFrame j st = .ok ((), st')) :
    step hit' (eraseD st.cells) .stackFrame = .ok (eraseD st'.cells, st.cells.length) := by
  cases hp
  simp only [step, pushCell, eraseD_push, eraseD_size]; rfl
theorem endList_erases {t : Nat} {items : List Nat} (hb : st.currentList = some items)
    (hp : (S).endList t st = .ok (a, st')) :
    step hit' (eraseD st.cells) (.list items) = .ok (eraseD st'.cells, a) := by
  simp only [simpleRStore, hb] at hp
  cases hp
  simp only [step, pushCell, eraseD_push, eraseD_size]; rfl

include he
theorem addSymbol_erases {y : Nat} (hp : (S).addSymbol y st = .ok (a, st')) :
    step hit' (eraseD st.cells) (.symbol y) = .ok (eraseD st'.cells, a) := by
  simp only [step]; exact congrArg _ (cacheAdd_erases he hp)
theorem addInt_erases {v : Int32} (hp : (S).addNumber (.int v.toInt) st = .ok (a, st')) :
    step hit' (eraseD st.cells) (.number v) = .ok (eraseD st'.cells, a) := by
  simp only [step]; exact congrArg _ (cacheAdd_erases he hp)
theorem addFloat_erases {f : F} (hp : (S).addNumber (.float f) st = .ok (a, st')) :
    step hit' (eraseD st.cells) .float = .ok (eraseD st'.cells, a) := by
  simp only [step]; exact congrArg _ (cacheAdd_erases he hp)
theorem addType_erases {t : Ty} (hp : (S).addType t st = .ok (a, st')) :
    step hit' (eraseD st.cells) (.leafConst .type_) = .ok (eraseD st'.cells, a) := by
  simp only [step]; exact congrArg _ (cacheAdd_erases he hp)
theorem addChar_erases {c : Nat} (hp : (S).addChar c st = .ok (a, st')) :
    step hit' (eraseD st.cells) (.leafConst .char) = .ok (eraseD st'.cells, a) := by
  simp only [step]; exact congrArg _ (cacheAdd_erases he hp)
theorem addByte_erases {c : Nat} (hp : (S).addByte c st = .ok (a, st')) :
    step hit' (eraseD st.cells) (.leafConst .byte) = .ok (eraseD st'.cells, a) := by
  simp only [step]; exact congrArg _ (cacheAdd_erases he hp)
end table

end Garnish.Lemmas.Runtime.Simple
