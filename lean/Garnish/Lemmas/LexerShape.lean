/-
Shape of Symbol and ByteList tokens (lexer half of `C03_front_end_shape_statement`): an invariant of the lexer state
machine, `ShapeInv`, shows that every token `lex` returns with type Symbol has a text `':' :: rest`, and every token
with type ByteList has a text `q` quotes ++ body ++ `q` quotes with `1 ≤ q` and a body that does not start with a
quote (`TokShape`). Model: Garnish.Model.Lexer (the repaired lexer).
-/
import Garnish.Lemmas.LexerC13
set_option linter.unusedSimpArgs false
set_option linter.unusedVariables false
namespace Garnish.Model.Lexer

/-- the shape the builder relies on -/
def TokShape (text : List Char) (ty : Gen.TokenType) : Prop :=
  (ty = .symbol → ∃ rest, text = ':' :: rest) ∧
  (ty = .byteList → ∃ (q : Nat) (body : List Char), 1 ≤ q ∧
    text = List.replicate q '\'' ++ body ++ List.replicate q '\'' ∧ ∀ c, body.head? = some c → c ≠ '\'')

theorem TokShape.other {text : List Char} {ty : Gen.TokenType} (h1 : ty ≠ .symbol) (h2 : ty ≠ .byteList) :
    TokShape text ty := ⟨fun h => absurd h h1, fun h => absurd h h2⟩

/-- a byte list under construction: `q` opening quotes, a non-empty body not starting with a quote, `e < q` quotes
that may turn out to be closing quotes -/
def ByteBody (σ : Lexer) : Prop :=
  ∃ (body : List Char), σ.endQuoteCount < σ.startQuoteCount ∧
    σ.currentCharacters = List.replicate σ.startQuoteCount '\'' ++ body ++ List.replicate σ.endQuoteCount '\'' ∧
    body ≠ [] ∧ ∀ c, body.head? = some c → c ≠ '\''

structure ShapeInv (σ : Lexer) : Prop where
  tree : σ.operatorTree = theTree
  noSymbol : σ.currentTokenType ≠ some .symbol
  byteList : σ.currentTokenType = some .byteList →
    (σ.state = .startByteList ∧ ∃ q, 1 ≤ q ∧ σ.currentCharacters = List.replicate q '\'') ∨
    (σ.state = .byteList ∧ ByteBody σ)
  endQ : σ.state ≠ .charList → σ.state ≠ .byteList → σ.endQuoteCount = 0

theorem ShapeInv.mkOther {σ1 : Lexer} (htr : σ1.operatorTree = theTree) (h1 : σ1.currentTokenType ≠ some .symbol)
    (h2 : σ1.currentTokenType ≠ some .byteList) (h3 : σ1.state ≠ .charList → σ1.state ≠ .byteList → σ1.endQuoteCount = 0) :
    ShapeInv σ1 := ⟨htr, h1, fun h => absurd h h2, h3⟩

/-- an arm keeps the invariant when it continues the token and emits a shaped token when it ends it -/
def ArmShape (p : Lexer × Bool) : Prop :=
  (p.2 = false → ShapeInv p.1) ∧
  (p.2 = true → p.1.operatorTree = theTree ∧ ∀ ty, p.1.currentTokenType = some ty → TokShape p.1.currentCharacters ty)

theorem notByteList_of_state {σ : Lexer} (hi : ShapeInv σ) (h1 : σ.state ≠ .startByteList) (h2 : σ.state ≠ .byteList) :
    σ.currentTokenType ≠ some .byteList := by
  intro h
  rcases hi.byteList h with ⟨hs, _⟩ | ⟨hs, _⟩
  · exact h1 hs
  · exact h2 hs

theorem emit_other {σ1 : Lexer} (htr : σ1.operatorTree = theTree) (h1 : σ1.currentTokenType ≠ some .symbol)
    (h2 : σ1.currentTokenType ≠ some .byteList) :
    σ1.operatorTree = theTree ∧ ∀ ty, σ1.currentTokenType = some ty → TokShape σ1.currentCharacters ty :=
  ⟨htr, fun ty hty => TokShape.other (fun h => h1 (by rw [hty, h])) (fun h => h2 (by rw [hty, h]))⟩

/-- arms of states other than Operator / Identifier / the two byte list states: the pending type is untouched or
set to a constant other than Symbol / ByteList -/
macro "shape_tac" f:ident hr:ident htr:ident hns:ident hnb:ident he:ident : tactic =>
  `(tactic| (unfold $f at $hr:ident; (try simp only [] at $hr:ident); (repeat' split at $hr:ident);
             all_goals (subst $hr:ident; refine ⟨fun h => ?_, fun h => ?_⟩);
             all_goals first
               | (exfalso; simp at h; done)
               | exact ShapeInv.mkOther $htr (by first | exact $hns | simp)
                   (by first | exact $hnb | simp) (by first | (intro _ _; exact $he) | simp_all)
               | exact emit_other $htr (by first | exact $hns | simp) (by first | exact $hnb | simp)))

theorem armNumber_shape (cc : CharClass) (σ : Lexer) (c : Char) (hs : σ.state = .number) (hi : ShapeInv σ) :
    ArmShape (armNumber cc σ c) := by
  have hnb := notByteList_of_state hi (by rw [hs]; decide) (by rw [hs]; decide)
  have he := hi.endQ (by rw [hs]; decide) (by rw [hs]; decide)
  have htr := hi.tree
  have hns := hi.noSymbol
  generalize hr : armNumber cc σ c = r
  shape_tac armNumber hr htr hns hnb he

theorem armAnnotation_shape (cc : CharClass) (σ : Lexer) (c : Char) (hs : σ.state = .annotation) (hi : ShapeInv σ) :
    ArmShape (armAnnotation cc σ c) := by
  have hnb := notByteList_of_state hi (by rw [hs]; decide) (by rw [hs]; decide)
  have he := hi.endQ (by rw [hs]; decide) (by rw [hs]; decide)
  have htr := hi.tree
  have hns := hi.noSymbol
  generalize hr : armAnnotation cc σ c = r
  shape_tac armAnnotation hr htr hns hnb he

theorem armSpaces_shape (σ : Lexer) (c : Char) (hs : σ.state = .spaces) (hi : ShapeInv σ) :
    ArmShape (armSpaces σ c) := by
  have hnb := notByteList_of_state hi (by rw [hs]; decide) (by rw [hs]; decide)
  have he := hi.endQ (by rw [hs]; decide) (by rw [hs]; decide)
  have htr := hi.tree
  have hns := hi.noSymbol
  generalize hr : armSpaces σ c = r
  shape_tac armSpaces hr htr hns hnb he

theorem armSubexpression_shape (σ : Lexer) (c : Char) (hs : σ.state = .subexpression) (hi : ShapeInv σ) :
    ArmShape (armSubexpression σ c) := by
  have hnb := notByteList_of_state hi (by rw [hs]; decide) (by rw [hs]; decide)
  have he := hi.endQ (by rw [hs]; decide) (by rw [hs]; decide)
  have htr := hi.tree
  have hns := hi.noSymbol
  generalize hr : armSubexpression σ c = r
  shape_tac armSubexpression hr htr hns hnb he

theorem armStartCharList_shape (σ : Lexer) (c : Char) (hs : σ.state = .startCharList) (hi : ShapeInv σ) :
    ArmShape (armStartCharList σ c) := by
  have hnb := notByteList_of_state hi (by rw [hs]; decide) (by rw [hs]; decide)
  have he := hi.endQ (by rw [hs]; decide) (by rw [hs]; decide)
  have htr := hi.tree
  have hns := hi.noSymbol
  generalize hr : armStartCharList σ c = r
  shape_tac armStartCharList hr htr hns hnb he

theorem armLineAnnotation_shape (σ : Lexer) (c : Char) (hs : σ.state = .lineAnnotation) (hi : ShapeInv σ) :
    ArmShape (armLineAnnotation σ c) := by
  have hnb := notByteList_of_state hi (by rw [hs]; decide) (by rw [hs]; decide)
  have he := hi.endQ (by rw [hs]; decide) (by rw [hs]; decide)
  have htr := hi.tree
  have hns := hi.noSymbol
  generalize hr : armLineAnnotation σ c = r
  shape_tac armLineAnnotation hr htr hns hnb he

theorem armCharList_shape (σ : Lexer) (c : Char) (hs : σ.state = .charList) (hi : ShapeInv σ) :
    ArmShape (armCharList σ c) := by
  have hnb := notByteList_of_state hi (by rw [hs]; decide) (by rw [hs]; decide)
  have htr := hi.tree
  have hns := hi.noSymbol
  generalize hr : armCharList σ c = r
  unfold armCharList at hr
  simp only [] at hr
  repeat' split at hr
  all_goals (subst hr; refine ⟨fun h => ?_, fun h => ?_⟩)
  all_goals first
    | (exfalso; simp at h; done)
    | exact ShapeInv.mkOther htr hns hnb (by intro h1; simp [hs] at h1)
    | exact emit_other htr hns hnb

theorem symbol_shape {cs : List Char} (h : startsWith cs ':' = true) : ∃ rest, cs = ':' :: rest := by
  cases cs with
  | nil => simp [startsWith] at h
  | cons x r =>
    simp [startsWith] at h
    exact ⟨r, by rw [h]⟩

theorem armIdentifier_shape (cc : CharClass) (σ : Lexer) (c : Char) (hs : σ.state = .identifier) (hi : ShapeInv σ) :
    ArmShape (armIdentifier cc σ c) := by
  have hnb := notByteList_of_state hi (by rw [hs]; decide) (by rw [hs]; decide)
  have he := hi.endQ (by rw [hs]; decide) (by rw [hs]; decide)
  have htr := hi.tree
  have hns := hi.noSymbol
  generalize hr : armIdentifier cc σ c = r
  unfold armIdentifier at hr
  simp only [] at hr
  repeat' split at hr
  all_goals (subst hr; refine ⟨fun h => ?_, fun h => ?_⟩)
  all_goals first
    | (exfalso; simp at h; done)
    | exact ShapeInv.mkOther htr hns hnb (fun _ _ => he)
    | exact emit_other htr hns hnb
    | (rename_i hsym
       refine ⟨htr, fun ty hty => ?_⟩
       simp only [Option.some.injEq] at hty
       subst hty
       refine ⟨fun _ => symbol_shape ?_, fun h => Gen.TokenType.noConfusion h⟩
       simp only [Bool.and_eq_true] at hsym
       exact hsym.1)
    | exact emit_other htr (by simp) (by simp)

theorem node_type_not_lexical {cs : List Char} {node : LexerOperatorNode}
    (hw : walkOperator theTree cs = some node) :
    node.tokenType ≠ some .symbol ∧ node.tokenType ≠ some .byteList := by
  constructor <;> intro h
  · have := tree_sound cs node _ hw h
    have hop : isOpType .symbol = true := by
      unfold isOpType; rw [List.any_eq_true]; exact ⟨_, this, by simp⟩
    simp at hop
  · have := tree_sound cs node _ hw h
    have hop : isOpType .byteList = true := by
      unfold isOpType; rw [List.any_eq_true]; exact ⟨_, this, by simp⟩
    simp at hop

theorem armOperator_shape (cc : CharClass) (σ : Lexer) (c : Char) (hs : σ.state = .operator) (hi : ShapeInv σ) :
    ArmShape (armOperator cc σ c) := by
  have hnb := notByteList_of_state hi (by rw [hs]; decide) (by rw [hs]; decide)
  have he := hi.endQ (by rw [hs]; decide) (by rw [hs]; decide)
  have htr := hi.tree
  have hns := hi.noSymbol
  unfold armOperator
  simp only []
  split
  · rename_i node heq
    have hw : walkOperator theTree (σ.currentCharacters ++ [c]) = some node := by
      simpa [currentOperator, push, htr] using heq
    have := node_type_not_lexical hw
    exact ⟨fun _ => ShapeInv.mkOther htr this.1 this.2 (fun _ _ => he), fun h => by simp at h⟩
  · split
    · exact ⟨fun _ => ShapeInv.mkOther htr (by simp) (by simp) (fun _ _ => he), fun h => by simp at h⟩
    · split
      · exact ⟨fun _ => ShapeInv.mkOther htr (by simp) (by simp) (fun _ _ => he), fun h => by simp at h⟩
      · exact ⟨fun h => by simp at h, fun _ => emit_other htr hns hnb⟩

theorem utf8Len_quotes (q : Nat) : utf8Len (List.replicate q '\'') = q := by
  induction q with
  | zero => rfl
  | succ n ih =>
    have : ('\'' : Char).utf8Size = 1 := by decide
    simp [List.replicate_succ, utf8Len, ih, this]; omega

theorem armStartByteList_shape (σ : Lexer) (c : Char) (hs : σ.state = .startByteList) (hi : ShapeInv σ)
    (hns : ¬Sentinel σ c) : ArmShape (armStartByteList σ c) := by
  have htr := hi.tree
  have hnsy := hi.noSymbol
  have he := hi.endQ (by rw [hs]; decide) (by rw [hs]; decide)
  by_cases hty : σ.currentTokenType = some .byteList
  · -- the interesting case
    rcases hi.byteList hty with ⟨_, q, hq, hch⟩ | ⟨hs', _⟩
    · skip
      have hsent : (c == '\x00' && σ.atEnd) = false := by
        cases h : (c == '\x00' && σ.atEnd) with
        | false => rfl
        | true => simp at h; exact absurd ⟨h.1, h.2⟩ hns
      unfold armStartByteList
      by_cases hc : c = '\''
      · subst hc
        simp only [bne_self_eq_false, Bool.false_eq_true, ↓reduceIte, Bool.not_false, Bool.true_and, hsent]
        refine ⟨fun _ => ⟨htr, hnsy, fun _ => Or.inl ⟨hs, q + 1, by omega, ?_⟩, fun _ _ => he⟩, fun h => by simp at h⟩
        simp [push, hch, List.replicate_succ']
      · have hcne : (c != '\'') = true := by simpa using hc
        simp only [hcne, ↓reduceIte, hch, utf8Len_quotes]
        by_cases h2 : q = 2
        · subst h2
          simp only [beq_self_eq_true, ↓reduceIte, Bool.not_true, Bool.false_and, Bool.false_eq_true]
          refine ⟨fun h => by simp at h, fun _ => ⟨htr, fun ty hty' => ?_⟩⟩
          rw [hty] at hty'
          simp only [Option.some.injEq] at hty'
          subst hty'
          refine ⟨fun h => Gen.TokenType.noConfusion h, fun _ => ⟨1, [], by omega, ?_, by simp⟩⟩
          rw [hch]; rfl
        · have h2' : (q == 2) = false := by simpa using h2
          simp only [h2', Bool.false_eq_true, ↓reduceIte, Bool.not_false, Bool.true_and, hsent]
          refine ⟨fun _ => ⟨htr, hnsy, fun _ => Or.inr ⟨rfl, [c], ?_, ?_, by simp, ?_⟩, fun _ h => absurd rfl h⟩,
            fun h => by simp at h⟩
          · simp only [he]; omega
          · simp [push, hch, he]
          · intro x hx; simp at hx; subst hx; exact hc
    · rw [hs] at hs'; cases hs'
  · -- the pending type is not ByteList: nothing to show about shapes
    generalize hr : armStartByteList σ c = r
    unfold armStartByteList at hr
    simp only [] at hr
    repeat' split at hr
    all_goals (subst hr; refine ⟨fun h => ?_, fun h => ?_⟩)
    all_goals first
      | (exfalso; simp at h; done)
      | exact ShapeInv.mkOther htr hnsy hty (by first | (intro _ _; exact he) | simp_all)
      | exact emit_other htr hnsy hty

theorem head_append_of_ne_nil {body x : List Char} (hne : body ≠ []) (h : ∀ c, body.head? = some c → c ≠ '\'') :
    ∀ c, (body ++ x).head? = some c → c ≠ '\'' := by
  cases body with
  | nil => exact absurd rfl hne
  | cons b r => simpa using h

theorem armByteList_shape (σ : Lexer) (c : Char) (hs : σ.state = .byteList) (hi : ShapeInv σ) :
    ArmShape (armByteList σ c) := by
  have htr := hi.tree
  have hnsy := hi.noSymbol
  by_cases hty : σ.currentTokenType = some .byteList
  · rcases hi.byteList hty with ⟨hs', _⟩ | ⟨_, body, hlt, hch, hbne, hhead⟩
    · rw [hs] at hs'; cases hs'
    · unfold armByteList
      by_cases hc : c = '\''
      · subst hc
        simp only [beq_self_eq_true, ↓reduceIte]
        have hch1 : push σ.currentCharacters '\'' =
            List.replicate σ.startQuoteCount '\'' ++ body ++ List.replicate (σ.endQuoteCount + 1) '\'' := by
          simp [push, hch, List.replicate_succ']
        by_cases hq : σ.startQuoteCount = σ.endQuoteCount + 1
        · have hq' : (σ.startQuoteCount == σ.endQuoteCount + 1) = true := by simpa using hq
          simp only [hq', ↓reduceIte]
          refine ⟨fun h => by simp at h, fun _ => ⟨htr, fun ty hty' => ?_⟩⟩
          rw [hty] at hty'
          simp only [Option.some.injEq] at hty'
          subst hty'
          refine ⟨fun h => Gen.TokenType.noConfusion h, fun _ => ⟨σ.startQuoteCount, body, by omega, ?_, hhead⟩⟩
          simp only []
          rw [hch1, ← hq]
        · have hq' : (σ.startQuoteCount == σ.endQuoteCount + 1) = false := by simpa using hq
          simp only [hq', Bool.false_eq_true, ↓reduceIte]
          refine ⟨fun _ => ⟨htr, hnsy, fun _ => Or.inr ⟨hs, body, ?_, hch1, hbne, hhead⟩, ?_⟩, fun h => by simp at h⟩
          · simp only []; omega
          · intro _ h; exact absurd hs h
      · have hc' : (c == '\'') = false := by simpa using hc
        simp only [hc', Bool.false_eq_true, ↓reduceIte]
        refine ⟨fun _ => ⟨htr, hnsy, fun _ => Or.inr ⟨hs, body ++ List.replicate σ.endQuoteCount '\'' ++ [c], ?_, ?_, by simp,
          ?_⟩, ?_⟩, fun h => by simp at h⟩
        · simp only []; omega
        · simp [push, hch]
        · rw [List.append_assoc]; exact head_append_of_ne_nil hbne hhead
        · intro _ h; exact absurd hs h
  · generalize hr : armByteList σ c = r
    unfold armByteList at hr
    simp only [] at hr
    repeat' split at hr
    all_goals (subst hr; refine ⟨fun h => ?_, fun h => ?_⟩)
    all_goals first
      | (exfalso; simp at h; done)
      | exact ShapeInv.mkOther htr hnsy hty (by intro _ h2; simp [hs] at h2)
      | exact emit_other htr hnsy hty

theorem startToken_shape (cc : CharClass) (σ : Lexer) (c : Char) (htr : σ.operatorTree = theTree)
    (he : σ.endQuoteCount = 0) : ShapeInv (startToken cc σ c) := by
  generalize hr : startToken cc σ c = r
  unfold startToken at hr
  simp only [] at hr
  split at hr
  · rename_i node heq
    have hw : walkOperator theTree [c] = some node := by simpa [currentOperator, push, htr] using heq
    have := node_type_not_lexical hw
    subst hr
    exact ShapeInv.mkOther htr this.1 this.2 (fun _ _ => he)
  · repeat' split at hr
    all_goals (subst hr; refine ⟨htr, by simp, fun hb => ?_, fun _ _ => he⟩)
    all_goals first
      | (exfalso; simp at hb; done)
      | (rename_i hq
         have hc : c = '\'' := by simpa using hq
         subst hc
         exact Or.inl ⟨rfl, 1, Nat.le_refl 1, rfl⟩)

theorem armFloat_shape (cc : CharClass) (σ : Lexer) (c : Char) (hs : σ.state = .float) (hi : ShapeInv σ)
    (st : Step) (h : armFloat cc σ c = .ok st) :
    match st with
    | .cont σ1 nt sn => ArmShape (σ1, sn) ∧ (∀ t, nt = some t → t.tokenType = .number)
    | .returnNone s => s.result = .err := by
  have hnb := notByteList_of_state hi (by rw [hs]; decide) (by rw [hs]; decide)
  have he := hi.endQ (by rw [hs]; decide) (by rw [hs]; decide)
  have htr := hi.tree
  have hns := hi.noSymbol
  unfold armFloat at h
  split at h
  · cases h
    exact ⟨⟨fun _ => ShapeInv.mkOther htr hns hnb (fun _ _ => he), fun h => by simp at h⟩, fun t ht => by cases ht⟩
  · split at h
    · simp only [] at h
      split at h
      · cases h
      · have hsd := startToken_dot cc { σ with tokenStartRow := σ.textRow } (by simpa using htr)
        have hfr := startToken_frame cc { σ with tokenStartRow := σ.textRow } '.'
        have heq0 : (startToken cc { σ with tokenStartRow := σ.textRow } '.').endQuoteCount = 0 := by
          have := startToken_shape cc { σ with tokenStartRow := σ.textRow } '.' (by simpa using htr) (by simpa using he)
          exact this.endQ (by rw [hsd.1]; decide) (by rw [hsd.1]; decide)
        generalize startToken cc { σ with tokenStartRow := σ.textRow } '.' = s1 at h hsd heq0
        split at h
        · rename_i node heq
          cases h
          have hw : walkOperator theTree ['.', c] = some node := by
            simpa [currentOperator, push, hsd.2.1, hsd.2.2] using heq
          have := node_type_not_lexical hw
          exact ⟨⟨fun _ => ShapeInv.mkOther (by simpa using hsd.2.2) this.1 this.2 (fun _ _ => heq0),
            fun h => by simp at h⟩, fun t ht => by simp at ht; subst ht; rfl⟩
        · cases h; rfl
    · cases h
      exact ⟨⟨fun h => by simp at h, fun _ => emit_other htr hns hnb⟩, fun t ht => by cases ht⟩

theorem ShapeInv_bump {σ : Lexer} (c : Char) (h : ShapeInv σ) : ShapeInv (bumpColumn σ c) := by
  unfold bumpColumn
  split <;> exact ⟨h.tree, h.noSymbol, h.byteList, h.endQ⟩

/-- the lexer after the `set default for new` block when no token was pushed (`state == NoToken`) -/
def afterReset (σ1 : Lexer) : Lexer :=
  { σ1 with canFloat := !blocksFloat σ1.currentTokenType, state := .noToken,
            currentCharacters := [], currentTokenType := none, startQuoteCount := 0, endQuoteCount := 0,
            couldBeSubExpression := false }

theorem finishChar_noToken (cc : CharClass) (σ1 : Lexer) (c : Char) (hnt : σ1.state = .noToken) :
    finishChar cc σ1 c none true =
      (bumpColumn (if σ1.shouldCreate then startToken cc (afterReset σ1) c
                   else { afterReset σ1 with shouldCreate := true }) c, none) := by
  simp only [finishChar, ↓reduceIte, pushNewToken, hnt, bne_self_eq_false, Bool.false_eq_true, afterReset]

/-- the rest of `process_char` after an arm: the invariant is kept (or an error recorded) and an emitted token is
shaped -/
theorem finishChar_shape (cc : CharClass) (σ1 : Lexer) (c : Char) (sn : Bool) (keep : Prop)
    (hk : sn = false → keep → ShapeInv σ1)
    (he : sn = true → σ1.operatorTree = theTree ∧
      ∀ ty, σ1.currentTokenType = some ty → TokShape σ1.currentCharacters ty) :
    (finishChar cc σ1 c none sn).1.result = .err ∨
    ((keep → ShapeInv (finishChar cc σ1 c none sn).1) ∧
     ∀ t, (finishChar cc σ1 c none sn).2 = some t → TokShape t.text t.tokenType) := by
  cases sn with
  | false =>
    right
    simp only [finishChar, Bool.false_eq_true, ↓reduceIte]
    exact ⟨fun hkeep => ShapeInv_bump c (hk rfl hkeep), fun t ht => by cases ht⟩
  | true =>
    obtain ⟨htr, hemit⟩ := he rfl
    by_cases hnt : σ1.state = .noToken
    · right
      rw [finishChar_noToken cc σ1 c hnt]
      refine ⟨fun _ => ShapeInv_bump c ?_, fun t ht => by cases ht⟩
      split
      · exact startToken_shape cc _ c (by simpa [afterReset] using htr) rfl
      · exact ShapeInv.mkOther (by simpa [afterReset] using htr) (by simp [afterReset]) (by simp [afterReset])
          (fun _ _ => rfl)
    · rcases finishChar_true cc σ1 c hnt with herr | ⟨ty, hty, heq⟩
      · exact Or.inl herr
      · right
        rw [heq]
        refine ⟨fun _ => ShapeInv_bump c ?_, fun t ht => ?_⟩
        · split
          · exact startToken_shape cc _ c (by simpa [afterEmit] using htr) rfl
          · exact ShapeInv.mkOther (by simpa [afterEmit] using htr) (by simp [afterEmit]) (by simp [afterEmit])
              (fun _ _ => rfl)
        · simp only [Option.some.injEq] at ht
          subst ht
          exact hemit ty hty

/-- StartByteList on the end-of-input sentinel: only the emission part -/
theorem armStartByteList_emit (σ : Lexer) (c : Char) (hs : σ.state = .startByteList) (hi : ShapeInv σ) :
    (armStartByteList σ c).2 = true → (armStartByteList σ c).1.operatorTree = theTree ∧
      ∀ ty, (armStartByteList σ c).1.currentTokenType = some ty →
        TokShape (armStartByteList σ c).1.currentCharacters ty := by
  have htr := hi.tree
  have hnsy := hi.noSymbol
  have he := hi.endQ (by rw [hs]; decide) (by rw [hs]; decide)
  intro hsn
  unfold armStartByteList at hsn ⊢
  by_cases hc : (c != '\'') = true
  · by_cases h2 : (utf8Len σ.currentCharacters == 2) = true
    · simp only [hc, h2, ↓reduceIte, Bool.not_true, Bool.false_and, Bool.false_eq_true]
      refine ⟨htr, fun ty hty' => ?_⟩
      by_cases hty : σ.currentTokenType = some .byteList
      · rcases hi.byteList hty with ⟨_, q, hq, hch⟩ | ⟨hs', _⟩
        · rw [hty] at hty'
          simp only [Option.some.injEq] at hty'
          subst hty'
          have hq2 : q = 2 := by
            rw [hch, utf8Len_quotes] at h2; simpa using h2
          subst hq2
          refine ⟨fun h => Gen.TokenType.noConfusion h, fun _ => ⟨1, [], by omega, ?_, by simp⟩⟩
          (try simp only []); rw [hch]; rfl
        · rw [hs] at hs'; cases hs'
      · exact TokShape.other (fun h => hnsy (by rw [hty', h])) (fun h => hty (by rw [hty', h]))
    · simp [hc, h2] at hsn
  · simp [hc] at hsn

theorem ShapeInv_lexed {σ : Lexer} (n : Nat) (h : ShapeInv σ) : ShapeInv { σ with charactersLexed := n } :=
  ⟨h.tree, h.noSymbol, h.byteList, h.endQ⟩

theorem ShapeInv_atEnd {σ : Lexer} (b : Bool) (h : ShapeInv σ) : ShapeInv { σ with atEnd := b } :=
  ⟨h.tree, h.noSymbol, h.byteList, h.endQ⟩

theorem armFloat_true_none (cc : CharClass) (σ s : Lexer) (ch : Char) (nt : Option LexerToken)
    (h : armFloat cc σ ch = .ok (.cont s nt true)) : nt = none := by
  unfold armFloat at h
  split at h
  · cases h
  · split at h
    · dsimp only at h
      split at h
      · cases h
      · split at h <;> cases h
    · cases h; rfl

/-- `process_char` keeps `ShapeInv` (on a regular character) or records an error, and every token it emits is shaped -/
theorem processChar_shape (cc : CharClass) (σ : Lexer) (c : Char) (hi : ShapeInv σ) (σ' : Lexer)
    (ot : Option LexerToken) (h : processChar cc σ c = .ok (σ', ot)) :
    σ'.result = .err ∨ ((¬Sentinel σ c → ShapeInv σ') ∧ ∀ t, ot = some t → TokShape t.text t.tokenType) := by
  unfold processChar at h
  simp only [] at h
  have hi0 := ShapeInv_lexed (σ.charactersLexed + 1) hi
  have hsent : Sentinel { σ with charactersLexed := σ.charactersLexed + 1 } c ↔ Sentinel σ c := Iff.rfl
  generalize hσ0 : ({ σ with charactersLexed := σ.charactersLexed + 1 } : Lexer) = σ0 at h hi0 hsent
  rw [← hsent]
  clear hσ0 hsent hi
  have key : ∀ (p : Lexer × Bool) (keep : Prop), (Sentinel σ0 c → ¬keep) → (¬Sentinel σ0 c → keep) →
      (p.2 = false → keep → ShapeInv p.1) →
      (p.2 = true → p.1.operatorTree = theTree ∧
        ∀ ty, p.1.currentTokenType = some ty → TokShape p.1.currentCharacters ty) →
      stateStep cc σ0 c = Step.ofPair p →
      σ'.result = .err ∨ ((¬Sentinel σ0 c → ShapeInv σ') ∧ ∀ t, ot = some t → TokShape t.text t.tokenType) := by
    intro p keep _ hk2 hkeep hemit hss
    rw [hss] at h
    simp only [Step.ofPair, Outcome.ok.injEq] at h
    have := finishChar_shape cc p.1 c p.2 keep hkeep hemit
    rw [h] at this
    rcases this with herr | ⟨h1, h2⟩
    · exact Or.inl herr
    · exact Or.inr ⟨fun hns => h1 (hk2 hns), h2⟩
  have full : ∀ (p : Lexer × Bool), ArmShape p → stateStep cc σ0 c = Step.ofPair p →
      σ'.result = .err ∨ ((¬Sentinel σ0 c → ShapeInv σ') ∧ ∀ t, ot = some t → TokShape t.text t.tokenType) := by
    intro p hp hss
    exact key p (¬Sentinel σ0 c) (fun h1 h2 => h2 h1) (fun h => h) (fun h _ => hp.1 h) hp.2 hss
  unfold stateStep at h key full
  cases hs : σ0.state <;> rw [hs] at h key full <;> simp only [] at h key full
  case noToken =>
    simp only [Step.ofPair, armNoToken, finishChar, Bool.false_eq_true, ↓reduceIte, Outcome.ok.injEq,
      Prod.mk.injEq] at h
    obtain ⟨rfl, rfl⟩ := h
    right
    exact ⟨fun _ => ShapeInv_bump c (startToken_shape cc σ0 c hi0.tree
      (hi0.endQ (by rw [hs]; decide) (by rw [hs]; decide))), fun t ht => by cases ht⟩
  case float =>
    cases hst : armFloat cc σ0 c with
    | ok st =>
      have hsh := armFloat_shape cc σ0 c hs hi0 st hst
      rw [hst] at h
      cases st with
      | returnNone s =>
        simp only [Outcome.ok.injEq, Prod.mk.injEq] at h
        obtain ⟨rfl, _⟩ := h
        exact Or.inl hsh
      | cont σ1 nt sn =>
        obtain ⟨harm, hnt⟩ := hsh
        simp only [Outcome.ok.injEq] at h
        cases sn with
        | false =>
          simp only [finishChar, Bool.false_eq_true, ↓reduceIte, Prod.mk.injEq] at h
          obtain ⟨rfl, rfl⟩ := h
          right
          refine ⟨fun _ => ShapeInv_bump c (harm.1 rfl), fun t ht => ?_⟩
          have := hnt t ht
          exact TokShape.other (by rw [this]; decide) (by rw [this]; decide)
        | true =>
          have hnone := armFloat_true_none cc σ0 σ1 c nt hst
          subst hnone
          have := finishChar_shape cc σ1 c true True (fun h => by cases h) harm.2
          rw [h] at this
          rcases this with herr | ⟨h1, h2⟩
          · exact Or.inl herr
          · exact Or.inr ⟨fun _ => h1 trivial, h2⟩
    | err e => rw [hst] at h; cases h
    | panic m => rw [hst] at h; cases h
    | fuelOut => rw [hst] at h; cases h
  case startByteList =>
    by_cases hsn : Sentinel σ0 c
    · exact key _ False (fun _ h => h) (fun h => absurd hsn h) (fun _ h => h.elim)
        (armStartByteList_emit σ0 c hs hi0) rfl
    · exact full _ (armStartByteList_shape σ0 c hs hi0 hsn) rfl
  case operator => exact full _ (armOperator_shape cc σ0 c hs hi0) rfl
  case spaces => exact full _ (armSpaces_shape σ0 c hs hi0) rfl
  case subexpression => exact full _ (armSubexpression_shape σ0 c hs hi0) rfl
  case number => exact full _ (armNumber_shape cc σ0 c hs hi0) rfl
  case identifier => exact full _ (armIdentifier_shape cc σ0 c hs hi0) rfl
  case annotation => exact full _ (armAnnotation_shape cc σ0 c hs hi0) rfl
  case lineAnnotation => exact full _ (armLineAnnotation_shape σ0 c hs hi0) rfl
  case charList => exact full _ (armCharList_shape σ0 c hs hi0) rfl
  case startCharList => exact full _ (armStartCharList_shape σ0 c hs hi0) rfl
  case byteList => exact full _ (armByteList_shape σ0 c hs hi0) rfl

def AllShaped (toks : List LexerToken) : Prop := ∀ t ∈ toks, TokShape t.text t.tokenType

theorem AllShaped_snoc {toks : List LexerToken} {t : LexerToken} (h : AllShaped toks)
    (ht : TokShape t.text t.tokenType) : AllShaped (toks ++ [t]) := by
  intro x hx
  simp only [List.mem_append, List.mem_singleton] at hx
  rcases hx with hx | rfl
  · exact h x hx
  · exact ht

theorem lexEnd_shape (cc : CharClass) (hcc : cc.Sane) (fuel : Nat) (σ σ' : Lexer) (toks toks' : List LexerToken)
    (hi : ShapeInv σ) (hall : AllShaped toks) (h : lexEnd cc (fuel + 2) σ toks = .ok (toks', σ')) :
    AllShaped toks' := by
  rw [show fuel + 2 = (fuel + 1) + 1 from rfl, lexEnd] at h
  by_cases hE : σ.result.isErr = true
  · rw [if_pos hE] at h
    rw [(lexFinish_ok h).1]; exact hall
  · rw [if_neg hE] at h
    simp only [] at h
    cases hp : processChar cc { σ with atEnd := true } '\x00' with
    | ok r =>
      obtain ⟨σ1, ot⟩ := r
      rw [hp] at h
      cases ot with
      | none => simp only [] at h; rw [(lexFinish_ok h).1]; exact hall
      | some t =>
        simp only [] at h
        cases hr1 : σ1.result with
        | err => rw [hr1] at h; cases h
        | ok =>
          rw [hr1] at h
          simp only [] at h
          have hs1 := processChar_nul_some cc hcc _ σ1 t
            (by rw [show ({ σ with atEnd := true } : Lexer).operatorTree = σ.operatorTree from rfl, hi.tree]
                exact operatorTree_TreeOk) rfl hp
          have := lexEnd_second cc fuel σ1 σ' (toks ++ [t]) toks' hs1 h
          subst this
          rcases processChar_shape cc _ '\x00' (ShapeInv_atEnd true hi) σ1 (some t) hp with herr | ⟨_, htok⟩
          · rw [hr1] at herr; cases herr
          · exact AllShaped_snoc hall (htok t rfl)
    | err e => rw [hp] at h; cases h
    | panic m => rw [hp] at h; cases h
    | fuelOut => rw [hp] at h; cases h

theorem lexLoop_shape (cc : CharClass) (hcc : cc.Sane) :
    ∀ (input : List Char) (σ σ' : Lexer) (toks toks' : List LexerToken),
      ShapeInv σ → σ.atEnd = false → AllShaped toks → lexLoop cc input σ toks = .ok (toks', σ') → AllShaped toks'
  | [], σ, σ', toks, toks', hi, _, hall, h => by
    simp only [lexLoop, endFuel] at h
    exact lexEnd_shape cc hcc 2 σ σ' toks toks' hi hall h
  | c :: rest, σ, σ', toks, toks', hi, hat, hall, h => by
    simp only [lexLoop] at h
    split at h
    · rw [(lexFinish_ok h).1]; exact hall
    · cases hp : processChar cc σ c with
      | ok r =>
        obtain ⟨σ1, ot⟩ := r
        have hf := processChar_frame cc _ _ _ _ hp
        have hns : ¬Sentinel σ c := fun hs => by have := hs.2; rw [hat] at this; cases this
        rw [hp] at h
        rcases processChar_shape cc σ c hi σ1 ot hp with herr | ⟨hinv, htok⟩
        · exfalso
          cases ot with
          | none => simp only [] at h; rw [lexLoop_err cc rest σ1 toks herr] at h; cases h
          | some t => simp only [] at h; rw [herr] at h; cases h
        · have hat1 : σ1.atEnd = false := by rw [hf.2.1]; exact hat
          cases ot with
          | none => exact lexLoop_shape cc hcc rest σ1 σ' toks toks' (hinv hns) hat1 hall h
          | some t =>
            simp only [] at h
            cases hr : σ1.result with
            | err => rw [hr] at h; cases h
            | ok =>
              rw [hr] at h
              exact lexLoop_shape cc hcc rest σ1 σ' _ toks' (hinv hns) hat1 (AllShaped_snoc hall (htok t rfl)) h
      | err e => rw [hp] at h; cases h
      | panic m => rw [hp] at h; cases h
      | fuelOut => rw [hp] at h; cases h

theorem ShapeInv_init : ShapeInv (Lexer.init theTree) :=
  ⟨rfl, by simp [Lexer.init], fun h => by simp [Lexer.init] at h, fun _ _ => rfl⟩

/-- every Symbol / ByteList token `lex` returns has the shape the builder relies on -/
theorem lex_tokens_shaped (cc : CharClass) (hcc : cc.Sane) (s : List Char) (toks : List LexerToken)
    (h : lex cc s = .ok toks) : ∀ t ∈ toks, TokShape t.text t.tokenType := by
  unfold lex lexFull at h
  rw [new_eq] at h
  simp only [] at h
  cases hl : lexLoop cc s (Lexer.init theTree) [] with
  | ok r =>
    obtain ⟨toks', σ'⟩ := r
    rw [hl] at h
    simp only [Outcome.ok.injEq] at h
    subst h
    exact lexLoop_shape cc hcc s _ σ' [] toks' ShapeInv_init rfl (fun t ht => by cases ht) hl
  | err e => rw [hl] at h; cases h
  | panic m => rw [hl] at h; cases h
  | fuelOut => rw [hl] at h; cases h

end Garnish.Model.Lexer
