/-
What `Heap.WF` gives the accessors: the bounds-checked getter is exact, computed ranges stay inside the allocation,
the cells a header announces are there.
-/
import Garnish.Lemmas.Access
import Garnish.Spec.AccessWF
namespace Garnish.Access
open Garnish
open Garnish.BasicOpt (Cell)

theorem isOk_iff {α} (o : Outcome α) : isOk o = true ↔ ∃ a, o = .ok a := by
  cases o <;> simp [isOk]

/-- the cell at data address `i` (the data block of a well-formed heap lies inside the allocation) -/
def Heap.cell (h : Heap) (i : Nat) : Option Cell := h.heap[h.dstart + i]?

theorem getData_ge (h : Heap) {i : Nat} (hi : h.cursor ≤ i) : h.getData i = .err .data := by
  simp [Heap.getData, hi]

theorem Heap.WF.cell_some {h : Heap} (wf : h.WF) {i : Nat} (hi : i < h.cursor) : ∃ c, h.cell i = some c := by
  have : h.dstart + i < h.heap.size := by have := wf.1; omega
  exact ⟨h.heap[h.dstart + i], by simp [Heap.cell, this]⟩

theorem getData_lt {h : Heap} (wf : h.WF) {i : Nat} (hi : i < h.cursor) {c : Cell} (hc : h.cell i = some c) :
    h.getData i = .ok c := by
  have h1 := wf.1; have h2 := wf.2.1
  have : ¬ (i ≥ h.cursor) := by omega
  simp only [Heap.getData, this, if_false]
  rw [uadd_ok (by omega)]
  simp only [bind_ok, Heap.raw]
  unfold Heap.cell at hc
  rw [hc]

/-- the getter's three outcomes -/
theorem getData_cases {h : Heap} (wf : h.WF) (i : Nat) :
    (h.cursor ≤ i ∧ h.getData i = .err .data) ∨ (i < h.cursor ∧ ∃ c, h.cell i = some c ∧ h.getData i = .ok c) := by
  by_cases hi : i < h.cursor
  · obtain ⟨c, hc⟩ := wf.cell_some hi
    exact .inr ⟨hi, c, hc, getData_lt wf hi hc⟩
  · exact .inl ⟨by omega, getData_ge h (by omega)⟩

theorem getData_safe {h : Heap} (wf : h.WF) (i : Nat) : Safe (h.getData i) := by
  rcases getData_cases wf i with ⟨_, h1⟩ | ⟨_, c, _, h1⟩ <;> rw [h1]
  · exact safe_err _
  · exact safe_ok _

theorem Heap.WF.cellOK {h : Heap} (wf : h.WF) {i : Nat} (hi : i < h.cursor) {c : Cell} (hc : h.cell i = some c) :
    cellOK h i c = true := by
  have := wf.2.2 i hi
  unfold cellOKAt at this
  unfold Heap.cell at hc
  rw [hc] at this
  exact this

theorem rawSlice_ok (h : Heap) {a b : Nat} (site : String) (h1 : a ≤ b) (h2 : b ≤ h.heap.size) :
    h.rawSlice a b site = .ok (h.heap.toList.extract a b) := by
  have n1 : ¬ a > b := by omega
  have n2 : ¬ b > h.heap.size := by omega
  simp [Heap.rawSlice, n1, n2, Array.toList_extract]

theorem rawSlice_panics_iff (h : Heap) (a b : Nat) (site : String) :
    (∃ m, h.rawSlice a b site = .panic m) ↔ (b < a ∨ h.heap.size < b) := by
  unfold Heap.rawSlice
  split
  · simp; omega
  · split <;> simp <;> omega

/-- a sub-range of the cells a header announces -/
theorem cellsAt_sub (h : Heap) (a n s e : Nat) (hse : s ≤ e) (hen : e ≤ n) :
    h.heap.toList.extract (h.dstart + a + s) (h.dstart + a + e) = (h.cellsAt a n).extract s e := by
  unfold Heap.cellsAt
  rw [extract_sub h.heap.toList (a := h.dstart + a) (b := h.dstart + a + n) (by omega) (by omega) (by omega)]
  congr 1 <;> omega

end Garnish.Access
