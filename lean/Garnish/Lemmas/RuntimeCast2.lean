/-
Refinement lemmas for casting.rs, part 2: the list-building loops (`while let Some(part)`, the range loop of /repo
5455df2, `list_from_char_list` / `list_from_byte_list`, the list-slice loop) against the ghost list under construction
of `StoreLaws` and the value-level enumerations of Abs/Casts (`rangeItems`, `intsFrom`).
-/
import Garnish.Lemmas.RuntimeCast
set_option linter.unusedSimpArgs false
set_option linter.unusedVariables false
namespace Garnish.Lemmas.Runtime
open Garnish Gen Garnish.Abs Garnish.Model.Equality Garnish.Model.Runtime

variable {F σ : Type} {S : RStore F σ} (fo : FloatOps F)

/-- what a building loop establishes: it returned a token, only data was added, and the construction now holds the
old items followed by new ones denoting `vs` -/
def Built (S : RStore F σ) (s : σ) (res : Outcome (Nat × σ)) (items : List Nat) (vs : List (Val F)) : Prop :=
  ∃ t' s' new, res = .ok (t', s') ∧ Eff S s s' (S.regs s) (S.vals s) ∧ S.building s' = some (t', items ++ new) ∧
    DecodesList (S.view s') new vs

/-- an adder of list items: it adds a value denoting `mk c` and leaves a list under construction alone -/
structure ItemAdder {β : Type} (S : RStore F σ) (add : β → RM σ Nat) (mk : β → Val F) : Prop where
  adds : ∀ c s, Adds S (add c) s (mk c)
  keeps : ∀ c s a s', add c s = .ok (a, s') → S.building s' = S.building s

theorem numLe_eq (a b : Number F) : Model.Runtime.numLe fo a b = Abs.numLe fo a b := rfl
theorem numLt_eq (a b : Number F) : Model.Runtime.numLt fo a b = Abs.numLt fo a b := rfl

/-- one round of every loop: add an item, `add_to_list` -/
theorem addItem_step (L : StoreLaws S) {m : RM σ Nat} {v : Val F} {s : σ} {t : Nat} {items : List Nat}
    (ha : Adds S m s v) (hk : ∀ a s', m s = .ok (a, s') → S.building s' = S.building s)
    (hb : S.building s = some (t, items)) :
    ∃ a t1 s1 s2, m s = .ok (a, s1) ∧ S.addToList t a s1 = .ok (t1, s2) ∧ Eff S s s2 (S.regs s) (S.vals s) ∧
      S.building s2 = some (t1, items ++ [a]) ∧ Decodes (S.view s2) a v := by
  obtain ⟨a, s1, h1, d1, e1⟩ := ha
  have hb1 : S.building s1 = some (t, items) := (hk a s1 h1).trans hb
  obtain ⟨t1, s2, h2, e2, b2⟩ := L.addToList t items a s1 hb1
  rw [e1.regs, e1.vals] at e2
  exact ⟨a, t1, s1, s2, h1, h2, e1.trans e2, b2, e2.dec d1⟩

/-- extend a `Built` result by one item in front -/
theorem built_cons {s s2 : σ} {res : Outcome (Nat × σ)} {items : List Nat} {a : Nat} {v : Val F} {vs : List (Val F)}
    (e : Eff S s s2 (S.regs s) (S.vals s)) (d : Decodes (S.view s2) a v)
    (h : Built S s2 res (items ++ [a]) vs) : Built S s res items (v :: vs) := by
  obtain ⟨t', s', new, hr, e', b', d'⟩ := h
  rw [e.regs, e.vals] at e'
  exact ⟨t', s', a :: new, hr, e.trans e', by rw [b']; simp, .cons (e'.dec d) d'⟩

/-! ### `(SymbolList, List)` -/

theorem symListLoop_spec (L : StoreLaws S) (hsy : ItemAdder S S.addSymbol (Val.sym (F := F)))
    (hnu : ItemAdder S S.addNumber (Val.num (F := F))) :
    ∀ (ps : List (SymPart F)) (t : Nat) (items : List Nat) (s : σ), S.building s = some (t, items) →
      Built S s (symListLoop S ps t s) items (ps.map symPartVal)
  | [], t, items, s, hb => ⟨t, s, [], rfl, Eff.refl S s, by simpa using hb, .nil⟩
  | p :: ps, t, items, s, hb => by
    cases p with
    | sym y =>
      obtain ⟨a, t1, s1, s2, h1, h2, e2, b2, d2⟩ := addItem_step L (hsy.adds y s) (hsy.keeps y s) hb
      have ih := symListLoop_spec L hsy hnu ps t1 (items ++ [a]) s2 b2
      have : symListLoop S (.sym y :: ps) t s = symListLoop S ps t1 s2 := by
        rw [symListLoop]; simp only []; rw [bind_ok h1, bind_ok h2]
      rw [this]
      exact built_cons e2 d2 ih
    | num n =>
      obtain ⟨a, t1, s1, s2, h1, h2, e2, b2, d2⟩ := addItem_step L (hnu.adds n s) (hnu.keeps n s) hb
      have ih := symListLoop_spec L hsy hnu ps t1 (items ++ [a]) s2 b2
      have : symListLoop S (.num n :: ps) t s = symListLoop S ps t1 s2 := by
        rw [symListLoop]; simp only []; rw [bind_ok h1, bind_ok h2]
      rw [this]
      exact built_cons e2 d2 ih

/-! ### `(Range, List)` -/

/-- the loop of /repo 5455df2 pushes exactly the numbers Abs/Casts `rangeItems` enumerates, or fails as it does -/
theorem rangeListLoop_spec (L : StoreLaws S) (hnu : ItemAdder S S.addNumber (Val.num (F := F))) (len : Nat)
    (e : Number F) : ∀ (n fuel added : Nat) (count : Number F) (t : Nat) (items : List Nat) (s : σ),
      len = added + n → n + 1 ≤ fuel → S.building s = some (t, items) →
      match rangeItems fo n count e with
      | .ok xs => Built S s (rangeListLoop fo S len e fuel added count t s) items (xs.map .num)
      | .error err => rangeListLoop fo S len e fuel added count t s = .err err := by
  intro n
  induction n with
  | zero =>
    intro fuel added count t items s hlen hf hb
    obtain ⟨fuel, rfl⟩ : ∃ k, fuel = k + 1 := ⟨fuel - 1, by omega⟩
    have hnot : ¬ added < len := by omega
    simp only [rangeItems, rangeListLoop, hnot, decide_false, Bool.false_and, Bool.false_eq_true, if_false]
    exact ⟨t, s, [], rfl, Eff.refl S s, by simpa using hb, .nil⟩
  | succ n ih =>
    intro fuel added count t items s hlen hf hb
    obtain ⟨fuel, rfl⟩ : ∃ k, fuel = k + 1 := ⟨fuel - 1, by omega⟩
    have hlt : added < len := by omega
    cases n with
    | zero =>
      simp only [rangeItems, rangeListLoop, hlt, decide_true, Bool.true_and, numLe_eq]
      by_cases hle : Abs.numLe fo count e = true
      · simp only [hle, if_true]
        obtain ⟨a, t1, s1, s2, h1, h2, e2, b2, d2⟩ := addItem_step L (hnu.adds count s) (hnu.keeps count s) hb
        have hnot : ¬ added + 1 < len := by omega
        have ih0 := ih fuel (added + 1) count t1 (items ++ [a]) s2 (by omega) (by omega) b2
        simp only [rangeItems] at ih0
        rw [bind_ok h1, bind_ok h2]
        simp only [hnot, if_false]
        rw [bind_ok (pure_apply count s2)]
        exact built_cons e2 d2 ih0
      · simp only [hle, if_false, Bool.false_eq_true]
        exact ⟨t, s, [], rfl, Eff.refl S s, by simpa using hb, .nil⟩
    | succ n =>
      simp only [rangeItems, rangeListLoop, hlt, decide_true, Bool.true_and, numLe_eq]
      by_cases hle : Abs.numLe fo count e = true
      · simp only [hle, if_true]
        obtain ⟨a, t1, s1, s2, h1, h2, e2, b2, d2⟩ := addItem_step L (hnu.adds count s) (hnu.keeps count s) hb
        have hlt2 : added + 1 < len := by omega
        rw [bind_ok h1, bind_ok h2]
        simp only [hlt2, if_true]
        cases hinc : Number.increment fo count with
        | none =>
          simp only []
          rw [bind_err (orNumErr_none s2)]
        | some c' =>
          simp only []
          rw [bind_ok (orNumErr_some c' s2)]
          have ih0 := ih fuel (added + 1) c' t1 (items ++ [a]) s2 (by omega) (by omega) b2
          cases hri : rangeItems fo (n + 1) c' e with
          | error err => rw [hri] at ih0; simp only [] at ih0 ⊢; exact ih0
          | ok xs =>
            rw [hri] at ih0
            simp only [] at ih0 ⊢
            exact built_cons e2 d2 ih0
      · simp only [hle, if_false, Bool.false_eq_true]
        exact ⟨t, s, [], rfl, Eff.refl S s, by simpa using hb, .nil⟩

end Garnish.Lemmas.Runtime
