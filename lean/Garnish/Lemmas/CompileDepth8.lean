/-
C06 static half on compiled code, part 8: the layout loop and the ghost depths. The depths are only appended
(`DApp`), and every pending root, when it is laid out, starts with an instruction entered at the depth recorded
for it (`RootD`) — for every program, well formed or not.
-/
import Garnish.Lemmas.CompileDepth7
namespace Garnish.Abs
open Garnish Gen Garnish.Spec Garnish.Props.C06

variable {F : Type}

theorem addTerms_pending (start : Nat) (last : Option Instr) : ∀ (terms : List Instr) (s : LState F),
    (addTerms start last terms s).pending = s.pending ∧ (addTerms start last terms s).pendDep = s.pendDep
  | [], s => ⟨rfl, rfl⟩
  | t :: ts, s => by
    simp only [addTerms]
    split
    · exact addTerms_pending start last ts s
    · exact addTerms_pending start last ts (s.push t.1 t.2)

theorem addTerms_consts (start : Nat) (last : Option Instr) : ∀ (terms : List Instr) (s : LState F),
    (addTerms start last terms s).consts = s.consts
  | [], s => rfl
  | t :: ts, s => by
    simp only [addTerms]
    split
    · exact addTerms_consts start last ts s
    · exact addTerms_consts start last ts (s.push t.1 t.2)

theorem addTerms_appD (start : Nat) (last : Option Instr) : ∀ (terms : List Instr) (s : LState F),
    AppD s (addTerms start last terms s)
  | [], s => .refl s
  | t :: ts, s => by
    simp only [addTerms]
    split
    · exact addTerms_appD start last ts s
    · exact (AppD.push s _ _).trans (addTerms_appD start last ts _)

theorem addTerms_al (start : Nat) (last : Option Instr) : ∀ (terms : List Instr) (s : LState F), Al s →
    Al (addTerms start last terms s)
  | [], s, h => h
  | t :: ts, s, h => by
    simp only [addTerms]
    split
    · exact addTerms_al start last ts s h
    · exact addTerms_al start last ts _ (h.push _ _)

/-- a terminator that is not a skippable `EndExpression` is pushed -/
theorem addTerms_cons_push {start : Nat} {last : Option Instr} {t : Instr} {ts : List Instr} {s : LState F}
    (h : ¬ (last = some t ∧ t.1 = .endExpression)) :
    addTerms start last (t :: ts) s = addTerms start last ts (s.push t.1 t.2) := by
  simp only [addTerms]
  rw [if_neg (fun hc => h ⟨hc.1, hc.2.1⟩)]

/-- ghost depths only appended -/
def DApp (s s' : LState F) : Prop :=
  (∀ i, i < s.depths.size → s'.depths[i]? = s.depths[i]?) ∧ s.depths.size ≤ s'.depths.size

theorem AppD.toDApp {s s' : LState F} (h : AppD s s') : DApp s s' := ⟨h.depths, h.dsize⟩

theorem DApp.trans {a b c : LState F} (h1 : DApp a b) (h2 : DApp b c) : DApp a c :=
  ⟨fun i hi => by rw [h2.1 i (by have := h1.2; omega), h1.1 i hi], Nat.le_trans h1.2 h2.2⟩

structure DInv (s : LState F) : Prop where
  al : Al s
  zlen : s.pendDep.length = s.pending.length

section loop
variable (bodies : List (Nat × Expr F))

/-- what one layout step does to the ghost state: the root starts at the depth recorded for it -/
theorem layoutRoot_ghost {r : Root F} {s : LState F} {dr : Nat} {drest : List Nat} (hd : s.pendDep = dr :: drest)
    (hal : Al s) (hcont : r.containing < s.jumps.size) (href : RefOK r) :
    Al (layoutRoot bodies r s) ∧ DApp s (layoutRoot bodies r s) ∧
    (layoutRoot bodies r s).depths[s.instrs.size]? = some dr ∧
    (∀ p ∈ s.pending.zip drest, p ∈ (layoutRoot bodies r s).pending.zip (layoutRoot bodies r s).pendDep) ∧
    (layoutRoot bodies r s).pendDep.length + s.pending.length = (layoutRoot bodies r s).pending.length + drest.length := by
  rw [layoutRoot_eq]
  simp only
  generalize hs1 : LState.mk s.instrs (s.jumps.setIfInBounds r.patch s.instrs.size) s.consts s.pending (r :: s.done)
    s.depths (s.pendDep.headD 0) s.pendDep.tail = s1
  have s1_instrs : s1.instrs = s.instrs := by rw [← hs1]
  have s1_depths : s1.depths = s.depths := by rw [← hs1]
  have s1_dep : s1.dep = dr := by rw [← hs1]; simp [hd]
  have s1_pend : s1.pending = s.pending := by rw [← hs1]
  have s1_pd : s1.pendDep = drest := by rw [← hs1]; simp [hd]
  have s1_jsize : s1.jumps.size = s.jumps.size := by rw [← hs1]; simp
  have al1 : Al s1 := by simp only [Al, s1_instrs, s1_depths]; exact hal
  -- the emission of the body, if there is one
  generalize hs2 : bodyState bodies r s1 = s2
  have hbody : Al s2 ∧ AppD s1 s2 ∧
      s2.pendDep.length + s1.pending.length = s2.pending.length + s1.pendDep.length ∧
      ((rootBody bodies r).isSome → s2.depths[s1.instrs.size]? = some s1.dep ∧ s1.instrs.size < s2.instrs.size) ∧
      ((rootBody bodies r) = none → s2 = s1) := by
    rw [← hs2]
    simp only [bodyState]
    cases hb : rootBody bodies r with
    | none => exact ⟨al1, .refl _, Nat.add_comm _ _, fun h => by simp at h, fun _ => rfl⟩
    | some b =>
      have ds := emit_dstep r.patch r.containing b s1
      have hz := (emit_pre r.patch r.containing b s1 (by rw [s1_jsize]; exact hcont)).2
      have := len_pos b
      exact ⟨al_emit' al1 (by rw [s1_jsize]; exact hcont), ds.app, ds.zlen,
        fun _ => ⟨emit_first' r.patch r.containing b s1 al1, by simp only; omega⟩, fun h => by cases h⟩
  obtain ⟨al2, app12, zl12, hfirst, hnone⟩ := hbody
  have appT := addTerms_appD s.instrs.size s2.instrs.back? r.term s2
  have alT := addTerms_al s.instrs.size s2.instrs.back? r.term s2 al2
  obtain ⟨pT, pdT⟩ := addTerms_pending s.instrs.size s2.instrs.back? r.term s2
  refine ⟨alT, ?_, ?_, ?_, ?_⟩
  · have := (app12.trans appT).toDApp
    exact ⟨fun i hi => by rw [this.1 i (by rw [s1_depths]; exact hi), s1_depths], by rw [← s1_depths]; exact this.2⟩
  · cases hb : rootBody bodies r with
    | some b =>
      obtain ⟨h1, _⟩ := hfirst (by simp [hb])
      rw [s1_instrs, s1_dep] at h1
      exact first_app h1 appT
    | none =>
      have e2 := hnone hb
      rw [e2]
      -- no body: a nested id without a body in the table; the root is its `EndExpression`
      have hk : ∃ id, r.kind = .ref id := by
        simp only [rootBody] at hb
        cases hk : r.kind with
        | code e => simp [hk] at hb
        | ref id => exact ⟨id, rfl⟩
      obtain ⟨id, hk⟩ := hk
      have ht := (href id hk).2
      rw [ht]
      have hne : ¬ (s1.instrs.back? = some (Instruction.endExpression, (none : Option Nat)) ∧ True ∧
          s1.instrs.size > s.instrs.size) := by
        intro hc; rw [s1_instrs] at hc; omega
      simp only [addTerms]
      rw [if_neg hne]
      have := first_push al1 .endExpression none
      rw [s1_instrs, s1_dep] at this
      exact this
  · intro p hp
    rw [pT, pdT]
    refine app12.keepZ p ?_
    rw [s1_pend, s1_pd]; exact hp
  · rw [pT, pdT]
    rw [s1_pend, s1_pd] at zl12
    exact zl12

end loop

end Garnish.Abs
