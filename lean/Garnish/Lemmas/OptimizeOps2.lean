/-
`WF` preservation, continued: `pop_frame`, `parse_add_symbol` (symbol-name table), `merge_to_symbol_list`.
-/
import Garnish.Lemmas.OptimizeOps
set_option maxHeartbeats 1000000
namespace Garnish.BasicOpt
open Garnish

/-- a header followed by its inline items, appended to a well-formed store -/
theorem inline_block_wf {s s' : Store} {hdr : Cell} {items : List Cell} (hwf : WF s)
    (hcells : s'.cells = s.cells ++ (#[hdr] ++ items.toArray)) (hf : SameFrame s s')
    (hkind : (hdr = .charList items.length ∧ ∀ c ∈ items, isChar c = true) ∨
             (hdr = .byteList items.length ∧ ∀ c ∈ items, isByte c = true) ∨
             (hdr = .symbolList items.length ∧ ∀ c ∈ items, isSymPart c = true)) :
    WF s' ∧ isNode s'.cells s.cells.size = true := by
  have hlist : s'.cells.toList = (s.cells.toList ++ [hdr]) ++ items ++ [] := by rw [hcells]; simp
  have hhdr : s'.cells[s.cells.size]? = some hdr := by
    rw [← Array.getElem?_toList, hlist]; simp
  have hsize : s'.cells.size = s.cells.size + 1 + items.length := by rw [hcells]; simp; omega
  have hshape : shape s'.cells s.cells.size = some ⟨hdr, items, []⟩ := by
    rcases hkind with ⟨rfl, hall'⟩ | ⟨rfl, hall'⟩ | ⟨rfl, hall'⟩
    · have hread := inlineCells_suffix (p := isChar) items _ [] s'.cells hall' hlist
      simp only [List.length_append, List.length_singleton, Array.length_toList] at hread
      unfold shape; rw [hhdr]; simp only [hread, Option.map_some]
    · have hread := inlineCells_suffix (p := isByte) items _ [] s'.cells hall' hlist
      simp only [List.length_append, List.length_singleton, Array.length_toList] at hread
      unfold shape; rw [hhdr]; simp only [hread, Option.map_some]
    · have hread := inlineCells_suffix (p := isSymPart) items _ [] s'.cells hall' hlist
      simp only [List.length_append, List.length_singleton, Array.length_toList] at hread
      unfold shape; rw [hhdr]; simp only [hread, Option.map_some]
  have hnode : isNode s'.cells s.cells.size = true := by simp [isNode, hshape]
  refine ⟨append_wf _ hwf hcells hf.1 hf.2.2.1 ?_ ?_ ?_ ?_, hnode⟩
  · intro j hj1 hj2
    by_cases hj : j = s.cells.size
    · subst hj
      refine ⟨by simp [nodeOK, hshape], ?_, ?_⟩
      · simp only [listOK, hhdr]
        rcases hkind with ⟨rfl, _⟩ | ⟨rfl, _⟩ | ⟨rfl, _⟩ <;> rfl
      · simp only [headerOK, hhdr]
        rcases hkind with ⟨rfl, _⟩ | ⟨rfl, _⟩ | ⟨rfl, _⟩ <;> exact hnode
    · obtain ⟨t, rfl⟩ : ∃ t, j = s.cells.size + 1 + t := ⟨j - (s.cells.size + 1), by omega⟩
      have ht : t < items.length := by omega
      obtain ⟨c, hct⟩ : ∃ c, items[t]? = some c := ⟨items[t], by simp [ht]⟩
      have hget : s'.cells[s.cells.size + 1 + t]? = some c := by
        rw [← Array.getElem?_toList, hlist, List.append_nil]
        have e : s.cells.size + 1 + t = (s.cells.toList ++ [hdr]).length + t := by simp
        rw [e, List.getElem?_append_right (Nat.le_add_right _ _)]
        simpa using hct
      have hmem : c ∈ items := List.mem_of_getElem? hct
      have hleaf : soloShape c = some ⟨c, [], []⟩ ∧ (∀ cells : Array Cell, ∀ j, cells[j]? = some c →
          listOK cells j = true ∧ headerOK cells j = true) := by
        rcases hkind with ⟨_, hall'⟩ | ⟨_, hall'⟩ | ⟨_, hall'⟩ <;> have := hall' _ hmem <;>
          cases c <;> simp [isChar, isByte, isSymPart] at this <;>
          exact ⟨rfl, fun cells j h => by simp [listOK, headerOK, h]⟩
      have hsh : shape s'.cells (s.cells.size + 1 + t) = some ⟨c, [], []⟩ := shape_of_solo hget hleaf.1
      exact ⟨by simp [nodeOK, hsh], (hleaf.2 _ _ hget).1, (hleaf.2 _ _ hget).2⟩
  · rw [hf.2.2.2.2.1, hcells]; exact headOK_append hwf _ hwf.reg
  · rw [hf.2.2.2.1, hcells]; exact headOK_append hwf _ hwf.val
  · rw [hf.2.2.2.2.2, hcells]; exact headOK_append hwf _ hwf.frm

/-- `pop_frame` keeps `WF` -/
theorem popFrame_wf {s s' : Store} {r : Option Nat} (hwf : WF s) (h : Store.popFrame s = .ok (s', r)) : WF s' := by
  unfold Store.popFrame at h
  cases hcf : s.currentFrame with
  | none =>
    simp only [hcf, Outcome.ok.injEq, Prod.mk.injEq] at h
    rw [← h.1]; exact hwf
  | some i =>
    simp only [hcf, bind_eq_ok] at h
    obtain ⟨ret, _, c, hg, h2⟩ := h
    have hc := get_ok hg
    have hfn := hwf.frm
    rw [hcf] at hfn
    simp only [headOK, isNode, Option.isSome_iff_exists] at hfn
    obtain ⟨sh, hsh⟩ := hfn
    have hkid : ∀ k ∈ sh.kids, isNode s.cells k = true := fun k hk => kid_node hwf hsh hk
    unfold shape at hsh
    rw [hc] at hsh
    cases c <;> simp only [pure_eq_ok, Prod.mk.injEq] at h2 <;> try (simp at h2; done)
    all_goals obtain ⟨h2, _⟩ := h2
    all_goals subst h2
    all_goals simp only [Option.map_eq_some_iff] at hsh
    all_goals obtain ⟨jp, _, rfl⟩ := hsh
    · exact hwf.withHeads _ _ _ (hkid _ (by simp)) hwf.val (hkid _ (by simp))
    · exact hwf.withHeads _ _ _ rfl hwf.val (hkid _ (by simp))
    · exact hwf.withHeads _ _ _ (hkid _ (by simp)) hwf.val rfl
    · exact hwf.withHeads _ _ _ rfl hwf.val rfl

/-- the symbol table gets an entry that points to a node -/
theorem pushSymbol_wf {s : Store} {sym di : Nat} (hwf : WF s) (hd : isNode s.cells di = true) :
    WF (Store.pushSymbol s sym di) := by
  have hcells : (Store.pushSymbol s sym di).cells = s.cells := by unfold Store.pushSymbol; simp only; split <;> rfl
  have hret : (Store.pushSymbol s sym di).retention = s.retention := by unfold Store.pushSymbol; simp only; split <;> rfl
  have hreg : (Store.pushSymbol s sym di).currentRegister = s.currentRegister := by
    unfold Store.pushSymbol; simp only; split <;> rfl
  have hval : (Store.pushSymbol s sym di).currentValue = s.currentValue := by
    unfold Store.pushSymbol; simp only; split <;> rfl
  have hfrm : (Store.pushSymbol s sym di).currentFrame = s.currentFrame := by
    unfold Store.pushSymbol; simp only; split <;> rfl
  have hsym : ∀ c ∈ (Store.pushSymbol s sym di).symtab.toList, c ∈ s.symtab.toList ∨ c = .associativeItem sym di := by
    intro c hc
    unfold Store.pushSymbol at hc
    simp only at hc
    split at hc <;>
    · simp only [List.mem_mergeSort, List.mem_append, List.mem_singleton] at hc
      exact hc
  refine ⟨by rw [hcells, hret]; exact hwf.retLe, by rw [hcells]; exact hwf.nodes, by rw [hcells]; exact hwf.lists,
    by rw [hcells]; exact hwf.headers, by rw [hcells, hret]; exact hwf.extent, by rw [hcells, hreg]; exact hwf.reg,
    by rw [hcells, hval]; exact hwf.val, by rw [hcells, hfrm]; exact hwf.frm, ?_⟩
  intro c hc
  rw [hcells]
  rcases hsym c hc with h | rfl
  · exact hwf.syms c h
  · simpa [symOK] using hd

/-- `parse_add_symbol` keeps `WF` -/
theorem parseAddSymbol_wf {s s' : Store} {sym : Nat} {name : List Nat} {a : Nat} (hwf : WF s)
    (h : Store.parseAddSymbol s sym name = .ok (s', a)) : WF s' ∧ isNode s'.cells a = true := by
  simp only [Store.parseAddSymbol, bind_eq_ok, pure_eq_ok, Prod.mk.injEq] at h
  obtain ⟨⟨s1, si⟩, hp, ⟨s2, li⟩, hin, hs', ha⟩ := h
  subst hs'; subst ha
  obtain ⟨hw1, hsi, hn1⟩ := push_solo_wf (sh := ⟨.symbol sym, [], []⟩) hwf rfl (by intro k hk; simp at hk) hp
  obtain ⟨hw2, hli, hn2⟩ := addInline_wf hw1 (Or.inl ⟨by simp, by
    intro c hc
    simp only [List.mem_map] at hc
    obtain ⟨x, _, rfl⟩ := hc
    rfl⟩) hin
  refine ⟨pushSymbol_wf hw2 hn2, ?_⟩
  have hcells : (Store.pushSymbol s2 sym li).cells = s2.cells := by unfold Store.pushSymbol; simp only; split <;> rfl
  rw [hcells]
  -- the symbol cell pushed first is still a node after the text was appended
  simp only [Store.addInline, bind_eq_ok, pure_eq_ok, Prod.mk.injEq] at hin
  obtain ⟨⟨s1', i'⟩, hp', s2', hall, hs2, _⟩ := hin
  subst hs2
  obtain ⟨_, hc1', _⟩ := push_ok hp'
  obtain ⟨hc2', _⟩ := pushAll_spec _ _ _ hall
  have hlt : si < s1.cells.size := head_lt (cells := s1.cells) (a := si) hn1
  have : s2'.cells = s1.cells ++ (#[Cell.charList (name.map Cell.char).length] ++ (name.map Cell.char).toArray) := by
    rw [hc2', hc1']; apply Array.ext'; simp
  rw [this, isNode_append _ _ hw1.headers hlt]; exact hn1

theorem agreeNC_append_toList {A B : Array Cell} {l : List Cell} (h : B.toList = A.toList ++ l) : AgreeNC A B := by
  intro i c hc _
  have hi : i < A.size := by
    rcases Nat.lt_or_ge i A.size with h | h
    · exact h
    · rw [Array.getElem?_eq_none h] at hc; cases hc
  rw [← Array.getElem?_toList, h, List.getElem?_append_left (by simpa using hi), Array.getElem?_toList]; exact hc

/-- the parts of a symbol list that is a node -/
theorem symList_parts {cells : Array Cell} {a n : Nat} (hc : cells[a]? = some (.symbolList n))
    (hn : isNode cells a = true) : ∃ l, inlineCells cells isSymPart (a + 1) n = some l := by
  simp only [isNode, Option.isSome_iff_exists] at hn
  obtain ⟨sh, hsh⟩ := hn
  unfold shape at hsh
  rw [hc] at hsh
  simp only [Option.map_eq_some_iff] at hsh
  obtain ⟨l, hl, _⟩ := hsh
  exact ⟨l, hl⟩

theorem copyCells_frame : ∀ (n : Nat) (s s' : Store) (i : Nat), Store.copyCells s i n = .ok s' → SameFrame s s' :=
  fun n s s' i h => (copyCells_ext 0 n s s' i h).frame

/-- `merge_to_symbol_list` keeps `WF` -/
theorem mergeToSymbolList_wf {s s' : Store} {first second i : Nat} (hwf : WF s)
    (hn1 : isNode s.cells first = true) (hn2 : isNode s.cells second = true)
    (h : Store.mergeToSymbolList s first second = .ok (s', i)) : WF s' ∧ isNode s'.cells i = true := by
  simp only [Store.mergeToSymbolList, bind_eq_ok] at h
  obtain ⟨a, hga, b, hgb, h⟩ := h
  have hca := get_ok hga
  have hcb := get_ok hgb
  have unitCase : ∀ {s' i}, s.push Cell.unit = .ok (s', i) → WF s' ∧ isNode s'.cells i = true := by
    intro s' i hp
    obtain ⟨hw, hi, hn⟩ := push_solo_wf (sh := ⟨.unit, [], []⟩) hwf rfl (by intro k hk; simp at hk) hp
    exact ⟨hw, hn⟩
  -- all four successful shapes end in `header ++ items`
  have finish : ∀ {s' : Store} {n : Nat} {items : List Cell}, s'.cells.toList = s.cells.toList ++ (Cell.symbolList n :: items) →
      SameFrame s s' → items.length = n → (∀ c ∈ items, isSymPart c = true) → WF s' ∧ isNode s'.cells s.cells.size = true := by
    intro s' n items hl hf hlen hall
    have hcells : s'.cells = s.cells ++ (#[Cell.symbolList n] ++ items.toArray) := by
      apply Array.ext'; rw [hl]; simp
    exact inline_block_wf hwf hcells hf (Or.inr (Or.inr ⟨by rw [hlen], hall⟩))
  split at h
  · -- symbol list, symbol list
    rename_i n1 n2
    simp only [bind_eq_ok, pure_eq_ok, Prod.mk.injEq] at h
    obtain ⟨⟨s1, i1⟩, hp, s2, hcp1, s3, hcp2, hs', hi⟩ := h
    subst hs'; subst hi
    obtain ⟨hi1, hc1, hf1⟩ := push_ok hp
    obtain ⟨l1, hl1⟩ := symList_parts hca hn1
    obtain ⟨l2, hl2⟩ := symList_parts hcb hn2
    have hl1s : s1.cells.toList = s.cells.toList ++ [Cell.symbolList (n1 + n2)] := by rw [hc1]; simp
    have e1 := copyCells_spec (p := isSymPart) (by intro x; rfl) _ _ _ _ _
      (inlineCells_agree (agreeNC_append_toList hl1s) _ (by intro x; rfl) _ _ _ hl1) hcp1
    have hl2s : s2.cells.toList = s.cells.toList ++ ([Cell.symbolList (n1 + n2)] ++ l1) := by rw [e1, hl1s]; simp
    have e2 := copyCells_spec (p := isSymPart) (by intro x; rfl) _ _ _ _ _
      (inlineCells_agree (agreeNC_append_toList hl2s) _ (by intro x; rfl) _ _ _ hl2) hcp2
    obtain ⟨len1, all1⟩ := inlineCells_props _ _ _ hl1
    obtain ⟨len2, all2⟩ := inlineCells_props _ _ _ hl2
    rw [hi1]
    have hfin : s3.cells.toList = s.cells.toList ++ (Cell.symbolList (n1 + n2) :: (l1 ++ l2)) := by
      rw [e2, hl2s]; simp
    have hlen : (l1 ++ l2).length = n1 + n2 := by rw [List.length_append, len1, len2]
    exact finish hfin
      ((hf1.trans (copyCells_frame _ _ _ _ hcp1)).trans (copyCells_frame _ _ _ _ hcp2)) hlen
      (fun c hc => by
        rcases List.mem_append.mp hc with h | h
        · exact all1 c h
        · exact all2 c h)
  · -- symbol list, part
    rename_i n1 hne
    split at h
    · rename_i hy
      simp only [bind_eq_ok, pure_eq_ok, Prod.mk.injEq] at h
      obtain ⟨⟨s1, i1⟩, hp, s2, hcp1, ⟨s3, i3⟩, hp3, hs', hi⟩ := h
      subst hs'; subst hi
      obtain ⟨hi1, hc1, hf1⟩ := push_ok hp
      obtain ⟨_, hc3, hf3⟩ := push_ok hp3
      obtain ⟨l1, hl1⟩ := symList_parts hca hn1
      have hl1s : s1.cells.toList = s.cells.toList ++ [Cell.symbolList (n1 + 1)] := by rw [hc1]; simp
      have e1 := copyCells_spec (p := isSymPart) (by intro x; rfl) _ _ _ _ _
        (inlineCells_agree (agreeNC_append_toList hl1s) _ (by intro x; rfl) _ _ _ hl1) hcp1
      obtain ⟨len1, all1⟩ := inlineCells_props _ _ _ hl1
      rw [hi1]
      have hfin : s3.cells.toList = s.cells.toList ++ (Cell.symbolList (n1 + 1) :: (l1 ++ [b])) := by
        rw [hc3]; simp [e1, hl1s]
      have hlen : (l1 ++ [b]).length = n1 + 1 := by rw [List.length_append, len1]; rfl
      exact finish hfin ((hf1.trans (copyCells_frame _ _ _ _ hcp1)).trans hf3) hlen
        (fun c hc => by
          rcases List.mem_append.mp hc with h | h
          · exact all1 c h
          · simp at h; subst h; exact hy)
    · exact unitCase h
  · -- part, symbol list
    rename_i n2 hne
    split at h
    · rename_i hx
      simp only [bind_eq_ok, pure_eq_ok, Prod.mk.injEq] at h
      obtain ⟨⟨s1, i1⟩, hp, ⟨s2, i2⟩, hp2, s3, hcp2, hs', hi⟩ := h
      subst hs'; subst hi
      obtain ⟨hi1, hc1, hf1⟩ := push_ok hp
      obtain ⟨_, hc2, hf2⟩ := push_ok hp2
      obtain ⟨l2, hl2⟩ := symList_parts hcb hn2
      have hl2s : s2.cells.toList = s.cells.toList ++ [Cell.symbolList (n2 + 1), a] := by rw [hc2, hc1]; simp
      have e2 := copyCells_spec (p := isSymPart) (by intro x; rfl) _ _ _ _ _
        (inlineCells_agree (agreeNC_append_toList hl2s) _ (by intro x; rfl) _ _ _ hl2) hcp2
      obtain ⟨len2, all2⟩ := inlineCells_props _ _ _ hl2
      rw [hi1]
      have hfin : s3.cells.toList = s.cells.toList ++ (Cell.symbolList (n2 + 1) :: (a :: l2)) := by
        rw [e2, hl2s]; simp
      have hlen : (a :: l2).length = n2 + 1 := by rw [List.length_cons, len2]
      exact finish hfin ((hf1.trans hf2).trans (copyCells_frame _ _ _ _ hcp2)) hlen
        (fun c hc => by
          rcases List.mem_cons.mp hc with h | h
          · subst h; exact hx
          · exact all2 c h)
    · exact unitCase h
  · -- part, part
    rename_i hne1 hne2
    split at h
    · rename_i hxy
      simp only [Bool.and_eq_true] at hxy
      simp only [bind_eq_ok, pure_eq_ok, Prod.mk.injEq] at h
      obtain ⟨⟨s1, i1⟩, hp, ⟨s2, i2⟩, hp2, ⟨s3, i3⟩, hp3, hs', hi⟩ := h
      subst hs'; subst hi
      obtain ⟨hi1, hc1, hf1⟩ := push_ok hp
      obtain ⟨_, hc2, hf2⟩ := push_ok hp2
      obtain ⟨_, hc3, hf3⟩ := push_ok hp3
      rw [hi1]
      have hfin : s3.cells.toList = s.cells.toList ++ (Cell.symbolList 2 :: [a, b]) := by rw [hc3, hc2, hc1]; simp
      exact finish hfin ((hf1.trans hf2).trans hf3) rfl
        (fun c hc => by
          simp at hc
          rcases hc with rfl | rfl
          · exact hxy.1
          · exact hxy.2)
    · exact unitCase h

end Garnish.BasicOpt
