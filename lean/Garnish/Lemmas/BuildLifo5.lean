/-
C04, builder half — the order of the out-of-line parts, part 5: helper facts, and one handler call keeps the part of `LInv`
that is about build nodes, reachability and recorded arms.
-/
import Garnish.Lemmas.BuildLifo4
namespace Garnish.Lemmas.BuildSeq
open Garnish Garnish.Gen Garnish.Model.Parser Garnish.Model.Literals Garnish.Model.Build Garnish.Lemmas.Build
open Garnish.Lemmas.BuildTotal
open Garnish.Lemmas.BuildOrder (Above above_append_left above_append_mem above_append_right above_mem above_irrefl
  above_top_false above_init Attr Moving nm1 nm2 nm3 nmr nm23 nm123 get_append attr_append)

variable {F : Type} {root : Nat} {tree : Array ParseNode} {G : Nat → Prop} {m0 : Nat}

/-! ### static facts about conditional parents -/

/-- the conditional parent lies above an in-line child that is emitted before the parent's last visit -/
theorem CP.pre : ∀ {x cp : Nat}, CP tree G root x cp → ∃ c, PreC tree cp c ∧ IDesc tree c x
  | _, _, .logical (pn := pn) h1 h2 h3 =>
    ⟨_, ⟨pn, h1, Or.inl ⟨h3, by
      cases hd : pn.definition <;> rw [hd] at h2 <;> simp [isLogical] at h2 <;> rfl⟩⟩, IDesc.refl _⟩
  | _, _, .inherit h1 h2 h3 h4 =>
    let ⟨c, hc, hd⟩ := CP.pre h4
    ⟨c, hc, IDesc.step hd (else_ilink h1 h2 h3)⟩
  | _, _, .top (pn := pn) h1 h2 h3 _ =>
    ⟨_, ⟨pn, h1, by
      rcases h3 with h | h
      · exact Or.inl ⟨h, by rw [h2]; rfl⟩
      · exact Or.inr ⟨h, by rw [h2]; rfl⟩⟩, IDesc.refl _⟩

/-- a conditional parent that is an ElseJump is the head of its chain -/
theorem CP.head : ∀ {x cp : Nat} {sn : ParseNode}, CP tree G root x cp → tree[cp]? = some sn → sn.definition = .elseJump →
    NCP tree G root cp
  | _, _, _, .logical h1 h2 _, hs, hd => by
    rw [h1] at hs; cases hs
    rw [hd] at h2; exact absurd h2 (by simp [isLogical])
  | _, _, _, .inherit _ _ _ h4, hs, hd => CP.head h4 hs hd
  | _, _, _, .top _ _ _ h4, _, _ => h4

theorem Arm.sched {r s k : Nat} (h : Arm tree G root r s k) : Sched tree G root r s k := by
  obtain ⟨pn, h1, h2, h3, h4, h5⟩ := h
  exact ⟨pn, h1, h2, Or.inr ⟨h3, h4, h5⟩⟩

theorem Sched.cases {r s k : Nat} (h : Sched tree G root r s k) :
    (s = k ∧ ∃ pn, tree[k]? = some pn ∧ pn.right = some r ∧
      (isDirect pn.definition = true ∨ (isJumpIf pn.definition = true ∧ NCP tree G root k))) ∨ Arm tree G root r s k := by
  obtain ⟨pn, h1, h2, h3⟩ := h
  rcases h3 with ⟨e, h4⟩ | ⟨h4, h5, h6⟩
  · exact Or.inl ⟨e, pn, h1, h2, h4⟩
  · exact Or.inr ⟨pn, h1, h2, h4, h5, h6⟩

/-- the owner lies in line below (or is) the scheduler -/
theorem Sched.idesc {r s k : Nat} (h : Sched tree G root r s k) : IDesc tree s k := by
  rcases h.cases with ⟨e, _⟩ | ⟨pn, _, _, _, h4, _⟩
  · subst e; exact IDesc.refl _
  · exact h4.idesc

theorem jumpIf_not_direct {d : Definition} (h : isJumpIf d = true) : isDirect d = false := by
  cases d <;> simp [isJumpIf] at h <;> rfl
theorem jumpIf_not_else {d : Definition} (h : isJumpIf d = true) : d ≠ .elseJump := by
  intro e; subst e; simp [isJumpIf] at h
theorem direct_not_else {d : Definition} (h : isDirect d = true) : d ≠ .elseJump := by
  intro e; subst e; simp [isDirect, isLogical] at h

/-! ### dynamic helper facts -/

section dyn
variable {ph ph' : Nat → Phase} {ctx ctx' : Ctx F} {ni : Nat} {pn : ParseNode} {vni : Phase} {cs rs suf rsuf : List Nat}
  {l : List (Option Nat)} {M M' : Array (Option Nat)}

theorem StepL.ne0 (sl : StepL root tree G ph ph' ctx ctx' ni pn vni cs rs suf rsuf l M M') {x : Nat} (h : ph x ≠ .p0) :
    ph' x ≠ .p0 := by
  rcases sl.st.cases x with hx | ⟨_, h0⟩ | ⟨hx, _⟩ | ⟨h1, h2⟩
  · subst hx; rw [sl.st.hni']; rcases sl.st.hv with e | e <;> rw [e] <;> intro h' <;> cases h'
  · exact absurd h0 h
  · rcases sl.hrsph x hx with e | ⟨o, e⟩ <;> rw [e] <;> intro h' <;> cases h'
  · rw [sl.st.hother x h1 h2]; exact h

/-- a node that is neither unscheduled nor a recorded arm stays so -/
theorem StepL.settled (sl : StepL root tree G ph ph' ctx ctx' ni pn vni cs rs suf rsuf l M M') {x : Nat} (h0 : ph x ≠ .p0)
    (hc : ∀ o, ph x ≠ .pc o) : ph' x ≠ .p0 ∧ (∀ o, ph' x ≠ .pc o) ∧ (x ≠ ni → ph' x = ph x) := by
  have hnm : ¬ Moving ph x := by
    intro hm; rcases hm with hm | ⟨o, hm⟩
    · exact h0 hm
    · exact hc o hm
  rcases Classical.em (x = ni) with e | e
  · subst e
    refine ⟨sl.ne0 h0, fun o => ?_, fun h => absurd rfl h⟩
    rw [sl.st.hni']; rcases sl.st.hv with e | e <;> rw [e] <;> intro h' <;> cases h'
  · have := sl.st.keep hnm e
    exact ⟨by rw [this]; exact h0, fun o => by rw [this]; exact hc o, fun _ => this⟩

/-- the head of the chain of an active node is in its second visit -/
theorem cp_head_p2 (V : Validated root tree G) {ctx0 : Ctx F} (hinv : Inv root tree G ph ctx0) {S : List Nat} {nodes : Nodes}
    (ho : SInv root tree G m0 ph S nodes M) {x cp : Nat} (hx : Act ph x) (h : CP tree G root x cp) : ph cp = .p2 := by
  obtain ⟨c, hc, hd⟩ := h.pre
  have hcp := h.inG V
  rcases idesc_parent_visited V hinv hcp hc.ilink.isChild hd hx.ne0 with h2 | h3
  · exact h2
  · exact absurd hx (ho.preDone cp c x hcp hc hd h3)

end dyn

end Garnish.Lemmas.BuildSeq
