/-
Depth side conditions from the static analysis of Props/C06Static.lean: `arityOf` (the `needs n` of `C06.edges`), `Good` gives `MDeepN`
at the instruction's arity, an `EndExpression` with no frame left has exactly one register (`deep_of_balanced`).
-/
import Garnish.Props.C06Static
import Garnish.Lemmas.RuntimeOnG4
set_option linter.unusedSimpArgs false
set_option linter.unusedVariables false
namespace Garnish.Lemmas.Runtime.On
open Garnish Gen Garnish.Abs Garnish.Model.Equality Garnish.Model.Runtime Garnish.Lemmas.Runtime
open Garnish.Props.C06

variable {F : Type} {P : Prog F} {host : Host F} {fo : FloatOps F}

/-- how many registers the instruction pops (the `needs n` of `C06.edges`) -/
def arityOf (i : Instruction) (o : Option Nat) : Nat :=
  match i with
  | .put | .putValue | .resolve | .invalid | .startSideEffect | .jumpTo | .applyType => 0
  | .pushValue | .updateValue | .endSideEffect | .jumpIfTrue | .jumpIfFalse | .and | .or | .reapply | .emptyApply
  | .endExpression => 1
  | .apply | .makePair => 2
  | .makeList => o.getD 0
  | op => if isUnaryOp op then 1 else if isBinaryOp op then 2 else 0

theorem needs_le {n k : Nat} {r es : List (Nat × Nat)} (h : (if n ≤ k then some r else none) = some es) : n ≤ k := by
  split at h
  · assumption
  · cases h

/-- where the analysis defines the successors, the instruction finds the operands of its arity -/
theorem arity_le_of_edges {pc k : Nat} {i : Instruction} {o : Option Nat} {es : List (Nat × Nat)}
    (hi : P.instrs[pc]? = some (i, o)) (he : edges P pc k = some es) : arityOf i o ≤ k := by
  simp only [edges, hi] at he
  cases i <;> simp only [arityOf, isUnaryOp, isBinaryOp, if_true, if_false, Bool.false_eq_true] at he ⊢ <;>
    first
    | exact Nat.zero_le _
    | exact needs_le he
    | (cases ht : (o.bind fun j => P.jumps[j]?) with
       | none => rw [ht] at he; cases he
       | some t => rw [ht] at he; exact needs_le he)
    | (split at he
       · omega
       · cases he)
    | (cases o with
       | none => cases he
       | some n => exact needs_le he)

/-- `Good` gives `MDeepN` for as many registers as the frame-relative depth -/
theorem mdeepN_of_good {d : Array (Option Nat)} {s : MState F} (hg : Good P d s) {k : Nat}
    (hk : k ≤ s.regs.length - base s.frames) : MDeepN s k := by
  intro fr frs hf
  have hb := hg.1
  rw [hf] at hb hk
  simp only [base] at hb hk
  omega

/-- **depth side conditions from the static analysis**: in every state a balanced program reaches, the instruction at
the cursor finds its operands above the registers the newest frame saved (`MDeepN` at its arity), and an `EndExpression`
with no frame left has exactly one register -/
theorem deep_of_balanced {entry : Nat} {d : Array (Option Nat)} (h : absDepth P entry = some d)
    (hentry : entry < P.instrs.size) (vals : List (Val F)) (tr : List (HostCall F)) {s : MState F}
    (hr : ReachK fo host P (entry :: exprEntries P) ⟨entry, [], vals, [], tr⟩ s)
    {i : Instruction} {o : Option Nat} (hi : P.instrs[s.pc]? = some (i, o)) :
    MDeepN s (arityOf i o) ∧ (i = .endExpression → s.frames = [] → ∃ r, s.regs = [r]) := by
  have hg := absDepth_sound (fo := fo) (host := host) h hentry vals tr hr
  obtain ⟨es, he⟩ := absDepth_operands_present (fo := fo) (host := host) h hentry vals tr hr
  refine ⟨mdeepN_of_good hg (arity_le_of_edges hi he), fun hie hf => ?_⟩
  subst hie
  have h1 := absDepth_endExpression_one (fo := fo) (host := host) h hentry vals tr hr hi
  rw [hf] at h1
  simp only [base] at h1
  match hs : s.regs, h1 with
  | [r], _ => exact ⟨r, rfl⟩

end Garnish.Lemmas.Runtime.On
