/-
Lemmas about the lexer model (Garnish.Model.Lexer = the lexer with the repair patches lexfix-1..5), proved for the
model as it is.

* `processChar_ok`: under `Inv` (Float state ⇒ `1 ≤ text_column`, the fact the Rust code silently relies on)
  `process_char` never panics and re-establishes `Inv`; hence the `text_column - 1` underflow (lexer.rs:473) is
  unreachable.
* `processChar_frame`: `process_char` increments `characters_lexed` by one and leaves `operator_tree`, `at_end` alone.
* `lexFull_total`: `lex` never returns `panic` / `fuelOut`; when it returns `Ok` the number of `process_char` calls
  (`characters_lexed`) is `input.length + 1` or `input.length + 2` (the final `'\0'` is pushed through a second time
  when the first `'\0'` produced a token); an `Err` can be returned earlier.
Assumption on the Unicode tables (`CharClass.Sane`): `'\0'` and `'\n'` are neither numeric nor alphanumeric;
`rustTables_sane` proves it for the generated tables.
-/
import Garnish.Model.Lexer
import Garnish.Gen.CharRanges
namespace Garnish.Model.Lexer


structure CharClass.Sane (cc : CharClass) : Prop where
  nulNumeric : cc.isNumeric '\x00' = false
  nulAlphanumeric : cc.isAlphanumeric '\x00' = false
  nlNumeric : cc.isNumeric '\n' = false
  nlAlphanumeric : cc.isAlphanumeric '\n' = false

def Inv (s : Lexer) : Prop :=
  s.state = .float → 1 ≤ s.textColumn

theorem startToken_float (cc : CharClass) (s : Lexer) (c : Char)
    (h : (startToken cc s c).state = .float) : s.state = .float ∧ (startToken cc s c).textColumn = s.textColumn := by
  generalize hr : startToken cc s c = r at h ⊢
  unfold startToken at hr
  try simp only [] at hr
  repeat' split at hr
  all_goals (subst hr; simp_all)

@[simp] theorem bumpColumn_state (s : Lexer) (c : Char) : (bumpColumn s c).state = s.state := by
  unfold bumpColumn; split <;> rfl
@[simp] theorem bumpColumn_chars (s : Lexer) (c : Char) : (bumpColumn s c).currentCharacters = s.currentCharacters := by
  unfold bumpColumn; split <;> rfl
theorem bumpColumn_ne_nl (s : Lexer) (c : Char) (h : c ≠ '\n') : (bumpColumn s c).textColumn = s.textColumn + 1 := by
  unfold bumpColumn; simp [h]

theorem sane_ne_nl {cc : CharClass} (hcc : cc.Sane) {c : Char}
    (h : (cc.isNumeric c || c == '_' || cc.isAlphanumeric c) = true) : c ≠ '\n' := by
  intro hc; subst hc
  simp [hcc.nlNumeric, hcc.nlAlphanumeric] at h

/-- what an arm must guarantee: if no new token is started, the invariant holds after the column increment -/
def ArmGood (c : Char) (p : Lexer × Bool) : Prop :=
  (p.2 = false → Inv (bumpColumn p.1 c)) ∧ (p.2 = true → Inv p.1)

theorem armNoToken_good (cc : CharClass) (s : Lexer) (c : Char) (hs : s.state = .noToken) :
    ArmGood c (armNoToken cc s c) := by
  refine ⟨fun _ h => ?_, fun h => by simp [armNoToken] at h⟩
  simp [armNoToken] at h
  have := (startToken_float cc s c h).1
  simp [hs] at this

theorem numeric_bump {cc : CharClass} (hcc : cc.Sane) (s : Lexer) {c : Char} (h : cc.isNumeric c = true) :
    1 ≤ (bumpColumn s c).textColumn := by
  have : c ≠ '\n' := by
    intro hc; subst hc; rw [hcc.nlNumeric] at h; cases h
  rw [bumpColumn_ne_nl s c this]; omega

theorem armOperator_good (cc : CharClass) (hcc : cc.Sane) (s : Lexer) (c : Char) (hs : s.state = .operator) :
    ArmGood c (armOperator cc s c) := by
  generalize hr : armOperator cc s c = r
  unfold armOperator at hr
  try simp only [] at hr
  repeat' split at hr
  all_goals (subst hr; simp_all [ArmGood, Inv])
  exact numeric_bump hcc _ (by simp_all)

theorem armNumber_good (cc : CharClass) (s : Lexer) (c : Char) (hs : s.state = .number) :
    ArmGood c (armNumber cc s c) := by
  generalize hr : armNumber cc s c = r
  unfold armNumber at hr
  try simp only [] at hr
  repeat' split at hr
  all_goals (subst hr; simp_all [ArmGood, Inv])
  rw [bumpColumn_ne_nl _ _ (by decide)]; omega

theorem armIdentifier_good (cc : CharClass) (s : Lexer) (c : Char) (hs : s.state = .identifier) :
    ArmGood c (armIdentifier cc s c) := by
  generalize hr : armIdentifier cc s c = r
  unfold armIdentifier at hr
  try simp only [] at hr
  repeat' split at hr
  all_goals (subst hr; simp_all [ArmGood, Inv])

theorem armStartCharList_good (s : Lexer) (c : Char) (hs : s.state = .startCharList) :
    ArmGood c (armStartCharList s c) := by
  generalize hr : armStartCharList s c = r
  unfold armStartCharList at hr
  try simp only [] at hr
  repeat' split at hr
  all_goals (subst hr; simp_all [ArmGood, Inv])

theorem armCharList_good (s : Lexer) (c : Char) (hs : s.state = .charList) :
    ArmGood c (armCharList s c) := by
  generalize hr : armCharList s c = r
  unfold armCharList at hr
  try simp only [] at hr
  repeat' split at hr
  all_goals (subst hr; simp_all [ArmGood, Inv])

theorem armStartByteList_good (s : Lexer) (c : Char) (hs : s.state = .startByteList) :
    ArmGood c (armStartByteList s c) := by
  generalize hr : armStartByteList s c = r
  unfold armStartByteList at hr
  try simp only [] at hr
  repeat' split at hr
  all_goals (subst hr; simp_all [ArmGood, Inv])

theorem armByteList_good (s : Lexer) (c : Char) (hs : s.state = .byteList) :
    ArmGood c (armByteList s c) := by
  generalize hr : armByteList s c = r
  unfold armByteList at hr
  try simp only [] at hr
  repeat' split at hr
  all_goals (subst hr; simp_all [ArmGood, Inv])

theorem armAnnotation_good (cc : CharClass) (s : Lexer) (c : Char) (hs : s.state = .annotation) :
    ArmGood c (armAnnotation cc s c) := by
  generalize hr : armAnnotation cc s c = r
  unfold armAnnotation at hr
  try simp only [] at hr
  repeat' split at hr
  all_goals (subst hr; simp_all [ArmGood, Inv])

theorem armLineAnnotation_good (s : Lexer) (c : Char) (hs : s.state = .lineAnnotation) :
    ArmGood c (armLineAnnotation s c) := by
  generalize hr : armLineAnnotation s c = r
  unfold armLineAnnotation at hr
  try simp only [] at hr
  repeat' split at hr
  all_goals (subst hr; simp_all [ArmGood, Inv])

theorem armSpaces_good (s : Lexer) (c : Char) (hs : s.state = .spaces) :
    ArmGood c (armSpaces s c) := by
  generalize hr : armSpaces s c = r
  unfold armSpaces at hr
  try simp only [] at hr
  repeat' split at hr
  all_goals (subst hr; simp_all [ArmGood, Inv])

theorem armSubexpression_good (s : Lexer) (c : Char) (hs : s.state = .subexpression) :
    ArmGood c (armSubexpression s c) := by
  generalize hr : armSubexpression s c = r
  unfold armSubexpression at hr
  try simp only [] at hr
  repeat' split at hr
  all_goals (subst hr; simp_all [ArmGood, Inv])

/-- the Float arm does not panic (uses `1 ≤ text_column`) and is good -/
theorem armFloat_good (cc : CharClass) (hcc : cc.Sane) (s : Lexer) (c : Char) (hs : s.state = .float) (hi : Inv s) :
    ∃ st, armFloat cc s c = .ok st ∧
      match st with
      | .cont s' _ startNew => ArmGood c (s', startNew)
      | .returnNone s' => Inv s' := by
  have hpos : 1 ≤ s.textColumn := hi hs
  unfold armFloat
  split
  · rename_i hc
    refine ⟨_, rfl, ?_⟩
    simp only [ArmGood, Inv]
    refine ⟨fun _ _ => ?_, fun h => by simp at h⟩
    rw [bumpColumn_ne_nl _ _ (sane_ne_nl hcc hc)]; omega
  · split
    · rename_i hc
      have hc' : c = '.' := by simp at hc; exact hc.1
      subst hc'
      have hne : ¬ (s.textColumn = 0) := by omega
      simp only [hne, ↓reduceIte]
      generalize hst : startToken cc { s with tokenStartRow := s.textRow } '.' = st
      have hfl := startToken_float cc { s with tokenStartRow := s.textRow } '.'
      rw [hst] at hfl
      split
      · refine ⟨_, rfl, ?_⟩
        simp only [ArmGood, Inv]
        refine ⟨fun _ _ => ?_, fun h => by simp at h⟩
        rw [bumpColumn_ne_nl _ _ (by decide)]; omega
      · refine ⟨_, rfl, ?_⟩
        simp only [Inv]
        intro h
        have := hfl h
        simp at this
        simp [this.2]; exact hpos
    · refine ⟨_, rfl, ?_⟩
      simp only [ArmGood]
      exact ⟨fun h => by simp at h, fun _ => hi⟩

theorem Inv_congr {s s' : Lexer} (h1 : s'.state = s.state) (h2 : s'.textColumn = s.textColumn)
    (h : Inv s) : Inv s' := by
  unfold Inv at *
  rw [h1, h2]; exact h

theorem pushNewToken_returnNone (s : Lexer) (nt : Option LexerToken) (s' : Lexer)
    (h : pushNewToken s nt = .returnNone s') :
    s'.state = s.state ∧ s'.textColumn = s.textColumn := by
  unfold pushNewToken at h
  simp only [] at h
  repeat' split at h
  all_goals simp_all
  all_goals (subst h; simp)

/-- `Step` results that keep the invariant through the rest of `process_char` -/
def StepGood (c : Char) : Step → Prop
  | .cont s' _ startNew => ArmGood c (s', startNew)
  | .returnNone s' => Inv s'

theorem stateStep_good (cc : CharClass) (hcc : cc.Sane) (s : Lexer) (c : Char) (hi : Inv s) :
    ∃ st, stateStep cc s c = .ok st ∧ StepGood c st := by
  unfold stateStep
  cases hs : s.state <;> simp only [Step.ofPair]
  · exact ⟨_, rfl, armNoToken_good cc s c hs⟩
  · exact ⟨_, rfl, armOperator_good cc hcc s c hs⟩
  · exact ⟨_, rfl, armSpaces_good s c hs⟩
  · exact ⟨_, rfl, armSubexpression_good s c hs⟩
  · exact ⟨_, rfl, armNumber_good cc s c hs⟩
  · exact armFloat_good cc hcc s c hs hi
  · exact ⟨_, rfl, armIdentifier_good cc s c hs⟩
  · exact ⟨_, rfl, armAnnotation_good cc s c hs⟩
  · exact ⟨_, rfl, armLineAnnotation_good s c hs⟩
  · exact ⟨_, rfl, armCharList_good s c hs⟩
  · exact ⟨_, rfl, armStartCharList_good s c hs⟩
  · exact ⟨_, rfl, armByteList_good s c hs⟩
  · exact ⟨_, rfl, armStartByteList_good s c hs⟩

theorem finishChar_inv (cc : CharClass) (s : Lexer) (c : Char) (nt : Option LexerToken) (sn : Bool)
    (h : ArmGood c (s, sn)) : Inv (finishChar cc s c nt sn).1 := by
  cases sn with
  | false => simp only [finishChar]; exact h.1 rfl
  | true =>
    have hi : Inv s := h.2 rfl
    simp only [finishChar, ↓reduceIte]
    cases hp : pushNewToken { s with canFloat := !blocksFloat s.currentTokenType } nt with
    | returnNone s' =>
      obtain ⟨h1, h2⟩ := pushNewToken_returnNone _ _ _ hp
      exact Inv_congr h1 h2 hi
    | cont s' nt' b =>
      simp only []
      split
      · intro h
        rw [bumpColumn_state] at h
        have := (startToken_float cc _ c h).1
        simp at this
      · intro h
        simp at h

/-- `process_char` never panics and keeps the invariant -/
theorem processChar_ok (cc : CharClass) (hcc : cc.Sane) (s : Lexer) (c : Char) (hi : Inv s) :
    ∃ s' t, processChar cc s c = .ok (s', t) ∧ Inv s' := by
  unfold processChar
  simp only []
  have hi1 : Inv { s with charactersLexed := s.charactersLexed + 1 } := Inv_congr rfl rfl hi
  obtain ⟨st, hst, hgood⟩ := stateStep_good cc hcc _ c hi1
  rw [hst]
  cases st with
  | cont s' nt sn => exact ⟨_, _, rfl, finishChar_inv cc s' c nt sn hgood⟩
  | returnNone s' => exact ⟨_, _, rfl, hgood⟩

/-! ## frame: fields `process_char` does not write -/


/-- fields no arm of `process_char` writes -/
def Frame (s s' : Lexer) : Prop :=
  s'.operatorTree = s.operatorTree ∧ s'.atEnd = s.atEnd ∧ s'.charactersLexed = s.charactersLexed

theorem Frame.refl (s : Lexer) : Frame s s := ⟨rfl, rfl, rfl⟩
theorem Frame.trans {a b c : Lexer} (h1 : Frame a b) (h2 : Frame b c) : Frame a c := by
  unfold Frame at *
  exact ⟨h2.1.trans h1.1, h2.2.1.trans h1.2.1, h2.2.2.trans h1.2.2⟩

/-- `hr : f … = r`: unfold `f`, split every branch, substitute, close by `simp` -/
macro "frame_tac" f:ident hr:ident : tactic =>
  `(tactic| (unfold $f at $hr:ident; (try simp only [] at $hr:ident); (repeat' split at $hr:ident);
             all_goals (subst $hr:ident; simp [Frame])))

theorem startToken_frame (cc : CharClass) (s : Lexer) (c : Char) : Frame s (startToken cc s c) := by
  generalize hr : startToken cc s c = r
  frame_tac startToken hr
theorem armOperator_frame (cc : CharClass) (s : Lexer) (c : Char) : Frame s (armOperator cc s c).1 := by
  generalize hr : armOperator cc s c = r
  frame_tac armOperator hr
theorem armNumber_frame (cc : CharClass) (s : Lexer) (c : Char) : Frame s (armNumber cc s c).1 := by
  generalize hr : armNumber cc s c = r
  frame_tac armNumber hr
theorem armIdentifier_frame (cc : CharClass) (s : Lexer) (c : Char) : Frame s (armIdentifier cc s c).1 := by
  generalize hr : armIdentifier cc s c = r
  frame_tac armIdentifier hr
theorem armStartCharList_frame (s : Lexer) (c : Char) : Frame s (armStartCharList s c).1 := by
  generalize hr : armStartCharList s c = r
  frame_tac armStartCharList hr
theorem armCharList_frame (s : Lexer) (c : Char) : Frame s (armCharList s c).1 := by
  generalize hr : armCharList s c = r
  frame_tac armCharList hr
theorem armStartByteList_frame (s : Lexer) (c : Char) : Frame s (armStartByteList s c).1 := by
  generalize hr : armStartByteList s c = r
  frame_tac armStartByteList hr
theorem armByteList_frame (s : Lexer) (c : Char) : Frame s (armByteList s c).1 := by
  generalize hr : armByteList s c = r
  frame_tac armByteList hr
theorem armSpaces_frame (s : Lexer) (c : Char) : Frame s (armSpaces s c).1 := by
  generalize hr : armSpaces s c = r
  frame_tac armSpaces hr
theorem armAnnotation_frame (cc : CharClass) (s : Lexer) (c : Char) : Frame s (armAnnotation cc s c).1 := by
  generalize hr : armAnnotation cc s c = r
  frame_tac armAnnotation hr
theorem armLineAnnotation_frame (s : Lexer) (c : Char) : Frame s (armLineAnnotation s c).1 := by
  generalize hr : armLineAnnotation s c = r
  frame_tac armLineAnnotation hr

def Step.lexer : Step → Lexer
  | .cont s _ _ => s
  | .returnNone s => s

theorem armFloat_frame (cc : CharClass) (s : Lexer) (c : Char) (st : Step) (h : armFloat cc s c = .ok st) :
    Frame s st.lexer := by
  unfold armFloat at h
  simp only [] at h
  have hst := startToken_frame cc { s with tokenStartRow := s.textRow } '.'
  generalize startToken cc { s with tokenStartRow := s.textRow } '.' = st' at h hst
  unfold Frame at *
  repeat' split at h
  all_goals simp_all
  all_goals (subst h; simp_all [Step.lexer])

theorem armSubexpression_frame (s : Lexer) (c : Char) : Frame s (armSubexpression s c).1 := by
  generalize hr : armSubexpression s c = r
  frame_tac armSubexpression hr

theorem stateStep_frame (cc : CharClass) (s : Lexer) (c : Char) (st : Step) (h : stateStep cc s c = .ok st) :
    Frame s st.lexer := by
  unfold stateStep at h
  cases hs : s.state <;> rw [hs] at h <;> simp only [Step.ofPair] at h
  case float => exact armFloat_frame cc s c st h
  all_goals (cases h; simp only [Step.lexer])
  · exact startToken_frame cc s c
  · exact armOperator_frame cc s c
  · exact armSpaces_frame s c
  · exact armSubexpression_frame s c
  · exact armNumber_frame cc s c
  · exact armIdentifier_frame cc s c
  · exact armAnnotation_frame cc s c
  · exact armLineAnnotation_frame s c
  · exact armCharList_frame s c
  · exact armStartCharList_frame s c
  · exact armByteList_frame s c
  · exact armStartByteList_frame s c

theorem bumpColumn_frame (s : Lexer) (c : Char) : Frame s (bumpColumn s c) := by
  unfold bumpColumn Frame; split <;> simp

theorem pushNewToken_frame (s : Lexer) (nt : Option LexerToken) : Frame s (pushNewToken s nt).lexer := by
  generalize hr : pushNewToken s nt = r
  unfold pushNewToken at hr
  simp only [] at hr
  repeat' split at hr
  all_goals (subst hr; simp [Frame, Step.lexer])

theorem finishChar_frame (cc : CharClass) (s : Lexer) (c : Char) (nt : Option LexerToken) (sn : Bool) :
    Frame s (finishChar cc s c nt sn).1 := by
  cases sn with
  | false => simp only [finishChar]; exact bumpColumn_frame s c
  | true =>
    simp only [finishChar, ↓reduceIte]
    have hp := pushNewToken_frame { s with canFloat := !blocksFloat s.currentTokenType } nt
    have h0 : Frame s { s with canFloat := !blocksFloat s.currentTokenType } := ⟨rfl, rfl, rfl⟩
    cases hpe : pushNewToken { s with canFloat := !blocksFloat s.currentTokenType } nt with
    | returnNone s' =>
      rw [hpe] at hp
      exact h0.trans hp
    | cont s' nt' b =>
      rw [hpe] at hp
      simp only [Step.lexer] at hp
      simp only []
      refine (h0.trans hp).trans (Frame.trans ?_ (bumpColumn_frame _ c))
      split
      · exact Frame.trans ⟨rfl, rfl, rfl⟩ (startToken_frame cc _ c)
      · exact ⟨rfl, rfl, rfl⟩

/-- `process_char` increments `characters_lexed` and leaves `operator_tree`, `at_end` alone -/
theorem processChar_frame (cc : CharClass) (s s' : Lexer) (c : Char) (t : Option LexerToken)
    (h : processChar cc s c = .ok (s', t)) :
    s'.operatorTree = s.operatorTree ∧ s'.atEnd = s.atEnd ∧ s'.charactersLexed = s.charactersLexed + 1 := by
  unfold processChar at h
  simp only [] at h
  cases hst : stateStep cc { s with charactersLexed := s.charactersLexed + 1 } c with
  | ok st =>
    have hf := stateStep_frame cc _ c st hst
    rw [hst] at h
    cases st with
    | cont s1 nt sn =>
      simp only [Outcome.ok.injEq] at h
      have hf2 := finishChar_frame cc s1 c nt sn
      rw [h] at hf2
      simp only [Step.lexer] at hf
      have := hf.trans hf2
      exact this
    | returnNone s1 =>
      simp only [Outcome.ok.injEq, Prod.mk.injEq] at h
      obtain ⟨rfl, _⟩ := h
      exact hf
  | err e => rw [hst] at h; cases h
  | panic m => rw [hst] at h; cases h
  | fuelOut => rw [hst] at h; cases h

/-! ## end of input -/

/-- `'\0'` does not start an operator -/
def TreeOk (t : LexerOperatorNode) : Prop := walkOperator t ['\x00'] = none

def nulFree : Outcome LexerOperatorNode → Bool
  | .ok t => (walkOperator t ['\x00']).isNone
  | _ => false

theorem operatorTree_nulFree : nulFree (createOperatorTree Garnish.Gen.LexTables.operatorChars) = true := by decide

/-- `Lexer::new` does not panic (the `unreachable!()`s of `create_operator_tree`) and `'\0'` is not an operator -/
theorem new_ok : ∃ t, Lexer.new = .ok (Lexer.init t) ∧ TreeOk t := by
  have h := operatorTree_nulFree
  unfold Lexer.new
  cases hc : createOperatorTree Garnish.Gen.LexTables.operatorChars with
  | ok t =>
    rw [hc] at h
    refine ⟨t, rfl, ?_⟩
    simp only [nulFree] at h
    unfold TreeOk
    cases hw : walkOperator t ['\x00'] with
    | none => rfl
    | some n => rw [hw] at h; cases h
  | err e => rw [hc] at h; cases h
  | panic m => rw [hc] at h; cases h
  | fuelOut => rw [hc] at h; cases h

theorem rustTables_sane :
    CharClass.Sane ⟨Garnish.Gen.CharRanges.isAlphanumeric, Garnish.Gen.CharRanges.isNumeric⟩ where
  nulNumeric := by decide +kernel
  nulAlphanumeric := by decide +kernel
  nlNumeric := by decide +kernel
  nlAlphanumeric := by decide +kernel

theorem startToken_nul (cc : CharClass) (hcc : cc.Sane) (s : Lexer) (ht : TreeOk s.operatorTree)
    (hat : s.atEnd = true) : (startToken cc s '\x00').state = .noToken := by
  unfold TreeOk at ht
  generalize hr : startToken cc s '\x00' = r
  unfold startToken at hr
  simp [currentOperator, push, ht, isAsciiWhitespace, isIdentifierChar, hcc.nulNumeric, hcc.nulAlphanumeric, hat] at hr
  subst hr; rfl

theorem stateStep_nul_nt (cc : CharClass) (s s' : Lexer) (nt : Option LexerToken) (sn : Bool)
    (h : stateStep cc s '\x00' = .ok (.cont s' nt sn)) : nt = none := by
  unfold stateStep at h
  cases hs : s.state <;> rw [hs] at h <;> simp only [Step.ofPair] at h
  case float =>
    unfold armFloat at h
    simp only [] at h
    repeat' split at h
    all_goals simp_all
  all_goals (cases h; rfl)

theorem finishChar_nul (cc : CharClass) (hcc : cc.Sane) (s s' : Lexer) (sn : Bool) (t : LexerToken)
    (ht : TreeOk s.operatorTree) (hat : s.atEnd = true)
    (h : finishChar cc s '\x00' none sn = (s', some t)) : s'.state = .noToken := by
  cases sn with
  | false => simp [finishChar] at h
  | true =>
    simp only [finishChar, ↓reduceIte] at h
    have hp := pushNewToken_frame { s with canFloat := !blocksFloat s.currentTokenType } none
    cases hpe : pushNewToken { s with canFloat := !blocksFloat s.currentTokenType } none with
    | returnNone s1 => rw [hpe] at h; simp at h
    | cont s1 nt' b =>
      rw [hpe] at h hp
      simp only [Step.lexer, Frame] at hp
      simp only [Prod.mk.injEq] at h
      obtain ⟨rfl, _⟩ := h
      rw [bumpColumn_state]
      split
      · exact startToken_nul cc hcc _ (by simp [hp.1]; exact ht) (by simp [hp.2.1]; exact hat)
      · rfl

/-- a token produced while the final `'\0'` is pushed through leaves the lexer in `NoToken` -/
theorem processChar_nul_some (cc : CharClass) (hcc : cc.Sane) (s s' : Lexer) (t : LexerToken)
    (ht : TreeOk s.operatorTree) (hat : s.atEnd = true)
    (h : processChar cc s '\x00' = .ok (s', some t)) : s'.state = .noToken := by
  unfold processChar at h
  simp only [] at h
  cases hst : stateStep cc { s with charactersLexed := s.charactersLexed + 1 } '\x00' with
  | ok st =>
    have hf := stateStep_frame cc _ _ st hst
    rw [hst] at h
    cases st with
    | cont s1 nt sn =>
      have hnt := stateStep_nul_nt cc _ _ _ _ hst
      subst hnt
      simp only [Outcome.ok.injEq] at h
      simp only [Step.lexer, Frame] at hf
      exact finishChar_nul cc hcc s1 s' sn t (by rw [hf.1]; exact ht) (by rw [hf.2.1]; exact hat) h
    | returnNone s1 => simp at h
  | err e => rw [hst] at h; cases h
  | panic m => rw [hst] at h; cases h
  | fuelOut => rw [hst] at h; cases h

/-- in `NoToken` no character produces a token -/
theorem processChar_noToken_none (cc : CharClass) (s s' : Lexer) (c : Char) (t : Option LexerToken)
    (hs : s.state = .noToken) (h : processChar cc s c = .ok (s', t)) : t = none := by
  unfold processChar at h
  simp only [stateStep, hs, Step.ofPair, armNoToken, finishChar] at h
  simp at h
  exact h.2.symm

/-! ## `lex` is total; number of `process_char` calls -/

/-- what `lex` can return from a state with `n` characters lexed so far: an error, or `Ok` after
`k + 1` or `k + 2` further `process_char` calls -/
def LexTotal (r : Outcome (List LexerToken × Lexer)) (n k : Nat) : Prop :=
  r = .err .syntax ∨
  ∃ toks s', r = .ok (toks, s') ∧ (s'.charactersLexed = n + k + 1 ∨ s'.charactersLexed = n + k + 2)

theorem lexFinish_total (s : Lexer) (toks : List LexerToken) :
    lexFinish s toks = .err .syntax ∨ lexFinish s toks = .ok (toks, s) := by
  unfold lexFinish
  cases s.result <;> simp

/-- second `'\0'`: the lexer is in `NoToken`, nothing comes out, `lex` finishes -/
theorem lexEnd_noToken (cc : CharClass) (hcc : cc.Sane) (fuel : Nat) (s : Lexer) (toks : List LexerToken)
    (hi : Inv s) (hs : s.state = .noToken) (hres : s.result = .ok) :
    lexEnd cc (fuel + 1) s toks = .err .syntax ∨
    ∃ toks' s', lexEnd cc (fuel + 1) s toks = .ok (toks', s') ∧ s'.charactersLexed = s.charactersLexed + 1 := by
  have hE : s.result.isErr = false := by rw [hres]; rfl
  simp only [lexEnd, hE, Bool.false_eq_true, ↓reduceIte]
  have hi0 : Inv { s with atEnd := true } := Inv_congr rfl rfl hi
  obtain ⟨s1, t1, hp, _⟩ := processChar_ok cc hcc _ '\x00' hi0
  have ht1 := processChar_noToken_none cc _ _ _ _ (by simpa using hs) hp
  subst ht1
  have hf := processChar_frame cc _ _ _ _ hp
  rw [hp]
  simp only []
  split
  · rcases lexFinish_total { s1 with result := .err } toks with h | h
    · exact Or.inl h
    · exact Or.inr ⟨_, _, h, by simpa using hf.2.2⟩
  · rcases lexFinish_total s1 toks with h | h
    · exact Or.inl h
    · exact Or.inr ⟨_, _, h, by simpa using hf.2.2⟩

theorem lexEnd_total (cc : CharClass) (hcc : cc.Sane) (fuel : Nat) (s : Lexer) (toks : List LexerToken)
    (hi : Inv s) (ht : TreeOk s.operatorTree) :
    LexTotal (lexEnd cc (fuel + 2) s toks) s.charactersLexed 0 := by
  rw [show fuel + 2 = (fuel + 1) + 1 from rfl, lexEnd]
  by_cases hE : s.result.isErr = true
  · have : s.result = .err := by cases h : s.result <;> simp [h, LexResult.isErr] at hE ⊢
    simp [this, LexResult.isErr, lexFinish, LexTotal]
  simp only [hE, Bool.false_eq_true, ↓reduceIte]
  have hi0 : Inv { s with atEnd := true } := Inv_congr rfl rfl hi
  obtain ⟨s1, t1, hp, hi1⟩ := processChar_ok cc hcc _ '\x00' hi0
  have hf := processChar_frame cc _ _ _ _ hp
  simp only [] at hf
  rw [hp]
  cases t1 with
  | none =>
    simp only []
    split
    · rcases lexFinish_total { s1 with result := .err } toks with h | h
      · exact Or.inl h
      · exact Or.inr ⟨_, _, h, Or.inl (by simpa using hf.2.2)⟩
    · rcases lexFinish_total s1 toks with h | h
      · exact Or.inl h
      · exact Or.inr ⟨_, _, h, Or.inl (by simpa using hf.2.2)⟩
  | some t =>
    simp only []
    have hs1 := processChar_nul_some cc hcc _ _ _ (by simpa using ht) rfl hp
    cases hres : s1.result with
    | err => exact Or.inl rfl
    | ok =>
      simp only []
      rcases lexEnd_noToken cc hcc fuel s1 (toks ++ [t]) hi1 hs1 hres with h | ⟨toks', s', h, hn⟩
      · exact Or.inl h
      · refine Or.inr ⟨toks', s', h, Or.inr ?_⟩
        rw [hn, hf.2.2]

theorem lexLoop_total (cc : CharClass) (hcc : cc.Sane) :
    ∀ (input : List Char) (s : Lexer) (toks : List LexerToken), Inv s → TreeOk s.operatorTree →
      LexTotal (lexLoop cc input s toks) s.charactersLexed input.length
  | [], s, toks, hi, ht => by
    simp only [lexLoop, endFuel]
    exact lexEnd_total cc hcc 2 s toks hi ht
  | c :: rest, s, toks, hi, ht => by
    simp only [lexLoop]
    by_cases hE : s.result.isErr = true
    · have : s.result = .err := by cases h : s.result <;> simp [h, LexResult.isErr] at hE ⊢
      simp [this, LexResult.isErr, lexFinish, LexTotal]
    simp only [hE, Bool.false_eq_true, ↓reduceIte]
    obtain ⟨s1, t1, hp, hi1⟩ := processChar_ok cc hcc s c hi
    have hf := processChar_frame cc _ _ _ _ hp
    have ht1 : TreeOk s1.operatorTree := by rw [hf.1]; exact ht
    rw [hp]
    have step : ∀ toks', LexTotal (lexLoop cc rest s1 toks') s.charactersLexed (c :: rest).length := by
      intro toks'
      rcases lexLoop_total cc hcc rest s1 toks' hi1 ht1 with h | ⟨a, b, h, hn⟩
      · exact Or.inl h
      · refine Or.inr ⟨a, b, h, ?_⟩
        rw [hf.2.2] at hn
        simp only [List.length_cons]
        omega
    cases t1 with
    | none => exact step toks
    | some t =>
      simp only []
      cases hres : s1.result with
      | err => exact Or.inl rfl
      | ok => exact step _

/-- `lex` never panics and never runs out of fuel; on `Ok` it has made `input.length + 1` or `input.length + 2`
calls of `process_char` -/
theorem lexFull_total (cc : CharClass) (hcc : cc.Sane) (input : List Char) :
    lexFull cc input = .err .syntax ∨
    ∃ toks s', lexFull cc input = .ok (toks, s') ∧
      (s'.charactersLexed = input.length + 1 ∨ s'.charactersLexed = input.length + 2) := by
  obtain ⟨t, hnew, ht⟩ := new_ok
  unfold lexFull
  rw [hnew]
  have hinv : Inv (Lexer.init t) := fun h => by simp [Lexer.init] at h
  rcases lexLoop_total cc hcc input (Lexer.init t) [] hinv ht with h | ⟨a, b, h, hn⟩
  · exact Or.inl h
  · refine Or.inr ⟨a, b, h, ?_⟩
    simpa [Lexer.init] using hn

theorem lex_total (cc : CharClass) (hcc : cc.Sane) (input : List Char) :
    lex cc input = .err .syntax ∨ ∃ toks, lex cc input = .ok toks := by
  unfold lex
  rcases lexFull_total cc hcc input with h | ⟨a, b, h, _⟩
  · rw [h]; exact Or.inl rfl
  · rw [h]; exact Or.inr ⟨a, rfl⟩

/-- `characters_lexed` after a successful `lex` (0 otherwise) -/
def callsOf (r : Outcome (List LexerToken × Lexer)) : Nat :=
  match r with
  | .ok (_, s') => s'.charactersLexed
  | _ => 0

/-- both counts occur, so "`input.length + 1` calls" alone would be false: `""` takes 1 call, `"+"` takes 3 -/
theorem charactersLexed_examples :
    callsOf (lexFull ⟨Garnish.Gen.CharRanges.isAlphanumeric, Garnish.Gen.CharRanges.isNumeric⟩ []) = 1 ∧
    callsOf (lexFull ⟨Garnish.Gen.CharRanges.isAlphanumeric, Garnish.Gen.CharRanges.isNumeric⟩ ['+']) = 3 := by
  decide +kernel

end Garnish.Model.Lexer
