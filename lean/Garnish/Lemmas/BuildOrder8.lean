/-
C04, builder half — sibling order, part 8: the remaining handlers keep the order invariant.
-/
import Garnish.Lemmas.BuildOrder7
namespace Garnish.Lemmas.BuildOrder
open Garnish Garnish.Gen Garnish.Model.Parser Garnish.Model.Literals Garnish.Model.Build Garnish.Lemmas.Build
open Garnish.Lemmas.BuildTotal
open Garnish.Lemmas.BuildAttr (getNode_sat_eq setNodeIdx_sat_eq AddMeta)

variable {F : Type} {root : Nat} {tree : Array ParseNode} {G : Nat → Prop} {m0 : Nat}

section pre
variable {ph : Nat → Phase} {ctx : Ctx F} {ni : Nat} {pn : ParseNode}

theorem PreO.condVisit (p : PreO root tree G m0 ph ctx ni pn) {ctx' : Ctx F} {r : Nat} (hr : pn.right = some r)
    (hlate : isLate pn.definition = true) {cp : Nat} {parent : BuildNode} (hcp : ctx.nodes[cp]? = some (some parent))
    (item : ConditionItem) (hitem : item.nodeIndex = r) (l : List (Option Nat))
    (hM : ctx'.data.metadata.toList = ctx.data.metadata.toList ++ l) (hl : ∀ m, m ∈ l → m = none ∨ m = some ni)
    (hS : ctx'.stack = ctx.stack) (hR : ctx'.rootStack = ctx.rootStack)
    (hN : ctx'.nodes = putNode ctx.nodes cp { parent with conditionalItems := parent.conditionalItems.push item }) :
    PostO root tree G m0 ph ctx' := by
  have h1 := cond_inv_exp p.pre.V p.pre.inv p.pre.hG p.pre.hph p.pre.hns p.pre.hpn hr hlate hcp item hitem hS hR hN
  exact ⟨_, h1.1, h1.2, cond_ord p.pre.V p.pre.inv p.pre.hG p.pre.hph p.pre.hpn p.ord hr hlate hcp item l hS hN hM hl⟩

theorem PreO.elseVisit (p : PreO root tree G m0 ph ctx ni pn) {ctx' : Ctx F} (hnb : isB pn.definition = false)
    {node : BuildNode} (hnode : ctx.nodes[ni]? = some (some node)) (containing jumpToIndex : Nat) (l : List (Option Nat))
    (hM : ctx'.data.metadata.toList = ctx.data.metadata.toList ++ l) (hl : ∀ m, m ∈ l → m = none ∨ m = some ni)
    (hS : ctx'.stack = ctx.stack)
    (hR : ctx'.rootStack.toList = ctx.rootStack.toList ++ node.conditionalItems.toList.map (·.nodeIndex))
    (hN : ctx'.nodes = assign ctx.nodes (node.conditionalItems.toList.map (itemNode containing jumpToIndex))) :
    PostO root tree G m0 ph ctx' := by
  have h1 := else_inv_exp p.pre.V p.pre.inv p.pre.hG p.pre.hph p.pre.hns hnode containing jumpToIndex hS hR hN
  exact ⟨_, h1.1, h1.2, else_ord p.pre.V p.pre.inv p.pre.hG p.pre.hph p.pre.hpn hnb p.ord hnode containing jumpToIndex l hS hN hM hl⟩

theorem handleGroup_ord (p : PreO root tree G m0 ph ctx ni pn) (hdef : pn.definition = .group) :
    Sat (PostO root tree G m0 ph) (handleGroup ctx ni pn) := by
  unfold handleGroup
  have hnb : isB pn.definition = false := by rw [hdef]; rfl
  have hp1 : ph ni = .p1 := by
    rcases p.pre.hph with h | h
    · exact h
    · exact absurd hdef (p.pre.inv.p2two ni pn p.pre.hpn h).1
  cases hr : pn.right with
  | none =>
    dsimp only
    exact p.lastVisit [] [] (by simp) (fun m hm => by cases hm) rfl rfl rfl (fun q hq => by cases hq)
      (fun q hq => by cases hq) (notB hnb)
  | some r =>
    dsimp only
    refine sat_bind (getNode_sat_eq ctx.nodes ni) (fun node hnode => ?_)
    have hrlt := p.pre.child_lt (p.pre.childR hr)
    simp only [setNodeIdx_eq, hrlt, bind_ok, sat_ok]
    exact p.stackVisit hr hp1 (by rw [hdef]; rfl) hnb _ rfl rfl rfl rfl rfl rfl rfl

theorem handleNestedExpression_ord (p : PreO root tree G m0 ph ctx ni pn) (hdef : pn.definition = .nestedExpression) (crj : Nat) :
    Sat (PostO root tree G m0 ph) (handleNestedExpression ctx crj ni pn) := by
  unfold handleNestedExpression
  have hnb : isB pn.definition = false := by rw [hdef]; rfl
  cases hr : pn.right with
  | none =>
    dsimp only
    exact p.lastVisit [] [some ni] (by simp [pushInstr, addConst]) (by hl_tac) rfl rfl rfl (fun q hq => by cases hq)
      (fun q hq => by cases hq) (notB hnb)
  | some r =>
    dsimp only
    have hrlt := p.pre.child_lt (p.pre.childR hr)
    simp only [setNodeIdx_eq, hrlt, bind_ok, sat_ok]
    exact p.rootVisit hr (fun h2 => absurd hdef (p.pre.inv.p2two ni pn p.pre.hpn h2).2) hnb _ rfl rfl rfl [some ni]
      (by simp [pushInstr, addConst, pushToJumpTable]) (by hl_tac) rfl rfl rfl
theorem handleLogicalBinary_ord (p : PreO root tree G m0 ph ctx ni pn) (hlate : isLate pn.definition = true)
    (hd : pn.definition ≠ .group ∧ pn.definition ≠ .nestedExpression) (ins : Instruction) :
    Sat (PostO root tree G m0 ph) (handleLogicalBinary ins ctx ni pn) := by
  unfold handleLogicalBinary
  have hnb := isB_of_late hlate
  refine sat_bind (getNode_sat_eq ctx.nodes ni) (fun node hnode => ?_)
  have hpni := p.pre.pni hnode
  cases hst : node.state with
  | uninitialized =>
    dsimp only
    cases hl : pn.left with
    | none => exact sat_buildErr
    | some l =>
      dsimp only
      have hllt := p.pre.child_lt (p.pre.childL hl)
      simp only [setNodeIdx_eq, size_putNode, hllt, bind_ok, sat_ok, hpni]
      exact p.firstVisit hnode hst hd [l] [ni, l] [(ni, _), (l, _)] [] (by simp) (fun m hm => by cases hm) (by simp) rfl rfl
        (by list_tac) (by list_tac) (by simp) (by simp) (by list_tac)
        (fun c hc => by
          have : c = l := by simpa using hc
          subst this; exact ⟨p.pre.childL hl, p.pre.left_notLate hl⟩) (by asgp_tac) (by asg_tac) ⟨_, List.mem_cons_self⟩ (by asgu_tac) (by asgall_tac)
        (notB hnb)
  | initialized =>
    dsimp only
    cases hr : pn.right with
    | none => exact sat_buildErr
    | some r =>
      dsimp only
      have hrlt := p.pre.child_lt (p.pre.childR hr)
      simp only [setNodeIdx_eq, hrlt, bind_ok, sat_ok]
      exact p.rootVisit hr (fun _ => hlate) hnb _ rfl rfl rfl [some ni]
        (by simp [pushInstr, pushToJumpTable]) (by hl_tac) rfl rfl rfl

theorem handleJumpIf_ord (p : PreO root tree G m0 ph ctx ni pn) (hlate : isLate pn.definition = true)
    (hd : pn.definition ≠ .group ∧ pn.definition ≠ .nestedExpression) (ins : Instruction) :
    Sat (PostO root tree G m0 ph) (handleJumpIf ins ctx ni pn) := by
  unfold handleJumpIf
  have hnb := isB_of_late hlate
  refine sat_bind (getNode_sat_eq ctx.nodes ni) (fun node hnode => ?_)
  have hpni := p.pre.pni hnode
  cases hst : node.state with
  | uninitialized =>
    dsimp only
    cases hl : pn.left with
    | none => exact sat_buildErr
    | some l =>
      dsimp only
      have hllt := p.pre.child_lt (p.pre.childL hl)
      simp only [setNodeIdx_eq, size_putNode, hllt, bind_ok, sat_ok, hpni]
      exact p.firstVisit hnode hst hd [l] [ni, l] [(ni, _), (l, _)] [] (by simp) (fun m hm => by cases hm) (by simp) rfl rfl
        (by list_tac) (by list_tac) (by simp) (by simp) (by list_tac)
        (fun c hc => by
          have : c = l := by simpa using hc
          subst this; exact ⟨p.pre.childL hl, p.pre.left_notLate hl⟩) (by asgp_tac) (by asg_tac) ⟨_, List.mem_cons_self⟩ (by asgu_tac) (by asgall_tac)
        (notB hnb)
  | initialized =>
    dsimp only
    cases hr : pn.right with
    | none => exact sat_buildErr
    | some r =>
      dsimp only
      cases hcp : node.conditionalParent with
      | some cp =>
        dsimp only
        cases hpar : ctx.nodes[cp]? with
        | none =>
          dsimp only
          exact p.lastVisit [] [] (by simp [pushToJumpTable]) (fun m hm => by cases hm) rfl rfl rfl (fun q hq => by cases hq)
            (fun q hq => by cases hq) (notB hnb)
        | some o =>
          cases o with
          | none =>
            dsimp only
            exact p.lastVisit [] [] (by simp [pushToJumpTable]) (fun m hm => by cases hm) rfl rfl rfl (fun q hq => by cases hq)
              (fun q hq => by cases hq) (notB hnb)
          | some parent =>
            dsimp only
            exact p.condVisit hr hlate hpar _ rfl [some ni] (by simp [pushInstr, pushToJumpTable]) (by hl_tac) rfl rfl rfl
      | none =>
        dsimp only
        have hrlt := p.pre.child_lt (p.pre.childR hr)
        simp only [setNodeIdx_eq, hrlt, bind_ok, sat_ok]
        exact p.rootVisit hr (fun _ => hlate) hnb _ rfl rfl rfl [some ni, none]
          (by simp [pushInstr, pushToJumpTable]) (by hl_tac) rfl rfl rfl

theorem handleElseJump_ord (p : PreO root tree G m0 ph ctx ni pn)
    (hd : pn.definition ≠ .group ∧ pn.definition ≠ .nestedExpression) (hnl : isLate pn.definition = false)
    (hnb : isB pn.definition = false) :
    Sat (PostO root tree G m0 ph) (handleElseJump ctx ni pn) := by
  unfold handleElseJump
  refine sat_bind (getNode_sat_eq ctx.nodes ni) (fun node hnode => ?_)
  have hpni := p.pre.pni hnode
  cases hst : node.state with
  | uninitialized =>
    dsimp only
    cases hr : pn.right with
    | none => exact sat_buildErr
    | some r =>
      cases hl : pn.left with
      | none => exact sat_buildErr
      | some l =>
        dsimp only
        have hrlt := p.pre.child_lt (p.pre.childR hr)
        have hllt := p.pre.child_lt (p.pre.childL hl)
        have hne := p.pre.lr_ne hl hr
        simp only [setNodeIdx_eq, size_putNode, hrlt, hllt, bind_ok, sat_ok, hpni]
        exact p.firstVisit hnode hst hd [r, l] [ni, r, l] [(ni, _), (r, _), (l, _)] [] (by simp) (fun m hm => by cases hm) (by simp) rfl rfl
          (by list_tac) (by list_tac) (by list_tac) (by simp) (by list_tac)
          (by child_tac p.pre, hnl) (by asgp_tac) (by asg_tac) ⟨_, List.mem_cons_self⟩ (by asgu_tac) (by asgall_tac)
          (notB hnb)
  | initialized =>
    dsimp only
    cases hcp : node.conditionalParent with
    | some cp =>
      dsimp only
      exact p.lastVisit [] [] (by simp) (fun m hm => by cases hm) rfl rfl rfl (fun q hq => by cases hq)
        (fun q hq => by cases hq) (notB hnb)
    | none =>
      dsimp only
      split
      · generalize heq : elseJumpItems node.containingExpressionJump (getJumpTableLen ctx.data)
          node.conditionalItems.toList ctx.rootStack #[] = res
        obtain ⟨rootStack, newItems⟩ := res
        dsimp only
        have hspec := elseJumpItems_spec node.containingExpressionJump (getJumpTableLen ctx.data)
          node.conditionalItems.toList ctx.rootStack #[]
        rw [heq] at hspec
        obtain ⟨hs1, hs2⟩ := hspec
        dsimp only at hs1 hs2
        simp only [List.nil_append, show (#[] : Array (Nat × BuildNode)).toList = [] from rfl] at hs2
        have hni3 : ph ni ≠ .p3 := by rcases p.pre.hph with h1 | h1 <;> rw [h1] <;> intro h <;> cases h
        have hlt : ∀ q, q ∈ newItems.toList → q.1 < ctx.nodes.size := by
          intro q hq
          rw [hs2] at hq
          obtain ⟨it, hit, he⟩ := List.mem_map.1 hq
          subst he
          rw [p.pre.inv.size]
          exact G_lt p.pre.V (p.pre.inv.items ni node hnode hni3 it hit).1
        rw [assignNewItems_eq _ _ hlt]
        simp only [bind_ok, sat_ok]
        exact p.elseVisit hnb hnode node.containingExpressionJump (getJumpTableLen ctx.data) [] (by simp [pushToJumpTable])
          (fun m hm => by cases hm) rfl hs1 (by show assign ctx.nodes newItems.toList = _; rw [hs2])
      ·
        exact p.lastVisit [] [] (by simp) (fun m hm => by cases hm) rfl rfl rfl (fun q hq => by cases hq)
          (fun q hq => by cases hq) (notB hnb)

theorem handleValueLike_ord (p : PreO root tree G m0 ph ctx ni pn)
    (hd : pn.definition ≠ .group ∧ pn.definition ≠ .nestedExpression) (hnl : isLate pn.definition = false)
    (hnb : isB pn.definition = false)
    {addFn : AddFn F} (hadd : AddMeta addFn pn) (ins : Instruction) :
    Sat (PostO root tree G m0 ph) (handleValueLike addFn ins ctx ni pn) := by
  unfold handleValueLike
  refine sat_bind (getNode_sat_eq ctx.nodes ni) (fun node hnode => ?_)
  have hpni := p.pre.pni hnode
  cases hst : node.state with
  | uninitialized =>
    dsimp only
    cases hr : pn.right with
    | none =>
      cases hl : pn.left with
      | none =>
        simp only [bind_ok, sat_ok, hpni]
        exact p.firstVisit hnode hst hd [] [ni] [(ni, _)] [] (by simp) (fun m hm => by cases hm) (by simp) rfl rfl
          (by list_tac) (by list_tac) (by simp) (by simp) (fun c hc => by cases hc)
          (fun c hc => by cases hc) (by asgp_tac) (by asg_tac) ⟨_, List.mem_cons_self⟩ (by asgu_tac) (fun c hc => by cases hc)
          (notB hnb)
      | some l =>
        have hllt := p.pre.child_lt (p.pre.childL hl)
        simp only [setNodeIdx_eq, size_putNode, hllt, bind_ok, sat_ok, hpni]
        exact p.firstVisit hnode hst hd [l] [ni, l] [(ni, _), (l, _)] [] (by simp) (fun m hm => by cases hm) (by simp) rfl rfl
          (by list_tac) (by list_tac) (by simp) (by simp) (by list_tac)
          (by child_tac p.pre, hnl) (by asgp_tac) (by asg_tac) ⟨_, List.mem_cons_self⟩ (by asgu_tac) (by asgall_tac)
          (notB hnb)
    | some r =>
      have hrlt := p.pre.child_lt (p.pre.childR hr)
      cases hl : pn.left with
      | none =>
        simp only [setNodeIdx_eq, size_putNode, hrlt, bind_ok, sat_ok, hpni]
        exact p.firstVisit hnode hst hd [r] [r, ni] [(ni, _), (r, _)] [] (by simp) (fun m hm => by cases hm) (by simp) rfl rfl
          (by list_tac) (by list_tac) (by simp) (by simp) (by list_tac)
          (by child_tac p.pre, hnl) (by asgp_tac) (by asg_tac) ⟨_, List.mem_cons_self⟩ (by asgu_tac) (by asgall_tac)
          (notB hnb)
      | some l =>
        have hllt := p.pre.child_lt (p.pre.childL hl)
        have hne := p.pre.lr_ne hl hr
        simp only [setNodeIdx_eq, size_putNode, hrlt, hllt, bind_ok, sat_ok, hpni]
        exact p.firstVisit hnode hst hd [r, l] [r, ni, l] [(ni, _), (r, _), (l, _)] [] (by simp) (fun m hm => by cases hm) (by simp) rfl rfl
          (by list_tac) (by list_tac) (by list_tac) (by simp) (by list_tac)
          (by child_tac p.pre, hnl) (by asgp_tac) (by asg_tac) ⟨_, List.mem_cons_self⟩ (by asgu_tac) (by asgall_tac)
          (notB hnb)
  | initialized =>
    dsimp only
    refine sat_bind (hadd ctx.data) (fun res hres => ?_)
    obtain ⟨data, operand⟩ := res
    dsimp only at hres ⊢
    exact p.lastVisit [] [some ni] (by simp [pushInstr, hres]) (by hl_tac) rfl rfl rfl (fun q hq => by cases hq)
      (fun q hq => by cases hq) (notB hnb)

theorem handleValuePrimitive_ord (p : PreO root tree G m0 ph ctx ni pn)
    (hd : pn.definition ≠ .group ∧ pn.definition ≠ .nestedExpression) (hnl : isLate pn.definition = false)
    (hnb : isB pn.definition = false)
    {addFn : BState F → ParseNode → Outcome (BState F × Nat)}
    (hadd : ∀ d, Sat (fun r => r.1.metadata = d.metadata) (addFn d pn)) :
    Sat (PostO root tree G m0 ph) (handleValuePrimitive addFn ctx ni pn) := by
  unfold handleValuePrimitive
  refine handleValueLike_ord p hd hnl hnb (fun d => ?_) _
  refine sat_bind (hadd d) (fun r hr => ?_)
  exact hr

end pre

end Garnish.Lemmas.BuildOrder
