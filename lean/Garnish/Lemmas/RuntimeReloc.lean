/-
Relocation of a built program into a `SimpleGarnishData`: the builder model's constant table is 0-based, Simple's data
list starts with Unit, False, True — `reloc P` puts the constants after them and moves the constant operands of `Put` /
`Resolve` by 3. The value-level machine does not see it: `step_reloc`, `run_reloc` (all instructions).
-/
import Garnish.Abs.Machine
namespace Garnish.Lemmas.Runtime.On
open Garnish Gen Garnish.Abs

variable {F : Type}

/-- constant operands moved past the three preallocated cells of `SimpleGarnishData` -/
def relocI : Instruction × Option Nat → Instruction × Option Nat
  | (.put, some k) => (.put, some (k + 3))
  | (.resolve, some k) => (.resolve, some (k + 3))
  | p => p

/-- the program as it sits in a `SimpleGarnishData`: Unit, False, True at 0, 1, 2, the constants after them -/
def reloc (P : Prog F) : Prog F :=
  { instrs := (P.instrs.toList.map relocI).toArray, jumps := P.jumps,
    consts := (.unit :: .fls :: .tru :: P.consts.toList).toArray }

theorem reloc_const (P : Prog F) (k : Nat) : (reloc P).consts[k + 3]? = P.consts[k]? := by
  simp [reloc]

theorem reloc_size (P : Prog F) : (reloc P).instrs.size = P.instrs.size := by simp [reloc]

theorem finish_reloc (P : Prog F) (r : Except ErrClass (MState F × Nat)) : finish (reloc P) r = finish P r := by
  unfold finish; rw [reloc_size]

theorem seqNext_reloc (P : Prog F) (s : MState F) (r : Except ErrClass (MState F)) :
    seqNext (reloc P) s r = seqNext P s r := by
  unfold seqNext; cases r <;> simp only [finish_reloc]

theorem jumpTarget_reloc (P : Prog F) (j : Nat) : jumpTarget (reloc P) j = jumpTarget P j := rfl

variable (fo : FloatOps F) (host : Host F)

theorem applyStep_reloc (P : Prog F) (s : MState F) (instr : Instruction) (b : Bool) (l r : Val F) :
    applyStep fo host (reloc P) s instr b l r = applyStep fo host P s instr b l r := by
  unfold applyStep; simp only [jumpTarget_reloc]

/-- the machine does not see the relocation -/
theorem step_reloc (P : Prog F) (m : MState F) : Abs.step fo host (reloc P) m = Abs.step fo host P m := by
  have hfetch : (reloc P).instrs[m.pc]? = (P.instrs[m.pc]?).map relocI := by simp [reloc]
  unfold Abs.step
  rw [hfetch]
  cases hp : P.instrs[m.pc]? with
  | none => rfl
  | some p =>
    obtain ⟨instr, operand⟩ := p
    cases instr <;> cases operand <;>
      simp only [Option.map, relocI, finish_reloc, seqNext_reloc, jumpTarget_reloc, applyStep_reloc, reloc_const,
        reloc_size]

theorem run_reloc (P : Prog F) : ∀ (n : Nat) (m : MState F), Abs.run fo host (reloc P) n m = Abs.run fo host P n m
  | 0, _ => rfl
  | n + 1, m => by
    rw [Abs.run, Abs.run, step_reloc]
    cases Abs.step fo host P m <;> simp only [run_reloc P n]

end Garnish.Lemmas.Runtime.On
