/-
Operator fragment, part 2: the invariant `FragInv` of the parser state after a value token, and `pair_step`:
one (binary operator, value) pair of tokens turns a state that represents the index tree `T` into one that represents
`insertI .. T` — the array-level core of "the transliterated parser computes the tree the table dictates".
-/
import Garnish.Lemmas.ParserFrag

namespace Garnish.Spec
open Garnish Garnish.Gen Garnish.Model.Parser

/-- value / identifier token whose definition has the value priority 10 (excludes Unknown and the expression terminator) -/
def isAtom10 (t : PToken) : Bool :=
  ((getDefinition t.type).2 == .value || (getDefinition t.type).2 == .identifier) &&
    priority (getDefinition t.type).1 == some 10

/-- the state after a value token of the fragment: the nodes represent the index tree `T` with root `rt`, in-order
    0, 1, .., size-1; `last_left` is the last node (a value); all flags / stacks are in their neutral position -/
structure FragInv (st : PState) (T : Tree) (rt : Nat) : Prop where
  tree : IsTreeAt st.nodes none (some rt) T
  inord : T.inorder = List.range st.nodes.size
  pos : 0 < st.nodes.size
  lastLeft : st.lastLeft = some (st.nodes.size - 1)
  cfl : st.checkForList = false
  nnl : st.nextLastLeft = none
  gs : st.groupStack = #[]
  cg : st.currentGroup = none
  prios : AllPrio st.nodes
  bottom : ∃ nd, st.nodes[st.nodes.size - 1]? = some nd ∧ priority nd.definition = some 10
  prev : st.previousSecondDef = .value ∨ st.previousSecondDef = .identifier

theorem binop_prio (tt : TokenType)
    (h : ((getDefinition tt).2 == SecDef.binaryLeftToRight || (getDefinition tt).2 == SecDef.binaryRightToLeft) = true) :
    ∃ q, priority (getDefinition tt).1 = some q ∧ 10 < q := by
  revert h
  cases tt <;> simp only [getDefinition] <;> decide

theorem prio10_facts {d : Definition} (h : priority d = some 10) :
    (d == Definition.sideEffect) = false ∧ (d != Definition.drop) = true ∧
      (d = .identifier ∨ priority (match d with | .identifier => Definition.property | d => d) = some 10) := by
  revert h
  cases d <;> decide

/-- definition stored for the value after operator `dOp` -/
def leafDef (dOp dA : Definition) : Definition :=
  match dA with
  | .identifier => if dOp == .access then .property else dA
  | d => d

theorem leafDef_prio {dOp dA : Definition} (h : priority dA = some 10) : priority (leafDef dOp dA) = some 10 := by
  cases dA <;> first | (simp only [leafDef]; split <;> rfl) | (simpa [leafDef] using h)

theorem map_def_setParent (v : Option Nat) (o : Option ParseNode) :
    (o.map (setParent v)).map (·.definition) = o.map (·.definition) := by cases o <;> rfl
theorem map_def_setRight (v : Option Nat) (o : Option ParseNode) :
    (o.map (setRight v)).map (·.definition) = o.map (·.definition) := by cases o <;> rfl

theorem stops_ten {q : Nat} (rtl : Bool) (h : 10 < q) : stops q rtl 10 = false := by
  simp only [stops, Bool.or_eq_false_iff, decide_eq_false_iff_not, Bool.and_eq_false_iff, beq_eq_false_iff_ne]
  exact ⟨by omega, Or.inl (by omega)⟩

/-- **one (binary operator, value) pair** -/
theorem pair_step {st st1 st2 : PState} {T : Tree} {rt : Nat} {o a : PToken} {il : Bool}
    (hinv : FragInv st T rt) (ho : isBinopTok o = true) (ha : isAtom10 a = true)
    (h1 : step st o false = .ok st1) (h2 : step st1 a il = .ok st2) :
    ∃ q rt', priority (getDefinition o.type).1 = some q ∧
      FragInv st2 (insertI (prioAt st.nodes) q ((getDefinition o.type).2 == .binaryRightToLeft) st.nodes.size o.col a.col T) rt' ∧
      st2.nodes.size = st.nodes.size + 2 ∧
      (∀ j, j < st.nodes.size → (st2.nodes[j]?).map (·.definition) = (st.nodes[j]?).map (·.definition)) ∧
      dfOf st2.nodes st.nodes.size = (getDefinition o.type).1 ∧
      dfOf st2.nodes (st.nodes.size + 1) = leafDef (getDefinition o.type).1 (getDefinition a.type).1 := by
  obtain ⟨htree, hin, hpos, hll, hcfl, hnnl, hgs, hcg, hprios, ⟨bnd, hb1, hb2⟩, hprev⟩ := hinv
  have ho' := ho
  unfold isBinopTok at ho'
  obtain ⟨q, hq, hq10⟩ := binop_prio o.type ho'
  obtain ⟨f1, f2, f3, f4⟩ := binop_def_facts o.type ho'
  unfold isAtom10 at ha
  simp only [Bool.and_eq_true, Bool.or_eq_true, beq_iff_eq] at ha
  obtain ⟨hsa, hqa⟩ := ha
  obtain ⟨a1, a2, _⟩ := prio10_facts hqa
  generalize hn : st.nodes.size = n at *
  generalize hrtl : ((getDefinition o.type).2 == SecDef.binaryRightToLeft) = rtl at *
  generalize hdo : (getDefinition o.type).1 = dO at *
  generalize hso : (getDefinition o.type).2 = sO at *
  generalize hda : (getDefinition a.type).1 = dA at *
  generalize hsa' : (getDefinition a.type).2 = sA at *
  -- the operator step
  have hadj : adjustLastLeft st none = .ok st := by
    unfold adjustLastLeft; simp [hll, hb1, (prio10_facts hb2).1]
  obtain ⟨nodes', info, hpt, hn1, hl1, hc1, hnl1, hgs1, hcg1, hp1⟩ := step_binop_spec st st1 o ho hnnl hcg hadj h1
  rw [hll, hn, hdo, hso, hrtl] at hpt
  rw [hdo, hso] at hn1
  rw [hn] at hl1
  have hsz' : nodes'.size = n := by rw [(parseToken_size_def hpt).1, hn]
  have hchain : Chain st.nodes (rspineUp T) := by
    have := chain_of_tree hprios htree [] trivial rfl
    simpa using this
  have hhead : (rspineUp T).head? = some (n - 1) := by
    rw [rspineUp_head, hin, List.getLast?_range]; simp [Nat.ne_of_gt hpos]
  have hlen : (rspineUp T).length ≤ n := by
    have := rspineUp_length T; rw [hin] at this; simpa using this
  have hwalk := walkLoop_chain st.nodes q rtl (rspineUp T) (n + 1) 0 (some (n - 1)) hchain (by omega) (by omega)
  rw [hhead] at hwalk
  have hwalk : walkLoop st.nodes q none rtl (st.nodes.size + 1) 0 (some (n - 1)) (some (n - 1)) =
      .ok (walkSpec st.nodes q rtl (some (n - 1)) (rspineUp T)) := by rw [hn]; exact hwalk
  have hbot : bottomOK (prioAt st.nodes) q rtl T := by
    apply bottomOK_of_last
    intro b hb
    rw [hin, List.getLast?_range] at hb
    simp only [Nat.ne_of_gt hpos, if_false, Option.some.injEq] at hb
    subst hb
    have : prioAt st.nodes (n - 1) = 10 := by simp [prioAt, hb1, hb2]
    rw [this]; exact stops_ten rtl hq10
  have hnd : T.inorder.Nodup := by rw [hin]; exact List.nodup_range
  have hmem : ∀ j, j ∈ T.inorder ↔ j < n := by intro j; rw [hin]; exact List.mem_range
  obtain ⟨hS, hN⟩ := walk_insert st.nodes q rtl n o.col a.col htree rt rfl hnd hbot (some (n - 1))
  -- the value step
  let opn : ParseNode := ⟨dO, sO, info.parent, info.left, info.right, o⟩
  have hn1' : st1.nodes = nodes'.push opn := hn1
  have hs1 : st1.nodes.size = n + 1 := by rw [hn1']; simp [hsz']
  have hopn : st1.nodes[n]? = some opn := by rw [hn1', ← hsz']; simp
  have hadj1 : adjustLastLeft st1 none = .ok st1 := by
    unfold adjustLastLeft
    have : (dO == Definition.sideEffect) = false := not_sideEffect_of_not_groupLike f4
    simp [hl1, hopn, opn, this]
  have hs : (getDefinition a.type).2 = .value ∨ (getDefinition a.type).2 = .identifier := by rw [hsa']; exact hsa
  obtain ⟨nodes'', info2, hpt2, hn2, hl2, hc2, hnl2, hgs2, hcg2, hp2⟩ :=
    step_atom_spec st1 st2 a il hs (by rw [hda]; exact a2) hc1 hnl1 hcg1 hadj1 h2
  rw [hl1, hda] at hpt2
  rw [hda, hsa'] at hn2
  have hir : info.right = some (n + 1) := by
    have := (parseToken_size_def hpt).2
    -- `right` is returned unchanged in every branch: read it off the two specifications below
    rcases hw : walkSpec st.nodes q rtl (some (n - 1)) (rspineUp T) with ⟨tl, par⟩
    cases par with
    | some x =>
      obtain ⟨tlv, t', nx, e1, _, _, ne, hx, hxr, _, _⟩ := hS tl x hw
      subst e1
      rw [hw] at hwalk
      exact (parseToken_stop hq hwalk ne hx hxr hpt).1 ▸ rfl
    | none =>
      obtain ⟨e1, _, _⟩ := hN tl hw
      subst e1
      rw [hw] at hwalk
      exact (parseToken_root hq hwalk hpt).1 ▸ rfl
  have hatom := parseToken_atom (nodes := st1.nodes) (m := n) (qo := q) (on := opn) hqa hopn (by simpa [opn] using hq) hq10
    (by simp [opn, hir, hs1]) hpt2
  obtain ⟨hinfo2, hg2⟩ := hatom
  have hsz'' : nodes''.size = n + 1 := by
    have := (parseToken_size_def hpt2).1; omega
  let lf : ParseNode := ⟨renameDef dA info2.parent nodes'', sA, info2.parent, info2.left, info2.right, a⟩
  have hn2' : st2.nodes = nodes''.push lf := hn2
  -- the final array, pointwise
  have harr_lt : ∀ j, j < n → st2.nodes[j]? = nodes'[j]? := by
    intro j hj
    rw [hn2', Array.getElem?_push, if_neg (by omega), hg2 j, hn1', Array.getElem?_push, if_neg (by omega)]
  have harr_n : st2.nodes[n]? = some opn := by
    rw [hn2', Array.getElem?_push, if_neg (by omega), hg2 n, hopn]
  have harr_n1 : st2.nodes[n + 1]? = some lf := by rw [hn2', ← hsz'']; simp
  have hsz2 : st2.nodes.size = n + 2 := by rw [hn2']; simp [hsz'']
  have hlfdef : lf.definition = leafDef dO dA := by
    show renameDef dA info2.parent nodes'' = leafDef dO dA
    rw [hinfo2]
    have hnn : nodes''[n]? = some opn := by rw [hg2 n, hopn]
    unfold renameDef leafDef
    cases dA <;> simp [hnn, opn]
  have hlf : lf.parent = some n ∧ lf.left = none ∧ lf.right = none ∧ tokPos lf = a.col := by
    show info2.parent = _ ∧ info2.left = _ ∧ info2.right = _ ∧ _
    rw [hinfo2]; exact ⟨rfl, rfl, rfl, rfl⟩
  -- case analysis on the walk
  rcases hw : walkSpec st.nodes q rtl (some (n - 1)) (rspineUp T) with ⟨tl, par⟩
  rw [hw] at hwalk
  have key : ∃ rt', IsTreeAt st2.nodes none (some rt') (insertI (prioAt st.nodes) q rtl n o.col a.col T) ∧
      (∀ j, j < n → (nodes'[j]?).map (·.definition) = (st.nodes[j]?).map (·.definition)) := by
    cases par with
    | some x =>
      obtain ⟨tlv, t', nx, e1, m1, m2, ne, hx, hxr, habs, harr⟩ := hS tl x hw
      subst e1
      obtain ⟨hinfo, hg⟩ := parseToken_stop hq hwalk ne hx hxr hpt
      refine ⟨rt, ?_, ?_⟩
      · unfold insertI; rw [habs]
        apply harr st2.nodes
        · intro j hj h1 h2
          rw [harr_lt j ((hmem j).mp hj), hg j, if_neg h1, if_neg h2]
        · rw [harr_lt tlv ((hmem tlv).mp m1), hg tlv, if_pos rfl]
        · rw [harr_lt x ((hmem x).mp m2), hg x, if_neg (fun e => ne e.symm), if_pos rfl]
        · refine ⟨⟨opn, harr_n, ?_, ?_, ?_, rfl⟩, ⟨lf, harr_n1, hlf.1, hlf.2.1, hlf.2.2.1, hlf.2.2.2⟩⟩
          · show info.parent = _; rw [hinfo]
          · show info.left = _; rw [hinfo]
          · show info.right = _; rw [hinfo]
      · intro j _
        rw [hg j]
        split
        · exact map_def_setParent _ _
        · split
          · exact map_def_setRight _ _
          · rfl
    | none =>
      obtain ⟨e1, habs, harr⟩ := hN tl hw
      subst e1
      obtain ⟨hinfo, hg⟩ := parseToken_root hq hwalk hpt
      refine ⟨n, ?_, ?_⟩
      · unfold insertI; rw [habs]
        apply newOp_isTreeAt (tlv := rt)
        · refine ⟨⟨opn, harr_n, ?_, ?_, ?_, rfl⟩, ⟨lf, harr_n1, hlf.1, hlf.2.1, hlf.2.2.1, hlf.2.2.2⟩⟩
          · show info.parent = _; rw [hinfo]
          · show info.left = _; rw [hinfo]
          · show info.right = _; rw [hinfo]
        · apply harr st2.nodes
          · intro j hj h1
            rw [harr_lt j ((hmem j).mp hj), hg j, if_neg h1]
          · have hrt : rt < n := (hmem rt).mp htree.root_mem
            rw [harr_lt rt hrt, hg rt, if_pos rfl]
      · intro j _
        rw [hg j]
        split
        · exact map_def_setParent _ _
        · rfl
  obtain ⟨rt', htree', hdefs⟩ := key
  have hdefs2 : ∀ j, j < n → (st2.nodes[j]?).map (·.definition) = (st.nodes[j]?).map (·.definition) := by
    intro j hj; rw [harr_lt j hj]; exact hdefs j hj
  refine ⟨q, rt', hq, ?_, hsz2, hdefs2, ?_, ?_⟩
  · refine ⟨htree', ?_, by omega, ?_, hc2, hnl2, by rw [hgs2, hgs1, hgs], hcg2, ?_, ?_, ?_⟩
    · rw [insertI_inorder, hin, hsz2, List.range_succ, List.range_succ]; simp
    · rw [hl2, hs1, hsz2]; rfl
    · intro i nd hi
      by_cases h1 : i < n
      · have := hdefs2 i h1
        rw [hi] at this
        cases hsi : st.nodes[i]? with
        | none => rw [hsi] at this; cases this
        | some nd0 =>
          rw [hsi] at this
          simp only [Option.map_some, Option.some.injEq] at this
          rw [this]; exact hprios i nd0 hsi
      · by_cases h2 : i = n
        · subst h2; rw [harr_n] at hi; injection hi with hi; subst hi; exact ⟨q, hq⟩
        · by_cases h3 : i = n + 1
          · subst h3; rw [harr_n1] at hi; injection hi with hi; subst hi
            exact ⟨10, by rw [hlfdef]; exact leafDef_prio hqa⟩
          · have : st2.nodes[i]? = none := by
              apply Array.getElem?_eq_none; omega
            rw [this] at hi; cases hi
    · refine ⟨lf, ?_, by rw [hlfdef]; exact leafDef_prio hqa⟩
      rw [hsz2]; exact harr_n1
    · rw [hp2, hsa']; exact hsa
  · simp [dfOf, harr_n, opn]
  · simp only [dfOf, harr_n1, Option.map_some, Option.getD_some]; exact hlfdef

end Garnish.Spec
